import GeoModel.ObjDriver
open Geo Driver

partial def loop (hin : IO.FS.Stream) (hout : IO.FS.Stream) (w : World) : IO Unit := do
  let line ← hin.getLine
  if line.isEmpty then return ()
  let (w', out) := stepW w line
  hout.putStrLn out
  loop hin hout w'

def main : IO Unit := do
  let hin ← IO.getStdin
  let hout ← IO.getStdout
  loop hin hout {}
  hout.flush
