/-
  GeoProofs.Index.QTree — tree-level correctness of the quadtree (geometry/qtree.go):
  insertion keeps every item inside the bounds of every node on its path (for ANY `mid`),
  and the search visits exactly the items whose box meets the query, each once.
-/
import GeoProofs.Index.Order

namespace Geo

section
variable {α : Type} [Carrier α]

/-! ## basic observers -/

/-- items of the node followed by those of q0..q3 -/
def QNode.allItems : QNode → List Nat
  | .nil => []
  | .node _ items q0 q1 q2 q3 =>
    items ++ (q0.allItems ++ (q1.allItems ++ (q2.allItems ++ q3.allItems)))

def QNode.depth : QNode → Nat
  | .nil => 0
  | .node _ _ q0 q1 q2 q3 => 1 + max (max q0.depth q1.depth) (max q2.depth q3.depth)

def QNode.isSplit : QNode → Bool
  | .nil => false
  | .node s _ _ _ _ _ => s

/-- the node's own item list -/
def QNode.items : QNode → List Nat
  | .nil => []
  | .node _ its _ _ _ _ => its

def QNode.kidsNil : QNode → Prop
  | .nil => True
  | .node _ _ q0 q1 q2 q3 => q0 = .nil ∧ q1 = .nil ∧ q2 = .nil ∧ q3 = .nil

/-- maximal length of an item list in the tree -/
def QNode.maxLen : QNode → Nat
  | .nil => 0
  | .node _ items q0 q1 q2 q3 =>
    max items.length (max (max q0.maxLen q1.maxLen) (max q2.maxLen q3.maxLen))

@[simp] theorem QNode.allItems_nil : QNode.nil.allItems = [] := rfl
@[simp] theorem QNode.allItems_empty : QNode.empty.allItems = [] := rfl
@[simp] theorem QNode.depth_nil : QNode.nil.depth = 0 := rfl
@[simp] theorem QNode.depth_empty : QNode.empty.depth = 1 := rfl
@[simp] theorem QNode.isNil_nil : QNode.nil.isNil = true := rfl
@[simp] theorem QNode.isNil_node (s : Bool) (its : List Nat) (a b c d : QNode) :
    (QNode.node s its a b c d).isNil = false := rfl
@[simp] theorem QNode.isNil_empty : QNode.empty.isNil = false := rfl

theorem QNode.isNil_eq_true {n : QNode} : n.isNil = true ↔ n = .nil := by
  cases n <;> simp

theorem QNode.items_length_le_maxLen (n : QNode) : n.items.length ≤ n.maxLen := by
  cases n with
  | nil => simp [QNode.items, QNode.maxLen]
  | node s its a b c d => simp only [QNode.items, QNode.maxLen]; omega

/-! ## permutations via counting -/

theorem perm_of_count {l₁ l₂ : List Nat} (h : ∀ a, l₁.count a = l₂.count a) : l₁.Perm l₂ :=
  List.perm_iff_count.mpr h

/-! ## `push`, `setQuad`, `quad` -/

theorem QNode.push_allItems (n : QNode) (it : Nat) : (n.push it).allItems.Perm (it :: n.allItems) := by
  apply perm_of_count
  intro a
  cases n with
  | nil => simp [QNode.push, QNode.allItems]
  | node s its q0 q1 q2 q3 =>
    simp only [QNode.push, QNode.allItems, List.count_append, List.count_cons, List.count_nil]
    omega

@[simp] theorem QNode.push_isNil (n : QNode) (it : Nat) : (n.push it).isNil = false := by
  cases n <;> rfl

theorem QNode.push_depth (n : QNode) (it : Nat) : (n.push it).depth = max n.depth 1 := by
  cases n with
  | nil => simp [QNode.push, QNode.depth]
  | node s its q0 q1 q2 q3 => simp only [QNode.push, QNode.depth]; omega

theorem QNode.setQuad_allItems {n c : QNode} {k item : Nat} (hn : n.isNil = false) (hk : k < 4)
    (hc : c.allItems.Perm (item :: (n.quad k).allItems)) :
    (n.setQuad k c).allItems.Perm (item :: n.allItems) := by
  apply perm_of_count
  intro a
  have hc' := List.perm_iff_count.mp hc a
  cases n with
  | nil => simp at hn
  | node s its q0 q1 q2 q3 =>
    have hk' : k = 0 ∨ k = 1 ∨ k = 2 ∨ k = 3 := by omega
    rcases hk' with rfl | rfl | rfl | rfl <;>
      simp only [QNode.setQuad, QNode.quad, QNode.allItems, List.count_append, List.count_cons] at hc' ⊢ <;>
      omega

theorem QNode.setQuad_isNil {n : QNode} (hn : n.isNil = false) (k : Nat) (c : QNode) :
    (n.setQuad k c).isNil = false := by
  cases n with
  | nil => simp at hn
  | node s its q0 q1 q2 q3 =>
    simp only [QNode.setQuad]
    split <;> rfl

theorem QNode.setQuad_depth {n : QNode} (hn : n.isNil = false) {k : Nat} (hk : k < 4) (c : QNode) :
    (n.setQuad k c).depth ≤ max n.depth (1 + c.depth) := by
  cases n with
  | nil => simp at hn
  | node s its q0 q1 q2 q3 =>
    have hk' : k = 0 ∨ k = 1 ∨ k = 2 ∨ k = 3 := by omega
    rcases hk' with rfl | rfl | rfl | rfl <;> simp only [QNode.setQuad, QNode.depth] <;> omega

theorem QNode.quad_depth_lt {n : QNode} (hn : n.isNil = false) (k : Nat) :
    (n.quad k).depth + 1 ≤ n.depth := by
  cases n with
  | nil => simp at hn
  | node s its q0 q1 q2 q3 =>
    simp only [QNode.quad]
    split <;> simp only [QNode.depth] <;> omega

/-! ## restatement of `qInsert` with its local helper `intoQuad` lifted out -/

/-- the local `intoQuad` of `qInsert`. -/
def intoQuad (boxOf : Nat → GBox α) (fuel : Nat) (bounds : GBox α) (n : QNode) (rect : GBox α)
    (item : Nat) : QNode :=
  match chooseQuad bounds rect with
  | none => n.push item
  | some q => n.setQuad q (qInsert boxOf fuel (n.quad q) (quadBounds bounds q) rect item)

def QNode.markSplit : QNode → QNode
  | .nil => .nil
  | .node _ its a b c d => .node true its a b c d

theorem qInsert_zero (boxOf : Nat → GBox α) (n : QNode) (bounds rect : GBox α) (item : Nat) :
    qInsert boxOf 0 n bounds rect item = n.push item := rfl

theorem qInsert_succ_nil (boxOf : Nat → GBox α) (fuel : Nat) (bounds rect : GBox α) (item : Nat) :
    qInsert boxOf (fuel + 1) .nil bounds rect item =
      qInsert boxOf (fuel + 1) QNode.empty bounds rect item := rfl

theorem qInsert_succ_node (boxOf : Nat → GBox α) (fuel : Nat) (split : Bool) (items : List Nat)
    (q0 q1 q2 q3 : QNode) (bounds rect : GBox α) (item : Nat) :
    qInsert boxOf (fuel + 1) (.node split items q0 q1 q2 q3) bounds rect item =
      if split then intoQuad boxOf fuel bounds (.node split items q0 q1 q2 q3) rect item
      else if items.length == qMaxItems then
        intoQuad boxOf fuel bounds
          (items.foldl (fun acc it => intoQuad boxOf fuel bounds acc (boxOf it) it)
            (.node false [] q0 q1 q2 q3)).markSplit rect item
      else (QNode.node split items q0 q1 q2 q3).push item := rfl

variable (boxOf : Nat → GBox α)

/-! ## insertion never returns nil -/

theorem intoQuad_isNil {fuel : Nat} {bounds rect : GBox α} {item : Nat} {n : QNode}
    (hn : n.isNil = false) : (intoQuad boxOf fuel bounds n rect item).isNil = false := by
  unfold intoQuad
  split
  · simp
  · exact QNode.setQuad_isNil hn _ _

@[simp] theorem QNode.markSplit_isNil (n : QNode) : n.markSplit.isNil = n.isNil := by
  cases n <;> rfl
@[simp] theorem QNode.markSplit_allItems (n : QNode) : n.markSplit.allItems = n.allItems := by
  cases n <;> rfl
@[simp] theorem QNode.markSplit_depth (n : QNode) : n.markSplit.depth = n.depth := by
  cases n <;> rfl
@[simp] theorem QNode.markSplit_quad (n : QNode) (k : Nat) : n.markSplit.quad k = n.quad k := by
  cases n <;> rfl
theorem QNode.markSplit_isSplit {n : QNode} (hn : n.isNil = false) : n.markSplit.isSplit = true := by
  cases n with
  | nil => simp at hn
  | node => rfl

theorem foldl_intoQuad_isNil {fuel : Nat} {bounds : GBox α} (items : List Nat) {acc : QNode}
    (h : acc.isNil = false) :
    (items.foldl (fun acc it => intoQuad boxOf fuel bounds acc (boxOf it) it) acc).isNil = false := by
  induction items generalizing acc with
  | nil => exact h
  | cons it items ih => exact ih (intoQuad_isNil boxOf h)

theorem qInsert_isNil (fuel : Nat) (n : QNode) (bounds rect : GBox α) (item : Nat) :
    (qInsert boxOf fuel n bounds rect item).isNil = false := by
  cases fuel with
  | zero => simp [qInsert_zero]
  | succ fuel =>
    have key : ∀ split items q0 q1 q2 q3,
        (qInsert boxOf (fuel + 1) (.node split items q0 q1 q2 q3) bounds rect item).isNil = false := by
      intro split items q0 q1 q2 q3
      rw [qInsert_succ_node]
      split
      · exact intoQuad_isNil boxOf rfl
      · split
        · apply intoQuad_isNil
          rw [QNode.markSplit_isNil]
          exact foldl_intoQuad_isNil boxOf items rfl
        · simp
    cases n with
    | nil => rw [qInsert_succ_nil]; exact key _ _ _ _ _ _
    | node split items q0 q1 q2 q3 => exact key _ _ _ _ _ _

/-! ## insertion adds exactly the item -/

theorem intoQuad_allItems {fuel : Nat}
    (ih : ∀ n' (b' r' : GBox α) it',
      (qInsert boxOf fuel n' b' r' it').allItems.Perm (it' :: n'.allItems))
    {bounds rect : GBox α} {item : Nat} {n : QNode} (hn : n.isNil = false) :
    (intoQuad boxOf fuel bounds n rect item).allItems.Perm (item :: n.allItems) := by
  unfold intoQuad
  split
  · exact n.push_allItems item
  · next k hk => exact QNode.setQuad_allItems hn (chooseQuad_lt_four hk) (ih _ _ _ _)

theorem foldl_intoQuad_allItems {fuel : Nat}
    (ih : ∀ n' (b' r' : GBox α) it',
      (qInsert boxOf fuel n' b' r' it').allItems.Perm (it' :: n'.allItems))
    {bounds : GBox α} (items : List Nat) {acc : QNode} (h : acc.isNil = false) :
    (items.foldl (fun acc it => intoQuad boxOf fuel bounds acc (boxOf it) it) acc).allItems.Perm
      (items ++ acc.allItems) := by
  induction items generalizing acc with
  | nil => exact List.Perm.refl _
  | cons it items ih2 =>
    rw [List.foldl_cons]
    refine (ih2 (intoQuad_isNil boxOf h)).trans ?_
    refine (List.Perm.append_left items (intoQuad_allItems boxOf ih h)).trans ?_
    exact List.perm_middle

theorem qInsert_items (fuel : Nat) (n : QNode) (bounds rect : GBox α) (item : Nat) :
    (qInsert boxOf fuel n bounds rect item).allItems.Perm (item :: n.allItems) := by
  induction fuel generalizing n bounds rect item with
  | zero => exact n.push_allItems item
  | succ fuel ih =>
    have key : ∀ split items q0 q1 q2 q3,
        (qInsert boxOf (fuel + 1) (.node split items q0 q1 q2 q3) bounds rect item).allItems.Perm
          (item :: (QNode.node split items q0 q1 q2 q3).allItems) := by
      intro split items q0 q1 q2 q3
      rw [qInsert_succ_node]
      split
      · exact intoQuad_allItems boxOf ih rfl
      · split
        · refine (intoQuad_allItems boxOf ih ?_).trans ?_
          · rw [QNode.markSplit_isNil]; exact foldl_intoQuad_isNil boxOf items rfl
          · rw [QNode.markSplit_allItems]
            exact List.Perm.cons _ (foldl_intoQuad_allItems boxOf ih items rfl)
        · exact QNode.push_allItems _ _
    cases n with
    | nil => rw [qInsert_succ_nil]; exact key _ _ _ _ _ _
    | node split items q0 q1 q2 q3 => exact key _ _ _ _ _ _

/-! ## depth -/

theorem intoQuad_depth {fuel : Nat}
    (ih : ∀ n' (b' r' : GBox α) it',
      (qInsert boxOf fuel n' b' r' it').depth ≤ max n'.depth (fuel + 1))
    {bounds rect : GBox α} {item : Nat} {n : QNode} (hn : n.isNil = false) :
    (intoQuad boxOf fuel bounds n rect item).depth ≤ max n.depth (fuel + 2) := by
  unfold intoQuad
  split
  · rw [QNode.push_depth]; omega
  · next k hk =>
    have h1 := QNode.setQuad_depth hn (chooseQuad_lt_four hk)
      (qInsert boxOf fuel (n.quad k) (quadBounds bounds k) rect item)
    have h2 := ih (n.quad k) (quadBounds bounds k) rect item
    have h3 := QNode.quad_depth_lt hn k
    omega

theorem foldl_intoQuad_depth {fuel : Nat}
    (ih : ∀ n' (b' r' : GBox α) it',
      (qInsert boxOf fuel n' b' r' it').depth ≤ max n'.depth (fuel + 1))
    {bounds : GBox α} (items : List Nat) {acc : QNode} (h : acc.isNil = false) :
    (items.foldl (fun acc it => intoQuad boxOf fuel bounds acc (boxOf it) it) acc).depth ≤
      max acc.depth (fuel + 2) := by
  induction items generalizing acc with
  | nil => simp only [List.foldl_nil]; omega
  | cons it items ih2 =>
    rw [List.foldl_cons]
    have h1 := ih2 (intoQuad_isNil boxOf (rect := boxOf it) (item := it) (bounds := bounds) (fuel := fuel) h)
    have h2 := intoQuad_depth boxOf ih (bounds := bounds) (rect := boxOf it) (item := it) h
    omega

theorem qInsert_depth (fuel : Nat) (n : QNode) (bounds rect : GBox α) (item : Nat) :
    (qInsert boxOf fuel n bounds rect item).depth ≤ max n.depth (fuel + 1) := by
  induction fuel generalizing n bounds rect item with
  | zero => rw [qInsert_zero, QNode.push_depth]; omega
  | succ fuel ih =>
    have key : ∀ split items q0 q1 q2 q3,
        (qInsert boxOf (fuel + 1) (.node split items q0 q1 q2 q3) bounds rect item).depth ≤
          max (QNode.node split items q0 q1 q2 q3).depth (fuel + 1 + 1) := by
      intro split items q0 q1 q2 q3
      rw [qInsert_succ_node]
      split
      · exact intoQuad_depth boxOf ih rfl
      · split
        · have h0 : (items.foldl (fun acc it => intoQuad boxOf fuel bounds acc (boxOf it) it)
              (.node false [] q0 q1 q2 q3)).markSplit.isNil = false := by
            rw [QNode.markSplit_isNil]; exact foldl_intoQuad_isNil boxOf items rfl
          have h1 := intoQuad_depth boxOf ih (bounds := bounds) (rect := rect) (item := item) h0
          have h2 := foldl_intoQuad_depth boxOf ih (bounds := bounds) items
            (acc := .node false [] q0 q1 q2 q3) rfl
          rw [QNode.markSplit_depth] at h1
          have h3 : (QNode.node false [] q0 q1 q2 q3).depth = (QNode.node split items q0 q1 q2 q3).depth := rfl
          omega
        · rw [QNode.push_depth]; omega
    cases n with
    | nil =>
      rw [qInsert_succ_nil]
      have := key false [] .nil .nil .nil .nil
      simp only [QNode.depth_nil] at *
      have h1 : (QNode.node false [] .nil .nil .nil .nil).depth = 1 := rfl
      unfold QNode.empty
      omega
    | node split items q0 q1 q2 q3 => exact key _ _ _ _ _ _

/-! ## the containment invariant -/

/-- every item stored anywhere below a node has its box inside the node's bounds (recursively,
    with `quadBounds` for the children); non-split nodes have nil children. -/
def QInv (boxOf : Nat → GBox α) : QNode → GBox α → Prop
  | .nil, _ => True
  | .node split items q0 q1 q2 q3, b =>
    (∀ i ∈ (QNode.node split items q0 q1 q2 q3).allItems, boxOf i ⊆ b) ∧
    (split = false → q0 = .nil ∧ q1 = .nil ∧ q2 = .nil ∧ q3 = .nil) ∧
    QInv boxOf q0 (quadBounds b 0) ∧ QInv boxOf q1 (quadBounds b 1) ∧
    QInv boxOf q2 (quadBounds b 2) ∧ QInv boxOf q3 (quadBounds b 3)

/-- the invariant without the clause about the split flag -/
def QInvS (n : QNode) (b : GBox α) : Prop :=
  (∀ i ∈ n.allItems, boxOf i ⊆ b) ∧ ∀ k, k < 4 → QInv boxOf (n.quad k) (quadBounds b k)

theorem qinv_iff (n : QNode) (b : GBox α) :
    QInv boxOf n b ↔ QInvS boxOf n b ∧ (n.isSplit = false → n.kidsNil) := by
  cases n with
  | nil => simp [QInv, QInvS, QNode.quad, QNode.kidsNil]
  | node split items q0 q1 q2 q3 =>
    simp only [QInv, QInvS, QNode.isSplit, QNode.kidsNil]
    constructor
    · rintro ⟨h1, h2, h3, h4, h5, h6⟩
      refine ⟨⟨h1, fun k hk => ?_⟩, h2⟩
      have hk' : k = 0 ∨ k = 1 ∨ k = 2 ∨ k = 3 := by omega
      rcases hk' with rfl | rfl | rfl | rfl <;> assumption
    · rintro ⟨⟨h1, hk⟩, h2⟩
      exact ⟨h1, h2, hk 0 (by omega), hk 1 (by omega), hk 2 (by omega), hk 3 (by omega)⟩

theorem QInv.items_subset {n : QNode} {b : GBox α} (h : QInv boxOf n b) :
    ∀ i ∈ n.allItems, boxOf i ⊆ b := ((qinv_iff boxOf n b).mp h).1.1

theorem QNode.quad_setQuad {n : QNode} (hn : n.isNil = false) {k j : Nat} (hk : k < 4) (hj : j < 4)
    (c : QNode) : (n.setQuad k c).quad j = if j = k then c else n.quad j := by
  cases n with
  | nil => simp at hn
  | node s its q0 q1 q2 q3 =>
    have hk' : k = 0 ∨ k = 1 ∨ k = 2 ∨ k = 3 := by omega
    have hj' : j = 0 ∨ j = 1 ∨ j = 2 ∨ j = 3 := by omega
    rcases hk' with rfl | rfl | rfl | rfl <;> rcases hj' with rfl | rfl | rfl | rfl <;>
      simp [QNode.setQuad, QNode.quad]

theorem QNode.quad_push (n : QNode) (it j : Nat) : (n.push it).quad j = n.quad j := by
  cases n with
  | nil => simp only [QNode.push, QNode.quad]; split <;> rfl
  | node s its q0 q1 q2 q3 => rfl

@[simp] theorem QNode.push_isSplit (n : QNode) (it : Nat) : (n.push it).isSplit = n.isSplit := by
  cases n <;> rfl

theorem QNode.setQuad_isSplit (n : QNode) (k : Nat) (c : QNode) :
    (n.setQuad k c).isSplit = n.isSplit := by
  cases n with
  | nil => rfl
  | node s its q0 q1 q2 q3 => simp only [QNode.setQuad]; split <;> rfl

theorem QNode.push_kidsNil {n : QNode} (h : n.kidsNil) (it : Nat) : (n.push it).kidsNil := by
  cases n with
  | nil => simp [QNode.push, QNode.kidsNil]
  | node s its q0 q1 q2 q3 => exact h

theorem intoQuad_isSplit (fuel : Nat) (bounds rect : GBox α) (item : Nat) (n : QNode) :
    (intoQuad boxOf fuel bounds n rect item).isSplit = n.isSplit := by
  unfold intoQuad
  split
  · simp
  · exact QNode.setQuad_isSplit _ _ _

theorem intoQuad_invS [LawfulCarrier α] {fuel : Nat}
    (ih : ∀ n' (b' : GBox α) it', QInv boxOf n' b' → boxOf it' ⊆ b' →
      QInv boxOf (qInsert boxOf fuel n' b' (boxOf it') it') b')
    {bounds : GBox α} {item : Nat} {n : QNode} (hn : n.isNil = false)
    (hinv : QInvS boxOf n bounds) (hsub : boxOf item ⊆ bounds) :
    QInvS boxOf (intoQuad boxOf fuel bounds n (boxOf item) item) bounds := by
  constructor
  · intro i hi
    have := (intoQuad_allItems boxOf (fun n' b' r' it' => qInsert_items boxOf fuel n' b' r' it')
      (bounds := bounds) (rect := boxOf item) (item := item) hn).mem_iff.mp hi
    rcases List.mem_cons.mp this with rfl | h
    · exact hsub
    · exact hinv.1 i h
  · intro j hj
    unfold intoQuad
    split
    · rw [QNode.quad_push]; exact hinv.2 j hj
    · next k hk =>
      have hk4 := chooseQuad_lt_four hk
      rw [QNode.quad_setQuad hn hk4 hj]
      split
      · next hjk =>
        subst hjk
        exact ih _ _ _ (hinv.2 j hj) (chooseQuad_subset hk hsub)
      · exact hinv.2 j hj

theorem foldl_intoQuad_invS [LawfulCarrier α] {fuel : Nat}
    (ih : ∀ n' (b' : GBox α) it', QInv boxOf n' b' → boxOf it' ⊆ b' →
      QInv boxOf (qInsert boxOf fuel n' b' (boxOf it') it') b')
    {bounds : GBox α} (items : List Nat) (hitems : ∀ i ∈ items, boxOf i ⊆ bounds)
    {acc : QNode} (hn : acc.isNil = false) (hinv : QInvS boxOf acc bounds) :
    QInvS boxOf (items.foldl (fun acc it => intoQuad boxOf fuel bounds acc (boxOf it) it) acc)
      bounds := by
  induction items generalizing acc with
  | nil => exact hinv
  | cons it items ih2 =>
    rw [List.foldl_cons]
    exact ih2 (fun i hi => hitems i (by simp [hi])) (intoQuad_isNil boxOf hn)
      (intoQuad_invS boxOf ih hn hinv (hitems it (by simp)))

theorem QInvS.markSplit {n : QNode} {b : GBox α} (h : QInvS boxOf n b) :
    QInvS boxOf n.markSplit b := by
  unfold QInvS at *
  simpa using h

/-- insertion keeps the containment invariant — for ANY `mid`. -/
theorem qInsert_inv [LawfulCarrier α] (fuel : Nat) (n : QNode) (bounds : GBox α) (item : Nat)
    (hinv : QInv boxOf n bounds) (hsub : boxOf item ⊆ bounds) :
    QInv boxOf (qInsert boxOf fuel n bounds (boxOf item) item) bounds := by
  induction fuel generalizing n bounds item with
  | zero =>
    rw [qInsert_zero, qinv_iff] at *
    refine ⟨⟨?_, ?_⟩, ?_⟩
    · intro i hi
      rcases List.mem_cons.mp ((n.push_allItems item).mem_iff.mp hi) with rfl | h
      · exact hsub
      · exact hinv.1.1 i h
    · intro k hk; rw [QNode.quad_push]; exact hinv.1.2 k hk
    · rw [QNode.push_isSplit]; intro h; exact QNode.push_kidsNil (hinv.2 h) _
  | succ fuel ih =>
    have key : ∀ split items q0 q1 q2 q3, QInv boxOf (.node split items q0 q1 q2 q3) bounds →
        QInv boxOf (qInsert boxOf (fuel + 1) (.node split items q0 q1 q2 q3) bounds (boxOf item) item)
          bounds := by
      intro split items q0 q1 q2 q3 hinv
      rw [qInsert_succ_node]
      have hS := ((qinv_iff boxOf _ _).mp hinv).1
      split
      · next hsp =>
        rw [qinv_iff]
        refine ⟨intoQuad_invS boxOf ih rfl hS hsub, ?_⟩
        rw [intoQuad_isSplit]
        simp [QNode.isSplit, hsp]
      · split
        · rw [qinv_iff]
          have hfn : (items.foldl (fun acc it => intoQuad boxOf fuel bounds acc (boxOf it) it)
              (.node false [] q0 q1 q2 q3)).isNil = false := foldl_intoQuad_isNil boxOf items rfl
          have hcl : QInvS boxOf (.node false [] q0 q1 q2 q3) bounds := by
            refine ⟨fun i hi => hS.1 i ?_, hS.2⟩
            simp only [QNode.allItems, List.nil_append] at hi
            simp only [QNode.allItems, List.mem_append]
            exact Or.inr (by simpa using hi)
          have hit : ∀ i ∈ items, boxOf i ⊆ bounds := fun i hi =>
            hS.1 i (by simp only [QNode.allItems, List.mem_append]; exact Or.inl hi)
          refine ⟨intoQuad_invS boxOf ih (by rw [QNode.markSplit_isNil]; exact hfn)
            (QInvS.markSplit boxOf (foldl_intoQuad_invS boxOf ih items hit rfl hcl)) hsub, ?_⟩
          rw [intoQuad_isSplit, QNode.markSplit_isSplit hfn]
          simp
        · rw [qinv_iff] at hinv ⊢
          refine ⟨⟨?_, ?_⟩, ?_⟩
          · intro i hi
            rcases List.mem_cons.mp ((QNode.push_allItems _ item).mem_iff.mp hi) with rfl | h
            · exact hsub
            · exact hinv.1.1 i h
          · intro k hk; rw [QNode.quad_push]; exact hinv.1.2 k hk
          · rw [QNode.push_isSplit]; intro h; exact QNode.push_kidsNil (hinv.2 h) _
    cases n with
    | nil =>
      rw [qInsert_succ_nil]
      apply key
      simp [QInv, QNode.allItems]
    | node split items q0 q1 q2 q3 => exact key _ _ _ _ _ _ hinv

/-! ## building -/

theorem qBuild_succ (bounds : GBox α) (k : Nat) :
    qBuild boxOf bounds (k + 1) = qInsert boxOf qMaxDepth (qBuild boxOf bounds k) bounds (boxOf k) k := by
  simp [qBuild, List.range_succ, List.foldl_append]

theorem qBuild_zero (bounds : GBox α) : qBuild boxOf bounds 0 = QNode.empty := rfl

theorem qBuild_spec [LawfulCarrier α] (bounds : GBox α) (nsegs : Nat)
    (hb : ∀ i, i < nsegs → boxOf i ⊆ bounds) :
    QInv boxOf (qBuild boxOf bounds nsegs) bounds ∧
    List.Perm (qBuild boxOf bounds nsegs).allItems (List.range nsegs) := by
  induction nsegs with
  | zero => simp [qBuild_zero, QNode.empty, QInv, QNode.allItems]
  | succ k ih =>
    have ⟨h1, h2⟩ := ih (fun i hi => hb i (by omega))
    rw [qBuild_succ]
    refine ⟨qInsert_inv boxOf _ _ _ _ h1 (hb k (by omega)), ?_⟩
    refine (qInsert_items boxOf _ _ _ _ _).trans ?_
    rw [List.range_succ]
    refine (List.Perm.cons k h2).trans ?_
    exact (List.perm_append_singleton k (List.range k)).symm

theorem qBuild_isNil (bounds : GBox α) (nsegs : Nat) : (qBuild boxOf bounds nsegs).isNil = false := by
  cases nsegs with
  | zero => rfl
  | succ k => rw [qBuild_succ]; exact qInsert_isNil boxOf _ _ _ _ _

/-- the tree built with initial fuel `qMaxDepth` has depth ≤ `qMaxDepth + 1`. -/
theorem qBuild_depth (bounds : GBox α) (nsegs : Nat) :
    (qBuild boxOf bounds nsegs).depth ≤ qMaxDepth + 1 := by
  induction nsegs with
  | zero => simp [qBuild_zero]
  | succ k ih =>
    rw [qBuild_succ]
    have := qInsert_depth boxOf qMaxDepth (qBuild boxOf bounds k) bounds (boxOf k) k
    omega

theorem QNode.maxLen_le_allItems (n : QNode) : n.maxLen ≤ n.allItems.length := by
  induction n with
  | nil => simp [QNode.maxLen]
  | node s its q0 q1 q2 q3 h0 h1 h2 h3 =>
    simp only [QNode.maxLen, QNode.allItems, List.length_append]
    omega

/-! ## search -/

section search
variable {σ : Type} (q : GBox α) (f : σ → Nat → σ × Bool)

/-- continue a possibly already stopped fold -/
def contU (f : σ → Nat → σ × Bool) (acc : σ × Bool) (l : List Nat) : σ × Bool :=
  if acc.2 then foldUntil f acc.1 l else acc

theorem foldUntil_nil (s : σ) : foldUntil f s [] = (s, true) := rfl

theorem foldUntil_cons (s : σ) (x : Nat) (xs : List Nat) :
    foldUntil f s (x :: xs) = if (f s x).2 then foldUntil f (f s x).1 xs else ((f s x).1, false) := by
  simp only [foldUntil]

theorem foldUntil_append (s : σ) (l1 l2 : List Nat) :
    foldUntil f s (l1 ++ l2) = contU f (foldUntil f s l1) l2 := by
  induction l1 generalizing s with
  | nil => simp [foldUntil_nil, contU]
  | cons x xs ih =>
    simp only [List.cons_append, foldUntil_cons]
    split
    · exact ih _
    · simp [contU]

theorem contU_contU (acc : σ × Bool) (l1 l2 : List Nat) :
    contU f (contU f acc l1) l2 = contU f acc (l1 ++ l2) := by
  unfold contU
  split
  · rw [foldUntil_append]; rfl
  · simp

theorem contU_nil (acc : σ × Bool) : contU f acc [] = acc := by
  unfold contU
  rcases acc with ⟨s, c⟩
  cases c <;> simp [foldUntil_nil]

theorem foldUntil_eq_contU (s : σ) (l : List Nat) : foldUntil f s l = contU f (s, true) l := by
  simp [contU]

theorem visitItems_eq_foldUntil (s : σ) (items : List Nat) :
    visitItems boxOf q f s items = foldUntil f s (items.filter (fun i => (boxOf i).meets q)) := by
  unfold visitItems
  induction items generalizing s with
  | nil => rfl
  | cons it items ih =>
    rw [foldUntil_cons, List.filter_cons]
    by_cases hm : (boxOf it).meets q = true
    · simp only [hm, if_true]
      rw [foldUntil_cons]
      split
      · exact ih _
      · rfl
    · simp only [hm]
      exact ih _

/-- the local `step` of `qSearchTree`. -/
def qStep (q bounds : GBox α) (acc : σ × Bool) (isNil : Bool) (qi : Nat) (rec : σ → σ × Bool) :
    σ × Bool :=
  if !acc.2 then acc
  else if isNil then acc
  else if (quadBounds bounds qi).meets q then rec acc.1 else acc

theorem qSearchTree_nil (bounds : GBox α) (s : σ) :
    qSearchTree boxOf q f .nil bounds s = (s, true) := rfl

theorem qSearchTree_node (split : Bool) (items : List Nat) (q0 q1 q2 q3 : QNode) (bounds : GBox α)
    (s : σ) :
    qSearchTree boxOf q f (.node split items q0 q1 q2 q3) bounds s =
      if !(visitItems boxOf q f s items).2 then ((visitItems boxOf q f s items).1, false)
      else if !split then ((visitItems boxOf q f s items).1, true)
      else
        qStep q bounds (qStep q bounds (qStep q bounds (qStep q bounds
          ((visitItems boxOf q f s items).1, true)
          q0.isNil 0 (qSearchTree boxOf q f q0 (quadBounds bounds 0)))
          q1.isNil 1 (qSearchTree boxOf q f q1 (quadBounds bounds 1)))
          q2.isNil 2 (qSearchTree boxOf q f q2 (quadBounds bounds 2)))
          q3.isNil 3 (qSearchTree boxOf q f q3 (quadBounds bounds 3)) := by
  rw [qSearchTree]
  rcases visitItems boxOf q f s items with ⟨s1, c1⟩
  rfl

/-- full visit order with no early stop: matching items of the node, then for each quad
    (in order 0..3) whose `quadBounds` meets `q`, its `qVisit` (a nil quad contributes `[]`). -/
def qVisit (boxOf : Nat → GBox α) (q : GBox α) : QNode → GBox α → List Nat
  | .nil, _ => []
  | .node split items q0 q1 q2 q3, b =>
    items.filter (fun i => (boxOf i).meets q) ++
      (if split then
        (if (quadBounds b 0).meets q then qVisit boxOf q q0 (quadBounds b 0) else []) ++
        ((if (quadBounds b 1).meets q then qVisit boxOf q q1 (quadBounds b 1) else []) ++
        ((if (quadBounds b 2).meets q then qVisit boxOf q q2 (quadBounds b 2) else []) ++
        (if (quadBounds b 3).meets q then qVisit boxOf q q3 (quadBounds b 3) else [])))
      else [])

theorem qStep_eq_contU (c : QNode) (bounds : GBox α) (k : Nat) (acc : σ × Bool)
    (hrec : ∀ b s, qSearchTree boxOf q f c b s = foldUntil f s (qVisit boxOf q c b)) :
    qStep q bounds acc c.isNil k (qSearchTree boxOf q f c (quadBounds bounds k)) =
      contU f acc (if (quadBounds bounds k).meets q then qVisit boxOf q c (quadBounds bounds k) else []) := by
  rcases acc with ⟨s, b⟩
  cases b with
  | false => simp [qStep, contU]
  | true =>
    cases c with
    | nil => simp [qStep, contU, qVisit, foldUntil_nil]
    | node sp its a b c d =>
      simp only [qStep, contU, QNode.isNil_node, hrec]
      by_cases hm : (quadBounds bounds k).meets q = true <;> simp [hm, foldUntil_nil]

/-- the tree search is the early-stopping fold of the callback over `qVisit`. -/
theorem qSearchTree_eq_foldUntil (n : QNode) (bounds : GBox α) (s : σ) :
    qSearchTree boxOf q f n bounds s = foldUntil f s (qVisit boxOf q n bounds) := by
  induction n generalizing bounds s with
  | nil => rfl
  | node split items q0 q1 q2 q3 ih0 ih1 ih2 ih3 =>
    rw [qSearchTree_node, qVisit, foldUntil_append, ← visitItems_eq_foldUntil]
    rcases hv : visitItems boxOf q f s items with ⟨s1, c1⟩
    cases c1 with
    | false => simp [contU]
    | true =>
      cases split with
      | false => simp [contU, foldUntil_nil]
      | true =>
        simp only [Bool.not_true, Bool.false_eq_true, if_false, if_true]
        rw [qStep_eq_contU boxOf q f q0 bounds 0 _ ih0, qStep_eq_contU boxOf q f q1 bounds 1 _ ih1,
          qStep_eq_contU boxOf q f q2 bounds 2 _ ih2, qStep_eq_contU boxOf q f q3 bounds 3 _ ih3]
        simp only [contU_contU, List.append_assoc]

/-- the visit order is a permutation of the items whose box meets the query
    (so: exactly those, each once). -/
theorem qVisit_perm_filter [LawfulCarrier α] (n : QNode) (bounds : GBox α)
    (h : QInv boxOf n bounds) :
    List.Perm (qVisit boxOf q n bounds) (n.allItems.filter (fun i => (boxOf i).meets q)) := by
  induction n generalizing bounds with
  | nil => simp [qVisit]
  | node split items q0 q1 q2 q3 ih0 ih1 ih2 ih3 =>
    obtain ⟨h1, h2, h3, h4, h5, h6⟩ := h
    simp only [qVisit, QNode.allItems, List.filter_append]
    apply List.Perm.append_left
    cases split with
    | false =>
      obtain ⟨rfl, rfl, rfl, rfl⟩ := h2 rfl
      simp
    | true =>
      simp only [if_true]
      have part : ∀ (c : QNode) (k : Nat), QInv boxOf c (quadBounds bounds k) →
          (∀ b, QInv boxOf c b →
            (qVisit boxOf q c b).Perm (c.allItems.filter (fun i => (boxOf i).meets q))) →
          (if (quadBounds bounds k).meets q then qVisit boxOf q c (quadBounds bounds k) else []).Perm
            (c.allItems.filter (fun i => (boxOf i).meets q)) := by
        intro c k hc ih
        split
        · exact ih _ hc
        · next hm =>
          have : c.allItems.filter (fun i => (boxOf i).meets q) = [] := by
            rw [List.filter_eq_nil_iff]
            intro i hi hmi
            exact hm (GBox.meets_of_subset (QInv.items_subset boxOf hc i hi) hmi)
          rw [this]
      exact (part q0 0 h3 ih0).append ((part q1 1 h4 ih1).append
        ((part q2 2 h5 ih2).append (part q3 3 h6 ih3)))

/-- tree-level exactness for the built tree. -/
theorem qBuild_search_exact [LawfulCarrier α] (bounds : GBox α) (nsegs : Nat)
    (hb : ∀ i, i < nsegs → boxOf i ⊆ bounds) :
    List.Perm (qVisit boxOf q (qBuild boxOf bounds nsegs) bounds)
      ((List.range nsegs).filter (fun i => (boxOf i).meets q)) := by
  have ⟨h1, h2⟩ := qBuild_spec boxOf bounds nsegs hb
  exact (qVisit_perm_filter boxOf q _ _ h1).trans (h2.filter _)

end search

end
end Geo

#print axioms Geo.qSearchTree_eq_foldUntil
#print axioms Geo.qVisit_perm_filter
#print axioms Geo.qInsert_inv
#print axioms Geo.qInsert_items
#print axioms Geo.qInsert_depth
#print axioms Geo.qBuild_spec
#print axioms Geo.qBuild_depth
#print axioms Geo.qBuild_isNil
#print axioms Geo.qBuild_search_exact
