/-
  GeoProofs.OptPred.Base — index independence lifted to the OBJECT level (C08, predicates):
  the quantifier "every series inside an object", `Obj.SearchOK`, the object-level relation
  `Obj.Sim` ("same object, possibly different index bytes / child-index flag, every search of
  either side is a fold over a permutation of the other's visit list"), and the bridge
  `ObsEq x x' → SearchOK x → SearchOK x' → Obj.Sim x x'`.
-/
import GeoProofs.Props.C08
import GeoProofs.Props.C04Indep
import GeoProofs.Props.C10

namespace Geo

/-! ### every series / polygon / line inside an object -/

def Ring.AllSer (P : Series → Prop) : Ring → Prop
  | .ser s => P s
  | .bx _ => True

def Poly.AllSer (P : Series → Prop) (p : Poly) : Prop :=
  (∀ e, p.ext = some e → e.AllSer P) ∧ ∀ h ∈ p.holes, h.AllSer P

mutual
/-- `PL` holds of every line string, `PP` of every polygon inside the object (recursively through
    collections and features) -/
def Obj.AllLeaf (PL : Line → Prop) (PP : Poly → Prop) : Obj → Prop
  | .lineString l _ _ => PL l
  | .polygon p _ _ => PP p
  | .coll _ cs _ _ => Obj.AllLeafL PL PP cs
  | .feature b _ => Obj.AllLeaf PL PP b
  | _ => True
def Obj.AllLeafL (PL : Line → Prop) (PP : Poly → Prop) : List Obj → Prop
  | [] => True
  | c :: cs => Obj.AllLeaf PL PP c ∧ Obj.AllLeafL PL PP cs
end

/-- `P` holds of every series inside the object: line strings, polygon exteriors and holes -/
def Obj.AllSer (P : Series → Prop) (x : Obj) : Prop := x.AllLeaf P (Poly.AllSer P)

/-- every series inside the object searches exactly (`Series.SearchExact`: each search is the
    early-exit fold over a permutation of the brute-force filter) -/
def Obj.SearchOK (x : Obj) : Prop := x.AllSer Series.SearchExact

/-- polygon exteriors (the containers of `contains` in the inclusive reading) are index safe -/
def Obj.ExtSafe (x : Obj) : Prop := x.AllLeaf (fun _ => True) Poly.ExtSafe
/-- polygon holes (containers in `Poly.containsPoly` when the polygon is the ARGUMENT) are index safe -/
def Obj.HolesSafe (x : Obj) : Prop := x.AllLeaf (fun _ => True) Poly.HolesSafe
/-- both: what `Geom.Sim.contains` needs, on every polygon leaf -/
def Obj.RingsSafe (x : Obj) : Prop := x.ExtSafe ∧ x.HolesSafe

theorem Obj.allLeafL_iff {PL : Line → Prop} {PP : Poly → Prop} :
    ∀ cs : List Obj, Obj.AllLeafL PL PP cs ↔ ∀ c ∈ cs, Obj.AllLeaf PL PP c
  | [] => by simp [Obj.AllLeafL]
  | c :: cs => by simp [Obj.AllLeafL, Obj.allLeafL_iff cs]

theorem Obj.allLeafL_append {PL : Line → Prop} {PP : Poly → Prop} {as bs : List Obj}
    (ha : Obj.AllLeafL PL PP as) (hb : Obj.AllLeafL PL PP bs) : Obj.AllLeafL PL PP (as ++ bs) := by
  rw [Obj.allLeafL_iff] at *
  intro c hc
  rcases List.mem_append.1 hc with h | h
  · exact ha c h
  · exact hb c h

mutual
/-- the property passes to the `ForEach` leaves -/
theorem Obj.allLeaf_leaves {PL : Line → Prop} {PP : Poly → Prop} :
    ∀ x : Obj, x.AllLeaf PL PP → Obj.AllLeafL PL PP x.leaves
  | .point _ _, h => ⟨h, trivial⟩
  | .spoint _, h => ⟨h, trivial⟩
  | .lineString _ _ _, h => ⟨h, trivial⟩
  | .polygon _ _ _, h => ⟨h, trivial⟩
  | .rectO _ _ _, h => ⟨h, trivial⟩
  | .circle _ _, h => ⟨h, trivial⟩
  | .feature _ _, h => ⟨h, trivial⟩
  | .coll _ cs _ _, h => by
    rw [Obj.leaves]
    exact Obj.allLeafL_leavesL cs h
theorem Obj.allLeafL_leavesL {PL : Line → Prop} {PP : Poly → Prop} :
    ∀ cs : List Obj, Obj.AllLeafL PL PP cs → Obj.AllLeafL PL PP (Obj.leavesL cs)
  | [], _ => trivial
  | c :: cs, h => by
    rw [Obj.leavesL]
    exact Obj.allLeafL_append (Obj.allLeaf_leaves c h.1) (Obj.allLeafL_leavesL cs h.2)
end

theorem Obj.allLeafL_filter {PL : Line → Prop} {PP : Poly → Prop} (f : Obj → Bool) {cs : List Obj}
    (h : Obj.AllLeafL PL PP cs) : Obj.AllLeafL PL PP (cs.filter f) := by
  rw [Obj.allLeafL_iff] at *
  exact fun c hc => h c (List.mem_filter.1 hc).1

end Geo
