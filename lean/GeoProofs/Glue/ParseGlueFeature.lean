/-
  GeoProofs.Glue.ParseGlueFeature — generated parseJSONFeature (incl. the Tile38 Circle recognition) = the
  "Feature" arm of the model's parse, given the recursion parameter one level down.
-/
import GeoProofs.Glue.ParseGlueMPoly

set_option linter.unusedSimpArgs false

namespace Geo.PGlue
open Geo Geo.PGen

theorem bbox_none (rec : RecT) (gk : GKeys) (opts : Option GOpts) :
    PGen.parseBBoxAndExtras (mops rec) none (some gk) opts =
      (none, if flat gk.members == flat (lit "") then none else some ⟨0, [], gk.members⟩) := by
  unfold PGen.parseBBoxAndExtras
  simp only [m_strEq, m_strLit, deref_some, m_zeroExtra]
  by_cases h : (flat gk.members == flat (lit "")) = true <;> simp [h]

theorem path_type : splitDots (flat (lit "properties.type")) = ["properties", "type"] := by
  rw [flat_lit]; decide
theorem path_radius : splitDots (flat (lit "properties.radius")) = ["properties", "radius"] := by
  rw [flat_lit]; decide
theorem path_units : splitDots (flat (lit "properties.radius_units")) = ["properties", "radius_units"] := by
  rw [flat_lit]; decide

theorem toPos_unPos (p : Pos) : toPos (unPos p) = p := by
  cases p; simp [toPos, unPos, mkPos, MF.ord]

/-- the "Feature" arm of the model's parse -/
def mFeature (o : POpts) (fuel : Nat) (k : Keys) : Except PErr Obj :=
  match k.geometry with
  | none => .error .geometryMissing
  | some g =>
    match parse o fuel g with
    | .error e => .error e
    | .ok base =>
      let ex := withMembers none k
      let centre : Option Pos := match base with
        | .point pos _ => some pos
        | .spoint pos => some pos
        | _ => none
      match centre, ex with
      | some c, some _ =>
        let props := (JVal.obj k.foreign).get "properties"
        let ptype := props.bind (fun p => p.get "type")
        if !o.disableCircle && (match ptype with | some (.str _ "Circle") => true | _ => false) then
          let radius := props.bind (fun p => p.get "radius")
          let units := strOf (props.bind (fun p => p.get "radius_units"))
          let rtexts : Option (String × String) := match radius with
            | some (.num fin _ canon canonK _) => if fin then some (canon, canonK) else some ("null", "null")
            | some .tru => some ("1", "1000")
            | some (.str _ _) => none
            | _ => some ("0", "0")
          match rtexts with
          | none => .error .unmodelled
          | some (m, km) =>
            if units == "" || units == "m" then .ok (.circle c m)
            else if units == "km" then .ok (.circle c km)
            else .error .circleUnits
        else .ok (.feature base ex)
      | _, _ => .ok (.feature base ex)

theorem parse_feature (o : POpts) (fuel : Nat) (ms : List Mem) (raw : String)
    (h : (scanKeys ms).type = some (.str raw "Feature")) :
    parse o (fuel + 1) (.obj ms) = mFeature o fuel (scanKeys ms) := by
  rw [parse]; simp only [h, mFeature]; rfl

theorem mGet_props (gk : GKeys) (k : Keys) (hk : KeysRel gk k) (hne : k.foreign ≠ []) (key : String) (path : MStr)
    (hp : splitDots (flat path) = ["properties", key]) :
    mGet gk.members path = ((JVal.obj k.foreign).get "properties").bind (fun p => p.get key) := by
  unfold mGet
  rw [hp, hk.dec hne]
  simp [getPath]

/-- the text of a number is not the word Circle (JSON grammar) -/
def NumNotCircle (x : Option JVal) : Prop :=
  ∀ fin val c ck raw, x = some (.num fin val c ck raw) → raw ≠ "Circle"

def isCircleStr : Option JVal → Bool
  | some (.str _ "Circle") => true
  | _ => false

theorem isCircleStr_match (x : Option JVal) :
    (match x with | some (.str _ "Circle") => true | _ => false) = isCircleStr x := by
  unfold isCircleStr; rfl

theorem isCircle_eq (x : Option JVal) (hx : NumNotCircle x) :
    (flat (resString x) == flat (lit "Circle")) = isCircleStr x := by
  unfold isCircleStr
  cases x with
  | none => simp [resString, strOf, strEq_lit]
  | some v =>
    cases v with
    | str raw dec =>
      simp only [resString, strEq_lit]
      by_cases h : dec = "Circle"
      · subst h; simp
      · simp only [h, decide_false]
        split
        · rename_i heq; cases heq; exact absurd rfl h
        · rfl
    | num fin val c ck raw => simp [resString, strOf, strEq_lit, hx fin val c ck raw rfl]
    | null => simp [resString, strOf, strEq_lit]
    | tru => simp [resString, strOf, strEq_lit]
    | fls => simp [resString, strOf, strEq_lit]
    | arr items =>
      simp only [resString, strOf, strEq_lit, JVal.render]
      have : ("[" ++ JVal.renderItems items ++ "]") ≠ "Circle" := by
        intro h; have := congrArg String.toList h; simp [String.toList_append] at this
      simp [this]
    | obj ms =>
      simp only [resString, strOf, strEq_lit, JVal.render]
      have : ("{" ++ JVal.renderMembers ms ++ "}") ≠ "Circle" := by
        intro h; have := congrArg String.toList h; simp [String.toList_append] at this
      simp [this]

theorem feature_eq (rec : RecT) (o : POpts) (fuel : Nat) (hrec : RecOK rec o fuel) (gk : GKeys) (k : Keys) (hk : KeysRel gk k)
    (hnum : NumNotCircle (((JVal.obj k.foreign).get "properties").bind (fun p => p.get "type")))
    (hJ : ∀ gv, k.geometry = some gv → JOK gv = true) :
    AgreeU (PGen.parseJSONFeature (mops rec) (some gk) (some (optsG o))) (mFeature o fuel k) := by
  unfold PGen.parseJSONFeature mFeature
  simp only [m_gjsonResultExists, m_gjsonResultRaw, m_rec_Parse, m_nilObject, m_objectOfFeature, m_zeroParseOptions, deref_some,
    m_zeroGeometryPoint, m_objectAsPoint, m_objectAsSimplePoint, m_gjsonGet, m_gjsonResultString, m_gjsonResultFloat, m_strEq,
    m_strLit, m_f64Mul, m_f64OfInt, m_newCircle, m_objectOfCircle, m_zeroCircle, m_zeroExtra, hk.geom, bbox_none, id]
  have hzf : (PGen.zeroFeature (mops rec)).extra = none := rfl
  simp only [hzf, bbox_none]
  cases hg : k.geometry with
  | none => simp [AgreeU, errU, errG]
  | some gv =>
    have hr := hrec gv (hJ gv hg)
    simp only [Option.isSome_some, Bool.not_true, Bool.false_eq_true, if_false, Option.isNone_none]
    cases hp : parse o fuel gv with
    | error e =>
      rw [hp] at hr
      simp only [AgreeU] at hr ⊢
      cases hn : (rec [Piece.doc gv] (some (optsG o))).2 with
      | none => cases e <;> simp [errU, hn] at hr ⊢
      | some ge => simpa [hn] using hr
    | ok base =>
      rw [hp] at hr
      simp only [AgreeU] at hr
      rw [hr]
      simp only [Option.isNone_none, Bool.not_true, Bool.false_eq_true, if_false]
      have hmemb := hk.members
      have hbb := bbox_eq rec none gk (some (optsG o)) k hk
      rw [bbox_none] at hbb
      simp only [Option.map_none] at hbb
      by_cases hf0 : k.foreign = []
      · -- no foreign members: a plain Feature
        have hm0 := hk.mem0 hf0
        have hw : withMembers none k = none := by simp [withMembers, Keys.members, hf0]
        simp only [hm0, hw]
        cases base <;> simp [AgreeU, flat, lit]
      · have hne : (flat gk.members == flat (lit "")) = false := by
          have : k.members ≠ "" := by simp [Keys.members, hf0]
          rw [← hmemb] at this
          cases hfl : flat gk.members with
          | nil => rw [hfl] at this; exact absurd rfl this
          | cons c t => simp [flat_lit]
        simp only [hne, Bool.false_eq_true, if_false] at hbb ⊢
        obtain ⟨_, hb2⟩ := hbb
        simp only [Option.map_some] at hb2
        simp only [deref_some, Option.isNone_some, Bool.not_false, if_true, Option.map_some, hb2.symm,
          mGet_props gk k hk hf0 "type" _ path_type, mGet_props gk k hk hf0 "radius" _ path_radius,
          mGet_props gk k hk hf0 "radius_units" _ path_units, isCircle_eq _ hnum, isCircleStr_match]
        have hrs : ∀ x : Option JVal, resString x = lit (strOf x) := by
          intro x; cases x with
          | none => rfl
          | some v => cases v <;> rfl
        have hod : (optsG o).disableCircleType = o.disableCircle := rfl
        simp only [hrs, strEq_lit, hod]
        generalize isCircleStr (((JVal.obj k.foreign).get "properties").bind fun p => p.get "type") = ic
        generalize (((JVal.obj k.foreign).get "properties").bind fun p => p.get "radius") = R
        generalize strOf (((JVal.obj k.foreign).get "properties").bind fun p => p.get "radius_units") = us
        generalize exM { dims := 0, values := [], members := gk.members } = EX
        cases base with
        | point pos pex =>
          cases o.disableCircle <;> cases ic <;> simp [AgreeU, toPos_unPos]
          by_cases u1 : us = ""
          · subst u1; rcases R with _ | (_ | _ | _ | ⟨fin, _, _, _, _⟩ | _ | _ | _) <;> (try cases fin) <;> simp [AgreeU, errU, mfFloat]
          by_cases u2 : us = "m"
          · subst u2; rcases R with _ | (_ | _ | _ | ⟨fin, _, _, _, _⟩ | _ | _ | _) <;> (try cases fin) <;> simp [AgreeU, errU, mfFloat]
          by_cases u3 : us = "km"
          · subst u3; rcases R with _ | (_ | _ | _ | ⟨fin, _, _, _, _⟩ | _ | _ | _) <;> (try cases fin) <;>
              simp [AgreeU, errU, mfFloat, mfMul, mfInt]
          · rcases R with _ | (_ | _ | _ | ⟨fin, _, _, _, _⟩ | _ | _ | _) <;> (try cases fin) <;> simp [AgreeU, errU, errG, u1, u2, u3]
        | spoint pos =>
          cases o.disableCircle <;> cases ic <;> simp [AgreeU, toPos_unPos]
          by_cases u1 : us = ""
          · subst u1; rcases R with _ | (_ | _ | _ | ⟨fin, _, _, _, _⟩ | _ | _ | _) <;> (try cases fin) <;> simp [AgreeU, errU, mfFloat]
          by_cases u2 : us = "m"
          · subst u2; rcases R with _ | (_ | _ | _ | ⟨fin, _, _, _, _⟩ | _ | _ | _) <;> (try cases fin) <;> simp [AgreeU, errU, mfFloat]
          by_cases u3 : us = "km"
          · subst u3; rcases R with _ | (_ | _ | _ | ⟨fin, _, _, _, _⟩ | _ | _ | _) <;> (try cases fin) <;>
              simp [AgreeU, errU, mfFloat, mfMul, mfInt]
          · rcases R with _ | (_ | _ | _ | ⟨fin, _, _, _, _⟩ | _ | _ | _) <;> (try cases fin) <;> simp [AgreeU, errU, errG, u1, u2, u3]
        | lineString _ _ _ => simp [AgreeU]
        | polygon _ _ _ => simp [AgreeU]
        | rectO _ _ _ => simp [AgreeU]
        | coll _ _ _ _ => simp [AgreeU]
        | feature _ _ => simp [AgreeU]
        | circle _ _ => simp [AgreeU]

#print axioms feature_eq

end Geo.PGlue
