/-
  GeoProofs.Float.Nudge — the `Nextafter` loop of `Raycast` on the regime E.

  For y ∈ E the next double above y exceeds y by at least 2^-1074 and at most 2^-32, hence
  lies strictly below the next element of E (y + 2^-4): it is not in E, so the loop runs at most
  once, and comparisons of the nudged ordinate with elements v of E are
      y' < v ↔ y < v          y' > v ↔ y ≥ v
  which is the symbolic "y + ε" of `Geo.rcCast`.
-/
import GeoProofs.Float.KernelF

namespace Geo.F
open Geo

theorem InE.abs_le {y : ℚ} (hy : InE y) : |y| ≤ 2 ^ 20 := by
  obtain ⟨k, hk, rfl⟩ := hy
  have : |(k : ℚ)| ≤ 2 ^ 24 := by exact_mod_cast hk
  rw [abs_div, div_le_iff₀ (by positivity)]
  rw [abs_of_pos (by positivity : (0 : ℚ) < 2 ^ 4)]
  calc |(k : ℚ)| ≤ 2 ^ 24 := this
    _ = 2 ^ 20 * 2 ^ 4 := by norm_num

theorem expo_E {y : ℚ} (hy : InE y) (h0 : y ≠ 0) : -1074 ≤ expo y ∧ expo y ≤ -32 := by
  have h1 : |y| < (2 : ℚ) ^ (21 : ℤ) := lt_of_le_of_lt hy.abs_le (by norm_num)
  have := ilog_lt_of_lt h0 h1
  unfold expo; omega

/-- the nudge step on E is positive, at least the smallest denormal, at most 2^-32 -/
theorem nextUp_E {y : ℚ} (hy : InE y) :
    (2 : ℚ) ^ (-1074 : ℤ) ≤ nextUp y - y ∧ nextUp y - y ≤ (2 : ℚ) ^ (-32 : ℤ) := by
  by_cases h0 : y = 0
  · subst h0
    simp only [nextUp, if_true, sub_zero]
    exact ⟨le_rfl, two_zpow_le (by norm_num)⟩
  obtain ⟨e1, e2⟩ := expo_E hy h0
  have hu1 : (2 : ℚ) ^ (-1074 : ℤ) ≤ ulp y := two_zpow_le e1
  have hu2 : ulp y ≤ (2 : ℚ) ^ (-32 : ℤ) := two_zpow_le e2
  have hup := ulp_pos y
  unfold nextUp
  rw [if_neg h0]
  split_ifs with hpos hpow
  · rw [add_sub_cancel_left]; exact ⟨hu1, hu2⟩
  · rw [add_sub_cancel_left]
    constructor
    · have he : expo y = ilog y - 52 := by unfold expo; omega
      have : ulp y / 2 = (2 : ℚ) ^ (expo y - 1) := by
        unfold ulp; rw [zpow_sub₀ (by norm_num)]; simp
      rw [this]; exact two_zpow_le (by omega)
    · exact (by linarith : ulp y / 2 ≤ ulp y).trans hu2
  · rw [add_sub_cancel_left]; exact ⟨hu1, hu2⟩

theorem nextUp_E_gt {y : ℚ} (hy : InE y) : y < nextUp y := by
  have := (nextUp_E hy).1; have := two_zpow_pos (-1074); linarith

theorem nextUp_E_lt {y : ℚ} (hy : InE y) : nextUp y < y + 1 / 16 := by
  have h1 := (nextUp_E hy).2
  have h2 : (2 : ℚ) ^ (-32 : ℤ) < 1 / 16 := by norm_num
  have h3 := h1.trans_lt h2
  linarith

/-- E is a grid of step 1/16 -/
theorem InE.add_le_of_lt {y v : ℚ} (hy : InE y) (hv : InE v) (h : y < v) : y + 1 / 16 ≤ v := by
  obtain ⟨k, _, rfl⟩ := hy; obtain ⟨l, _, rfl⟩ := hv
  have hkl : (k : ℚ) < l := by
    have := (div_lt_div_iff_of_pos_right (by positivity : (0 : ℚ) < 2 ^ 4)).mp h
    exact this
  have : k + 1 ≤ l := by exact_mod_cast hkl
  have : (k : ℚ) + 1 ≤ l := by exact_mod_cast this
  rw [div_add' _ _ _ (by positivity), div_le_div_iff_of_pos_right (by positivity)]
  linarith

theorem nextUp_lt_iff {y v : ℚ} (hy : InE y) (hv : InE v) : nextUp y < v ↔ y < v := by
  constructor
  · intro h; exact (nextUp_E_gt hy).trans h
  · intro h; exact (nextUp_E_lt hy).trans_le (hy.add_le_of_lt hv h)

theorem nextUp_gt_iff {y v : ℚ} (hy : InE y) (hv : InE v) : nextUp y > v ↔ y ≥ v := by
  constructor
  · intro h; by_contra hn
    have := hy.add_le_of_lt hv (not_le.mp hn)
    have := nextUp_E_lt hy
    linarith
  · intro h; exact lt_of_le_of_lt h (nextUp_E_gt hy)

theorem nextUp_ne_E {y v : ℚ} (hy : InE y) (hv : InE v) : nextUp y ≠ v := by
  intro h
  rcases lt_or_ge y v with hlt | hge
  · have := (nextUp_lt_iff hy hv).mpr hlt; linarith
  · have := (nextUp_gt_iff hy hv).mpr hge; linarith

/-- the loop exits after at most one step, whatever the fuel ≥ 2 -/
theorem nudge_E {y ay by' : ℚ} (hy : InE y) (ha : InE ay) (hb : InE by') (n : ℕ) :
    nudge (n + 2) y ay by' = if y = ay ∨ y = by' then nextUp y else y := by
  unfold nudge
  split_ifs with h
  · unfold nudge
    rw [if_neg]
    exact not_or.mpr ⟨nextUp_ne_E hy ha, nextUp_ne_E hy hb⟩
  · rfl

/-- on exit the loop condition is false -/
theorem nudge_E_exit {y ay by' : ℚ} (hy : InE y) (ha : InE ay) (hb : InE by') (n : ℕ) :
    ¬ (nudge (n + 2) y ay by' = ay ∨ nudge (n + 2) y ay by' = by') := by
  rw [nudge_E hy ha hb]
  split_ifs with h
  · exact not_or.mpr ⟨nextUp_ne_E hy ha, nextUp_ne_E hy hb⟩
  · exact h

end Geo.F
