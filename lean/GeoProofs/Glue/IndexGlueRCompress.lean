/-
  GeoProofs.Glue.IndexGlueRCompress — the regenerated Go `(*rRect).compress` / `(*rTree).compress`
  (geometry/rtree.go, `IGen.rRect_compress` / `IGen.rTree_compress`) run on the concrete byte
  operations `aOpsR` produce, byte for byte, the model's `Geo.rCompressNode` / `Geo.RTree.compress`
  on the abstraction `absNode` of the generated tree, and never panic (every `PutUint32` lands on
  4 placeholder bytes that were appended before; every type assertion succeeds).

  Hypotheses (`RWF`, and `0 ≤ height < 256` for the tree), all NEEDED because the model's byte cells
  are untruncated `Nat`s while the Go source casts:
    * `byte(n.count)`, `byte(tr.height)`: the generated `intToU 8 _`; the model pushes `entries.length`
      / `tr.height` as they are.  `SlotsOK` gives `0 ≤ count ≤ 17 < 256` (the node has 17 slots, so a
      larger count panics in Go anyway: `n.rects[i]` out of range).
    * `uint32(r.data.(int))`: the generated `intToU 32 v`; the model keeps the item `v.toNat`.  For an
      item `v = 2^32` Go writes width 1 / byte 0, the model width 4 / bytes 0,0,0,0; a negative `v`
      has no abstraction at all (`absLeafEntry` is `none`).  Hence `0 ≤ v < 2^32` in `LeafSlotOK`.
    * `uint32(len(dst))` (the child address) needs NO hypothesis: `putU32` keeps 4 bytes (`putU32_mod`).
-/
import GeoProofs.Glue.IndexGlueR
import GeoProofs.Glue.IndexGlueCompress
import GeoProofs.Index.RBytes

namespace Geo.IGlue
open Geo Geo.IGen

variable {F S SR : Type} [KNum F] [Carrier F]
variable (segAt : SR → Int → S) (segRect : S → Rect F) (f64 : Nat → F) (bits : F → Nat)
  (isNil : List F → Bool)

/-! ## appendFloat, appendNum on `aOpsR` -/

theorem putU64_zero (v : Nat) : putU64 (Array.replicate 8 0) 0 v = (leBytes v 8).toArray := by
  apply Array.ext
  · simp [putU64, leBytes]
  · intro i h1 h2
    simp [putU64, leBytes] at h1 h2 ⊢
    have : i = 0 ∨ i = 1 ∨ i = 2 ∨ i = 3 ∨ i = 4 ∨ i = 5 ∨ i = 6 ∨ i = 7 := by omega
    rcases this with rfl | rfl | rfl | rfl | rfl | rfl | rfl | rfl <;> simp

theorem appendFloat_eqR (dst : Array Nat) (x : F) :
    IGen.appendFloat (aOpsR segAt segRect f64 bits isNil) dst x =
      some (dst ++ (encOf bits x).toArray) := by
  unfold IGen.appendFloat
  simp [aOpsR, putU64_zero, encOf]

theorem appendNum_eqR (dst : Array Nat) (num w : Nat) :
    IGen.appendNum (aOpsR segAt segRect f64 bits isNil) dst num w =
      some (Geo.appendNum dst num w) := by
  unfold IGen.appendNum Geo.appendNum
  by_cases h1 : w = 1
  · subst h1; simp [aOpsR, leBytes]
  · by_cases h2 : w = 2
    · subst h2
      simp [aOpsR, leBytes]
      have := putU16_append dst (num % 65536)
      simp at this
      rw [this]
      have e2 : num % 65536 / 256 % 256 = num / 256 % 256 := by omega
      rw [e2]
    · simp [aOpsR, h1, h2]
      have := putU32_append dst num
      simpa using this

theorem intToU8_ofNat (n : Nat) (h : n < 256) : intToU 8 (Int.ofNat n) = n := by
  have e : ((2 : Int) ^ 8) = 256 := by decide
  simp only [intToU, e, Int.ofNat_eq_natCast]
  omega

theorem intToU32_small (v : Int) (h0 : 0 ≤ v) (h1 : v < 4294967296) : intToU 32 v = v.toNat := by
  have e : ((2 : Int) ^ 32) = 4294967296 := by decide
  simp only [intToU, e]
  omega

/-! ## counted loops with an index-dependent invariant -/

/-- the fold with the running index (the shape of the model's `rCompressNode.go`) -/
def foldIdx {α σ : Type} (f : Nat → σ → α → σ) : List α → Nat → σ → σ
  | [], _, s => s
  | x :: xs, i, s => foldIdx f xs (i + 1) (f i s x)

theorem foldIdx_inv {α σ : Type} (P : Nat → σ → Prop) (f : Nat → σ → α → σ) (xs : List α) :
    ∀ (off : Nat) (s : σ), P off s →
      (∀ k (h : k < xs.length) s, P (off + k) s → P (off + k + 1) (f (off + k) s xs[k])) →
      P (off + xs.length) (foldIdx f xs off s) := by
  induction xs with
  | nil => intro off s h _; exact h
  | cons x xs ih =>
    intro off s hP hstep
    simp only [foldIdx, List.length_cons]
    have h0 := hstep 0 (by simp) s hP
    simp only [Nat.add_zero, List.getElem_cons_zero] at h0
    have := ih (off + 1) (f off s x) h0 (by
      intro k h s hs
      have e : off + 1 + k = off + (k + 1) := by omega
      have := hstep (k + 1) (by simp only [List.length_cons]; omega) s (by rw [← e]; exact hs)
      simp only [List.getElem_cons_succ] at this
      rw [e]; exact this)
    have e : off + 1 + xs.length = off + (xs.length + 1) := by omega
    rw [← e]; exact this

theorem loopM_range'_idx {α σ : Type} (P : Nat → σ → Prop) (f : Nat → σ → α → σ)
    (body : Int → σ → Option σ) (xs : List α) :
    ∀ (off : Nat) (s : σ), P off s →
      (∀ k (h : k < xs.length) s, P (off + k) s → P (off + k + 1) (f (off + k) s xs[k])) →
      (∀ k (h : k < xs.length) s, P (off + k) s →
        body (Int.ofNat (off + k)) s = some (f (off + k) s xs[k])) →
      loopM ((List.range' off xs.length).map Int.ofNat) s body = some (foldIdx f xs off s) := by
  induction xs with
  | nil => intro off s _ _ _; rfl
  | cons x xs ih =>
    intro off s hP hstep hb
    simp only [List.length_cons, List.range'_succ, List.map_cons, loopM, foldIdx]
    have b0 := hb 0 (by simp) s hP
    have h0 := hstep 0 (by simp) s hP
    simp only [Nat.add_zero, List.getElem_cons_zero] at b0 h0
    rw [b0]
    apply ih (off + 1) (f off s x) h0
    · intro k h s hs
      have e : off + 1 + k = off + (k + 1) := by omega
      have := hstep (k + 1) (by simp only [List.length_cons]; omega) s (by rw [← e]; exact hs)
      simp only [List.getElem_cons_succ] at this
      rw [e]; exact this
    · intro k h s hs
      have e : off + 1 + k = off + (k + 1) := by omega
      have := hb (k + 1) (by simp only [List.length_cons]; omega) s (by rw [← e]; exact hs)
      simp only [List.getElem_cons_succ] at this
      rw [e]; exact this

/-- `for i := 0; i < n; i++ { s = f(i, s, xs[i]) }` with an invariant `P i s` is the indexed fold -/
theorem loopM_intRange_idx {α σ : Type} (P : Nat → σ → Prop) (f : Nat → σ → α → σ)
    (body : Int → σ → Option σ) (xs : List α) (n : Nat) (hn : xs.length = n) (s : σ) (hP : P 0 s)
    (hstep : ∀ k (h : k < xs.length) s, P k s → P (k + 1) (f k s xs[k]))
    (hb : ∀ k (h : k < xs.length) s, P k s → body (Int.ofNat k) s = some (f k s xs[k])) :
    loopM (intRange 0 (n : Int)) s body = some (foldIdx f xs 0 s) := by
  subst hn
  show loopM (intRange 0 (Int.ofNat xs.length)) s body = _
  rw [intRange_zero]
  apply loopM_range'_idx P f body xs 0 s hP
  · intro k h s hs
    simp only [Nat.zero_add] at hs ⊢
    exact hstep k h s hs
  · intro k h s hs
    simp only [Nat.zero_add] at hs ⊢
    exact hb k h s hs

theorem foldIdx_const {α σ : Type} (f : σ → α → σ) (xs : List α) :
    ∀ (i : Nat) (s : σ), foldIdx (fun _ s x => f s x) xs i s = xs.foldl f s := by
  induction xs with
  | nil => intro _ _; rfl
  | cons x xs ih => intro i s; simp only [foldIdx, List.foldl_cons, ih]

theorem mapM_eq_some_map {α β : Type} (g : α → Option β) (g' : α → β) (xs : List α)
    (h : ∀ e ∈ xs, g e = some (g' e)) : xs.mapM g = some (xs.map g') := by
  induction xs with
  | nil => rfl
  | cons x xs ih =>
    rw [List.mapM_cons, h x (by simp), ih (fun e he => h e (by simp [he]))]
    rfl

theorem listAt_take {α : Type} (xs : List α) (c k : Nat) (hk : k < (xs.take c).length) :
    listAt xs (Int.ofNat k) = some (xs.take c)[k] := by
  have h1 : k < xs.length := by
    rw [List.length_take] at hk; omega
  rw [listAt_ofNat _ _ h1, List.getElem_take]

/-! ## well-formed generated nodes -/

/-- the item of a leaf slot -/
def leafItem (e : IGen.RRect F) : Nat :=
  match e.data with
  | .int v => v.toNat
  | _ => 0

/-- a leaf slot holds an `int` item that fits `uint32` (Go: `uint32(r.data.(int))`) -/
def LeafSlotOK (e : IGen.RRect F) : Prop := ∃ v, e.data = .int v ∧ 0 ≤ v ∧ v < 4294967296

/-- a well-formed generated node of height `h`: `data` holds a `*rNode` with its 17 slots and
    `0 ≤ count ≤ 17`; the used slots of a leaf hold `uint32` items, the used slots of an inner
    node are well-formed nodes one level down -/
def RWF : Nat → IGen.RRect F → Prop
  | 0, r => ∃ nd, r.data = .rNode nd ∧ SlotsOK nd ∧ ∀ e ∈ usedSlots nd, LeafSlotOK e
  | h+1, r => ∃ nd, r.data = .rNode nd ∧ SlotsOK nd ∧ ∀ e ∈ usedSlots nd, RWF h e

omit [KNum F] [Carrier F] in
@[simp] theorem count_mk (c : Int) (rs : List (IGen.RRect F)) : (IGen.RNode.mk c rs).count = c := rfl
omit [KNum F] [Carrier F] in
@[simp] theorem rects_mk (c : Int) (rs : List (IGen.RRect F)) : (IGen.RNode.mk c rs).rects = rs := rfl

omit [KNum F] [Carrier F] in
theorem absLeafEntry_ok (e : IGen.RRect F) (h : LeafSlotOK e) :
    absLeafEntry e = some (rbox e, leafItem e) := by
  obtain ⟨v, hv, h0, _⟩ := h
  simp [absLeafEntry, leafItem, hv, h0]

omit [KNum F] [Carrier F] in
theorem leafSlot_asInt (e : IGen.RRect F) (h : LeafSlotOK e) :
    ∃ v, e.data.asInt = some v ∧ intToU 32 v = leafItem e := by
  obtain ⟨v, hv, h0, h1⟩ := h
  exact ⟨v, by simp [hv, Dyn.asInt], by simp [leafItem, hv, intToU32_small v h0 h1]⟩

theorem loopM_intRange_n {α σ : Type} (f : σ → α → σ) (body : Int → σ → Option σ) (xs : List α)
    (n : Nat) (hn : xs.length = n) (s : σ)
    (hb : ∀ k (h : k < xs.length) s, body (Int.ofNat k) s = some (f s xs[k])) :
    loopM (intRange 0 (n : Int)) s body = some (xs.foldl f s) := by
  subst hn
  exact loopM_intRange f body xs s hb

theorem rcompress_leaf (fuel : Nat) (r : IGen.RRect F) (hw : RWF 0 r) (dst : Array Nat) :
    ∃ nb nd, absNode 0 r = some (nb, nd) ∧
      IGen.rRect_compress (aOpsR segAt segRect f64 bits isNil) (fuel + 1) r dst (Int.ofNat 0) =
        some (Geo.rCompressNode (encOf bits) nb nd dst) := by
  obtain ⟨nd, hd, hs, hl⟩ := hw
  cases r with
  | mk data m0 m1 M0 M1 =>
  simp only [RRect.data] at hd
  subst hd
  cases nd with
  | mk count rects =>
  simp only [SlotsOK, rects_mk, count_mk] at hs
  obtain ⟨hlen, hc0, hc17⟩ := hs
  obtain ⟨c, rfl⟩ : ∃ c : Nat, count = (c : Int) := ⟨count.toNat, by omega⟩
  simp only [usedSlots, rects_mk, count_mk, Int.toNat_natCast] at hl
  have hxs : (rects.take c).length = c := by
    rw [List.length_take]; omega
  have habs : absNode 0 (.mk (.rNode (.mk (c : Int) rects)) m0 m1 M0 M1) =
      some (⟨m0, m1, M0, M1⟩, .leaf ((rects.take c).map (fun e => (rbox e, leafItem e)))) := by
    simp only [absNode, RRect.data, usedSlots, rects_mk, count_mk, Int.toNat_natCast]
    rw [mapM_eq_some_map _ _ _ (fun e he => absLeafEntry_ok e (hl e he))]
    rfl
  refine ⟨_, _, habs, ?_⟩
  rw [rCompressNode, IGen.rRect_compress]
  have ez : (Int.ofNat 0 == 0) = true := by decide
  have ec8 : intToU 8 (c : Int) = c := intToU8_ofNat c (by omega)
  have eapp : ∀ (d : Array Nat) (l : List Nat),
      (aOpsR segAt segRect f64 bits isNil).bytesAppend d l = d ++ l.toArray := fun _ _ => rfl
  simp only [Dyn.asRNode, appendFloat_eqR, Option.bind_eq_bind, Option.bind_some, count_mk, rects_mk,
    ez, if_true, ec8, eapp, numBytes_eq, appendNum_eqR]
  rw [loopM_intRange_n (f := fun w e => max w (Geo.numBytes (leafItem e))) _ (rects.take c) c hxs]
  · simp only [Option.bind_some]
    rw [loopM_intRange_n (f := fun d e => Geo.appendNum d (leafItem e)
      (List.foldl (fun w e => max w (Geo.numBytes (leafItem e))) 1 (rects.take c))) _ (rects.take c) c hxs]
    · simp only [Option.bind_some, List.foldl_map, List.length_map, hxs, appendBox]
      simp
    · intro k h s
      obtain ⟨v, hv, hi⟩ := leafSlot_asInt _ (hl _ (List.getElem_mem h))
      simp only [listAt_take rects c k h, Option.bind_some, hv, hi]
  · intro k h s
    obtain ⟨v, hv, hi⟩ := leafSlot_asInt _ (hl _ (List.getElem_mem h))
    simp only [listAt_take rects c k h, Option.bind_some, hv, hi]
    by_cases hgt : Geo.numBytes (leafItem (rects.take c)[k]) > s
    · simp only [hgt, decide_true, if_true]
      congr 1
      omega
    · simp only [hgt, decide_false, Bool.false_eq_true, if_false]
      congr 1
      omega

/-! ## inner nodes -/

/-- the abstraction of a slot as a total function (the default is never used on well-formed nodes) -/
def absD (h : Nat) (c : IGen.RRect F) : GBox F × Geo.RNode F :=
  (absNode h c).getD (rbox c, .leaf [])

theorem intToU32_cast (n : Nat) : intToU 32 (n : Int) = n % 4294967296 := intToU32_ofNat n

theorem marks_snd {α : Type} (xs : List α) :
    ∀ (i : Nat) (m : List Int) (d : Array Nat),
      (foldIdx (fun (k : Nat) (x : List Int × Array Nat) (_ : α) =>
        (x.1.set k (x.2.size : Int), x.2 ++ #[0, 0, 0, 0])) xs i (m, d)).2 =
        xs.foldl (fun d _ => d ++ #[0, 0, 0, 0]) d := by
  induction xs with
  | nil => intro _ _ _; rfl
  | cons x xs ih => intro i m d; simp only [foldIdx, List.foldl_cons, ih]

omit [KNum F] [Carrier F] in
theorem go_map (enc : F → List Nat) (h M : Nat) (xs : List (IGen.RRect F)) :
    ∀ (i : Nat) (d : Array Nat),
      rCompressNode.go enc M (xs.map (absD h)) i d =
        foldIdx (fun k d e => rCompressNode enc (absD h e).1 (absD h e).2 (putU32 d (M + 4 * k) d.size))
          xs i d := by
  induction xs with
  | nil => intro i d; rw [List.map_nil, rCompressNode.go]; rfl
  | cons x xs ih =>
    intro i d
    rw [List.map_cons, rCompressNode.go, foldIdx, ih]

theorem rcompress_inner (h fuel : Nat) (r : IGen.RRect F) (hw : RWF (h + 1) r)
    (ih : ∀ c : IGen.RRect F, RWF h c → ∀ dst : Array Nat, ∃ nb nd, absNode h c = some (nb, nd) ∧
      IGen.rRect_compress (aOpsR segAt segRect f64 bits isNil) fuel c dst (Int.ofNat h) =
        some (Geo.rCompressNode (encOf bits) nb nd dst))
    (dst : Array Nat) :
    ∃ nb nd, absNode (h + 1) r = some (nb, nd) ∧
      IGen.rRect_compress (aOpsR segAt segRect f64 bits isNil) (fuel + 1) r dst (Int.ofNat (h + 1)) =
        some (Geo.rCompressNode (encOf bits) nb nd dst) := by
  obtain ⟨nd, hd, hs, hl⟩ := hw
  cases r with
  | mk data m0 m1 M0 M1 =>
  simp only [RRect.data] at hd
  subst hd
  cases nd with
  | mk count rects =>
  simp only [SlotsOK, rects_mk, count_mk] at hs
  obtain ⟨hlen, hc0, hc17⟩ := hs
  obtain ⟨c, rfl⟩ : ∃ c : Nat, count = (c : Int) := ⟨count.toNat, by omega⟩
  simp only [usedSlots, rects_mk, count_mk, Int.toNat_natCast] at hl
  have hxs : (rects.take c).length = c := by
    rw [List.length_take]; omega
  have hslot : ∀ e ∈ rects.take c, absNode h e = some (absD h e) := by
    intro e he
    obtain ⟨nb, nd, h1, _⟩ := ih e (hl e he) #[]
    simp [absD, h1]
  have ihc : ∀ e ∈ rects.take c, ∀ d : Array Nat,
      IGen.rRect_compress (aOpsR segAt segRect f64 bits isNil) fuel e d (Int.ofNat h) =
        some (Geo.rCompressNode (encOf bits) (absD h e).1 (absD h e).2 d) := by
    intro e he d
    obtain ⟨nb, nd, h1, h2⟩ := ih e (hl e he) d
    rw [h2]
    simp [absD, h1]
  have habs : absNode (h + 1) (.mk (.rNode (.mk (c : Int) rects)) m0 m1 M0 M1) =
      some (⟨m0, m1, M0, M1⟩, .inner ((rects.take c).map (absD h))) := by
    simp only [absNode, RRect.data, usedSlots, rects_mk, count_mk, Int.toNat_natCast]
    rw [mapM_eq_some_map _ _ _ hslot]
    rfl
  refine ⟨_, _, habs, ?_⟩
  rw [rCompressNode, IGen.rRect_compress]
  have ez : (Int.ofNat (h + 1) == 0) = false := by
    simp only [Int.ofNat_eq_natCast, beq_eq_false_iff_ne, ne_eq]; omega
  have eh : Int.ofNat (h + 1) - 1 = Int.ofNat h := by
    simp only [Int.ofNat_eq_natCast]; omega
  have ec8 : intToU 8 (c : Int) = c := intToU8_ofNat c (by omega)
  have eapp : ∀ (d : Array Nat) (l : List Nat),
      (aOpsR segAt segRect f64 bits isNil).bytesAppend d l = d ++ l.toArray := fun _ _ => rfl
  have elen : ∀ (d : Array Nat), (aOpsR segAt segRect f64 bits isNil).bytesLen d = (d.size : Int) :=
    fun _ => rfl
  simp only [Dyn.asRNode, appendFloat_eqR, Option.bind_eq_bind, Option.bind_some, count_mk, rects_mk,
    ez, eh, Bool.false_eq_true, if_false, ec8, eapp, elen, Int.toNat_natCast, List.length_map, hxs]
  have eD0 : (appendBox (encOf bits) dst ⟨m0, m1, M0, M1⟩).push c =
      dst ++ (encOf bits m0).toArray ++ (encOf bits m1).toArray ++ (encOf bits M0).toArray ++
        (encOf bits M1).toArray ++ [c].toArray := by
    simp [appendBox]
  rw [eD0]
  generalize dst ++ (encOf bits m0).toArray ++ (encOf bits m1).toArray ++ (encOf bits M0).toArray ++
        (encOf bits M1).toArray ++ [c].toArray = D0
  -- the first loop: the marks and the placeholders
  rw [loopM_intRange_idx
    (P := fun k (x : List Int × Array Nat) => x.1.length = c ∧ x.2.size = D0.size + 4 * k ∧
      ∀ j, j < k → x.1[j]? = some ((D0.size + 4 * j : Nat) : Int))
    (f := fun (k : Nat) (x : List Int × Array Nat) (_ : IGen.RRect F) =>
      (x.1.set k (x.2.size : Int), x.2 ++ #[0, 0, 0, 0])) _ (rects.take c) c hxs]
  rotate_left
  · exact ⟨by simp, by simp, fun j hj => absurd hj (Nat.not_lt_zero _)⟩
  · rintro k hk ⟨m, d⟩ ⟨p1, p2, p3⟩
    simp only at p1 p2 p3 ⊢
    refine ⟨by simp [p1], by simp [p2]; omega, ?_⟩
    intro j hj
    by_cases hjk : j = k
    · subst hjk
      rw [List.getElem?_set_self (by omega), p2]
    · rw [List.getElem?_set_ne (by omega), p3 j (by omega)]
  · rintro k hk ⟨m, d⟩ ⟨p1, p2, p3⟩
    simp only at p1 ⊢
    have h1 : k < m.length := by omega
    have h2 : ¬ ((k : Int) < 0) := by omega
    simp [listSet, h1, h2]
  have hQ := foldIdx_inv
    (fun k (x : List Int × Array Nat) => x.1.length = c ∧ x.2.size = D0.size + 4 * k ∧
      ∀ j, j < k → x.1[j]? = some ((D0.size + 4 * j : Nat) : Int))
    (fun (k : Nat) (x : List Int × Array Nat) (_ : IGen.RRect F) =>
      (x.1.set k (x.2.size : Int), x.2 ++ #[0, 0, 0, 0])) (rects.take c) 0 (List.replicate c 0, D0)
    ⟨by simp, by simp, fun j hj => absurd hj (Nat.not_lt_zero _)⟩
    (by
      rintro k hk ⟨m, d⟩ ⟨p1, p2, p3⟩
      simp only [Nat.zero_add] at p1 p2 p3 ⊢
      refine ⟨by simp [p1], by simp [p2]; omega, ?_⟩
      intro j hj
      by_cases hjk : j = k
      · subst hjk
        rw [List.getElem?_set_self (by omega), p2]
      · rw [List.getElem?_set_ne (by omega), p3 j (by omega)])
  have hS := marks_snd (rects.take c) 0 (List.replicate c 0) D0
  simp only [Option.bind_some, List.foldl_map]
  rw [← hS]
  generalize foldIdx (fun (k : Nat) (x : List Int × Array Nat) (_ : IGen.RRect F) =>
      (x.1.set k (x.2.size : Int), x.2 ++ #[0, 0, 0, 0])) (rects.take c) 0 (List.replicate c 0, D0) = R1
    at hQ ⊢
  obtain ⟨mk, D1⟩ := R1
  obtain ⟨q1, q2, q3⟩ := hQ
  simp only [Nat.zero_add, hxs] at q1 q2 q3 ⊢
  -- the second loop: the child addresses and the children
  rw [loopM_intRange_idx
    (P := fun _ (d : Array Nat) => D0.size + 4 * c ≤ d.size)
    (f := fun (k : Nat) (d : Array Nat) (e : IGen.RRect F) =>
      rCompressNode (encOf bits) (absD h e).1 (absD h e).2 (putU32 d (D0.size + 4 * k) d.size))
    _ (rects.take c) c hxs]
  · simp only [Option.bind_some, go_map]
  · show D0.size + 4 * c ≤ D1.size
    omega
  · intro k hk d hd
    have := (rCompressNode_spec (encOf bits) (absD h (rects.take c)[k]).2 (absD h (rects.take c)[k]).1
      (putU32 d (D0.size + 4 * k) d.size)).1
    rw [size_putU32] at this
    exact Nat.le_trans hd this
  · intro k hk d hd
    have hk' : k < c := by omega
    have hneg : ¬ ((k : Int) < 0) := by omega
    have hmk : listAt mk (Int.ofNat k) = some ((D0.size + 4 * k : Nat) : Int) := by
      simp only [listAt, Int.ofNat_eq_natCast, hneg, if_false, Int.toNat_natCast]
      exact q3 k hk'
    have hput : (aOpsR segAt segRect f64 bits isNil).putUint32 d ((D0.size + 4 * k : Nat) : Int)
        (intToU 32 (d.size : Int)) = some (putU32 d (D0.size + 4 * k) d.size) := by
      rw [intToU32_cast]
      simp only [aOpsR, Int.toNat_natCast, putU32_mod]
      rw [if_pos]
      exact ⟨by omega, by omega⟩
    simp only [hmk, Option.bind_some, hput, listAt_take rects c k hk,
      ihc _ (List.getElem_mem hk)]

/-! ## the node and the tree -/

/-- generated `(*rRect).compress` = the model's `rCompressNode` on the abstraction of the node -/
theorem rcompress_eq (h : Nat) (fuel : Nat) (hf : h < fuel) (r : IGen.RRect F) (hw : RWF h r)
    (dst : Array Nat) :
    ∃ nb nd, absNode h r = some (nb, nd) ∧
      IGen.rRect_compress (aOpsR segAt segRect f64 bits isNil) fuel r dst (Int.ofNat h) =
        some (Geo.rCompressNode (encOf bits) nb nd dst) := by
  induction h generalizing fuel r dst with
  | zero =>
    obtain ⟨fuel', rfl⟩ : ∃ f', fuel = f' + 1 := ⟨fuel - 1, by omega⟩
    exact rcompress_leaf segAt segRect f64 bits isNil fuel' r hw dst
  | succ h ih =>
    obtain ⟨fuel', rfl⟩ : ∃ f', fuel = f' + 1 := ⟨fuel - 1, by omega⟩
    exact rcompress_inner segAt segRect f64 bits isNil h fuel' r hw
      (fun c hc d => ih fuel' (by omega) c hc d) dst

omit [KNum F] [Carrier F] in
theorem absNode_nil (h : Nat) (r : IGen.RRect F) (hn : r.data = .nil) : absNode h r = none := by
  cases h <;> simp [absNode, hn]

/-- generated `(*rTree).compress` = the model's `RTree.compress` on the abstraction of the tree
    (an empty tree, `root.data == nil`, abstracts to the root `none`) -/
theorem rtree_compress_eq (fuel : Nat) (tr : IGen.RTree F) (h0 : 0 ≤ tr.height)
    (h256 : tr.height < 256) (hf : tr.height.toNat < fuel)
    (hr : tr.root.data = .nil ∨ RWF tr.height.toNat tr.root) (dst : Array Nat) :
    IGen.rTree_compress (aOpsR segAt segRect f64 bits isNil) fuel tr dst =
      some (Geo.RTree.compress (encOf bits)
        ⟨tr.height.toNat, absNode tr.height.toNat tr.root⟩ dst) := by
  obtain ⟨height, root, count, reinsert⟩ := tr
  simp only at h0 h256 hf hr ⊢
  obtain ⟨n, rfl⟩ : ∃ n : Nat, height = (n : Int) := ⟨height.toNat, by omega⟩
  simp only [Int.toNat_natCast] at hf hr ⊢
  unfold IGen.rTree_compress Geo.RTree.compress
  rcases hr with hn | hw
  · simp [absNode_nil n root hn, hn, Dyn.isNil]
  · obtain ⟨nb, nd, ha, hc⟩ := rcompress_eq segAt segRect f64 bits isNil n fuel hf root hw
      (dst ++ [n].toArray)
    have hnn : Dyn.isNil root.data = false := by
      cases n with
      | zero => obtain ⟨x, hx, _⟩ := hw; simp [hx, Dyn.isNil]
      | succ m => obtain ⟨x, hx, _⟩ := hw; simp [hx, Dyn.isNil]
    have e8 : intToU 8 (n : Int) = n := intToU8_ofNat n (by omega)
    have eapp : ∀ (d : Array Nat) (l : List Nat),
        (aOpsR segAt segRect f64 bits isNil).bytesAppend d l = d ++ l.toArray := fun _ _ => rfl
    have epush : dst.push n = dst ++ [n].toArray := by simp
    simp only [hnn, Bool.false_eq_true, if_false, e8, eapp, ha, epush]
    exact (by simpa using hc)

end Geo.IGlue

#print axioms Geo.IGlue.appendFloat_eqR
#print axioms Geo.IGlue.rcompress_eq
#print axioms Geo.IGlue.rtree_compress_eq
