/-
  Property C12, RE-ENCODINGS: the point set, validity, `Spec.meets` and `Geom.intersects` do not
  depend on how an operand is written down.

  `RE.RingEq r r'`   r' is another encoding of the closed ring r: start at another vertex
                     (`rot`, closed form `v ++ [v.head!]` ↦ `v.rotate k ++ [(v.rotate k).head!]`),
                     traverse the other way round (`rev`, `r ↦ r.reverse`), repeat the omitted
                     closing vertex (`close`), and the equivalence closure.
  `RE.Reenc A A'`    A' is another encoding of the shape A: exterior ring re-encoded, any holes
                     re-encoded, holes listed in another order, line string reversed (closure).

  * `ring_parity_reenc`, `ring_onBoundary_reenc`, `ring_inRing_reenc`, `ring_strictIn_reenc`
                               crossing parity / boundary / closed region / open region of a ring
  * `parity_rotate`, `parity_reverse`, `parity_closing`  (the three generators, spelled out)
  * `simpleRing_reenc`         `Spec.simpleRing` is encoding-independent
  * `member_reenc`             `Reenc A A' → A'.member p = A.member p`
  * `valid_reenc`              `Reenc A A' → A'.valid = A.valid`  (no constructor had to be dropped:
                               `Shape.valid` has no orientation requirement and its hole clauses
                               are symmetric)
  * `spec_meets_reenc`, `geom_intersects_reenc`   valid operands, both re-encoded independently
  * `geom_intersects_hole_order`  hole order, unconditional (any shapes, valid or not)

  `build` here is the one of GeoProofs.Intersects.Shapes; the statements about `contains`
  (other `build`, same definition) are in Props/C12ReencContains.lean.
-/
import GeoProofs.Props.C02Convex
import GeoProofs.Reencode.Shape
import GeoProofs.Reencode.HoleOrder

namespace Geo
open RE

theorem ring_parity_reenc {r r' : List Pt} (h : RingEq r r') (p : Pt) :
    Spec.parity (Spec.edges r' true) p = Spec.parity (Spec.edges r true) p := h.ecyc.parity_eq p

theorem ring_onBoundary_reenc {r r' : List Pt} (h : RingEq r r') (p : Pt) :
    Spec.onBoundary (Spec.edges r' true) p = Spec.onBoundary (Spec.edges r true) p :=
  h.ecyc.onBoundary_eq p

theorem ring_inRing_reenc {r r' : List Pt} (h : RingEq r r') (p : Pt) :
    Spec.inRing (Spec.edges r' true) p = Spec.inRing (Spec.edges r true) p := h.ecyc.inRing_eq p

theorem ring_strictIn_reenc {r r' : List Pt} (h : RingEq r r') (p : Pt) :
    Spec.strictIn (Spec.edges r' true) p = Spec.strictIn (Spec.edges r true) p :=
  h.ecyc.strictIn_eq p

/-- start the ring at vertex `k` -/
theorem parity_rotate (v : List Pt) (k : Nat) (hv : v ≠ []) (p : Pt) :
    Spec.parity (Spec.edges (v.rotate k ++ [(v.rotate k).head!]) true) p =
      Spec.parity (Spec.edges (v ++ [v.head!]) true) p :=
  ring_parity_reenc (.rot v k hv) p

/-- traverse the ring (closing vertex repeated or not) the other way round -/
theorem parity_reverse (r : List Pt) (p : Pt) :
    Spec.parity (Spec.edges r.reverse true) p = Spec.parity (Spec.edges r true) p :=
  ring_parity_reenc (.rev r) p

/-- repeat the closing vertex -/
theorem parity_closing (v : List Pt) (h3 : 3 ≤ v.length) (hne : v.getLast? ≠ v.head?) (p : Pt) :
    Spec.parity (Spec.edges (v ++ [v.head!]) true) p = Spec.parity (Spec.edges v true) p :=
  ring_parity_reenc (.close v h3 hne) p

theorem line_member_reverse (l : List Pt) (p : Pt) :
    (Spec.Shape.line l.reverse).member p = (Spec.Shape.line l).member p :=
  (Reenc.line l).member_eq p

/-- derived generator: start vertex of an encoding WITHOUT the closing vertex (both encodings
    must really omit it: if `v.rotate k` happened to end in its own first vertex, `Spec.edges`
    would read that as a closing vertex and drop a zero-length edge) -/
theorem ringEq_rotate_open (v : List Pt) (k : Nat) (h3 : 3 ≤ v.length)
    (hne : v.getLast? ≠ v.head?) (hne' : (v.rotate k).getLast? ≠ (v.rotate k).head?) :
    RingEq v (v.rotate k) :=
  (RingEq.close v h3 hne).trans
    ((RingEq.rot v k (by intro e; simp [e] at h3)).trans
      (RingEq.close (v.rotate k) (by simpa using h3) hne').symm)

theorem simpleRing_reenc {r r' : List Pt} (h : RingEq r r') :
    Spec.simpleRing r' = Spec.simpleRing r := h.simple_eq

theorem member_reenc {A A' : Spec.Shape} (h : Reenc A A') (p : Pt) : A'.member p = A.member p :=
  h.member_eq p

theorem valid_reenc {A A' : Spec.Shape} (h : Reenc A A') : A'.valid = A.valid := h.valid_eq

theorem spec_meets_reenc (A A' B B' : Spec.Shape) (hA : A.valid = true) (hB : B.valid = true)
    (ha : Reenc A A') (hb : Reenc B B') : Spec.meets A B = Spec.meets A' B' := by
  have hA' : A'.valid = true := by rw [ha.valid_eq]; exact hA
  have hB' : B'.valid = true := by rw [hb.valid_eq]; exact hB
  rw [Bool.eq_iff_iff, spec_meets_iff_holes A B hA hB, spec_meets_iff_holes A' B' hA' hB']
  simp only [ha.member_eq, hb.member_eq]

/-- **`intersects` does not depend on the encoding of either operand** -/
theorem geom_intersects_reenc (A A' B B' : Spec.Shape) (hA : A.valid = true) (hB : B.valid = true)
    (ha : Reenc A A') (hb : Reenc B B') :
    (build A).intersects (build B) = (build A').intersects (build B') := by
  have hA' : A'.valid = true := by rw [ha.valid_eq]; exact hA
  have hB' : B'.valid = true := by rw [hb.valid_eq]; exact hB
  rw [geom_intersects_exact_holes A B hA hB, geom_intersects_exact_holes A' B' hA' hB']
  exact spec_meets_reenc A A' B B' hA hB ha hb

/-- the order in which the holes are listed is immaterial — unconditionally (no validity
    needed: the model only folds `any`/`all` over the hole list, GeoProofs.Reencode.HoleOrder) -/
theorem geom_intersects_hole_order (e : List Pt) (hs hs' : List (List Pt)) (B : Spec.Shape)
    (hp : hs.Perm hs') :
    (build (.poly e hs)).intersects (build B) = (build (.poly e hs')).intersects (build B) ∧
    (build B).intersects (build (.poly e hs)) = (build B).intersects (build (.poly e hs')) :=
  ⟨geom_intersects_holes_perm_left (hp.map _) _, geom_intersects_holes_perm_right (hp.map _) _⟩

end Geo

#print axioms Geo.ring_parity_reenc
#print axioms Geo.ring_inRing_reenc
#print axioms Geo.simpleRing_reenc
#print axioms Geo.member_reenc
#print axioms Geo.valid_reenc
#print axioms Geo.spec_meets_reenc
#print axioms Geo.geom_intersects_reenc
#print axioms Geo.geom_intersects_hole_order
