package main

// geoformulas: translates the spherical-geometry formulas of <repo>/geo/geo.go and the three
// float comparisons of <repo>/circle.go into a Lean file (namespace Geo.Gen) whose definitions
// are polymorphic over the class Geo.GeoNum (lean/GeoModel/GeoNum.lean).
//
// The translation is purely syntactic (go/parser + go/ast, no type checker) and deterministic.
// Only a small straight-line subset of Go is recognised (see geoformulas_test.md).  Whatever is
// not recognised is emitted as `opaque <name>_unrecognised : Unit` preceded by a comment giving
// the reason; functions that call an unrecognised function become unrecognised themselves.  The
// Lean proofs and the driver refer to the recognised names, so an unrecognised rewrite breaks
// their compilation instead of passing silently.

import (
	"fmt"
	"go/ast"
	"go/parser"
	"go/token"
	"os"
	"path/filepath"
	"regexp"
	"sort"
	"strconv"
	"strings"
	"unicode"
)

func init() { translators["geoformulas"] = translateGeoFormulas }

// ---------------------------------------------------------------------------------------------
// types of the subset

type gfType int

const (
	gfFloat      gfType = iota // float64                      -> α
	gfUntypedInt               // untyped integer constant      -> α (division between two is refused)
	gfInt32                    // int32                         -> Int
	gfBool                     // bool                          -> Bool
	gfOther                    // anything else: only inert uses are tolerated (NewCircle)
)

func (t gfType) lean() string {
	switch t {
	case gfFloat, gfUntypedInt:
		return "α"
	case gfInt32:
		return "Int"
	case gfBool:
		return "Bool"
	}
	return "?"
}

func gfIsNum(t gfType) bool { return t == gfFloat || t == gfUntypedInt }

type gfParam struct {
	goName string
	ty     gfType
}

type gfSig struct {
	params  []gfType
	results []gfType
}

// a translated top-level item (constant or function)
type gfItem struct {
	goName   string
	leanName string
	comment  string   // Go signature / origin, printed as a comment
	header   string   // "def name {α : Type} [GeoNum α] (..) : T :="
	body     []string // lines of the body (already indented by 2)
	deps     []string // goNames of package-level items used
	err      error    // non-nil: unrecognised
}

// ---------------------------------------------------------------------------------------------
// identifiers

var gfGreek = map[rune]string{
	'φ': "phi", 'λ': "lam", 'Δ': "D", 'δ': "delta", 'θ': "theta",
}

var gfLeanReserved = map[string]bool{
	"at": true, "from": true, "end": true, "then": true, "else": true, "fun": true, "show": true,
	"have": true, "let": true, "in": true, "do": true, "if": true, "by": true, "with": true,
	"match": true, "open": true, "def": true, "theorem": true, "where": true, "using": true,
	"Type": true, "Prop": true, "Sort": true, "instance": true, "class": true, "structure": true,
	"namespace": true, "section": true, "variable": true, "universe": true, "import": true,
	"deriving": true, "extends": true, "mutual": true, "export": true, "local": true, "private": true,
	"protected": true, "macro": true, "syntax": true, "notation": true, "infix": true, "prefix": true,
	"postfix": true, "example": true, "lemma": true, "axiom": true, "opaque": true, "abbrev": true,
	"inductive": true, "calc": true, "suffices": true, "obtain": true, "return": true, "for": true,
	"unless": true, "try": true, "catch": true, "finally": true, "nomatch": true, "nofun": true,
	"Geo": true, "GeoNum": true, "Gen": true, "Int": true, "Bool": true, "true": true, "false": true,
}

// leanIdent maps a Go identifier to an ASCII Lean identifier (Greek letters of the source are
// spelled out: φ→phi, λ→lam, Δ→D, δ→delta, θ→theta).  Any other non-ASCII rune is refused.
func gfLeanIdent(name string) (string, error) {
	var b strings.Builder
	for _, r := range name {
		switch {
		case r < 128 && (unicode.IsLetter(r) || unicode.IsDigit(r) || r == '_'):
			b.WriteRune(r)
		case gfGreek[r] != "":
			b.WriteString(gfGreek[r])
		default:
			return "", fmt.Errorf("identifier %q: unsupported character %q", name, r)
		}
	}
	s := b.String()
	if gfLeanReserved[s] {
		s += "_"
	}
	return s, nil
}

func gfLowerFirst(s string) string {
	if s == "" {
		return s
	}
	r := []rune(s)
	r[0] = unicode.ToLower(r[0])
	return string(r)
}

// ---------------------------------------------------------------------------------------------
// the per-function translation environment

type gfScope struct {
	vars map[string]gfType // Go name -> type
}

type gfEnv struct {
	pkg *gfPackage
	// qualifier with which functions of package geo are called: "" inside geo.go, "geo" in circle.go
	qual string
	// is "math" imported (unaliased) in the file being translated
	hasMath bool
	scopes  []*gfScope
	// Go name -> Lean name for locals of this function (must be injective)
	leanOf map[string]string
	usedBy map[string]string // Lean name -> Go name
	// leaf expressions (circle.go): canonical Go text (e.g. "g.center.X") -> Lean parameter name.
	// The Go text itself (it contains a dot, so it cannot clash with a Go identifier) is the key
	// under which the Lean name is reserved in leanOf/usedBy.
	leaves map[string]string
	// struct mode (NewCircle): variable holding new(Circle) and the field types
	structVar    string
	structFields map[string]gfType
	deps         map[string]bool
}

type gfPackage struct {
	constTy map[string]gfType  // package constants of geo.go
	funcs   map[string]*gfSig  // package functions of geo.go (by Go name)
	lean    map[string]string  // Go name -> Lean name of package-level items
	items   map[string]*gfItem // translated items by Go name
}

// reserveLeaves reserves the Lean parameter names of the leaf expressions, so that a Go local
// that would be printed with the same Lean name is refused instead of capturing it.
func (e *gfEnv) reserveLeaves() {
	for k, l := range e.leaves {
		e.leanOf[k] = l
		e.usedBy[l] = k
	}
}

func (e *gfEnv) push() { e.scopes = append(e.scopes, &gfScope{vars: map[string]gfType{}}) }
func (e *gfEnv) pop()  { e.scopes = e.scopes[:len(e.scopes)-1] }

func (e *gfEnv) lookup(name string) (gfType, int, bool) {
	for i := len(e.scopes) - 1; i >= 0; i-- {
		if t, ok := e.scopes[i].vars[name]; ok {
			return t, i, true
		}
	}
	return 0, -1, false
}

func (e *gfEnv) declare(name string, t gfType) (string, error) {
	e.scopes[len(e.scopes)-1].vars[name] = t
	return e.leanVar(name)
}

func (e *gfEnv) leanVar(name string) (string, error) {
	if l, ok := e.leanOf[name]; ok {
		return l, nil
	}
	l, err := gfLeanIdent(strings.ReplaceAll(name, ".", "_"))
	if err != nil {
		return "", err
	}
	if other, ok := e.usedBy[l]; ok && other != name {
		return "", fmt.Errorf("identifiers %q and %q both map to Lean name %q", other, name, l)
	}
	e.leanOf[name] = l
	e.usedBy[l] = name
	return l, nil
}

// ---------------------------------------------------------------------------------------------
// expressions

var gfIntLit = regexp.MustCompile(`^(0|[1-9][0-9]*)$`)
var gfFloatLit = regexp.MustCompile(`^[0-9]+(\.[0-9]+)?([eE][+-]?[0-9]+)?$`)

var gfMath1 = map[string]string{
	"Sin": "GeoNum.sin", "Cos": "GeoNum.cos", "Asin": "GeoNum.asin", "Acos": "GeoNum.acos",
	"Sqrt": "GeoNum.sqrt",
}
var gfMath2 = map[string]string{"Atan2": "GeoNum.atan2", "Mod": "GeoNum.fmod"}

// canonical text of a "leaf" expression: a.b.c or a.b(c) with identifiers only
func gfLeafKey(x ast.Expr) string {
	switch x := x.(type) {
	case *ast.Ident:
		return x.Name
	case *ast.SelectorExpr:
		k := gfLeafKey(x.X)
		if k == "" {
			return ""
		}
		return k + "." + x.Sel.Name
	case *ast.CallExpr:
		k := gfLeafKey(x.Fun)
		if k == "" || x.Ellipsis.IsValid() {
			return ""
		}
		var args []string
		for _, a := range x.Args {
			id, ok := a.(*ast.Ident)
			if !ok {
				return ""
			}
			args = append(args, id.Name)
		}
		return k + "(" + strings.Join(args, ",") + ")"
	}
	return ""
}

func (e *gfEnv) isMathSel(x ast.Expr) (string, bool) {
	sel, ok := x.(*ast.SelectorExpr)
	if !ok {
		return "", false
	}
	id, ok := sel.X.(*ast.Ident)
	if !ok || id.Name != "math" || !e.hasMath {
		return "", false
	}
	if _, _, shadow := e.lookup("math"); shadow {
		return "", false
	}
	return sel.Sel.Name, true
}

// pkgFuncName recognises a call target naming a function of package geo.
func (e *gfEnv) pkgFuncName(fun ast.Expr) (string, bool) {
	if e.qual == "" {
		id, ok := fun.(*ast.Ident)
		if !ok {
			return "", false
		}
		if _, _, local := e.lookup(id.Name); local {
			return "", false
		}
		_, ok = e.pkg.funcs[id.Name]
		return id.Name, ok
	}
	sel, ok := fun.(*ast.SelectorExpr)
	if !ok {
		return "", false
	}
	id, ok := sel.X.(*ast.Ident)
	if !ok || id.Name != e.qual {
		return "", false
	}
	if _, _, local := e.lookup(e.qual); local {
		return "", false
	}
	_, ok = e.pkg.funcs[sel.Sel.Name]
	return sel.Sel.Name, ok
}

func (e *gfEnv) args(args []ast.Expr, want []gfType) ([]string, error) {
	if len(args) != len(want) {
		return nil, fmt.Errorf("call with %d arguments, expected %d", len(args), len(want))
	}
	var out []string
	for i, a := range args {
		s, t, err := e.expr(a)
		if err != nil {
			return nil, err
		}
		switch {
		case gfIsNum(want[i]) && gfIsNum(t):
		case want[i] == t:
		default:
			return nil, fmt.Errorf("argument %d has type %v, expected %v", i, t.lean(), want[i].lean())
		}
		out = append(out, gfAtom(s))
	}
	return out, nil
}

// gfAtom parenthesises s unless it is already atomic (identifier, dotted name or parenthesised).
var gfAtomic = regexp.MustCompile(`^[A-Za-z_][A-Za-z0-9_.]*$`)

func gfAtom(s string) string {
	if gfAtomic.MatchString(s) {
		return s
	}
	if strings.HasPrefix(s, "(") && gfMatchingParen(s) == len(s)-1 {
		return s
	}
	return "(" + s + ")"
}

func gfMatchingParen(s string) int {
	depth := 0
	for i, c := range s {
		switch c {
		case '(':
			depth++
		case ')':
			depth--
			if depth == 0 {
				return i
			}
		}
	}
	return -1
}

// calls translates a call to a geo function; returns text and result types.
func (e *gfEnv) pkgCall(name string, call *ast.CallExpr) (string, []gfType, error) {
	if call.Ellipsis.IsValid() {
		return "", nil, fmt.Errorf("variadic call")
	}
	sig := e.pkg.funcs[name]
	as, err := e.args(call.Args, sig.params)
	if err != nil {
		return "", nil, fmt.Errorf("call of %s: %v", name, err)
	}
	e.deps[name] = true
	return e.pkg.lean[name] + " " + strings.Join(as, " "), sig.results, nil
}

// expr translates an expression; the text is NOT parenthesised at top level, the Go
// parenthesisation is preserved (Go and Lean agree on the relative precedence and the left
// associativity of  * /  >  + -  >  comparisons  >  &&  >  ||), calls and unary minus are
// always parenthesised.
func (e *gfEnv) expr(x ast.Expr) (string, gfType, error) {
	// leaf expressions of circle.go
	if e.leaves != nil {
		if k := gfLeafKey(x); k != "" {
			if l, ok := e.leaves[k]; ok {
				root := strings.SplitN(k, ".", 2)[0]
				if _, _, shadow := e.lookup(root); shadow {
					return "", 0, fmt.Errorf("%s: %q is shadowed", k, root)
				}
				return l, gfFloat, nil
			}
		}
	}
	switch x := x.(type) {
	case *ast.BasicLit:
		switch x.Kind {
		case token.INT:
			if !gfIntLit.MatchString(x.Value) {
				return "", 0, fmt.Errorf("integer literal %s: only plain decimal is recognised", x.Value)
			}
			return "(" + x.Value + " : α)", gfUntypedInt, nil
		case token.FLOAT:
			if !gfFloatLit.MatchString(x.Value) {
				return "", 0, fmt.Errorf("float literal %s: only digits[.digits][e[±]digits] is recognised", x.Value)
			}
			return "(" + x.Value + " : α)", gfFloat, nil
		}
		return "", 0, fmt.Errorf("literal %s not recognised", x.Value)
	case *ast.Ident:
		if t, _, ok := e.lookup(x.Name); ok {
			if t == gfOther {
				return "", 0, fmt.Errorf("variable %s has an unsupported type", x.Name)
			}
			l, err := e.leanVar(x.Name)
			return l, t, err
		}
		if t, ok := e.pkg.constTy[x.Name]; ok && e.qual == "" {
			e.deps[x.Name] = true
			return e.pkg.lean[x.Name], t, nil
		}
		return "", 0, fmt.Errorf("identifier %s not recognised", x.Name)
	case *ast.ParenExpr:
		s, t, err := e.expr(x.X)
		if err != nil {
			return "", 0, err
		}
		return gfAtom(s), t, nil
	case *ast.UnaryExpr:
		s, t, err := e.expr(x.X)
		if err != nil {
			return "", 0, err
		}
		switch x.Op {
		case token.SUB:
			if !gfIsNum(t) {
				return "", 0, fmt.Errorf("unary - on non-float")
			}
			return "(-" + gfAtom(s) + ")", t, nil
		case token.ADD:
			if !gfIsNum(t) {
				return "", 0, fmt.Errorf("unary + on non-float")
			}
			return gfAtom(s), t, nil
		}
		return "", 0, fmt.Errorf("unary operator %s not recognised", x.Op)
	case *ast.BinaryExpr:
		l, lt, err := e.expr(x.X)
		if err != nil {
			return "", 0, err
		}
		r, rt, err := e.expr(x.Y)
		if err != nil {
			return "", 0, err
		}
		switch x.Op {
		case token.ADD, token.SUB, token.MUL, token.QUO:
			if !gfIsNum(lt) || !gfIsNum(rt) {
				return "", 0, fmt.Errorf("arithmetic %s on non-float operands", x.Op)
			}
			t := gfFloat
			if lt == gfUntypedInt && rt == gfUntypedInt {
				if x.Op == token.QUO {
					return "", 0, fmt.Errorf("division of two untyped integer constants (integer division in Go)")
				}
				t = gfUntypedInt
			}
			return l + " " + x.Op.String() + " " + r, t, nil
		case token.LSS, token.GTR, token.LEQ, token.GEQ:
			if !gfIsNum(lt) || !gfIsNum(rt) {
				return "", 0, fmt.Errorf("comparison %s on non-float operands", x.Op)
			}
			op := map[token.Token]string{token.LSS: "GeoNum.lt", token.GTR: "GeoNum.gt",
				token.LEQ: "GeoNum.le", token.GEQ: "GeoNum.ge"}[x.Op]
			return op + " " + gfAtom(l) + " " + gfAtom(r), gfBool, nil
		case token.LAND, token.LOR:
			if lt != gfBool || rt != gfBool {
				return "", 0, fmt.Errorf("%s on non-bool operands", x.Op)
			}
			// operands are comparisons (applications): parenthesise them
			return gfAtom(l) + " " + x.Op.String() + " " + gfAtom(r), gfBool, nil
		}
		return "", 0, fmt.Errorf("binary operator %s not recognised", x.Op)
	case *ast.SelectorExpr:
		if name, ok := e.isMathSel(x); ok {
			if name == "Pi" {
				return "GeoNum.pi", gfFloat, nil
			}
			return "", 0, fmt.Errorf("math.%s not recognised as a value", name)
		}
		return "", 0, fmt.Errorf("selector %s not recognised", gfLeafKey(x))
	case *ast.CallExpr:
		if x.Ellipsis.IsValid() {
			return "", 0, fmt.Errorf("variadic call")
		}
		if name, ok := e.isMathSel(x.Fun); ok {
			if f, ok := gfMath1[name]; ok {
				as, err := e.args(x.Args, []gfType{gfFloat})
				if err != nil {
					return "", 0, fmt.Errorf("math.%s: %v", name, err)
				}
				return "(" + f + " " + as[0] + ")", gfFloat, nil
			}
			if f, ok := gfMath2[name]; ok {
				as, err := e.args(x.Args, []gfType{gfFloat, gfFloat})
				if err != nil {
					return "", 0, fmt.Errorf("math.%s: %v", name, err)
				}
				return "(" + f + " " + as[0] + " " + as[1] + ")", gfFloat, nil
			}
			if name == "Pow" {
				if len(x.Args) != 2 {
					return "", 0, fmt.Errorf("math.Pow: 2 arguments expected")
				}
				lit, ok := x.Args[1].(*ast.BasicLit)
				if !ok || lit.Kind != token.INT || !gfIntLit.MatchString(lit.Value) {
					return "", 0, fmt.Errorf("math.Pow: only a natural-number literal exponent is recognised")
				}
				as, err := e.args(x.Args[:1], []gfType{gfFloat})
				if err != nil {
					return "", 0, fmt.Errorf("math.Pow: %v", err)
				}
				return "(GeoNum.npow " + as[0] + " " + lit.Value + ")", gfFloat, nil
			}
			return "", 0, fmt.Errorf("math.%s not recognised", name)
		}
		if id, ok := x.Fun.(*ast.Ident); ok {
			if _, _, local := e.lookup(id.Name); !local {
				switch id.Name {
				case "int32":
					as, err := e.args(x.Args, []gfType{gfFloat})
					if err != nil {
						return "", 0, fmt.Errorf("int32(..): %v", err)
					}
					return "(GeoNum.toInt32 " + as[0] + ")", gfInt32, nil
				case "float64":
					if len(x.Args) != 1 {
						return "", 0, fmt.Errorf("float64(..): 1 argument expected")
					}
					s, t, err := e.expr(x.Args[0])
					if err != nil {
						return "", 0, err
					}
					switch t {
					case gfInt32:
						return "(GeoNum.ofInt " + gfAtom(s) + ")", gfFloat, nil
					case gfFloat, gfUntypedInt:
						return gfAtom(s), gfFloat, nil
					}
					return "", 0, fmt.Errorf("float64(..) of an unsupported type")
				}
			}
		}
		if name, ok := e.pkgFuncName(x.Fun); ok {
			s, res, err := e.pkgCall(name, x)
			if err != nil {
				return "", 0, err
			}
			if len(res) != 1 {
				return "", 0, fmt.Errorf("call of %s (%d results) used as a single value", name, len(res))
			}
			return "(" + s + ")", res[0], nil
		}
		return "", 0, fmt.Errorf("call of %s not recognised", gfExprText(x.Fun))
	}
	return "", 0, fmt.Errorf("expression of kind %T not recognised", x)
}

func gfExprText(x ast.Expr) string {
	if k := gfLeafKey(x); k != "" {
		return k
	}
	return fmt.Sprintf("%T", x)
}

// ---------------------------------------------------------------------------------------------
// statements

// an lvalue: identifier, or (struct mode) field of the struct variable
func (e *gfEnv) lvalueName(x ast.Expr) (name string, ok bool) {
	switch x := x.(type) {
	case *ast.Ident:
		return x.Name, true
	case *ast.SelectorExpr:
		if id, isId := x.X.(*ast.Ident); isId && e.structVar != "" && id.Name == e.structVar {
			return id.Name + "." + x.Sel.Name, true
		}
	}
	return "", false
}

// inertValue: an expression without effect and without float content that may be stored into a
// non-float variable/field and then ignored: identifier, basic literal, new(T).
func gfInertValue(x ast.Expr) bool {
	switch x := x.(type) {
	case *ast.Ident, *ast.BasicLit:
		return true
	case *ast.CallExpr:
		if id, ok := x.Fun.(*ast.Ident); ok && id.Name == "new" && len(x.Args) == 1 {
			_, ok := x.Args[0].(*ast.Ident)
			return ok
		}
	}
	return false
}

// inertCond: comparison between identifiers of non-float type and integer literals
func (e *gfEnv) inertCond(x ast.Expr) bool {
	b, ok := x.(*ast.BinaryExpr)
	if !ok {
		return false
	}
	switch b.Op {
	case token.LSS, token.GTR, token.LEQ, token.GEQ, token.EQL, token.NEQ:
	default:
		return false
	}
	side := func(s ast.Expr) bool {
		switch s := s.(type) {
		case *ast.BasicLit:
			return s.Kind == token.INT
		case *ast.Ident:
			t, _, ok := e.lookup(s.Name)
			return ok && t == gfOther
		}
		return false
	}
	return side(b.X) && side(b.Y)
}

// inertStmt (struct mode only): a statement that can only change non-float variables / fields.
func (e *gfEnv) inertStmt(s ast.Stmt) bool {
	if e.structVar == "" && e.structFields == nil {
		return false
	}
	switch s := s.(type) {
	case *ast.AssignStmt:
		if s.Tok != token.ASSIGN || len(s.Lhs) != 1 || len(s.Rhs) != 1 || !gfInertValue(s.Rhs[0]) {
			return false
		}
		name, ok := e.lvalueName(s.Lhs[0])
		if !ok {
			return false
		}
		if strings.Contains(name, ".") {
			f := strings.SplitN(name, ".", 2)[1]
			t, known := e.structFields[f]
			return known && t == gfOther
		}
		t, _, known := e.lookup(name)
		return known && t == gfOther
	case *ast.IfStmt:
		if s.Init != nil || s.Else != nil || !e.inertCond(s.Cond) {
			return false
		}
		for _, b := range s.Body.List {
			if !e.inertStmt(b) {
				return false
			}
		}
		return true
	}
	return false
}

type gfOut struct {
	lines []string
}

func (o *gfOut) add(indent int, s string) {
	o.lines = append(o.lines, strings.Repeat("  ", indent)+s)
}

func gfTuple(names []string) string {
	if len(names) == 1 {
		return names[0]
	}
	return "(" + strings.Join(names, ", ") + ")"
}

func gfMentions(x ast.Expr, names map[string]bool) bool {
	found := false
	ast.Inspect(x, func(n ast.Node) bool {
		if id, ok := n.(*ast.Ident); ok && names[id.Name] {
			found = true
		}
		return true
	})
	return found
}

// block translates a list of statements (no return statements) in a NEW scope and returns the
// Go names of the outer-scope variables it assigns, in order of first assignment.
func (e *gfEnv) block(stmts []ast.Stmt, indent int, out *gfOut) ([]string, error) {
	e.push()
	defer e.pop()
	depth := len(e.scopes) - 1
	var assigned []string
	seen := map[string]bool{}
	note := func(name string, scope int) {
		if scope < depth && !seen[name] {
			seen[name] = true
			assigned = append(assigned, name)
		}
	}
	for _, s := range stmts {
		if err := e.stmt(s, indent, out, note); err != nil {
			return nil, err
		}
	}
	return assigned, nil
}

// bind handles one assignment target: returns the Lean name to `let`-bind.
func (e *gfEnv) bind(lhs ast.Expr, define bool, t gfType, note func(string, int)) (string, error) {
	name, ok := e.lvalueName(lhs)
	if !ok {
		return "", fmt.Errorf("assignment target not recognised")
	}
	if name == "_" {
		return "_", nil
	}
	if strings.Contains(name, ".") {
		f := strings.SplitN(name, ".", 2)[1]
		ft, known := e.structFields[f]
		if !known || ft != gfFloat {
			return "", fmt.Errorf("assignment to field %s: not a float64 field", name)
		}
	}
	vt, scope, exists := e.lookup(name)
	cur := len(e.scopes) - 1
	if define {
		if exists && scope == cur {
			// Go: redeclaration in the same scope inside a multi-assignment = plain assignment
			define = false
		} else if exists {
			return "", fmt.Errorf("%s := … shadows an outer variable (not recognised)", name)
		} else {
			if t == gfUntypedInt {
				return "", fmt.Errorf("%s := <untyped integer constant> would be an int in Go", name)
			}
			return e.declare(name, t)
		}
	}
	if !exists {
		return "", fmt.Errorf("assignment to undeclared %s", name)
	}
	if !(vt == t || (vt == gfFloat && t == gfUntypedInt)) {
		return "", fmt.Errorf("assignment to %s: type mismatch", name)
	}
	note(name, scope)
	return e.leanVar(name)
}

func (e *gfEnv) stmt(s ast.Stmt, indent int, out *gfOut, note func(string, int)) error {
	if e.inertStmt(s) {
		return nil
	}
	switch s := s.(type) {
	case *ast.AssignStmt:
		define := s.Tok == token.DEFINE
		switch s.Tok {
		case token.DEFINE, token.ASSIGN:
		case token.ADD_ASSIGN, token.SUB_ASSIGN, token.MUL_ASSIGN, token.QUO_ASSIGN:
			if len(s.Lhs) != 1 || len(s.Rhs) != 1 {
				return fmt.Errorf("compound assignment with several operands")
			}
			cur, ct, err := e.expr(s.Lhs[0])
			if err != nil {
				return err
			}
			r, rt, err := e.expr(s.Rhs[0])
			if err != nil {
				return err
			}
			if ct != gfFloat || !gfIsNum(rt) {
				return fmt.Errorf("compound assignment on non-float")
			}
			op := map[token.Token]string{token.ADD_ASSIGN: "+", token.SUB_ASSIGN: "-",
				token.MUL_ASSIGN: "*", token.QUO_ASSIGN: "/"}[s.Tok]
			// x op= e  is  x = x op (e)
			if _, isBin := s.Rhs[0].(*ast.BinaryExpr); isBin {
				r = gfAtom(r)
			}
			l, err := e.bind(s.Lhs[0], false, gfFloat, note)
			if err != nil {
				return err
			}
			out.add(indent, "let "+l+" := "+cur+" "+op+" "+r)
			return nil
		default:
			return fmt.Errorf("assignment operator %s not recognised", s.Tok)
		}
		// struct mode: g := new(Circle)
		if define && len(s.Lhs) == 1 && len(s.Rhs) == 1 && e.structFields != nil && e.structVar == "" {
			if call, ok := s.Rhs[0].(*ast.CallExpr); ok {
				if id, ok := call.Fun.(*ast.Ident); ok && id.Name == "new" && len(call.Args) == 1 {
					ty, ok1 := call.Args[0].(*ast.Ident)
					v, ok2 := s.Lhs[0].(*ast.Ident)
					if !ok1 || !ok2 || ty.Name != "Circle" || len(e.scopes) != 1 {
						return fmt.Errorf("new(..): only `g := new(Circle)` at top level is recognised")
					}
					if _, _, exists := e.lookup(v.Name); exists {
						return fmt.Errorf("%s redeclared", v.Name)
					}
					e.scopes[0].vars[v.Name] = gfOther
					e.structVar = v.Name
					// float fields start at zero
					var fs []string
					for f, t := range e.structFields {
						if t == gfFloat {
							fs = append(fs, f)
						}
					}
					sort.Strings(fs)
					for _, f := range fs {
						l, err := e.declare(v.Name+"."+f, gfFloat)
						if err != nil {
							return err
						}
						out.add(indent, "let "+l+" : α := 0")
					}
					return nil
				}
			}
		}
		// a, b := math.Sincos(x)   /   a, b := F(...)
		if len(s.Lhs) > 1 && len(s.Rhs) == 1 {
			call, ok := s.Rhs[0].(*ast.CallExpr)
			if !ok {
				return fmt.Errorf("multi-value assignment from a non-call")
			}
			if name, ok := e.isMathSel(call.Fun); ok && name == "Sincos" {
				if len(s.Lhs) != 2 {
					return fmt.Errorf("math.Sincos: 2 targets expected")
				}
				as, err := e.args(call.Args, []gfType{gfFloat})
				if err != nil {
					return fmt.Errorf("math.Sincos: %v", err)
				}
				targets := map[string]bool{}
				for _, l := range s.Lhs {
					if id, ok := l.(*ast.Ident); ok {
						targets[id.Name] = true
					} else {
						return fmt.Errorf("math.Sincos: target not an identifier")
					}
				}
				overlap := gfMentions(call.Args[0], targets)
				l0, err := e.bind(s.Lhs[0], define, gfFloat, note)
				if err != nil {
					return err
				}
				l1, err := e.bind(s.Lhs[1], define, gfFloat, note)
				if err != nil {
					return err
				}
				if overlap || l0 == l1 {
					out.add(indent, "let ("+l0+", "+l1+") := (GeoNum.sin "+as[0]+", GeoNum.cos "+as[0]+")")
				} else {
					// math.Sincos(x) = (Sin x, Cos x); the targets do not occur in x
					out.add(indent, "let "+l0+" := GeoNum.sin "+as[0])
					out.add(indent, "let "+l1+" := GeoNum.cos "+as[0])
				}
				return nil
			}
			if name, ok := e.pkgFuncName(call.Fun); ok {
				txt, res, err := e.pkgCall(name, call)
				if err != nil {
					return err
				}
				if len(res) != len(s.Lhs) {
					return fmt.Errorf("call of %s: %d results for %d targets", name, len(res), len(s.Lhs))
				}
				var ls []string
				for i, l := range s.Lhs {
					n, err := e.bind(l, define, res[i], note)
					if err != nil {
						return err
					}
					ls = append(ls, n)
				}
				out.add(indent, "let "+gfTuple(ls)+" := "+txt)
				return nil
			}
			return fmt.Errorf("multi-value call of %s not recognised", gfExprText(call.Fun))
		}
		if len(s.Lhs) != len(s.Rhs) {
			return fmt.Errorf("assignment with %d targets and %d values", len(s.Lhs), len(s.Rhs))
		}
		// evaluate all right-hand sides first (Go semantics), then bind
		var rs []string
		var ts []gfType
		for _, r := range s.Rhs {
			txt, t, err := e.expr(r)
			if err != nil {
				return err
			}
			if t == gfBool || t == gfOther {
				return fmt.Errorf("assignment of a non-numeric value")
			}
			rs = append(rs, txt)
			ts = append(ts, t)
		}
		var ls []string
		for i, l := range s.Lhs {
			n, err := e.bind(l, define, ts[i], note)
			if err != nil {
				return err
			}
			ls = append(ls, n)
		}
		if len(ls) == 1 {
			out.add(indent, "let "+ls[0]+" := "+rs[0])
		} else {
			out.add(indent, "let "+gfTuple(ls)+" := ("+strings.Join(rs, ", ")+")")
		}
		return nil
	case *ast.IfStmt:
		if s.Init != nil {
			return fmt.Errorf("if with an init statement not recognised")
		}
		c, ct, err := e.expr(s.Cond)
		if err != nil {
			return err
		}
		if ct != gfBool {
			return fmt.Errorf("if condition is not a float comparison")
		}
		thenOut, elseOut := &gfOut{}, &gfOut{}
		thenAsg, err := e.block(s.Body.List, indent+2, thenOut)
		if err != nil {
			return err
		}
		var elseAsg []string
		switch el := s.Else.(type) {
		case nil:
		case *ast.BlockStmt:
			elseAsg, err = e.block(el.List, indent+2, elseOut)
		case *ast.IfStmt:
			elseAsg, err = e.block([]ast.Stmt{el}, indent+2, elseOut)
		default:
			err = fmt.Errorf("else branch not recognised")
		}
		if err != nil {
			return err
		}
		var vs []string
		seen := map[string]bool{}
		for _, v := range append(append([]string{}, thenAsg...), elseAsg...) {
			if !seen[v] {
				seen[v] = true
				vs = append(vs, v)
			}
		}
		if len(vs) == 0 {
			return fmt.Errorf("if statement assigns no variable")
		}
		var ls []string
		for _, v := range vs {
			l, err := e.leanVar(v)
			if err != nil {
				return err
			}
			_, scope, _ := e.lookup(v)
			note(v, scope)
			ls = append(ls, l)
		}
		tup := gfTuple(ls)
		out.add(indent, "let "+tup+" :=")
		out.add(indent+1, "if "+c+" then")
		out.lines = append(out.lines, thenOut.lines...)
		out.add(indent+2, tup)
		out.add(indent+1, "else")
		out.lines = append(out.lines, elseOut.lines...)
		out.add(indent+2, tup)
		return nil
	}
	return fmt.Errorf("statement of kind %s not recognised", gfStmtKind(s))
}

func gfStmtKind(s ast.Stmt) string {
	return strings.TrimPrefix(fmt.Sprintf("%T", s), "*ast.")
}

// ---------------------------------------------------------------------------------------------
// functions

func gfFieldType(x ast.Expr) gfType {
	if id, ok := x.(*ast.Ident); ok {
		switch id.Name {
		case "float64":
			return gfFloat
		case "int32":
			return gfInt32
		case "bool":
			return gfBool
		}
	}
	return gfOther
}

func gfFieldList(fl *ast.FieldList) (ps []gfParam, named bool, err error) {
	if fl == nil {
		return nil, false, nil
	}
	for _, f := range fl.List {
		if _, ok := f.Type.(*ast.Ellipsis); ok {
			return nil, false, fmt.Errorf("variadic parameter")
		}
		t := gfFieldType(f.Type)
		if len(f.Names) == 0 {
			ps = append(ps, gfParam{"", t})
			continue
		}
		named = true
		for _, n := range f.Names {
			ps = append(ps, gfParam{n.Name, t})
		}
	}
	return ps, named, nil
}

func gfSigText(fset *token.FileSet, fd *ast.FuncDecl, src []byte) string {
	start := fset.Position(fd.Pos()).Offset
	end := fset.Position(fd.Type.End()).Offset
	return strings.Join(strings.Fields(string(src[start:end])), " ")
}

func (p *gfPackage) newEnv(qual string, hasMath bool) *gfEnv {
	e := &gfEnv{pkg: p, qual: qual, hasMath: hasMath, leanOf: map[string]string{},
		usedBy: map[string]string{}, deps: map[string]bool{}}
	e.push()
	return e
}

func gfSortedDeps(m map[string]bool) []string {
	var ds []string
	for d := range m {
		ds = append(ds, d)
	}
	sort.Strings(ds)
	return ds
}

func gfResultType(ts []gfType) string {
	var ss []string
	for _, t := range ts {
		ss = append(ss, t.lean())
	}
	return strings.Join(ss, " × ")
}

// checkGlobalClash: a local whose Lean name equals the Lean name of a package item used by the
// function would capture it.
func (e *gfEnv) checkGlobalClash() error {
	for d := range e.deps {
		if g, ok := e.usedBy[e.pkg.lean[d]]; ok {
			return fmt.Errorf("local %q would capture the Lean name of %s", g, d)
		}
	}
	return nil
}

// body translates params/results/body of a function-like thing.  `ret` decides what a
// `return` means: it receives the return statement and yields the Lean result expression.
func (e *gfEnv) funcBody(params []gfParam, namedResults []gfParam, body *ast.BlockStmt,
	ret func(r *ast.ReturnStmt) (string, error)) ([]string, error) {
	out := &gfOut{}
	for _, r := range namedResults {
		if r.goName == "_" || r.goName == "" {
			continue
		}
		if r.ty != gfFloat {
			return nil, fmt.Errorf("named result %s of non-float type", r.goName)
		}
		l, err := e.declare(r.goName, r.ty)
		if err != nil {
			return nil, err
		}
		// Go: named results start at the zero value
		out.add(1, "let "+l+" : α := 0")
	}
	if body == nil || len(body.List) == 0 {
		return nil, fmt.Errorf("empty body")
	}
	n := len(body.List)
	last, ok := body.List[n-1].(*ast.ReturnStmt)
	if !ok {
		return nil, fmt.Errorf("the last statement is not a return")
	}
	note := func(string, int) {}
	for _, s := range body.List[:n-1] {
		if err := e.stmt(s, 1, out, note); err != nil {
			return nil, err
		}
	}
	r, err := ret(last)
	if err != nil {
		return nil, err
	}
	out.add(1, r)
	if err := e.checkGlobalClash(); err != nil {
		return nil, err
	}
	return out.lines, nil
}

func gfUnrecognised(goName, leanName, comment string, err error) *gfItem {
	return &gfItem{goName: goName, leanName: leanName, comment: comment, err: err}
}

// translate a plain function of geo.go
func (p *gfPackage) geoFunc(fset *token.FileSet, src []byte, hasMath bool, fd *ast.FuncDecl) *gfItem {
	leanName := p.lean[fd.Name.Name]
	comment := gfSigText(fset, fd, src)
	fail := func(err error) *gfItem { return gfUnrecognised(fd.Name.Name, leanName, comment, err) }
	if fd.Type.TypeParams != nil {
		return fail(fmt.Errorf("generic function"))
	}
	params, _, err := gfFieldList(fd.Type.Params)
	if err != nil {
		return fail(err)
	}
	results, named, err := gfFieldList(fd.Type.Results)
	if err != nil {
		return fail(err)
	}
	if len(results) == 0 {
		return fail(fmt.Errorf("no result"))
	}
	e := p.newEnv("", hasMath)
	var binders []string
	for _, pa := range params {
		if pa.ty != gfFloat && pa.ty != gfInt32 {
			return fail(fmt.Errorf("parameter %s: only float64 and int32 are recognised", pa.goName))
		}
		if pa.goName == "" || pa.goName == "_" {
			return fail(fmt.Errorf("unnamed parameter"))
		}
		l, err := e.declare(pa.goName, pa.ty)
		if err != nil {
			return fail(err)
		}
		binders = append(binders, "("+l+" : "+pa.ty.lean()+")")
	}
	var resTys []gfType
	for _, r := range results {
		if r.ty != gfFloat && r.ty != gfInt32 {
			return fail(fmt.Errorf("result type: only float64 and int32 are recognised"))
		}
		resTys = append(resTys, r.ty)
	}
	var namedResults []gfParam
	if named {
		namedResults = results
	}
	ret := func(r *ast.ReturnStmt) (string, error) {
		if len(r.Results) == 0 {
			if !named {
				return "", fmt.Errorf("naked return without named results")
			}
			var ls []string
			for _, nr := range results {
				if nr.goName == "_" {
					return "", fmt.Errorf("naked return with a blank result")
				}
				l, err := e.leanVar(nr.goName)
				if err != nil {
					return "", err
				}
				ls = append(ls, l)
			}
			return gfTuple(ls), nil
		}
		if len(r.Results) != len(results) {
			return "", fmt.Errorf("return with %d values for %d results", len(r.Results), len(results))
		}
		var ss []string
		for i, x := range r.Results {
			s, t, err := e.expr(x)
			if err != nil {
				return "", err
			}
			if !(t == resTys[i] || (resTys[i] == gfFloat && t == gfUntypedInt)) {
				return "", fmt.Errorf("return value %d has the wrong type", i)
			}
			ss = append(ss, s)
		}
		return gfTuple(ss), nil
	}
	lines, err := e.funcBody(params, namedResults, fd.Body, ret)
	if err != nil {
		return fail(err)
	}
	hdr := "def " + leanName + " {α : Type} [GeoNum α] " + strings.Join(binders, " ") + " : " +
		gfResultType(resTys) + " :="
	return &gfItem{goName: fd.Name.Name, leanName: leanName, comment: comment, header: hdr,
		body: lines, deps: gfSortedDeps(e.deps)}
}

// ---------------------------------------------------------------------------------------------
// constants of geo.go

func (p *gfPackage) geoConst(hasMath bool, name string, vs *ast.ValueSpec, idx int) *gfItem {
	leanName := p.lean[name]
	fail := func(err error) *gfItem { return gfUnrecognised(name, leanName, "const "+name, err) }
	if vs.Type != nil && gfFieldType(vs.Type) != gfFloat {
		return fail(fmt.Errorf("typed constant of non-float64 type"))
	}
	if idx >= len(vs.Values) {
		return fail(fmt.Errorf("constant without its own value (iota-style)"))
	}
	e := p.newEnv("", hasMath)
	s, t, err := e.expr(vs.Values[idx])
	if err != nil {
		return fail(err)
	}
	if !gfIsNum(t) {
		return fail(fmt.Errorf("non-numeric constant"))
	}
	if vs.Type != nil {
		t = gfFloat
	}
	p.constTy[name] = t
	return &gfItem{goName: name, leanName: leanName, comment: "const " + name,
		header: "def " + leanName + " {α : Type} [GeoNum α] : α :=", body: []string{"  " + s},
		deps: gfSortedDeps(e.deps)}
}

// ---------------------------------------------------------------------------------------------
// circle.go

func gfRecvCircle(fd *ast.FuncDecl) (string, bool) {
	if fd.Recv == nil || len(fd.Recv.List) != 1 || len(fd.Recv.List[0].Names) != 1 {
		return "", false
	}
	st, ok := fd.Recv.List[0].Type.(*ast.StarExpr)
	if !ok {
		return "", false
	}
	id, ok := st.X.(*ast.Ident)
	if !ok || id.Name != "Circle" {
		return "", false
	}
	return fd.Recv.List[0].Names[0].Name, true
}

func gfIsSel(x ast.Expr, pkg, name string) bool {
	sel, ok := x.(*ast.SelectorExpr)
	if !ok || sel.Sel.Name != name {
		return false
	}
	id, ok := sel.X.(*ast.Ident)
	return ok && id.Name == pkg
}

func gfIsStarIdent(x ast.Expr, name string) bool {
	st, ok := x.(*ast.StarExpr)
	if !ok {
		return false
	}
	id, ok := st.X.(*ast.Ident)
	return ok && (name == "" || id.Name == name)
}

type gfCircle struct {
	pkg     *gfPackage
	fset    *token.FileSet
	src     []byte
	hasMath bool
	geoQual string            // local name of the import ".../geojson/geo"
	fields  map[string]gfType // fields of struct Circle
	center  bool              // Circle.center has type geometry.Point
	methods map[string]*ast.FuncDecl
	funcs   map[string]*ast.FuncDecl
}

func (c *gfCircle) boolDef(leanName, comment string, binders []string, e *gfEnv, lines []string) *gfItem {
	hdr := "def " + leanName + " {α : Type} [GeoNum α] (" + strings.Join(binders, " ") + " : α) : Bool :="
	return &gfItem{goName: leanName, leanName: leanName, comment: comment, header: hdr, body: lines,
		deps: gfSortedDeps(e.deps)}
}

// (g *Circle) containsPoint(p geometry.Point) bool
func (c *gfCircle) containsPoint() *gfItem {
	const lean = "circleContainsPoint"
	comment := "circle.go: func (g *Circle) containsPoint(p geometry.Point) bool"
	fail := func(err error) *gfItem { return gfUnrecognised(lean, lean, comment, err) }
	fd := c.methods["containsPoint"]
	if fd == nil {
		return fail(fmt.Errorf("method (*Circle).containsPoint not found"))
	}
	recv, _ := gfRecvCircle(fd)
	comment = "circle.go: " + gfSigText(c.fset, fd, c.src)
	ps := fd.Type.Params
	if ps == nil || len(ps.List) != 1 || len(ps.List[0].Names) != 1 || !gfIsSel(ps.List[0].Type, "geometry", "Point") {
		return fail(fmt.Errorf("signature changed: one parameter of type geometry.Point expected"))
	}
	rs, _, _ := gfFieldList(fd.Type.Results)
	if len(rs) != 1 || rs[0].ty != gfBool || rs[0].goName != "" {
		return fail(fmt.Errorf("signature changed: a single unnamed bool result expected"))
	}
	if c.fields["haversine"] != gfFloat || !c.center {
		return fail(fmt.Errorf("struct Circle changed: haversine float64 / center geometry.Point expected"))
	}
	p := ps.List[0].Names[0].Name
	if p == recv {
		return fail(fmt.Errorf("parameter and receiver have the same name"))
	}
	e := c.pkg.newEnv(c.geoQual, c.hasMath)
	e.leaves = map[string]string{
		recv + ".haversine": "haversineThreshold",
		recv + ".center.X":  "cx",
		recv + ".center.Y":  "cy",
		p + ".X":            "px",
		p + ".Y":            "py",
	}
	binders := []string{"haversineThreshold", "cx", "cy", "px", "py"}
	e.reserveLeaves()
	ret := func(r *ast.ReturnStmt) (string, error) {
		if len(r.Results) != 1 {
			return "", fmt.Errorf("return with %d values", len(r.Results))
		}
		s, t, err := e.expr(r.Results[0])
		if err != nil {
			return "", err
		}
		if t != gfBool {
			return "", fmt.Errorf("returned value is not a float comparison")
		}
		return s, nil
	}
	lines, err := e.funcBody(nil, nil, fd.Body, ret)
	if err != nil {
		return fail(err)
	}
	return c.boolDef(lean, comment, binders, e, lines)
}

// the `case *Circle:` clause of the type switch of (g *Circle) Contains / Intersects
func (c *gfCircle) circleCase(method, lean string) *gfItem {
	comment := "circle.go: func (g *Circle) " + method + "(obj Object) bool, case *Circle"
	fail := func(err error) *gfItem { return gfUnrecognised(lean, lean, comment, err) }
	fd := c.methods[method]
	if fd == nil {
		return fail(fmt.Errorf("method (*Circle).%s not found", method))
	}
	recv, _ := gfRecvCircle(fd)
	ps := fd.Type.Params
	if ps == nil || len(ps.List) != 1 || len(ps.List[0].Names) != 1 {
		return fail(fmt.Errorf("signature changed: one parameter expected"))
	}
	if id, ok := ps.List[0].Type.(*ast.Ident); !ok || id.Name != "Object" {
		return fail(fmt.Errorf("signature changed: parameter of type Object expected"))
	}
	obj := ps.List[0].Names[0].Name
	rs, _, _ := gfFieldList(fd.Type.Results)
	if len(rs) != 1 || rs[0].ty != gfBool || rs[0].goName != "" {
		return fail(fmt.Errorf("signature changed: a single unnamed bool result expected"))
	}
	if c.fields["meters"] != gfFloat {
		return fail(fmt.Errorf("struct Circle changed: meters float64 expected"))
	}
	if fd.Body == nil || len(fd.Body.List) != 1 {
		return fail(fmt.Errorf("body is not a single type switch"))
	}
	ts, ok := fd.Body.List[0].(*ast.TypeSwitchStmt)
	if !ok || ts.Init != nil {
		return fail(fmt.Errorf("body is not a single type switch"))
	}
	as, ok := ts.Assign.(*ast.AssignStmt)
	if !ok || as.Tok != token.DEFINE || len(as.Lhs) != 1 || len(as.Rhs) != 1 {
		return fail(fmt.Errorf("type switch is not of the form `switch other := obj.(type)`"))
	}
	otherId, ok1 := as.Lhs[0].(*ast.Ident)
	ta, ok2 := as.Rhs[0].(*ast.TypeAssertExpr)
	if !ok1 || !ok2 || ta.Type != nil {
		return fail(fmt.Errorf("type switch is not of the form `switch other := obj.(type)`"))
	}
	if id, ok := ta.X.(*ast.Ident); !ok || id.Name != obj {
		return fail(fmt.Errorf("type switch is not on the parameter"))
	}
	other := otherId.Name
	if other == recv || other == obj {
		return fail(fmt.Errorf("type-switch variable clashes with receiver/parameter"))
	}
	var clause *ast.CaseClause
	for _, st := range ts.Body.List {
		cc := st.(*ast.CaseClause)
		if len(cc.List) == 1 && gfIsStarIdent(cc.List[0], "Circle") {
			clause = cc
			break
		}
		// an earlier clause could capture a *Circle only if it names an interface type or
		// *Circle itself: demand concrete pointer types (other than *Circle) before ours
		for _, t := range cc.List {
			if !gfIsStarIdent(t, "") || gfIsStarIdent(t, "Circle") {
				return fail(fmt.Errorf("a clause before `case *Circle:` is not a list of other concrete pointer types"))
			}
		}
		if cc.List == nil {
			return fail(fmt.Errorf("default clause before `case *Circle:`"))
		}
	}
	if clause == nil {
		return fail(fmt.Errorf("no `case *Circle:` clause"))
	}
	if len(clause.Body) != 1 {
		return fail(fmt.Errorf("`case *Circle:` is not a single return statement"))
	}
	r, ok := clause.Body[0].(*ast.ReturnStmt)
	if !ok || len(r.Results) != 1 {
		return fail(fmt.Errorf("`case *Circle:` is not a single return statement"))
	}
	e := c.pkg.newEnv(c.geoQual, c.hasMath)
	e.leaves = map[string]string{
		other + ".Distance(" + recv + ")": "dist",
		other + ".meters":                 "otherMeters",
		recv + ".meters":                  "meters",
	}
	binders := []string{"dist", "otherMeters", "meters"}
	e.reserveLeaves()
	s, t, err := e.expr(r.Results[0])
	if err != nil {
		return fail(err)
	}
	if t != gfBool {
		return fail(fmt.Errorf("returned value is not a float comparison"))
	}
	start := c.fset.Position(r.Results[0].Pos()).Offset
	end := c.fset.Position(r.Results[0].End()).Offset
	comment += ": return " + string(c.src[start:end])
	return c.boolDef(lean, comment, binders, e, []string{"  " + s})
}

// NewCircle(center geometry.Point, meters float64, steps int) *Circle : value of a float field
// of the returned struct as a function of `meters`.
func (c *gfCircle) newCircleField(field, lean string) *gfItem {
	comment := "circle.go: NewCircle, field " + field + " of the result"
	fail := func(err error) *gfItem { return gfUnrecognised(lean, lean, comment, err) }
	fd := c.funcs["NewCircle"]
	if fd == nil {
		return fail(fmt.Errorf("function NewCircle not found"))
	}
	comment = "circle.go: " + gfSigText(c.fset, fd, c.src) + ", field " + field + " of the result"
	params, _, err := gfFieldList(fd.Type.Params)
	if err != nil {
		return fail(err)
	}
	if len(params) != 3 || params[0].ty != gfOther || params[1].ty != gfFloat || params[2].ty != gfOther ||
		params[1].goName != "meters" {
		return fail(fmt.Errorf("signature changed: (center geometry.Point, meters float64, steps int) expected"))
	}
	if fd.Type.Results == nil || len(fd.Type.Results.List) != 1 || len(fd.Type.Results.List[0].Names) != 0 ||
		!gfIsStarIdent(fd.Type.Results.List[0].Type, "Circle") {
		return fail(fmt.Errorf("signature changed: result *Circle expected"))
	}
	if c.fields[field] != gfFloat {
		return fail(fmt.Errorf("struct Circle changed: %s float64 expected", field))
	}
	e := c.pkg.newEnv(c.geoQual, c.hasMath)
	e.structFields = c.fields
	for _, pa := range params {
		if pa.goName == "" || pa.goName == "_" {
			return fail(fmt.Errorf("unnamed parameter"))
		}
		if _, err := e.declare(pa.goName, pa.ty); err != nil {
			return fail(err)
		}
	}
	ret := func(r *ast.ReturnStmt) (string, error) {
		if len(r.Results) != 1 {
			return "", fmt.Errorf("return with %d values", len(r.Results))
		}
		id, ok := r.Results[0].(*ast.Ident)
		if !ok || e.structVar == "" || id.Name != e.structVar {
			return "", fmt.Errorf("the returned value is not the variable created by new(Circle)")
		}
		return e.leanVar(e.structVar + "." + field)
	}
	lines, err := e.funcBody(nil, nil, fd.Body, ret)
	if err != nil {
		return fail(err)
	}
	hdr := "def " + lean + " {α : Type} [GeoNum α] (meters : α) : α :="
	return &gfItem{goName: lean, leanName: lean, comment: comment, header: hdr, body: lines,
		deps: gfSortedDeps(e.deps)}
}

// ---------------------------------------------------------------------------------------------
// driver

func gfHasImport(f *ast.File, path string) (localName string, ok bool) {
	for _, im := range f.Imports {
		p, err := strconv.Unquote(im.Path.Value)
		if err != nil || p != path {
			continue
		}
		if im.Name != nil {
			if im.Name.Name == "_" || im.Name.Name == "." {
				return "", false
			}
			return im.Name.Name, true
		}
		return p[strings.LastIndex(p, "/")+1:], true
	}
	return "", false
}

func translateGeoFormulas(repo string) (string, error) {
	fset := token.NewFileSet()
	geoPath := filepath.Join(repo, "geo", "geo.go")
	circlePath := filepath.Join(repo, "circle.go")
	geoSrc, err := os.ReadFile(geoPath)
	if err != nil {
		return "", err
	}
	circleSrc, err := os.ReadFile(circlePath)
	if err != nil {
		return "", err
	}
	geoFile, err := parser.ParseFile(fset, geoPath, geoSrc, parser.SkipObjectResolution)
	if err != nil {
		return "", err
	}
	circleFile, err := parser.ParseFile(fset, circlePath, circleSrc, parser.SkipObjectResolution)
	if err != nil {
		return "", err
	}
	if geoFile.Name.Name != "geo" {
		return "", fmt.Errorf("%s: package %s, expected geo", geoPath, geoFile.Name.Name)
	}

	pkg := &gfPackage{constTy: map[string]gfType{}, funcs: map[string]*gfSig{}, lean: map[string]string{},
		items: map[string]*gfItem{}}
	mathName, hasMath := gfHasImport(geoFile, "math")
	hasMath = hasMath && mathName == "math"

	// pass 1: names and signatures of the package-level items of geo.go, in source order
	var order []string
	type constDecl struct {
		vs  *ast.ValueSpec
		idx int
	}
	consts := map[string]constDecl{}
	fdecls := map[string]*ast.FuncDecl{}
	leanTaken := map[string]string{}
	claim := func(goName string) error {
		l, err := gfLeanIdent(gfLowerFirst(goName))
		if err != nil {
			return err
		}
		if o, dup := leanTaken[l]; dup {
			return fmt.Errorf("geo.go: %s and %s both map to the Lean name %s", o, goName, l)
		}
		leanTaken[l] = goName
		pkg.lean[goName] = l
		order = append(order, goName)
		return nil
	}
	for _, d := range geoFile.Decls {
		switch d := d.(type) {
		case *ast.GenDecl:
			switch d.Tok {
			case token.IMPORT:
			case token.CONST:
				for _, sp := range d.Specs {
					vs := sp.(*ast.ValueSpec)
					for i, n := range vs.Names {
						if err := claim(n.Name); err != nil {
							return "", err
						}
						consts[n.Name] = constDecl{vs, i}
						pkg.constTy[n.Name] = gfFloat // refined when translated
					}
				}
			default:
				// package-level vars or types could change the meaning of the functions
				return "", fmt.Errorf("geo.go: package-level %s declaration not recognised", d.Tok)
			}
		case *ast.FuncDecl:
			if d.Recv != nil {
				return "", fmt.Errorf("geo.go: method declaration not recognised")
			}
			if d.Name.Name == "init" {
				return "", fmt.Errorf("geo.go: init function not recognised")
			}
			if err := claim(d.Name.Name); err != nil {
				return "", err
			}
			fdecls[d.Name.Name] = d
			ps, _, _ := gfFieldList(d.Type.Params)
			rs, _, _ := gfFieldList(d.Type.Results)
			sig := &gfSig{}
			for _, p := range ps {
				sig.params = append(sig.params, p.ty)
			}
			for _, r := range rs {
				sig.results = append(sig.results, r.ty)
			}
			pkg.funcs[d.Name.Name] = sig
		}
	}
	// pass 2: translate (constants first, in source order, so that their int/float kind is known)
	for _, name := range order {
		if cd, ok := consts[name]; ok {
			pkg.items[name] = pkg.geoConst(hasMath, name, cd.vs, cd.idx)
		}
	}
	for _, name := range order {
		if fd, ok := fdecls[name]; ok {
			pkg.items[name] = pkg.geoFunc(fset, geoSrc, hasMath, fd)
		}
	}

	// circle.go
	circ := &gfCircle{pkg: pkg, fset: fset, src: circleSrc, fields: map[string]gfType{},
		methods: map[string]*ast.FuncDecl{}, funcs: map[string]*ast.FuncDecl{}}
	cm, cHasMath := gfHasImport(circleFile, "math")
	circ.hasMath = cHasMath && cm == "math"
	for _, im := range circleFile.Imports {
		p, _ := strconv.Unquote(im.Path.Value)
		if strings.HasSuffix(p, "/geojson/geo") {
			circ.geoQual, _ = gfHasImport(circleFile, p)
		}
	}
	if circ.geoQual == "" {
		circ.geoQual = "\x00no-geo-import"
	}
	for _, d := range circleFile.Decls {
		switch d := d.(type) {
		case *ast.GenDecl:
			if d.Tok != token.TYPE {
				continue
			}
			for _, sp := range d.Specs {
				tsp := sp.(*ast.TypeSpec)
				st, ok := tsp.Type.(*ast.StructType)
				if tsp.Name.Name != "Circle" || !ok {
					continue
				}
				for _, f := range st.Fields.List {
					for _, n := range f.Names {
						circ.fields[n.Name] = gfFieldType(f.Type)
						if n.Name == "center" && gfIsSel(f.Type, "geometry", "Point") {
							circ.center = true
						}
					}
				}
			}
		case *ast.FuncDecl:
			if _, ok := gfRecvCircle(d); ok {
				circ.methods[d.Name.Name] = d
			} else if d.Recv == nil {
				circ.funcs[d.Name.Name] = d
			}
		}
	}
	circleItems := []*gfItem{
		circ.containsPoint(),
		circ.newCircleField("haversine", "newCircleHaversine"),
		circ.newCircleField("meters", "newCircleMeters"),
		circ.circleCase("Contains", "circleContainsCircle"),
		circ.circleCase("Intersects", "circleIntersectsCircle"),
	}
	for _, it := range circleItems {
		if o, dup := leanTaken[it.leanName]; dup {
			return "", fmt.Errorf("Lean name %s of a circle.go item clashes with geo.go's %s", it.leanName, o)
		}
	}

	// propagate unrecognised-ness along dependencies (to a fixed point)
	all := []*gfItem{}
	for _, name := range order {
		all = append(all, pkg.items[name])
	}
	all = append(all, circleItems...)
	for changed := true; changed; {
		changed = false
		for _, it := range all {
			if it.err != nil {
				continue
			}
			for _, d := range it.deps {
				if dep := pkg.items[d]; dep != nil && dep.err != nil {
					it.err = fmt.Errorf("depends on the unrecognised %s", d)
					changed = true
					break
				}
			}
		}
	}

	// emission order: dependencies first, otherwise source order
	var emitted []*gfItem
	state := map[*gfItem]int{}
	var visit func(it *gfItem) error
	visit = func(it *gfItem) error {
		switch state[it] {
		case 1:
			return fmt.Errorf("recursive definition involving %s", it.goName)
		case 2:
			return nil
		}
		state[it] = 1
		if it.err == nil {
			for _, d := range it.deps {
				if err := visit(pkg.items[d]); err != nil {
					return err
				}
			}
		}
		state[it] = 2
		emitted = append(emitted, it)
		return nil
	}
	for _, it := range all {
		if err := visit(it); err != nil {
			return "", err
		}
	}

	var b strings.Builder
	b.WriteString(gfHeader)
	for _, it := range emitted {
		b.WriteString("\n")
		b.WriteString("/-- Go: `" + it.comment + "` -/\n")
		if it.err != nil {
			b.WriteString("-- UNRECOGNISED by translate/geoformulas.go: " + it.err.Error() + "\n")
			b.WriteString("opaque " + it.leanName + "_unrecognised : Unit\n")
			continue
		}
		b.WriteString(it.header + "\n")
		for _, l := range it.body {
			b.WriteString(l + "\n")
		}
	}
	b.WriteString("\nend Geo.Gen\n")
	return b.String(), nil
}

const gfHeader = `/-
  GENERATED FILE — do not edit.  Regenerate with
      cd /verif/translate && go build -o bin/translate . && \
        ./bin/translate geoformulas /repo > /verif/lean/GeoModel/Generated/GeoFormulas.lean

  Syntactic translation (translate/geoformulas.go) of the spherical-geometry formulas of
  geo/geo.go and of the float comparisons of circle.go (containsPoint, NewCircle's radius
  normalisation, the *Circle cases of Contains and Intersects).

  Conventions:
    * float64 ↦ α with [GeoNum α] (Float for execution, ℝ for the proofs); int32 ↦ Int
      (int32(x) ↦ GeoNum.toInt32 x: truncation toward zero, overflow NOT modelled;
      float64(i) ↦ GeoNum.ofInt i);
    * Go function F ↦ def with the first letter in lower case; Greek letters in identifiers are
      spelled out (φ→phi, λ→lam, Δ→D, δ→delta, θ→theta);
    * x = e / x := e / x *= e ↦ let-rebinding; named results start at 0; an if statement rebinds
      the variables it assigns: let (a, b) := if c then (…; (a, b)) else (…; (a, b));
    * a < b, a > b, a <= b, a >= b ↦ GeoNum.lt / gt / le / ge a b : Bool;
    * math.Sin/Cos/Asin/Acos/Sqrt/Atan2/Mod ↦ GeoNum.sin/cos/asin/acos/sqrt/atan2/fmod,
      math.Sincos(x) ↦ (GeoNum.sin x, GeoNum.cos x), math.Pi ↦ GeoNum.pi,
      math.Pow(x, n) (n a natural-number literal) ↦ GeoNum.npow x n;
    * constant expressions are kept symbolic (Go evaluates them exactly and rounds once; at
      α := Float they are evaluated in float64 arithmetic — a difference of at most a few ulps
      in the constants radians/degrees/piR/twoPiR);
    * circle.go: g.haversine ↦ haversineThreshold, g.center.X/Y ↦ cx/cy, p.X/Y ↦ px/py,
      other.Distance(g) ↦ dist, other.meters ↦ otherMeters, g.meters ↦ meters; statements of
      NewCircle that only touch non-float variables/fields are skipped, g := new(Circle) zeroes
      the float fields g_haversine, g_meters.
  Anything outside the recognised subset appears below as  opaque <name>_unrecognised : Unit.
-/
import GeoModel.GeoNum

set_option linter.unusedVariables false

namespace Geo.Gen
open Geo
`
