/-
  GeoProofs.Props.LineBridge — final statements: the loops of geometry/line.go as regenerated from
  the CURRENT Go source (GeoModel/Generated/LineGen.lean, translate/linewalk.go), with the hand
  model's callees plugged in (`LineGlue.modelOps`), compute the hand model (GeoModel/Geom.lean).

  * ContainsLine: the generated definition has an explicit `fuel` (its second loop modifies the loop
    variable); with the model's own fuel `(n+2)*(m+2)` it is `Line.containsLineO` as an Option
    (`line_bridge_containsLine_O`; in fact the two agree for EVERY fuel, `LineGlue.lineContainsLine_eq_F`),
    and for every fuel ≥ `(n+2)*(m+2)` it is `some (Line.containsLine l o)` — never `none`.
  * ContainsPoly: same, bound `(n+2)*3` (the other line has one segment).
  * ContainsPoint, IntersectsLine: `Search` with a closure is translated over an abstract visit list;
    the statements hold for every series whose search is a fold over a list of segment indexes
    (`LineGlue.SearchList`; implied by `Series.SearchExact`, which is proved for every series built
    by `mkSeries`; unconditional for series without an index).  A series whose index bytes make
    the search panic is outside: Go panics there, the model returns the default.
  No difference between the source and the hand model was found (direction guards `dir == 1` /
  `dir == -1`, `segIdx == 0`, `segIdx == lineNumSegments-1`, the NumPoints swap, the strict `<` all
  agree).
-/
import GeoProofs.Glue.LineGlue
import GeoProofs.Props.C03
import GeoProofs.SeriesSearch

namespace Geo
open Geo.LGen Geo.LineGlue

theorem searchList_of_searchExact (s : Series) (h : s.SearchExact) : SearchList s := by
  intro q
  obtain ⟨visit, _, hv⟩ := h q
  exact ⟨visit, fun f st => hv f st⟩

theorem searchList_of_index_none (s : Series) (h : s.index = none) : SearchList s :=
  searchList_of_searchExact s (searchExact_of_index_none s h)

/-! ### ContainsLine -/

/-- same Option with the model's own fuel expression -/
theorem line_bridge_containsLine_O (l o : Line) :
    lineContainsLine modelOps ((l.numSegments + 2) * (o.numSegments + 2)) (some l) (some o) =
      l.containsLineO o :=
  lineContainsLine_eq_O l o

/-- for all inputs and all fuel ≥ (n+2)*(m+2): the generated code returns the model's answer -/
theorem line_bridge_containsLine (l o : Line) (fuel : Nat)
    (hf : (l.numSegments + 2) * (o.numSegments + 2) ≤ fuel) :
    lineContainsLine modelOps fuel (some l) (some o) = some (l.containsLine o) := by
  rw [lineContainsLine_eq_F]
  apply containsLineF_mono l o _ _ fuel hf
  rw [← containsLineO_eq_F]
  exact line_containsLine_eq l o

theorem line_bridge_containsLine_nil (fuel : Nat) (l o : Option Line) (h : l = none ∨ o = none) :
    lineContainsLine modelOps fuel l o = some false := by
  rcases h with rfl | rfl
  · exact lineContainsLine_nil_left fuel o
  · exact lineContainsLine_nil_right fuel l

/-! ### ContainsPoly -/

theorem containsPolyF_eq (l : Line) (p : Poly) (fuel : Nat) (hf : (l.numSegments + 2) * 3 ≤ fuel) :
    containsPolyF l p fuel = some (l.containsPoly p) := by
  unfold containsPolyF Line.containsPoly
  dsimp only
  split_ifs with h1 h2
  · rfl
  · rfl
  · apply containsLineF_mono l _ _ _ fuel hf
    exact (containsLineO_eq_F l _).symm.trans (line_containsLine_eq l _)

/-- for all inputs and all fuel ≥ (n+2)*3 -/
theorem line_bridge_containsPoly (l : Line) (p : Poly) (fuel : Nat)
    (hf : (l.numSegments + 2) * 3 ≤ fuel) :
    lineContainsPoly modelOps fuel (some l) (some p) = some (l.containsPoly p) := by
  rw [lineContainsPoly_eq_F]
  exact containsPolyF_eq l p fuel hf

theorem line_bridge_containsPoly_nil (fuel : Nat) (l : Option Line) (p : Option Poly)
    (h : l = none ∨ p = none) : lineContainsPoly modelOps fuel l p = some false := by
  rcases h with rfl | rfl
  · exact lineContainsPoly_nil_left fuel p
  · exact lineContainsPoly_nil_right fuel l

/-! ### ContainsPoint, IntersectsLine -/

theorem line_bridge_containsPoint (l : Line) (hl : l.SearchExact) (p : Pt) :
    lineContainsPoint modelOps (some l) p = l.containsPoint p :=
  lineContainsPoint_eq l (searchList_of_searchExact l hl) p

theorem line_bridge_containsPoint_noindex (l : Line) (hl : l.index = none) (p : Pt) :
    lineContainsPoint modelOps (some l) p = l.containsPoint p :=
  lineContainsPoint_eq l (searchList_of_index_none l hl) p

theorem line_bridge_intersectsLine (l o : Line) (hl : l.SearchExact) (ho : o.SearchExact) :
    lineIntersectsLine modelOps (some l) (some o) = l.intersectsLine o :=
  lineIntersectsLine_eq l o (searchList_of_searchExact l hl) (searchList_of_searchExact o ho)

theorem line_bridge_intersectsLine_noindex (l o : Line) (hl : l.index = none) (ho : o.index = none) :
    lineIntersectsLine modelOps (some l) (some o) = l.intersectsLine o :=
  lineIntersectsLine_eq l o (searchList_of_index_none l hl) (searchList_of_index_none o ho)

/-- every line built by the constructor (`NewLine` = `mkSeries … false kind minPoints`) -/
theorem line_bridge_built (pts1 pts2 : Array Pt) (k1 k2 : IndexKind) (m1 m2 : Nat)
    (h1 : (mkSeries pts1 false k1 m1).SearchExact) (h2 : (mkSeries pts2 false k2 m2).SearchExact)
    (p : Pt) :
    lineContainsPoint modelOps (some (mkSeries pts1 false k1 m1)) p =
        Line.containsPoint (mkSeries pts1 false k1 m1) p ∧
    lineIntersectsLine modelOps (some (mkSeries pts1 false k1 m1)) (some (mkSeries pts2 false k2 m2)) =
        Line.intersectsLine (mkSeries pts1 false k1 m1) (mkSeries pts2 false k2 m2) :=
  ⟨line_bridge_containsPoint _ h1 p, line_bridge_intersectsLine _ _ h1 h2⟩

theorem line_bridge_nil (p : Pt) (l : Option Line) :
    lineContainsPoint modelOps none p = false ∧
    lineIntersectsLine modelOps none l = false ∧ lineIntersectsLine modelOps l none = false :=
  ⟨rfl, lineIntersectsLine_nil_left l, lineIntersectsLine_nil_right l⟩

end Geo

#print axioms Geo.line_bridge_containsLine_O
#print axioms Geo.line_bridge_containsLine
#print axioms Geo.line_bridge_containsLine_nil
#print axioms Geo.line_bridge_containsPoly
#print axioms Geo.line_bridge_containsPoly_nil
#print axioms Geo.line_bridge_containsPoint
#print axioms Geo.line_bridge_containsPoint_noindex
#print axioms Geo.line_bridge_intersectsLine
#print axioms Geo.line_bridge_intersectsLine_noindex
#print axioms Geo.line_bridge_built
#print axioms Geo.line_bridge_nil
#print axioms Geo.LineGlue.lineContainsLine_eq_F
#print axioms Geo.LineGlue.lineContainsPoly_eq_F
