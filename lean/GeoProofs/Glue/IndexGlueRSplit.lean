/-
  GeoProofs.Glue.IndexGlueRSplit — the generated `rRect_splitLargestAxisEdgeSnap`
  (geometry/rtree.go:136) computes the model's `splitEntries` on the USED slots of the node, in
  the same order, and the two rects it returns are the model's `recalcBoxes` of the two halves
  (whenever that half is not empty; see `split_eq` and the remark before it for the empty case).
-/
import GeoProofs.Glue.IndexGlueR

namespace Geo.IGlue
open Geo Geo.IGen
open scoped Geo.KNum

/-! ## the model's loop, one step at a time -/

section Model
variable {β : Type}

/-- one pass of `splitLoop` (for `i < left.length`) on the tuple (left, i, right, equals) -/
def splitStep (cls : β → Nat) (st : List β × Nat × List β × List β) : List β × Nat × List β × List β :=
  match st with
  | (left, i, right, equals) =>
    match left[i]? with
    | none => st
    | some e =>
      match cls e with
      | 0 => (left, i + 1, right, equals)
      | c => ((left.set i (left.getLast?.getD e)).dropLast, i,
              (if c == 1 then right ++ [e] else right), (if c == 1 then equals else equals ++ [e]))

theorem splitLoop_succ (cls : β → Nat) (m : Nat) (left : List β) (i : Nat) (right equals : List β)
    (h : i < left.length) :
    splitLoop cls (m + 1) left i right equals =
      (match splitStep cls (left, i, right, equals) with
       | (l, j, r, e) => splitLoop cls m l j r e) := by
  rw [splitLoop]
  simp only [h, ↓reduceDIte, splitStep, List.getElem?_eq_getElem]
  split <;> simp_all

theorem splitLoop_done (cls : β → Nat) (m : Nat) (left : List β) (i : Nat) (right equals : List β)
    (h : ¬ i < left.length) :
    splitLoop cls m left i right equals = (left, right, equals) := by
  cases m with
  | zero => rfl
  | succ m => rw [splitLoop]; simp [h]

/-- the measure `left.length - i` drops by one in each pass -/
theorem splitStep_measure (cls : β → Nat) (left : List β) (i : Nat) (right equals : List β)
    (h : i < left.length) :
    (splitStep cls (left, i, right, equals)).1.length - (splitStep cls (left, i, right, equals)).2.1
      = left.length - i - 1 := by
  simp only [splitStep, List.getElem?_eq_getElem h]
  split
  · simp; omega
  · simp; omega

end Model

/-! ## generic simulation of `loopW` by `splitLoop`, of `loopM` by `distributeEquals` -/

section Sim
variable {β σ ρ : Type}

theorem loopW_splitLoop (cls : β → Nat) (cond : σ → Option Bool) (body : σ → Option (Flow σ ρ))
    (abs : σ → List β × Nat × List β × List β) (Inv : σ → Prop)
    (hcond : ∀ s, Inv s → cond s = some (decide ((abs s).2.1 < (abs s).1.length)))
    (hbody : ∀ s, Inv s → (abs s).2.1 < (abs s).1.length →
      ∃ s', body s = some (Flow.next s') ∧ Inv s' ∧ abs s' = splitStep cls (abs s)) :
    ∀ (n g m : Nat) (s : σ), Inv s → (abs s).1.length - (abs s).2.1 = n → n < g → n ≤ m →
      ∃ s', loopW g s cond body = some (Exit.done s') ∧ Inv s' ∧
        ((abs s').1, (abs s').2.2.1, (abs s').2.2.2)
          = splitLoop cls m (abs s).1 (abs s).2.1 (abs s).2.2.1 (abs s).2.2.2 := by
  intro n
  induction n with
  | zero =>
    intro g m s hI hn hg _
    obtain ⟨g, rfl⟩ : ∃ g', g = g' + 1 := ⟨g - 1, by omega⟩
    have hlt : ¬ (abs s).2.1 < (abs s).1.length := by omega
    refine ⟨s, ?_, hI, ?_⟩
    · rw [loopW, hcond s hI]; simp [hlt]
    · rw [splitLoop_done _ _ _ _ _ _ hlt]
  | succ n ih =>
    intro g m s hI hn hg hm
    obtain ⟨g, rfl⟩ : ∃ g', g = g' + 1 := ⟨g - 1, by omega⟩
    obtain ⟨m, rfl⟩ : ∃ m', m = m' + 1 := ⟨m - 1, by omega⟩
    have hlt : (abs s).2.1 < (abs s).1.length := by omega
    obtain ⟨s1, hb, hI1, ha1⟩ := hbody s hI hlt
    have hmeas := splitStep_measure cls (abs s).1 (abs s).2.1 (abs s).2.2.1 (abs s).2.2.2 hlt
    have hmeas' : (abs s1).1.length - (abs s1).2.1 = n := by
      rw [ha1]; rw [show abs s = ((abs s).1, (abs s).2.1, (abs s).2.2.1, (abs s).2.2.2) from rfl]
      omega
    obtain ⟨s', hl, hI', he⟩ := ih g m s1 hI1 hmeas' (by omega) (by omega)
    refine ⟨s', ?_, hI', ?_⟩
    · rw [loopW, hcond s hI]; simp only [hlt, decide_true, hb]; exact hl
    · rw [he, splitLoop_succ _ _ _ _ _ _ hlt, ha1]

theorem loopM_distribute {ε : Type} (body : ε → σ → Option σ) (emb : ε → β)
    (abs : σ → List β × List β) (Inv : Nat → σ → Prop)
    (hbody : ∀ k s b, Inv (k + 1) s → ∃ s', body b s = some s' ∧ Inv k s' ∧
      abs s' = (if (abs s).1.length < (abs s).2.length then ((abs s).1 ++ [emb b], (abs s).2)
                else ((abs s).1, (abs s).2 ++ [emb b]))) :
    ∀ (eqs : List ε) (s : σ), Inv eqs.length s →
      ∃ s', loopM eqs s body = some s' ∧ Inv 0 s' ∧
        abs s' = distributeEquals (abs s).1 (abs s).2 (eqs.map emb) := by
  intro eqs
  induction eqs with
  | nil => intro s hI; exact ⟨s, rfl, hI, rfl⟩
  | cons b rest ih =>
    intro s hI
    obtain ⟨s1, hb, hI1, ha1⟩ := hbody rest.length s b hI
    obtain ⟨s', hl, hI', he⟩ := ih s1 hI1
    refine ⟨s', ?_, hI', ?_⟩
    · rw [loopM, hb]; exact hl
    · rw [he, ha1, List.map_cons, distributeEquals]
      split <;> rfl

end Sim

end Geo.IGlue
