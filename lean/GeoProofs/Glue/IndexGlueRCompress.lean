/-
  GeoProofs.Glue.IndexGlueRCompress — the regenerated Go `(*rRect).compress` / `(*rTree).compress`
  (geometry/rtree.go, `IGen.rRect_compress` / `IGen.rTree_compress`) run on the concrete byte
  operations `aOpsR` produce, byte for byte, the model's `Geo.rCompressNode` / `Geo.RTree.compress`
  on the abstraction `absNode` of the generated tree, and never panic (every `PutUint32` lands on
  4 placeholder bytes that were appended before; every type assertion succeeds).
-/
import GeoProofs.Glue.IndexGlueR
import GeoProofs.Glue.IndexGlueCompress
import GeoProofs.Index.RBytes

namespace Geo.IGlue
open Geo Geo.IGen

variable {F S SR : Type} [KNum F] [Carrier F]
variable (segAt : SR → Int → S) (segRect : S → Rect F) (f64 : Nat → F) (bits : F → Nat)
  (isNil : List F → Bool)

/-! ## appendFloat, appendNum on `aOpsR` -/

theorem putU64_zero (v : Nat) : putU64 (Array.replicate 8 0) 0 v = (leBytes v 8).toArray := by
  apply Array.ext
  · simp [putU64, leBytes]
  · intro i h1 h2
    simp [putU64, leBytes] at h1 h2 ⊢
    have : i = 0 ∨ i = 1 ∨ i = 2 ∨ i = 3 ∨ i = 4 ∨ i = 5 ∨ i = 6 ∨ i = 7 := by omega
    rcases this with rfl | rfl | rfl | rfl | rfl | rfl | rfl | rfl <;> simp

theorem appendFloat_eqR (dst : Array Nat) (x : F) :
    IGen.appendFloat (aOpsR segAt segRect f64 bits isNil) dst x =
      some (dst ++ (encOf bits x).toArray) := by
  unfold IGen.appendFloat
  simp [aOpsR, putU64_zero, encOf]

theorem appendNum_eqR (dst : Array Nat) (num w : Nat) :
    IGen.appendNum (aOpsR segAt segRect f64 bits isNil) dst num w =
      some (Geo.appendNum dst num w) := by
  unfold IGen.appendNum Geo.appendNum
  by_cases h1 : w = 1
  · subst h1; simp [aOpsR, leBytes]
  · by_cases h2 : w = 2
    · subst h2
      simp [aOpsR, leBytes]
      have := putU16_append dst (num % 65536)
      simp at this
      rw [this]
      have e2 : num % 65536 / 256 % 256 = num / 256 % 256 := by omega
      rw [e2]
    · simp [aOpsR, h1, h2]
      have := putU32_append dst num
      simpa using this

theorem intToU8_ofNat (n : Nat) (h : n < 256) : intToU 8 (Int.ofNat n) = n := by
  have e : ((2 : Int) ^ 8) = 256 := by decide
  simp only [intToU, e, Int.ofNat_eq_natCast]
  omega

theorem intToU32_small (v : Int) (h0 : 0 ≤ v) (h1 : v < 4294967296) : intToU 32 v = v.toNat := by
  have e : ((2 : Int) ^ 32) = 4294967296 := by decide
  simp only [intToU, e]
  omega

end Geo.IGlue
