/-
  GeoProofs.ContainsConvex.Simple — consequences of `Cvx.Simple0` (the periodic form of
  `Spec.simpleRing`): two different edges meet only in a shared end point.
-/
import GeoProofs.Convex.Bridge
import Mathlib.Tactic.LinearCombination
import Mathlib.Tactic.FieldSimp

namespace Geo
namespace CC
open Cvx

/-- consecutive edges `ab`, `bc` none of which contains the far end of the other share only `b` -/
theorem adj_shared {a b c z : Pt} (h1 : ¬ OnSeg a b c) (h2 : ¬ OnSeg b c a)
    (hz1 : OnSeg a b z) (hz2 : OnSeg b c z) : z = b := by
  obtain ⟨t, t0, t1, hx, hy⟩ := (K.onSeg_iff_param a b z).1 hz1
  obtain ⟨u, u0, u1, gx, gy⟩ := (K.onSeg_iff_param b c z).1 hz2
  by_contra hne
  have hu : u ≠ 0 := by
    intro h; apply hne
    exact (K.pt_eq_iff z b).2 ⟨by rw [gx, h]; ring, by rw [gy, h]; ring⟩
  have ht : t ≠ 1 := by
    intro h; apply hne
    exact (K.pt_eq_iff z b).2 ⟨by rw [hx, h]; ring, by rw [hy, h]; ring⟩
  have hu' : 0 < u := lt_of_le_of_ne u0 (Ne.symm hu)
  have ht' : 0 < 1 - t := by have := lt_of_le_of_ne t1 ht; linarith
  have ex : (1 - t) * (a.x - b.x) = u * (c.x - b.x) := by linear_combination gx - hx
  have ey : (1 - t) * (a.y - b.y) = u * (c.y - b.y) := by linear_combination gy - hy
  by_cases hc : 1 - t ≤ u
  · apply h1
    refine K.onSeg_of_param (t := 1 - (1 - t) / u) ?_ ?_ ?_ ?_
    · rw [sub_nonneg, div_le_one hu']; exact hc
    · have := div_nonneg ht'.le hu'.le; linarith
    · field_simp; linear_combination -ex
    · field_simp; linear_combination -ey
  · apply h2
    have hc' : u < 1 - t := not_le.1 hc
    refine K.onSeg_of_param (t := u / (1 - t)) ?_ ?_ ?_ ?_
    · exact div_nonneg u0 ht'.le
    · rw [div_le_one ht']; exact hc'.le
    · field_simp; linear_combination ex
    · field_simp; linear_combination ey

/-- two different edges of a simple closed chain meet only in a common end point -/
theorem simple0_meet_lt {P : Nat → Pt} {n : Nat} (h : Simple0 P n) {i j : Nat} (hj : j < n)
    (hij : i < j) {z : Pt} (hz1 : OnSeg (P i) (P (i+1)) z) (hz2 : OnSeg (P j) (P (j+1)) z) :
    (z = P i ∨ z = P (i+1)) ∧ (z = P j ∨ z = P (j+1)) := by
  have h3 := h.n3
  by_cases h1 : j = i + 1
  · subst h1
    have := adj_shared (h.adj1 i) (h.adj2 i) hz1 hz2
    exact ⟨Or.inr this, Or.inl this⟩
  by_cases h2 : i = 0 ∧ j = n - 1
  · obtain ⟨rfl, rfl⟩ := h2
    have p0 : P (n - 1 + 1) = P 0 := by rw [show n - 1 + 1 = 0 + n from by omega, h.per]
    have p1 : P (n - 1 + 2) = P (0 + 1) := by rw [show n - 1 + 2 = 0 + 1 + n from by omega, h.per]
    have hz1' : OnSeg (P (n - 1 + 1)) (P (n - 1 + 2)) z := by rw [p0, p1]; exact hz1
    have := adj_shared (h.adj1 (n-1)) (h.adj2 (n-1)) hz2 hz1'
    rw [p0] at this
    exact ⟨Or.inl this, Or.inr (by rw [p0]; exact this)⟩
  · exfalso
    have := h.far i (j - i) (by omega) (by omega)
    rw [show i + (j - i) = j from by omega] at this
    exact this ⟨z, hz1, hz2⟩

theorem simple0_meet {P : Nat → Pt} {n : Nat} (h : Simple0 P n) {i j : Nat} (hi : i < n) (hj : j < n)
    (hij : i ≠ j) {z : Pt} (hz1 : OnSeg (P i) (P (i+1)) z) (hz2 : OnSeg (P j) (P (j+1)) z) :
    (z = P i ∨ z = P (i+1)) ∧ (z = P j ∨ z = P (j+1)) := by
  rcases Nat.lt_or_gt_of_ne hij with hlt | hlt
  · exact simple0_meet_lt h hj hlt hz1 hz2
  · exact (simple0_meet_lt h hi hlt hz2 hz1).symm

end CC
end Geo
