/-
  C13 — a Circle means "within great-circle distance of the centre" (over ℝ).

  Statements are about the definitions generated from circle.go / geo/geo.go
  (`Gen.circleContainsPoint`, `Gen.newCircleHaversine`, `Gen.circleContainsCircle`,
  `Gen.circleIntersectsCircle`) at the exact instance `GeoNum ℝ`.
  `Gen.circleContainsPoint t cx cy px py` is `(*Circle).containsPoint` with `t = g.haversine`,
  centre (cx, cy) and point (px, py) (x = longitude, y = latitude);
  `Gen.newCircleHaversine m` is the field `haversine` that `NewCircle(_, m, _)` stores.

  Observation (`circle_contains_point_wraps`): for a radius in [πR, 2πR] the stored haversine
  threshold DEcreases again (sin² has period 2πR): the circle then contains exactly the points
  within distance 2πR − m, not the whole sphere.  The main theorem is therefore stated for
  0 < m ≤ πR (half the circumference), which is the meaningful range.
-/
import GeoProofs.GeoLemmas
import GeoProofs.Props.C15

namespace Geo.C13
open Geo GeoReal Real Geo.C15

local notation "R" => (6371000 : ℝ)

/-! ### NewCircle's normalisation -/

theorem newCircle_normalises (m : ℝ) (hm : 0 < m) :
    Gen.newCircleHaversine m = Gen.distanceToHaversine (Gen.normalizeDistance m) := by
  rw [newCircleHaversine_eq, if_pos hm]

theorem newCircle_normalises_nonpos (m : ℝ) (hm : m ≤ 0) : Gen.newCircleHaversine m = 0 := by
  rw [newCircleHaversine_eq, if_neg (not_lt.2 hm)]

/-- the normalisation does not change the threshold: it is the haversine of `m` itself -/
theorem newCircle_haversine (m : ℝ) (hm : 0 < m) :
    Gen.newCircleHaversine m = Gen.distanceToHaversine m := by
  rw [newCircle_normalises m hm, normalize_haversine]

/-- `g.meters` keeps the un-normalised radius -/
theorem newCircle_meters (m : ℝ) : Gen.newCircleMeters m = m := newCircleMeters_eq m

/-! ### contains point ⇔ distance ≤ radius -/

private theorem hav_mem (cy py px cx : ℝ) (hcy : -90 ≤ cy ∧ cy ≤ 90) (hpy : -90 ≤ py ∧ py ≤ 90) :
    0 ≤ Gen.haversine py px cy cx ∧ Gen.haversine py px cy cx ≤ 1 :=
  ⟨haversine_nonneg _ _ _ _ hpy hcy, haversine_le_one _ _ _ _ hpy hcy⟩

/-- threshold form: for a radius `m ∈ [0, πR]`, haversine ≤ haversine-of-m ⇔ distance ≤ m -/
theorem haversine_le_iff_distance_le (cx cy px py m : ℝ) (hm : 0 ≤ m ∧ m ≤ π * R)
    (hcy : -90 ≤ cy ∧ cy ≤ 90) (hpy : -90 ≤ py ∧ py ≤ 90) :
    Gen.haversine py px cy cx ≤ Gen.distanceToHaversine m ↔ Gen.distanceTo py px cy cx ≤ m := by
  rw [distanceTo_eq]
  have hh := hav_mem cy py px cx hcy hpy
  have key := distanceTo_from_id _ hh
  have hmem : Gen.distanceFromHaversine (Gen.haversine py px cy cx) ∈ Set.Icc (0 : ℝ) (π * R) :=
    ⟨distanceFromHaversine_nonneg _, distanceFromHaversine_le _⟩
  have := distanceToHaversine_strictMono.le_iff_le hmem (⟨hm.1, hm.2⟩ : m ∈ Set.Icc (0 : ℝ) (π * R))
  rw [key] at this
  exact this

theorem circle_contains_point_iff (cx cy px py m : ℝ) (hm : 0 < m ∧ m ≤ π * R)
    (hcy : -90 ≤ cy ∧ cy ≤ 90) (hpy : -90 ≤ py ∧ py ≤ 90) :
    Gen.circleContainsPoint (Gen.newCircleHaversine m) cx cy px py = true
      ↔ Gen.distanceTo py px cy cx ≤ m := by
  rw [circleContainsPoint_iff, newCircle_haversine m hm.1]
  exact haversine_le_iff_distance_le cx cy px py m ⟨hm.1.le, hm.2⟩ hcy hpy

/-- radius 0 (or negative): threshold 0, only points at distance 0 are contained -/
theorem circle_contains_point_zero (cx cy px py m : ℝ) (hm : m ≤ 0)
    (hcy : -90 ≤ cy ∧ cy ≤ 90) (hpy : -90 ≤ py ∧ py ≤ 90) :
    Gen.circleContainsPoint (Gen.newCircleHaversine m) cx cy px py = true
      ↔ Gen.distanceTo py px cy cx = 0 := by
  rw [circleContainsPoint_iff, newCircle_normalises_nonpos m hm]
  have h0 : (Gen.distanceToHaversine (0 : ℝ)) = 0 := by simp [distanceToHaversine_eq]
  have := haversine_le_iff_distance_le cx cy px py 0 ⟨le_refl _, by positivity⟩ hcy hpy
  rw [h0] at this
  rw [this]
  constructor
  · intro h; exact le_antisymm h (distanceTo_nonneg _ _ _ _)
  · intro h; exact h.le

theorem circle_contains_monotone (cx cy px py m m' : ℝ) (hm : 0 ≤ m) (hmm : m ≤ m')
    (hm' : m' ≤ π * R) (hcy : -90 ≤ cy ∧ cy ≤ 90) (hpy : -90 ≤ py ∧ py ≤ 90)
    (h : Gen.circleContainsPoint (Gen.newCircleHaversine m) cx cy px py = true) :
    Gen.circleContainsPoint (Gen.newCircleHaversine m') cx cy px py = true := by
  rcases eq_or_lt_of_le hm with h0 | h0
  · subst h0
    have hd := (circle_contains_point_zero cx cy px py 0 (le_refl _) hcy hpy).1 h
    rcases eq_or_lt_of_le hmm with h1 | h1
    · subst h1; exact h
    · exact (circle_contains_point_iff cx cy px py m' ⟨h1, hm'⟩ hcy hpy).2 (by linarith)
  · have hd := (circle_contains_point_iff cx cy px py m ⟨h0, hmm.trans hm'⟩ hcy hpy).1 h
    exact (circle_contains_point_iff cx cy px py m' ⟨by linarith, hm'⟩ hcy hpy).2 (by linarith)

/-- Beyond half the circumference the threshold wraps: for `πR ≤ m ≤ 2πR` the circle built by
    `NewCircle` contains exactly the points within distance `2πR − m`. -/
theorem circle_contains_point_wraps (cx cy px py m : ℝ) (hm : π * R ≤ m ∧ m < 2 * (π * R))
    (hcy : -90 ≤ cy ∧ cy ≤ 90) (hpy : -90 ≤ py ∧ py ≤ 90) :
    Gen.circleContainsPoint (Gen.newCircleHaversine m) cx cy px py = true
      ↔ Gen.distanceTo py px cy cx ≤ 2 * (π * R) - m := by
  have hp := pi_pos
  have hpos : 0 < m := by nlinarith
  rw [circleContainsPoint_iff, newCircle_haversine m hpos]
  have e : Gen.distanceToHaversine m = Gen.distanceToHaversine (2 * (π * R) - m) := by
    rw [distanceToHaversine_eq, distanceToHaversine_eq,
      show (2 * (π * R) - m) / (2 * R) = π - m / (2 * R) by field_simp, sin_pi_sub]
  rw [e]
  exact haversine_le_iff_distance_le cx cy px py _ ⟨by linarith [hm.2], by linarith [hm.1]⟩ hcy hpy

/-! ### the circle/circle comparisons (these pin the translated operators `<=`) -/

theorem circle_contains_circle_sound (d rB rA : ℝ) :
    Gen.circleContainsCircle d rB rA = true ↔ d + rB ≤ rA := by
  simp [Gen.circleContainsCircle]

theorem circle_intersects_circle_iff (d rB rA : ℝ) :
    Gen.circleIntersectsCircle d rB rA = true ↔ d ≤ rB + rA := by
  simp [Gen.circleIntersectsCircle]

/-- the boundary case is included (would fail if `<=` were rewritten to `<`) -/
example (cx cy : ℝ) (hcy : -90 ≤ cy ∧ cy ≤ 90) :
    Gen.circleContainsPoint (Gen.newCircleHaversine 0) cx cy cx cy = true := by
  rw [circle_contains_point_zero cx cy cx cy 0 (le_refl _) hcy hcy, distanceTo_self]

example : Gen.circleContainsCircle (1 : ℝ) 2 3 = true := by
  rw [circle_contains_circle_sound]; norm_num

example : Gen.circleIntersectsCircle (5 : ℝ) 2 3 = true := by
  rw [circle_intersects_circle_iff]; norm_num

/-- non-vacuity: a point on the boundary circle of radius πR/2 around (0,0) -/
example : Gen.circleContainsPoint (Gen.newCircleHaversine (π * R / 2)) 0 0 90 0 = true := by
  have hp := pi_pos
  rw [circle_contains_point_iff 0 0 90 0 (π * R / 2) ⟨by positivity, by nlinarith⟩
    ⟨by norm_num, by norm_num⟩ ⟨by norm_num, by norm_num⟩]
  rw [distanceTo_eq, distanceFromHaversine_eq, haversine_eq]
  have e : (0 * (π / 180) - 90 * (π / 180)) / 2 = -(π / 4) := by ring
  rw [e]
  simp only [zero_mul, sub_self, zero_div, sin_zero, cos_zero, sin_neg, sin_pi_div_four]
  have : (0 : ℝ) ^ 2 + 1 * 1 * (-(√2 / 2)) ^ 2 = (√2 / 2) ^ 2 := by ring
  rw [this, sqrt_sq (by positivity), ← sin_pi_div_four,
    arcsin_sin (by linarith) (by linarith)]
  linarith

end Geo.C13

#print axioms Geo.C13.newCircle_normalises
#print axioms Geo.C13.newCircle_normalises_nonpos
#print axioms Geo.C13.newCircle_haversine
#print axioms Geo.C13.newCircle_meters
#print axioms Geo.C13.haversine_le_iff_distance_le
#print axioms Geo.C13.circle_contains_point_iff
#print axioms Geo.C13.circle_contains_point_zero
#print axioms Geo.C13.circle_contains_monotone
#print axioms Geo.C13.circle_contains_point_wraps
#print axioms Geo.C13.circle_contains_circle_sound
#print axioms Geo.C13.circle_intersects_circle_iff
