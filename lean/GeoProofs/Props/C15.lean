/-
  C15 — the great-circle primitives of geo/geo.go are mutually consistent.

  All statements are about the definitions GENERATED from the Go source
  (GeoModel/Generated/GeoFormulas.lean, `Geo.Gen.*`) at the exact instance `GeoNum ℝ`
  (GeoProofs/GeoReal.lean).  The tolerance clauses of the property concern float64 and are
  validated numerically elsewhere; over ℝ the identities are exact.

  `R` = 6371000 = earthRadius (metres), so `π * R` is half the circumference.

  Finding (see `destination_lon_range_counterexample`): DestinationPoint's longitude
  normalisation `math.Mod(λ2+3π, 2π) − π` relies on the dividend being non-negative (Go's Mod
  has the sign of the dividend).  For start longitudes below −360° the result leaves
  [−180, 180]: DestinationPoint(0, −810, 0, 0) = (0, −450).  The range theorem is proved under
  the hypothesis `-360 ≤ lon` (in particular for every valid longitude).
-/
import GeoProofs.GeoLemmas

namespace Geo.C15
open Geo GeoReal Real

local notation "R" => (6371000 : ℝ)
local notation "rad" => (π / 180)
local notation "deg" => (180 / π)

/-! ### Haversine -/

theorem haversine_symm (a b c d : ℝ) : Gen.haversine a b c d = Gen.haversine c d a b := by
  rw [haversine_eq, haversine_eq,
    show (a * rad - c * rad) / 2 = -((c * rad - a * rad) / 2) by ring,
    show (b * rad - d * rad) / 2 = -((d * rad - b * rad) / 2) by ring, sin_neg, sin_neg]
  ring

theorem haversine_self (a b : ℝ) : Gen.haversine a b a b = 0 := by
  simp [haversine_eq]

/-- for latitudes in [−90, 90] (non-negative cosines) -/
theorem haversine_nonneg (a b c d : ℝ) (ha : -90 ≤ a ∧ a ≤ 90) (hc : -90 ≤ c ∧ c ≤ 90) :
    0 ≤ Gen.haversine a b c d := by
  rw [haversine_eq]
  exact hav_nonneg (cos_lat_nonneg ha) (cos_lat_nonneg hc)

theorem haversine_le_one (a b c d : ℝ) (ha : -90 ≤ a ∧ a ≤ 90) (hc : -90 ≤ c ∧ c ≤ 90) :
    Gen.haversine a b c d ≤ 1 := by
  rw [haversine_eq]
  exact hav_le_one (cos_lat_nonneg ha) (cos_lat_nonneg hc)

/-! ### DistanceTo (no hypotheses needed: arcsin ∘ sqrt is clamped to [0, π/2]) -/

theorem distanceFromHaversine_nonneg (h : ℝ) : 0 ≤ Gen.distanceFromHaversine h := by
  rw [distanceFromHaversine_eq]
  have := arcsin_nonneg.2 (sqrt_nonneg h)
  positivity

theorem distanceFromHaversine_le (h : ℝ) : Gen.distanceFromHaversine h ≤ π * R := by
  rw [distanceFromHaversine_eq]
  have := arcsin_le_pi_div_two (√h)
  nlinarith

theorem distanceTo_nonneg (a b c d : ℝ) : 0 ≤ Gen.distanceTo a b c d := by
  rw [distanceTo_eq]; exact distanceFromHaversine_nonneg _

theorem distanceTo_le_half_circumference (a b c d : ℝ) : Gen.distanceTo a b c d ≤ π * R := by
  rw [distanceTo_eq]; exact distanceFromHaversine_le _

theorem distanceTo_symm (a b c d : ℝ) : Gen.distanceTo a b c d = Gen.distanceTo c d a b := by
  rw [distanceTo_eq, distanceTo_eq, haversine_symm]

theorem distanceTo_self (a b : ℝ) : Gen.distanceTo a b a b = 0 := by
  rw [distanceTo_eq, haversine_self, distanceFromHaversine_eq]; simp

/-! ### distance ↔ haversine -/

/-- the haversine value is a strictly increasing function of the distance on [0, πR] -/
theorem distanceToHaversine_strictMono :
    StrictMonoOn (Gen.distanceToHaversine : ℝ → ℝ) (Set.Icc 0 (π * R)) := by
  intro x hx y hy hxy
  simp only [distanceToHaversine_eq]
  obtain ⟨hx0, hx1⟩ := half_angle_mem ⟨hx.1, hx.2⟩
  obtain ⟨hy0, hy1⟩ := half_angle_mem ⟨hy.1, hy.2⟩
  have hlt : x / (2 * R) < y / (2 * R) := by
    apply div_lt_div_of_pos_right hxy; norm_num
  have hs : sin (x / (2 * R)) < sin (y / (2 * R)) :=
    strictMonoOn_sin ⟨by linarith [pi_pos], hx1⟩ ⟨by linarith [pi_pos], hy1⟩ hlt
  have h0 : 0 ≤ sin (x / (2 * R)) := sin_nonneg_of_nonneg_of_le_pi hx0 (by linarith [pi_pos])
  exact pow_lt_pow_left₀ hs h0 (by norm_num)

theorem distanceFrom_to_id (m : ℝ) (h : 0 ≤ m ∧ m ≤ π * R) :
    Gen.distanceFromHaversine (Gen.distanceToHaversine m) = m := by
  rw [distanceToHaversine_eq, distanceFromHaversine_eq]
  obtain ⟨h0, h1⟩ := half_angle_mem h
  have hs : 0 ≤ sin (m / (2 * R)) := sin_nonneg_of_nonneg_of_le_pi h0 (by linarith [pi_pos])
  rw [sqrt_sq hs, arcsin_sin (by linarith [pi_pos]) h1]
  field_simp

theorem distanceTo_from_id (h : ℝ) (hh : 0 ≤ h ∧ h ≤ 1) :
    Gen.distanceToHaversine (Gen.distanceFromHaversine h) = h := by
  rw [distanceFromHaversine_eq, distanceToHaversine_eq]
  have e : R * 2 * arcsin (√h) / (2 * R) = arcsin (√h) := by field_simp
  rw [e, sin_arcsin (by linarith [sqrt_nonneg h]) (sqrt_le_one.2 hh.2), sq_sqrt hh.1]

/-! ### NormalizeDistance -/

theorem twoPiR_pos : (0 : ℝ) < 2 * (π * R) := by positivity

theorem normalize_idem (m : ℝ) :
    Gen.normalizeDistance (Gen.normalizeDistance m) = Gen.normalizeDistance m := by
  simp only [normalizeDistance_eq]
  exact rmod_idem twoPiR_pos

/-- `sin²(m / 2R)` has period `2πR` in `m` -/
theorem normalize_haversine (m : ℝ) :
    Gen.distanceToHaversine (Gen.normalizeDistance m) = Gen.distanceToHaversine m := by
  rw [normalizeDistance_eq, distanceToHaversine_eq, distanceToHaversine_eq]
  obtain ⟨k, hk⟩ := rmod_eq_sub_int_mul m (2 * (π * R))
  rw [hk, show (m - 2 * (π * R) * (k : ℝ)) / (2 * R) = m / (2 * R) - (k : ℝ) * π by field_simp,
    sin_sub_int_mul_pi, mul_pow]
  have : ((-1 : ℝ) ^ k) ^ 2 = 1 := by
    rw [← zpow_natCast, ← zpow_mul, mul_comm, zpow_mul]; norm_num
  rw [this, one_mul]

/-- a distance already in [0, 2πR) is left unchanged -/
theorem normalize_of_lt (m : ℝ) (h : 0 ≤ m ∧ m < 2 * (π * R)) : Gen.normalizeDistance m = m := by
  rw [normalizeDistance_eq]
  exact rmod_of_abs_lt twoPiR_pos (by rw [abs_of_nonneg h.1]; exact h.2)

/-! ### DestinationPoint: ranges -/

theorem destination_lat_range (lat lon m brg : ℝ) :
    -90 ≤ (Gen.destinationPoint lat lon m brg).1 ∧ (Gen.destinationPoint lat lon m brg).1 ≤ 90 := by
  rw [destinationPoint_eq]
  simp only [destPhi]
  constructor
  · apply le_mul_deg
    have := neg_pi_div_two_le_arcsin
      (sin (lat * rad) * cos (m / R) + cos (lat * rad) * sin (m / R) * cos (brg * rad))
    linarith
  · apply mul_deg_le
    have := arcsin_le_pi_div_two
      (sin (lat * rad) * cos (m / R) + cos (lat * rad) * sin (m / R) * cos (brg * rad))
    linarith

/-- Longitude range, for start longitudes ≥ −360° (in particular all valid ones). -/
theorem destination_lon_range_partial (lat lon m brg : ℝ) (hlon : -360 ≤ lon) :
    -180 ≤ (Gen.destinationPoint lat lon m brg).2 ∧ (Gen.destinationPoint lat lon m brg).2 < 180 := by
  rw [destinationPoint_eq]
  simp only
  have hp := pi_pos
  have harg : -π < destLam lat lon m brg - lon * rad := by
    simp only [destLam, ratan2, add_sub_cancel_left]
    exact Complex.neg_pi_lt_arg _
  have hl : -360 * rad ≤ lon * rad := mul_rad_le hlon
  have h0 : 0 ≤ destLam lat lon m brg + 3 * π := by nlinarith
  obtain ⟨r0, r1⟩ := rmod_of_nonneg (by positivity : (0 : ℝ) < 2 * π) h0
  constructor
  · apply le_mul_deg; linarith
  · have : (rmod (destLam lat lon m brg + 3 * π) (2 * π) - π) * deg < π * deg :=
      mul_lt_mul_of_pos_right (by linarith) (by positivity)
    have e : π * deg = 180 := by field_simp
    linarith

theorem destination_lon_range (lat lon m brg : ℝ) (hlon : -180 ≤ lon ∧ lon ≤ 180) :
    -180 ≤ (Gen.destinationPoint lat lon m brg).2 ∧ (Gen.destinationPoint lat lon m brg).2 ≤ 180 := by
  have := destination_lon_range_partial lat lon m brg (by linarith [hlon.1])
  exact ⟨this.1, this.2.le⟩

/-- Without a hypothesis on the start longitude the range claim is FALSE for the formula as
    written: `DestinationPoint(0, −810, 0, 0) = (0, −450)`. -/
theorem destination_lon_range_counterexample :
    ¬ ∀ lat lon m brg : ℝ, -180 ≤ (Gen.destinationPoint lat lon m brg).2 ∧
        (Gen.destinationPoint lat lon m brg).2 ≤ 180 := by
  intro h
  have h1 := (h 0 (-810) 0 0).1
  rw [destinationPoint_eq] at h1
  have hp := pi_pos
  have e1 : destLam 0 (-810) 0 0 = -810 * rad := by
    simp [destLam, destPhi, ratan2, Complex.arg_eq_zero_iff]
  have e2 : rmod (-810 * rad + 3 * π) (2 * π) = -810 * rad + 3 * π := by
    apply rmod_of_abs_lt (by positivity)
    rw [abs_lt]; constructor <;> nlinarith
  rw [e1, e2] at h1
  have e3 : (-810 * rad + 3 * π - π) * deg = -450 := by field_simp; ring
  simp only [e3] at h1
  norm_num at h1

/-! ### DestinationPoint: distance (stretch goal) -/

/-- Travelling `m ∈ [0, πR]` metres from a point of valid latitude along any bearing ends at
    great-circle distance exactly `m` from the start. -/
theorem destination_distance (lat lon m brg : ℝ) (hlat : -90 ≤ lat ∧ lat ≤ 90)
    (hm : 0 ≤ m ∧ m ≤ π * R) :
    Gen.distanceTo lat lon (Gen.destinationPoint lat lon m brg).1
      (Gen.destinationPoint lat lon m brg).2 = m := by
  rw [destinationPoint_eq]
  simp only
  rw [distanceTo_eq]
  have key : Gen.haversine lat lon (destPhi lat m brg * deg)
      ((rmod (destLam lat lon m brg + 3 * π) (2 * π) - π) * deg) = Gen.distanceToHaversine m := by
    rw [haversine_eq, distanceToHaversine_eq]
    obtain ⟨k, hk⟩ := rmod_eq_sub_int_mul (destLam lat lon m brg + 3 * π) (2 * π)
    rw [hk, mul_deg_mul_rad, mul_deg_mul_rad]
    have e2 : destLam lat lon m brg + 3 * π - 2 * π * (k : ℝ) - π - lon * rad
        = ratan2 (sin (brg * rad) * sin (m / R) * cos (lat * rad))
            (cos (m / R) - sin (lat * rad) * sin (destPhi lat m brg))
          + ((1 - k : ℤ) : ℝ) * (2 * π) := by
      simp only [destLam]; push_cast; ring
    rw [e2, show m / (2 * R) = m / R / 2 by ring]
    exact dest_haversine (lat * rad) (m / R) (brg * rad) (cos_lat_nonneg hlat) (1 - k)
  rw [key, distanceFrom_to_id m hm]

/-! ### DegsToSemi / SemiToDegs (int32 modelled as unbounded `Int`, truncation toward zero) -/

theorem semi_roundtrip (s : ℤ) : Gen.degsToSemi (Gen.semiToDegs s : ℝ) = s := by
  rw [semiToDegs_eq, degsToSemi_eq]
  have : (s : ℝ) * (180 / 2 ^ 31) * (2 ^ 31 / 180) = (s : ℝ) := by field_simp
  rw [this, truncZ_intCast]

/-! ### non-vacuity -/

example : (0 : ℝ) ≤ 1000 ∧ (1000 : ℝ) ≤ π * R := by
  constructor
  · norm_num
  · nlinarith [two_le_pi]

example : Gen.distanceFromHaversine (Gen.distanceToHaversine (1000 : ℝ)) = 1000 :=
  distanceFrom_to_id 1000 ⟨by norm_num, by nlinarith [two_le_pi]⟩

example : Gen.distanceToHaversine (0 : ℝ) < Gen.distanceToHaversine (π * R) :=
  distanceToHaversine_strictMono ⟨le_refl _, by positivity⟩ ⟨by positivity, le_refl _⟩
    (by positivity)

example : Gen.haversine (0 : ℝ) 0 0 180 = 1 := by
  rw [haversine_eq]
  have : (180 * rad - 0 * rad) / 2 = π / 2 := by field_simp; ring
  rw [this]; simp

example : Gen.distanceTo (0 : ℝ) 0 0 180 = π * R := by
  rw [distanceTo_eq, distanceFromHaversine_eq, haversine_eq]
  have : (180 * rad - 0 * rad) / 2 = π / 2 := by field_simp; ring
  rw [this]; simp; ring

end Geo.C15

#print axioms Geo.C15.haversine_symm
#print axioms Geo.C15.haversine_self
#print axioms Geo.C15.haversine_nonneg
#print axioms Geo.C15.haversine_le_one
#print axioms Geo.C15.distanceTo_nonneg
#print axioms Geo.C15.distanceTo_le_half_circumference
#print axioms Geo.C15.distanceTo_symm
#print axioms Geo.C15.distanceTo_self
#print axioms Geo.C15.distanceToHaversine_strictMono
#print axioms Geo.C15.distanceFrom_to_id
#print axioms Geo.C15.distanceTo_from_id
#print axioms Geo.C15.normalize_idem
#print axioms Geo.C15.normalize_haversine
#print axioms Geo.C15.normalize_of_lt
#print axioms Geo.C15.destination_lat_range
#print axioms Geo.C15.destination_lon_range_partial
#print axioms Geo.C15.destination_lon_range
#print axioms Geo.C15.destination_lon_range_counterexample
#print axioms Geo.C15.semi_roundtrip
#print axioms Geo.C15.destination_distance
