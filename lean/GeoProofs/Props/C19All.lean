/-
  C19, everything: Props/C19.lean (the kernels of the exact model are correct: on/in, symmetric
  intersects, contains, collinear, box) and Props/FloatBridge.lean (the kernels REGENERATED from
  geometry/raycast.go and geometry/segment.go on every run, evaluated in an exact model of IEEE-754
  binary64 arithmetic, take the same decisions as the exact model on the whole regime E).
-/
import GeoProofs.Props.C19
import GeoProofs.Props.FloatBridge
import GeoProofs.Props.FloatBridgeRect
