package main

// effects: extracts, from the SSA of /repo and everything it calls, the heap-write effects of
// every function reachable from the query and serialisation methods, with the provenance of
// each written address, and emits them as a Lean table together with a certificate (per
// function: the set of labels it may write through). The Lean side re-checks the certificate
// (GeoProofs/EffectsCert.lean); nothing computed here is trusted beyond the extraction rules:
//
//   provenance labels of an address:
//     local      derives from an Alloc / make / new / composite literal / fresh call result of
//                the same activation (or of the lexically enclosing one, for closures)
//     param i    derives from parameter i (0 = receiver)
//     global g   derives from package-level variable g
//     unknown    anything the rules below do not understand (treated as shared)

import (
	"fmt"
	"go/token"
	"go/types"
	"sort"
	"strings"

	"golang.org/x/tools/go/callgraph"
	"golang.org/x/tools/go/callgraph/rta"
	"golang.org/x/tools/go/packages"
	"golang.org/x/tools/go/ssa"
	"golang.org/x/tools/go/ssa/ssautil"
)

func init() { translators["effects"] = effects }

type label string // "L", "P<i>", "G:<name>", "U:<why>"

type labelSet map[label]bool

func (s labelSet) add(o labelSet) bool {
	ch := false
	for l := range o {
		if !s[l] {
			s[l] = true
			ch = true
		}
	}
	return ch
}
func one(l label) labelSet { return labelSet{l: true} }
func (s labelSet) sorted() []string {
	var out []string
	for l := range s {
		out = append(out, string(l))
	}
	sort.Strings(out)
	return out
}
func (s labelSet) nonLocal() labelSet {
	o := labelSet{}
	for l := range s {
		if l != "L" {
			o[l] = true
		}
	}
	return o
}

type fnInfo struct {
	fn      *ssa.Function
	id      int
	own     labelSet             // labels of addresses written by the function's own instructions
	ownWhy  []string             // human-readable
	calls   []callInfo           // call sites
	ret     labelSet             // provenance of returned references
	summary labelSet             // fixpoint: labels it may write through (own + callees)
}

type callInfo struct {
	callees []*ssa.Function
	args    []labelSet
	pos     string
}

type analyzer struct {
	prog  *ssa.Program
	cg    *callgraph.Graph
	infos map[*ssa.Function]*fnInfo
	memo  map[ssa.Value]labelSet
	busy  map[ssa.Value]bool
}

// provenance of a value that may be (or contain) a reference
func (a *analyzer) prov(v ssa.Value) labelSet {
	if s, ok := a.memo[v]; ok {
		return s
	}
	if a.busy[v] {
		return labelSet{} // cycle through phi: contributes nothing new
	}
	a.busy[v] = true
	s := a.prov1(v)
	delete(a.busy, v)
	a.memo[v] = s
	return s
}

func hasPointers(t types.Type) bool {
	switch u := t.Underlying().(type) {
	case *types.Basic:
		return u.Kind() == types.String || u.Kind() == types.UnsafePointer
	case *types.Struct:
		for i := 0; i < u.NumFields(); i++ {
			if hasPointers(u.Field(i).Type()) {
				return true
			}
		}
		return false
	case *types.Array:
		return hasPointers(u.Elem())
	case *types.Tuple:
		for i := 0; i < u.Len(); i++ {
			if hasPointers(u.At(i).Type()) {
				return true
			}
		}
		return false
	}
	return true
}

func (a *analyzer) prov1(v ssa.Value) labelSet {
	switch x := v.(type) {
	case *ssa.Alloc, *ssa.MakeSlice, *ssa.MakeMap, *ssa.MakeChan, *ssa.MakeClosure:
		return one("L")
	case *ssa.Const, *ssa.Function, *ssa.Builtin:
		return one("L")
	case *ssa.Parameter:
		for i, p := range x.Parent().Params {
			if p == x {
				return one(label(fmt.Sprintf("P%d", i)))
			}
		}
		return one("U:param")
	case *ssa.FreeVar:
		// resolve through the MakeClosure in the lexically enclosing function
		parent := x.Parent().Parent()
		if parent == nil {
			return one("U:freevar")
		}
		idx := -1
		for i, fv := range x.Parent().FreeVars {
			if fv == x {
				idx = i
			}
		}
		res := labelSet{}
		found := false
		for _, b := range parent.Blocks {
			for _, ins := range b.Instrs {
				if mc, ok := ins.(*ssa.MakeClosure); ok && mc.Fn == x.Parent() && idx >= 0 && idx < len(mc.Bindings) {
					found = true
					for l := range a.prov(mc.Bindings[idx]) {
						if strings.HasPrefix(string(l), "P") {
							// a parameter of the enclosing function: shared from the closure's point of view
							res[label("U:captured-"+string(l)+"-of-"+parent.Name())] = true
						} else {
							res[l] = true
						}
					}
				}
			}
		}
		if !found {
			return one("U:freevar")
		}
		return res
	case *ssa.Global:
		return one(label("G:" + x.Pkg.Pkg.Path() + "." + x.Name()))
	case *ssa.FieldAddr:
		return a.prov(x.X)
	case *ssa.IndexAddr:
		return a.prov(x.X)
	case *ssa.Field:
		return a.prov(x.X)
	case *ssa.Index:
		return a.prov(x.X)
	case *ssa.Slice:
		return a.prov(x.X)
	case *ssa.ChangeType:
		return a.prov(x.X)
	case *ssa.Convert:
		return a.prov(x.X)
	case *ssa.ChangeInterface:
		return a.prov(x.X)
	case *ssa.MakeInterface:
		return a.prov(x.X)
	case *ssa.TypeAssert:
		return a.prov(x.X)
	case *ssa.Extract:
		return a.prov(x.Tuple)
	case *ssa.SliceToArrayPointer:
		return a.prov(x.X)
	case *ssa.Phi:
		s := labelSet{}
		for _, e := range x.Edges {
			s.add(a.prov(e))
		}
		return s
	case *ssa.BinOp:
		if hasPointers(x.Type()) { // string concatenation: fresh
			return one("L")
		}
		return one("L")
	case *ssa.UnOp:
		if x.Op == token.MUL {
			if !hasPointers(x.Type()) {
				return one("L") // a loaded scalar carries no reference
			}
			// load of a reference: from a local cell -> what was stored there; otherwise it
			// points into whatever the source reaches
			src := a.prov(x.X)
			if al, ok := x.X.(*ssa.Alloc); ok {
				s := labelSet{}
				for _, ref := range *al.Referrers() {
					if st, ok := ref.(*ssa.Store); ok && st.Addr == al {
						s.add(a.prov(st.Val))
					}
				}
				if len(s) == 0 {
					return one("L")
				}
				return s
			}
			out := labelSet{}
			for l := range src {
				if l == "L" {
					// loaded from a field/element of a local aggregate: approximate by what was
					// stored into that aggregate anywhere in this function
					out.add(a.storedInto(x.X))
				} else {
					out[l] = true
				}
			}
			return out
		}
		return one("L")
	case *ssa.Lookup:
		if !hasPointers(x.Type()) {
			return one("L")
		}
		return a.prov(x.X)
	case *ssa.Next, *ssa.Range:
		return one("L")
	case *ssa.Call:
		if !hasPointers(x.Type()) {
			return one("L")
		}
		return a.callResult(x)
	}
	return one(label("U:" + fmt.Sprintf("%T", v)))
}

// labels of everything stored (anywhere in the function) through an address derived from the
// same root as addr, used for loads from local aggregates
func (a *analyzer) storedInto(addr ssa.Value) labelSet {
	root := addr
	for {
		switch x := root.(type) {
		case *ssa.FieldAddr:
			root = x.X
			continue
		case *ssa.IndexAddr:
			root = x.X
			continue
		case *ssa.Slice:
			root = x.X
			continue
		}
		break
	}
	out := labelSet{}
	fn := addr.Parent()
	if fn == nil {
		return one("U:noparent")
	}
	found := false
	for _, b := range fn.Blocks {
		for _, ins := range b.Instrs {
			st, ok := ins.(*ssa.Store)
			if !ok || !hasPointers(st.Val.Type()) {
				continue
			}
			r := st.Addr
			for {
				switch x := r.(type) {
				case *ssa.FieldAddr:
					r = x.X
					continue
				case *ssa.IndexAddr:
					r = x.X
					continue
				case *ssa.Slice:
					r = x.X
					continue
				}
				break
			}
			if r == root {
				found = true
				out.add(a.prov(st.Val))
			}
		}
	}
	if !found {
		// e.g. a slice returned by make/append and never stored into by this function
		if _, ok := root.(*ssa.Call); ok {
			return a.prov(root)
		}
		return one("L")
	}
	return out
}

func (a *analyzer) calleesOf(c ssa.CallInstruction) []*ssa.Function {
	if f := c.Common().StaticCallee(); f != nil {
		return []*ssa.Function{f}
	}
	var out []*ssa.Function
	if n := a.cg.Nodes[c.Parent()]; n != nil {
		for _, e := range n.Out {
			if e.Site == c {
				out = append(out, e.Callee.Func)
			}
		}
	}
	return out
}

func (a *analyzer) callResult(c *ssa.Call) labelSet {
	com := c.Common()
	if b, ok := com.Value.(*ssa.Builtin); ok {
		switch b.Name() {
		case "append":
			s := labelSet{"L": true}
			if len(com.Args) > 0 {
				s.add(a.prov(com.Args[0]))
			}
			return s
		default:
			return one("L")
		}
	}
	callees := a.calleesOf(c)
	if len(callees) == 0 {
		return one("U:dynamic-call-result")
	}
	args := com.Args
	if com.IsInvoke() {
		args = append([]ssa.Value{com.Value}, args...)
	}
	out := labelSet{}
	for _, g := range callees {
		gi := a.infos[g]
		if gi == nil || g.Blocks == nil {
			if c, ok := externalContract(g.String()); ok {
				out["L"] = true
				for _, i := range c.alias {
					if i < len(args) {
						out.add(a.prov(args[i]))
					}
				}
			} else {
				out["U:external-result-of-"+label(g.String())] = true
			}
			continue
		}
		for l := range gi.ret {
			if strings.HasPrefix(string(l), "P") {
				var i int
				fmt.Sscanf(string(l), "P%d", &i)
				if i < len(args) {
					out.add(a.prov(args[i]))
				}
			} else {
				out[l] = true
			}
		}
	}
	if len(out) == 0 {
		out["L"] = true
	}
	return out
}

// contracts of functions outside the repository (dependencies and the standard library):
// which parameters they may write through, and whether their result may alias a parameter.
// These are trusted and listed verbatim in the generated Lean file. Anything not listed is
// reported as `unknown external`, which fails the certificate.
type contract struct {
	writes []int // parameter indices (0 = receiver for methods)
	alias  []int // the result may alias these parameters (otherwise it is fresh)
}

func externalContract(name string) (contract, bool) {
	pure := contract{}
	switch {
	case strings.HasPrefix(name, "math."), strings.HasPrefix(name, "math/bits."):
		return pure, true
	case strings.HasPrefix(name, "strings."), strings.HasPrefix(name, "unicode/utf8."):
		return pure, true
	case name == "strconv.AppendFloat":
		return contract{writes: []int{0}, alias: []int{0}}, true
	case strings.HasPrefix(name, "(encoding/binary.littleEndian).Put"):
		return contract{writes: []int{1}}, true
	case strings.HasPrefix(name, "(encoding/binary.littleEndian)."):
		return pure, true
	case name == "github.com/tidwall/gjson.Get", name == "github.com/tidwall/gjson.GetBytes", name == "github.com/tidwall/gjson.Parse",
		name == "github.com/tidwall/gjson.Valid", name == "github.com/tidwall/gjson.ParseBytes":
		return contract{alias: []int{0}}, true
	case strings.HasPrefix(name, "(github.com/tidwall/gjson.Result)."):
		return contract{alias: []int{0}}, true
	case strings.HasPrefix(name, "(*github.com/tidwall/rtree.RTree") && strings.HasSuffix(name, ").Search"):
		return pure, true // read-only traversal; calls the iterator (accounted separately)
	}
	return contract{}, false
}

func posOf(prog *ssa.Program, p token.Pos) string {
	if !p.IsValid() {
		return "-"
	}
	pp := prog.Fset.Position(p)
	f := pp.Filename
	if i := strings.Index(f, "/pkg/mod/"); i >= 0 {
		f = f[i+9:]
	}
	f = strings.TrimPrefix(f, "/repo/")
	return fmt.Sprintf("%s:%d", f, pp.Line)
}

func effects(repo string) (string, error) {
	cfg := &packages.Config{Mode: packages.LoadAllSyntax, Dir: repo, Tests: false}
	pkgs, err := packages.Load(cfg, "./...")
	if err != nil {
		return "", err
	}
	if packages.PrintErrors(pkgs) > 0 {
		return "", fmt.Errorf("package load errors")
	}
	prog, spkgs := ssautil.AllPackages(pkgs, ssa.InstantiateGenerics)
	prog.Build()

	// roots: every method of the object / geometry types of the two packages that a user can
	// call on a constructed value (queries and serialisation), i.e. all methods of the named
	// types except the ones that exist to build values
	var roots []*ssa.Function
	allowed := map[*ssa.Function][]int{}
	for _, sp := range spkgs {
		if sp == nil || !(sp.Pkg.Path() == "github.com/tidwall/geojson" || sp.Pkg.Path() == "github.com/tidwall/geojson/geometry" || sp.Pkg.Path() == "github.com/tidwall/geojson/geo") {
			continue
		}
		for _, m := range sp.Members {
			switch t := m.(type) {
			case *ssa.Type:
				if !token.IsExported(t.Name()) {
					continue // methods of unexported types are reached only through exported ones
				}
				for _, typ := range []types.Type{t.Type(), types.NewPointer(t.Type())} {
					ms := prog.MethodSets.MethodSet(typ)
					for i := 0; i < ms.Len(); i++ {
						f := prog.MethodValue(ms.At(i))
						if f == nil || f.Blocks == nil && f.Synthetic == "" {
							continue
						}
						name := f.Name()
						// builders of new values are not queries on a shared object
						if name == "parseInitRectIndex" || name == "buildIndex" || name == "clearIndex" || name == "setCompressed" ||
							name == "Insert" || name == "insert" || name == "compress" || name == "expand" || name == "recalc" ||
							name == "splitLargestAxisEdgeSnap" || name == "chooseLeastEnlargement" || name == "chooseQuad" {
							continue
						}
						if !token.IsExported(name) {
							continue
						}
						roots = append(roots, f)
						if name == "AppendJSON" {
							allowed[f] = []int{1} // the caller-provided destination buffer
						}
					}
				}
			case *ssa.Function:
				if sp.Pkg.Path() == "github.com/tidwall/geojson/geo" && token.IsExported(t.Name()) {
					roots = append(roots, t)
				}
			}
		}
	}
	sort.Slice(roots, func(i, j int) bool { return roots[i].String() < roots[j].String() })
	res := rta.Analyze(roots, true)
	a := &analyzer{prog: prog, cg: res.CallGraph, infos: map[*ssa.Function]*fnInfo{}, memo: map[ssa.Value]labelSet{}, busy: map[ssa.Value]bool{}}

	inRepo := func(f *ssa.Function) bool {
		for p := f; p != nil; p = p.Parent() {
			if p.Pkg != nil {
				return strings.HasPrefix(p.Pkg.Pkg.Path(), "github.com/tidwall/geojson")
			}
		}
		// synthetic wrappers (bound methods, thunks) of repo types
		return strings.Contains(f.String(), "github.com/tidwall/geojson")
	}
	var fns []*ssa.Function
	externals := map[string]bool{}
	for f := range res.Reachable {
		if inRepo(f) {
			fns = append(fns, f)
		}
	}
	// closures of reachable functions are reachable through dynamic calls; RTA lists them too
	sort.Slice(fns, func(i, j int) bool { return fns[i].String() < fns[j].String() })
	for i, f := range fns {
		a.infos[f] = &fnInfo{fn: f, id: i, own: labelSet{}, ret: labelSet{}, summary: labelSet{}}
	}

	// return provenance, to a fixpoint (needed by callResult)
	for iter := 0; iter < 8; iter++ {
		changed := false
		a.memo = map[ssa.Value]labelSet{}
		for _, f := range fns {
			fi := a.infos[f]
			for _, b := range f.Blocks {
				for _, ins := range b.Instrs {
					if r, ok := ins.(*ssa.Return); ok {
						for _, v := range r.Results {
							if hasPointers(v.Type()) {
								if fi.ret.add(a.prov(v)) {
									changed = true
								}
							}
						}
					}
				}
			}
		}
		if !changed {
			break
		}
	}
	a.memo = map[ssa.Value]labelSet{}

	// own writes and call sites
	for _, f := range fns {
		fi := a.infos[f]
		if f.Blocks == nil {
			// no body (assembly / runtime intrinsic): pure math kernels and the like are listed
			// in the Lean file as trusted externals
			continue
		}
		for _, b := range f.Blocks {
			for _, ins := range b.Instrs {
				switch x := ins.(type) {
				case *ssa.Store:
					p := a.prov(x.Addr).nonLocal()
					if len(p) > 0 {
						fi.own.add(p)
						fi.ownWhy = append(fi.ownWhy, fmt.Sprintf("store %s -> %v", posOf(prog, x.Pos()), p.sorted()))
					}
				case *ssa.MapUpdate:
					p := a.prov(x.Map).nonLocal()
					if len(p) > 0 {
						fi.own.add(p)
						fi.ownWhy = append(fi.ownWhy, fmt.Sprintf("mapupdate %s -> %v", posOf(prog, x.Pos()), p.sorted()))
					}
				case *ssa.Send:
					fi.own["U:channel-send"] = true
				case *ssa.Go:
					fi.own["U:go-statement"] = true
				case ssa.CallInstruction:
					com := x.Common()
					if bi, ok := com.Value.(*ssa.Builtin); ok {
						switch bi.Name() {
						case "append", "copy":
							// writes through the destination slice's backing array
							p := a.prov(com.Args[0]).nonLocal()
							if len(p) > 0 {
								fi.own.add(p)
								fi.ownWhy = append(fi.ownWhy, fmt.Sprintf("%s %s -> %v", bi.Name(), posOf(prog, x.Pos()), p.sorted()))
							}
						case "delete":
							p := a.prov(com.Args[0]).nonLocal()
							if len(p) > 0 {
								fi.own.add(p)
							}
						}
						continue
					}
					callees := a.calleesOf(x)
					args := com.Args
					if com.IsInvoke() {
						args = append([]ssa.Value{com.Value}, args...)
					}
					ci := callInfo{callees: callees, pos: posOf(prog, x.Pos())}
					for _, arg := range args {
						if hasPointers(arg.Type()) {
							ci.args = append(ci.args, a.prov(arg).nonLocal())
						} else {
							ci.args = append(ci.args, labelSet{})
						}
					}
					if len(callees) == 0 {
						// a dynamic call with no known target in the reachable program
						fi.own["U:unresolved-call@"+label(ci.pos)] = true
					}
					var repoCallees []*ssa.Function
					for _, g := range callees {
						if a.infos[g] != nil {
							repoCallees = append(repoCallees, g)
							continue
						}
						c, ok := externalContract(g.String())
						if !ok {
							fi.own["U:external:"+label(g.String())] = true
							continue
						}
						externals[g.String()] = true
						for _, i := range c.writes {
							if i < len(args) {
								p := a.prov(args[i]).nonLocal()
								if len(p) > 0 {
									fi.own.add(p)
									fi.ownWhy = append(fi.ownWhy, fmt.Sprintf("%s %s -> %v", g.String(), ci.pos, p.sorted()))
								}
							}
						}
						// function-valued arguments may be called back by the library with arguments of its own
						for _, arg := range args {
							var cf *ssa.Function
							switch v := arg.(type) {
							case *ssa.MakeClosure:
								cf, _ = v.Fn.(*ssa.Function)
							case *ssa.Function:
								cf = v
							}
							if cf != nil && a.infos[cf] != nil {
								cb := callInfo{callees: []*ssa.Function{cf}, pos: ci.pos}
								for _, p := range cf.Params {
									if hasPointers(p.Type()) {
										cb.args = append(cb.args, one("U:library-supplied-argument"))
									} else {
										cb.args = append(cb.args, labelSet{})
									}
								}
								fi.calls = append(fi.calls, cb)
							}
						}
					}
					ci.callees = repoCallees
					fi.calls = append(fi.calls, ci)
				}
			}
		}
	}

	// trusted externals: functions without SSA bodies (assembly, runtime) that are known not
	// to write shared memory; anything else without a body poisons its callers
	trustedExternal := func(f *ssa.Function) bool { return false }
	_ = trustedExternal

	// fixpoint of the summaries
	for {
		changed := false
		for _, f := range fns {
			fi := a.infos[f]
			if fi.summary.add(fi.own) {
				changed = true
			}
			for _, c := range fi.calls {
				for _, g := range c.callees {
					gi := a.infos[g]
					if gi == nil {
						continue
					}
					if g.Blocks == nil {
						if !trustedExternal(g) {
							if !fi.summary["U:external:"+label(g.String())] {
								fi.summary["U:external:"+label(g.String())] = true
								changed = true
							}
						}
						continue
					}
					for l := range gi.summary {
						if strings.HasPrefix(string(l), "P") {
							var i int
							fmt.Sscanf(string(l), "P%d", &i)
							if i < len(c.args) {
								if fi.summary.add(c.args[i]) {
									changed = true
								}
							}
						} else if !fi.summary[l] {
							fi.summary[l] = true
							changed = true
						}
					}
				}
			}
		}
		if !changed {
			break
		}
	}

	// ---- emit Lean ------------------------------------------------------------------
	lbl := func(l string) string {
		switch {
		case l == "L":
			return ".loc"
		case strings.HasPrefix(l, "P"):
			return ".param " + l[1:]
		case strings.HasPrefix(l, "G:"):
			return fmt.Sprintf(".global %q", l[2:])
		default:
			return fmt.Sprintf(".unknown %q", l)
		}
	}
	lbls := func(s labelSet) string {
		var out []string
		for _, l := range s.sorted() {
			out = append(out, lbl(l))
		}
		return "[" + strings.Join(out, ", ") + "]"
	}
	var sb strings.Builder
	sb.WriteString("/-\n  GENERATED by /verif/translate (effects) from /repo's SSA on every run. DO NOT EDIT.\n")
	sb.WriteString("  One entry per function reachable (RTA) from the query / serialisation roots: its own\n  heap writes by provenance label, its call sites with the non-local provenance of each\n  argument and the indices of the possible callees, and the claimed summary (certificate).\n-/\n")
	sb.WriteString("import GeoModel.EffectsTypes\nnamespace Geo.Effects.Gen\nopen Geo.Effects\n\n")
	// split into chunks to keep elaboration fast
	const chunk = 40
	nchunks := (len(fns) + chunk - 1) / chunk
	for c := 0; c < nchunks; c++ {
		fmt.Fprintf(&sb, "def fns%d : List Fn := [\n", c)
		for i := c * chunk; i < (c+1)*chunk && i < len(fns); i++ {
			f := fns[i]
			fi := a.infos[f]
			var calls []string
			for _, ci := range fi.calls {
				var ids []string
				for _, g := range ci.callees {
					if gi := a.infos[g]; gi != nil {
						if g.Blocks == nil && trustedExternal(g) {
							continue
						}
						ids = append(ids, fmt.Sprint(gi.id))
					}
				}
				if len(ids) == 0 {
					continue
				}
				sort.Slice(ids, func(i, j int) bool { // deterministic output
					var a, b int
					fmt.Sscan(ids[i], &a)
					fmt.Sscan(ids[j], &b)
					return a < b
				})
				var as []string
				for _, s := range ci.args {
					as = append(as, lbls(s))
				}
				calls = append(calls, fmt.Sprintf("⟨[%s], [%s]⟩", strings.Join(ids, ", "), strings.Join(as, ", ")))
			}
			ext := "false"
			if f.Blocks == nil && !trustedExternal(f) {
				ext = "true"
			}
			fmt.Fprintf(&sb, "  -- %d: %s\n  ⟨%q, %s, %s, [%s], %s⟩", i, f.String(), f.String(), ext, lbls(fi.own), strings.Join(calls, ", "), lbls(fi.summary))
			if i+1 < (c+1)*chunk && i+1 < len(fns) {
				sb.WriteString(",")
			}
			sb.WriteString("\n")
		}
		sb.WriteString("]\n\n")
	}
	sb.WriteString("def fns : List Fn := ")
	for c := 0; c < nchunks; c++ {
		if c > 0 {
			sb.WriteString(" ++ ")
		}
		fmt.Fprintf(&sb, "fns%d", c)
	}
	if nchunks == 0 {
		sb.WriteString("[]")
	}
	sb.WriteString("\n\n/-- roots with the parameters each may write through (AppendJSON: its destination buffer) -/\ndef roots : List (Nat × List Nat) := [\n")
	for i, r := range roots {
		ri := a.infos[r]
		if ri == nil {
			continue
		}
		var al []string
		for _, p := range allowed[r] {
			al = append(al, fmt.Sprint(p))
		}
		sep := ","
		if i == len(roots)-1 {
			sep = ""
		}
		fmt.Fprintf(&sb, "  (%d, [%s])%s  -- %s\n", ri.id, strings.Join(al, ", "), sep, r.String())
	}
	sb.WriteString("]\n\n")
	var exts []string
	for e := range externals {
		exts = append(exts, e)
	}
	sort.Strings(exts)
	sb.WriteString("/-- functions outside the repository that are called, modelled by contract (trusted) -/\ndef externals : List String := [\n")
	for i, e := range exts {
		sep := ","
		if i == len(exts)-1 {
			sep = ""
		}
		fmt.Fprintf(&sb, "  %q%s\n", e, sep)
	}
	sb.WriteString("]\n\n")
	// diagnostics as comments: the own writes of functions with a non-empty summary
	sb.WriteString("/- diagnostics (functions whose summary is not empty):\n")
	for _, f := range fns {
		fi := a.infos[f]
		if len(fi.summary) > 0 {
			fmt.Fprintf(&sb, "  %s : %v\n", f.String(), fi.summary.sorted())
			for _, w := range fi.ownWhy {
				fmt.Fprintf(&sb, "      %s\n", w)
			}
		}
	}
	sb.WriteString("-/\n\nend Geo.Effects.Gen\n")
	return sb.String(), nil
}
