/-
  GeoProofs.Glue.IndexGlueCompress — the regenerated Go `(*qNode).compress` (geometry/qtree.go,
  `IGen.qNode_compress`) run on the concrete byte operations `aOps` produces, byte for byte, the
  model's `Geo.qCompress`, and never panics (every `PutUint32` lands on 4 placeholder bytes that
  were appended before).

  Deviation from the plain statement: the hypothesis `SmallLists n` (every node holds fewer than
  2^32 items).  It is NEEDED: the Go source writes `uint32(len(n.items))` (the generated
  `intToU 32 (Int.ofNat items.length)` = `items.length % 2^32`), the model uses `items.length`
  untruncated.  For a node with exactly 2^32 items, all of them 0, the Go code computes the width
  `numBytes 0 = 1` and writes the count byte 0, the model computes `numBytes (2^32) = 4` and
  writes the count bytes 0,0,0,0: the outputs differ already in their first byte (1 vs 4).
-/
import GeoProofs.Glue.IndexGlueNum
import GeoProofs.Index.QBytes

namespace Geo.IGlue
open Geo Geo.IGen

/-! ## counted loops over a list are folds -/

theorem loopM_range'_aux {α σ : Type} (f : σ → α → σ) (body : Int → σ → Option σ) (xs : List α) :
    ∀ (off : Nat) (s : σ),
      (∀ k (h : k < xs.length) s, body (Int.ofNat (off + k)) s = some (f s xs[k])) →
      loopM ((List.range' off xs.length).map Int.ofNat) s body = some (xs.foldl f s) := by
  induction xs with
  | nil => intro off s _; rfl
  | cons x xs ih =>
    intro off s hb
    simp only [List.length_cons, List.range'_succ, List.map_cons, loopM, List.foldl_cons]
    have h0 := hb 0 (by simp) s
    simp only [Nat.add_zero, List.getElem_cons_zero] at h0
    rw [h0]
    apply ih (off + 1)
    intro k h s
    have := hb (k + 1) (by simp only [List.length_cons]; omega) s
    simp only [List.getElem_cons_succ] at this
    rw [← this]
    congr 2
    omega

theorem intRange_zero (n : Nat) :
    intRange 0 (Int.ofNat n) = (List.range' 0 n).map Int.ofNat := by
  simp [intRange, List.range_eq_range']

/-- `for i := 0; i < len(xs); i++ { s = f(s, xs[i]) }` is `xs.foldl f s` (and never panics) -/
theorem loopM_intRange {α σ : Type} (f : σ → α → σ) (body : Int → σ → Option σ) (xs : List α)
    (s : σ) (hb : ∀ k (h : k < xs.length) s, body (Int.ofNat k) s = some (f s xs[k])) :
    loopM (intRange 0 (Int.ofNat xs.length)) s body = some (xs.foldl f s) := by
  rw [intRange_zero]
  apply loopM_range'_aux f body xs 0 s
  intro k h s
  simpa using hb k h s

theorem listAt_ofNat {α : Type} (xs : List α) (k : Nat) (h : k < xs.length) :
    listAt xs (Int.ofNat k) = some xs[k] := by
  simp [listAt, h]

/-! ## small facts -/

theorem intToU32_ofNat (n : Nat) : intToU 32 (Int.ofNat n) = n % 4294967296 := by
  have e : ((2 : Int) ^ 32) = 4294967296 := by decide
  simp only [intToU, e, Int.ofNat_eq_natCast]
  omega

theorem putU32_mod (d : Array Nat) (m n : Nat) : putU32 d m (n % 4294967296) = putU32 d m n := by
  have e : leBytes (n % 4294967296) 4 = leBytes n 4 := by
    simp only [leBytes, List.cons.injEq, and_true]
    omega
  simp only [putU32, e]

/-- every node of the tree holds fewer than 2^32 items (`uint32(len(n.items))` does not wrap) -/
def SmallLists : IGen.QNode → Prop
  | .nil => True
  | .mk _ items q0 q1 q2 q3 =>
    items.length < 4294967296 ∧ SmallLists q0 ∧ SmallLists q1 ∧ SmallLists q2 ∧ SmallLists q3

theorem smallLists_of_maxLen (n : IGen.QNode) (h : (absQ n).maxLen < 2 ^ 32) : SmallLists n := by
  induction n with
  | nil => trivial
  | mk s items q0 q1 q2 q3 ih0 ih1 ih2 ih3 =>
    simp only [absQ_mk, QNode.maxLen] at h
    exact ⟨by omega, ih0 (by omega), ih1 (by omega), ih2 (by omega), ih3 (by omega)⟩

theorem isNil_false_of_ne {c : IGen.QNode} (h : c.isNil = false) : c ≠ .nil := by
  intro e; subst e; simp [IGen.QNode.isNil] at h

/-! ## the quad slots and the emission of one child, on the generated side -/

/-- the placeholder slot of child `c` appended to `d` (Go: `append(dst, 0)` /
    `append(dst, 1); mark = len(dst); append(dst, 0, 0, 0, 0)`) -/
def gSlotD (d : Array Nat) (c : IGen.QNode) : Array Nat :=
  if c.isNil then d ++ [0].toArray else d ++ [1].toArray ++ [0, 0, 0, 0].toArray

theorem gSlotD_size_le (d : Array Nat) (c : IGen.QNode) : d.size + 1 ≤ (gSlotD d c).size := by
  unfold gSlotD; split <;> simp

theorem gSlotD_size_of_ne (d : Array Nat) (c : IGen.QNode) (h : c.isNil = false) :
    d.size + 5 ≤ (gSlotD d c).size := by
  unfold gSlotD; simp [h]

theorem mkSlot_absQ (acc : Array Nat × List Nat) (c : IGen.QNode) :
    mkSlot acc (absQ c) = (gSlotD acc.1 c, acc.2 ++ [if c.isNil then 0 else acc.1.size + 1]) := by
  cases c with
  | nil => simp [mkSlot, gSlotD, IGen.QNode.isNil]
  | mk s it a b c d => simp [mkSlot, gSlotD, IGen.QNode.isNil]

theorem emitSlot_size_le (d : Array Nat) (c : Geo.QNode) (b : Bool) (m : Nat) :
    d.size ≤ (emitSlot d b m (Geo.qCompress c)).size := by
  unfold emitSlot
  split
  · exact Nat.le_refl _
  · have := qCompress_size_le c (putU32 d m d.size)
    rwa [size_putU32] at this

variable {F S SR : Type} [KNum F] [Carrier F]
variable (segAt : SR → Int → S) (segRect : S → Rect F) (f64 : Nat → F)

/-- Go: `if n.quads[k] != nil { PutUint32(dst[mark:], uint32(len(dst))); dst = n.quads[k].compress(dst, …) }` -/
def gEmit (c : IGen.QNode) (m : Int) (b : Rect F) (d : Array Nat) : Option (Array Nat) :=
  if !(IGen.QNode.isNil c) then
    do
      let dst ← (aOps segAt segRect f64).putUint32 d m (intToU 32 ((aOps segAt segRect f64).bytesLen d))
      let r ← IGen.qNode_compress (aOps segAt segRect f64) c dst b
      let dst := r
      some dst
  else
    some d

theorem gEmit_eq (c : IGen.QNode)
    (ih : c ≠ .nil → ∀ (dst : Array Nat) (bounds : Rect F),
      IGen.qNode_compress (aOps segAt segRect f64) c dst bounds = some (Geo.qCompress (absQ c) dst))
    (D d : Array Nat) (b : Rect F) (hm : c.isNil = false → D.size + 5 ≤ d.size) :
    gEmit segAt segRect f64 c (Int.ofNat (D ++ [1].toArray).size) b d =
      some (emitSlot d (absQ c).isNil (if c.isNil then 0 else D.size + 1) (Geo.qCompress (absQ c))) := by
  cases h : c.isNil with
  | true => simp [gEmit, emitSlot, h]
  | false =>
    have hd := hm h
    have hp : (aOps segAt segRect f64).putUint32 d (Int.ofNat (D ++ [1].toArray).size)
        (intToU 32 ((aOps segAt segRect f64).bytesLen d)) = some (putU32 d (D.size + 1) d.size) := by
      have e1 : (aOps segAt segRect f64).bytesLen d = Int.ofNat d.size := rfl
      rw [e1, intToU32_ofNat]
      simp only [aOps, Int.ofNat_eq_natCast, Int.toNat_natCast, Array.size_append, List.size_toArray,
        List.length_cons, List.length_nil, putU32_mod]
      rw [if_pos]
      constructor
      · omega
      · omega
    simp only [gEmit, h, Bool.not_false, if_true, hp, emitSlot, absQ_isNil, Bool.false_eq_true, if_false]
    simp only [Option.bind_eq_bind, Option.bind_some, ih (isNil_false_of_ne h)]

/-- the four emissions in sequence, after the four slots were appended to `H` -/
theorem chain_eq (q0 q1 q2 q3 : IGen.QNode)
    (ih0 : q0 ≠ .nil → ∀ (dst : Array Nat) (bounds : Rect F),
      IGen.qNode_compress (aOps segAt segRect f64) q0 dst bounds = some (Geo.qCompress (absQ q0) dst))
    (ih1 : q1 ≠ .nil → ∀ (dst : Array Nat) (bounds : Rect F),
      IGen.qNode_compress (aOps segAt segRect f64) q1 dst bounds = some (Geo.qCompress (absQ q1) dst))
    (ih2 : q2 ≠ .nil → ∀ (dst : Array Nat) (bounds : Rect F),
      IGen.qNode_compress (aOps segAt segRect f64) q2 dst bounds = some (Geo.qCompress (absQ q2) dst))
    (ih3 : q3 ≠ .nil → ∀ (dst : Array Nat) (bounds : Rect F),
      IGen.qNode_compress (aOps segAt segRect f64) q3 dst bounds = some (Geo.qCompress (absQ q3) dst))
    (b0 b1 b2 b3 : Rect F) (H : Array Nat) :
    ((gEmit segAt segRect f64 q0 (Int.ofNat (H ++ [1].toArray).size) b0
        (gSlotD (gSlotD (gSlotD (gSlotD H q0) q1) q2) q3)).bind fun d =>
      (gEmit segAt segRect f64 q1 (Int.ofNat (gSlotD H q0 ++ [1].toArray).size) b1 d).bind fun d =>
      (gEmit segAt segRect f64 q2 (Int.ofNat (gSlotD (gSlotD H q0) q1 ++ [1].toArray).size) b2 d).bind fun d =>
      (gEmit segAt segRect f64 q3 (Int.ofNat (gSlotD (gSlotD (gSlotD H q0) q1) q2 ++ [1].toArray).size) b3 d).bind
        fun r => some r) =
    some (emitSlot (emitSlot (emitSlot (emitSlot
      (gSlotD (gSlotD (gSlotD (gSlotD H q0) q1) q2) q3)
      (absQ q0).isNil (if q0.isNil then 0 else H.size + 1) (Geo.qCompress (absQ q0)))
      (absQ q1).isNil (if q1.isNil then 0 else (gSlotD H q0).size + 1) (Geo.qCompress (absQ q1)))
      (absQ q2).isNil (if q2.isNil then 0 else (gSlotD (gSlotD H q0) q1).size + 1) (Geo.qCompress (absQ q2)))
      (absQ q3).isNil (if q3.isNil then 0 else (gSlotD (gSlotD (gSlotD H q0) q1) q2).size + 1)
        (Geo.qCompress (absQ q3))) := by
  have s1 := gSlotD_size_le H q0
  have s2 := gSlotD_size_le (gSlotD H q0) q1
  have s3 := gSlotD_size_le (gSlotD (gSlotD H q0) q1) q2
  have s4 := gSlotD_size_le (gSlotD (gSlotD (gSlotD H q0) q1) q2) q3
  rw [gEmit_eq segAt segRect f64 q0 ih0 H _ b0
    (fun h => by have := gSlotD_size_of_ne H q0 h; omega)]
  simp only [Option.bind_some]
  have e1 := emitSlot_size_le (gSlotD (gSlotD (gSlotD (gSlotD H q0) q1) q2) q3) (absQ q0)
    (absQ q0).isNil (if q0.isNil then 0 else H.size + 1)
  rw [gEmit_eq segAt segRect f64 q1 ih1 (gSlotD H q0) _ b1
    (fun h => by have := gSlotD_size_of_ne (gSlotD H q0) q1 h; omega)]
  simp only [Option.bind_some]
  have e2 := Nat.le_trans e1 (emitSlot_size_le _ (absQ q1) (absQ q1).isNil
    (if q1.isNil then 0 else (gSlotD H q0).size + 1))
  rw [gEmit_eq segAt segRect f64 q2 ih2 (gSlotD (gSlotD H q0) q1) _ b2
    (fun h => by have := gSlotD_size_of_ne (gSlotD (gSlotD H q0) q1) q2 h; omega)]
  simp only [Option.bind_some]
  have e3 := Nat.le_trans e2 (emitSlot_size_le _ (absQ q2) (absQ q2).isNil
    (if q2.isNil then 0 else (gSlotD (gSlotD H q0) q1).size + 1))
  rw [gEmit_eq segAt segRect f64 q3 ih3 (gSlotD (gSlotD (gSlotD H q0) q1) q2) _ b3
    (fun h => by have := gSlotD_size_of_ne (gSlotD (gSlotD (gSlotD H q0) q1) q2) q3 h; omega)]
  simp only [Option.bind_some]

theorem compress_eq (n : IGen.QNode) (hs : SmallLists n) (hn : n ≠ .nil) (dst : Array Nat)
    (bounds : Rect F) :
    IGen.qNode_compress (aOps segAt segRect f64) n dst bounds = some (Geo.qCompress (absQ n) dst) := by
  induction n generalizing dst bounds with
  | nil => exact absurd rfl hn
  | mk split items q0 q1 q2 q3 ih0 ih1 ih2 ih3 =>
    obtain ⟨hlen, hs0, hs1, hs2, hs3⟩ := hs
    have ih0' := ih0 hs0
    have ih1' := ih1 hs1
    have ih2' := ih2 hs2
    have ih3' := ih3 hs3
    clear ih0 ih1 ih2 ih3
    rw [absQ_mk, qCompress_node_raw]
    have elen : intToU 32 (Int.ofNat items.length) = items.length := by
      rw [intToU32_ofNat]; omega
    unfold IGen.qNode_compress
    simp (config := {iota := false}) only [elen]
    rw [loopM_intRange (f := fun w it => max w (Geo.numBytes it))]
    · have eib : List.foldl (fun w it => max w (Geo.numBytes it))
          (IGen.numBytes (aOps segAt segRect f64) items.length) items = ibOf items := by
        rw [numBytes_eq]; rfl
      have eapp : ∀ (d : Array Nat) (l : List Nat),
          (aOps segAt segRect f64).bytesAppend d l = d ++ l.toArray := fun _ _ => rfl
      simp (config := {iota := false}) only [eib, Option.bind_eq_bind, Option.bind_some, eapp,
        appendNum_eq]
      rw [loopM_intRange (f := fun d it => Geo.appendNum d it (ibOf items))]
      · have epush : ∀ (d : Array Nat) (x : Nat), d.push x = d ++ [x].toArray := by
          intro d x; simp
        simp (config := {iota := false}) only [Option.bind_some, epush]
        generalize List.foldl (fun d it => Geo.appendNum d it (ibOf items))
          (Geo.appendNum (dst ++ [ibOf items].toArray) items.length (ibOf items)) items = Hd
        cases split with
        | false => simp
        | true =>
          simp (config := {iota := false}) only [Bool.not_true, Bool.false_eq_true, if_false,
            mkSlot_absQ, List.nil_append, List.cons_append, List.getD_cons_zero, List.getD_cons_succ]
          generalize Hd ++ [1].toArray = H
          refine Eq.trans ?_ (chain_eq segAt segRect f64 q0 q1 q2 q3 ih0' ih1' ih2' ih3'
            (IGen.quadBounds (aOps segAt segRect f64) bounds 0)
            (IGen.quadBounds (aOps segAt segRect f64) bounds 1)
            (IGen.quadBounds (aOps segAt segRect f64) bounds 2)
            (IGen.quadBounds (aOps segAt segRect f64) bounds 3) H)
          cases h0 : q0.isNil <;> cases h1 : q1.isNil <;> cases h2 : q2.isNil <;> cases h3 : q3.isNil <;>
            simp only [gEmit, gSlotD, h0, h1, h2, h3, Bool.not_true, Bool.not_false, if_true, if_false,
              Bool.false_eq_true, Option.bind_eq_bind] <;> rfl
      · intro k h s
        simp only [listAt_ofNat _ _ h, Option.bind_some]
    · intro k h s
      simp only [listAt_ofNat _ _ h, Option.bind_eq_bind, Option.bind_some, numBytes_eq]
      by_cases hgt : Geo.numBytes items[k] > s
      · simp only [hgt, decide_true, if_true]
        congr 1
        omega
      · simp only [hgt, decide_false, Bool.false_eq_true, if_false]
        congr 1
        omega

/-- the hypothesis in the form used by the index theorems (`QNode.maxLen`, GeoProofs.Index.QTree) -/
theorem compress_eq_maxLen (n : IGen.QNode) (hlen : (absQ n).maxLen < 2 ^ 32) (hn : n ≠ .nil)
    (dst : Array Nat) (bounds : Rect F) :
    IGen.qNode_compress (aOps segAt segRect f64) n dst bounds = some (Geo.qCompress (absQ n) dst) :=
  compress_eq segAt segRect f64 n (smallLists_of_maxLen n hlen) hn dst bounds

/-! ## the hypothesis `SmallLists` is needed: the source and the model differ on longer lists -/

/-- the generated code on a leaf (no hypothesis on the length): the count is truncated to 32 bits -/
theorem compress_leaf_raw (items : List Nat) (dst : Array Nat) (bounds : Rect F) :
    IGen.qNode_compress (aOps segAt segRect f64) (.mk false items .nil .nil .nil .nil) dst bounds =
      some (items.foldl (fun d it => Geo.appendNum d it
          (items.foldl (fun w it => max w (Geo.numBytes it)) (Geo.numBytes (items.length % 4294967296))))
        (Geo.appendNum (dst ++ [items.foldl (fun w it => max w (Geo.numBytes it))
            (Geo.numBytes (items.length % 4294967296))].toArray) (items.length % 4294967296)
          (items.foldl (fun w it => max w (Geo.numBytes it)) (Geo.numBytes (items.length % 4294967296))))
        ++ [0].toArray) := by
  unfold IGen.qNode_compress
  simp (config := {iota := false}) only [intToU32_ofNat]
  rw [loopM_intRange (f := fun w it => max w (Geo.numBytes it))]
  · have eapp : ∀ (d : Array Nat) (l : List Nat),
        (aOps segAt segRect f64).bytesAppend d l = d ++ l.toArray := fun _ _ => rfl
    simp (config := {iota := false}) only [numBytes_eq, Option.bind_eq_bind, Option.bind_some, eapp,
      appendNum_eq]
    rw [loopM_intRange (f := fun d it => Geo.appendNum d it
      (items.foldl (fun w it => max w (Geo.numBytes it)) (Geo.numBytes (items.length % 4294967296))))]
    · simp
    · intro k h s
      simp only [listAt_ofNat _ _ h, Option.bind_some]
  · intro k h s
    simp only [listAt_ofNat _ _ h, Option.bind_eq_bind, Option.bind_some, numBytes_eq]
    by_cases hgt : Geo.numBytes items[k] > s
    · simp only [hgt, decide_true, if_true]
      congr 1
      omega
    · simp only [hgt, decide_false, Bool.false_eq_true, if_false]
      congr 1
      omega

theorem foldl_max_replicate (N w0 : Nat) (hw : 1 ≤ w0) :
    (List.replicate N 0).foldl (fun w it => max w (Geo.numBytes it)) w0 = w0 := by
  induction N with
  | zero => rfl
  | succ N ih =>
    rw [List.replicate_succ, List.foldl_cons]
    have e : max w0 (Geo.numBytes 0) = w0 := by
      have : Geo.numBytes 0 = 1 := rfl
      omega
    rw [e, ih]

theorem head_byte (dst : Array Nat) (ib : Nat) (hw : ib = 1 ∨ ib = 2 ∨ ib = 4) (n : Nat)
    (items : List Nat) :
    (items.foldl (fun d it => Geo.appendNum d it ib) (Geo.appendNum (dst ++ [ib].toArray) n ib)
      ++ [0].toArray)[dst.size]? = some ib := by
  rw [Geo.foldl_appendNum _ _ _ hw, Geo.appendNum_eq _ _ _ hw]
  simp

/-- `compress_eq` fails without `SmallLists`: on a leaf holding `N` items 0, where `N` does not fit
    32 bits and `N mod 2^32 ≤ 255` (e.g. `N = 2^32`), the Go code writes the width byte 1 (it sees
    the truncated count), the model writes 4. -/
theorem compress_differs (N : Nat) (h1 : N % 4294967296 ≤ 255) (h2 : 65535 < N)
    (dst : Array Nat) (bounds : Rect F) :
    IGen.qNode_compress (aOps segAt segRect f64) (.mk false (List.replicate N 0) .nil .nil .nil .nil)
        dst bounds ≠
      some (Geo.qCompress (absQ (.mk false (List.replicate N 0) .nil .nil .nil .nil)) dst) := by
  have n1 : Geo.numBytes (N % 4294967296) = 1 := by simp [Geo.numBytes, h1]
  have n4 : Geo.numBytes N = 4 := by
    unfold Geo.numBytes
    rw [if_neg (by omega), if_neg (by omega)]
  have i4 : ibOf (List.replicate N 0) = 4 := by
    unfold ibOf
    rw [List.length_replicate, n4, foldl_max_replicate N 4 (by omega)]
  rw [compress_leaf_raw, absQ_mk, qCompress_node_raw, List.length_replicate, n1,
    foldl_max_replicate N 1 (Nat.le_refl _), i4]
  simp only [Bool.not_false, if_true]
  intro h
  have h' := congrArg (fun o => o.bind (fun a => a[dst.size]?)) h
  have epush : ∀ (d : Array Nat) (x : Nat), d.push x = d ++ [x].toArray := by
    intro d x; simp
  simp only [Option.bind_some, epush] at h'
  rw [head_byte dst 1 (Or.inl rfl), head_byte dst 4 (Or.inr (Or.inr rfl))] at h'
  exact absurd h' (by decide)

theorem compress_differs_2pow32 (dst : Array Nat) (bounds : Rect F) :
    IGen.qNode_compress (aOps segAt segRect f64)
        (.mk false (List.replicate 4294967296 0) .nil .nil .nil .nil) dst bounds ≠
      some (Geo.qCompress (absQ (.mk false (List.replicate 4294967296 0) .nil .nil .nil .nil)) dst) :=
  compress_differs segAt segRect f64 4294967296 (by omega) (by omega) dst bounds

end Geo.IGlue

#print axioms Geo.IGlue.compress_differs_2pow32
#print axioms Geo.IGlue.compress_eq_maxLen
#print axioms Geo.IGlue.compress_eq
