/-
  Property C08 — options never change meaning (relational, on the AST model GeoModel.Json).

  * index options (`indexChildren`, `indexGeometry`, `indexKind`): same acceptance, same error,
    objects equal up to index bytes (`ObsEq`), hence same written text and same attributes;
  * representation options (`allowSimplePoints`, `allowRects`): same written text;
  * `requireValid` is a filter.
  Predicate answers (contains / intersects) of `ObsEq` objects need index-independence of the
  geometry layer (C04 / C01), proved elsewhere.
-/
import GeoProofs.ParseLemmas
namespace Geo

/-- two option sets that differ only in the index-related fields -/
def SameButIndex (o o' : POpts) : Prop :=
  o.requireValid = o'.requireValid ∧ o.allowSimplePoints = o'.allowSimplePoints ∧
  o.disableCircle = o'.disableCircle ∧ o.allowRects = o'.allowRects

/-- series equal except for their `index` field -/
def Series.EqUpToIndex (s t : Series) : Prop :=
  s.pts = t.pts ∧ s.closed = t.closed ∧ s.convex = t.convex ∧ s.clockwise = t.clockwise ∧ s.rect = t.rect

def Ring.ObsEq : Ring → Ring → Prop
  | .ser s, .ser t => s.EqUpToIndex t
  | .bx a, .bx b => a = b
  | _, _ => False

def Poly.ObsEq (p q : Poly) : Prop :=
  (match p.ext, q.ext with
   | none, none => True
   | some a, some b => a.ObsEq b
   | _, _ => False) ∧ Forall2 Ring.ObsEq p.holes q.holes

mutual
/-- observational equality of objects up to index bytes: same constructor, same
    positions / extras / children; series equal except for their `index` field; collections
    equal except for `indexed` -/
inductive ObsEq : Obj → Obj → Prop
  | point (pos : Pos) (ex : Option Extra) : ObsEq (.point pos ex) (.point pos ex)
  | spoint (pos : Pos) : ObsEq (.spoint pos) (.spoint pos)
  | lineString (l l' : Line) (poss : List Pos) (ex : Option Extra) (h : Series.EqUpToIndex l l') :
      ObsEq (.lineString l poss ex) (.lineString l' poss ex)
  | polygon (p p' : Poly) (rings : List (List Pos)) (ex : Option Extra) (h : p.ObsEq p') :
      ObsEq (.polygon p rings ex) (.polygon p' rings ex)
  | rectO (b : Box) (lo hi : Pos) : ObsEq (.rectO b lo hi) (.rectO b lo hi)
  | coll (kind : CollKind) (cs cs' : List Obj) (ex : Option Extra) (idx idx' : Bool)
      (h : ObsEqL cs cs') : ObsEq (.coll kind cs ex idx) (.coll kind cs' ex idx')
  | feature (b b' : Obj) (ex : Option Extra) (h : ObsEq b b') : ObsEq (.feature b ex) (.feature b' ex)
  | circle (c : Pos) (r : String) : ObsEq (.circle c r) (.circle c r)
inductive ObsEqL : List Obj → List Obj → Prop
  | nil : ObsEqL [] []
  | cons (c c' : Obj) (cs cs' : List Obj) (h : ObsEq c c') (hs : ObsEqL cs cs') :
      ObsEqL (c :: cs) (c' :: cs')
end

/-! ### attributes do not depend on the index -/

theorem Ring.ObsEq.attrs {a b : Ring} (h : a.ObsEq b) :
    a.empty = b.empty ∧ a.rect = b.rect ∧ a.valid = b.valid ∧ a.numPoints = b.numPoints := by
  cases a <;> cases b <;> simp only [Ring.ObsEq] at h
  · obtain ⟨h1, h2, _, _, h5⟩ := h
    simp only [Ring.empty, Ring.rect, Ring.valid, Ring.numPoints, Series.empty, Series.valid,
      Series.numPoints, h1, h2, h5, and_self]
  · subst h; exact ⟨rfl, rfl, rfl, rfl⟩

theorem forall2_ring_valid {l l' : List Ring} (h : Forall2 Ring.ObsEq l l') :
    l.all Ring.valid = l'.all Ring.valid ∧
    (l.map Ring.numPoints).sum = (l'.map Ring.numPoints).sum := by
  induction h with
  | nil => exact ⟨rfl, rfl⟩
  | cons hr _ ih =>
    simp only [List.all_cons, List.map_cons, List.sum_cons, hr.attrs.2.2.1, hr.attrs.2.2.2, ih.1, ih.2,
      and_self]

theorem Poly.ObsEq.attrs {p q : Poly} (h : p.ObsEq q) :
    p.empty = q.empty ∧ p.rect = q.rect ∧ p.valid = q.valid ∧
    (match p.ext with | none => 0 | some e => e.numPoints + (p.holes.map Ring.numPoints).sum) =
    (match q.ext with | none => 0 | some e => e.numPoints + (q.holes.map Ring.numPoints).sum) := by
  obtain ⟨h1, h2⟩ := h
  have hh := forall2_ring_valid h2
  cases hp : p.ext with
  | none =>
    cases hq : q.ext with
    | none => simp [Poly.empty, Poly.rect, Poly.valid, hp, hq]
    | some b => rw [hp, hq] at h1; cases h1
  | some a =>
    cases hq : q.ext with
    | none => rw [hp, hq] at h1; cases h1
    | some b =>
      rw [hp, hq] at h1
      have := Ring.ObsEq.attrs h1
      simp only [Poly.empty, Poly.rect, Poly.valid, hp, hq, this.1, this.2.1, this.2.2.1, this.2.2.2,
        hh.1, hh.2, and_self]

theorem ObsEqL.length_eq {cs cs' : List Obj} (h : ObsEqL cs cs') : cs.length = cs'.length := by
  induction cs generalizing cs' with
  | nil => cases h; rfl
  | cons c cs ih =>
    cases h with
    | cons _ c' _ cs'' _ hs => simp [ih hs]

mutual
theorem obsEq_empty : ∀ {x x' : Obj}, ObsEq x x' → x.empty = x'.empty
  | _, _, .point _ _ => rfl
  | _, _, .spoint _ => rfl
  | _, _, .lineString l l' _ _ h => by
    simp only [Obj.empty, Series.empty, h.1, h.2.1]
  | _, _, .polygon p p' _ _ h => by
    simp only [Obj.empty, h.attrs.1]
  | _, _, .rectO _ _ _ => rfl
  | _, _, .coll _ cs cs' _ _ _ h => by
    simp only [Obj.empty]
    exact obsEqL_allEmpty h
  | _, _, .feature b b' _ h => by
    simp only [Obj.empty]
    exact obsEq_empty h
  | _, _, .circle _ _ => rfl
theorem obsEqL_allEmpty : ∀ {cs cs' : List Obj}, ObsEqL cs cs' → Obj.allEmpty cs = Obj.allEmpty cs'
  | _, _, .nil => rfl
  | _, _, .cons c c' cs cs' h hs => by
    simp only [Obj.allEmpty, obsEq_empty h, obsEqL_allEmpty hs]
end

mutual
theorem obsEq_rect : ∀ {x x' : Obj}, ObsEq x x' → x.rect = x'.rect
  | _, _, .point _ _ => rfl
  | _, _, .spoint _ => rfl
  | _, _, .lineString l l' _ _ h => by
    simp only [Obj.rect, h.2.2.2.2]
  | _, _, .polygon p p' _ _ h => by
    simp only [Obj.rect, h.attrs.2.1]
  | _, _, .rectO _ _ _ => rfl
  | _, _, .coll _ cs cs' _ _ _ h => by
    simp only [Obj.rect, h.length_eq]
    rw [obsEqL_collRect h]
  | _, _, .feature b b' _ h => by
    simp only [Obj.rect]
    exact obsEq_rect h
  | _, _, .circle _ _ => rfl
theorem obsEqL_collRect : ∀ {cs cs' : List Obj}, ObsEqL cs cs' → ∀ (s : Bool) (acc : Option Box),
    Obj.collRect cs s acc = Obj.collRect cs' s acc
  | _, _, .nil, _, _ => rfl
  | _, _, .cons c c' cs cs' h hs, s, acc => by
    simp only [Obj.collRect, obsEq_empty h, obsEq_rect h]
    split
    · exact obsEqL_collRect hs s acc
    · split
      · exact obsEqL_collRect hs s _
      · exact obsEqL_collRect hs s _
end

mutual
theorem obsEq_valid : ∀ {x x' : Obj}, ObsEq x x' → x.valid = x'.valid
  | _, _, .point _ _ => rfl
  | _, _, .spoint _ => rfl
  | _, _, .lineString l l' _ _ h => by
    simp only [Obj.valid, Series.valid, h.1]
  | _, _, .polygon p p' _ _ h => by
    simp only [Obj.valid, h.attrs.2.2.1]
  | _, _, .rectO _ _ _ => rfl
  | _, _, .coll k cs cs' ex i i' h => by
    have hr : (Obj.coll k cs ex i).rect = (Obj.coll k cs' ex i').rect := obsEq_rect (.coll k cs cs' ex i i' h)
    cases k <;> simp only [Obj.valid, hr]
    · exact obsEqL_allValid h
    · exact obsEqL_allValid h
  | _, _, .feature b b' _ h => by
    simp only [Obj.valid]
    exact obsEq_valid h
  | _, _, .circle _ _ => rfl
theorem obsEqL_allValid : ∀ {cs cs' : List Obj}, ObsEqL cs cs' → Obj.allValid cs = Obj.allValid cs'
  | _, _, .nil => rfl
  | _, _, .cons c c' cs cs' h hs => by
    simp only [Obj.allValid, obsEq_valid h, obsEqL_allValid hs]
end

mutual
theorem obsEq_numPoints : ∀ {x x' : Obj}, ObsEq x x' → x.numPoints = x'.numPoints
  | _, _, .point _ _ => rfl
  | _, _, .spoint _ => rfl
  | _, _, .lineString l l' _ _ h => by
    simp only [Obj.numPoints, Series.numPoints, h.1]
  | _, _, .polygon p p' _ _ h => by
    simp only [Obj.numPoints]
    exact h.attrs.2.2.2
  | _, _, .rectO _ _ _ => rfl
  | _, _, .coll _ cs cs' _ _ _ h => by
    simp only [Obj.numPoints]
    exact obsEqL_sumPoints h
  | _, _, .feature b b' _ h => by
    simp only [Obj.numPoints]
    exact obsEq_numPoints h
  | _, _, .circle _ _ => rfl
theorem obsEqL_sumPoints : ∀ {cs cs' : List Obj}, ObsEqL cs cs' → Obj.sumPoints cs = Obj.sumPoints cs'
  | _, _, .nil => rfl
  | _, _, .cons c c' cs cs' h hs => by
    simp only [Obj.sumPoints, obsEq_numPoints h, obsEqL_sumPoints hs]
end

theorem obsEq_center {x x' : Obj} (h : ObsEq x x') : x.center = x'.center := by
  have hr := obsEq_rect h
  cases h <;> simp only [Obj.center] <;> rw [hr]

/-- rect / valid / empty / numPoints / center do not depend on the index bytes -/
theorem obsEq_attrs (x x' : Obj) (h : ObsEq x x') :
    x.empty = x'.empty ∧ x.rect = x'.rect ∧ x.valid = x'.valid ∧ x.numPoints = x'.numPoints ∧
      x.center = x'.center :=
  ⟨obsEq_empty h, obsEq_rect h, obsEq_valid h, obsEq_numPoints h, obsEq_center h⟩

end Geo

namespace Geo

/-! ### the written text does not depend on the index -/

theorem obsEq_writeCoords {x x' : Obj} (h : ObsEq x x') : writeCoords x = writeCoords x' := by
  cases h with
  | polygon p p' rings ex h => simp only [writeCoords, h.attrs.1]
  | lineString => simp only [writeCoords]
  | coll => simp only [writeCoords]
  | feature => simp only [writeCoords]
  | _ => rfl

theorem obsEqL_writeAllCoords : ∀ {cs cs' : List Obj}, ObsEqL cs cs' →
    writeAllCoords cs = writeAllCoords cs'
  | _, _, .nil => rfl
  | _, _, .cons c c' cs cs' h hs => by
    simp only [writeAllCoords, obsEq_writeCoords h, obsEqL_writeAllCoords hs]

mutual
theorem obsEq_write' : ∀ {x x' : Obj}, ObsEq x x' → write x = write x'
  | _, _, .point _ _ => rfl
  | _, _, .spoint _ => rfl
  | _, _, .lineString l l' _ _ h => by simp only [write]
  | _, _, .polygon p p' _ _ h => by simp only [write, h.attrs.1]
  | _, _, .rectO _ _ _ => rfl
  | _, _, .coll k cs cs' ex i i' h => by
    have h1 := obsEqL_writeAll h
    have h2 := obsEqL_writeAllCoords h
    cases k <;> simp only [write, h1, h2]
  | _, _, .feature b b' _ h => by
    simp only [write, obsEq_write' h]
  | _, _, .circle _ _ => rfl
theorem obsEqL_writeAll : ∀ {cs cs' : List Obj}, ObsEqL cs cs' → writeAll cs = writeAll cs'
  | _, _, .nil => rfl
  | _, _, .cons c c' cs cs' h hs => by
    simp only [writeAll, obsEq_write' h, obsEqL_writeAll hs]
end

theorem obsEq_write (x x' : Obj) (h : ObsEq x x') : write x = write x' := obsEq_write' h

end Geo

namespace Geo

theorem Ring.ObsEq.refl : ∀ (a : Ring), a.ObsEq a
  | .ser _ => ⟨rfl, rfl, rfl, rfl, rfl⟩
  | .bx _ => rfl

theorem forall2_refl {α : Type} {R : α → α → Prop} (h : ∀ a, R a a) : ∀ (l : List α), Forall2 R l l
  | [] => .nil
  | a :: l => .cons (h a) (forall2_refl h l)

theorem Poly.ObsEq.refl (p : Poly) : p.ObsEq p := by
  refine ⟨?_, forall2_refl Ring.ObsEq.refl _⟩
  cases p.ext with
  | none => trivial
  | some a => exact Ring.ObsEq.refl a

end Geo

namespace Geo

/-! ### index options change nothing observable -/

mutual
theorem obsEq_refl : ∀ (x : Obj), ObsEq x x
  | .point _ _ => .point _ _
  | .spoint _ => .spoint _
  | .lineString _ _ _ => .lineString _ _ _ _ ⟨rfl, rfl, rfl, rfl, rfl⟩
  | .polygon p _ _ => .polygon _ _ _ _ (Poly.ObsEq.refl p)
  | .rectO _ _ _ => .rectO _ _ _
  | .coll _ cs _ _ => .coll _ _ _ _ _ _ (obsEqL_refl cs)
  | .feature b _ => .feature _ _ _ (obsEq_refl b)
  | .circle _ _ => .circle _ _
theorem obsEqL_refl : ∀ (cs : List Obj), ObsEqL cs cs
  | [] => .nil
  | c :: cs => .cons _ _ _ _ (obsEq_refl c) (obsEqL_refl cs)
end

end Geo

namespace Geo

/-- two results agree: the same error, or objects equal up to index bytes -/
def ResEq : Except PErr Obj → Except PErr Obj → Prop
  | .ok x, .ok x' => ObsEq x x'
  | .error e, .error e' => e = e'
  | _, _ => False

def ResEqL : Except PErr (List Obj) → Except PErr (List Obj) → Prop
  | .ok xs, .ok xs' => ObsEqL xs xs'
  | .error e, .error e' => e = e'
  | _, _ => False

theorem ResEq.of_eq {r r' : Except PErr Obj} (h : r = r') : ResEq r r' := by
  subst h
  cases r with
  | error e => exact rfl
  | ok x => exact obsEq_refl x

theorem mapM_resEq {f g : JVal → Except PErr Obj} : ∀ (l : List JVal),
    (∀ x ∈ l, ResEq (f x) (g x)) → ResEqL (l.mapM f) (l.mapM g)
  | [], _ => by rw [mapM_except_nil, mapM_except_nil]; exact .nil
  | x :: xs, h => by
    rw [mapM_except_cons, mapM_except_cons]
    have hx := h x List.mem_cons_self
    have hxs := mapM_resEq xs (fun z hz => h z (List.mem_cons_of_mem _ hz))
    cases hf : f x with
    | error e =>
      cases hg : g x with
      | error e' => rw [hf, hg] at hx; exact hx
      | ok y' => rw [hf, hg] at hx; exact hx.elim
    | ok y =>
      cases hg : g x with
      | error e' => rw [hf, hg] at hx; exact hx.elim
      | ok y' =>
        rw [hf, hg] at hx
        cases hfs : xs.mapM f with
        | error e =>
          cases hgs : xs.mapM g with
          | error e' => rw [hfs, hgs] at hxs; exact hxs
          | ok ys' => rw [hfs, hgs] at hxs; exact hxs.elim
        | ok ys =>
          cases hgs : xs.mapM g with
          | error e' => rw [hfs, hgs] at hxs; exact hxs.elim
          | ok ys' =>
            rw [hfs, hgs] at hxs
            exact .cons _ _ _ _ hx hxs

theorem mkSeries_eqUpToIndex (pts : Array Pt) (closed : Bool) (k k' : IndexKind) (m m' : Nat) :
    Series.EqUpToIndex (mkSeries pts closed k m) (mkSeries pts closed k' m') :=
  ⟨rfl, rfl, rfl, rfl, rfl⟩

theorem mkPoly_obsEq (o o' : POpts) (rings : List (List Pos)) : (mkPoly o rings).ObsEq (mkPoly o' rings) := by
  unfold mkPoly
  cases rings with
  | nil => exact ⟨trivial, .nil⟩
  | cons e hs =>
    refine ⟨mkSeries_eqUpToIndex _ _ _ _ _ _, ?_⟩
    simp only
    induction hs with
    | nil => exact .nil
    | cons h hs ih => exact .cons (mkSeries_eqUpToIndex _ _ _ _ _ _) ih

theorem polyObj_obsEq {o o' : POpts} (h : SameButIndex o o') (rings : List (List Pos)) (ex : Option Extra) :
    ObsEq (polyObj o rings ex) (polyObj o' rings ex) := by
  unfold polyObj
  rw [h.2.2.2]
  split
  · split
    · split
      · exact .rectO _ _ _
      · exact .polygon _ _ _ _ (mkPoly_obsEq o o' _)
    · exact .polygon _ _ _ _ (mkPoly_obsEq o o' _)
  · exact .polygon _ _ _ _ (mkPoly_obsEq o o' _)

theorem mkColl_obsEq (o o' : POpts) (kind : CollKind) {cs cs' : List Obj} (ex : Option Extra)
    (h : ObsEqL cs cs') : ObsEq (mkColl o kind cs ex) (mkColl o' kind cs' ex) :=
  .coll _ _ _ _ _ _ h

theorem pointCase_index {o o' : POpts} (h : SameButIndex o o') (k : Keys) :
    pointCase o k = pointCase o' k := by
  unfold pointCase
  rw [h.1, h.2.1]

theorem lineCase_index {o o' : POpts} (h : SameButIndex o o') (k : Keys) :
    ResEq (lineCase o k) (lineCase o' k) := by
  unfold lineCase
  split
  · exact rfl
  · split
    · exact rfl
    · rename_i ps ex _
      split
      · exact rfl
      · have hob : ObsEq (.lineString (mkLine o ps) ps (withMembers ex k))
            (.lineString (mkLine o' ps) ps (withMembers ex k)) :=
          .lineString _ _ _ _ (mkSeries_eqUpToIndex _ _ _ _ _ _)
        simp only [← h.1, obsEq_valid hob]
        split
        · exact rfl
        · exact hob

theorem polyCase_index {o o' : POpts} (h : SameButIndex o o') (k : Keys) :
    ResEq (polyCase o k) (polyCase o' k) := by
  unfold polyCase
  split
  · exact rfl
  · split
    · exact rfl
    · rename_i rings ex _
      split
      · exact rfl
      · have hob := polyObj_obsEq h rings (withMembers ex k)
        simp only [← h.1, obsEq_valid hob]
        split
        · exact rfl
        · exact hob

theorem multiPointCase_index {o o' : POpts} (h : SameButIndex o o') (k : Keys) :
    ResEq (multiPointCase o k) (multiPointCase o' k) := by
  unfold multiPointCase
  split
  · exact rfl
  · split
    · exact rfl
    · simp only [← h.1]
      split
      · exact rfl
      · exact mkColl_obsEq o o' _ _ (obsEqL_refl _)

theorem lineChild_index (o o' : POpts) (v : JVal) : ResEq (lineChild o v) (lineChild o' v) := by
  rw [lineChild_eq, lineChild_eq]
  split
  · exact rfl
  · split
    · exact rfl
    · exact .lineString _ _ _ _ (mkSeries_eqUpToIndex _ _ _ _ _ _)

theorem polyChild_index (o o' : POpts) (v : JVal) : ResEq (polyChild o v) (polyChild o' v) := by
  rw [polyChild_eq, polyChild_eq]
  split
  · exact rfl
  · split
    · exact rfl
    · exact .polygon _ _ _ _ (mkPoly_obsEq o o' _)

theorem multiLineCase_index {o o' : POpts} (h : SameButIndex o o') (k : Keys) :
    ResEq (multiLineCase o k) (multiLineCase o' k) := by
  unfold multiLineCase
  split
  · exact rfl
  · rename_i rc _
    have hm := mapM_resEq (f := lineChild o) (g := lineChild o') rc.elems (fun x _ => lineChild_index o o' x)
    cases h1 : rc.elems.mapM (lineChild o) with
    | error e =>
      cases h2 : rc.elems.mapM (lineChild o') with
      | error e' => rw [h1, h2] at hm; exact hm
      | ok cs' => rw [h1, h2] at hm; exact hm.elim
    | ok cs =>
      cases h2 : rc.elems.mapM (lineChild o') with
      | error e' => rw [h1, h2] at hm; exact hm.elim
      | ok cs' =>
        rw [h1, h2] at hm
        have hob := mkColl_obsEq o o' .multiLineString (withMembers none k) hm
        simp only [← h.1, obsEq_valid hob]
        split
        · exact rfl
        · exact hob

theorem multiPolyCase_index {o o' : POpts} (h : SameButIndex o o') (k : Keys) :
    ResEq (multiPolyCase o k) (multiPolyCase o' k) := by
  unfold multiPolyCase
  split
  · exact rfl
  · rename_i rc _
    have hm := mapM_resEq (f := polyChild o) (g := polyChild o') rc.elems (fun x _ => polyChild_index o o' x)
    cases h1 : rc.elems.mapM (polyChild o) with
    | error e =>
      cases h2 : rc.elems.mapM (polyChild o') with
      | error e' => rw [h1, h2] at hm; exact hm
      | ok cs' => rw [h1, h2] at hm; exact hm.elim
    | ok cs =>
      cases h2 : rc.elems.mapM (polyChild o') with
      | error e' => rw [h1, h2] at hm; exact hm.elim
      | ok cs' =>
        rw [h1, h2] at hm
        have hob := mkColl_obsEq o o' .multiPolygon (withMembers none k) hm
        simp only [← h.1, obsEq_valid hob]
        split
        · exact rfl
        · exact hob

theorem obsEq_centreOf {b b' : Obj} (h : ObsEq b b') : centreOf b = centreOf b' := by
  cases h <;> rfl

theorem featureObj_index {o o' : POpts} (h : SameButIndex o o') (k : Keys) {b b' : Obj}
    (hb : ObsEq b b') : ResEq (featureObj o k b) (featureObj o' k b') := by
  unfold featureObj
  rw [← obsEq_centreOf hb, ← h.2.2.1]
  split
  · split
    · split
      · exact rfl
      · split
        · exact .circle _ _
        · split
          · exact .circle _ _
          · exact rfl
    · exact .feature _ _ _ hb
  · exact .feature _ _ _ hb

theorem collCase_index {o o' : POpts} (kind : CollKind) (ex : Option Extra) (a b : PErr)
    (v : Option JVal) {pl pl' : List JVal → Except PErr (List Obj)}
    (hpl : ∀ items, ResEqL (pl items) (pl' items)) :
    ResEq
      (match reqArray v a b with
        | .error e => .error e
        | .ok (.arr items) =>
          match pl items with
          | .error e => .error e
          | .ok children => .ok (mkColl o kind children ex)
        | .ok _ => .error b)
      (match reqArray v a b with
        | .error e => .error e
        | .ok (.arr items) =>
          match pl' items with
          | .error e => .error e
          | .ok children => .ok (mkColl o' kind children ex)
        | .ok _ => .error b) := by
  split
  · exact rfl
  · rename_i items _
    have := hpl items
    cases h1 : pl items with
    | error e =>
      cases h2 : pl' items with
      | error e' => rw [h1, h2] at this; exact this
      | ok cs' => rw [h1, h2] at this; exact this.elim
    | ok cs =>
      cases h2 : pl' items with
      | error e' => rw [h1, h2] at this; exact this.elim
      | ok cs' =>
        rw [h1, h2] at this
        exact mkColl_obsEq o o' kind ex this
  · exact rfl

theorem index_opts_resEq {o o' : POpts} (h : SameButIndex o o') :
    ∀ (n : Nat) (v : JVal), ResEq (parse o n v) (parse o' n v)
  | 0, v => by rw [parse_zero, parse_zero]; exact rfl
  | n+1, v => by
    cases v with
    | obj ms =>
      rw [parse_succ_obj, parse_succ_obj]
      have hL : ∀ items, ResEqL (parseList o n items) (parseList o' n items) := by
        intro items
        rw [parseList_eq_mapM, parseList_eq_mapM]
        exact mapM_resEq items (fun x _ => index_opts_resEq h n x)
      split
      · exact rfl
      · rename_i r ty _
        unfold parseTyped
        split
        · exact .of_eq (pointCase_index h _)
        · exact lineCase_index h _
        · exact polyCase_index h _
        · exact multiPointCase_index h _
        · exact multiLineCase_index h _
        · exact multiPolyCase_index h _
        · exact collCase_index _ _ _ _ _ hL
        · exact collCase_index _ _ _ _ _ hL
        · unfold featureCase
          split
          · exact rfl
          · rename_i g _
            have := index_opts_resEq h n g
            cases h1 : parse o n g with
            | error e =>
              cases h2 : parse o' n g with
              | error e' => rw [h1, h2] at this; exact this
              | ok b' => rw [h1, h2] at this; exact this.elim
            | ok b =>
              cases h2 : parse o' n g with
              | error e' => rw [h1, h2] at this; exact this.elim
              | ok b' =>
                rw [h1, h2] at this
                exact featureObj_index h _ this
        · exact rfl
      · exact rfl
    | null => rw [parse_succ_nonobj o n _ (by intro ms h; cases h), parse_succ_nonobj o' n _ (by intro ms h; cases h)]; exact rfl
    | tru => rw [parse_succ_nonobj o n _ (by intro ms h; cases h), parse_succ_nonobj o' n _ (by intro ms h; cases h)]; exact rfl
    | fls => rw [parse_succ_nonobj o n _ (by intro ms h; cases h), parse_succ_nonobj o' n _ (by intro ms h; cases h)]; exact rfl
    | num => rw [parse_succ_nonobj o n _ (by intro ms h; cases h), parse_succ_nonobj o' n _ (by intro ms h; cases h)]; exact rfl
    | str => rw [parse_succ_nonobj o n _ (by intro ms h; cases h), parse_succ_nonobj o' n _ (by intro ms h; cases h)]; exact rfl
    | arr => rw [parse_succ_nonobj o n _ (by intro ms h; cases h), parse_succ_nonobj o' n _ (by intro ms h; cases h)]; exact rfl

/-- index options never change acceptance … -/
theorem index_opts_accept_same (o o' : POpts) (h : SameButIndex o o') (n : Nat) (v : JVal) :
    (∃ x, parse o n v = .ok x) ↔ (∃ x', parse o' n v = .ok x') := by
  have := index_opts_resEq h n v
  cases h1 : parse o n v with
  | error e =>
    cases h2 : parse o' n v with
    | error e' => constructor <;> (rintro ⟨x, hx⟩; cases hx)
    | ok b' => rw [h1, h2] at this; exact this.elim
  | ok b =>
    cases h2 : parse o' n v with
    | error e' => rw [h1, h2] at this; exact this.elim
    | ok b' => exact ⟨fun _ => ⟨_, rfl⟩, fun _ => ⟨_, rfl⟩⟩

/-- … nor the error -/
theorem index_opts_error_same (o o' : POpts) (h : SameButIndex o o') (n : Nat) (v : JVal) (e : PErr) :
    parse o n v = .error e ↔ parse o' n v = .error e := by
  have := index_opts_resEq h n v
  cases h1 : parse o n v with
  | error e1 =>
    cases h2 : parse o' n v with
    | error e2 =>
      rw [h1, h2] at this
      have : e1 = e2 := this
      subst this
      exact Iff.rfl
    | ok b' => rw [h1, h2] at this; exact this.elim
  | ok b =>
    cases h2 : parse o' n v with
    | error e' => rw [h1, h2] at this; exact this.elim
    | ok b' => constructor <;> (intro hx; cases hx)

/-- … and the objects are equal up to index bytes -/
theorem index_opts_obsEq (o o' : POpts) (h : SameButIndex o o') (n : Nat) (v : JVal) (x x' : Obj)
    (hx : parse o n v = .ok x) (hx' : parse o' n v = .ok x') : ObsEq x x' := by
  have := index_opts_resEq h n v
  rw [hx, hx'] at this
  exact this

end Geo

namespace Geo

/-! ### representation options change only the constructor -/

/-- same written text, same Circle centre -/
def WEq (x x' : Obj) : Prop := write x = write x' ∧ centreOf x = centreOf x'

theorem Forall2.zip {α β γ : Type} {P : α → β → Prop} {Q : α → γ → Prop} {R : β → γ → Prop}
    {l : List α} {ys : List β} {zs : List γ} (hp : Forall2 P l ys) (hq : Forall2 Q l zs)
    (h : ∀ x y z, x ∈ l → P x y → Q x z → R y z) : Forall2 R ys zs := by
  induction hp generalizing zs with
  | nil => cases hq; exact .nil
  | cons hr _ ih =>
    cases hq with
    | cons hr' hq' =>
      exact .cons (h _ _ _ List.mem_cons_self hr hr')
        (ih hq' (fun x y z hx => h x y z (List.mem_cons_of_mem _ hx)))

theorem writeAll_congr {cs cs' : List Obj} (h : Forall2 (fun y y' => write y = write y') cs cs') :
    writeAll cs = writeAll cs' := by
  induction h with
  | nil => rfl
  | cons hr _ ih => simp only [writeAll, hr, ih]

theorem mkColl_WEq {o o' : POpts} {kind : CollKind} (hk : kind = .geometryCollection ∨ kind = .featureCollection)
    {cs cs' : List Obj} (ex : Option Extra) (h : Forall2 (fun y y' => write y = write y') cs cs') :
    WEq (mkColl o kind cs ex) (mkColl o' kind cs' ex) := by
  refine ⟨?_, rfl⟩
  have := writeAll_congr h
  rcases hk with rfl | rfl <;> simp only [mkColl, write, this]

theorem featureObj_WEq {o o' : POpts} (hd : o.disableCircle = o'.disableCircle) (k : Keys) {b b' x x' : Obj}
    (hb : WEq b b') (hx : featureObj o k b = .ok x) (hx' : featureObj o' k b' = .ok x') : WEq x x' := by
  rw [featureObj_eq] at hx hx'
  rw [← hb.2, ← circleDecision_congr hd] at hx'
  have hfeat : WEq (.feature b (withMembers none k)) (.feature b' (withMembers none k)) :=
    ⟨by simp only [write, hb.1], rfl⟩
  cases hc : centreOf b with
  | none =>
    rw [hc] at hx hx'
    cases hx; cases hx'; exact hfeat
  | some c =>
    cases hw : withMembers none k with
    | none =>
      rw [hc, hw] at hx hx'
      cases hx; cases hx'; rw [hw] at hfeat; exact hfeat
    | some e =>
      cases hdec : circleDecision o k with
      | none =>
        rw [hc, hw, hdec] at hx hx'
        cases hx; cases hx'; rw [hw] at hfeat; exact hfeat
      | some d =>
        cases d with
        | error e => rw [hc, hw, hdec] at hx; cases hx
        | ok r =>
          rw [hc, hw, hdec] at hx hx'
          cases hx; cases hx'; exact ⟨rfl, rfl⟩

theorem pointCase_simple_WEq (o : POpts) (k : Keys) {x x' : Obj}
    (hx : pointCase { o with allowSimplePoints := true } k = .ok x)
    (hx' : pointCase { o with allowSimplePoints := false } k = .ok x') : WEq x x' := by
  unfold pointCase at hx hx'
  cases hc : k.coordinates with
  | none => rw [hc] at hx; cases hx
  | some rc =>
    rw [hc] at hx hx'
    simp only at hx hx'
    cases ha : rc.isArray with
    | false => rw [ha] at hx; cases hx
    | true =>
      rw [ha] at hx hx'
      simp only [Bool.not_true, Bool.false_eq_true, if_false] at hx hx'
      cases hp : parsePointCoords rc with
      | error e => rw [hp] at hx; cases hx
      | ok r =>
        obtain ⟨pos, ex⟩ := r
        rw [hp] at hx hx'
        simp only [Bool.and_true, Bool.and_false, Bool.false_eq_true, if_false] at hx hx'
        split at hx' <;> cases hx'
        cases hi : (withMembers ex k).isNone with
        | false =>
          rw [hi] at hx
          simp only [Bool.false_eq_true, if_false] at hx
          split at hx <;> cases hx
          exact ⟨rfl, rfl⟩
        | true =>
          rw [hi] at hx
          simp only [if_true] at hx
          split at hx <;> cases hx
          rw [Option.isNone_iff_eq_none] at hi
          rw [hi]
          refine ⟨?_, rfl⟩
          simp only [write, writeExtra, Bool.false_eq_true, if_false, String.append_empty]

/-- the statement carried through the recursion -/
theorem allowSimplePoints_WEq (o : POpts) : ∀ (n : Nat) (v : JVal) (x x' : Obj),
    parse { o with allowSimplePoints := true } n v = .ok x →
    parse { o with allowSimplePoints := false } n v = .ok x' → WEq x x'
  | n, v, x, x', hx, hx' => by
    obtain ⟨m, ms, rfl, rfl⟩ := parse_ok_isObj hx
    obtain ⟨r, ty, hty, h1⟩ := parse_obj_ok hx
    obtain ⟨r', ty', hty', h2⟩ := parse_obj_ok hx'
    rw [hty] at hty'
    cases hty'
    have hL : ∀ items cs cs', parseList { o with allowSimplePoints := true } m items = .ok cs →
        parseList { o with allowSimplePoints := false } m items = .ok cs' →
        Forall2 (fun y y' => write y = write y') cs cs' := by
      intro items cs cs' h1 h2
      exact (parseList_ok _ m items cs h1).zip (parseList_ok _ m items cs' h2)
        (fun a y z _ hy hz => (allowSimplePoints_WEq o m a y z hy hz).1)
    revert h1 h2
    refine parseTyped_elim₂ (motive := fun _ a b => a = .ok x → b = .ok x' → WEq x x') _ _ _ _ _ _ _ ty
      ?_ ?_ ?_ ?_ ?_ ?_ ?_ ?_ ?_ ?_
    · exact pointCase_simple_WEq o _
    · intro h1 h2
      have : lineCase { o with allowSimplePoints := true } (scanKeys ms) =
          lineCase { o with allowSimplePoints := false } (scanKeys ms) := rfl
      rw [this, h2] at h1; cases h1; exact ⟨rfl, rfl⟩
    · intro h1 h2
      have : polyCase { o with allowSimplePoints := true } (scanKeys ms) =
          polyCase { o with allowSimplePoints := false } (scanKeys ms) := rfl
      rw [this, h2] at h1; cases h1; exact ⟨rfl, rfl⟩
    · intro h1 h2
      have : multiPointCase { o with allowSimplePoints := true } (scanKeys ms) =
          multiPointCase { o with allowSimplePoints := false } (scanKeys ms) := rfl
      rw [this, h2] at h1; cases h1; exact ⟨rfl, rfl⟩
    · intro h1 h2
      have : multiLineCase { o with allowSimplePoints := true } (scanKeys ms) =
          multiLineCase { o with allowSimplePoints := false } (scanKeys ms) := rfl
      rw [this, h2] at h1; cases h1; exact ⟨rfl, rfl⟩
    · intro h1 h2
      have : multiPolyCase { o with allowSimplePoints := true } (scanKeys ms) =
          multiPolyCase { o with allowSimplePoints := false } (scanKeys ms) := rfl
      rw [this, h2] at h1; cases h1; exact ⟨rfl, rfl⟩
    · intro h1 h2
      obtain ⟨items, cs, hg, hcs, rfl⟩ := geomCollCase_ok h1
      obtain ⟨items', cs', hg', hcs', rfl⟩ := geomCollCase_ok h2
      rw [hg] at hg'; cases hg'
      exact mkColl_WEq (.inl rfl) _ (hL items cs cs' hcs hcs')
    · intro h1 h2
      obtain ⟨items, cs, hg, hcs, rfl⟩ := featCollCase_ok h1
      obtain ⟨items', cs', hg', hcs', rfl⟩ := featCollCase_ok h2
      rw [hg] at hg'; cases hg'
      exact mkColl_WEq (.inr rfl) _ (hL items cs cs' hcs hcs')
    · intro h1 h2
      obtain ⟨g, b, hg, hb, hf⟩ := featureCase_ok h1
      obtain ⟨g', b', hg', hb', hf'⟩ := featureCase_ok h2
      rw [hg] at hg'; cases hg'
      exact featureObj_WEq rfl _ (allowSimplePoints_WEq o m g b b' hb hb') hf hf'
    · intro _ h; cases h
termination_by n => n

/-- AllowSimplePoints changes only the constructor: the written text is the same -/
theorem allowSimplePoints_write (o : POpts) (n : Nat) (v : JVal) (x x' : Obj)
    (hx : parse { o with allowSimplePoints := true } n v = .ok x)
    (hx' : parse { o with allowSimplePoints := false } n v = .ok x') : write x = write x' :=
  (allowSimplePoints_WEq o n v x x' hx hx').1

end Geo

namespace Geo

/-! ### require-valid is a filter -/

mutual
/-- the object and every nested object is valid: children of collections, base of features;
    a Circle: its centre is finite and in range -/
def validDeep : Obj → Bool
  | .point pos ex => (Obj.point pos ex).valid
  | .spoint pos => (Obj.spoint pos).valid
  | .lineString l ps ex => (Obj.lineString l ps ex).valid
  | .polygon p rings ex => (Obj.polygon p rings ex).valid
  | .rectO b lo hi => (Obj.rectO b lo hi).valid
  | .coll _ cs _ _ => allValidDeep cs
  | .feature b _ => validDeep b
  | .circle c _ => c.fin && c.p.valid
def allValidDeep : List Obj → Bool
  | [] => true
  | c :: cs => validDeep c && allValidDeep cs
end

theorem validDeep_leaf {x : Obj} (h : isGeomLeaf x = true) : validDeep x = x.valid := by
  cases x <;> first | rfl | cases h

theorem allValid_eq_all : ∀ (cs : List Obj), Obj.allValid cs = cs.all Obj.valid
  | [] => rfl
  | c :: cs => by simp only [Obj.allValid, List.all_cons, allValid_eq_all cs]

theorem allValidDeep_leaf : ∀ (cs : List Obj), cs.all isGeomLeaf = true → allValidDeep cs = cs.all Obj.valid
  | [], _ => rfl
  | c :: cs, h => by
    simp only [List.all_cons, Bool.and_eq_true] at h
    simp only [allValidDeep, List.all_cons, validDeep_leaf h.1, allValidDeep_leaf cs h.2]

/-- `r'` is `r` filtered by `validDeep` -/
def Filtered (r r' : Except PErr Obj) : Prop :=
  match r with
  | .ok x => if validDeep x = true then r' = .ok x else ∃ e, r' = .error e
  | .error _ => ∃ e, r' = .error e

theorem filtered_check' (ob : Obj) (e : PErr) (b : Bool) (h : validDeep ob = b) :
    Filtered (.ok ob) (if (true && !b) = true then .error e else .ok ob) := by
  unfold Filtered
  simp only [h, Bool.true_and]
  cases b with
  | true => simp
  | false => simp

theorem filtered_check (ob : Obj) (e : PErr) (h : validDeep ob = ob.valid) :
    Filtered (.ok ob) (if (true && !ob.valid) = true then .error e else .ok ob) :=
  filtered_check' ob e _ h

theorem pointCase_filter (o : POpts) (ho : o.requireValid = false) (k : Keys) :
    Filtered (pointCase o k) (pointCase { o with requireValid := true } k) := by
  unfold pointCase
  cases hc : k.coordinates with
  | none => exact ⟨_, rfl⟩
  | some rc =>
    simp only
    cases ha : rc.isArray with
    | false => exact ⟨_, rfl⟩
    | true =>
      simp only [Bool.not_true, Bool.false_eq_true, if_false]
      cases hp : parsePointCoords rc with
      | error e => exact ⟨_, rfl⟩
      | ok r =>
        obtain ⟨pos, ex⟩ := r
        simp only [ho, Bool.false_and, Bool.false_eq_true, if_false]
        apply filtered_check
        split <;> rfl

theorem lineCase_filter (o : POpts) (ho : o.requireValid = false) (k : Keys) :
    Filtered (lineCase o k) (lineCase { o with requireValid := true } k) := by
  unfold lineCase
  cases hr : reqArray k.coordinates .coordsMissing .coordsInvalid with
  | error e => exact ⟨_, rfl⟩
  | ok rc =>
    simp only
    cases hp : parseLineCoords rc with
    | error e => exact ⟨_, rfl⟩
    | ok r =>
      obtain ⟨ps, ex⟩ := r
      simp only
      by_cases hl : ps.length < 2
      · simp only [if_pos hl]; exact ⟨_, rfl⟩
      · simp only [if_neg hl, ho, Bool.false_and, Bool.false_eq_true, if_false]
        exact filtered_check _ _ rfl

theorem polyObj_leaf (o : POpts) (rings : List (List Pos)) (ex : Option Extra) :
    isGeomLeaf (polyObj o rings ex) = true := by
  rcases polyObj_cases o rings ex with h | ⟨_, _, _, _, _, _, _, _, _, h⟩ <;> rw [h] <;> rfl

theorem polyCase_filter (o : POpts) (ho : o.requireValid = false) (k : Keys) :
    Filtered (polyCase o k) (polyCase { o with requireValid := true } k) := by
  unfold polyCase
  cases hr : reqArray k.coordinates .coordsMissing .coordsInvalid with
  | error e => exact ⟨_, rfl⟩
  | ok rc =>
    simp only
    cases hp : parsePolyCoords rc with
    | error e => exact ⟨_, rfl⟩
    | ok r =>
      obtain ⟨rings, ex⟩ := r
      simp only
      by_cases hl : (rings.isEmpty || !(rings.all ringOK)) = true
      · simp only [if_pos hl]; exact ⟨_, rfl⟩
      · simp only [if_neg hl, ho, Bool.false_and, Bool.false_eq_true, if_false]
        exact filtered_check (polyObj o rings (withMembers ex k)) _ (validDeep_leaf (polyObj_leaf _ _ _))

theorem multiPointCase_filter (o : POpts) (ho : o.requireValid = false) (k : Keys) :
    Filtered (multiPointCase o k) (multiPointCase { o with requireValid := true } k) := by
  unfold multiPointCase
  cases hr : reqArray k.coordinates .coordsMissing .coordsInvalid with
  | error e => exact ⟨_, rfl⟩
  | ok rc =>
    simp only
    cases hp : rc.elems.mapM (fun v => parsePointCoords v) with
    | error e => exact ⟨_, rfl⟩
    | ok cs =>
      simp only [ho, Bool.false_and, Bool.false_eq_true, if_false]
      refine filtered_check' (mkColl o .multiPoint (cs.map (fun c => Obj.point c.1 c.2)) (withMembers none k)) _ _ ?_
      simp only [mkColl, validDeep]
      apply allValidDeep_leaf
      simp [isGeomLeaf]

theorem multiLineCase_filter (o : POpts) (ho : o.requireValid = false) (k : Keys) :
    Filtered (multiLineCase o k) (multiLineCase { o with requireValid := true } k) := by
  unfold multiLineCase
  cases hr : reqArray k.coordinates .coordsMissing .coordsInvalid with
  | error e => exact ⟨_, rfl⟩
  | ok rc =>
    simp only
    have : lineChild { o with requireValid := true } = lineChild o := rfl
    rw [this]
    cases hp : rc.elems.mapM (lineChild o) with
    | error e => exact ⟨_, rfl⟩
    | ok cs =>
      simp only [ho, Bool.false_and, Bool.false_eq_true, if_false]
      refine filtered_check (mkColl o .multiLineString cs (withMembers none k)) _ ?_
      have hleaf : cs.all isGeomLeaf = true := by
        rw [List.all_eq_true]
        exact (mapM_except_ok _ _ _ hp).right (fun x y _ hxy => lineChild_leaf hxy)
      simp only [mkColl, validDeep, Obj.valid, allValidDeep_leaf cs hleaf, allValid_eq_all]

theorem multiPolyCase_filter (o : POpts) (ho : o.requireValid = false) (k : Keys) :
    Filtered (multiPolyCase o k) (multiPolyCase { o with requireValid := true } k) := by
  unfold multiPolyCase
  cases hr : reqArray k.coordinates .coordsMissing .coordsInvalid with
  | error e => exact ⟨_, rfl⟩
  | ok rc =>
    simp only
    have : polyChild { o with requireValid := true } = polyChild o := rfl
    rw [this]
    cases hp : rc.elems.mapM (polyChild o) with
    | error e => exact ⟨_, rfl⟩
    | ok cs =>
      simp only [ho, Bool.false_and, Bool.false_eq_true, if_false]
      refine filtered_check (mkColl o .multiPolygon cs (withMembers none k)) _ ?_
      have hleaf : cs.all isGeomLeaf = true := by
        rw [List.all_eq_true]
        exact (mapM_except_ok _ _ _ hp).right (fun x y _ hxy => polyChild_leaf hxy)
      simp only [mkColl, validDeep, Obj.valid, allValidDeep_leaf cs hleaf, allValid_eq_all]

def FilteredL (r r' : Except PErr (List Obj)) : Prop :=
  match r with
  | .ok xs => if allValidDeep xs = true then r' = .ok xs else ∃ e, r' = .error e
  | .error _ => ∃ e, r' = .error e

theorem parseList_filter (o o' : POpts) (n : Nat) : ∀ (items : List JVal),
    (∀ x ∈ items, Filtered (parse o n x) (parse o' n x)) →
      FilteredL (parseList o n items) (parseList o' n items)
  | [], _ => by
    rw [parseList_nil, parseList_nil]
    simp [FilteredL, allValidDeep]
  | x :: xs, h => by
    have hx := h x List.mem_cons_self
    have hxs := parseList_filter o o' n xs (fun z hz => h z (List.mem_cons_of_mem _ hz))
    rw [parseList_cons, parseList_cons]
    cases h1 : parse o n x with
    | error e =>
      rw [h1] at hx
      obtain ⟨e', he'⟩ := hx
      rw [he']
      exact ⟨_, rfl⟩
    | ok y =>
      rw [h1] at hx
      simp only [Filtered] at hx
      cases hv : validDeep y with
      | false =>
        rw [hv] at hx
        simp only [Bool.false_eq_true, if_false] at hx
        obtain ⟨e', he'⟩ := hx
        rw [he']
        cases parseList o n xs with
        | error e => exact ⟨_, rfl⟩
        | ok ys => simp [FilteredL, allValidDeep, hv]
      | true =>
        rw [hv] at hx
        simp only [if_true] at hx
        rw [hx]
        cases h2 : parseList o n xs with
        | error e =>
          rw [h2] at hxs
          obtain ⟨e', he'⟩ := hxs
          rw [he']
          exact ⟨_, rfl⟩
        | ok ys =>
          rw [h2] at hxs
          simp only [FilteredL] at hxs ⊢
          simp only [allValidDeep, hv, Bool.true_and]
          cases hvs : allValidDeep ys with
          | false =>
            rw [hvs] at hxs
            simp only [Bool.false_eq_true, if_false] at hxs ⊢
            obtain ⟨e', he'⟩ := hxs
            rw [he']
            exact ⟨_, rfl⟩
          | true =>
            rw [hvs] at hxs
            simp only [if_true] at hxs ⊢
            rw [hxs]

theorem collCase_filter (o o' : POpts) (hi : o'.indexChildren = o.indexChildren) (kind : CollKind) (ex : Option Extra) (a b : PErr)
    (v : Option JVal) {pl pl' : List JVal → Except PErr (List Obj)}
    (hpl : ∀ items, FilteredL (pl items) (pl' items)) :
    Filtered
      (match reqArray v a b with
        | .error e => .error e
        | .ok (.arr items) =>
          match pl items with
          | .error e => .error e
          | .ok children => .ok (mkColl o kind children ex)
        | .ok _ => .error b)
      (match reqArray v a b with
        | .error e => .error e
        | .ok (.arr items) =>
          match pl' items with
          | .error e => .error e
          | .ok children => .ok (mkColl o' kind children ex)
        | .ok _ => .error b) := by
  split
  · exact ⟨_, rfl⟩
  · rename_i items _
    have := hpl items
    cases h1 : pl items with
    | error e =>
      rw [h1] at this
      obtain ⟨e', he'⟩ := this
      rw [he']
      exact ⟨_, rfl⟩
    | ok cs =>
      rw [h1] at this
      simp only [FilteredL] at this
      simp only [Filtered, mkColl, validDeep]
      cases hv : allValidDeep cs with
      | false =>
        rw [hv] at this
        simp only [Bool.false_eq_true, if_false] at this ⊢
        obtain ⟨e', he'⟩ := this
        rw [he']
        exact ⟨_, rfl⟩
      | true =>
        rw [hv] at this
        simp only [if_true] at this ⊢
        rw [this, hi]
  · exact ⟨_, rfl⟩

theorem centreOf_validDeep {b : Obj} {c : Pos} (h : centreOf b = some c) :
    validDeep b = (c.fin && c.p.valid) := by
  cases b with
  | point p e => simp only [centreOf, Option.some.injEq] at h; subst h; simp only [validDeep, Obj.valid]
  | spoint p => simp only [centreOf, Option.some.injEq] at h; subst h; simp only [validDeep, Obj.valid]
  | _ => cases h

theorem featureObj_validDeep {o : POpts} {k : Keys} {b x : Obj} (h : featureObj o k b = .ok x) :
    validDeep x = validDeep b := by
  rw [featureObj_eq] at h
  split at h
  · rename_i c _ r hc _ _
    cases h
    rw [centreOf_validDeep hc]
    rfl
  · cases h
  · cases h; rfl

theorem featureCase_filter (o : POpts) (k : Keys) {pr pr' : JVal → Except PErr Obj}
    (hpr : ∀ g, Filtered (pr g) (pr' g)) :
    Filtered (featureCase o k pr) (featureCase { o with requireValid := true } k pr') := by
  unfold featureCase
  cases hg : k.geometry with
  | none => exact ⟨_, rfl⟩
  | some g =>
    simp only
    have := hpr g
    have hfo : ∀ b, featureObj { o with requireValid := true } k b = featureObj o k b := fun _ => rfl
    cases h1 : pr g with
    | error e =>
      rw [h1] at this
      obtain ⟨e', he'⟩ := this
      rw [he']
      exact ⟨_, rfl⟩
    | ok base =>
      rw [h1] at this
      simp only [Filtered] at this
      simp only
      cases hv : validDeep base with
      | false =>
        rw [hv] at this
        simp only [Bool.false_eq_true, if_false] at this
        obtain ⟨e', he'⟩ := this
        rw [he']
        cases hf : featureObj o k base with
        | error e => exact ⟨_, rfl⟩
        | ok x =>
          simp only [Filtered, featureObj_validDeep hf, hv, Bool.false_eq_true, if_false]
          exact ⟨_, rfl⟩
      | true =>
        rw [hv] at this
        simp only [if_true] at this
        rw [this]
        simp only [hfo]
        cases hf : featureObj o k base with
        | error e => exact ⟨_, rfl⟩
        | ok x =>
          simp only [Filtered, featureObj_validDeep hf, hv, if_true]

/-- the filter statement for every fuel -/
theorem requireValid_filtered (o : POpts) (ho : o.requireValid = false) :
    ∀ (n : Nat) (v : JVal), Filtered (parse o n v) (parse { o with requireValid := true } n v)
  | 0, v => by rw [parse_zero, parse_zero]; exact ⟨_, rfl⟩
  | n+1, v => by
    cases v with
    | obj ms =>
      rw [parse_succ_obj, parse_succ_obj]
      have hL : ∀ items, FilteredL (parseList o n items) (parseList { o with requireValid := true } n items) :=
        fun items => parseList_filter _ _ n items (fun x _ => requireValid_filtered o ho n x)
      cases hty : (scanKeys ms).type with
      | none => exact ⟨_, rfl⟩
      | some t =>
        cases t with
        | str r ty =>
          simp only
          refine parseTyped_elim₂ (motive := fun _ a b => Filtered a b) _ _ _ _ _ _ _ ty
            ?_ ?_ ?_ ?_ ?_ ?_ ?_ ?_ ?_ ?_
          · exact pointCase_filter o ho _
          · exact lineCase_filter o ho _
          · exact polyCase_filter o ho _
          · exact multiPointCase_filter o ho _
          · exact multiLineCase_filter o ho _
          · exact multiPolyCase_filter o ho _
          · exact collCase_filter _ _ rfl _ _ _ _ _ hL
          · exact collCase_filter _ _ rfl _ _ _ _ _ hL
          · exact featureCase_filter o _ (fun g => requireValid_filtered o ho n g)
          · intro _; exact ⟨_, rfl⟩
        | null => exact ⟨_, rfl⟩
        | tru => exact ⟨_, rfl⟩
        | fls => exact ⟨_, rfl⟩
        | num => exact ⟨_, rfl⟩
        | arr => exact ⟨_, rfl⟩
        | obj => exact ⟨_, rfl⟩
    | null => rw [parse_succ_nonobj _ n _ (by intro ms h; cases h), parse_succ_nonobj _ n _ (by intro ms h; cases h)]; exact ⟨_, rfl⟩
    | tru => rw [parse_succ_nonobj _ n _ (by intro ms h; cases h), parse_succ_nonobj _ n _ (by intro ms h; cases h)]; exact ⟨_, rfl⟩
    | fls => rw [parse_succ_nonobj _ n _ (by intro ms h; cases h), parse_succ_nonobj _ n _ (by intro ms h; cases h)]; exact ⟨_, rfl⟩
    | num => rw [parse_succ_nonobj _ n _ (by intro ms h; cases h), parse_succ_nonobj _ n _ (by intro ms h; cases h)]; exact ⟨_, rfl⟩
    | str => rw [parse_succ_nonobj _ n _ (by intro ms h; cases h), parse_succ_nonobj _ n _ (by intro ms h; cases h)]; exact ⟨_, rfl⟩
    | arr => rw [parse_succ_nonobj _ n _ (by intro ms h; cases h), parse_succ_nonobj _ n _ (by intro ms h; cases h)]; exact ⟨_, rfl⟩

/-- RequireValid is a filter: with it, Parse returns the same object when that object is
    valid in depth, and an error otherwise (also when it was an error before; the error may
    differ, because an invalid child is reported before a later malformed one). -/
theorem requireValid_filter (o : POpts) (ho : o.requireValid = false) (n : Nat) (v : JVal) :
    match parse o n v with
    | .ok x =>
      if validDeep x = true then parse { o with requireValid := true } n v = .ok x
      else ∃ e, parse { o with requireValid := true } n v = .error e
    | .error _ => ∃ e, parse { o with requireValid := true } n v = .error e :=
  requireValid_filtered o ho n v

end Geo

namespace Geo

/-! ### AllowRects -/

/-- the canonical text of every finite number of the document is `f` of its value (true of
    every parsed text except for the two zeros: `-0` has value 0 and canonical text "-0") -/
inductive CanonBy (f : Rat → String) : JVal → Prop
  | null : CanonBy f .null
  | tru : CanonBy f .tru
  | fls : CanonBy f .fls
  | str (raw dec : String) : CanonBy f (.str raw dec)
  | num (fin : Bool) (val : Rat) (canon canonK raw : String) (h : fin = true → canon = f val) :
      CanonBy f (.num fin val canon canonK raw)
  | arr (items : List JVal) (h : ∀ x ∈ items, CanonBy f x) : CanonBy f (.arr items)
  | obj (ms : List (String × String × JVal)) (h : ∀ m ∈ ms, CanonBy f m.2.2) : CanonBy f (.obj ms)

theorem CanonBy.elems {f : Rat → String} {v : JVal} (h : CanonBy f v) : ∀ x ∈ v.elems, CanonBy f x := by
  cases h with
  | arr items h => exact h
  | obj ms h =>
    intro x hx
    simp only [JVal.elems, List.mem_map] at hx
    obtain ⟨m, hm, rfl⟩ := hx
    exact h m hm
  | null => intro x hx; simp only [JVal.elems, List.mem_singleton] at hx; subst hx; exact .null
  | tru => intro x hx; simp only [JVal.elems, List.mem_singleton] at hx; subst hx; exact .tru
  | fls => intro x hx; simp only [JVal.elems, List.mem_singleton] at hx; subst hx; exact .fls
  | str r d => intro x hx; simp only [JVal.elems, List.mem_singleton] at hx; subst hx; exact .str r d
  | num a b c d e h => intro x hx; simp only [JVal.elems, List.mem_singleton] at hx; subst hx; exact .num a b c d e h

/-- a position whose texts are `f` of its ordinates (when finite) -/
def PosCanon (f : Rat → String) (p : Pos) : Prop := p.fin = true → p.xs = f p.p.x ∧ p.ys = f p.p.y

theorem ordOfNum_canon {f : Rat → String} {a : JVal} (h : CanonBy f a) :
    (ordOfNum a).fin = true → (ordOfNum a).canon = f (ordOfNum a).val := by
  cases h with
  | num fin val canon canonK raw h =>
    intro hf
    simp only [ordOfNum] at hf ⊢
    rw [if_pos hf]
    exact h hf
  | _ => intro hf; simp [ordOfNum] at hf

theorem posOfJ_canon {f : Rat → String} {p : JVal} (h : CanonBy f p) : PosCanon f (posOfJ p) := by
  have he := h.elems
  unfold posOfJ PosCanon
  match hl : p.elems with
  | [] => exact fun hf => absurd hf (by decide)
  | [_] =>
    simp only [List.take_succ_cons, List.take_nil, List.map_cons, List.map_nil]
    exact fun hf => absurd hf (by decide)
  | a :: b :: tl =>
    have ha := ordOfNum_canon (he a (by rw [hl]; simp))
    have hb := ordOfNum_canon (he b (by rw [hl]; simp))
    simp only [List.take_succ_cons, List.map_cons, mkPos, Bool.and_eq_true]
    intro hf
    exact ⟨ha hf.1, hb hf.2⟩

/-- text of one position without extra ordinates -/
def posText (p : Pos) : String := "[" ++ p.xs ++ "," ++ p.ys ++ "]"
def ringText (r : List Pos) : String := "[" ++ ",".intercalate (r.map posText) ++ "]"

theorem writeSeries_go_none : ∀ (ps : List Pos) (i : Nat), writeSeries.go none ps i = some (ps.map posText)
  | [], i => by rw [writeSeries.go]; rfl
  | p :: ps, i => by
    rw [writeSeries.go, writeSeries_go_none ps (i+1)]
    rfl

theorem writeSeries_none (ps : List Pos) (i : Nat) :
    writeSeries ps none i = some (ringText ps, i + ps.length) := by
  unfold writeSeries
  rw [writeSeries_go_none]
  rfl

theorem writeRings_go_none : ∀ (rings : List (List Pos)) (i : Nat),
    writeRings.go none rings i = some (rings.map ringText)
  | [], i => by rw [writeRings.go]; rfl
  | r :: rs, i => by
    rw [writeRings.go, writeSeries_none]
    simp only [Option.bind_eq_bind, Option.bind_some, writeRings_go_none rs]
    rfl

theorem writeRings_none (rings : List (List Pos)) :
    writeRings rings none = some ("[" ++ ",".intercalate (rings.map ringText) ++ "]") := by
  unfold writeRings
  rw [writeRings_go_none]
  rfl

/-- the rectangle written from its corners is the ring as it was read -/
theorem rect_write_eq {f : Rat → String} (o : POpts) {p0 p1 p2 p3 p4 : Pos}
    (h0 : PosCanon f p0) (h1 : PosCanon f p1) (h2 : PosCanon f p2) (h3 : PosCanon f p3)
    (h4 : PosCanon f p4) (hr : isRectRing [p0, p1, p2, p3, p4] = true)
    (hok : ringOK [p0, p1, p2, p3, p4] = true) :
    write (.rectO ⟨p0.p, p2.p⟩ p0 p2) =
      write (.polygon (mkPoly o [[p0, p1, p2, p3, p4]]) [[p0, p1, p2, p3, p4]] none) := by
  simp only [isRectRing, Bool.and_eq_true, decide_eq_true_eq] at hr
  obtain ⟨⟨⟨⟨⟨⟨⟨⟨⟨⟨⟨⟨f0, f1⟩, f2⟩, f3⟩, f4⟩, _⟩, e1⟩, e2⟩, _⟩, _⟩, e3⟩, e4⟩, _⟩ := hr
  simp only [ringOK, List.head?_cons, List.getLast?_cons_cons, List.getLast?_singleton,
    Bool.and_eq_true, beq_iff_eq] at hok
  have e5 : p0.p = p4.p := hok.2.2
  obtain ⟨a0, b0⟩ := h0 f0
  obtain ⟨a1, b1⟩ := h1 f1
  obtain ⟨a2, b2⟩ := h2 f2
  obtain ⟨a3, b3⟩ := h3 f3
  obtain ⟨a4, b4⟩ := h4 f4
  have hempty : (mkPoly o [[p0, p1, p2, p3, p4]]).empty = false := by
    simp [mkPoly, Poly.empty, Ring.empty, Series.empty, mkSeries, ptsOf]
  simp only [write, hempty, Bool.false_eq_true, if_false, writeRings_none, writeExtra,
    String.append_empty, Option.bind_eq_bind, Option.bind_some, pure]
  have : List.map ringText [rectRing p0 p2] = List.map ringText [[p0, p1, p2, p3, p4]] := by
    simp only [List.map_cons, List.map_nil, ringText, rectRing, posText]
    have x3 : p3.p.x = p0.p.x := by rw [e4, ← e5]
    rw [a1, b1, a3, b3, a4, b4, a0, b0, a2, b2, ← e5, e2, ← e1, ← e3, x3]
  rw [this]

theorem polyCase_rects_WEq {f : Rat → String} (o : POpts) (k : Keys) (hk : k.AllIn (CanonBy f)) {x x' : Obj}
    (hx : polyCase { o with allowRects := true } k = .ok x)
    (hx' : polyCase { o with allowRects := false } k = .ok x') : WEq x x' := by
  obtain ⟨c, rings, ex, hc, hp, hok, rfl⟩ := polyCase_shape hx
  obtain ⟨c', rings', ex', hc', hp', _, rfl⟩ := polyCase_shape hx'
  rw [hc] at hc'; cases hc'
  rw [hp] at hp'; cases hp'
  have hx2 : polyObj { o with allowRects := false } rings (withMembers ex k) =
      .polygon (mkPoly o rings) rings (withMembers ex k) := by
    rcases polyObj_cases { o with allowRects := false } rings (withMembers ex k) with h | ⟨_, _, _, _, _, _, _, h, _⟩
    · exact h
    · cases h
  rw [hx2]
  rcases polyObj_cases { o with allowRects := true } rings (withMembers ex k) with h | ⟨p0, p1, p2, p3, p4, hr, hex, _, hrect, h⟩
  · rw [h]; exact ⟨rfl, rfl⟩
  · rw [h, hr, hex]
    refine ⟨?_, rfl⟩
    have hrings := parsePolyCoords_pos hp
    have hcan : ∀ r ∈ rings, ∀ p ∈ r, PosCanon f p := by
      intro r hr' p hp'
      rw [hrings, List.mem_map] at hr'
      obtain ⟨jr, hjr, rfl⟩ := hr'
      simp only [ringOfJ, List.mem_map] at hp'
      obtain ⟨jp, hjp, rfl⟩ := hp'
      exact posOfJ_canon (((hk.coordinates c hc).elems jr hjr).elems jp hjp)
    rw [hr] at hcan hok
    have hc' := hcan _ List.mem_cons_self
    simp only [List.all_cons, List.all_nil, Bool.and_true] at hok
    exact rect_write_eq o (hc' p0 (by simp)) (hc' p1 (by simp)) (hc' p2 (by simp)) (hc' p3 (by simp))
      (hc' p4 (by simp)) hrect hok

theorem CanonBy.keys {f : Rat → String} {ms : List (String × String × JVal)} (h : CanonBy f (.obj ms)) :
    (scanKeys ms).AllIn (CanonBy f) := by
  cases h with
  | obj _ h => exact scanKeys_allIn _ ms h

theorem CanonBy.items {f : Rat → String} {items : List JVal} (h : CanonBy f (.arr items)) :
    ∀ x ∈ items, CanonBy f x := by
  cases h with
  | arr _ h => exact h

/-- the statement carried through the recursion -/
theorem allowRects_WEq (o : POpts) (f : Rat → String) : ∀ (n : Nat) (v : JVal) (x x' : Obj),
    CanonBy f v →
    parse { o with allowRects := true } n v = .ok x →
    parse { o with allowRects := false } n v = .ok x' → WEq x x'
  | n, v, x, x', hf, hx, hx' => by
    obtain ⟨m, ms, rfl, rfl⟩ := parse_ok_isObj hx
    obtain ⟨r, ty, hty, h1⟩ := parse_obj_ok hx
    obtain ⟨r', ty', hty', h2⟩ := parse_obj_ok hx'
    rw [hty] at hty'
    cases hty'
    have hk := hf.keys
    have hL : ∀ items cs cs', CanonBy f (.arr items) →
        parseList { o with allowRects := true } m items = .ok cs →
        parseList { o with allowRects := false } m items = .ok cs' →
        Forall2 (fun y y' => write y = write y') cs cs' := by
      intro items cs cs' hi h1 h2
      exact (parseList_ok _ m items cs h1).zip (parseList_ok _ m items cs' h2)
        (fun a y z ha hy hz => (allowRects_WEq o f m a y z (hi.items a ha) hy hz).1)
    revert h1 h2
    refine parseTyped_elim₂ (motive := fun _ a b => a = .ok x → b = .ok x' → WEq x x') _ _ _ _ _ _ _ ty
      ?_ ?_ ?_ ?_ ?_ ?_ ?_ ?_ ?_ ?_
    · intro h1 h2
      have : pointCase { o with allowRects := true } (scanKeys ms) =
          pointCase { o with allowRects := false } (scanKeys ms) := rfl
      rw [this, h2] at h1; cases h1; exact ⟨rfl, rfl⟩
    · intro h1 h2
      have : lineCase { o with allowRects := true } (scanKeys ms) =
          lineCase { o with allowRects := false } (scanKeys ms) := rfl
      rw [this, h2] at h1; cases h1; exact ⟨rfl, rfl⟩
    · exact polyCase_rects_WEq o _ hk
    · intro h1 h2
      have : multiPointCase { o with allowRects := true } (scanKeys ms) =
          multiPointCase { o with allowRects := false } (scanKeys ms) := rfl
      rw [this, h2] at h1; cases h1; exact ⟨rfl, rfl⟩
    · intro h1 h2
      have : multiLineCase { o with allowRects := true } (scanKeys ms) =
          multiLineCase { o with allowRects := false } (scanKeys ms) := rfl
      rw [this, h2] at h1; cases h1; exact ⟨rfl, rfl⟩
    · intro h1 h2
      have : multiPolyCase { o with allowRects := true } (scanKeys ms) =
          multiPolyCase { o with allowRects := false } (scanKeys ms) := rfl
      rw [this, h2] at h1; cases h1; exact ⟨rfl, rfl⟩
    · intro h1 h2
      obtain ⟨items, cs, hg, hcs, rfl⟩ := geomCollCase_ok h1
      obtain ⟨items', cs', hg', hcs', rfl⟩ := geomCollCase_ok h2
      rw [hg] at hg'; cases hg'
      exact mkColl_WEq (.inl rfl) _ (hL items cs cs' (hk.geometries _ hg) hcs hcs')
    · intro h1 h2
      obtain ⟨items, cs, hg, hcs, rfl⟩ := featCollCase_ok h1
      obtain ⟨items', cs', hg', hcs', rfl⟩ := featCollCase_ok h2
      rw [hg] at hg'; cases hg'
      exact mkColl_WEq (.inr rfl) _ (hL items cs cs' (hk.features _ hg) hcs hcs')
    · intro h1 h2
      obtain ⟨g, b, hg, hb, hf1⟩ := featureCase_ok h1
      obtain ⟨g', b', hg', hb', hf2⟩ := featureCase_ok h2
      rw [hg] at hg'; cases hg'
      exact featureObj_WEq rfl _ (allowRects_WEq o f m g b b' (hk.geometry _ hg) hb hb') hf1 hf2
    · intro _ h; cases h
termination_by n => n

/-- AllowRects changes only the constructor: the written text is the same — provided the
    canonical text of the document's numbers is a function of their value (it is, except for
    `-0` versus `0`: `allowRects_write_counterexample`). -/
theorem allowRects_write_partial (o : POpts) (f : Rat → String) (n : Nat) (v : JVal) (x x' : Obj)
    (hf : CanonBy f v)
    (hx : parse { o with allowRects := true } n v = .ok x)
    (hx' : parse { o with allowRects := false } n v = .ok x') : write x = write x' :=
  (allowRects_WEq o f n v x x' hf hx hx').1

end Geo

namespace Geo

/-- `{"type":"Polygon","coordinates":[[[0,0],[10,0],[10,10],[-0,10],[0,0]]]}`: the number `-0`
    has value 0 and canonical text "-0" -/
def docNegZero : JVal :=
  .obj [jmem "type" (jstr "Polygon"),
        jmem "coordinates" (.arr [.arr [.arr [jnum 0 "0", jnum 0 "0"], .arr [jnum 10 "10", jnum 0 "0"],
          .arr [jnum 10 "10", jnum 10 "10"], .arr [jnum 0 "-0", jnum 10 "10"], .arr [jnum 0 "0", jnum 0 "0"]]])]

def pz (x y : Rat) (xs ys : String) : Pos := ⟨⟨x, y⟩, true, xs, ys⟩
def ringNZ : List Pos := [pz 0 0 "0" "0", pz 10 0 "10" "0", pz 10 10 "10" "10", pz 0 10 "-0" "10", pz 0 0 "0" "0"]

theorem nz_rect : parse { allowRects := true } 5 docNegZero = .ok (.rectO ⟨⟨0,0⟩,⟨10,10⟩⟩ (pz 0 0 "0" "0") (pz 10 10 "10" "10")) := by
  show parse _ (4+1) (.obj _) = _
  rw [parse_succ_obj]
  rfl

theorem nz_poly : parse { allowRects := false } 5 docNegZero = .ok (.polygon (mkPoly {} [ringNZ]) [ringNZ] none) := by
  show parse _ (4+1) (.obj _) = _
  rw [parse_succ_obj]
  rfl

theorem nz_w1 : write (.rectO ⟨⟨0,0⟩,⟨10,10⟩⟩ (pz 0 0 "0" "0") (pz 10 10 "10" "10")) = some "{\"type\":\"Polygon\",\"coordinates\":[[[0,0],[10,0],[10,10],[0,10],[0,0]]]}" := by
  decide

theorem nz_w2 : write (.polygon (mkPoly {} [ringNZ]) [ringNZ] none) = some "{\"type\":\"Polygon\",\"coordinates\":[[[0,0],[10,0],[10,10],[-0,10],[0,0]]]}" := by
  decide

/-- FINDING (model level; the AST is what the harness produces for the number `-0`: value 0,
    canonical text "-0"): with AllowRects the rectangle is written from its two corners, so the
    `-0` of the fourth vertex comes out as `0`. The unrestricted `allowRects_write` is false. -/
theorem allowRects_write_counterexample :
    ∃ (o : POpts) (n : Nat) (v : JVal) (x x' : Obj),
      parse { o with allowRects := true } n v = .ok x ∧
      parse { o with allowRects := false } n v = .ok x' ∧ write x ≠ write x' := by
  refine ⟨{}, 5, docNegZero, _, _, nz_rect, nz_poly, ?_⟩
  rw [nz_w1, nz_w2]
  decide

end Geo

namespace Geo

/-- non-vacuity of `allowRects_write_partial`: the same rectangle with `0` instead of `-0` -/
def docRect : JVal :=
  .obj [jmem "type" (jstr "Polygon"),
        jmem "coordinates" (.arr [.arr [.arr [jnum 0 "0", jnum 0 "0"], .arr [jnum 10 "10", jnum 0 "0"],
          .arr [jnum 10 "10", jnum 10 "10"], .arr [jnum 0 "0", jnum 10 "10"], .arr [jnum 0 "0", jnum 0 "0"]]])]

def canonEx (q : Rat) : String := if q = 0 then "0" else "10"

theorem docRect_canon : CanonBy canonEx docRect := by
  have n0 : CanonBy canonEx (jnum 0 "0") := .num _ _ _ _ _ (fun _ => by decide)
  have n10 : CanonBy canonEx (jnum 10 "10") := .num _ _ _ _ _ (fun _ => by decide)
  have pos : ∀ a b, CanonBy canonEx a → CanonBy canonEx b → CanonBy canonEx (.arr [a, b]) := by
    intro a b ha hb
    refine .arr _ ?_
    intro x hx
    simp only [List.mem_cons, List.not_mem_nil, or_false] at hx
    rcases hx with rfl | rfl <;> assumption
  refine .obj _ ?_
  intro m hm
  simp only [List.mem_cons, List.not_mem_nil, or_false] at hm
  rcases hm with rfl | rfl
  · exact .str _ _
  · refine .arr _ ?_
    intro r hr
    simp only [List.mem_cons, List.not_mem_nil, or_false] at hr
    subst hr
    refine .arr _ ?_
    intro q hq
    simp only [List.mem_cons, List.not_mem_nil, or_false] at hq
    rcases hq with rfl | rfl | rfl | rfl | rfl
    · exact pos _ _ n0 n0
    · exact pos _ _ n10 n0
    · exact pos _ _ n10 n10
    · exact pos _ _ n0 n10
    · exact pos _ _ n0 n0

example : parse { allowRects := true } 5 docRect =
    .ok (.rectO ⟨⟨0,0⟩,⟨10,10⟩⟩ (pz 0 0 "0" "0") (pz 10 10 "10" "10")) := by
  show parse _ (4+1) (.obj _) = _
  rw [parse_succ_obj]
  rfl

end Geo

#print axioms Geo.index_opts_accept_same
#print axioms Geo.index_opts_error_same
#print axioms Geo.index_opts_obsEq
#print axioms Geo.obsEq_write
#print axioms Geo.obsEq_attrs
#print axioms Geo.allowSimplePoints_write
#print axioms Geo.requireValid_filter
#print axioms Geo.allowRects_write_partial
#print axioms Geo.allowRects_write_counterexample
