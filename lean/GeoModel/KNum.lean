/-
  GeoModel.KNum — the number interface the generated planar kernels
  (`GeoModel/Generated/KernelGen.lean`, produced by `translate kernel`) are written against.

  Core Lean only (this module is linked into the `geodriver` executable).

  Intended instances:
    * `KNum Float` (here) — executable; used by `Geo.kgenStep` to compare the generated kernels
      with the Go code on arbitrary binary64 inputs;
    * an exact model of IEEE-754 binary64 rounding over ℚ (elsewhere) — for the proof that the
      generated kernels agree with the hand-written `Rat` model `GeoModel/Kernel.lean`.

  `lt`/`le`/`eq` are the IEEE comparisons (all false when an operand is NaN, `eq (+0) (-0)`);
  `gt`/`ge`/`ne` are derived exactly as Go derives them (`a > b` is `b < a`, `a != b` is
  `!(a == b)`).  `ofNat` is the meaning of an integer literal of the source.  `nextUp x` is Go's
  `math.Nextafter(x, math.Inf(1))`.  `posInf`/`negInf` are `math.Inf(1)`/`math.Inf(-1)`.
-/
namespace Geo

class KNum (α : Type) where
  add : α → α → α
  sub : α → α → α
  mul : α → α → α
  div : α → α → α
  neg : α → α
  lt : α → α → Bool
  le : α → α → Bool
  eq : α → α → Bool
  ofNat : Nat → α
  /-- Go's `math.Nextafter(x, math.Inf(1))` -/
  nextUp : α → α
  posInf : α
  negInf : α

namespace KNum

@[inline] def gt {α : Type} [KNum α] (a b : α) : Bool := KNum.lt b a
@[inline] def ge {α : Type} [KNum α] (a b : α) : Bool := KNum.le b a
@[inline] def ne {α : Type} [KNum α] (a b : α) : Bool := !KNum.eq a b

/- Notation used by the generated file (`open scoped Geo.KNum`).  These are plain macros for the
   class operations: no `Add`/`LT`/… instances are involved, so nothing has to be unfolded. -/
scoped infixl:65 " +ₖ " => KNum.add
scoped infixl:65 " -ₖ " => KNum.sub
scoped infixl:70 " *ₖ " => KNum.mul
scoped infixl:70 " /ₖ " => KNum.div
scoped infix:50 " <ₖ " => KNum.lt
scoped infix:50 " ≤ₖ " => KNum.le
scoped infix:50 " >ₖ " => KNum.gt
scoped infix:50 " ≥ₖ " => KNum.ge
scoped infix:50 " ==ₖ " => KNum.eq
scoped infix:50 " !=ₖ " => KNum.ne

end KNum

/-- Go's `math.Nextafter(x, math.Inf(1))` on binary64 (same case split as the Go source:
    NaN ↦ NaN; x = +Inf ↦ x; ±0 ↦ smallest positive denormal; x > 0 ↦ bits+1; x < 0 ↦ bits−1,
    so the largest negative denormal goes to −0). -/
def floatNextUp (x : Float) : Float :=
  if x.isNaN then x
  else
    let b := x.toBits
    if b == 0x7FF0000000000000 then x
    else if x == 0 then Float.ofBits 1
    else if b &&& 0x8000000000000000 == 0 then Float.ofBits (b + 1)
    else Float.ofBits (b - 1)

instance : KNum Float where
  add := Float.add
  sub := Float.sub
  mul := Float.mul
  div := Float.div
  neg := Float.neg
  lt a b := decide (a < b)
  le a b := decide (a ≤ b)
  eq a b := a == b
  ofNat := Float.ofNat
  nextUp := floatNextUp
  posInf := Float.ofBits 0x7FF0000000000000
  negInf := Float.ofBits 0xFFF0000000000000

/-! Structures of package `geometry` (field names in lower case; `In` ↦ `inn`). -/

structure KPoint (α : Type) where
  x : α
  y : α

structure KSegment (α : Type) where
  a : KPoint α
  b : KPoint α

structure KRect (α : Type) where
  min : KPoint α
  max : KPoint α

structure KRaycastResult where
  inn : Bool
  on : Bool

/-- Go's `==` on `Point` (field by field, IEEE `==` on each coordinate). -/
@[inline] def KPoint.eq {α : Type} [KNum α] (p q : KPoint α) : Bool :=
  KNum.eq p.x q.x && KNum.eq p.y q.y

/-- Go's `==` on `Segment`. -/
@[inline] def KSegment.eq {α : Type} [KNum α] (s t : KSegment α) : Bool :=
  KPoint.eq s.a t.a && KPoint.eq s.b t.b

/-- Go's `==` on `Rect`. -/
@[inline] def KRect.eq {α : Type} [KNum α] (r s : KRect α) : Bool :=
  KPoint.eq r.min s.min && KPoint.eq r.max s.max

/-- Go's `==` on `RaycastResult`. -/
@[inline] def KRaycastResult.eq (r s : KRaycastResult) : Bool :=
  (r.inn == s.inn) && (r.on == s.on)

end Geo
