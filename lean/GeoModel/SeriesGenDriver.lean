/-
  GeoModel.SeriesGenDriver — evaluation of `Geo.SGen.processPoints` (translated from
  geometry/series.go on every run, `translate series`) at `α := Float`, for the comparison against
  the Go function `processPoints` (hook `geometry.VerifProcessPoints`) on arbitrary binary64
  inputs.  Core Lean only.

  Every number is a binary64 bit pattern written as exactly 16 hexadecimal digits (either case on
  input, lower case on output).

    kproc <closed 0|1> <n> x1 y1 … xn yn          (n decimal, then exactly 2n numbers)
        -> `<convex><clockwise> minx miny maxx maxy`
           two flag characters 0/1 without a separator, then the four numbers of the Rect.
           In the early-return case (closed and n < 3, or n < 2) this is `00` and four times
           0000000000000000.  Every NaN is printed as 7ff8000000000000 (`Float.toBits` does
           not keep the payload): the Go side has to normalise NaNs the same way.
           Should the generated code flag an index out of range (Go would panic; never happens for
           the present source) the answer is `panic`.

  Anything else (unknown op, wrong number of arguments, malformed number): `none`.
-/
import GeoModel.KNum
import GeoModel.Generated.SeriesGen

namespace Geo

def sHexDigit? (c : Char) : Option UInt64 :=
  if '0' ≤ c && c ≤ '9' then some (c.toNat - '0'.toNat).toUInt64
  else if 'a' ≤ c && c ≤ 'f' then some (c.toNat - 'a'.toNat + 10).toUInt64
  else if 'A' ≤ c && c ≤ 'F' then some (c.toNat - 'A'.toNat + 10).toUInt64
  else none

/-- a binary64 given as exactly 16 hexadecimal digits -/
def sFloatOfHex? (s : String) : Option Float :=
  let cs := s.toList
  if cs.length != 16 then none
  else (cs.foldlM (fun (acc : UInt64) c => (sHexDigit? c).map (fun d => acc * 16 + d)) 0).map Float.ofBits

/-- the 16 hexadecimal digits of the bit pattern of a binary64 -/
def sHexOfFloat (x : Float) : String :=
  let b := x.toBits.toNat
  String.ofList ((List.range 16).map fun i =>
    let d := (b >>> (4 * (15 - i))) % 16
    if d < 10 then Char.ofNat ('0'.toNat + d) else Char.ofNat ('a'.toNat + d - 10))

private def sBit (b : Bool) : String := if b then "1" else "0"

def sPairs : List Float → Option (List (KPoint Float))
  | [] => some []
  | x :: y :: rest => (sPairs rest).map (fun ps => ⟨x, y⟩ :: ps)
  | [_] => none

def sgenStep (toks : List String) : Option String :=
  match toks with
  | "kproc" :: closed :: n :: args =>
    if closed != "0" && closed != "1" then none
    else
      match n.toNat?, args.mapM sFloatOfHex? with
      | some n, some xs =>
        if xs.length != 2 * n then none
        else
          match sPairs xs with
          | none => none
          | some ps =>
            let pts := ps.toArray
            let cl := closed == "1"
            if SGen.processPointsPanics pts cl then some "panic"
            else
              let r := SGen.processPoints pts cl
              some (sBit r.1 ++ sBit r.2.2 ++ " " ++ sHexOfFloat r.2.1.min.x ++ " "
                ++ sHexOfFloat r.2.1.min.y ++ " " ++ sHexOfFloat r.2.1.max.x ++ " "
                ++ sHexOfFloat r.2.1.max.y)
      | _, _ => none
  | _ => none

end Geo
