/-
  GeoProofs.Intersects.Regions — two closed chains, specification level.

  * `regions_disjoint_of_boundaries_out` (any two edge lists): if no boundary point of either
    chain lies in the closed crossing-parity region of the other, the two regions are disjoint.
    Proof on the rightward ray of a common point: the nearest crossing of either chain is a
    boundary point with the same crossing parity w.r.t. the other chain as the common point.
  * `regions_meet_iff` (G): the regions share a point iff a boundary point of one lies in the
    region of the other.
  * `inRing_const_on_boundary`: if no edge of `A` meets an edge of `B`, membership in the region
    of `B` is constant along the boundary of `A` (J along every edge, edges chained cyclically).
  * `strict_nesting_rect`: a chain whose boundary is strictly inside another chain has a strictly
    smaller tight rectangle (leftward and rightward rays from its extreme vertices).
-/
import GeoProofs.Intersects.Core
import Mathlib.Tactic.FieldSimp
import Mathlib.Tactic.Ring
import Mathlib.Tactic.Linarith

namespace Geo
namespace IX
open GL Jordan

/-! ### the abscissa where an edge meets a level -/

/-- abscissa of the point of the line `ab` at level `y` (for `a.y ≠ b.y`) -/
def Xat (a b : Pt) (y : Rat) : Rat := a.x + (y - a.y) * (b.x - a.x) / (b.y - a.y)

/-- the half-open "the edge straddles the level" test of `Spec.crosses` -/
def straddle (a b : Pt) (y : Rat) : Bool := decide (a.y ≤ y) != decide (b.y ≤ y)

theorem straddle_iff (a b : Pt) (y : Rat) :
    straddle a b y = true ↔ (a.y ≤ y ∧ y < b.y) ∨ (b.y ≤ y ∧ y < a.y) := by
  unfold straddle
  rw [bne_iff_ne, Ne, decide_eq_decide]
  constructor
  · intro h
    by_cases ha : a.y ≤ y
    · left; exact ⟨ha, not_le.1 (fun hb => h (iff_of_true ha hb))⟩
    · right
      refine ⟨?_, not_le.1 ha⟩
      by_contra hb
      exact h (iff_of_false ha hb)
  · rintro (⟨h1, h2⟩ | ⟨h1, h2⟩) h
    · exact absurd (h.1 h1) (not_le.2 h2)
    · exact absurd (h.2 h1) (not_le.2 h2)

theorem straddle_ne {a b : Pt} {y : Rat} (h : straddle a b y = true) : a.y ≠ b.y := by
  rcases (straddle_iff a b y).1 h with ⟨h1, h2⟩ | ⟨h1, h2⟩ <;> intro he <;> linarith

theorem cross_X (a b p : Pt) (h : a.y ≠ b.y) :
    Spec.cross a b p = (b.y - a.y) * (Xat a b p.y - p.x) := by
  have hD : b.y - a.y ≠ 0 := sub_ne_zero.2 (Ne.symm h)
  unfold Xat
  rw [K.cross_def]
  field_simp
  ring

theorem crosses_iff_X (a b p : Pt) :
    Spec.crosses a b p = true ↔ straddle a b p.y = true ∧ p.x < Xat a b p.y := by
  unfold Spec.crosses
  rw [Bool.and_eq_true]
  show straddle a b p.y = true ∧ _ ↔ _
  constructor
  · rintro ⟨hs, hc⟩
    refine ⟨hs, ?_⟩
    have hne := straddle_ne hs
    by_cases hab : a.y < b.y
    · rw [if_pos hab, decide_eq_true_eq, cross_X a b p hne] at hc
      have hD : 0 < b.y - a.y := by linarith
      by_contra hcon
      have := mul_nonpos_of_nonneg_of_nonpos hD.le (sub_nonpos.2 (not_lt.1 hcon))
      linarith
    · rw [if_neg hab, decide_eq_true_eq, K.cross_swap, cross_X a b p hne] at hc
      have hD : b.y - a.y < 0 := by
        have := lt_of_le_of_ne (not_lt.1 hab) (Ne.symm hne)
        linarith
      by_contra hcon
      have := mul_nonneg_of_nonpos_of_nonpos hD.le (sub_nonpos.2 (not_lt.1 hcon))
      linarith
  · rintro ⟨hs, hx⟩
    refine ⟨hs, ?_⟩
    have hne := straddle_ne hs
    by_cases hab : a.y < b.y
    · rw [if_pos hab, decide_eq_true_eq, cross_X a b p hne]
      exact mul_pos (by linarith) (by linarith)
    · rw [if_neg hab, decide_eq_true_eq, K.cross_swap, cross_X a b p hne]
      have hD : b.y - a.y < 0 := by
        have := lt_of_le_of_ne (not_lt.1 hab) (Ne.symm hne)
        linarith
      have := mul_neg_of_neg_of_pos hD (sub_pos.2 hx)
      linarith

theorem crossesL_iff_X (a b p : Pt) :
    crossesL a b p = true ↔ straddle a b p.y = true ∧ Xat a b p.y < p.x := by
  unfold crossesL
  rw [Bool.and_eq_true]
  show straddle a b p.y = true ∧ _ ↔ _
  constructor
  · rintro ⟨hs, hc⟩
    refine ⟨hs, ?_⟩
    have hne := straddle_ne hs
    by_cases hab : a.y < b.y
    · rw [if_pos hab, decide_eq_true_eq, cross_X a b p hne] at hc
      have hD : 0 < b.y - a.y := by linarith
      by_contra hcon
      have := mul_nonneg hD.le (sub_nonneg.2 (not_lt.1 hcon))
      linarith
    · rw [if_neg hab, decide_eq_true_eq, K.cross_swap, cross_X a b p hne] at hc
      have hD : b.y - a.y < 0 := by
        have := lt_of_le_of_ne (not_lt.1 hab) (Ne.symm hne)
        linarith
      by_contra hcon
      have := mul_nonpos_of_nonpos_of_nonneg hD.le (sub_nonneg.2 (not_lt.1 hcon))
      linarith
  · rintro ⟨hs, hx⟩
    refine ⟨hs, ?_⟩
    have hne := straddle_ne hs
    by_cases hab : a.y < b.y
    · rw [if_pos hab, decide_eq_true_eq, cross_X a b p hne]
      exact mul_neg_of_pos_of_neg (by linarith) (by linarith)
    · rw [if_neg hab, decide_eq_true_eq, K.cross_swap, cross_X a b p hne]
      have hD : b.y - a.y < 0 := by
        have := lt_of_le_of_ne (not_lt.1 hab) (Ne.symm hne)
        linarith
      have := mul_pos_of_neg_of_neg hD (sub_neg.2 hx)
      linarith

/-- the point of the edge at the level -/
theorem onSeg_X {a b : Pt} {y : Rat} (hs : straddle a b y = true) : OnSeg a b ⟨Xat a b y, y⟩ := by
  have hne := straddle_ne hs
  refine K.onSeg_of_cross_yrange hne ?_ ?_ ?_
  · rw [cross_X a b _ hne]; simp
  · rcases (straddle_iff a b y).1 hs with ⟨h1, h2⟩ | ⟨h1, h2⟩
    · exact le_trans (min_le_left _ _) h1
    · exact le_trans (min_le_right _ _) h1
  · rcases (straddle_iff a b y).1 hs with ⟨h1, h2⟩ | ⟨h1, h2⟩
    · exact le_trans h2.le (le_max_right _ _)
    · exact le_trans h2.le (le_max_left _ _)

theorem exists_min_list {α : Type} (f : α → Rat) :
    ∀ l : List α, l ≠ [] → ∃ m ∈ l, ∀ e ∈ l, f m ≤ f e := by
  intro l
  induction l with
  | nil => intro h; exact absurd rfl h
  | cons x xs ih =>
    intro _
    by_cases hxs : xs = []
    · subst hxs
      exact ⟨x, by simp, fun e he => by simp at he; rw [he]⟩
    · obtain ⟨m, hm, hmin⟩ := ih hxs
      by_cases hle : f x ≤ f m
      · refine ⟨x, by simp, ?_⟩
        intro e he
        rcases List.mem_cons.1 he with rfl | he
        · exact le_refl _
        · exact le_trans hle (hmin e he)
      · refine ⟨m, by simp [hm], ?_⟩
        intro e he
        rcases List.mem_cons.1 he with rfl | he
        · exact (not_le.1 hle).le
        · exact hmin e he

/-! ### disjointness -/

/-- one half of the ray argument: the nearest crossing belongs to `EA` -/
theorem ray_aux (EA EB : List (Pt × Pt))
    (H1 : ∀ u, Spec.onBoundary EA u = true → Spec.inRing EB u = false)
    (x : Pt) (hB : Spec.parity EB x = 1) (e : Pt × Pt) (he : e ∈ EA)
    (hce : Spec.crosses e.1 e.2 x = true)
    (hmin : ∀ f ∈ EB, Spec.crosses f.1 f.2 x = true → Xat e.1 e.2 x.y ≤ Xat f.1 f.2 x.y) : False := by
  obtain ⟨hse, hxe⟩ := (crosses_iff_X _ _ _).1 hce
  have hon : OnSeg e.1 e.2 ⟨Xat e.1 e.2 x.y, x.y⟩ := onSeg_X hse
  have hout := H1 _ (onBoundary_of_onSeg he hon)
  obtain ⟨hb, hp⟩ := (inRing_false_iff _ _).1 hout
  have hfil : EB.filter (fun f => Spec.crosses f.1 f.2 ⟨Xat e.1 e.2 x.y, x.y⟩) =
      EB.filter (fun f => Spec.crosses f.1 f.2 x) := by
    apply List.filter_congr
    intro f hf
    rw [Bool.eq_iff_iff, crosses_iff_X, crosses_iff_X]
    constructor
    · rintro ⟨h1, h2⟩
      exact ⟨h1, lt_trans hxe h2⟩
    · rintro ⟨h1, h2⟩
      refine ⟨h1, ?_⟩
      have hle := hmin f hf ((crosses_iff_X _ _ _).2 ⟨h1, h2⟩)
      refine lt_of_le_of_ne hle ?_
      intro heq
      have hon2 : OnSeg f.1 f.2 ⟨Xat f.1 f.2 x.y, x.y⟩ := onSeg_X h1
      simp only at heq
      rw [← heq] at hon2
      rw [onBoundary_of_onSeg hf hon2] at hb
      cases hb
  unfold Spec.parity at hp hB
  rw [hfil] at hp
  omega

/-- if no boundary point of either chain lies in the closed region of the other, the two
    regions are disjoint (any two edge lists) -/
theorem regions_disjoint_of_boundaries_out (EA EB : List (Pt × Pt))
    (H1 : ∀ u, Spec.onBoundary EA u = true → Spec.inRing EB u = false)
    (H2 : ∀ u, Spec.onBoundary EB u = true → Spec.inRing EA u = false)
    (x : Pt) (hA : Spec.inRing EA x = true) (hB : Spec.inRing EB x = true) : False := by
  have hbA : Spec.onBoundary EA x = false := by
    cases h : Spec.onBoundary EA x with
    | false => rfl
    | true => rw [H1 x h] at hB; cases hB
  have hbB : Spec.onBoundary EB x = false := by
    cases h : Spec.onBoundary EB x with
    | false => rfl
    | true => rw [H2 x h] at hA; cases hA
  have hpA : Spec.parity EA x = 1 := by
    unfold Spec.inRing at hA; rw [hbA] at hA; simpa using hA
  have hpB : Spec.parity EB x = 1 := by
    unfold Spec.inRing at hB; rw [hbB] at hB; simpa using hB
  have hne : (EA ++ EB).filter (fun e => Spec.crosses e.1 e.2 x) ≠ [] := by
    intro hnil
    rw [List.filter_append, List.append_eq_nil_iff] at hnil
    unfold Spec.parity at hpA
    rw [hnil.1] at hpA
    simp at hpA
  obtain ⟨m, hm, hmin⟩ := exists_min_list (fun e : Pt × Pt => Xat e.1 e.2 x.y) _ hne
  rw [List.mem_filter, List.mem_append] at hm
  obtain ⟨hmem, hcm⟩ := hm
  have hmin' : ∀ f ∈ EA ++ EB, Spec.crosses f.1 f.2 x = true → Xat m.1 m.2 x.y ≤ Xat f.1 f.2 x.y :=
    fun f hf hc => hmin f (List.mem_filter.2 ⟨hf, hc⟩)
  rcases hmem with hmA | hmB
  · exact ray_aux EA EB H1 x hpB m hmA hcm (fun f hf => hmin' f (List.mem_append.2 (Or.inr hf)))
  · exact ray_aux EB EA H2 x hpA m hmB hcm (fun f hf => hmin' f (List.mem_append.2 (Or.inl hf)))

/-- (G) two closed regions share a point iff a boundary point of one lies in the other -/
theorem regions_meet_iff (EA EB : List (Pt × Pt)) :
    (∃ x, Spec.inRing EA x = true ∧ Spec.inRing EB x = true) ↔
      ((∃ v, Spec.onBoundary EA v = true ∧ Spec.inRing EB v = true) ∨
       (∃ v, Spec.onBoundary EB v = true ∧ Spec.inRing EA v = true)) := by
  constructor
  · rintro ⟨x, hA, hB⟩
    by_contra hcon
    rw [not_or] at hcon
    refine regions_disjoint_of_boundaries_out EA EB ?_ ?_ x hA hB
    · intro u hu
      cases h : Spec.inRing EB u with
      | false => rfl
      | true => exact absurd ⟨u, hu, h⟩ hcon.1
    · intro u hu
      cases h : Spec.inRing EA u with
      | false => rfl
      | true => exact absurd ⟨u, hu, h⟩ hcon.2
  · rintro (⟨v, h1, h2⟩ | ⟨v, h1, h2⟩)
    · exact ⟨v, inRing_of_onBoundary h1, h2⟩
    · exact ⟨v, h2, inRing_of_onBoundary h1⟩

/-! ### constancy along a boundary -/

/-- if no edge of the closed chain `A` meets an edge of the closed chain `B`, membership in the
    region of `B` is constant on the boundary of `A` -/
theorem inRing_const_on_boundary (A B : List Pt)
    (hno : ∀ e ∈ Spec.edges A true, ∀ f ∈ Spec.edges B true, ¬ SegsMeet e.1 e.2 f.1 f.2)
    (u v : Pt) (hu : Spec.onBoundary (Spec.edges A true) u = true)
    (hv : Spec.onBoundary (Spec.edges A true) v = true) :
    Spec.inRing (Spec.edges B true) u = Spec.inRing (Spec.edges B true) v := by
  obtain ⟨n, P, -, hE⟩ := edges_cyc2 A
  rw [hE] at hno hu hv
  have hav : ∀ i, i < n → ∀ f ∈ Spec.edges B true,
      Spec.segsMeet f.1 f.2 (P i) (P ((i + 1) % n)) = false := by
    intro i hi f hf
    rw [segsMeet_eq_false_iff]
    intro hm
    exact hno (P i, P ((i + 1) % n)) (List.mem_map.2 ⟨i, List.mem_range.2 hi, rfl⟩) f hf
      ((K.segsMeet_symm _ _ _ _).1 hm)
  have hstep : ∀ i, i < n → ∀ w, OnSeg (P i) (P ((i + 1) % n)) w →
      Spec.inRing (Spec.edges B true) w = Spec.inRing (Spec.edges B true) (P i) := by
    intro i hi w hw
    exact ((inRing_const_of_avoids B (P i) w
      (avoids_sub (hav i hi) (K.onSeg_left _ _) hw)).1).symm
  have hvert : ∀ i, i < n →
      Spec.inRing (Spec.edges B true) (P i) = Spec.inRing (Spec.edges B true) (P 0) := by
    intro i
    induction i with
    | zero => intro _; rfl
    | succ k ih =>
      intro hk
      have := hstep k (by omega) (P ((k + 1) % n)) (K.onSeg_right _ _)
      rw [Nat.mod_eq_of_lt hk] at this
      rw [this]
      exact ih (by omega)
  have hall : ∀ w, Spec.onBoundary ((List.range n).map (fun i => (P i, P ((i + 1) % n)))) w = true →
      Spec.inRing (Spec.edges B true) w = Spec.inRing (Spec.edges B true) (P 0) := by
    intro w hw
    obtain ⟨e, he, hon⟩ := (onBoundary_iff _ _).1 hw
    obtain ⟨i, hi, rfl⟩ := List.mem_map.1 he
    have hi := List.mem_range.1 hi
    rw [hstep i hi w hon, hvert i hi]
  rw [hall u hu, hall v hv]

/-! ### strict nesting shrinks the rectangle -/

/-- every boundary point of `A` strictly inside the closed chain `B`: the tight rectangle of
    `A` has a strictly smaller area than that of `B` -/
theorem strict_nesting_rect {rA rB : Ring} {A B : List Pt} (hA : RingSpec rA A) (hB : RingSpec rB B)
    (hne : rA.empty = false)
    (hin : ∀ u, Spec.onBoundary (Spec.edges A true) u = true →
      Spec.inRing (Spec.edges B true) u = true ∧ Spec.onBoundary (Spec.edges B true) u = false) :
    rA.rect.area < rB.rect.area := by
  obtain ⟨⟨vL, hvL, eL⟩, ⟨vR, hvR, eR⟩, ⟨vD, hvD, eD⟩, ⟨vU, hvU, eU⟩⟩ := hA.tight hne
  have parity1 : ∀ u, Spec.onBoundary (Spec.edges A true) u = true →
      Spec.parity (Spec.edges B true) u = 1 := by
    intro u hu
    obtain ⟨h1, h2⟩ := hin u hu
    unfold Spec.inRing at h1
    rw [h2] at h1
    simpa using h1
  have inB : ∀ w, Spec.onBoundary (Spec.edges B true) w = true → rB.rect.containsPt w = true :=
    fun w hw => hB.inRect w (inRing_of_onBoundary hw)
  -- the rectangle of A is well-formed in x
  have hAL := (containsPt_iff _ _).1 (hA.inRect vL (inRing_of_onBoundary hvL))
  -- the rightward ray from the rightmost vertex
  have hR : ∃ f ∈ Spec.edges B true, Spec.crosses f.1 f.2 vR = true := by
    have h1 := parity1 vR hvR
    unfold Spec.parity at h1
    have hne : (Spec.edges B true).filter (fun e => Spec.crosses e.1 e.2 vR) ≠ [] := by
      intro hnil; rw [hnil] at h1; simp at h1
    obtain ⟨f, hf⟩ := List.exists_mem_of_ne_nil _ hne
    rw [List.mem_filter] at hf
    exact ⟨f, hf.1, hf.2⟩
  obtain ⟨f, hf, hcf⟩ := hR
  obtain ⟨hsf, hxf⟩ := (crosses_iff_X _ _ _).1 hcf
  have hfX := (containsPt_iff _ _).1 (inB _ (onBoundary_of_onSeg hf (onSeg_X hsf)))
  have hfa := (containsPt_iff _ _).1 (inB _ (onBoundary_of_onSeg hf (K.onSeg_left f.1 f.2)))
  have hfb := (containsPt_iff _ _).1 (inB _ (onBoundary_of_onSeg hf (K.onSeg_right f.1 f.2)))
  have hhB : rB.rect.min.y < rB.rect.max.y := by
    rcases (straddle_iff _ _ _).1 hsf with ⟨h1, h2⟩ | ⟨h1, h2⟩ <;> linarith [hfa.2.2.1, hfa.2.2.2, hfb.2.2.1, hfb.2.2.2]
  -- the leftward ray from the leftmost vertex
  have hL : ∃ g ∈ Spec.edges B true, crossesL g.1 g.2 vL = true := by
    have h1 := parity1 vL hvL
    rw [← parity_left_eq_right B vL (hin vL hvL).2] at h1
    unfold parityL at h1
    have hne : (Spec.edges B true).filter (fun e => crossesL e.1 e.2 vL) ≠ [] := by
      intro hnil; rw [hnil] at h1; simp at h1
    obtain ⟨g, hg⟩ := List.exists_mem_of_ne_nil _ hne
    rw [List.mem_filter] at hg
    exact ⟨g, hg.1, hg.2⟩
  obtain ⟨g, hg, hcg⟩ := hL
  obtain ⟨hsg, hxg⟩ := (crossesL_iff_X _ _ _).1 hcg
  have hgX := (containsPt_iff _ _).1 (inB _ (onBoundary_of_onSeg hg (onSeg_X hsg)))
  -- the lowest and the highest vertex lie in the rectangle of B
  have hD := (containsPt_iff _ _).1 (hB.inRect vD (hin vD hvD).1)
  have hU := (containsPt_iff _ _).1 (hB.inRect vU (hin vU hvU).1)
  have hAD := (containsPt_iff _ _).1 (hA.inRect vD (inRing_of_onBoundary hvD))
  simp only at hfX hgX
  unfold Box.area
  have w1 : rA.rect.max.x - rA.rect.min.x < rB.rect.max.x - rB.rect.min.x := by linarith [hfX.2.1, hgX.1]
  have w0 : 0 ≤ rA.rect.max.x - rA.rect.min.x := by linarith [hAL.1, hAL.2.1]
  have h1 : rA.rect.max.y - rA.rect.min.y ≤ rB.rect.max.y - rB.rect.min.y := by
    linarith [hD.2.2.1, hU.2.2.2]
  have h0 : 0 < rB.rect.max.y - rB.rect.min.y := by linarith
  have s1 := mul_lt_mul_of_pos_right w1 h0
  have s2 := mul_le_mul_of_nonneg_left h1 w0
  linarith

end IX
end Geo
