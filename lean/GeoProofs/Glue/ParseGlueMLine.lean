/-
  GeoProofs.Glue.ParseGlueMLine — generated parseJSONMultiLineString = the "MultiLineString" arm of the model's parse.
-/
import GeoProofs.Glue.ParseGlueMPoint

set_option linter.unusedSimpArgs false

namespace Geo.PGlue
open Geo Geo.PGen

abbrev GML := PGen.MultiLineString MF GRect Obj (List Obj) MStr

/-- one element of the model's MultiLineString -/
def mLineElem (o : POpts) (v : JVal) : Except PErr Obj :=
  match parseLineCoords v with
  | .error e => .error e
  | .ok (ps, ex) => if ps.length < 2 then .error .coordsInvalid else .ok (Obj.lineString (mkLine o ps) ps ex)

theorem newLine_eq (o : POpts) (pts : List FP) :
    newLine pts (some (o.indexKind, (o.indexGeometry : Int))) = (mkLine o (pts.map toPos), pts.map toPos) := by
  simp [newLine, mkLine]

theorem mline_fold (rec : RecT) (keys : Option GKeys) (o : POpts) :
    ∀ (vs : List JVal) (xs : List RPair), xs.map (·.2) = vs.map some → ∀ (g : GML) (c0 : List FP) (e0 : Option GExtra),
    match vs.mapM (mLineElem o) with
    | .ok cs => ∃ c' e',
        searchFold (PGen.parseJSONMultiLineString_lit1 (mops rec) keys (some (optsG o))) xs (g, none, c0, e0) =
          ({ g with collection := { g.collection with children := g.collection.children ++ cs } }, none, c', e')
    | .error e => e = .coordsInvalid ∧
        (searchFold (PGen.parseJSONMultiLineString_lit1 (mops rec) keys (some (optsG o))) xs (g, none, c0, e0)).2.1 = some .errCoordinatesInvalid := by
  intro vs
  induction vs with
  | nil => intro xs h g c0 e0; simp at h; subst h; simp [searchFold, pure, Except.pure]
  | cons v vs ih =>
    intro xs h g c0 e0
    cases xs with
    | nil => simp at h
    | cons x xs =>
      simp only [List.map_cons, List.cons.injEq] at h
      obtain ⟨hx, hxs⟩ := h
      obtain ⟨k, x2⟩ := x
      simp only at hx; subst hx
      rw [mapM_cons_except]
      have hp := lineCoords_some rec keys (some (optsG o)) v
      have hstep : PGen.parseJSONMultiLineString_lit1 (mops rec) keys (some (optsG o)) (k, some v) (g, none, c0, e0) =
          (let G := PGen.parseJSONLineStringCoords (mops rec) keys (some v) (some (optsG o))
           if !G.2.2.isNone then ((g, G.2.2, G.1, G.2.1), false)
           else if decide (Int.ofNat G.1.length < 2) then ((g, some .errCoordinatesInvalid, G.1, G.2.1), false)
           else (({ g with collection := { g.collection with children := g.collection.children ++
                    [Obj.lineString (newLine G.1 (some (PGen.toGeometryOpts (mops rec) (some (optsG o))))).1
                      (newLine G.1 (some (PGen.toGeometryOpts (mops rec) (some (optsG o))))).2 (G.2.1.map exM)] } },
                   G.2.2, G.1, G.2.1), true)) := rfl
      rw [toGeometryOpts_eq] at hstep
      generalize PGen.parseJSONLineStringCoords (mops rec) keys (some v) (some (optsG o)) = G at hp hstep
      cases hpc : parseLineCoords v with
      | error e =>
        rw [hpc] at hp
        obtain ⟨he, hg⟩ := hp
        have hme : mLineElem o v = .error e := by unfold mLineElem; rw [hpc]
        rw [hme]
        simp only
        refine ⟨he, ?_⟩
        rw [searchFold, hstep]
        simp [hg]
      | ok pe =>
        obtain ⟨ps, ex⟩ := pe
        rw [hpc] at hp
        obtain ⟨h1, h2, h3⟩ := hp
        have hlen : ps.length = G.1.length := by rw [← h1]; simp
        by_cases h2' : ps.length < 2
        · have hd : ((G.1.length : Nat) : Int) < 2 := by rw [← hlen]; omega
          have hme : mLineElem o v = .error .coordsInvalid := by unfold mLineElem; rw [hpc]; simp [h2']
          rw [hme]
          simp only
          refine ⟨trivial, ?_⟩
          rw [searchFold, hstep]
          simp [h3, hd]
        · have hd : ¬ (((G.1.length : Nat) : Int) < 2) := by rw [← hlen]; omega
          have hme : mLineElem o v = .ok (Obj.lineString (mkLine o ps) ps ex) := by unfold mLineElem; rw [hpc]; simp [h2']
          rw [hme]
          have hs : PGen.parseJSONMultiLineString_lit1 (mops rec) keys (some (optsG o)) (k, some v) (g, none, c0, e0) =
              (({ g with collection := { g.collection with children := g.collection.children ++ [Obj.lineString (mkLine o ps) ps ex] } },
                none, G.1, G.2.1), true) := by
            rw [hstep]; simp [h3, hd, newLine_eq, h1, h2]
          simp only
          rw [searchFold_cons_true _ _ _ _ _ hs]
          have := ih xs hxs { g with collection := { g.collection with children := g.collection.children ++ [Obj.lineString (mkLine o ps) ps ex] } } G.1 G.2.1
          cases hm : vs.mapM (mLineElem o) with
          | error e => rw [hm] at this; simpa using this
          | ok cs =>
            rw [hm] at this
            obtain ⟨c', e', hf⟩ := this
            exact ⟨c', e', by rw [hf]; simp⟩

theorem mLineElem_fun (o : POpts) :
    (fun v => do
      let (ps, ex) ← parseLineCoords v
      if ps.length < 2 then throw PErr.coordsInvalid
      pure (Obj.lineString (mkLine o ps) ps ex)) = mLineElem o := by
  funext v
  unfold mLineElem
  cases parseLineCoords v with
  | error e => rfl
  | ok pe =>
    obtain ⟨ps, ex⟩ := pe
    by_cases h : ps.length < 2 <;> simp [bind, Except.bind, h, throw, throwThe, MonadExceptOf.throw, pure, Except.pure]

/-- the "MultiLineString" arm of the model's parse -/
def mMultiLineString (o : POpts) (k : Keys) : Except PErr Obj :=
  match reqArray k.coordinates .coordsMissing .coordsInvalid with
  | .error e => .error e
  | .ok rc =>
    match rc.elems.mapM (mLineElem o) with
    | .error e => .error e
    | .ok children =>
      let ob := mkColl o .multiLineString children (withMembers none k)
      if o.requireValid && !ob.valid then .error .coordsInvalid else .ok ob

theorem coll_valid_mls (cs : List Obj) (ex : Option Geo.Extra) (b : Bool) :
    (Obj.coll .multiLineString cs ex b).valid = Obj.allValid cs := by simp [Obj.valid]

theorem multiLineString_eq (rec : RecT) (gk : GKeys) (o : POpts) (k : Keys) (hk : KeysRel gk k) :
    Agree (PGen.parseJSONMultiLineString (mops rec) (some gk) (some (optsG o))) (mMultiLineString o k) := by
  unfold PGen.parseJSONMultiLineString mMultiLineString reqArray
  simp only [m_gjsonResultExists, m_gjsonResultIsArray, m_gjsonResultForEach, m_nilObject, m_objectOfMultiLineString,
    m_multiLineStringValid, m_zeroParseOptions, deref_some, hk.coords]
  cases hc : k.coordinates with
  | none => simp [Agree, errG]
  | some rc =>
    cases hb : rc.isArray with
    | false => simp [Agree, errG, hb]
    | true =>
      simp only [hb, Option.isSome_some, Bool.not_true, Bool.false_eq_true, if_false, ↓reduceIte]
      have hf := mline_fold rec (some gk) o rc.elems (forEach (some rc)) (forEach_vals rc)
        (PGen.zeroMultiLineString (mops rec)) [] none
      cases hm : rc.elems.mapM (mLineElem o) with
      | error e =>
        rw [hm] at hf
        obtain ⟨he, h1⟩ := hf
        simp [Agree, errG, he, h1, hm]
      | ok cs =>
        rw [hm] at hf
        obtain ⟨c', e', hs⟩ := hf
        simp only [hm]
        rw [hs]
        simp only [Option.isNone_none, Bool.not_true, Bool.false_eq_true, if_false]
        have hb' := bbox_eq rec none gk (some (optsG o)) k hk
        have hz : (PGen.zeroMultiLineString (mops rec)).collection.extra = none := rfl
        have hzc : (PGen.zeroMultiLineString (mops rec)).collection.children = [] := rfl
        simp only [hz, hzc, List.nil_append]
        generalize PGen.parseBBoxAndExtras (mops rec) none (some gk) (some (optsG o)) = B at hb' ⊢
        obtain ⟨hb1, hb2⟩ := hb'
        simp only [hb1, Option.isNone_none, Bool.not_true, Bool.false_eq_true, if_false]
        have ho : (optsG o).requireValid = o.requireValid := rfl
        rw [ho, initRect_obj rec .multiLineString _ o rfl]
        simp only [hb2, Option.map_none, collObj, mkColl, coll_valid_mls]
        cases o.requireValid <;> cases hv : Obj.allValid cs <;> simp [Agree, errG, hv]

#print axioms multiLineString_eq

end Geo.PGlue
