/-
  GeoProofs.Float.Recip — `t := cmpxs * (1 / rxs)` of `IntersectsSegment` against 0 and 1.

  n, d ∈ D3 (k/2^8, |k| ≤ 2^51), d ≠ 0, q = n/d exact, w = n · rn(1/d), t = rn(w).
  * |w - q| ≤ |q| · 2^-53 (one rounding of the reciprocal);
  * q < 0 ⇒ q ≤ -2^-51, so w ≤ -2^-52 and t < 0;   q ≥ 0 ⇒ w ≥ 0 ⇒ t ≥ 0;
  * q ≤ 1 ⇒ w ≤ 1 + 2^-53, which rounds to 1 (tie to even) or below;
  * q > 1 ⇒ q ≥ 1 + 1/|k_d| ≥ 1 + 2^-51 ⇒ w ≥ (1 + 2^-51)(1 - 2^-53) ≥ 1 + 2^-52 ⇒ t > 1.
  So the decisions `t >= 0`, `t <= 1` are the exact ones ON ALL OF E (the margin needed is
  |k_d| < 2^52 - 1/2; E gives |k_d| ≤ 2^51), not only on the integer sub-regime.
-/
import GeoProofs.Float.BridgeRaycast

namespace Geo.F

theorem rn_one_add_half : rn (1 + 1 / 2 ^ 53) = 1 := by
  have hx0 : (1 + 1 / 2 ^ 53 : ℚ) ≠ 0 := by norm_num
  have h1 : (0 : ℤ) ≤ ilog (1 + 1 / 2 ^ 53) := le_ilog_of_le hx0 (by norm_num [abs_of_pos])
  have h2 : ilog (1 + 1 / 2 ^ 53) < 1 := ilog_lt_of_lt hx0 (by norm_num [abs_of_pos])
  have he : expo (1 + 1 / 2 ^ 53) = -52 := by unfold expo; omega
  have hu : ulp (1 + 1 / 2 ^ 53) = 1 / 2 ^ 52 := by unfold ulp; rw [he]; norm_num
  unfold rn
  rw [hu]
  have : (1 + 1 / 2 ^ 53 : ℚ) / (1 / 2 ^ 52) = ((2 ^ 52 : ℤ) : ℚ) + 1 / 2 := by norm_num
  rw [this, rne_half_even _ (by norm_num)]
  norm_num

theorem rn_one_add_ulp : rn (1 + 1 / 2 ^ 52) = 1 + 1 / 2 ^ 52 :=
  rn_of_grid (2 ^ 52 + 1) (-52) (by norm_num) (by norm_num) (by norm_num)

theorem tcmp_core {w q : ℚ} (hw : |w - q| ≤ |q| / 2 ^ 53) (G1 : q < 0 → q ≤ -(1 / 2 ^ 51))
    (G2 : 1 < q → 1 + 1 / 2 ^ 51 ≤ q) : (0 ≤ rn w ↔ 0 ≤ q) ∧ (rn w ≤ 1 ↔ q ≤ 1) := by
  obtain ⟨hw1, hw2⟩ := abs_le.mp hw
  constructor
  · constructor
    · intro h; by_contra hq
      have hq := not_le.mp hq
      have := G1 hq
      rw [abs_of_neg hq] at hw2
      have hw' : w ≤ -(2 : ℚ) ^ (-52 : ℤ) := by norm_num; linarith
      have := rn_le_neg_zpow (by norm_num) hw'
      have := two_zpow_pos (-52)
      linarith
    · intro h
      rw [abs_of_nonneg h] at hw1
      exact rn_nonneg (by linarith)
  · constructor
    · intro h; by_contra hq
      have hq := not_le.mp hq
      have := G2 hq
      rw [abs_of_pos (by linarith)] at hw1
      have hw' : 1 + 1 / 2 ^ 52 ≤ w := by linarith
      have := rn_mono hw'
      rw [rn_one_add_ulp] at this
      have : (0 : ℚ) < 1 / 2 ^ 52 := by norm_num
      linarith
    · intro h
      rcases le_or_gt q 0 with hq | hq
      · rw [abs_of_nonpos hq] at hw2
        have := rn_nonpos (x := w) (by linarith)
        linarith
      · rw [abs_of_pos hq] at hw2
        have hw' : w ≤ 1 + 1 / 2 ^ 53 := by linarith
        have := rn_mono hw'
        rwa [rn_one_add_half] at this

theorem D3.abs_le {x : ℚ} (h : D3 x) : |x| ≤ 2 ^ 43 := by
  obtain ⟨k, hk, rfl⟩ := h
  have : |(k : ℚ)| ≤ 2 ^ 51 := by exact_mod_cast hk
  rw [abs_div, abs_of_pos (by positivity : (0 : ℚ) < 2 ^ 8), div_le_iff₀ (by positivity)]
  calc |(k : ℚ)| ≤ 2 ^ 51 := this
    _ = 2 ^ 43 * 2 ^ 8 := by norm_num

/-- gaps of the exact quotient -/
theorem D3.quot_gaps {n d : ℚ} (hn : D3 n) (hd : D3 d) (hd0 : d ≠ 0) :
    (n / d < 0 → n / d ≤ -(1 / 2 ^ 51)) ∧ (1 < n / d → 1 + 1 / 2 ^ 51 ≤ n / d) := by
  obtain ⟨kn, _, rfl⟩ := hn; obtain ⟨kd, hkd, rfl⟩ := hd
  have hkd0 : kd ≠ 0 := by rintro rfl; simp at hd0
  have hq0 : (kd : ℚ) ≠ 0 := by exact_mod_cast hkd0
  have e : (kn : ℚ) / 2 ^ 8 / (kd / 2 ^ 8) = kn / kd := by field_simp
  rw [e]
  have hD : |(kd : ℚ)| ≤ 2 ^ 51 := by exact_mod_cast hkd
  have hDpos : 0 < |(kd : ℚ)| := abs_pos.mpr hq0
  -- any non-zero quotient m / kd has magnitude ≥ 2^-51
  have gap : ∀ m : ℤ, m ≠ 0 → 1 / 2 ^ 51 ≤ |(m : ℚ) / kd| := by
    intro m hm
    have : (1 : ℚ) ≤ |(m : ℚ)| := by exact_mod_cast Int.one_le_abs hm
    rw [abs_div, le_div_iff₀ hDpos]
    calc (1 : ℚ) / 2 ^ 51 * |(kd : ℚ)| ≤ 1 / 2 ^ 51 * 2 ^ 51 :=
          mul_le_mul_of_nonneg_left hD (by norm_num)
      _ = 1 := by norm_num
      _ ≤ _ := this
  constructor
  · intro h
    have hkn : kn ≠ 0 := by rintro rfl; simp at h
    have := gap kn hkn
    rw [abs_of_neg h] at this; linarith
  · intro h
    have hne : kn - kd ≠ 0 := by
      intro h0
      have : kn = kd := by omega
      rw [this, div_self hq0] at h; exact lt_irrefl _ h
    have := gap (kn - kd) hne
    have e2 : ((kn - kd : ℤ) : ℚ) / kd = kn / kd - 1 := by push_cast; field_simp
    rw [e2, abs_of_pos (by linarith)] at this
    linarith

/-- **the reciprocal-multiply comparison is exact on E** -/
theorem tcmp {n d : ℚ} (hn : D3 n) (hd : D3 d) (hd0 : d ≠ 0) :
    (0 ≤ fmul n (fdiv 1 d) ↔ 0 ≤ n / d) ∧ (fmul n (fdiv 1 d) ≤ 1 ↔ n / d ≤ 1) := by
  obtain ⟨G1, G2⟩ := hn.quot_gaps hd hd0
  refine tcmp_core ?_ G1 G2
  -- one rounding of the reciprocal
  have hdabs := hd.abs_le
  have hdpos : 0 < |d| := abs_pos.mpr hd0
  have hnorm : (2 : ℚ) ^ (-1022 : ℤ) ≤ |1 / d| := by
    rw [abs_div, abs_one, le_div_iff₀ hdpos]
    have h1 : (2 : ℚ) ^ (-1022 : ℤ) ≤ 2 ^ (-43 : ℤ) := two_zpow_le (by norm_num)
    have h2 : (2 : ℚ) ^ (-43 : ℤ) * 2 ^ 43 = 1 := by norm_num
    have := two_zpow_pos (-1022)
    nlinarith
  have hr := rn_rel_error (Or.inr hnorm)
  have e : n * fdiv 1 d - n / d = n * (rn (1 / d) - 1 / d) := by unfold fdiv; ring
  rw [e, abs_mul]
  calc |n| * |rn (1 / d) - 1 / d| ≤ |n| * (|1 / d| * 2 ^ (-53 : ℤ)) :=
        mul_le_mul_of_nonneg_left hr (abs_nonneg _)
    _ = |n / d| / 2 ^ 53 := by
        rw [abs_div, abs_div, abs_one]; norm_num; ring

end Geo.F
