/-
  GeoProofs.Glue.IndexGlueRSearch — generated `rnCompressSearch` / `rCompressSearch`
  (geometry/rtree.go) on `Array Nat` equal the model's `rnSearchBytes` / `rSearchBytes`.
-/
import GeoProofs.Glue.IndexGlueSearch
import GeoProofs.Glue.IndexGlueR

set_option linter.unusedSectionVars false

namespace Geo.IGlue
open Geo Geo.IGen

variable {F S SR σ : Type} [KNum F] [Carrier F] [Compat F]
variable (segAt : SR → Int → S) (segRect : S → Rect F) (f64 : Nat → F)

/-! ## the coordinate reads -/

theorem readLE_eq_readBytes (data : Array Nat) (a k : Nat) :
    readLE data a k = (readBytes data a k).map leVal := by
  induction k generalizing a with
  | zero => rfl
  | succ k ih =>
    simp only [readLE, readBytes, ih, Option.bind_eq_bind, Option.pure_def]
    cases data[a]? with
    | none => rfl
    | some b =>
      cases readBytes data (a + 1) k with
      | none => rfl
      | some bs => rfl

/-- `binary.LittleEndian.Uint64(data[a:])` followed by anything -/
theorem le64_bind {β : Type} (data : Array Nat) (a : Nat) (k : Nat → Option β) :
    (((aOps segAt segRect f64).bytesFrom data (Int.ofNat a)).bind fun sl =>
        ((aOps segAt segRect f64).leUint64 sl).bind k)
      = (readBytes data a 8).bind fun bs => k (leVal bs) := by
  have e : (((aOps segAt segRect f64).bytesFrom data (Int.ofNat a)).bind fun sl =>
        ((aOps segAt segRect f64).leUint64 sl).bind k) = (readLE data a 8).bind k := by
    by_cases h : a ≤ data.size
    · have hf : (aOps segAt segRect f64).bytesFrom data (Int.ofNat a) = some (data.extract a data.size) := by
        simp [aOps]; omega
      rw [hf]
      simp only [Option.bind_some]
      have := readLE_extract data a 8 h 0
      simp only [Nat.add_zero] at this
      show (readLE (data.extract a data.size) 0 8).bind k = _
      rw [this]
    · have hf : (aOps segAt segRect f64).bytesFrom data (Int.ofNat a) = none := by
        simp [aOps]; omega
      rw [hf]
      have hn : data[a]? = none := by simp; omega
      simp [readLE, hn]
  rw [e, readLE_eq_readBytes]
  cases readBytes data a 8 <;> rfl

theorem ofNat_add_eight (a : Nat) : Int.ofNat a + 8 = Int.ofNat (a + 8) := rfl

/-! ## the child loop of an inner node -/

theorem childLoop_eq (data : Array Nat) (dec : List Nat → F) (bx : Nat → GBox F) (q : GBox F)
    (f : σ → Nat → σ × Bool) (h : Nat)
    (body : Int → Int × σ → Option (Flow (Int × σ) (σ × Bool)))
    (hbody : ∀ (i : Int) (a : Nat) (st : σ), body i (Int.ofNat a, st) =
      (readLE data a 4).bind fun naddr =>
        (rnSearchBytes dec bx q f data h naddr st).bind fun r =>
          if r.2 = true then some (Flow.next (Int.ofNat (a + 4), r.1))
          else some (Flow.ret (r.1, false)))
    (l : List Int) (a : Nat) (st : σ) :
    post (loopF l (Int.ofNat a, st) body) = rnSearchBytes.go dec bx q f data h l.length a st := by
  induction l generalizing a st with
  | nil => rw [List.length_nil, rnSearchBytes.go.eq_1]; rfl
  | cons x xs ih =>
    rw [List.length_cons, rnSearchBytes.go.eq_2]
    simp only [loopF, hbody, Option.bind_eq_bind, Option.pure_def]
    cases hn : readLE data a 4 with
    | none => rfl
    | some naddr =>
      simp only [Option.bind_some]
      cases hs : rnSearchBytes dec bx q f data h naddr st with
      | none => rfl
      | some r =>
        obtain ⟨s', c⟩ := r
        simp only [Option.bind_some]
        cases c with
        | false => rfl
        | true =>
          simp only [if_true]
          exact ih (a + 4) s'

/-! ## the search -/

theorem ofNat_succ_sub_one (h : Nat) : Int.ofNat (h + 1) - 1 = Int.ofNat h := by
  show ((h + 1 : Nat) : Int) - 1 = (h : Int)
  omega

theorem post_eq1 (r : Option (Exit (Int × σ) (σ × Bool)))
    (k2 : Exit (Int × σ) (σ × Bool) → Option (σ × Bool))
    (h2 : ∀ x, k2 (Exit.ret x) = some x) (h2' : ∀ p, k2 (Exit.done p) = some (p.2, true)) :
    r.bind k2 = post r := by
  cases r with
  | none => rfl
  | some e => cases e <;> simp [post, h2, h2']

theorem f64fb_eq (bs : List Nat) :
    (aOps segAt segRect f64).float64frombits (leVal bs) = decOf f64 bs := rfl

theorem toGBox_mk (a b c d : F) : toGBox ⟨⟨a, b⟩, ⟨c, d⟩⟩ = (⟨a, b, c, d⟩ : GBox F) := rfl

theorem ofNat_zero_beq : (Int.ofNat 0 == 0) = true := rfl

theorem ofNat_succ_beq (h : Nat) : (Int.ofNat (h + 1) == 0) = false := by
  have : Int.ofNat (h + 1) ≠ 0 := by
    show ((h + 1 : Nat) : Int) ≠ 0
    omega
  simpa using this

theorem rnCompressSearch_eq (height : Nat) (fuel : Nat) (hf : height < fuel) (data : Array Nat)
    (addr : Nat) (series : SR) (rect : Rect F) (iter : σ → S → Int → σ × Bool) (st : σ) :
    IGen.rnCompressSearch (aOps segAt segRect f64) fuel data (Int.ofNat addr) series rect
        (Int.ofNat height) iter st
      = Geo.rnSearchBytes (decOf f64) (boxOf segAt segRect series) (toGBox rect)
          (fun s i => iter s (segAt series (Int.ofNat i)) (Int.ofNat i)) data height addr st := by
  induction height generalizing fuel addr st with
  | zero =>
    cases fuel with
    | zero => omega
    | succ fuel =>
      have e16 : addr + 8 + 8 = addr + 16 := by omega
      have e24 : addr + 16 + 8 = addr + 24 := by omega
      have e32 : addr + 24 + 8 = addr + 32 := by omega
      rw [rnSearchBytes.eq_1]
      unfold IGen.rnCompressSearch
      simp only [Option.bind_eq_bind, Option.pure_def, ofNat_add_one, ofNat_add_eight, le64_bind,
        bytesAt_ofNat, rir_eq, f64fb_eq, toGBox_mk, e16, e24, e32, ofNat_zero_beq, if_true]
      refine congrArg _ (funext fun b0 => ?_)
      refine congrArg _ (funext fun b1 => ?_)
      refine congrArg _ (funext fun b2 => ?_)
      refine congrArg _ (funext fun b3 => ?_)
      by_cases hm : (!(toGBox rect).meets
          ⟨decOf f64 b0, decOf f64 b1, decOf f64 b2, decOf f64 b3⟩) = true
      · rw [if_pos hm]; exact if_pos hm
      · rw [if_neg hm]; refine Eq.trans (if_neg hm) ?_
        refine congrArg _ (funext fun count => ?_)
        refine congrArg _ (funext fun ib => ?_)
        rw [itemLoop_eq data ib (boxOf segAt segRect series) (toGBox rect)
          (fun s i => iter s (segAt series (Int.ofNat i)) (Int.ofNat i))]
        · rw [intRange_zero_length]
          cases hv : visitItemsBytes (boxOf segAt segRect series) (toGBox rect)
              (fun s i => iter s (segAt series (Int.ofNat i)) (Int.ofNat i)) data ib count
              (addr + 32 + 1 + 1) st with
          | none => rfl
          | some r =>
            obtain ⟨s1, c1⟩ := r
            cases c1 <;> rfl
        · intro i a st'
          simp only [ofNat_add_ofNat]
          rw [readNum_bind]
          refine congrArg _ (funext fun it => ?_)
          simp only [segRect_eq, segAt_eq]
          by_cases hm : (boxOf segAt segRect series it).meets (toGBox rect) = true
          · have hm' := hm
            unfold boxOf at hm'
            simp only [hm, hm', if_true]
            by_cases hc : (iter st' (segAt series (Int.ofNat it)) (Int.ofNat it)).2 = true
            · simp only [hc, Bool.not_true, Bool.false_eq_true, if_false, if_true]
            · have hc' := Bool.eq_false_iff.mpr hc
              simp only [hc', Bool.not_false, Bool.false_eq_true, if_false, if_true]
          · have hm' := hm
            unfold boxOf at hm'
            simp only [hm, hm']
            rfl
  | succ h ih =>
    cases fuel with
    | zero => omega
    | succ fuel =>
      have e16 : addr + 8 + 8 = addr + 16 := by omega
      have e24 : addr + 16 + 8 = addr + 24 := by omega
      have e32 : addr + 24 + 8 = addr + 32 := by omega
      have ih' := ih fuel (by omega)
      rw [rnSearchBytes.eq_1]
      unfold IGen.rnCompressSearch
      simp only [Option.bind_eq_bind, Option.pure_def, ofNat_add_one, ofNat_add_eight, le64_bind,
        bytesAt_ofNat, rir_eq, f64fb_eq, toGBox_mk, e16, e24, e32, ofNat_succ_beq,
        Bool.false_eq_true, if_false, ofNat_succ_sub_one, ih']
      refine congrArg _ (funext fun b0 => ?_)
      refine congrArg _ (funext fun b1 => ?_)
      refine congrArg _ (funext fun b2 => ?_)
      refine congrArg _ (funext fun b3 => ?_)
      by_cases hm : (!(toGBox rect).meets
          ⟨decOf f64 b0, decOf f64 b1, decOf f64 b2, decOf f64 b3⟩) = true
      · rw [if_pos hm]; exact if_pos hm
      · rw [if_neg hm]; refine Eq.trans (if_neg hm) ?_
        refine congrArg _ (funext fun count => ?_)
        refine Eq.trans (post_eq1 _ _ (fun _ => rfl) ?_) ?_
        · rintro ⟨a, s⟩; rfl
        have hl := childLoop_eq data (decOf f64) (boxOf segAt segRect series) (toGBox rect)
          (fun s i => iter s (segAt series (Int.ofNat i)) (Int.ofNat i)) h
        rw [hl _ ?_ (intRange 0 (Int.ofNat count)) (addr + 32 + 1) st, intRange_zero_length]
        intro i a st'
        simp only [le32_bind, ofNat_add_four]
        refine congrArg _ (funext fun naddr => ?_)
        refine congrArg _ (funext fun r => ?_)
        cases r.2 <;> rfl

/-- The hypothesis on the fuel is about the height byte actually stored at `addr`: `Array Nat`
    does not bound its entries by 256, so `256 < fuel` alone would not do. -/
theorem rCompressSearch_eq (fuel : Nat) (data : Array Nat) (addr : Nat)
    (hf : ∀ h, data[addr]? = some h → h < fuel) (series : SR)
    (rect : Rect F) (iter : σ → S → Int → σ × Bool) (st : σ) :
    IGen.rCompressSearch (aOps segAt segRect f64) fuel data (Int.ofNat addr) series rect iter st
      = Geo.rSearchBytes (decOf f64) (boxOf segAt segRect series) (toGBox rect)
          (fun s i => iter s (segAt series (Int.ofNat i)) (Int.ofNat i)) data addr st := by
  unfold IGen.rCompressSearch Geo.rSearchBytes
  have hlen : (aOps segAt segRect f64).bytesLen data = Int.ofNat data.size := rfl
  simp only [Option.bind_eq_bind, ofNat_add_one, bytesAt_ofNat, hlen]
  by_cases he : addr = data.size
  · subst he
    simp
  · have e1 : (Int.ofNat addr == Int.ofNat data.size) = false := by
      have : Int.ofNat addr ≠ Int.ofNat data.size := fun hc => he (Int.ofNat.inj hc)
      simpa using this
    have e2 : (addr == data.size) = false := by simpa using he
    simp only [e1, e2, Bool.false_eq_true, if_false]
    cases h0 : data[addr]? with
    | none => rfl
    | some h =>
      simp only [Option.bind_some]
      rw [rnCompressSearch_eq segAt segRect f64 h fuel (hf h h0)]
      cases rnSearchBytes (decOf f64) (boxOf segAt segRect series) (toGBox rect)
        (fun s i => iter s (segAt series (Int.ofNat i)) (Int.ofNat i)) data h (addr + 1) st <;> rfl

/-- bytes below 256 and `256 ≤ fuel`: the form the callers use -/
theorem rCompressSearch_eq_bytes (fuel : Nat) (data : Array Nat) (addr : Nat) (hfuel : 256 ≤ fuel)
    (hb : ∀ (i b : Nat), data[i]? = some b → b < 256) (series : SR)
    (rect : Rect F) (iter : σ → S → Int → σ × Bool) (st : σ) :
    IGen.rCompressSearch (aOps segAt segRect f64) fuel data (Int.ofNat addr) series rect iter st
      = Geo.rSearchBytes (decOf f64) (boxOf segAt segRect series) (toGBox rect)
          (fun s i => iter s (segAt series (Int.ofNat i)) (Int.ofNat i)) data addr st :=
  rCompressSearch_eq segAt segRect f64 fuel data addr
    (fun h hh => Nat.lt_of_lt_of_le (hb addr h hh) hfuel) series rect iter st

end Geo.IGlue

#print axioms Geo.IGlue.rnCompressSearch_eq
#print axioms Geo.IGlue.rCompressSearch_eq
#print axioms Geo.IGlue.rCompressSearch_eq_bytes
