/-
  GeoProofs.Props.C04Move — `Series.move` (baseSeries.Move) produces a freshly built series on
  the translated points, hence C04 (`Series.SearchExact`) carries over to moved series.
-/
import GeoProofs.SeriesSearchR

namespace Geo

/-- the translated points -/
abbrev mvPts (pts : Array Pt) (dx dy : Rat) : Array Pt :=
  pts.map (fun p => (⟨p.x + dx, p.y + dy⟩ : Pt))

theorem Series.move_pts (s : Series) (dx dy : Rat) :
    (s.move dx dy).pts = s.pts.map (fun p => ⟨p.x + dx, p.y + dy⟩) := by
  unfold Series.move
  cases s.index with
  | none => rfl
  | some data =>
    simp only
    split <;> rfl

theorem Series.move_closed (s : Series) (dx dy : Rat) : (s.move dx dy).closed = s.closed := by
  unfold Series.move
  cases s.index with
  | none => rfl
  | some data =>
    simp only
    split <;> rfl

/-- shape of a moved series: the default rebuild, or the default rebuild (which got no index)
    with the index of some kind built on the translated points. -/
theorem Series.move_cases (s : Series) (dx dy : Rat) :
    s.move dx dy = mkSeries (mvPts s.pts dx dy) s.closed .quadtree 64 ∨
    (∃ data, s.index = some data) ∧
      (mkSeries (mvPts s.pts dx dy) s.closed .quadtree 64).index = none ∧
      ∃ k : IndexKind, s.move dx dy =
        { mkSeries (mvPts s.pts dx dy) s.closed .quadtree 64 with
          index := buildIndexBytes (mvPts s.pts dx dy) s.closed
            (mkSeries (mvPts s.pts dx dy) s.closed .quadtree 64).rect k } := by
  unfold Series.move
  cases hidx : s.index with
  | none => left; rfl
  | some data =>
    simp only
    cases hn : (mkSeries (mvPts s.pts dx dy) s.closed .quadtree 64).index with
    | some d => left; rfl
    | none =>
      right
      exact ⟨⟨data, rfl⟩, rfl, _, rfl⟩

theorem mkSeries_index_some_size {pts : Array Pt} {closed : Bool} {kind : IndexKind}
    {minPoints : Nat} {data : Array Nat}
    (h : (mkSeries pts closed kind minPoints).index = some data) : 1 ≤ pts.size := by
  simp only [mkSeries] at h
  split at h
  · rename_i hc
    simp only [Bool.and_eq_true, bne_iff_ne, ne_eq, decide_eq_true_eq] at hc
    omega
  · exact absurd h (by simp)

/-- **a moved series is a freshly built series on the translated points.** -/
theorem Series.move_eq_mkSeries (pts : Array Pt) (closed : Bool) (kind : IndexKind)
    (minPoints : Nat) (dx dy : Rat) :
    ∃ (k : IndexKind) (m : Nat), (mkSeries pts closed kind minPoints).move dx dy =
      mkSeries (pts.map (fun p => ⟨p.x + dx, p.y + dy⟩)) closed k m := by
  rcases Series.move_cases (mkSeries pts closed kind minPoints) dx dy with h | ⟨⟨data, hd⟩, _, k, hk⟩
  · exact ⟨.quadtree, 64, h⟩
  · refine ⟨k, 1, ?_⟩
    rw [hk]
    have hsz := mkSeries_index_some_size hd
    have hsz' : 1 ≤ (mvPts pts dx dy).size := by simpa [mvPts] using hsz
    show _ = mkSeries (mvPts pts dx dy) closed k 1
    have hc : ((1 : Nat) != 0 && decide ((mvPts pts dx dy).size ≥ 1)) = true := by
      simp only [Bool.and_eq_true, bne_iff_ne, ne_eq, decide_eq_true_eq]
      exact ⟨by omega, hsz'⟩
    simp only [mkSeries, hc, if_true]

/-- **C04 for moved series** (size/float hypotheses on the translated points). -/
theorem Series.move_search_exact_dyadic (pts : Array Pt) (closed : Bool) (kind : IndexKind)
    (minPoints : Nat) (dx dy : Rat)
    (hn : (pts.map (fun p => (⟨p.x + dx, p.y + dy⟩ : Pt))).size < 2 ^ 32)
    (hq : (qBytesOf (pts.map (fun p => (⟨p.x + dx, p.y + dy⟩ : Pt))) closed).size < 2 ^ 32)
    (hr : (rBytesOf (pts.map (fun p => (⟨p.x + dx, p.y + dy⟩ : Pt))) closed).size < 2 ^ 32)
    (hd : ∀ p ∈ (pts.map (fun p => (⟨p.x + dx, p.y + dy⟩ : Pt))).toList,
      Dyadic53 p.x ∧ Dyadic53 p.y) :
    ((mkSeries pts closed kind minPoints).move dx dy).SearchExact := by
  obtain ⟨k, m, h⟩ := Series.move_eq_mkSeries pts closed kind minPoints dx dy
  rw [h]
  exact series_search_exact_dyadic _ closed k m hn (fun _ => hq) (fun _ => ⟨hr, hd⟩)

/-! ### the R-tree case made explicit, and a non-vacuity example -/

theorem buildIndexBytes_rtree_header (pts : Array Pt) (closed : Bool) (rect : Box) :
    ∃ d, buildIndexBytes pts closed rect .rtree = some d ∧ d[0]? = some 1 := by
  refine ⟨_, rfl, ?_⟩
  rw [getElem?_putU32_of_outside _ 1 _ 0 (by omega),
    (rtree_compress_ext encF64 _ _).2 0 (by simp)]
  rfl

/-- an R-tree-indexed series keeps an index when moved: the default quadtree from 64 points on,
    the R-tree again below. -/
theorem Series.move_rtree_eq (pts : Array Pt) (closed : Bool) (minPoints : Nat) (dx dy : Rat)
    (h0 : minPoints ≠ 0) (hm : minPoints ≤ pts.size) :
    (mkSeries pts closed .rtree minPoints).move dx dy =
      if 64 ≤ pts.size then mkSeries (mvPts pts dx dy) closed .quadtree 64
      else mkSeries (mvPts pts dx dy) closed .rtree 1 := by
  have hc : (minPoints != 0 && decide (pts.size ≥ minPoints)) = true := by
    simp only [Bool.and_eq_true, bne_iff_ne, ne_eq, decide_eq_true_eq]
    exact ⟨h0, hm⟩
  obtain ⟨d, hd, hd0⟩ := buildIndexBytes_rtree_header pts closed (processPoints pts closed).rect
  have hidx : (mkSeries pts closed .rtree minPoints).index = some d := by
    simp only [mkSeries, hc, if_true, hd]
  have hsz : (mvPts pts dx dy).size = pts.size := by simp [mvPts]
  unfold Series.move
  simp only [hidx]
  show (match (mkSeries (mvPts pts dx dy) closed .quadtree 64).index with
    | some _ => mkSeries (mvPts pts dx dy) closed .quadtree 64
    | none => _) = _
  by_cases h64 : 64 ≤ pts.size
  · have hc' : ((64 : Nat) != 0 && decide ((mvPts pts dx dy).size ≥ 64)) = true := by
      simp only [Bool.and_eq_true, bne_iff_ne, ne_eq, decide_eq_true_eq]
      exact ⟨by omega, by omega⟩
    rw [if_pos h64]
    simp only [mkSeries, hc', if_true, buildIndexBytes]
  · have hc' : ((64 : Nat) != 0 && decide ((mvPts pts dx dy).size ≥ 64)) = false := by
      simp only [Bool.and_eq_false_imp, bne_iff_ne, ne_eq, decide_eq_false_iff_not]
      intro _; omega
    have hc1 : ((1 : Nat) != 0 && decide ((mvPts pts dx dy).size ≥ 1)) = true := by
      simp only [Bool.and_eq_true, bne_iff_ne, ne_eq, decide_eq_true_eq]
      exact ⟨by omega, by omega⟩
    rw [if_neg h64]
    simp only [mkSeries, hc', hc1, if_true, hd0, Bool.false_eq_true, if_false]

/-- non-vacuity: a 4-point R-tree-indexed ring (threshold 2, so it has an index) moved by (1, 2)
    has the shifted points and still has an index. -/
example :
    let s := mkSeries #[⟨0, 0⟩, ⟨1, 0⟩, ⟨1, 1⟩, ⟨0, 1⟩] true .rtree 2
    s.index.isSome = true ∧
    (s.move 1 2).pts = #[⟨1, 2⟩, ⟨2, 2⟩, ⟨2, 3⟩, ⟨1, 3⟩] ∧
    (s.move 1 2).index.isSome = true := by
  refine ⟨rfl, ?_, ?_⟩
  · rw [Series.move_pts]
    simp [mkSeries]
    norm_num
  · rw [Series.move_rtree_eq _ _ _ _ _ (by decide) (by decide), if_neg (by decide)]
    simp [mkSeries, buildIndexBytes, mvPts]

end Geo
