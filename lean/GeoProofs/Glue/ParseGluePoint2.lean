/-
  GeoProofs.Glue.ParseGluePoint2 — generated parseJSONPoint = the "Point" arm of the model's parse.
-/
import GeoProofs.Glue.ParseGluePoint

set_option linter.unusedSimpArgs false

namespace Geo.PGlue
open Geo Geo.PGen

/-- result of a generated parser against the model's: same object, or the corresponding error -/
def Agree (g : Obj × Option (PGen.Err MStr)) (m : Except PErr Obj) : Prop :=
  match m with
  | .ok ob => g = (ob, none)
  | .error e => g.2 = some (errG e)

theorem pointCoords_none (rec : RecT) (gk : GKeys) (opts : Option GOpts) :
    PGen.parseJSONPointCoords (mops rec) (some gk) none opts =
      match gk.rCoordinates with
      | none => ((mfInt 0, mfInt 0), none, some .errCoordinatesMissing)
      | some rc => if !rc.isArray then ((mfInt 0, mfInt 0), none, some .errCoordinatesInvalid)
                   else PGen.parseJSONPointCoords (mops rec) (some gk) (some rc) opts := by
  cases h : gk.rCoordinates with
  | none => unfold PGen.parseJSONPointCoords; simp [h]
  | some rc =>
    cases hb : rc.isArray with
    | false => unfold PGen.parseJSONPointCoords; simp [h, hb]
    | true => simp only [Bool.not_true, Bool.false_eq_true, if_false]; unfold PGen.parseJSONPointCoords; simp [h, hb]

/-- the "Point" arm of the model's parse -/
def mPoint (o : POpts) (k : Keys) : Except PErr Obj :=
  match k.coordinates with
  | none => .error .coordsMissing
  | some rc =>
    if !rc.isArray then .error .coordsInvalid
    else match parsePointCoords rc with
      | .error e => .error e
      | .ok (pos, ex) =>
        let ex := withMembers ex k
        let ob : Obj := if ex.isNone && o.allowSimplePoints then .spoint pos else .point pos ex
        if o.requireValid && !ob.valid then .error .coordsInvalid else .ok ob

theorem point_eq (rec : RecT) (gk : GKeys) (o : POpts) (k : Keys) (hk : KeysRel gk k) :
    Agree (PGen.parseJSONPoint (mops rec) (some gk) (some (optsG o))) (mPoint o k) := by
  unfold PGen.parseJSONPoint mPoint
  simp only [m_zeroGjsonResult, m_nilObject, m_objectValid, m_objectOfPoint, m_objectOfSimplePoint, m_zeroParseOptions, deref_some,
    pointCoords_none, hk.coords]
  cases hc : k.coordinates with
  | none => simp [Agree, errG]
  | some rc =>
    cases hb : rc.isArray with
    | false => simp [Agree, errG, hb]
    | true =>
      simp only [hb, Bool.not_true, Bool.false_eq_true, if_false]
      have h := pointCoords_some rec (some gk) (some (optsG o)) rc
      generalize PGen.parseJSONPointCoords (mops rec) (some gk) (some rc) (some (optsG o)) = G at h ⊢
      cases hp : parsePointCoords rc with
      | error e =>
        rw [hp] at h; obtain ⟨he, hg⟩ := h
        simp [Agree, errG, hg, he]
      | ok pe =>
        obtain ⟨pos, ex⟩ := pe
        rw [hp] at h; obtain ⟨h1, h2, h3⟩ := h
        have hb := bbox_eq rec G.2.1 gk (some (optsG o)) k hk
        generalize PGen.parseBBoxAndExtras (mops rec) G.2.1 (some gk) (some (optsG o)) = B at hb ⊢
        obtain ⟨hb1, hb2⟩ := hb
        rw [h2] at hb2
        simp only [h3, hb1, Option.isNone_none, Bool.not_true, Bool.false_eq_true, if_false]
        have hn : B.snd.isNone = (withMembers ex k).isNone := by rw [← hb2]; cases B.snd <;> rfl
        rw [h1, hb2, hn]
        have ho : (optsG o).requireValid = o.requireValid ∧ (optsG o).allowSimplePoints = o.allowSimplePoints := ⟨rfl, rfl⟩
        rw [ho.1, ho.2]
        generalize (if ((withMembers ex k).isNone && o.allowSimplePoints) = true then Obj.spoint pos
          else Obj.point pos (withMembers ex k)) = ob
        cases o.requireValid <;> cases ob.valid <;> simp [Agree, errG]

#print axioms point_eq

end Geo.PGlue
