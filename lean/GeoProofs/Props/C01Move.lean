/-
  GeoProofs.Props.C01Move — point membership is identical for every segment-index configuration,
  and a moved (translated) shape keeps answering as an index-free shape would.  No ring
  condition (ExtSafe / HolesSafe) is needed when the right operand is a point.
-/
import GeoProofs.Props.C12MoveGeom

namespace Geo.C01Move
open Geo Geo.C12MoveGeom

/-- point membership of ANY built shape is index independent (no ring condition) -/
theorem geom_contains_point_index_indep (g : GCfg) (hg : g.Exact) (q : Pt) :
    g.build.contains (.point q) = g.plain.contains (.point q) := by
  cases g with
  | point p => rfl
  | rect r => rfl
  | line c =>
    exact geom_contains_index_indep (.line c) (.point q) hg trivial trivial trivial
  | poly e hs =>
    have h := GCfg.sim (.poly e hs) hg
    simp only [GCfg.build, GCfg.plain] at h ⊢
    cases h with
    | poly h => exact polyContainsPoint_index_indep h q

/-- **moving a shape and the query point by the same offset keeps point membership**, for every
    shape (point, rect, line, polygon with holes) and index configuration, with NO ring
    condition. -/
theorem geom_contains_point_move (a : GCfg) (p : Pt) (dx dy : Rat) (ha : a.Exact)
    (ha' : MovedExact dx dy a) :
    (moveGeom dx dy a.build).contains (.point (mv dx dy p)) = a.build.contains (.point p) := by
  rw [moveGeom_build_eq, geom_contains_point_index_indep _ ha'.exact, moved_plain,
    geom_contains_point_index_indep a ha]
  exact geom_contains_translate ⟨dx, dy⟩ a.plain (.point p) (plain_built a) trivial

/-- the same for `intersects`, both operand orders -/
theorem geom_intersects_point_move (a : GCfg) (p : Pt) (dx dy : Rat) (ha : a.Exact)
    (ha' : MovedExact dx dy a) :
    (moveGeom dx dy a.build).intersects (.point (mv dx dy p)) = a.build.intersects (.point p) ∧
    (Geom.point (mv dx dy p)).intersects (moveGeom dx dy a.build) =
      (Geom.point p).intersects a.build :=
  ⟨geom_intersects_move a (.point p) dx dy ha trivial ha' trivial,
   geom_intersects_move (.point p) a dx dy trivial ha trivial ha'⟩

end Geo.C01Move

namespace Geo

theorem buildIndexBytes_quadtree_header (pts : Array Pt) (closed : Bool)
    (hsz : (qBytesOf pts closed).size < 2 ^ 32) :
    ∃ d, buildIndexBytes pts closed (processPoints pts closed).rect .quadtree = some d ∧
      d[0]? = some 2 := by
  refine ⟨_, rfl, ?_⟩
  have hh := qCompress_header _ (qBuild_isNil (fun i => (segmentAtOf pts i).box.g)
    (processPoints pts closed).rect.g (numSegmentsOf pts closed)) hsz
  rw [getElem?_putU32_of_outside _ 1 _ 0 (by omega)]
  exact hh.2

/-- a quadtree-indexed series keeps a quadtree index when moved: threshold 64 from 64 points
    on (the default rebuild), threshold 1 (always indexed) below. -/
theorem Series.move_quadtree_eq (pts : Array Pt) (closed : Bool) (minPoints : Nat) (dx dy : Rat)
    (hm : minPoints ≠ 0) (hle : minPoints ≤ pts.size)
    (hsz : (qBytesOf pts closed).size < 2 ^ 32) :
    (mkSeries pts closed .quadtree minPoints).move dx dy =
      mkSeries (pts.map (fun p => ⟨p.x + dx, p.y + dy⟩)) closed .quadtree
        (if 64 ≤ pts.size then 64 else 1) := by
  have hc : (minPoints != 0 && decide (pts.size ≥ minPoints)) = true := by
    simp only [Bool.and_eq_true, bne_iff_ne, ne_eq, decide_eq_true_eq]
    exact ⟨hm, hle⟩
  obtain ⟨d, hd, hd0⟩ := buildIndexBytes_quadtree_header pts closed hsz
  have hidx : (mkSeries pts closed .quadtree minPoints).index = some d := by
    simp only [mkSeries, hc, if_true, hd]
  have hsz' : (mvPts pts dx dy).size = pts.size := by simp [mvPts]
  unfold Series.move
  simp only [hidx]
  show (match (mkSeries (mvPts pts dx dy) closed .quadtree 64).index with
    | some _ => mkSeries (mvPts pts dx dy) closed .quadtree 64
    | none => _) = mkSeries (mvPts pts dx dy) closed .quadtree _
  by_cases h64 : 64 ≤ pts.size
  · have hc' : ((64 : Nat) != 0 && decide ((mvPts pts dx dy).size ≥ 64)) = true := by
      simp only [Bool.and_eq_true, bne_iff_ne, ne_eq, decide_eq_true_eq]
      exact ⟨by omega, by omega⟩
    rw [if_pos h64]
    simp only [mkSeries, hc', if_true, buildIndexBytes]
  · have hc' : ((64 : Nat) != 0 && decide ((mvPts pts dx dy).size ≥ 64)) = false := by
      simp only [Bool.and_eq_false_imp, bne_iff_ne, ne_eq, decide_eq_false_iff_not]
      intro _; omega
    have hc1 : ((1 : Nat) != 0 && decide ((mvPts pts dx dy).size ≥ 1)) = true := by
      simp only [Bool.and_eq_true, bne_iff_ne, ne_eq, decide_eq_true_eq]
      exact ⟨by omega, by omega⟩
    rw [if_neg h64]
    simp only [mkSeries, hc', hc1, if_true, hd0, Bool.false_eq_true, if_false]

end Geo

namespace Geo.C01Move
open Geo Geo.C12MoveGeom

/-- non-vacuity: an un-indexed 4-point polygon with a hole-free ring, moved by (1, 2), queried
    at a point: all hypotheses of `geom_contains_point_move` hold. -/
example (p : Pt) :
    let a : GCfg := .poly ⟨#[⟨0, 0⟩, ⟨2, 0⟩, ⟨2, 2⟩, ⟨0, 2⟩], .none, 0⟩ []
    (moveGeom 1 2 a.build).contains (.point (mv 1 2 p)) = a.build.contains (.point p) := by
  intro a
  refine geom_contains_point_move a p 1 2 ⟨series_search_exact_kind_none _ _ _, ?_⟩ ⟨?_, ?_⟩
  · intro h hh; simp at hh
  · show ((mkSeries _ true .none 0).move 1 2).SearchExact
    have hm : (mkSeries #[(⟨0, 0⟩ : Pt), ⟨2, 0⟩, ⟨2, 2⟩, ⟨0, 2⟩] true .none 0).move 1 2 =
        mkSeries (mvPts #[⟨0, 0⟩, ⟨2, 0⟩, ⟨2, 2⟩, ⟨0, 2⟩] 1 2) true .quadtree 64 := rfl
    rw [hm]
    have hn : (mkSeries (mvPts #[(⟨0, 0⟩ : Pt), ⟨2, 0⟩, ⟨2, 2⟩, ⟨0, 2⟩] 1 2) true .quadtree 64) =
        mkSeries (mvPts #[⟨0, 0⟩, ⟨2, 0⟩, ⟨2, 2⟩, ⟨0, 2⟩] 1 2) true .none 64 := by
      simp [mkSeries, mvPts]
    rw [hn]
    exact series_search_exact_kind_none _ _ _
  · intro h hh; simp at hh

end Geo.C01Move
