package main

import (
	"unicode/utf8"
	"fmt"
	"math"
	"strconv"
	"strings"
)

// GeoJSON document generators (grammar based) and structured mutations.

type docFlags struct {
	mixDims   bool // some line/polygon geometry has a later position with more ordinates than its first
	circle    bool
	nonFinite bool
	planar    bool // all coordinates in regime E, no circle
	badUnits  bool
}

type docGen struct {
	r      *rng
	regE   bool // coordinates are sixteenths (planar correspondence possible)
	flags  docFlags
	spaces bool
}

func (g *docGen) ws() string {
	if !g.spaces {
		return ""
	}
	switch g.r.intn(6) {
	case 0:
		return " "
	case 1:
		return "\n  "
	case 2:
		return "\t"
	case 3:
		return " \r\n"
	}
	return ""
}

func (g *docGen) num() string {
	r := g.r
	if g.regE {
		k := r.rangeI(-200, 200) * r.pick([]int{1, 1, 4, 16})
		if r.coin(0.05) {
			k = r.rangeI(-(1 << 24), 1<<24)
		}
		f := float64(k) / 16
		switch r.intn(8) {
		case 0:
			return strconv.FormatFloat(f, 'e', -1, 64)
		case 1:
			if f == math.Trunc(f) {
				return strconv.FormatFloat(f, 'f', 1, 64) // 3.0
			}
		case 2:
			if f == 0 {
				return "-0"
			}
		}
		return strconv.FormatFloat(f, 'f', -1, 64)
	}
	switch r.intn(10) {
	case 0:
		return strconv.Itoa(r.rangeI(-180, 180))
	case 1:
		return strconv.FormatFloat(float64(r.rangeI(-1800000, 1800000))/10000, 'f', -1, 64)
	case 2:
		return strconv.FormatFloat(float64(r.rangeI(-1800000, 1800000))/7919, 'g', -1, 64)
	case 3:
		return fmt.Sprintf("%de%d", r.rangeI(-99, 99), r.rangeI(-30, 30))
	case 4:
		return fmt.Sprintf("%d.%dE+%d", r.rangeI(-9, 9), r.rangeI(0, 999), r.rangeI(0, 5))
	case 5:
		return "-0.0"
	case 6:
		return strconv.FormatFloat(math.Float64frombits(r.next()&^(0x7ff<<52)|uint64(r.rangeI(900, 1100))<<52), 'g', -1, 64)
	case 7:
		return "0.1"
	case 8:
		// whole numbers around the limits of the integer types and of exact float integers
		return []string{"9223372036854775808", "-9223372036854775808", "9223372036854774784", "9223372036854777856", "9007199254740994",
			"-9007199254740993", "1234567890123456789", "4611686018427387904", "18446744073709551616", "1e19", "4294967296", "-2147483649"}[r.intn(12)]
	}
	return strconv.FormatFloat(float64(r.rangeI(-9000, 9000))/100, 'f', -1, 64)
}

func (g *docGen) pos(dims int) string {
	var parts []string
	for i := 0; i < dims; i++ {
		parts = append(parts, g.num())
	}
	return "[" + g.ws() + strings.Join(parts, ","+g.ws()) + g.ws() + "]"
}

// positions of one geometry: dims fixed by the first, later ones vary
func (g *docGen) positions(n int, closed bool) []string {
	d0 := g.r.pick([]int{2, 2, 2, 3, 4})
	var ps []string
	for i := 0; i < n; i++ {
		d := d0
		if i > 0 && g.r.coin(0.08) {
			d = g.r.rangeI(2, 4)
			if d > d0 && d0 == 2 {
				g.flags.mixDims = true
			}
		}
		if i > 0 && g.r.coin(0.02) {
			d = 5 // extra ordinates beyond four are ignored
			if d0 == 2 {
				g.flags.mixDims = true
			}
		}
		ps = append(ps, g.pos(d))
	}
	if closed && n > 0 {
		ps[n-1] = ps[0]
	}
	return ps
}

func (g *docGen) arr(items []string) string {
	return "[" + g.ws() + strings.Join(items, g.ws()+","+g.ws()) + g.ws() + "]"
}

func (g *docGen) anyJSON(depth int) string {
	r := g.r
	switch r.intn(9) {
	case 0:
		return "null"
	case 1:
		return "true"
	case 2:
		return strconv.Itoa(r.rangeI(-1000, 1000))
	case 3:
		return `"` + []string{"a", "x y", `q\"uote`, `é`, "Circle", "km", "", `tab\t`, "ü"}[r.intn(9)] + `"`
	case 4:
		if depth > 2 {
			return "[]"
		}
		var it []string
		for i := r.intn(4); i > 0; i-- {
			it = append(it, g.anyJSON(depth+1))
		}
		return g.arr(it)
	case 5:
		if depth > 2 {
			return "{}"
		}
		var it []string
		for i := r.intn(4); i > 0; i-- {
			it = append(it, g.ws()+`"`+[]string{"a", "b", "type", "properties", "k k", "a"}[r.intn(6)]+`"`+g.ws()+":"+g.ws()+g.anyJSON(depth+1))
		}
		return "{" + strings.Join(it, ",") + g.ws() + "}"
	case 6:
		return "1.50"
	case 7:
		return "false"
	}
	return "1e3"
}

// foreign members
func (g *docGen) foreign(isFeature bool) []string {
	r := g.r
	var ms []string
	if r.coin(0.3) {
		ms = append(ms, `"bbox":`+g.ws()+g.arr([]string{"1", "2", "3", "4"}))
	}
	if r.coin(0.3) {
		ms = append(ms, `"id":`+g.ws()+[]string{`"abc"`, "17", "[4,true]", "null"}[r.intn(4)])
	}
	pp := 0.2
	if isFeature {
		pp = 0.7
	}
	if r.coin(pp) {
		ms = append(ms, `"properties":`+g.ws()+[]string{"{}", "null", `{"a":1}`, `{ "name" : "x" , "n":[1,2] }`, g.anyJSON(1)}[r.intn(5)])
	}
	if r.coin(0.25) {
		ms = append(ms, `"`+[]string{"foo", "Type", "coord", "x y", "f\\u006fo", "zzz"}[r.intn(6)]+`":`+g.ws()+g.anyJSON(0))
	}
	if r.coin(0.05) && len(ms) > 0 {
		ms = append(ms, ms[0]) // duplicate foreign member
	}
	return ms
}

func (g *docGen) object(typ string, reqKey string, reqVal string, isFeature bool) string {
	r := g.r
	tkey := `"type"`
	if r.coin(0.05) {
		tkey = `"type"`
	}
	ms := []string{tkey + g.ws() + ":" + g.ws() + `"` + typ + `"`, `"` + reqKey + `"` + g.ws() + ":" + g.ws() + reqVal}
	if r.coin(0.06) {
		// duplicate known member: the last one counts
		ms = append([]string{`"` + reqKey + `":` + g.anyJSON(2)}, ms...)
	}
	if r.coin(0.04) {
		ms = append([]string{`"type":"Nonsense"`}, ms...)
	}
	ms = append(ms, g.foreign(isFeature)...)
	// shuffle but keep relative order of duplicates of known keys (last wins must stay last)
	for i := len(ms) - 1; i > 0; i-- {
		j := r.intn(i + 1)
		if strings.HasPrefix(ms[i], `"type"`) || strings.HasPrefix(ms[j], `"type"`) || strings.HasPrefix(ms[i], `"ty\`) || strings.HasPrefix(ms[j], `"ty\`) ||
			strings.HasPrefix(ms[i], `"`+reqKey+`"`) || strings.HasPrefix(ms[j], `"`+reqKey+`"`) {
			continue
		}
		ms[i], ms[j] = ms[j], ms[i]
	}
	if r.coin(0.3) { // move the (last, i.e. effective) type member to the end
		for i := len(ms) - 1; i >= 0; i-- {
			if strings.HasPrefix(ms[i], tkey) {
				m := ms[i]
				ms = append(append(ms[:i:i], ms[i+1:]...), m)
				break
			}
		}
	}
	return "{" + g.ws() + strings.Join(ms, g.ws()+","+g.ws()) + g.ws() + "}"
}

func (g *docGen) ring() string {
	n := g.r.rangeI(4, 7)
	return g.arr(g.positions(n, true))
}

// rings of one polygon share the dimension state
func (g *docGen) polyCoords() string {
	nr := g.r.pick([]int{1, 1, 1, 2, 3})
	d0 := g.r.pick([]int{2, 2, 2, 3, 4})
	var rings []string
	for k := 0; k < nr; k++ {
		n := g.r.rangeI(4, 7)
		var ps []string
		for i := 0; i < n; i++ {
			d := d0
			if (k > 0 || i > 0) && g.r.coin(0.05) {
				d = g.r.rangeI(2, 4)
				if d > d0 && d0 == 2 {
					g.flags.mixDims = true
				}
			}
			ps = append(ps, g.pos(d))
		}
		ps[n-1] = ps[0]
		rings = append(rings, g.arr(ps))
	}
	return g.arr(rings)
}

// a rectangle ring in the AllowRects orientation
func (g *docGen) rectPolyCoords() string {
	a, b := g.r.rangeI(-100, 100), g.r.rangeI(-80, 80)
	w, h := g.r.rangeI(1, 50), g.r.rangeI(1, 50)
	// sometimes with Z (and M) ordinates: a rectangle with extra ordinates must keep them under AllowRects
	nextra := 0
	if g.r.coin(0.3) {
		nextra = g.r.rangeI(1, 2)
	}
	f := func(x, y int) string {
		t := "[" + strconv.FormatFloat(float64(x)/16, 'f', -1, 64) + "," + strconv.FormatFloat(float64(y)/16, 'f', -1, 64)
		for k := 0; k < nextra; k++ {
			t += "," + strconv.Itoa((x*7+y*3+k)%50)
		}
		return t + "]"
	}
	c := []ipt{{a, b}, {a + w, b}, {a + w, b + h}, {a, b + h}}
	if g.r.coin(0.4) {
		// almost a rectangle: one coordinate of one corner is off (must NOT be replaced by a Rect)
		k := g.r.intn(4)
		d := g.r.pick([]int{-3, -1, 1, 2})
		if g.r.coin(0.5) {
			c[k].x += d
		} else {
			c[k].y += d
		}
	}
	return "[[" + strings.Join([]string{f(c[0].x, c[0].y), f(c[1].x, c[1].y), f(c[2].x, c[2].y), f(c[3].x, c[3].y), f(c[0].x, c[0].y)}, ",") + "]]"
}

func (g *docGen) geometry(depth int) string {
	r := g.r
	switch r.intn(9) {
	case 0:
		d := r.pick([]int{2, 2, 3, 4, 5})
		return g.object("Point", "coordinates", g.pos(d), false)
	case 1:
		return g.object("LineString", "coordinates", g.arr(g.positions(r.rangeI(2, 6), false)), false)
	case 2:
		if r.coin(0.3) {
			return g.object("Polygon", "coordinates", g.rectPolyCoords(), false)
		}
		return g.object("Polygon", "coordinates", g.polyCoords(), false)
	case 3:
		var ps []string
		for i := r.intn(5); i > 0; i-- {
			ps = append(ps, g.pos(r.pick([]int{2, 2, 3, 4})))
		}
		return g.object("MultiPoint", "coordinates", g.arr(ps), false)
	case 4:
		var ls []string
		for i := r.intn(4); i > 0; i-- {
			ls = append(ls, g.arr(g.positions(r.rangeI(2, 5), false)))
		}
		return g.object("MultiLineString", "coordinates", g.arr(ls), false)
	case 5:
		var ps []string
		for i := r.intn(3); i > 0; i-- {
			ps = append(ps, g.polyCoords())
		}
		return g.object("MultiPolygon", "coordinates", g.arr(ps), false)
	case 6:
		if depth >= 3 {
			return g.object("Point", "coordinates", g.pos(2), false)
		}
		var cs []string
		for i := r.intn(4); i > 0; i-- {
			cs = append(cs, g.geometry(depth+1))
		}
		return g.object("GeometryCollection", "geometries", g.arr(cs), false)
	case 7:
		if depth >= 3 {
			return g.object("Point", "coordinates", g.pos(2), false)
		}
		return g.object("Feature", "geometry", g.geometry(depth+1), true)
	default:
		if depth >= 2 {
			return g.object("LineString", "coordinates", g.arr(g.positions(2, false)), false)
		}
		var cs []string
		for i := r.intn(4); i > 0; i-- {
			if r.coin(0.7) {
				cs = append(cs, g.object("Feature", "geometry", g.geometry(depth+2), true))
			} else {
				cs = append(cs, g.geometry(depth+1))
			}
		}
		return g.object("FeatureCollection", "features", g.arr(cs), false)
	}
}

func (g *docGen) circleFeature() string {
	r := g.r
	g.flags.circle = true
	radius := []string{"5000", "1", "0", "123456.654321", "1e3", "-5", "20037508", "0.5", "true", "null"}[r.intn(10)]
	ui := r.pick([]int{0, 0, 1, 1, 2, 2, 3, 4, 5})
	if ui >= 4 {
		g.flags.badUnits = true // the Circle convention rejects unknown units: outside C07's two classes
	}
	units := []string{"", `,"radius_units":"m"`, `,"radius_units":"km"`, `,"radius_units":null`, `,"radius_units":"mi"`, `,"radius_units":5`}[ui]
	props := `{"type":"Circle","radius":` + radius + units + `}`
	if r.coin(0.1) {
		props = `{"type":"Circle"}`
	}
	geom := `{"type":"Point","coordinates":` + g.pos(r.pick([]int{2, 2, 3})) + `}`
	extra := ""
	if r.coin(0.3) {
		extra = `,"id":7`
	}
	if r.coin(0.5) {
		return `{"type":"Feature","geometry":` + geom + `,"properties":` + props + extra + `}`
	}
	return `{"properties":` + props + extra + `,"geometry":` + geom + `,"type":"Feature"}`
}

func newDocGen(r *rng, regE bool) *docGen {
	return &docGen{r: r, regE: regE, spaces: r.coin(0.5)}
}

// a well-formed document (by construction) and its flags
func genWF(r *rng, regE bool) (string, docFlags) {
	g := newDocGen(r, regE)
	var text string
	if r.coin(0.08) {
		text = g.circleFeature()
	} else {
		text = g.geometry(0)
	}
	g.flags.planar = regE && !g.flags.circle
	if r.coin(0.3) {
		text = g.ws() + " " + text + " \n"
	}
	return text, g.flags
}

// a document with one of the listed structural defects
func genDefect(r *rng) (string, string) {
	g := newDocGen(r, false)
	good, _ := genWF(r, false)
	good = strings.TrimSpace(good)
	wrap := func(inner string) string {
		switch r.intn(4) {
		case 0:
			return `{"type":"Feature","geometry":` + inner + `,"properties":{}}`
		case 1:
			return `{"type":"GeometryCollection","geometries":[{"type":"Point","coordinates":[1,2]},` + inner + `]}`
		case 2:
			return `{"type":"FeatureCollection","features":[` + inner + `]}`
		}
		return inner
	}
	switch r.intn(22) {
	case 0:
		return good[:r.rangeI(1, len(good)-1)], "truncated"
	case 1:
		i := r.intn(len(good))
		return good[:i] + string([]byte{byte(r.pick([]int{'}', ']', ',', ':', 'x', '"', 0x01}))}) + good[i:], "garbage-maybe"
	case 2:
		return "[" + good + "]", "not-object"
	case 3:
		return []string{`"Point"`, "123", "null", "true", ""}[r.intn(5)], "not-object"
	case 4:
		return good + []string{"x", "{}", ",", " 1", "]"}[r.intn(5)], "trailing"
	case 5:
		return wrap(`{"coordinates":[1,2]}`), "missing-type"
	case 6:
		return wrap(`{"type":` + []string{"5", "null", `["Point"]`, "true", `{"a":"Point"}`}[r.intn(5)] + `,"coordinates":[1,2]}`), "type-not-string"
	case 7:
		return wrap(`{"type":"` + []string{"point", "Circle", "Polygon ", "", "Geometry"}[r.intn(5)] + `","coordinates":[1,2]}`), "unknown-type"
	case 8:
		t := []string{"Point", "LineString", "Polygon", "MultiPoint", "MultiLineString", "MultiPolygon"}[r.intn(6)]
		return wrap(`{"type":"` + t + `"}`), "missing-coordinates"
	case 9:
		t := []string{"Point", "LineString", "Polygon", "MultiPoint", "MultiLineString", "MultiPolygon"}[r.intn(6)]
		return wrap(`{"type":"` + t + `","coordinates":` + []string{`{"a":[1,2]}`, "5", `"x"`, "null", "true"}[r.intn(5)] + `}`), "coordinates-not-array"
	case 10:
		return wrap(`{"type":"Point","coordinates":` + []string{"[1]", "[]", `[1,"2"]`, "[true,2]", "[[1,2]]", `[1,2,"z"]`, `[1,{"a":1}]`, `[1,2,3,"m"]`, `[1,2,null,[4]]`}[r.intn(9)] + `}`), "bad-position"
	case 11:
		return wrap(`{"type":"LineString","coordinates":` + []string{"[[1,2]]", "[]", "[[1,2],[3]]", `[[1,2],["a",4]]`, "[[1,2],null]", "[[1,2],[3,null]]", "[[1,2],5]", `[[1,2],[3,4,true]]`, "[1,2]", `[[1,2,3],[4,5,6,"x"]]`, `[[1,2,3],[4,5,6,null]]`, `[[1,2,3,4],[4,5,6,[7]]]`, `[[1,2,3],[4,5,{"a":1}]]`, `[[1,2,3],[4,5,6,true],[7,8,9]]`}[r.intn(14)] + `}`), "bad-line"
	case 12:
		return wrap(`{"type":"Polygon","coordinates":` + []string{"[]", "[[[0,0],[1,0],[0,0]]]", "[[[0,0],[1,0],[1,1],[0,1]]]", "[[[0,0],[1,0],[1,1],[0,0]],[[0,0],[1,1]]]", "[[[0,0],[1,0],[1,null],[0,0]]]", `[[[0,0],[1,0],[1],[0,0]]]`, "[[0,0],[1,0],[1,1],[0,0]]", "[5]", `[[[0,0],[1,0],["1",1],[0,0]]]`}[r.intn(9)] + `}`), "bad-polygon"
	case 13:
		return wrap(`{"type":"MultiPoint","coordinates":` + []string{"[[1]]", "[[1,2],[3]]", `[[1,2],["x",1]]`, "[5]", "[[1,2],true]", `["ab"]`}[r.intn(6)] + `}`), "bad-multipoint"
	case 14:
		return wrap(`{"type":"MultiLineString","coordinates":` + []string{"[[[1,2]]]", "[[[1,2],[3,4]],[[5,6]]]", "[[1,2],[3,4]]", "[[[1,2],[3,null]]]", "[5]", "[[]]", `[[[1,2,3],[4,5,6,"x"]]]`, `[[[1,2],[3,4]],[[1,2,3],[4,5,6,false]]]`}[r.intn(8)] + `}`), "bad-multiline"
	case 15:
		return wrap(`{"type":"MultiPolygon","coordinates":` + []string{"[[]]", "[[[[0,0],[1,0],[0,0]]]]", "[[[[0,0],[1,0],[1,1],[0,1]]]]", "[[[0,0],[1,0],[1,1],[0,0]]]", "[5]", `[[[[0,0],[1,0],[1,"1"],[0,0]]]]`}[r.intn(6)] + `}`), "bad-multipolygon"
	case 16:
		return `{"type":"Feature","properties":{}}`, "missing-geometry"
	case 17:
		return `{"type":"Feature","geometry":` + []string{"null", "[1,2]", `"Point"`, "5", `"{\"type\":\"Point\",\"coordinates\":[1,2]}"`, `"{}"`, `" {\"type\":\"LineString\",\"coordinates\":[[1,2],[3,4]]}"`}[r.intn(7)] + `,"properties":{}}`, "geometry-not-object"
	case 18:
		return `{"type":"FeatureCollection"` + []string{"", `,"features":{}`, `,"features":null`, `,"features":5`, `,"features":[5]`, `,"features":[null]`, `,"features":[[1,2]]`}[r.intn(7)] + `}`, "bad-features"
	case 19:
		return `{"type":"GeometryCollection"` + []string{"", `,"geometries":{}`, `,"geometries":"x"`, `,"geometries":[1]`, `,"geometries":[{"type":"Point"}]`}[r.intn(5)] + `}`, "bad-geometries"
	case 20:
		// deep nesting with a defect at the bottom
		inner := `{"type":"LineString","coordinates":[[1,2]]}`
		for i := r.rangeI(1, 6); i > 0; i-- {
			inner = `{"type":"GeometryCollection","geometries":[` + inner + `]}`
		}
		return inner, "nested-defect"
	default:
		_ = g
		return wrap(`{"type":"Point","coordinates":[1,2]`), "unterminated"
	}
}

func optsStr(ic, ig, kind int, rv, sp, dc, ar bool) string {
	b := func(x bool) int {
		if x {
			return 1
		}
		return 0
	}
	return fmt.Sprintf("%d,%d,%d,%d,%d,%d,%d", ic, ig, kind, b(rv), b(sp), b(dc), b(ar))
}

func randOpts(r *rng) string {
	return optsStr(r.pick([]int{0, 1, 2, 64}), r.pick([]int{0, 1, 4, 64}), r.pick([]int{0, 1, 2}), r.coin(0.2), r.coin(0.3), r.coin(0.15), r.coin(0.3))
}

const defaultOptsS = "64,64,2,0,0,0,0"

func emitParse(o *out, op, id, opts, text string) {
	ast := astOf(text)
	if ast != "invalid" && !utf8.ValidString(text) {
		// Lean strings are UTF-8: a document with raw invalid bytes inside a JSON string cannot be
		// carried to the model; the implementation is still run on it (outcome only)
		ast = "nonutf8"
	}
	o.op("%s %s %s %s %s", op, id, opts, hx(text), ast)
}

// C06 / C07 / C05 / C17 document streams
func genDocs(o *out, r *rng, thorough bool, suite string) {
	n := 2500
	if thorough {
		n = 60000
	}
	for i := 0; i < n; i++ {
		regE := r.coin(0.3)
		text, fl := genWF(r, regE)
		if !astSelfCheck(text) {
			panic("AST self check failed on generated text: " + text)
		}
		id := o.newID("D")
		opts := defaultOptsS
		if r.coin(0.5) {
			opts = randOpts(r)
		}
		op := "oparsewf"
		if fl.mixDims {
			op = "oparsewfmix"
		}
		if strings.Split(opts, ",")[3] == "1" || fl.badUnits {
			op = "oparse" // RequireValid may legitimately reject; so does the Circle convention on unknown units
		}
		emitParse(o, op, id, opts, text)
		o.op("ojson %s", id)
		o.op("xroundtrip %s %s", id, opts)
		if fl.planar && !fl.mixDims {
			o.op("oattrs %s", id)
		}
		if suite == "c07" || suite == "c05" {
			dt, kind := genDefect(r)
			op := "oparsedef"
			if kind == "garbage-maybe" {
				op = "oparse"
			}
			emitParse(o, op, o.newID("X"), randOpts(r), dt)
		}
		if i%200 == 199 {
			o.op("oreset")
		}
	}
	if suite == "c05" || suite == "c07" || suite == "c06" {
		// long line strings / rings whose segments all straddle the centre lines of their bounding
		// box, at and above the default index threshold (64 points), under the default options
		for i := 0; i < 12; i++ {
			m := r.pick([]int{63, 64, 65, 66, 100, 130})
			var ps []string
			for k := 0; k < m; k++ {
				switch i % 3 {
				case 0:
					ps = append(ps, fmt.Sprintf("[%d,%d]", (k%2)*10, k))
				case 1:
					ps = append(ps, fmt.Sprintf("[%d,%d]", (k%2)*20-10-(k%2)*0, (1-k%2)*20-10+k/2))
				default:
					ps = append(ps, fmt.Sprintf("[%d.5,%d.25]", k%7, k%5))
				}
			}
			text := `{"type":"LineString","coordinates":[` + strings.Join(ps, ",") + `]}`
			if i%2 == 1 {
				text = `{"type":"Polygon","coordinates":[[` + strings.Join(append(ps, ps[0]), ",") + `]]}`
			}
			id := o.newID("Z")
			opts := defaultOptsS
			if i >= 6 {
				opts = optsStr(64, r.pick([]int{1, 32, 64}), r.pick([]int{1, 2}), false, false, false, false)
			}
			emitParse(o, "oparsewf", id, opts, text)
			o.op("ojson %s", id)
			o.op("xroundtrip %s %s", id, opts)
		}
		o.op("oreset")
		// number literals beyond the binary64 range (±Inf after Parse): declined by the model
		// (unmodelled), the implementation's outcome class is judged; predicates on such objects: xinf
		for _, text := range []string{
			`{"type":"Point","coordinates":[1e999,2]}`,
			`{"type":"LineString","coordinates":[[0,0],[-1e999,1e999]]}`,
			`{"type":"Polygon","coordinates":[[[1e999,0],[1,0],[1,1],[1e999,0]]]}`,
			`{"type":"Polygon","coordinates":[[[0,0],[1e999,0],[1e999,1e999],[0,1e999],[0,0]]]}`,
			`{"type":"MultiPolygon","coordinates":[[[[-1e999,0],[1,0],[1,1],[-1e999,0]]]]}`,
		} {
			id := o.newID("H")
			opts := randOpts(r)
			emitParse(o, "oparse", id, opts, text)
			o.op("ojson %s", id)
			o.op("xroundtrip %s %s", id, opts)
		}
		o.op("oreset")
		// member names written with JSON escapes are the same names (gjson unescapes keys)
		for _, text := range []string{
			"{\"\\u0074ype\":\"Point\",\"coordinates\":[1,2]}",
			"{\"type\":\"Point\",\"c\\u006fordinates\":[3,4]}",
			"{\"type\":\"Point\",\"coordinates\":[1,2],\"c\\u006fordinates\":[5,6]}",
			"{\"type\":\"Feature\",\"ge\\u006fmetry\":{\"type\":\"Point\",\"coordinates\":[1,2]},\"pr\\u006fperties\":{\"a\":1}}",
			"{\"type\":\"GeometryCollection\",\"geometri\\u0065s\":[{\"typ\\u0065\":\"LineString\",\"coordinates\":[[0,0],[1,1]]}]}",
			"{\"type\":\"FeatureCollection\",\"f\\u0065atures\":[],\"\\u0062box\":[0,0,1,1]}",
		} {
			id := o.newID("E")
			opts := randOptsNoRV(r)
			emitParse(o, "oparsewf", id, opts, text)
			o.op("ojson %s", id)
			o.op("xroundtrip %s %s", id, opts)
		}
		o.op("oreset")
		// foreign members whose minification is delicate: escaped quotes and backslashes inside strings,
		// preceded and followed by whitespace, in keys and values (repaired defect D24)
		for i, text := range []string{
			"{\"type\":\"Point\",\"coordinates\":[1,2],\"x y\":\t[ \"q\\\"uote\"\t,\t{\"b\" \n:false\t}]\t}",
			"{ \"type\" : \"Point\" , \"coordinates\" : [1,2] , \"k\\\"ey\" : \"v\\\\\" , \"n\" : [ 1 , \"\\\\\\\"\" , 2 ] }",
			"{\"type\":\"Feature\",\"geometry\":{\"type\":\"Point\",\"coordinates\":[1,2]},\"properties\": { \"a\" : \"x\\\"y\" , \"b\" : [ true , null ] } , \"id\" : \"i\\\"d\" }",
			"{\"type\":\"FeatureCollection\",\"features\":[], \"note\" :  \"say \\\"hi\\\"\"  , \"z\" : { \"q\" : \"\\\\\" } }",
		} {
			id := o.newID("Q")
			opts := randOptsNoRV(r)
			emitParse(o, "oparsewf", id, opts, text)
			o.op("ojson %s", id)
			o.op("xroundtrip %s %s", id, opts)
			_ = i
		}
		o.op("oreset")
	}
	if suite == "c05" || suite == "c07" {
		// arbitrary bytes, truncations and splices
		m := 1500
		if thorough {
			m = 30000
		}
		for i := 0; i < m; i++ {
			var b []byte
			switch r.intn(4) {
			case 0:
				for k := r.intn(40); k > 0; k-- {
					b = append(b, byte(r.intn(256)))
				}
			case 1:
				t, _ := genWF(r, false)
				b = []byte(t)
				for k := r.rangeI(1, 3); k > 0 && len(b) > 0; k-- {
					b[r.intn(len(b))] = byte(r.pick([]int{'{', '}', '[', ']', '"', ',', ':', ' ', '0', 'e', '-', '\\', 0, 1, 0xff}))
				}
			case 2:
				t1, _ := genWF(r, false)
				t2, _ := genWF(r, false)
				b = []byte(t1[:r.intn(len(t1)+1)] + t2[r.intn(len(t2)+1):])
			default:
				b = []byte(strings.Repeat(" ", r.intn(3)) + string([]byte{byte(r.pick([]int{0, 1, '{', '[', 'P'}))}) + "{\"type\":\"Point\",\"coordinates\":[1,2]}")
			}
			emitParse(o, "oparse", o.newID("R"), randOpts(r), string(b))
		}
	}
}

func genObj(suite string, o *out, r *rng, thorough bool) bool {
	switch suite {
	case "c06", "c07", "c05docs":
		s := suite
		if s == "c05docs" {
			s = "c05"
		}
		genDocs(o, r, thorough, s)
		return true
	}
	return genObj2(suite, o, r, thorough)
}
