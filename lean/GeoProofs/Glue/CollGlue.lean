/-
  GeoProofs.Glue.CollGlue — the methods of `*collection` (collection.go) REGENERATED from the
  current Go source (GeoModel/Generated/CollGen.lean, `translate collection`), instantiated with
  the hand model GeoModel/Object.lean:
    Object := Obj, Spatial := Obj (`Spatial()` is the identity), geometry.Rect / Point / *Line /
    *Poly := Box / Pt / Line / Poly, float64 := Rat, interface{} := Obj,
    *collection := `MColl` = the four arguments of `Obj.coll` plus the child R-tree,
    fields `pempty` / `prect` := the model's `empty` / `rect` of the collection (they are written by
    parseInitRectIndex, which is bridged elsewhere),
    *rtree.RTree := `Box → List Obj`, what `tree.Search(min, max, iter)` offers the iterator.
  ASSUMED of tidwall/rtree together with the inserts of parseInitRectIndex (`TreeOK`): for every
  query box the tree offers, in SOME order, a permutation of the model's filter
  `searchChildren children q` (= the non-empty children whose rectangle meets q, each once).
  The dynamic dispatch through the interfaces on CHILDREN and PARTS is a parameter `d : Disp`
  (`Disp.model` := the model's own functions): every theorem assumes that `d` computes the model
  on the children only, which gives both the bridge at `d := Disp.model` and the uniqueness of the
  solution of the generated recursion equations (Props/CollBridge.lean).
-/
import GeoModel.Generated.CollGen
import GeoProofs.ObjLemmas

namespace Geo.CGlue
open Geo Geo.CGen Geo.Obj

/-- a collection value: the arguments of `Obj.coll` and its child R-tree (only looked at when
    `indexed`) -/
structure MColl where
  kind : CollKind
  children : List Obj
  ex : Option Extra
  indexed : Bool
  tree : Box → List Obj

def MColl.obj (c : MColl) : Obj := .coll c.kind c.children c.ex c.indexed

/-- the contract of the child R-tree: any order, exactly the model's filter -/
def TreeOK (c : MColl) : Prop :=
  c.indexed = true → ∀ q : Box, (c.tree q).Perm (searchChildren c.children q)

/-- the dynamic dispatch through Object / Spatial (methods that *collection implements itself) -/
structure Disp where
  contains : Obj → Obj → Bool
  intersects : Obj → Obj → Bool
  forEach : Obj → List Obj
  numPoints : Obj → Nat
  withinRect : Obj → Box → Bool
  withinPoint : Obj → Pt → Bool
  withinLine : Obj → Line → Bool
  withinPoly : Obj → Poly → Bool
  intersectsRect : Obj → Box → Bool
  intersectsPoint : Obj → Pt → Bool
  intersectsLine : Obj → Line → Bool
  intersectsPoly : Obj → Poly → Bool

def Disp.model : Disp where
  contains := Obj.contains
  intersects := Obj.intersects
  forEach := Obj.leaves
  numPoints := Obj.numPoints
  withinRect := Obj.withinRect
  withinPoint := Obj.withinPoint
  withinLine := Obj.withinLine
  withinPoly := Obj.withinPoly
  intersectsRect := Obj.intersectsRect
  intersectsPoint := Obj.intersectsPoint
  intersectsLine := Obj.intersectsLine
  intersectsPoly := Obj.intersectsPoly

/-- the box behind the two `[2]float64` handed to the R-tree -/
def boxOf (mn mx : List Rat) : Box := ⟨⟨mn.getD 0 0, mn.getD 1 0⟩, ⟨mx.getD 0 0, mx.getD 1 0⟩⟩

/-- the hand model's operations.  `dist` / `sdist` (geoDistancePoints, Spatial.DistancePoint) are
    uninterpreted: the planar model has no geodesic distance -/
def mopsD (d : Disp) (dist : Pt → Pt → Rat) (sdist : Obj → Pt → Rat) :
    Ops Obj Rat Line Pt Poly Box MColl Extra Obj Obj (Box → List Obj) where
  anyAsObj := id
  collection_children := MColl.children
  collection_extra := MColl.ex
  collection_pempty := fun c => c.obj.empty
  collection_prect := fun c => c.obj.rect
  collection_tree := fun c => if c.indexed then some c.tree else none
  extra_members := Extra.members
  fn_geoDistancePoints := dist
  gLineRect := fun l => l.rect
  gPointRect := Pt.box
  gPoint_X := Pt.x
  gPoint_Y := Pt.y
  gPolyRect := Poly.rect
  gRectCenter := Box.center
  gRectIntersectsRect := Box.intersects
  gRectValid := boxValid
  gRect_Max := Box.max
  gRect_Min := Box.min
  objContains := d.contains
  objEmpty := Obj.empty
  objForEach := d.forEach
  objIntersects := d.intersects
  objNumPoints := fun o => Int.ofNat (d.numPoints o)
  objOfCollection := MColl.obj
  objRect := Obj.rect
  objSpatial := id
  rTreeSearch := fun t mn mx =>
    (t (boxOf mn mx)).map (fun o => ([o.rect.min.x, o.rect.min.y], [o.rect.max.x, o.rect.max.y], o))
  spatialDistancePoint := sdist
  spatialIntersectsLine := d.intersectsLine
  spatialIntersectsPoint := d.intersectsPoint
  spatialIntersectsPoly := d.intersectsPoly
  spatialIntersectsRect := d.intersectsRect
  spatialOfCollection := MColl.obj
  spatialWithinLine := d.withinLine
  spatialWithinPoint := d.withinPoint
  spatialWithinPoly := d.withinPoly
  spatialWithinRect := d.withinRect

variable (d : Disp) (dist : Pt → Pt → Rat) (sdist : Obj → Pt → Rat)

/-! ### `iterate` -/

theorem iterate_cons {ε σ : Type} (f : ε → σ → σ × Bool) (x : ε) (xs : List ε) (s : σ) :
    iterate f (x :: xs) s = (if (f x s).2 then iterate f xs (f x s).1 else ((f x s).1, false)) := by
  rw [iterate]; split <;> rename_i h <;> simp [h]

theorem iterate_nil {ε σ : Type} (f : ε → σ → σ × Bool) (s : σ) : iterate f [] s = (s, true) := rfl

theorem iterate_append {ε σ : Type} (f : ε → σ → σ × Bool) (l1 l2 : List ε) (s : σ) :
    iterate f (l1 ++ l2) s =
      (if (iterate f l1 s).2 then iterate f l2 (iterate f l1 s).1 else ((iterate f l1 s).1, false)) := by
  induction l1 generalizing s with
  | nil => simp [iterate_nil]
  | cons x xs ih =>
    simp only [List.cons_append, iterate_cons]
    by_cases hb : (f x s).2 = true
    · simp only [hb, if_true]; exact ih _
    · simp [hb]

theorem iterate_map {ε ε' σ : Type} (f : ε' → σ → σ × Bool) (h : ε → ε') (l : List ε) (s : σ) :
    iterate (fun x st => f (h x) st) l s = iterate f (l.map h) s := by
  induction l generalizing s with
  | nil => rfl
  | cons x xs ih =>
    simp only [List.map_cons, iterate_cons]
    by_cases hb : (f (h x) s).2 = true
    · simp only [hb, if_true]; exact ih _
    · simp [hb]

/-- the flag loop of the Intersects* methods -/
theorem iterate_any (p : Obj → Bool) (l : List Obj) (st : Bool) :
    (iterate (fun c (st : Bool) => if p c then (true, false) else (st, true)) l st).1 = (st || l.any p) := by
  induction l generalizing st with
  | nil => simp [iterate_nil]
  | cons x xs ih =>
    simp only [iterate_cons, List.any_cons]
    by_cases hp : p x = true
    · simp [hp]
    · simp only [hp, Bool.false_eq_true, if_false, Bool.false_or]; exact ih st

/-- the counting loop of the Within* methods -/
theorem iterate_count (p : Obj → Bool) (l : List Obj) (n : Int) :
    (iterate (fun c (n : Int) => if p c then (n + 1, true) else (n, false)) l n).1
      = n + Int.ofNat (withinCount l p) := by
  induction l generalizing n with
  | nil => simp [iterate_nil, withinCount]
  | cons x xs ih =>
    simp only [iterate_cons, withinCount]
    by_cases hp : p x = true
    · simp only [hp, if_true]; rw [ih]; simp only [Int.ofNat_eq_natCast]; push_cast; omega
    · simp [hp]

theorem any_perm {l l' : List Obj} (h : l.Perm l') (p : Obj → Bool) : l.any p = l'.any p := by
  rw [Bool.eq_iff_iff]; simp only [List.any_eq_true]
  exact ⟨fun ⟨x, hx, hp⟩ => ⟨x, h.mem_iff.1 hx, hp⟩, fun ⟨x, hx, hp⟩ => ⟨x, h.mem_iff.2 hx, hp⟩⟩

/-! ### Search -/

/-- the linear scan of `Search`: a range loop that skips, offers the rest to the iterator and
    breaks when the iterator answers false = `iterate` over the filtered list -/
theorem forRange_filter_iterate {σ : Type} (body : Obj → σ → Flow σ Empty) (keep : Obj → Bool)
    (iter : Obj → σ → σ × Bool)
    (hb : ∀ c s, body c s = if keep c then
        (if (iter c s).2 then Flow.next (iter c s).1 else Flow.brk (iter c s).1) else Flow.next s) :
    ∀ (cs : List Obj) (s : σ), forRange body cs s = Exit.done (iterate iter (cs.filter keep) s).1 := by
  intro cs
  induction cs with
  | nil => intro s; rfl
  | cons c cs ih =>
    intro s
    rw [forRange, hb]
    by_cases hk : keep c = true
    · by_cases hi : (iter c s).2 = true
      · simp [hk, hi, iterate_cons, ih]
      · simp [hk, hi, iterate_cons]
    · simp [hk, ih]

theorem boxOf_eq (q : Box) : boxOf [q.min.x, q.min.y] [q.max.x, q.max.y] = q := rfl

/-- `Search(rect, iter)` = `iterate iter` over a list `l` of children: the model's filter itself
    when the collection is not indexed, a permutation of it (`TreeOK`) when it is -/
theorem search_eq (c : MColl) (hT : TreeOK c) (q : Box) {σ : Type} (iter : Obj → σ → σ × Bool) (s : σ) :
    ∃ l : List Obj, l.Perm (searchChildren c.children q) ∧
      (c.indexed = false → l = searchChildren c.children q) ∧
      collectionSearch (mopsD d dist sdist) c q iter s = (iterate iter l s).1 := by
  cases hidx : c.indexed with
  | true =>
    refine ⟨c.tree q, hT hidx q, by simp, ?_⟩
    unfold collectionSearch
    simp only [mopsD, hidx, if_true, boxOf_eq, id]
    have := iterate_map iter (fun x : List Rat × List Rat × Obj => x.2.2)
      ((c.tree q).map (fun o => ([o.rect.min.x, o.rect.min.y], [o.rect.max.x, o.rect.max.y], o))) s
    simp only [List.map_map] at this
    have hid : ((fun x : List Rat × List Rat × Obj => x.2.2) ∘
        (fun o : Obj => ([o.rect.min.x, o.rect.min.y], [o.rect.max.x, o.rect.max.y], o))) = id := rfl
    rw [hid, List.map_id] at this
    exact congrArg Prod.fst this
  | false =>
    refine ⟨searchChildren c.children q, List.Perm.refl _, fun _ => rfl, ?_⟩
    unfold collectionSearch
    simp only [mopsD, hidx, Bool.false_eq_true, if_false]
    rw [forRange_filter_iterate _ (fun ch => !ch.empty && ch.rect.intersects q) iter]
    · rfl
    · intro ch st
      by_cases he : ch.empty = true
      · simp [he]
      · by_cases hr : ch.rect.intersects q = true
        · by_cases hi : (iter ch st).2 = true <;> simp [he, hr, hi]
        · simp [he, hr]

/-- a flag-raising Search = `any` over the model's filter (order-insensitive) -/
theorem search_any (c : MColl) (hT : TreeOK c) (q : Box) (p : Obj → Bool) (st : Bool) :
    collectionSearch (mopsD d dist sdist) c q
        (fun ch (st : Bool) => if p ch then (true, false) else (st, true)) st
      = (st || (searchChildren c.children q).any p) := by
  obtain ⟨l, hl, -, h⟩ := search_eq d dist sdist c hT q
    (fun ch (st : Bool) => if p ch then (true, false) else (st, true)) st
  rw [h, iterate_any, any_perm hl]

theorem withinCount_perm_eq_length {l l' cs : List Obj} (h : l.Perm l') (hs : l'.length ≤ cs.length)
    (p : Obj → Bool) : (withinCount l p = cs.length) ↔ (withinCount l' p = cs.length) := by
  have hlen := h.length_eq
  constructor
  · intro e
    have h1 := withinCount_le l p
    have h2 : withinCount l p = l.length := by omega
    have h3 := (withinCount_eq_length_iff l p).1 h2
    have h4 : withinCount l' p = l'.length :=
      (withinCount_eq_length_iff l' p).2 (fun x hx => h3 x (h.mem_iff.2 hx))
    omega
  · intro e
    have h1 := withinCount_le l' p
    have h2 : withinCount l' p = l'.length := by omega
    have h3 := (withinCount_eq_length_iff l' p).1 h2
    have h4 : withinCount l p = l.length :=
      (withinCount_eq_length_iff l p).2 (fun x hx => h3 x (h.mem_iff.1 hx))
    omega

/-- a counting Search compared with the number of ALL children (order-insensitive) -/
theorem search_count (c : MColl) (hT : TreeOK c) (q : Box) (p : Obj → Bool) :
    (collectionSearch (mopsD d dist sdist) c q
        (fun ch (n : Int) => if p ch then (n + 1, true) else (n, false)) 0
      == Int.ofNat c.children.length)
      = (withinCount (searchChildren c.children q) p == c.children.length) := by
  obtain ⟨l, hl, -, h⟩ := search_eq d dist sdist c hT q
    (fun ch (n : Int) => if p ch then (n + 1, true) else (n, false)) 0
  rw [h, iterate_count]
  have hs : (searchChildren c.children q).length ≤ c.children.length := List.length_filter_le _ _
  have := withinCount_perm_eq_length hl hs p
  rw [Bool.eq_iff_iff]
  simp only [beq_iff_eq, Int.ofNat_eq_natCast, Int.zero_add, Int.natCast_inj]
  exact this

/-! ### ForEach, NumPoints -/

theorem forRange_forEach {σ : Type} (iter : Obj → σ → σ × Bool) (vis : Obj → List Obj)
    (body : Obj → σ → Flow σ (σ × Bool))
    (hb : ∀ c s, body c s = if (iterate iter (vis c) s).2 then Flow.next (iterate iter (vis c) s).1
      else Flow.ret ((iterate iter (vis c) s).1, false)) :
    ∀ (cs : List Obj), (∀ c ∈ cs, vis c = c.leaves) → ∀ (s : σ), forRange body cs s =
      (if (iterate iter (leavesL cs) s).2 then Exit.done (iterate iter (leavesL cs) s).1
       else Exit.ret ((iterate iter (leavesL cs) s).1, false)) := by
  intro cs
  induction cs with
  | nil => intro _ s; simp [forRange, leavesL, iterate_nil]
  | cons c cs ih =>
    intro hv s
    have hc : vis c = c.leaves := hv c (List.mem_cons_self)
    have ih' := ih (fun x hx => hv x (List.mem_cons_of_mem _ hx))
    rw [forRange, hb, leavesL, iterate_append, hc]
    by_cases h : (iterate iter c.leaves s).2 = true
    · simp only [h, if_true]; exact ih' _
    · simp [h]

/-- `ForEach` offers the iterator the leaves of the children, in order, and answers false iff the
    iterator stopped it -/
theorem forEach_eq (c : MColl) (h : ∀ ch ∈ c.children, d.forEach ch = ch.leaves) {σ : Type}
    (iter : Obj → σ → σ × Bool) (s : σ) :
    collectionForEach (mopsD d dist sdist) c iter s = iterate iter c.obj.leaves s := by
  unfold collectionForEach
  simp only [mopsD]
  rw [forRange_forEach iter d.forEach _ _ c.children h s]
  · rw [MColl.obj, Obj.leaves]
    by_cases hb : (iterate iter (leavesL c.children) s).2 = true
    · simp only [hb, if_true]; exact Prod.ext rfl hb.symm
    · simp only [hb, Bool.false_eq_true, if_false]
      have hb' : (iterate iter (leavesL c.children) s).2 = false := by simpa using hb
      exact Prod.ext rfl hb'.symm
  · intro ch st
    by_cases hb : (iterate iter (d.forEach ch) st).2 = true <;> simp [hb]

theorem forRange_sum (f : Obj → Nat) : ∀ (cs : List Obj), (∀ c ∈ cs, f c = c.numPoints) → ∀ (n : Int),
    forRange (ρ := Empty) (fun (child : Obj) (st : Int) => Flow.next (st + Int.ofNat (f child))) cs n
      = Exit.done (n + Int.ofNat (sumPoints cs)) := by
  intro cs
  induction cs with
  | nil => intro _ n; simp [forRange, sumPoints]
  | cons c cs ih =>
    intro hv n
    rw [forRange]
    simp only [sumPoints]
    rw [ih (fun x hx => hv x (List.mem_cons_of_mem _ hx)), hv c List.mem_cons_self]
    simp only [Int.ofNat_eq_natCast]; push_cast; congr 1; omega

theorem numPoints_eq (c : MColl) (h : ∀ ch ∈ c.children, d.numPoints ch = ch.numPoints) :
    collectionNumPoints (mopsD d dist sdist) c = Int.ofNat c.obj.numPoints := by
  unfold collectionNumPoints
  simp only [mopsD]
  rw [forRange_sum d.numPoints c.children h]
  simp [MColl.obj, Obj.numPoints]

/-! ### the simple methods -/

theorem indexed_eq (c : MColl) : collectionIndexed (mopsD d dist sdist) c = c.indexed := by
  unfold collectionIndexed; simp only [mopsD]; cases c.indexed <;> rfl
theorem children_eq (c : MColl) : collectionChildren (mopsD d dist sdist) c = c.children := rfl
theorem base_eq (c : MColl) : collectionBase (mopsD d dist sdist) c = c.children := rfl
theorem empty_eq (c : MColl) : collectionEmpty (mopsD d dist sdist) c = c.obj.empty := rfl
theorem rect_eq (c : MColl) : collectionRect (mopsD d dist sdist) c = c.obj.rect := rfl
theorem valid_eq (c : MColl) : collectionValid (mopsD d dist sdist) c = boxValid c.obj.rect := rfl
theorem center_eq (c : MColl) : collectionCenter (mopsD d dist sdist) c = c.obj.center := by
  unfold collectionCenter collectionRect; simp only [mopsD, MColl.obj, Obj.center]
theorem spatial_eq (c : MColl) : collectionSpatial (mopsD d dist sdist) c = c.obj := rfl
theorem within_eq (c : MColl) (x : Obj) (h : d.contains x c.obj = x.contains c.obj) :
    collectionWithin (mopsD d dist sdist) c x = c.obj.within x := by
  unfold collectionWithin; simpa only [mopsD, Obj.within] using h
theorem members_eq (c : MColl) : collectionMembers (mopsD d dist sdist) c
    = (match c.ex with | some e => e.members | none => "") := by
  unfold collectionMembers; simp only [mopsD]; cases c.ex <;> rfl
theorem distance_eq (c : MColl) (x : Obj) :
    collectionDistance (mopsD d dist sdist) c x = sdist x c.obj.center := by
  rw [← center_eq d dist sdist]; rfl
theorem distancePoint_eq (c : MColl) (q : Pt) :
    collectionDistancePoint (mopsD d dist sdist) c q = dist c.obj.center q := by
  rw [← center_eq d dist sdist]; rfl
theorem distanceRect_eq (c : MColl) (r : Box) :
    collectionDistanceRect (mopsD d dist sdist) c r = dist c.obj.center r.center := by
  rw [← center_eq d dist sdist]; rfl
theorem distanceLine_eq (c : MColl) (l : Line) :
    collectionDistanceLine (mopsD d dist sdist) c l = dist c.obj.center l.rect.center := by
  rw [← center_eq d dist sdist]; rfl
theorem distancePoly_eq (c : MColl) (p : Poly) :
    collectionDistancePoly (mopsD d dist sdist) c p = dist c.obj.center p.rect.center := by
  rw [← center_eq d dist sdist]; rfl

/-! ### Intersects{Rect,Point,Line,Poly}, Within{Rect,Point,Line,Poly} -/

theorem any_search_congr (cs : List Obj) (q : Box) (p p' : Obj → Bool) (h : ∀ ch ∈ cs, p ch = p' ch) :
    (searchChildren cs q).any p = (searchChildren cs q).any p' := by
  rw [Bool.eq_iff_iff]; simp only [List.any_eq_true, searchChildren, List.mem_filter]
  exact ⟨fun ⟨x, hx, hp⟩ => ⟨x, hx, (h x hx.1) ▸ hp⟩, fun ⟨x, hx, hp⟩ => ⟨x, hx, (h x hx.1).symm ▸ hp⟩⟩

theorem withinCount_search_congr (cs : List Obj) (q : Box) (p p' : Obj → Bool) (h : ∀ ch ∈ cs, p ch = p' ch) :
    withinCount (searchChildren cs q) p = withinCount (searchChildren cs q) p' := by
  have hs : ∀ ch ∈ searchChildren cs q, p ch = p' ch := fun ch hc => h ch (List.mem_filter.1 hc).1
  generalize searchChildren cs q = l at hs
  induction l with
  | nil => rfl
  | cons x xs ih =>
    simp only [withinCount, hs x List.mem_cons_self, ih (fun ch hc => hs ch (List.mem_cons_of_mem _ hc))]

theorem intersectsPointL_eq_any (cs : List Obj) (q : Pt) :
    intersectsPointL cs q = (searchChildren cs q.box).any (fun c => c.intersectsPoint q) := by
  induction cs with
  | nil => simp [intersectsPointL, searchChildren]
  | cons c cs ih =>
    simp only [searchChildren] at ih
    by_cases hf : (!c.empty && c.rect.intersects q.box) = true
    · simp [intersectsPointL, searchChildren, hf, ih]
    · simp [intersectsPointL, searchChildren, hf, ih]

theorem intersectsLineL_eq_any (cs : List Obj) (l : Line) :
    intersectsLineL cs l = (searchChildren cs l.rect).any (fun c => c.intersectsLine l) := by
  induction cs with
  | nil => simp [intersectsLineL, searchChildren]
  | cons c cs ih =>
    simp only [searchChildren] at ih
    by_cases hf : (!c.empty && c.rect.intersects l.rect) = true
    · simp [intersectsLineL, searchChildren, hf, ih]
    · simp [intersectsLineL, searchChildren, hf, ih]

theorem intersectsPolyL_eq_any (cs : List Obj) (p : Poly) :
    intersectsPolyL cs p = (searchChildren cs p.rect).any (fun c => c.intersectsPoly p) := by
  induction cs with
  | nil => simp [intersectsPolyL, searchChildren]
  | cons c cs ih =>
    simp only [searchChildren] at ih
    by_cases hf : (!c.empty && c.rect.intersects p.rect) = true
    · simp [intersectsPolyL, searchChildren, hf, ih]
    · simp [intersectsPolyL, searchChildren, hf, ih]

theorem intersectsRect_eq (c : MColl) (hT : TreeOK c)
    (h : ∀ ch ∈ c.children, ∀ r, d.intersectsRect ch r = ch.intersectsRect r) (r : Box) :
    collectionIntersectsRect (mopsD d dist sdist) c r = c.obj.intersectsRect r := by
  refine (search_any d dist sdist c hT r (fun ch => d.intersectsRect ch r) false).trans ?_
  rw [MColl.obj, Obj.intersectsRect, intersectsRectL_eq_any, Bool.false_or]
  exact any_search_congr _ _ _ _ (fun ch hc => h ch hc r)

theorem intersectsPoint_eq (c : MColl) (hT : TreeOK c)
    (h : ∀ ch ∈ c.children, ∀ q, d.intersectsPoint ch q = ch.intersectsPoint q) (q : Pt) :
    collectionIntersectsPoint (mopsD d dist sdist) c q = c.obj.intersectsPoint q := by
  refine (search_any d dist sdist c hT q.box (fun ch => d.intersectsPoint ch q) false).trans ?_
  rw [MColl.obj, Obj.intersectsPoint, intersectsPointL_eq_any, Bool.false_or]
  exact any_search_congr _ _ _ _ (fun ch hc => h ch hc q)

theorem intersectsLine_eq (c : MColl) (hT : TreeOK c)
    (h : ∀ ch ∈ c.children, ∀ l, d.intersectsLine ch l = ch.intersectsLine l) (l : Line) :
    collectionIntersectsLine (mopsD d dist sdist) c l = c.obj.intersectsLine l := by
  refine (search_any d dist sdist c hT l.rect (fun ch => d.intersectsLine ch l) false).trans ?_
  rw [MColl.obj, Obj.intersectsLine, intersectsLineL_eq_any, Bool.false_or]
  exact any_search_congr _ _ _ _ (fun ch hc => h ch hc l)

theorem intersectsPoly_eq (c : MColl) (hT : TreeOK c)
    (h : ∀ ch ∈ c.children, ∀ p, d.intersectsPoly ch p = ch.intersectsPoly p) (p : Poly) :
    collectionIntersectsPoly (mopsD d dist sdist) c p = c.obj.intersectsPoly p := by
  refine (search_any d dist sdist c hT p.rect (fun ch => d.intersectsPoly ch p) false).trans ?_
  rw [MColl.obj, Obj.intersectsPoly, intersectsPolyL_eq_any, Bool.false_or]
  exact any_search_congr _ _ _ _ (fun ch hc => h ch hc p)

theorem withinRect_eq (c : MColl) (hT : TreeOK c)
    (h : ∀ ch ∈ c.children, ∀ r, d.withinRect ch r = ch.withinRect r) (r : Box) :
    collectionWithinRect (mopsD d dist sdist) c r = c.obj.withinRect r := by
  have hs := search_count d dist sdist c hT r (fun ch => d.withinRect ch r)
  rw [MColl.obj, Obj.withinRect, withinRectL_eq,
    ← withinCount_search_congr _ _ _ _ (fun ch hc => h ch hc r), ← hs]
  rfl

theorem withinPoint_eq (c : MColl) (hT : TreeOK c)
    (h : ∀ ch ∈ c.children, ∀ q, d.withinPoint ch q = ch.withinPoint q) (q : Pt) :
    collectionWithinPoint (mopsD d dist sdist) c q = c.obj.withinPoint q := by
  have hs := search_count d dist sdist c hT q.box (fun ch => d.withinPoint ch q)
  rw [MColl.obj, Obj.withinPoint, withinPointL_eq,
    ← withinCount_search_congr _ _ _ _ (fun ch hc => h ch hc q), ← hs]
  rfl

theorem withinLine_eq (c : MColl) (hT : TreeOK c)
    (h : ∀ ch ∈ c.children, ∀ l, d.withinLine ch l = ch.withinLine l) (l : Line) :
    collectionWithinLine (mopsD d dist sdist) c l = c.obj.withinLine l := by
  have hs := search_count d dist sdist c hT l.rect (fun ch => d.withinLine ch l)
  rw [MColl.obj, Obj.withinLine, withinLineL_eq,
    ← withinCount_search_congr _ _ _ _ (fun ch hc => h ch hc l), ← hs]
  rfl

theorem withinPoly_eq (c : MColl) (hT : TreeOK c)
    (h : ∀ ch ∈ c.children, ∀ p, d.withinPoly ch p = ch.withinPoly p) (p : Poly) :
    collectionWithinPoly (mopsD d dist sdist) c p = c.obj.withinPoly p := by
  have hs := search_count d dist sdist c hT p.rect (fun ch => d.withinPoly ch p)
  rw [MColl.obj, Obj.withinPoly, withinPolyL_eq,
    ← withinCount_search_congr _ _ _ _ (fun ch hc => h ch hc p), ← hs]
  rfl

/-! ### Contains, Intersects -/

theorem containsAll_eq_all (cs gs : List Obj) : containsAll cs gs = gs.all (fun g => containsSome cs g) := by
  induction gs with
  | nil => simp [containsAll]
  | cons g gs ih => simp [containsAll, ih]

theorem intersectsParts_eq_any (cs gs : List Obj) :
    intersectsParts cs gs = gs.any (fun g => intersectsSome cs g) := by
  induction gs with
  | nil => simp [intersectsParts]
  | cons g gs ih => simp [intersectsParts, ih]

/-- the outer loop of `Contains`: empties skipped, stop (and unmark) at the first part that is not
    contained, mark at every part that is -/
theorem iterate_containsAll (G : Obj → Bool) (l : List Obj) (st : Bool) :
    (iterate (fun geom (st : Bool) => if geom.empty then (st, true)
        else if !(G geom) then (false, false) else (true, true)) l st).1
      = (if (l.filter (fun g => !g.empty)).isEmpty then st else (l.filter (fun g => !g.empty)).all G) := by
  induction l generalizing st with
  | nil => simp [iterate_nil]
  | cons x xs ih =>
    rw [iterate_cons]
    by_cases he : x.empty = true
    · simp only [he, if_true, List.filter_cons, Bool.not_true, Bool.false_eq_true, if_false]
      exact ih st
    · by_cases hg : G x = true
      · simp only [he, hg, Bool.false_eq_true, if_false, Bool.not_true, if_true, List.filter_cons,
          Bool.not_false, List.isEmpty_cons, List.all_cons, Bool.true_and]
        rw [ih]
        cases h : (xs.filter (fun g => !g.empty)) <;> simp
      · simp [he, hg]

/-- the outer loop of `Intersects`: empties skipped, stop at the first part that intersects -/
theorem iterate_intersectsParts (G : Obj → Bool) (l : List Obj) :
    (iterate (fun geom (st : Bool) => if geom.empty then (st, true)
        else ((st || G geom), !(st || G geom))) l false).1
      = (l.filter (fun g => !g.empty)).any G := by
  induction l with
  | nil => simp [iterate_nil]
  | cons x xs ih =>
    rw [iterate_cons]
    by_cases he : x.empty = true
    · simp only [he, if_true, List.filter_cons, Bool.not_true, Bool.false_eq_true, if_false]
      exact ih
    · by_cases hg : G x = true
      · simp [he, hg]
      · simp only [he, hg, Bool.false_eq_true, if_false, Bool.or_self, Bool.not_false, if_true,
          List.filter_cons, List.any_cons, Bool.false_or]
        exact ih

theorem contains_eq (c : MColl) (hT : TreeOK c)
    (h : ∀ ch ∈ c.children, ∀ y, d.contains ch y = ch.contains y) (x : Obj)
    (hx : d.forEach x = x.leaves) :
    collectionContains (mopsD d dist sdist) c x = c.obj.contains x := by
  unfold collectionContains collectionEmpty
  simp only [search_any d dist sdist c hT]
  simp only [mopsD, hx, Bool.false_or]
  rw [iterate_containsAll (fun geom => (searchChildren c.children geom.rect).any (fun ch => d.contains ch geom))]
  rw [MColl.obj, Obj.contains]
  have hG : ∀ gs : List Obj, gs.all (fun geom => (searchChildren c.children geom.rect).any
      (fun ch => d.contains ch geom)) = containsAll c.children gs := by
    intro gs
    rw [containsAll_eq_all]
    congr 1; funext geom
    rw [containsSome_eq_any]
    exact any_search_congr _ _ _ _ (fun ch hc => h ch hc geom)
  rw [hG]
  by_cases he : (Obj.coll c.kind c.children c.ex c.indexed).empty = true
  · simp [he]
  · simp only [he, Bool.false_eq_true, if_false]
    cases (x.leaves.filter (fun g => !g.empty)) <;> simp

theorem intersects_eq (c : MColl) (hT : TreeOK c)
    (h : ∀ ch ∈ c.children, ∀ y, d.intersects ch y = ch.intersects y) (x : Obj)
    (hx : d.forEach x = x.leaves) :
    collectionIntersects (mopsD d dist sdist) c x = c.obj.intersects x := by
  unfold collectionIntersects
  simp only [search_any d dist sdist c hT]
  simp only [mopsD, hx]
  refine Eq.trans (b := _) rfl ((iterate_intersectsParts (fun geom =>
    (searchChildren c.children geom.rect).any (fun ch => d.intersects ch geom)) x.leaves).trans ?_)
  rw [MColl.obj, Obj.intersects, intersectsParts_eq_any]
  congr 1; funext geom
  rw [intersectsSome_eq_any]
  exact any_search_congr _ _ _ _ (fun ch hc => h ch hc geom)

end Geo.CGlue
