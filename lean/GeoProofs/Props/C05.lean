/-
  Property C05 — totality of Parse on the AST model (GeoModel.Json):
  `parseTop` always returns an object or an error; its fuel is never exhausted; the only
  source of `.unmodelled` is the (explicitly unmodelled) string-valued Circle radius;
  every object it produces carries a complete table of extra ordinates, so that the writer
  (GeoModel.Write) never indexes out of range (never returns `none`).
-/
import GeoProofs.ParseLemmas

namespace Geo

/-! ### fuel -/

/-- the fuel of `parseTop` is never exhausted: any two fuels above the nesting depth give
    the same result -/
theorem parse_fuel_sufficient (o : POpts) (v : JVal) (n m : Nat) (hn : v.depth < n) (hm : v.depth < m) :
    parse o n v = parse o m v :=
  parse_fuel_indep o n m v hn hm

theorem parseTop_total (o : POpts) (v : JVal) :
    (∃ x, parseTop o v = .ok x) ∨ (∃ e, parseTop o v = .error e) := by
  cases h : parseTop o v with
  | ok x => exact .inl ⟨x, rfl⟩
  | error e => exact .inr ⟨e, rfl⟩

/-- `parseTop` is `parse` with any sufficient fuel -/
theorem parseTop_eq_parse (o : POpts) (v : JVal) (n : Nat) (hn : v.depth < n) :
    parseTop o v = parse o n v :=
  parse_fuel_indep o _ n v (Nat.lt_succ_self _) hn

/-! ### `.unmodelled` -/

/-- somewhere in the document there is a Feature over a Point whose `properties.type` is the
    string "Circle" and whose `properties.radius` is a JSON string. (`properties` is looked up
    as the model does it: the FIRST foreign member of that name, `type`/`radius` likewise the
    first member of the properties object; the Feature's own reserved members are the LAST of
    their name.) -/
inductive HasStringRadius : JVal → Prop
  | here (ms : List (String × String × JVal)) (r : String) (props : JVal) (r1 r2 d : String)
      (hty : (scanKeys ms).type = some (.str r "Feature"))
      (hprops : propsOf (scanKeys ms) = some props)
      (hptype : props.get "type" = some (.str r1 "Circle"))
      (hradius : props.get "radius" = some (.str r2 d)) :
      HasStringRadius (.obj ms)
  | geometry (ms : List (String × String × JVal)) (r : String) (g : JVal)
      (hty : (scanKeys ms).type = some (.str r "Feature"))
      (hg : (scanKeys ms).geometry = some g) (h : HasStringRadius g) :
      HasStringRadius (.obj ms)
  | geometries (ms : List (String × String × JVal)) (r : String) (items : List JVal) (x : JVal)
      (hty : (scanKeys ms).type = some (.str r "GeometryCollection"))
      (hg : (scanKeys ms).geometries = some (.arr items)) (hx : x ∈ items) (h : HasStringRadius x) :
      HasStringRadius (.obj ms)
  | features (ms : List (String × String × JVal)) (r : String) (items : List JVal) (x : JVal)
      (hty : (scanKeys ms).type = some (.str r "FeatureCollection"))
      (hg : (scanKeys ms).features = some (.arr items)) (hx : x ∈ items) (h : HasStringRadius x) :
      HasStringRadius (.obj ms)

theorem featureObj_unmodelled {o : POpts} {k : Keys} {base : Obj}
    (h : featureObj o k base = .error .unmodelled) :
    ∃ props r1 r2 d, propsOf k = some props ∧ props.get "type" = some (.str r1 "Circle") ∧
      props.get "radius" = some (.str r2 d) := by
  unfold featureObj at h
  split at h
  · split at h
    · rename_i hc
      simp only [Bool.and_eq_true] at hc
      have hct := hc.2
      split at h
      · rename_i hr
        unfold isCircleType at hct
        unfold radiusTexts at hr
        cases hp : propsOf k with
        | none =>
          rw [hp] at hct
          simp at hct
        | some props =>
          rw [hp] at hct hr
          simp only [Option.bind_some] at hct hr
          refine ⟨props, ?_⟩
          split at hct
          · rename_i r1 hty
            split at hr
            · split at hr <;> cases hr
            · cases hr
            · rename_i r2 d hrad
              exact ⟨r1, r2, d, rfl, hty, hrad⟩
            · cases hr
          · cases hct
      · split at h
        · cases h
        · split at h <;> cases h
    · cases h
  · cases h

theorem parse_unmodelled (o : POpts) : ∀ (n : Nat) (v : JVal), v.depth < n →
    parse o n v = .error .unmodelled → HasStringRadius v
  | 0, _, hn, _ => absurd hn (Nat.not_lt_zero _)
  | n+1, v, hn, h => by
    cases v with
    | obj ms =>
      rw [parse_succ_obj] at h
      have hd := scanKeys_depth ms
      rw [depth_obj] at hn
      split at h
      · cases h
      · rename_i r ty hty
        revert h
        refine parseTyped_elim (motive := fun ty res =>
          (scanKeys ms).type = some (.str r ty) → res = .error .unmodelled → HasStringRadius (.obj ms))
          o (scanKeys ms) (parse o n) (parseList o n) ty ?_ ?_ ?_ ?_ ?_ ?_ ?_ ?_ ?_ ?_ hty
        · exact fun _ h => absurd h pointCase_not_unmodelled
        · exact fun _ h => absurd h lineCase_not_unmodelled
        · exact fun _ h => absurd h polyCase_not_unmodelled
        · exact fun _ h => absurd h multiPointCase_not_unmodelled
        · exact fun _ h => absurd h multiLineCase_not_unmodelled
        · exact fun _ h => absurd h multiPolyCase_not_unmodelled
        · intro hty h
          unfold geomCollCase at h
          split at h
          · rename_i e he
            cases h
            rcases reqArray_error he with h | h <;> cases h
          · rename_i items hreq
            split at h
            · rename_i e he
              cases h
              obtain ⟨x, hx, hpx⟩ := parseList_error o n items _ he
              have hg := (reqArray_ok hreq).1
              have h1 := hd.geometries _ hg
              rw [depth_arr] at h1
              have h2 := depth_le_depthL items x hx
              exact .geometries ms r items x hty hg hx (parse_unmodelled o n x (by omega) hpx)
            · cases h
          · cases h
        · intro hty h
          unfold featCollCase at h
          split at h
          · rename_i e he
            cases h
            rcases reqArray_error he with h | h <;> cases h
          · rename_i items hreq
            split at h
            · rename_i e he
              cases h
              obtain ⟨x, hx, hpx⟩ := parseList_error o n items _ he
              have hg := (reqArray_ok hreq).1
              have h1 := hd.features _ hg
              rw [depth_arr] at h1
              have h2 := depth_le_depthL items x hx
              exact .features ms r items x hty hg hx (parse_unmodelled o n x (by omega) hpx)
            · cases h
          · cases h
        · intro hty h
          unfold featureCase at h
          split at h
          · cases h
          · rename_i g hg
            split at h
            · rename_i e he
              cases h
              have h1 := hd.geometry _ hg
              exact .geometry ms r g hty hg (parse_unmodelled o n g (by omega) he)
            · obtain ⟨props, r1, r2, d, hp, ht, hr⟩ := featureObj_unmodelled h
              exact .here ms r props r1 r2 d hty hp ht hr
        · intro _ _ h; cases h
      · cases h
    | null => rw [parse_succ_nonobj o n _ (by intro ms h; cases h)] at h; cases h
    | tru => rw [parse_succ_nonobj o n _ (by intro ms h; cases h)] at h; cases h
    | fls => rw [parse_succ_nonobj o n _ (by intro ms h; cases h)] at h; cases h
    | num => rw [parse_succ_nonobj o n _ (by intro ms h; cases h)] at h; cases h
    | str => rw [parse_succ_nonobj o n _ (by intro ms h; cases h)] at h; cases h
    | arr => rw [parse_succ_nonobj o n _ (by intro ms h; cases h)] at h; cases h

/-- the only source of `.unmodelled` is the string-valued circle radius -/
theorem parseTop_unmodelled_only_string_radius (o : POpts) (v : JVal)
    (h : parseTop o v = .error .unmodelled) : HasStringRadius v :=
  parse_unmodelled o (v.depth + 1) v (Nat.lt_succ_self _) h


/-! ### the writer never indexes out of range -/

mutual
/-- every object carries a complete table of extra ordinates: `dims` values for each of its
    positions (`writePos` reads `values[idx*dims+i]` for `i < dims`), and the children of a
    Multi* collection are plain geometries -/
def ExtraOK : Obj → Prop
  | .point _ ex => extraLenOK ex 1
  | .spoint _ => True
  | .lineString _ poss ex => extraLenOK ex poss.length
  | .polygon _ rings ex => extraLenOK ex (totalLen rings)
  | .rectO _ _ _ => True
  | .coll kind cs _ _ =>
    ((kind = .geometryCollection ∨ kind = .featureCollection) ∨ cs.all isGeomLeaf = true) ∧ ExtraOKL cs
  | .feature b _ => ExtraOK b
  | .circle _ _ => True
def ExtraOKL : List Obj → Prop
  | [] => True
  | c :: cs => ExtraOK c ∧ ExtraOKL cs
end

theorem optMapM_isSome {α β : Type} (f : α → Option β) :
    ∀ (l : List α), (∀ x ∈ l, (f x).isSome) → (l.mapM f).isSome
  | [], _ => by simp
  | x :: xs, h => by
    have hx := h x List.mem_cons_self
    have hxs := optMapM_isSome f xs (fun z hz => h z (List.mem_cons_of_mem _ hz))
    rw [List.mapM_cons]
    cases hfx : f x with
    | none => rw [hfx] at hx; cases hx
    | some y =>
      cases hm : xs.mapM f with
      | none => rw [hm] at hxs; cases hxs
      | some ys => rfl

/-- position `idx` of a table for more than `idx` positions can be written -/
theorem writePos_isSome (pos : Pos) (ex : Option Extra) (idx : Nat)
    (h : ∀ e, ex = some e → (idx + 1) * e.dims ≤ e.values.length) : (writePos pos ex idx).isSome := by
  unfold writePos
  cases ex with
  | none => rfl
  | some e =>
    have he := h e rfl
    simp only
    have : ((List.range e.dims).mapM (fun i => e.values[idx * e.dims + i]?)).isSome := by
      apply optMapM_isSome
      intro i hi
      rw [List.mem_range] at hi
      rw [Nat.succ_mul] at he
      have : idx * e.dims + i < e.values.length := by omega
      simp [this]
    cases hm : (List.range e.dims).mapM (fun i => e.values[idx * e.dims + i]?) with
    | none => rw [hm] at this; cases this
    | some ys => rfl

theorem writeSeries_go_isSome (ex : Option Extra) : ∀ (ps : List Pos) (i : Nat),
    (∀ e, ex = some e → (i + ps.length) * e.dims ≤ e.values.length) →
      (writeSeries.go ex ps i).isSome
  | [], i, _ => by rw [writeSeries.go]; rfl
  | p :: ps, i, h => by
    rw [writeSeries.go]
    have h1 : (writePos p ex i).isSome := by
      apply writePos_isSome
      intro e he
      have := h e he
      rw [List.length_cons] at this
      refine Nat.le_trans (Nat.mul_le_mul_right _ ?_) this
      omega
    have h2 : (writeSeries.go ex ps (i+1)).isSome := by
      apply writeSeries_go_isSome
      intro e he
      have := h e he
      rw [List.length_cons] at this
      have e1 : i + 1 + ps.length = i + (ps.length + 1) := by omega
      rw [e1]; exact this
    cases hp : writePos p ex i with
    | none => rw [hp] at h1; cases h1
    | some t =>
      cases hg : writeSeries.go ex ps (i+1) with
      | none => rw [hg] at h2; cases h2
      | some r => rfl

theorem writeSeries_some (ps : List Pos) (ex : Option Extra) (i : Nat)
    (h : ∀ e, ex = some e → (i + ps.length) * e.dims ≤ e.values.length) :
    ∃ t, writeSeries ps ex i = some (t, i + ps.length) := by
  have := writeSeries_go_isSome ex ps i h
  unfold writeSeries
  cases hg : writeSeries.go ex ps i with
  | none => rw [hg] at this; cases this
  | some parts => exact ⟨_, rfl⟩

theorem writeRings_go_isSome (ex : Option Extra) : ∀ (rings : List (List Pos)) (i : Nat),
    (∀ e, ex = some e → (i + totalLen rings) * e.dims ≤ e.values.length) →
      (writeRings.go ex rings i).isSome
  | [], i, _ => by rw [writeRings.go]; rfl
  | r :: rs, i, h => by
    rw [writeRings.go]
    obtain ⟨t, ht⟩ := writeSeries_some r ex i (by
      intro e he
      have := h e he
      refine Nat.le_trans (Nat.mul_le_mul_right _ ?_) this
      simp [totalLen])
    have h2 : (writeRings.go ex rs (i + r.length)).isSome := by
      apply writeRings_go_isSome
      intro e he
      have := h e he
      have e1 : i + r.length + totalLen rs = i + totalLen (r :: rs) := by
        simp [totalLen]; omega
      rw [e1]; exact this
    cases hg : writeRings.go ex rs (i + r.length) with
    | none => rw [hg] at h2; cases h2
    | some r => simp [ht, hg]

theorem writeRings_isSome (rings : List (List Pos)) (ex : Option Extra)
    (h : extraLenOK ex (totalLen rings)) : (writeRings rings ex).isSome := by
  have := writeRings_go_isSome ex rings 0 (by
    intro e he
    subst he
    simp only [extraLenOK] at h
    rw [h, Nat.zero_add, Nat.mul_comm]
    exact Nat.le_refl _)
  unfold writeRings
  cases hg : writeRings.go ex rings 0 with
  | none => rw [hg] at this; cases this
  | some parts => rfl

theorem writeCoords_isSome : ∀ (x : Obj), isGeomLeaf x = true → ExtraOK x → (writeCoords x).isSome
  | .point pos ex, _, h => by
    rw [writeCoords]
    apply writePos_isSome
    intro e he
    subst he
    simp only [ExtraOK, extraLenOK] at h
    rw [h]; simp
  | .spoint pos, _, _ => by rw [writeCoords]; rfl
  | .lineString _ poss ex, _, h => by
    rw [writeCoords]
    obtain ⟨t, ht⟩ := writeSeries_some poss ex 0 (by
      intro e he
      subst he
      simp only [ExtraOK, extraLenOK] at h
      rw [h, Nat.zero_add, Nat.mul_comm]
      exact Nat.le_refl _)
    rw [ht]; rfl
  | .polygon poly rings ex, _, h => by
    rw [writeCoords]
    split
    · rfl
    · exact writeRings_isSome rings ex (by simpa only [ExtraOK] using h)
  | .rectO _ lo hi, _, _ => by
    rw [writeCoords]
    exact writeRings_isSome _ none (by simp [extraLenOK])
  | .coll _ _ _ _, hl, _ => by cases hl
  | .feature _ _, hl, _ => by cases hl
  | .circle _ _, hl, _ => by cases hl

theorem writeAllCoords_isSome : ∀ (cs : List Obj), cs.all isGeomLeaf = true → ExtraOKL cs →
    (writeAllCoords cs).isSome
  | [], _, _ => by rw [writeAllCoords]; rfl
  | c :: cs, hl, h => by
    rw [writeAllCoords]
    simp only [List.all_cons, Bool.and_eq_true] at hl
    simp only [ExtraOKL] at h
    have h1 := writeCoords_isSome c hl.1 h.1
    have h2 := writeAllCoords_isSome cs hl.2 h.2
    cases hc : writeCoords c with
    | none => rw [hc] at h1; cases h1
    | some t =>
      cases hr : writeAllCoords cs with
      | none => rw [hr] at h2; cases h2
      | some r => rfl

mutual
theorem write_isSome : ∀ (x : Obj), ExtraOK x → (write x).isSome
  | .point pos ex, h => by
    have := writeCoords_isSome (.point pos ex) rfl h
    rw [writeCoords] at this
    rw [write]
    cases hc : writePos pos ex 0 with
    | none => rw [hc] at this; cases this
    | some t => rfl
  | .spoint pos, _ => by rw [write]; rfl
  | .lineString l poss ex, h => by
    have := writeCoords_isSome (.lineString l poss ex) rfl h
    rw [writeCoords] at this
    rw [write]
    cases hc : writeSeries poss ex 0 with
    | none => rw [hc] at this; cases this
    | some t => rfl
  | .polygon poly rings ex, h => by
    have := writeCoords_isSome (.polygon poly rings ex) rfl h
    rw [writeCoords] at this
    rw [write]
    cases hp : poly.empty with
    | true => rfl
    | false =>
      rw [hp] at this
      simp only [Bool.false_eq_true, if_false] at this ⊢
      cases hc : writeRings rings ex with
      | none => rw [hc] at this; cases this
      | some t => rfl
  | .rectO b lo hi, h => by
    have := writeCoords_isSome (.rectO b lo hi) rfl h
    rw [writeCoords] at this
    rw [write]
    cases hc : writeRings [rectRing lo hi] none with
    | none => rw [hc] at this; cases this
    | some t => rfl
  | .coll kind cs ex idx, h => by
    simp only [ExtraOK] at h
    have hall := writeAll_isSome cs h.2
    cases kind with
    | multiPoint =>
      have hc := writeAllCoords_isSome cs (by simpa using h.1) h.2
      rw [write]
      · cases hp : writeAllCoords cs with
        | none => rw [hp] at hc; cases hc
        | some p => rfl
      all_goals (intro hk; cases hk)
    | multiLineString =>
      have hc := writeAllCoords_isSome cs (by simpa using h.1) h.2
      rw [write]
      · cases hp : writeAllCoords cs with
        | none => rw [hp] at hc; cases hc
        | some p => rfl
      all_goals (intro hk; cases hk)
    | multiPolygon =>
      have hc := writeAllCoords_isSome cs (by simpa using h.1) h.2
      rw [write]
      · cases hp : writeAllCoords cs with
        | none => rw [hp] at hc; cases hc
        | some p => rfl
      all_goals (intro hk; cases hk)
    | geometryCollection =>
      rw [write]
      cases hp : writeAll cs with
      | none => rw [hp] at hall; cases hall
      | some p => rfl
    | featureCollection =>
      rw [write]
      cases hp : writeAll cs with
      | none => rw [hp] at hall; cases hall
      | some p => rfl
  | .feature b ex, h => by
    rw [write]
    simp only [ExtraOK] at h
    have := write_isSome b h
    cases hb : write b with
    | none => rw [hb] at this; cases this
    | some t => rfl
  | .circle c r, _ => by rw [write]; rfl
theorem writeAll_isSome : ∀ (cs : List Obj), ExtraOKL cs → (writeAll cs).isSome
  | [], _ => by rw [writeAll]; rfl
  | c :: cs, h => by
    rw [writeAll]
    simp only [ExtraOKL] at h
    have h1 := write_isSome c h.1
    have h2 := writeAll_isSome cs h.2
    cases hc : write c with
    | none => rw [hc] at h1; cases h1
    | some t =>
      cases hr : writeAll cs with
      | none => rw [hr] at h2; cases h2
      | some r => rfl
end

theorem write_some_of_extraOK (x : Obj) (h : ExtraOK x) : (write x).isSome := write_isSome x h

theorem extraOKL_iff : ∀ (cs : List Obj), ExtraOKL cs ↔ ∀ c ∈ cs, ExtraOK c
  | [] => by simp [ExtraOKL]
  | c :: cs => by simp [ExtraOKL, extraOKL_iff cs]

theorem pointCase_extraOK {o : POpts} {k : Keys} {x : Obj} (h : pointCase o k = .ok x) : ExtraOK x := by
  unfold pointCase at h
  split at h
  · cases h
  · split at h
    · cases h
    · split at h
      · cases h
      · rename_i pos ex hp
        simp only at h
        split at h <;> split at h
        · cases h
        · cases h; simp [ExtraOK]
        · cases h
        · cases h
          simp only [ExtraOK]
          exact withMembers_extraLenOK (parsePointCoords_extra hp)

theorem lineCase_extraOK {o : POpts} {k : Keys} {x : Obj} (h : lineCase o k = .ok x) : ExtraOK x := by
  unfold lineCase at h
  split at h
  · cases h
  · split at h
    · cases h
    · rename_i ps ex hp
      split at h
      · cases h
      · simp only at h
        split at h
        · cases h
        · cases h
          simp only [ExtraOK]
          exact withMembers_extraLenOK (parseLineCoords_extra hp)

theorem polyCase_extraOK {o : POpts} {k : Keys} {x : Obj} (h : polyCase o k = .ok x) : ExtraOK x := by
  unfold polyCase at h
  split at h
  · cases h
  · split at h
    · cases h
    · rename_i rings ex hp
      split at h
      · cases h
      · simp only at h
        split at h
        · cases h
        · cases h
          rcases polyObj_cases o rings (withMembers ex k) with hc | ⟨_, _, _, _, _, _, _, _, _, hc⟩
          · rw [hc]
            simp only [ExtraOK]
            exact withMembers_extraLenOK (parsePolyCoords_extra hp)
          · rw [hc]; simp [ExtraOK]

theorem lineChild_extraOK {o : POpts} {v : JVal} {x : Obj} (h : lineChild o v = .ok x) :
    ExtraOK x ∧ isGeomLeaf x = true := by
  rw [lineChild_eq] at h
  split at h
  · cases h
  · rename_i ps ex hp
    split at h
    · cases h
    · cases h
      exact ⟨by simp only [ExtraOK]; exact parseLineCoords_extra hp, rfl⟩

theorem polyChild_extraOK {o : POpts} {v : JVal} {x : Obj} (h : polyChild o v = .ok x) :
    ExtraOK x ∧ isGeomLeaf x = true := by
  rw [polyChild_eq] at h
  split at h
  · cases h
  · rename_i rings ex hp
    split at h
    · cases h
    · cases h
      exact ⟨by simp only [ExtraOK]; exact parsePolyCoords_extra hp, rfl⟩

theorem multiPointCase_extraOK {o : POpts} {k : Keys} {x : Obj} (h : multiPointCase o k = .ok x) :
    ExtraOK x := by
  unfold multiPointCase at h
  split at h
  · cases h
  · split at h
    · cases h
    · rename_i cs hcs
      simp only at h
      split at h
      · cases h
      · cases h
        have hf := mapM_except_ok _ _ _ hcs
        have : ∀ c ∈ cs, extraLenOK c.2 1 :=
          hf.right (P := fun c => extraLenOK c.2 1) (fun x y _ hxy => parsePointCoords_extra (p := y.1) (ex := y.2) hxy)
        simp only [mkColl, ExtraOK]
        refine ⟨.inr ?_, ?_⟩
        · simp [isGeomLeaf]
        · rw [extraOKL_iff]
          intro c hc
          rw [List.mem_map] at hc
          obtain ⟨y, hy, rfl⟩ := hc
          simp only [ExtraOK]
          exact this y hy

theorem multiLineCase_extraOK {o : POpts} {k : Keys} {x : Obj} (h : multiLineCase o k = .ok x) :
    ExtraOK x := by
  unfold multiLineCase at h
  split at h
  · cases h
  · split at h
    · cases h
    · rename_i cs hcs
      simp only at h
      split at h
      · cases h
      · cases h
        have hf := mapM_except_ok _ _ _ hcs
        have := hf.right (P := fun c => ExtraOK c ∧ isGeomLeaf c = true) (fun x y _ hxy => lineChild_extraOK hxy)
        simp only [mkColl, ExtraOK]
        refine ⟨.inr ?_, ?_⟩
        · rw [List.all_eq_true]; exact fun c hc => (this c hc).2
        · rw [extraOKL_iff]; exact fun c hc => (this c hc).1

theorem multiPolyCase_extraOK {o : POpts} {k : Keys} {x : Obj} (h : multiPolyCase o k = .ok x) :
    ExtraOK x := by
  unfold multiPolyCase at h
  split at h
  · cases h
  · split at h
    · cases h
    · rename_i cs hcs
      simp only at h
      split at h
      · cases h
      · cases h
        have hf := mapM_except_ok _ _ _ hcs
        have := hf.right (P := fun c => ExtraOK c ∧ isGeomLeaf c = true) (fun x y _ hxy => polyChild_extraOK hxy)
        simp only [mkColl, ExtraOK]
        refine ⟨.inr ?_, ?_⟩
        · rw [List.all_eq_true]; exact fun c hc => (this c hc).2
        · rw [extraOKL_iff]; exact fun c hc => (this c hc).1

theorem featureObj_extraOK {o : POpts} {k : Keys} {base x : Obj} (hb : ExtraOK base)
    (h : featureObj o k base = .ok x) : ExtraOK x := by
  unfold featureObj at h
  split at h
  · split at h
    · split at h
      · cases h
      · split at h
        · cases h; simp [ExtraOK]
        · split at h
          · cases h; simp [ExtraOK]
          · cases h
    · cases h; simpa only [ExtraOK] using hb
  · cases h; simpa only [ExtraOK] using hb

/-- every object produced by Parse carries a complete table of extra ordinates -/
theorem parse_extraOK (o : POpts) : ∀ (n : Nat) (v : JVal) (x : Obj), parse o n v = .ok x → ExtraOK x
  | 0, v, x, h => by rw [parse_zero] at h; cases h
  | n+1, v, x, h => by
    cases v with
    | obj ms =>
      rw [parse_succ_obj] at h
      split at h
      · cases h
      · rename_i r ty hty
        revert h
        refine parseTyped_elim (motive := fun _ res => res = .ok x → ExtraOK x)
          o (scanKeys ms) (parse o n) (parseList o n) ty ?_ ?_ ?_ ?_ ?_ ?_ ?_ ?_ ?_ ?_
        · exact pointCase_extraOK
        · exact lineCase_extraOK
        · exact polyCase_extraOK
        · exact multiPointCase_extraOK
        · exact multiLineCase_extraOK
        · exact multiPolyCase_extraOK
        · intro h
          unfold geomCollCase at h
          split at h
          · cases h
          · rename_i items hreq
            split at h
            · cases h
            · rename_i cs hcs
              cases h
              have := (parseList_ok o n items cs hcs).right (P := ExtraOK)
                (fun x y _ hxy => parse_extraOK o n x y hxy)
              simp only [mkColl, ExtraOK]
              exact ⟨by simp, (extraOKL_iff cs).2 this⟩
          · cases h
        · intro h
          unfold featCollCase at h
          split at h
          · cases h
          · rename_i items hreq
            split at h
            · cases h
            · rename_i cs hcs
              cases h
              have := (parseList_ok o n items cs hcs).right (P := ExtraOK)
                (fun x y _ hxy => parse_extraOK o n x y hxy)
              simp only [mkColl, ExtraOK]
              exact ⟨by simp, (extraOKL_iff cs).2 this⟩
          · cases h
        · intro h
          unfold featureCase at h
          split at h
          · cases h
          · rename_i g hg
            split at h
            · cases h
            · rename_i base hbase
              exact featureObj_extraOK (parse_extraOK o n g base hbase) h
        · intro _ h; cases h
      · cases h
    | null => rw [parse_succ_nonobj o n _ (by intro ms h; cases h)] at h; cases h
    | tru => rw [parse_succ_nonobj o n _ (by intro ms h; cases h)] at h; cases h
    | fls => rw [parse_succ_nonobj o n _ (by intro ms h; cases h)] at h; cases h
    | num => rw [parse_succ_nonobj o n _ (by intro ms h; cases h)] at h; cases h
    | str => rw [parse_succ_nonobj o n _ (by intro ms h; cases h)] at h; cases h
    | arr => rw [parse_succ_nonobj o n _ (by intro ms h; cases h)] at h; cases h

/-- Parse followed by AppendJSON never panics -/
theorem parse_then_write_no_panic (o : POpts) (v : JVal) (x : Obj) (h : parseTop o v = .ok x) :
    (write x).isSome :=
  write_some_of_extraOK x (parse_extraOK o _ v x h)


end Geo

namespace Geo

/-! ### non-vacuity: the string-valued radius -/

/-- `{"type":"Point","coordinates":[1,2]}` -/
def docPt : JVal := .obj [jmem "type" (jstr "Point"), jmem "coordinates" (.arr [jnum 1 "1", jnum 2 "2"])]

/-- `{"type":"Feature","geometry":{"type":"Point","coordinates":[1,2]},
      "properties":{"type":"Circle","radius":"5"}}` -/
def msStrRadius : List (String × String × JVal) :=
  [jmem "type" (jstr "Feature"), jmem "geometry" docPt,
   jmem "properties" (.obj [jmem "type" (jstr "Circle"), jmem "radius" (jstr "5")])]
def docStrRadius : JVal := .obj msStrRadius

theorem docStrRadius_unmodelled : parseTop {} docStrRadius = .error .unmodelled := by
  have hp : parse {} 3 docPt = .ok (.point ⟨⟨1, 2⟩, true, "1", "2"⟩ none) := by
    show parse {} (2+1) (.obj _) = _
    rw [parse_succ_obj]
    rfl
  show parse {} (3+1) (.obj msStrRadius) = _
  rw [parse_succ_obj]
  have ht : (scanKeys msStrRadius).type = some (.str "\"Feature\"" "Feature") := rfl
  rw [ht]
  show featureCase {} (scanKeys msStrRadius) (parse {} 3) = _
  unfold featureCase
  have hg : (scanKeys msStrRadius).geometry = some docPt := rfl
  rw [hg]
  simp only [hp]
  rfl

example : HasStringRadius docStrRadius :=
  parseTop_unmodelled_only_string_radius {} _ docStrRadius_unmodelled

/-- Parse followed by AppendJSON on a concrete document -/
example : (parseTop {} docPt).toOption.bind write =
    some "{\"type\":\"Point\",\"coordinates\":[1,2]}" := by
  have hp : parseTop {} docPt = .ok (.point ⟨⟨1, 2⟩, true, "1", "2"⟩ none) := by
    show parse {} (2+1) (.obj _) = _
    rw [parse_succ_obj]
    rfl
  rw [hp]
  decide

end Geo

#print axioms Geo.parse_fuel_sufficient
#print axioms Geo.parseTop_total
#print axioms Geo.parseTop_unmodelled_only_string_radius
#print axioms Geo.parse_extraOK
#print axioms Geo.write_some_of_extraOK
#print axioms Geo.parse_then_write_no_panic
