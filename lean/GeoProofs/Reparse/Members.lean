/-
  GeoProofs.Reparse.Members — C06: the foreign members of the top-level object survive Parse as
  the `members` text, for every kind except a recognised Circle (which keeps only centre and
  radius).  No well-formedness hypothesis on the document is needed.
-/
import GeoProofs.Reparse.Feature

namespace Geo

/-- the foreign member text stored in the top-level node ("" where the kind has no `extra`) -/
def topMembers : Obj → String
  | .point _ ex => exMembers' ex
  | .spoint _ => ""
  | .lineString _ _ ex => exMembers' ex
  | .polygon _ _ ex => exMembers' ex
  | .rectO _ _ _ => ""
  | .coll _ _ ex _ => exMembers' ex
  | .feature _ ex => exMembers' ex
  | .circle _ _ => ""

/-! ### the coordinate parsers return an `extra` without members -/

def MemE (st : DimSt) : Prop := exMembers' st.ex = ""

theorem dimStep_memE {st st' : DimSt} {nums : List Ord} {b : Bool} (h : dimStep st nums b = .ok st')
    (hm : MemE st) : MemE st' := by
  cases hex : st.ex with
  | none =>
    by_cases hl : nums.length > 2
    · rw [dimStep_none_long hex hl] at h
      cases b with
      | false => simp at h
      | true => simp only [if_true, Except.ok.injEq] at h; subst h; rfl
    · rw [dimStep_none_short hex (by omega)] at h
      cases h; exact hm
  | some e =>
    rw [dimStep_some hex] at h
    cases h
    simp only [MemE, exMembers'] at hm ⊢
    rw [hex] at hm
    exact hm

theorem lineLoop_memE : ∀ (vs : List JVal) (acc : List Pos) (st : DimSt) (ps : List Pos) (st' : DimSt),
    parseLineCoordsLoop vs acc st = .ok (ps, st') → MemE st → MemE st'
  | [], acc, st, ps, st', h, hm => by
    simp only [parseLineCoordsLoop, Except.ok.injEq, Prod.mk.injEq] at h
    obtain ⟨_, rfl⟩ := h
    exact hm
  | v :: vs, acc, st, ps, st', h, hm => by
    rw [parseLineCoordsLoop] at h
    by_cases ha : v.isArray = true
    · simp only [ha, Bool.not_true, Bool.false_eq_true, if_false, bind, Except.bind] at h
      cases hn : takeNums false v.elems 0 with
      | error e => simp [hn] at h
      | ok nums =>
        simp only [hn] at h
        match nums, h with
        | [], h => simp [throw, throwThe, MonadExceptOf.throw] at h
        | [_], h => simp [throw, throwThe, MonadExceptOf.throw] at h
        | x :: y :: rest, h =>
          simp only at h
          cases hs : dimStep st (x :: y :: rest) ((acc ++ [mkPos x y]).length == 1) with
          | error e => rw [hs] at h; simp at h
          | ok st1 =>
            rw [hs] at h
            simp only at h
            exact lineLoop_memE vs _ st1 ps st' h (dimStep_memE hs hm)
    · simp [ha, bind, Except.bind, throw, throwThe, MonadExceptOf.throw] at h

theorem ringLoop_memE (j : Nat) : ∀ (vs : List JVal) (acc : List Pos) (st : DimSt) (r : List Pos) (st' : DimSt),
    parseRingLoop j vs acc st = .ok (r, st') → MemE st → MemE st'
  | [], acc, st, ps, st', h, hm => by
    simp only [parseRingLoop, Except.ok.injEq, Prod.mk.injEq] at h
    obtain ⟨_, rfl⟩ := h
    exact hm
  | v :: vs, acc, st, ps, st', h, hm => by
    rw [parseRingLoop] at h
    simp only [bind, Except.bind] at h
    cases hn : takeNums false v.elems 0 with
    | error e => simp [hn] at h
    | ok nums =>
      simp only [hn] at h
      match nums, h with
      | [], h => simp [throw, throwThe, MonadExceptOf.throw] at h
      | [_], h => simp [throw, throwThe, MonadExceptOf.throw] at h
      | x :: y :: rest, h =>
        simp only at h
        cases hs : dimStep st (x :: y :: rest) (j == 0 && (acc ++ [mkPos x y]).length == 1) with
        | error e => rw [hs] at h; simp at h
        | ok st1 =>
          rw [hs] at h
          simp only at h
          exact ringLoop_memE j vs _ st1 ps st' h (dimStep_memE hs hm)

theorem polyLoop_memE : ∀ (vs : List JVal) (acc : List (List Pos)) (st : DimSt) (rings : List (List Pos))
    (st' : DimSt), parsePolyCoordsLoop vs acc st = .ok (rings, st') → MemE st → MemE st'
  | [], acc, st, rings, st', h, hm => by
    simp only [parsePolyCoordsLoop, Except.ok.injEq, Prod.mk.injEq] at h
    obtain ⟨_, rfl⟩ := h
    exact hm
  | v :: vs, acc, st, rings, st', h, hm => by
    rw [parsePolyCoordsLoop] at h
    by_cases ha : v.isArray = true
    · simp only [ha, Bool.not_true, Bool.false_eq_true, if_false, bind, Except.bind] at h
      cases hr : parseRingLoop acc.length v.elems [] st with
      | error e => simp [hr] at h
      | ok res =>
        obtain ⟨ring, st1⟩ := res
        rw [hr] at h
        simp only at h
        exact polyLoop_memE vs _ st1 rings st' h (ringLoop_memE _ _ _ _ _ _ hr hm)
    · simp [ha, bind, Except.bind, throw, throwThe, MonadExceptOf.throw] at h

theorem parsePointCoords_members {rc : JVal} {pos : Pos} {ex : Option Extra}
    (h : parsePointCoords rc = .ok (pos, ex)) : exMembers' ex = "" := by
  unfold parsePointCoords at h
  cases hn : takeNums true rc.elems 0 with
  | error e => simp [hn, bind, Except.bind] at h
  | ok nums =>
    simp only [hn, bind, Except.bind] at h
    match nums, h with
    | [], h => simp at h
    | [_], h => simp at h
    | x :: y :: rest, h =>
      simp only [pure, Except.pure, Except.ok.injEq, Prod.mk.injEq] at h
      obtain ⟨_, rfl⟩ := h
      split <;> rfl

theorem parseLineCoords_members {rc : JVal} {ps : List Pos} {ex : Option Extra}
    (h : parseLineCoords rc = .ok (ps, ex)) : exMembers' ex = "" := by
  unfold parseLineCoords at h
  cases hl : parseLineCoordsLoop rc.elems [] {} with
  | error e => simp [hl, bind, Except.bind] at h
  | ok res =>
    obtain ⟨ps', st⟩ := res
    simp only [hl, bind, Except.bind, pure, Except.pure, Except.ok.injEq, Prod.mk.injEq] at h
    obtain ⟨_, rfl⟩ := h
    exact lineLoop_memE _ _ _ _ _ hl rfl

theorem parsePolyCoords_members {rc : JVal} {rings : List (List Pos)} {ex : Option Extra}
    (h : parsePolyCoords rc = .ok (rings, ex)) : exMembers' ex = "" := by
  unfold parsePolyCoords at h
  cases hl : parsePolyCoordsLoop rc.elems [] {} with
  | error e => simp [hl, bind, Except.bind] at h
  | ok res =>
    obtain ⟨rs', st⟩ := res
    simp only [hl, bind, Except.bind, pure, Except.pure, Except.ok.injEq, Prod.mk.injEq] at h
    obtain ⟨_, rfl⟩ := h
    exact polyLoop_memE _ _ _ _ _ hl rfl

/-! ### per type -/

theorem withMembers_none_members (k : Keys) : exMembers' (withMembers none k) = k.members :=
  withMembers_members k rfl

theorem topMembers_mkColl (o : POpts) (kind : CollKind) (cs : List Obj) (ex : Option Extra) :
    topMembers (mkColl o kind cs ex) = exMembers' ex := rfl

theorem parsePointK_members {o : POpts} {f : Nat} {k : Keys} {x : Obj} (h : parsePointK o f k = .ok x) :
    topMembers x = k.members := by
  unfold parsePointK at h
  cases hco : k.coordinates with
  | none => simp [hco] at h
  | some rc =>
    simp only [hco] at h
    by_cases ha : rc.isArray = true
    · simp only [ha, Bool.not_true, Bool.false_eq_true, if_false] at h
      cases hp : parsePointCoords rc with
      | error e => simp [hp] at h
      | ok res =>
        obtain ⟨pos, ex0⟩ := res
        simp only [hp] at h
        generalize hob : (if ((withMembers ex0 k).isNone && o.allowSimplePoints) = true then Obj.spoint pos
                else Obj.point pos (withMembers ex0 k)) = ob at h
        by_cases hvalid : (o.requireValid && !ob.valid) = true
        · rw [if_pos hvalid] at h; cases h
        · rw [if_neg hvalid, Except.ok.injEq] at h
          subst h
          rw [← hob]
          split
          · rename_i hsp
            simp only [Bool.and_eq_true] at hsp
            rw [keys_members_eq (withMembers_isNone hsp.1).2]; rfl
          · exact withMembers_members k (parsePointCoords_members hp)
    · simp [ha] at h

theorem parseLineStringK_members {o : POpts} {f : Nat} {k : Keys} {x : Obj}
    (h : parseLineStringK o f k = .ok x) : topMembers x = k.members := by
  unfold parseLineStringK at h
  cases hco : k.coordinates with
  | none => simp [hco, reqArray] at h
  | some rc =>
    simp only [hco, reqArray] at h
    by_cases ha : rc.isArray = true
    · simp only [ha, if_true] at h
      cases hp : parseLineCoords rc with
      | error e => simp [hp] at h
      | ok res =>
        obtain ⟨ps, ex0⟩ := res
        simp only [hp] at h
        by_cases hlen : ps.length < 2
        · rw [if_pos hlen] at h; cases h
        · rw [if_neg hlen] at h
          split at h
          · cases h
          · cases h
            exact withMembers_members k (parseLineCoords_members hp)
    · simp [ha] at h

theorem parsePolygonK_members {o : POpts} {f : Nat} {k : Keys} {x : Obj}
    (h : parsePolygonK o f k = .ok x) : topMembers x = k.members := by
  rw [parsePolygonK_eq] at h
  cases hco : k.coordinates with
  | none => simp [hco, reqArray] at h
  | some rc =>
    simp only [hco, reqArray] at h
    by_cases ha : rc.isArray = true
    · simp only [ha, if_true] at h
      cases hp : parsePolyCoords rc with
      | error e => simp [hp] at h
      | ok res =>
        obtain ⟨rings, ex0⟩ := res
        simp only [hp] at h
        split at h
        · cases h
        · split at h
          · cases h
          · cases h
            rcases polyOb_cases o rings (withMembers ex0 k) with
              hpo | ⟨p0, p1, p2, p3, p4, _, hexn, _, _, hpo⟩
            · rw [hpo]; exact withMembers_members k (parsePolyCoords_members hp)
            · rw [hpo]
              have hnone : (withMembers ex0 k).isNone = true := by rw [hexn]; rfl
              rw [keys_members_eq (withMembers_isNone hnone).2]; rfl
    · simp [ha] at h

theorem parseMultiPointK_members {o : POpts} {f : Nat} {k : Keys} {x : Obj}
    (h : parseMultiPointK o f k = .ok x) : topMembers x = k.members := by
  unfold parseMultiPointK at h
  repeat' (first | (cases h <;> exact withMembers_none_members k) | split at h | dsimp only at h)

theorem parseMultiLineStringK_members {o : POpts} {f : Nat} {k : Keys} {x : Obj}
    (h : parseMultiLineStringK o f k = .ok x) : topMembers x = k.members := by
  rw [parseMultiLineStringK_eq] at h
  repeat' (first | (cases h <;> exact withMembers_none_members k) | split at h | dsimp only at h)

theorem parseMultiPolygonK_members {o : POpts} {f : Nat} {k : Keys} {x : Obj}
    (h : parseMultiPolygonK o f k = .ok x) : topMembers x = k.members := by
  rw [parseMultiPolygonK_eq] at h
  repeat' (first | (cases h <;> exact withMembers_none_members k) | split at h | dsimp only at h)

theorem parseGeometryCollectionK_members {o : POpts} {f : Nat} {k : Keys} {x : Obj}
    (h : parseGeometryCollectionK o f k = .ok x) : topMembers x = k.members := by
  unfold parseGeometryCollectionK at h
  repeat' (first | (cases h <;> exact withMembers_none_members k) | split at h | dsimp only at h)

theorem parseFeatureCollectionK_members {o : POpts} {f : Nat} {k : Keys} {x : Obj}
    (h : parseFeatureCollectionK o f k = .ok x) : topMembers x = k.members := by
  unfold parseFeatureCollectionK at h
  repeat' (first | (cases h <;> exact withMembers_none_members k) | split at h | dsimp only at h)

/-- the two shapes the Feature parser produces (no hypothesis on the document) -/
theorem featureOf_shape {o : POpts} {k : Keys} {base x : Obj} (h : featureOf o k base = .ok x) :
    x = .feature base (withMembers none k) ∨ ∃ c m, x = .circle c m := by
  unfold featureOf at h
  repeat' (first | (cases h <;> exact .inl rfl) | (cases h <;> exact .inr ⟨_, _, rfl⟩) | split at h |
    dsimp only at h)

theorem parseFeatureK_members {o : POpts} {f : Nat} {k : Keys} {x : Obj}
    (h : parseFeatureK o f k = .ok x) (hnc : ∀ c r, x ≠ .circle c r) : topMembers x = k.members := by
  rw [parseFeatureK_eq] at h
  split at h
  · cases h
  · split at h
    · cases h
    · rcases featureOf_shape h with rfl | ⟨c, m, rfl⟩
      · exact withMembers_none_members k
      · exact absurd rfl (hnc c m)

/-! ### the statement -/

/-- for every accepted document whose object is not a recognised Circle, the `members` text of
    the top-level node is the rendering of the document's foreign members — the members whose
    decoded key is none of type/coordinates/geometries/geometry/features — in document order,
    minified; "" when there are none -/
theorem members_preserved (o : POpts) (n : Nat) (d : JVal) (x : Obj) (hp : parse o n d = .ok x)
    (hnc : ∀ c r, x ≠ .circle c r) :
    ∃ ms, d = .obj ms ∧ topMembers x = (scanKeys ms).members ∧
      (scanKeys ms).foreign = ms.filter (fun m => !isSpecialKey m.2.1) ∧
      (scanKeys ms).members = (if (scanKeys ms).foreign.isEmpty then ""
        else (JVal.obj (scanKeys ms).foreign).render) := by
  obtain ⟨f, ms, r, ty, rfl, rfl, hty, ht⟩ := parse_inv hp
  refine ⟨ms, rfl, ?_, scanKeys_foreign ms, by simp [Keys.members, JVal.render]⟩
  unfold parseTyped at ht
  split at ht
  · exact parsePointK_members ht
  · exact parseLineStringK_members ht
  · exact parsePolygonK_members ht
  · exact parseMultiPointK_members ht
  · exact parseMultiLineStringK_members ht
  · exact parseMultiPolygonK_members ht
  · exact parseGeometryCollectionK_members ht
  · exact parseFeatureCollectionK_members ht
  · exact parseFeatureK_members ht hnc
  · cases ht


/-! ### children of Multi* geometries never have members -/

/-- the children of a MultiPoint / MultiLineString / MultiPolygon ([] for every other object) -/
def multiChildren : Obj → List Obj
  | .coll .multiPoint cs _ _ => cs
  | .coll .multiLineString cs _ _ => cs
  | .coll .multiPolygon cs _ _ => cs
  | _ => []

theorem parseMultiPointK_children {o : POpts} {f : Nat} {k : Keys} {x : Obj}
    (h : parseMultiPointK o f k = .ok x) : ∀ c ∈ multiChildren x, topMembers c = "" := by
  unfold parseMultiPointK at h
  split at h
  · cases h
  · split at h
    · cases h
    · rename_i cs hm
      dsimp only at h
      split at h
      · cases h
      · cases h
        intro c hc
        simp only [mkColl, multiChildren, List.mem_map] at hc
        obtain ⟨c', hc', rfl⟩ := hc
        obtain ⟨e, _, he⟩ := mapM_ok_mem _ _ _ hm c' hc'
        exact parsePointCoords_members (pos := c'.1) (ex := c'.2) he

theorem parseMultiLineStringK_children {o : POpts} {f : Nat} {k : Keys} {x : Obj}
    (h : parseMultiLineStringK o f k = .ok x) : ∀ c ∈ multiChildren x, topMembers c = "" := by
  rw [parseMultiLineStringK_eq] at h
  split at h
  · cases h
  · split at h
    · cases h
    · rename_i cs hm
      split at h
      · cases h
      · cases h
        intro c hc
        simp only [mkColl, multiChildren] at hc
        obtain ⟨e, _, he⟩ := mapM_ok_mem _ _ _ hm c hc
        unfold lineChildK at he
        cases hp : parseLineCoords e with
        | error e => simp [hp, bind, Except.bind] at he
        | ok res =>
          obtain ⟨ps, ex⟩ := res
          simp only [hp, bind, Except.bind] at he
          by_cases hlen : ps.length < 2
          · simp [hlen, throw, throwThe, MonadExceptOf.throw] at he
          · simp only [hlen, if_false, pure, Except.pure, Except.ok.injEq] at he
            subst he
            exact parseLineCoords_members hp

theorem parseMultiPolygonK_children {o : POpts} {f : Nat} {k : Keys} {x : Obj}
    (h : parseMultiPolygonK o f k = .ok x) : ∀ c ∈ multiChildren x, topMembers c = "" := by
  rw [parseMultiPolygonK_eq] at h
  split at h
  · cases h
  · split at h
    · cases h
    · rename_i cs hm
      split at h
      · cases h
      · cases h
        intro c hc
        simp only [mkColl, multiChildren] at hc
        obtain ⟨e, _, he⟩ := mapM_ok_mem _ _ _ hm c hc
        unfold polyChildK at he
        cases hp : parsePolyCoords e with
        | error e => simp [hp, bind, Except.bind] at he
        | ok res =>
          obtain ⟨rings, ex⟩ := res
          simp only [hp, bind, Except.bind] at he
          by_cases hr : (rings.isEmpty || !(rings.all ringOK)) = true
          · simp [hr, throw, throwThe, MonadExceptOf.throw] at he
          · simp only [hr, Bool.false_eq_true, if_false, pure, Except.pure, Except.ok.injEq] at he
            subst he
            exact parsePolyCoords_members hp

/-- the children of a parsed Multi* geometry carry no member text (they are written as bare
    coordinates, so nothing is lost; by `reparse_normal_form` the re-parsed children are the
    same objects) -/
theorem multi_children_no_members (o : POpts) (n : Nat) (d : JVal) (x : Obj) (hp : parse o n d = .ok x) :
    ∀ c ∈ multiChildren x, topMembers c = "" := by
  obtain ⟨f, ms, r, ty, rfl, rfl, hty, ht⟩ := parse_inv hp
  have nil : multiChildren x = [] → ∀ c ∈ multiChildren x, topMembers c = "" := by
    intro h0 c hc; rw [h0] at hc; cases hc
  unfold parseTyped at ht
  split at ht
  · apply nil
    unfold parsePointK at ht
    repeat' (first | (cases ht <;> rfl) | split at ht | dsimp only at ht)
  · apply nil
    unfold parseLineStringK at ht
    repeat' (first | (cases ht <;> rfl) | split at ht | dsimp only at ht)
  · apply nil
    rw [parsePolygonK_eq] at ht
    split at ht
    · cases ht
    · split at ht
      · cases ht
      · split at ht
        · cases ht
        · split at ht
          · cases ht
          · cases ht
            rename_i rings ex _ _ _
            rcases polyOb_cases o rings (withMembers ex (scanKeys ms)) with
              hpo | ⟨_, _, _, _, _, _, _, _, _, hpo⟩ <;> rw [hpo] <;> rfl
  · exact parseMultiPointK_children ht
  · exact parseMultiLineStringK_children ht
  · exact parseMultiPolygonK_children ht
  · apply nil
    unfold parseGeometryCollectionK at ht
    repeat' (first | (cases ht <;> rfl) | split at ht | dsimp only at ht)
  · apply nil
    unfold parseFeatureCollectionK at ht
    repeat' (first | (cases ht <;> rfl) | split at ht | dsimp only at ht)
  · apply nil
    rw [parseFeatureK_eq] at ht
    split at ht
    · cases ht
    · split at ht
      · cases ht
      · rcases featureOf_shape ht with rfl | ⟨c, m, rfl⟩ <;> rfl
  · cases ht

end Geo
