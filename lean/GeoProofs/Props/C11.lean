/-
  Property C11 (object level): the derived attributes Rect / Center / Empty / Valid of the
  GeoJSON objects.  The series-level facts (`rect_tight`, `bboxSpec_tight`: the rectangle of a
  series is the tight bounding box of its vertices) are in GeoProofs.Props.C18.

  All statements are about GeoModel.Object as written.
-/
import GeoProofs.ObjLemmas
import GeoProofs.Props.C18

namespace Geo
open Obj

variable {k : CollKind} {cs : List Obj} {ex : Option Extra} {idx : Bool}

/-! ### Rect -/

/-- `unionBox` is the componentwise min/max — for ALL boxes (the well-formedness hypotheses of the
    design sketch are not needed) -/
theorem unionBox_spec (a b : Box) : unionBox a b =
    ⟨⟨min a.min.x b.min.x, min a.min.y b.min.y⟩, ⟨max a.max.x b.max.x, max a.max.y b.max.y⟩⟩ :=
  unionBox_eq a b

/-- the componentwise order on boxes: `R` reaches at least as far as `r` on all four sides -/
def Box.Covers (R r : Box) : Prop :=
  R.min.x ≤ r.min.x ∧ r.max.x ≤ R.max.x ∧ R.min.y ≤ r.min.y ∧ r.max.y ≤ R.max.y

/-- `R` is the tight box (componentwise min of the mins, max of the maxes) of the boxes `rs` -/
def Box.TightOver (R : Box) (rs : List Box) : Prop :=
  (∀ r ∈ rs, R.Covers r) ∧
  (∃ r ∈ rs, R.min.x = r.min.x) ∧ (∃ r ∈ rs, R.min.y = r.min.y) ∧
  (∃ r ∈ rs, R.max.x = r.max.x) ∧ (∃ r ∈ rs, R.max.y = r.max.y)

/-- a tight box is unique -/
theorem Box.TightOver.unique {R R' : Box} {rs : List Box} (h : R.TightOver rs) (h' : R'.TightOver rs) :
    R = R' := by
  obtain ⟨c, ⟨a1, ha1, e1⟩, ⟨a2, ha2, e2⟩, ⟨a3, ha3, e3⟩, ⟨a4, ha4, e4⟩⟩ := h
  obtain ⟨c', ⟨b1, hb1, f1⟩, ⟨b2, hb2, f2⟩, ⟨b3, hb3, f3⟩, ⟨b4, hb4, f4⟩⟩ := h'
  have x1 : R.min.x = R'.min.x := le_antisymm (f1 ▸ (c b1 hb1).1) (e1 ▸ (c' a1 ha1).1)
  have x2 : R.min.y = R'.min.y := le_antisymm (f2 ▸ (c b2 hb2).2.2.1) (e2 ▸ (c' a2 ha2).2.2.1)
  have x3 : R.max.x = R'.max.x := le_antisymm (e3 ▸ (c' a3 ha3).2.1) (f3 ▸ (c b3 hb3).2.1)
  have x4 : R.max.y = R'.max.y := le_antisymm (e4 ▸ (c' a4 ha4).2.2.2) (f4 ▸ (c b4 hb4).2.2.2)
  obtain ⟨⟨a, b⟩, ⟨c, d⟩⟩ := R
  obtain ⟨⟨a', b'⟩, ⟨c', d'⟩⟩ := R'
  simp_all

theorem foldRects_tight (rs : List Box) (hne : rs ≠ []) : (foldRects rs).TightOver rs := by
  cases rs with
  | nil => exact absurd rfl hne
  | cons a rs =>
    refine ⟨?_, foldl_unionBox_attained rs a⟩
    intro r hr
    exact (Box.containsBox_iff _ _).1 (foldRects_covers (a :: rs) r hr)

/-- The rectangle of a collection is the tight box over the rectangles of its non-empty children
    (no well-formedness of the children's rectangles is needed); it is `zeroBox` when every child
    is empty. -/
theorem coll_rect_tight :
    ((Obj.coll k cs ex idx).empty = false →
      (Obj.coll k cs ex idx).rect.TightOver ((cs.filter (fun c => !c.empty)).map Obj.rect)) ∧
    ((Obj.coll k cs ex idx).empty = true → (Obj.coll k cs ex idx).rect = zeroBox) := by
  constructor
  · intro hne
    rw [coll_rect_eq]
    apply foldRects_tight
    rw [Obj.empty, allEmpty_false_iff] at hne
    obtain ⟨c, hc, hce⟩ := hne
    intro h0
    have : c.rect ∈ (nonEmptyKids cs).map Obj.rect := List.mem_map.2 ⟨c, mem_nonEmptyKids.2 ⟨hc, hce⟩, rfl⟩
    rw [h0] at this; cases this
  · intro he
    rw [coll_rect_eq]
    rw [Obj.empty, allEmpty_iff] at he
    have : nonEmptyKids cs = [] := by
      rw [nonEmptyKids, List.filter_eq_nil_iff]
      intro c hc; simp [he c hc]
    rw [this]; rfl

/-- spelled out on the children -/
theorem coll_rect_tight_children (hne : (Obj.coll k cs ex idx).empty = false) :
    (∀ c ∈ cs, c.empty = false → (Obj.coll k cs ex idx).rect.Covers c.rect) ∧
    (∃ c ∈ cs, c.empty = false ∧ (Obj.coll k cs ex idx).rect.min.x = c.rect.min.x) ∧
    (∃ c ∈ cs, c.empty = false ∧ (Obj.coll k cs ex idx).rect.min.y = c.rect.min.y) ∧
    (∃ c ∈ cs, c.empty = false ∧ (Obj.coll k cs ex idx).rect.max.x = c.rect.max.x) ∧
    (∃ c ∈ cs, c.empty = false ∧ (Obj.coll k cs ex idx).rect.max.y = c.rect.max.y) := by
  obtain ⟨hc, h1, h2, h3, h4⟩ := (@coll_rect_tight k cs ex idx).1 hne
  have conv : ∀ {P : Box → Prop}, (∃ r ∈ (cs.filter (fun c => !c.empty)).map Obj.rect, P r) →
      ∃ c ∈ cs, c.empty = false ∧ P c.rect := by
    intro P ⟨r, hr, hp⟩
    obtain ⟨c, hcm, rfl⟩ := List.mem_map.1 hr
    obtain ⟨h1, h2⟩ := List.mem_filter.1 hcm
    exact ⟨c, h1, by simpa using h2, hp⟩
  refine ⟨?_, conv h1, conv h2, conv h3, conv h4⟩
  intro c hcm hce
  exact hc c.rect (List.mem_map.2 ⟨c, List.mem_filter.2 ⟨hcm, by simp [hce]⟩, rfl⟩)

/-! ### Center -/

theorem center_spec (o : Obj) (r : Box) :
    o.center = (match o with | .point p _ => p.p | .spoint p => p.p | _ => o.rect.center) ∧
    Box.center r = ⟨(r.max.x + r.min.x) / 2, (r.max.y + r.min.y) / 2⟩ := by
  refine ⟨?_, rfl⟩
  cases o <;> rfl

/-! ### Empty -/

/-- a series that is empty: closed with fewer than 3 points, or fewer than 2 points -/
def Series.Degenerate (s : Series) : Prop := (s.closed = true ∧ s.pts.size < 3) ∨ s.pts.size < 2

theorem Series.empty_iff (s : Series) : s.empty = true ↔ s.Degenerate := by
  simp [Series.empty, Series.Degenerate]

/-- a geometry atom that occupies no space: Point / SimplePoint / Rect / Circle never; a LineString
    with fewer than 2 points; a Polygon without exterior or whose exterior has fewer than 3 points -/
def Obj.NoSpace : Obj → Prop
  | .lineString l _ _ => l.Degenerate
  | .polygon p _ _ =>
    match p.ext with
    | none => True
    | some (.ser s) => s.Degenerate
    | some (.bx _) => False
  | _ => False

theorem atom_empty_iff (a : Obj) (ha : a.isAtom = true) : a.empty = true ↔ a.NoSpace := by
  cases a with
  | lineString l poss ex => simp [Obj.empty, Obj.NoSpace, Series.empty_iff]
  | polygon p rings ex =>
    simp only [Obj.empty, Obj.NoSpace, Poly.empty]
    cases p.ext with
    | none => simp
    | some e => cases e <;> simp [Ring.empty, Series.empty_iff]
  | coll => simp [Obj.isAtom] at ha
  | feature => simp [Obj.isAtom] at ha
  | _ => simp [Obj.empty, Obj.NoSpace]

/-- an object is empty iff every geometry atom in it (through collections and features) occupies
    no space -/
theorem empty_iff : ∀ o : Obj, o.empty = true ↔ ∀ g ∈ o.geoLeaves, g.NoSpace := by
  intro o
  induction o using Obj.ind' with
  | hatom a ha => rw [atom_geoLeaves ha, atom_empty_iff a ha]; simp
  | hfeat b ex ih => rw [feature_empty, Obj.geoLeaves]; exact ih
  | hcoll k cs ex idx ih =>
    rw [Obj.empty, allEmpty_iff, Obj.geoLeaves]
    constructor
    · intro h g hg
      obtain ⟨c, hc, hgc⟩ := (mem_geoLeavesL cs g).1 hg
      exact (ih c hc).1 (h c hc) g hgc
    · intro h c hc
      exact (ih c hc).2 (fun g hg => h g ((mem_geoLeavesL cs g).2 ⟨c, hc, hg⟩))

/-- the usual reading: an OPEN line is empty iff it has fewer than 2 points, a polygon with a
    CLOSED series exterior iff that has fewer than 3 points -/
theorem empty_line_iff (l : Line) (poss : List Pos) (ex : Option Extra) (ho : l.closed = false) :
    (Obj.lineString l poss ex).empty = true ↔ l.pts.size < 2 := by
  simp [Obj.empty, Series.empty_iff, Series.Degenerate, ho]

theorem empty_polygon_iff (s : Series) (holes : List Ring) (rings : List (List Pos)) (ex : Option Extra)
    (hc : s.closed = true) :
    (Obj.polygon ⟨some (.ser s), holes⟩ rings ex).empty = true ↔ s.pts.size < 3 := by
  simp only [Obj.empty, Poly.empty, Ring.empty, Series.empty_iff, Series.Degenerate, hc, true_and]
  omega

/-! ### Valid -/

/-- longitude in [-180, 180], latitude in [-90, 90] -/
def Pt.InRange (p : Pt) : Prop := -180 ≤ p.x ∧ p.x ≤ 180 ∧ -90 ≤ p.y ∧ p.y ≤ 90

theorem Pt.valid_iff (p : Pt) : p.valid = true ↔ p.InRange := by
  simp [Pt.valid, Pt.InRange, and_assoc]

theorem Series.valid_iff (s : Series) : s.valid = true ↔ ∀ p ∈ s.pts.toList, p.InRange := by
  rw [Series.valid, Array.all_eq_true_iff_forall_mem]
  simp [Pt.valid_iff]

def Ring.InRange : Ring → Prop
  | .ser s => ∀ p ∈ s.pts.toList, p.InRange
  | .bx b => b.min.InRange ∧ b.max.InRange

theorem Ring.valid_iff (r : Ring) : r.valid = true ↔ r.InRange := by
  cases r <;> simp [Ring.valid, Ring.InRange, Series.valid_iff, Pt.valid_iff]

theorem boxValid_iff (b : Box) : boxValid b = true ↔ b.min.InRange ∧ b.max.InRange := by
  simp [boxValid, Pt.valid_iff]

theorem valid_point_iff (pos : Pos) (ex : Option Extra) (hfin : pos.fin = true) :
    ((Obj.point pos ex).valid = true ↔ pos.p.InRange) ∧
    ((Obj.spoint pos).valid = true ↔ pos.p.InRange) := by
  simp [Obj.valid, hfin, Pt.valid_iff]

/-- a non-finite position is never valid -/
theorem valid_point_fin (pos : Pos) (ex : Option Extra) (h : (Obj.point pos ex).valid = true) :
    pos.fin = true := by
  simp only [Obj.valid, Bool.and_eq_true] at h; exact h.1

theorem valid_line_iff (l : Line) (poss : List Pos) (ex : Option Extra)
    (hfin : ∀ q ∈ poss, q.fin = true) :
    (Obj.lineString l poss ex).valid = true ↔ ∀ p ∈ l.pts.toList, p.InRange := by
  have : poss.all (·.fin) = true := by simpa using hfin
  simp [Obj.valid, this, Series.valid_iff]

/-- when the positions are those of the series (the parser's invariant) -/
theorem valid_line_iff_positions (l : Line) (poss : List Pos) (ex : Option Extra)
    (hfin : ∀ q ∈ poss, q.fin = true) (hpos : poss.map (·.p) = l.pts.toList) :
    (Obj.lineString l poss ex).valid = true ↔ ∀ q ∈ poss, q.p.InRange := by
  rw [valid_line_iff l poss ex hfin, ← hpos]; simp

theorem valid_polygon_iff (p : Poly) (rings : List (List Pos)) (ex : Option Extra)
    (hfin : ∀ ring ∈ rings, ∀ q ∈ ring, q.fin = true) :
    (Obj.polygon p rings ex).valid = true ↔
      match p.ext with
      | none => True
      | some e => e.InRange ∧ ∀ h ∈ p.holes, h.InRange := by
  have : rings.all (·.all (·.fin)) = true := by simpa using hfin
  simp only [Obj.valid, this, Bool.true_and, Poly.valid]
  cases p.ext with
  | none => simp
  | some e => simp [Ring.valid_iff]

theorem valid_rect_iff (b : Box) (lo hi : Pos) (hlo : lo.fin = true) (hhi : hi.fin = true) :
    (Obj.rectO b lo hi).valid = true ↔ b.min.InRange ∧ b.max.InRange := by
  simp [Obj.valid, hlo, hhi, boxValid_iff]


/-- the collection kinds whose `Valid` looks at the bounding box only -/
def CollKind.bboxValid : CollKind → Bool
  | .multiLineString => false
  | .multiPolygon => false
  | _ => true

/-- MultiPoint / GeometryCollection / FeatureCollection: valid ⇔ the rectangle (by
    `coll_rect_tight` the tight box of the non-empty children's rectangles, `zeroBox` if there is
    none) is in range.  MultiLineString / MultiPolygon: valid ⇔ every child is valid. -/
theorem coll_valid_bbox_iff :
    (k.bboxValid = true →
      ((Obj.coll k cs ex idx).valid = true ↔
        (Obj.coll k cs ex idx).rect.min.InRange ∧ (Obj.coll k cs ex idx).rect.max.InRange)) ∧
    (k.bboxValid = false →
      ((Obj.coll k cs ex idx).valid = true ↔ ∀ c ∈ cs, c.valid = true)) := by
  cases k <;> simp [CollKind.bboxValid, Obj.valid, boxValid_iff, allValid_eq]

theorem zeroBox_inRange : zeroBox.min.InRange ∧ zeroBox.max.InRange := by
  simp only [zeroBox, Pt.InRange]; norm_num

/-- If the rectangle of every non-empty child is the tight box of that child's positions
    (`pos` is any assignment of positions; for series this is `rect_tight` of C18), then the
    bounding-box validity is: every position of every non-empty child is in range. -/
theorem coll_valid_bbox_positions (pos : Obj → List Pt) (hk : k.bboxValid = true)
    (htight : ∀ c ∈ cs, c.empty = false → Driver.bboxSpec (pos c) = some c.rect) :
    (Obj.coll k cs ex idx).valid = true ↔ ∀ c ∈ cs, c.empty = false → ∀ p ∈ pos c, p.InRange := by
  rw [(@coll_valid_bbox_iff k cs ex idx).1 hk]
  cases he : (Obj.coll k cs ex idx).empty with
  | true =>
    rw [(@coll_rect_tight k cs ex idx).2 he]
    rw [Obj.empty, allEmpty_iff] at he
    constructor
    · intro _ c hc hce; rw [he c hc] at hce; cases hce
    · intro _; exact zeroBox_inRange
  | false =>
    obtain ⟨hcov, ⟨c1, hc1, he1, e1⟩, ⟨c2, hc2, he2, e2⟩, ⟨c3, hc3, he3, e3⟩, ⟨c4, hc4, he4, e4⟩⟩ :=
      @coll_rect_tight_children k cs ex idx he
    constructor
    · rintro ⟨⟨m1, m2, m3, m4⟩, ⟨n1, n2, n3, n4⟩⟩ c hc hce p hp
      obtain ⟨hall, _⟩ := bboxSpec_tight (pos c) c.rect (htight c hc hce)
      obtain ⟨q1, q2, q3, q4⟩ := hall p hp
      obtain ⟨v1, v2, v3, v4⟩ := hcov c hc hce
      refine ⟨?_, ?_, ?_, ?_⟩ <;> linarith
    · intro h
      obtain ⟨_, ⟨p1, hp1, f1⟩, _, _, _⟩ := bboxSpec_tight (pos c1) c1.rect (htight c1 hc1 he1)
      obtain ⟨_, _, _, ⟨p2, hp2, f2⟩, _⟩ := bboxSpec_tight (pos c2) c2.rect (htight c2 hc2 he2)
      obtain ⟨_, _, ⟨p3, hp3, f3⟩, _, _⟩ := bboxSpec_tight (pos c3) c3.rect (htight c3 hc3 he3)
      obtain ⟨_, _, _, _, ⟨p4, hp4, f4⟩⟩ := bboxSpec_tight (pos c4) c4.rect (htight c4 hc4 he4)
      obtain ⟨a1, a2, _, _⟩ := h c1 hc1 he1 p1 hp1
      obtain ⟨_, _, b3, b4⟩ := h c2 hc2 he2 p2 hp2
      obtain ⟨c1', c2', _, _⟩ := h c3 hc3 he3 p3 hp3
      obtain ⟨_, _, d3, d4⟩ := h c4 hc4 he4 p4 hp4
      refine ⟨⟨?_, ?_, ?_, ?_⟩, ⟨?_, ?_, ?_, ?_⟩⟩ <;> linarith

/-! ### non-vacuity -/

section examples
private def q1 : Obj := .spoint ⟨⟨1, 1⟩, true, "1", "1"⟩
private def q2 : Obj := .point ⟨⟨200, 3⟩, true, "200", "3"⟩ none
private def el : Obj := .lineString ⟨#[], false, false, false, ⟨⟨0, 0⟩, ⟨0, 0⟩⟩, none⟩ [] none
private def mp2 : Obj := .coll .multiPoint [q1, el, q2] none false

example : mp2.empty = false := by decide
example : mp2.rect = ⟨⟨1, 1⟩, ⟨200, 3⟩⟩ := by decide
example : mp2.valid = false := by decide
example : (Obj.coll .multiPoint [q1, el] none false).valid = true := by decide
example : (Obj.coll .geometryCollection [el, el] none false).rect = zeroBox := by decide
/-- the hypothesis of `coll_valid_bbox_positions` holds for points with `pos = [the point]` -/
example : ∀ c ∈ [q1, q2], c.empty = false →
    Driver.bboxSpec ((fun o => match o with | .point p _ => [p.p] | .spoint p => [p.p] | _ => []) c)
      = some c.rect := by
  intro c hc _
  simp only [List.mem_cons, List.not_mem_nil, or_false] at hc
  rcases hc with rfl | rfl <;> rfl
end examples

end Geo

#print axioms Geo.unionBox_spec
#print axioms Geo.Box.TightOver.unique
#print axioms Geo.foldRects_tight
#print axioms Geo.coll_rect_tight
#print axioms Geo.coll_rect_tight_children
#print axioms Geo.center_spec
#print axioms Geo.Series.empty_iff
#print axioms Geo.atom_empty_iff
#print axioms Geo.empty_iff
#print axioms Geo.empty_line_iff
#print axioms Geo.empty_polygon_iff
#print axioms Geo.Pt.valid_iff
#print axioms Geo.Series.valid_iff
#print axioms Geo.Ring.valid_iff
#print axioms Geo.boxValid_iff
#print axioms Geo.valid_point_iff
#print axioms Geo.valid_point_fin
#print axioms Geo.valid_line_iff
#print axioms Geo.valid_line_iff_positions
#print axioms Geo.valid_polygon_iff
#print axioms Geo.valid_rect_iff
#print axioms Geo.coll_valid_bbox_iff
#print axioms Geo.zeroBox_inRange
#print axioms Geo.coll_valid_bbox_positions
