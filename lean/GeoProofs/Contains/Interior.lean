/-
  GeoProofs.Contains.Interior — an executable check of `InteriorOK` (the specification's
  `interiorPoint` returns a strictly interior point lying between two boundary points), sound by
  construction; kernel-evaluated instances.
-/
import GeoProofs.Contains.RingRing

namespace Geo
open GL Jordan

/-- candidate boundary points at the level of `y`: the intercepts of the edges that straddle it -/
def levelPoints (h : List Pt) (y : Rat) : List Pt :=
  (Spec.edges h true).filterMap (fun e =>
    if (e.1.y < y && y < e.2.y) || (e.2.y < y && y < e.1.y) then
      some ⟨e.1.x + (y - e.1.y) * (e.2.x - e.1.x) / (e.2.y - e.1.y), y⟩
    else none)

/-- executable check of `InteriorOK` -/
def interiorOKb (h : List Pt) : Bool :=
  match Spec.interiorPoint h with
  | none => false
  | some x =>
    Spec.strictIn (Spec.edges h true) x &&
    (levelPoints h x.y).any (fun p0 => (levelPoints h x.y).any (fun p1 =>
      Spec.onBoundary (Spec.edges h true) p0 && Spec.onBoundary (Spec.edges h true) p1 &&
      Spec.onSeg p0 p1 x))

theorem interiorOK_of_check (h : List Pt) (hc : interiorOKb h = true) : InteriorOK h := by
  unfold interiorOKb at hc
  cases hx : Spec.interiorPoint h with
  | none => rw [hx] at hc; cases hc
  | some x =>
    rw [hx] at hc
    simp only [Bool.and_eq_true, List.any_eq_true] at hc
    obtain ⟨hs, p0, -, p1, -, ⟨hb0, hb1⟩, hon⟩ := hc
    exact ⟨x, p0, p1, hx, hs, hb0, hb1, (spec_onSeg_iff _ _ _).1 hon⟩

/-- instances: the holes of the defect witnesses and of the D19 example -/
example : InteriorOK hole35 := interiorOK_of_check _ (by decide +kernel)
example : InteriorOK [⟨2,2⟩,⟨5,2⟩,⟨2,5⟩] := interiorOK_of_check _ (by decide +kernel)
example : InteriorOK ringU := interiorOK_of_check _ (by decide +kernel)

end Geo
