/-
  GeoProofs.CoversSpec.Slide — K1: points seeing open points of one edge from the same side are connected
-/
import GeoProofs.CoversSpec.Ring
import GeoProofs.CoversSpec.Affine
import GeoProofs.CoversSpec.FirstHit
import Mathlib.Tactic.Linarith
import Mathlib.Tactic.Ring
import Mathlib.Tactic.FieldSimp
import Mathlib.Tactic.LinearCombination
import Mathlib.Tactic.Positivity

namespace Geo
namespace CS
open Jordan Cvx

variable {es : List (Pt × Pt)} {P : Nat → Pt} {n : Nat}

/-- the edges other than `e` -/
def others (es : List (Pt × Pt)) (e : Pt × Pt) : List (Pt × Pt) := es.filter (fun f => f ≠ e)

theorem mem_others_or (es : List (Pt × Pt)) (e f : Pt × Pt) (hf : f ∈ es) :
    f = e ∨ f ∈ others es e := by
  by_cases h : f = e
  · exact Or.inl h
  · exact Or.inr (List.mem_filter.2 ⟨hf, by simpa using h⟩)

theorem mem_others {es : List (Pt × Pt)} {e f : Pt × Pt} (hf : f ∈ others es e) :
    f ∈ es ∧ f ≠ e := by
  have := List.mem_filter.1 hf
  exact ⟨this.1, by simpa using this.2⟩

theorem lerp_lerp (a b : Pt) (t t' τ : Rat) :
    lerp (lerp a b t) (lerp a b t') τ = lerp a b (t + τ * (t' - t)) := by
  simp only [lerp, Pt.mk.injEq]; constructor <;> ring

theorem openOn_ne {a b z : Pt} (h : OpenOn a b z) : a ≠ b := by
  rintro rfl
  obtain ⟨h1, h2, -⟩ := h
  exact h2 (K.onSeg_degenerate.1 h1)

theorem openOn_between {a b z z' x : Pt} (hz : OpenOn a b z) (hz' : OpenOn a b z')
    (hx : OnSeg z z' x) : OpenOn a b x := by
  have hab := openOn_ne hz
  obtain ⟨t, t0, t1, rfl⟩ := openOn_lerp hz
  obtain ⟨t', t0', t1', rfl⟩ := openOn_lerp hz'
  obtain ⟨τ, h0, h1, rfl⟩ := (onSeg_iff_lerp _ _ _).1 hx
  rw [lerp_lerp]
  apply openOn_of_lerp hab
  · nlinarith [mul_nonneg h0 t0'.le, mul_nonneg (sub_nonneg.2 h1) t0.le]
  · nlinarith [mul_nonneg h0 (sub_nonneg.2 t1'.le), mul_nonneg (sub_nonneg.2 h1) (sub_nonneg.2 t1.le)]

/-- the other edges miss the segment between two open points of edge `i` -/
theorem RingD.others_miss (R : RingD es P n) (i : Nat) {z z' : Pt}
    (hz : OpenOn (P i) (P (i+1)) z) (hz' : OpenOn (P i) (P (i+1)) z') :
    ∀ f ∈ others es (P i, P (i+1)), ¬ SegsMeet z z' f.1 f.2 := by
  rintro f hf ⟨x, hx1, hx2⟩
  obtain ⟨hf1, hf2⟩ := mem_others hf
  exact hf2 (R.open_unique i (openOn_between hz hz' hx1) hf1 hx2)

/-- a segment avoids the edge list as soon as it stays strictly on one side of edge `e` and
    no point of it is on another edge -/
theorem avoid_of_side {e : Pt × Pt} {p q : Pt}
    (hside : ∀ x, OnSeg p q x → Spec.cross e.1 e.2 x ≠ 0)
    (hoth : ∀ f ∈ others es e, ∀ x, OnSeg p q x → ¬ OnSeg f.1 f.2 x) : Avoid es p q := by
  rw [avoid_iff]
  intro f hf x hx hfx
  rcases mem_others_or es e f hf with rfl | h
  · exact hside x hx hfx.1
  · exact hoth f h x hx hfx

theorem near_self (ε : Rat) (hε : 0 ≤ ε) (x : Pt) : Near ε x x := by
  unfold Near; simp [hε]

/-- from a point `q` that sees `z` on the line `ab`, the initial part `q → lerp z q τ` avoids `es` -/
theorem avoid_towards {q z : Pt} (hq : Sees es q z) (hqz : q ≠ z) {τ : Rat} (h0 : 0 < τ) (h1 : τ ≤ 1) :
    Avoid es q (lerp z q τ) := by
  rw [avoid_iff]
  intro e he x hx hex
  -- x = lerp z q σ with τ ≤ σ ≤ 1, and x = z forces σ = 0
  obtain ⟨σ, s0, s1, rfl⟩ := (onSeg_iff_lerp _ _ _).1 hx
  have hx' : lerp q (lerp z q τ) σ = lerp z q (1 - σ * (1 - τ)) := by
    simp only [lerp, Pt.mk.injEq]; constructor <;> ring
  rw [hx'] at hex
  have hpos : 0 < 1 - σ * (1 - τ) := by nlinarith
  have hle : 1 - σ * (1 - τ) ≤ 1 := by nlinarith
  have hon : OnSeg q z (lerp z q (1 - σ * (1 - τ))) :=
    (K.onSeg_symm _ _ _).1 (onSeg_lerp z q hpos.le hle)
  have := hq e he _ hon hex
  -- lerp z q s = z with s > 0 forces q = z
  apply hqz
  have hx := congrArg Pt.x this; have hy := congrArg Pt.y this
  simp only [lerp] at hx hy
  refine (K.pt_eq_iff _ _).2 ⟨?_, ?_⟩
  · have : (1 - σ * (1 - τ)) * (q.x - z.x) = 0 := by linarith
    rcases mul_eq_zero.1 this with h | h
    · linarith
    · linarith
  · have : (1 - σ * (1 - τ)) * (q.y - z.y) = 0 := by linarith
    rcases mul_eq_zero.1 this with h | h
    · linarith
    · linarith

end CS
end Geo

namespace Geo
namespace CS
open Jordan Cvx

variable {es : List (Pt × Pt)} {P : Nat → Pt} {n : Nat}

/-- translate by `z' - z` -/
def shift (x z z' : Pt) : Pt := ⟨x.x + (z'.x - z.x), x.y + (z'.y - z.y)⟩

theorem cross_shift (a b x z z' : Pt) (hz : Spec.cross a b z = 0) (hz' : Spec.cross a b z' = 0) :
    Spec.cross a b (shift x z z') = Spec.cross a b x := by
  simp only [K.cross_def, shift] at *; linarith

theorem near_shift {ε : Rat} {x z : Pt} (z' : Pt) (h : Near ε x z) : Near ε (shift x z z') z' := by
  unfold Near shift at *
  simp only
  constructor
  · have : x.x + (z'.x - z.x) - z'.x = x.x - z.x := by ring
    rw [this]; exact h.1
  · have : x.y + (z'.y - z.y) - z'.y = x.y - z.y := by ring
    rw [this]; exact h.2

/-- K1: two points that see open points of the same edge from the same side are connected -/
theorem RingD.slide (R : RingD es P n) (i : Nat) {z z' q q' : Pt}
    (hz : OpenOn (P i) (P (i+1)) z) (hz' : OpenOn (P i) (P (i+1)) z')
    (hq : Sees es q z) (hq' : Sees es q' z')
    (hs : 0 < Spec.cross (P i) (P (i+1)) q * Spec.cross (P i) (P (i+1)) q') : Conn es q q' := by
  have cz : Spec.cross (P i) (P (i+1)) z = 0 := hz.1.1
  have cz' : Spec.cross (P i) (P (i+1)) z' = 0 := hz'.1.1
  have hqz : q ≠ z := by rintro rfl; rw [cz] at hs; simp at hs
  have hqz' : q' ≠ z' := by rintro rfl; rw [cz'] at hs; simp at hs
  obtain ⟨ε, hε, htube⟩ := tube z z' (others es (P i, P (i+1))) (R.others_miss i hz hz')
  obtain ⟨τ, τ0, τ1, hn⟩ := exists_near_on_seg q z ε hε
  obtain ⟨τ', τ0', τ1', hn'⟩ := exists_near_on_seg q' z' ε hε
  change Near ε (lerp z q τ) z at hn
  change Near ε (lerp z' q' τ') z' at hn'
  have c1 : Spec.cross (P i) (P (i+1)) (lerp z q τ) = τ * Spec.cross (P i) (P (i+1)) q := by
    rw [cross_lerp, cz]; ring
  have c1' : Spec.cross (P i) (P (i+1)) (lerp z' q' τ') = τ' * Spec.cross (P i) (P (i+1)) q' := by
    rw [cross_lerp, cz']; ring
  have c2 := cross_shift (P i) (P (i+1)) (lerp z q τ) z z' cz cz'
  have hn2 := near_shift z' hn
  have hcq : Spec.cross (P i) (P (i+1)) q ≠ 0 := by rintro h; rw [h] at hs; simp at hs
  have S1 : Avoid es q (lerp z q τ) := avoid_towards hq hqz τ0 τ1
  have S4 : Avoid es q' (lerp z' q' τ') := avoid_towards hq' hqz' τ0' τ1'
  have S2 : Avoid es (lerp z q τ) (shift (lerp z q τ) z z') := by
    apply avoid_of_side (e := (P i, P (i+1)))
    · intro x hx
      have : 0 < Spec.cross (P i) (P (i+1)) (lerp z q τ) *
          Spec.cross (P i) (P (i+1)) (shift (lerp z q τ) z z') := by
        rw [c2, c1]
        have := mul_pos τ0 τ0
        have h2 : 0 < Spec.cross (P i) (P (i+1)) q * Spec.cross (P i) (P (i+1)) q :=
          mul_self_pos.2 hcq
        nlinarith
      have := cross_ne_on_seg this hx
      intro h0; simp only at h0; rw [h0] at this; simp at this
    · intro f hf x hx
      obtain ⟨y, hy, hny⟩ := near_seg_convex (a := z) (b := z') (K.onSeg_left _ _) (K.onSeg_right _ _)
        hn hn2 hx
      exact htube y x hy hny f hf
  have S3 : Avoid es (shift (lerp z q τ) z z') (lerp z' q' τ') := by
    apply avoid_of_side (e := (P i, P (i+1)))
    · intro x hx
      have : 0 < Spec.cross (P i) (P (i+1)) (shift (lerp z q τ) z z') *
          Spec.cross (P i) (P (i+1)) (lerp z' q' τ') := by
        rw [c2, c1, c1']
        have := mul_pos τ0 τ0'
        nlinarith
      have := cross_ne_on_seg this hx
      intro h0; simp only at h0; rw [h0] at this; simp at this
    · intro f hf x hx
      obtain ⟨y, hy, hny⟩ := near_seg_convex (a := z) (b := z') (K.onSeg_right _ _) (K.onSeg_right _ _)
        hn2 hn' hx
      exact htube y x hy hny f hf
  exact Conn.trans (Conn.step S1) (Conn.trans (Conn.step S2) (Conn.trans (Conn.step S3) (Conn.step S4.symm)))

end CS
end Geo
