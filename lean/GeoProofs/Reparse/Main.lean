/-
  GeoProofs.Reparse.Main — C06, the induction on the fuel of `parse` that ties the per-type
  cases together.
-/
import GeoProofs.Reparse.Feature

namespace Geo

theorem parsePointK_addProps {o : POpts} {f : Nat} {k : Keys} {x : Obj}
    (h : parsePointK o f k = .ok x) : addProps x = x := by
  unfold parsePointK at h
  repeat' (first | (cases h <;> rfl) | split at h | dsimp only at h)

theorem parseLineStringK_addProps {o : POpts} {f : Nat} {k : Keys} {x : Obj}
    (h : parseLineStringK o f k = .ok x) : addProps x = x := by
  unfold parseLineStringK at h
  repeat' (first | (cases h <;> rfl) | split at h | dsimp only at h)

section
variable (vf : String → Rat) (kf : String → String)
include vf kf

/-- Parse → write → Parse, by induction on the fuel of the first parse (the model's own
    recursion): the written document has an AST `v`, and with any fuel above the nesting depth
    of `v` it is accepted again, under the same options, as `addProps x` -/
theorem reparse_main (o : POpts) : ∀ n : Nat, ReparseIH o n
  | 0 => by
    intro d b h _ _
    simp [parse] at h
  | n + 1 => by
    have IH := reparse_main o n
    have IHL := reparseIHL_of_IH IH
    intro d x h hfin hdoc
    obtain ⟨f, ms, r, ty, hn, rfl, hty, ht⟩ := parse_inv h
    obtain rfl : f = n := by omega
    obtain ⟨hmem, hfd⟩ := doc_facts hdoc
    have hns := foreign_nonspecial ms
    have leaf : ∀ {x : Obj}, (∃ v, Written x v ∧ addProps x = x ∧ ∀ g, parse o (g + 1) v = .ok x) →
        ∃ v, Written x v ∧ ∀ g, v.depth < g → parse o g v = .ok (addProps x) := by
      rintro x ⟨v, hw, hap, hre⟩
      refine ⟨v, hw, fun g hg => ?_⟩
      obtain ⟨g', rfl⟩ : ∃ g', g = g' + 1 := ⟨g - 1, by omega⟩
      rw [hap]; exact hre g'
    unfold parseTyped at ht
    split at ht
    · obtain ⟨v, hw, _, hre⟩ := reparse_point vf kf o f _ x ht hmem.2.1 hfd hns hfin
      exact leaf ⟨v, hw, parsePointK_addProps ht, hre⟩
    · obtain ⟨v, hw, hre⟩ := reparse_lineString vf kf o f _ x ht hmem.2.1 hfd hns hfin
      exact leaf ⟨v, hw, parseLineStringK_addProps ht, hre⟩
    · obtain ⟨v, hw, hap, _, hre⟩ := reparse_polygon vf kf o f _ x ht hmem.2.1 hfd hns hfin
      exact leaf ⟨v, hw, hap, hre⟩
    · obtain ⟨v, hw, hap, _, hre⟩ := reparse_multiPoint vf kf o f _ x ht hmem.2.1 hfd hns hfin
      exact leaf ⟨v, hw, hap, hre⟩
    · obtain ⟨v, hw, hap, _, hre⟩ := reparse_multiLineString vf kf o f _ x ht hmem.2.1 hfd hns hfin
      exact leaf ⟨v, hw, hap, hre⟩
    · obtain ⟨v, hw, hap, _, hre⟩ := reparse_multiPolygon vf kf o f _ x ht hmem.2.1 hfd hns hfin
      exact leaf ⟨v, hw, hap, hre⟩
    · exact reparse_geometryCollection o f _ x ht hmem.2.2.1 hfd hns hfin IHL
    · exact reparse_featureCollection o f _ x ht hmem.2.2.2.2 hfd hns hfin IHL
    · exact reparse_feature vf kf o f _ x ht hmem.2.2.2.1 hfd hns hfin IH
    · cases ht
end

end Geo
