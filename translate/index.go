package main

// index: translates the segment index of <repo>/geometry — qtree.go (quadtree) and rtree.go
// (R-tree) — into a Lean file (namespace Geo.IGen, core Lean + GeoModel.KNum only).
//
// The translation is syntactic (go/parser + go/ast with a small local type inference) and
// deterministic.  See the header of the generated file (ixHeader) for the conventions.
// Whatever is not recognised is emitted as `opaque <name>_unrecognised : Unit` preceded by the
// reason; a function that calls an unrecognised function is unrecognised itself.

import (
	"bytes"
	"fmt"
	"go/ast"
	"go/parser"
	"go/printer"
	"go/token"
	"path/filepath"
	"sort"
	"strconv"
	"strings"
)

func init() { translators["index"] = translateIndex }

// ---------------------------------------------------------------------------------------------
// types of the subset

type ixKind int

const (
	ixBad    ixKind = iota
	ixInt           // int -> Int (unbounded)
	ixUns           // uint32 / uint16 / byte / uint64 -> Nat (bits = width)
	ixBool          // bool
	ixFloat         // float64 -> F
	ixBytes         // []byte -> D
	ixStruct        // a value struct (Point, Rect, rRect …) -> generated structure
	ixPtr           // *T for a pointer-linked struct T -> generated inductive with `nil`
	ixList          // []T, [N]T with N > 4 -> List T
	ixArr           // [N]T with N <= 4 -> N separate variables / fields
	ixSeries        // *baseSeries -> SR (abstract)
	ixSeg           // Segment -> S (abstract)
	ixIter          // the callback func(seg Segment, item int) bool
	ixIface         // interface{} -> generated sum of the asserted dynamic types
	ixUnit
	ixTuple
	ixUntyped // an integer literal not yet given a type
	ixUntypedF
)

type ixTy struct {
	k     ixKind
	bits  int
	name  string
	n     int
	elem  *ixTy
	elems []ixTy
}

func (t ixTy) lean() string {
	switch t.k {
	case ixInt, ixUntyped:
		return "Int"
	case ixUns:
		return "Nat"
	case ixBool:
		return "Bool"
	case ixFloat, ixUntypedF:
		return "F"
	case ixBytes:
		return "D"
	case ixStruct:
		return ixUp(t.name) + " F"
	case ixPtr:
		if ixLinked[t.name] {
			return ixUp(t.name)
		}
		return ixUp(t.name) + " F"
	case ixIface:
		return "Dyn F"
	case ixList:
		return "List " + ixAtom(t.elem.lean())
	case ixSeries:
		return "SR"
	case ixSeg:
		return "S"
	case ixUnit:
		return "Unit"
	case ixTuple:
		ps := []string{}
		for _, e := range t.elems {
			ps = append(ps, ixAtom(e.lean()))
		}
		return strings.Join(ps, " × ")
	}
	return "?"
}

func ixAtom(s string) string {
	if strings.Contains(s, " ") {
		return "(" + s + ")"
	}
	return s
}

func ixUp(s string) string { return strings.ToUpper(s[:1]) + s[1:] }
func ixLow(s string) string {
	return strings.ToLower(s[:1]) + s[1:]
}

func (t ixTy) same(u ixTy) bool {
	if t.k != u.k || t.name != u.name || (t.n != u.n && t.k != ixBytes) || (t.k == ixUns && t.bits != u.bits) {
		return false
	}
	if (t.elem == nil) != (u.elem == nil) {
		return false
	}
	if t.elem != nil && !t.elem.same(*u.elem) {
		return false
	}
	return true
}

// ixLinked: the structs that refer to themselves through pointers (set by ixLoad)
var ixLinked = map[string]bool{}

// ixMutual: the structs generated in one mutual block with Dyn (they reach interface{})
var ixMutual = map[string]bool{}

type ixRefuse struct{ msg string }

func ixFail(format string, a ...interface{}) { panic(ixRefuse{fmt.Sprintf(format, a...)}) }

// ---------------------------------------------------------------------------------------------
// the package under translation

type ixField struct {
	name string
	ty   ixTy
	pos  token.Pos
}

type ixStructDecl struct {
	name   string
	fields []ixField
	pos    token.Pos
	linked bool // pointer-linked: refers to *itself -> inductive with nil
}

type ixPkg struct {
	fset    *token.FileSet
	repo    string
	structs map[string]*ixStructDecl
	consts  map[string]int64
	cpos    map[string]token.Pos
	funcs   map[string]*ast.FuncDecl // "recv.name" or "name"
	files   map[string]*ast.File
	loading bool
}

func (p *ixPkg) where(pos token.Pos) string {
	q := p.fset.Position(pos)
	rel, err := filepath.Rel(p.repo, q.Filename)
	if err != nil {
		rel = q.Filename
	}
	return fmt.Sprintf("%s:%d", rel, q.Line)
}

func ixSrc(fset *token.FileSet, n interface{}) string {
	var b bytes.Buffer
	printer.Fprint(&b, fset, n)
	return strings.Join(strings.Fields(b.String()), " ")
}

func ixRecvName(fd *ast.FuncDecl) string {
	if fd.Recv == nil || len(fd.Recv.List) == 0 {
		return ""
	}
	t := fd.Recv.List[0].Type
	if s, ok := t.(*ast.StarExpr); ok {
		t = s.X
	}
	if id, ok := t.(*ast.Ident); ok {
		return id.Name
	}
	return "?"
}

func ixLoad(repo string) (*ixPkg, error) {
	p := &ixPkg{fset: token.NewFileSet(), repo: repo, structs: map[string]*ixStructDecl{},
		consts: map[string]int64{}, cpos: map[string]token.Pos{}, funcs: map[string]*ast.FuncDecl{},
		files: map[string]*ast.File{}}
	names, err := filepath.Glob(filepath.Join(repo, "geometry", "*.go"))
	if err != nil {
		return nil, err
	}
	sort.Strings(names)
	var tdecls []*ast.TypeSpec
	for _, fn := range names {
		if strings.HasSuffix(fn, "_test.go") {
			continue
		}
		f, err := parser.ParseFile(p.fset, fn, nil, parser.ParseComments)
		if err != nil {
			return nil, err
		}
		p.files[filepath.Base(fn)] = f
		for _, d := range f.Decls {
			switch d := d.(type) {
			case *ast.FuncDecl:
				key := d.Name.Name
				if r := ixRecvName(d); r != "" {
					key = r + "." + key
				}
				p.funcs[key] = d
			case *ast.GenDecl:
				for _, s := range d.Specs {
					switch s := s.(type) {
					case *ast.TypeSpec:
						tdecls = append(tdecls, s)
					case *ast.ValueSpec:
						if d.Tok == token.CONST && len(s.Names) == 1 && len(s.Values) == 1 {
							if v, ok := p.constInt(s.Values[0]); ok {
								p.consts[s.Names[0].Name] = v
								p.cpos[s.Names[0].Name] = s.Pos()
							}
						}
					}
				}
			}
		}
	}
	for _, s := range tdecls {
		if st, ok := s.Type.(*ast.StructType); ok {
			p.structs[s.Name.Name] = &ixStructDecl{name: s.Name.Name, pos: s.Pos()}
			_ = st
		}
	}
	p.loading = true
	for k := range ixLinked {
		delete(ixLinked, k)
	}
	for k := range ixMutual {
		delete(ixMutual, k)
	}
	defer func() { p.loading = false }()
	for _, s := range tdecls {
		st, ok := s.Type.(*ast.StructType)
		if !ok {
			continue
		}
		sd := p.structs[s.Name.Name]
		for _, f := range st.Fields.List {
			ty := p.typeOf(f.Type)
			if ty.k == ixPtr && ty.name == sd.name {
				sd.linked = true
				ixLinked[sd.name] = true
			}
			if ty.k == ixArr && ty.elem.k == ixPtr && ty.elem.name == sd.name {
				sd.linked = true
				ixLinked[sd.name] = true
			}
			for _, n := range f.Names {
				sd.fields = append(sd.fields, ixField{n.Name, ty, n.Pos()})
			}
		}
	}
	var norm func(t ixTy) ixTy
	norm = func(t ixTy) ixTy {
		if t.k == ixPtr && !ixLinked[t.name] {
			return ixTy{k: ixStruct, name: t.name}
		}
		if t.elem != nil {
			e := norm(*t.elem)
			t.elem = &e
		}
		return t
	}
	for _, sd := range p.structs {
		for i := range sd.fields {
			sd.fields[i].ty = norm(sd.fields[i].ty)
		}
	}
	return p, nil
}

// constInt evaluates an integer constant expression (literals, known constants, + - *).
func (p *ixPkg) constInt(e ast.Expr) (int64, bool) {
	switch e := e.(type) {
	case *ast.BasicLit:
		if e.Kind == token.INT {
			v, err := strconv.ParseInt(e.Value, 0, 64)
			return v, err == nil
		}
	case *ast.Ident:
		v, ok := p.consts[e.Name]
		return v, ok
	case *ast.ParenExpr:
		return p.constInt(e.X)
	case *ast.BinaryExpr:
		a, ok1 := p.constInt(e.X)
		b, ok2 := p.constInt(e.Y)
		if ok1 && ok2 {
			switch e.Op {
			case token.ADD:
				return a + b, true
			case token.SUB:
				return a - b, true
			case token.MUL:
				return a * b, true
			}
		}
	}
	return 0, false
}

// typeOf maps a Go type expression to the subset's types.
func (p *ixPkg) typeOf(e ast.Expr) ixTy {
	switch e := e.(type) {
	case *ast.Ident:
		switch e.Name {
		case "int":
			return ixTy{k: ixInt}
		case "uint32":
			return ixTy{k: ixUns, bits: 32}
		case "uint16":
			return ixTy{k: ixUns, bits: 16}
		case "uint64":
			return ixTy{k: ixUns, bits: 64}
		case "byte", "uint8":
			return ixTy{k: ixUns, bits: 8}
		case "bool":
			return ixTy{k: ixBool}
		case "float64":
			return ixTy{k: ixFloat}
		case "Segment":
			return ixTy{k: ixSeg}
		}
		if _, ok := p.structs[e.Name]; ok {
			return ixTy{k: ixStruct, name: e.Name}
		}
	case *ast.StarExpr:
		if id, ok := e.X.(*ast.Ident); ok {
			if id.Name == "baseSeries" {
				return ixTy{k: ixSeries}
			}
			if _, ok := p.structs[id.Name]; ok {
				if p.loading || ixLinked[id.Name] {
					return ixTy{k: ixPtr, name: id.Name}
				}
				return ixTy{k: ixStruct, name: id.Name} // a pointer to a plain struct is passed as the value
			}
		}
	case *ast.ArrayType:
		el := p.typeOf(e.Elt)
		if el.k == ixBad {
			return ixTy{}
		}
		if e.Len == nil {
			if el.k == ixUns && el.bits == 8 {
				return ixTy{k: ixBytes}
			}
			return ixTy{k: ixList, elem: &el}
		}
		if n, ok := p.constInt(e.Len); ok {
			if el.k == ixUns && el.bits == 8 {
				return ixTy{k: ixBytes, n: int(n)}
			}
			if n <= 4 {
				return ixTy{k: ixArr, n: int(n), elem: &el}
			}
			return ixTy{k: ixList, n: int(n), elem: &el}
		}
	case *ast.InterfaceType:
		if e.Methods == nil || len(e.Methods.List) == 0 {
			return ixTy{k: ixIface}
		}
	case *ast.FuncType:
		// the only callback of the subset: func(seg Segment, item int) bool
		if e.Params != nil && e.Results != nil && len(e.Results.List) == 1 {
			var ps []ixTy
			for _, f := range e.Params.List {
				k := len(f.Names)
				if k == 0 {
					k = 1
				}
				for i := 0; i < k; i++ {
					ps = append(ps, p.typeOf(f.Type))
				}
			}
			ok := len(ps) > 0 && p.typeOf(e.Results.List[0].Type).k == ixBool
			for _, t := range ps {
				if t.k == ixBad || t.k == ixIter || t.k == ixArr {
					ok = false
				}
			}
			if ok {
				return ixTy{k: ixIter, elems: ps}
			}
		}
	}
	return ixTy{}
}

// ---------------------------------------------------------------------------------------------
// Lean output tree

type ixNode struct {
	kind   string // "let" "bind" "if" "match" "leaf"
	pat    string
	rhs    string
	rhsN   *ixNode // a nested block as right-hand side (printed in parentheses)
	post   string  // text after the nested block (arguments following a lambda)
	cond   string
	a, b   *ixNode
	arms   []ixArm
	text   string
	monad  bool // leaf: contains Option-valued text (none / some …)
	rhsMon bool // let with a nested block that is itself an Option computation
}

type ixArm struct {
	pat  string
	body *ixNode
}

func ixLeaf(s string) *ixNode { return &ixNode{kind: "leaf", text: s} }

// hasBind reports whether the tree contains a monadic step.
func (n *ixNode) hasBind() bool {
	if n == nil {
		return false
	}
	if n.kind == "bind" {
		return true
	}
	if n.rhsN.hasBind() || n.a.hasBind() || n.b.hasBind() {
		return true
	}
	for _, a := range n.arms {
		if a.body.hasBind() {
			return true
		}
	}
	return false
}

type ixPrinter struct {
	b       strings.Builder
	partial bool
}

func (pr *ixPrinter) line(ind int, s string) {
	pr.b.WriteString(strings.Repeat(" ", ind))
	pr.b.WriteString(s)
	pr.b.WriteString("\n")
}

// block prints n as a sequence starting on a fresh line at indentation ind.
func (pr *ixPrinter) block(n *ixNode, ind int) {
	for n != nil {
		switch n.kind {
		case "leaf":
			pr.line(ind, n.text)
			return
		case "let", "bind":
			arrow := ":="
			if n.kind == "bind" {
				arrow = "←"
			}
			if n.rhsN == nil {
				pr.line(ind, fmt.Sprintf("let %s %s %s", n.pat, arrow, n.rhs))
			} else {
				pr.line(ind, fmt.Sprintf("let %s %s %s(", n.pat, arrow, n.rhs))
				save := pr.partial
				if n.kind == "let" && !n.rhsMon {
					pr.partial = false // a pure join: the arms are plain terms
				}
				pr.open(n.rhsN, ind+4)
				pr.partial = save
				pr.line(ind+2, ")"+n.post)
			}
			n = n.a
		case "if":
			pr.line(ind, "if "+n.cond+" then")
			pr.open(n.a, ind+2)
			pr.line(ind, "else")
			pr.open(n.b, ind+2)
			return
		case "match":
			pr.line(ind, "match "+n.cond+" with")
			for _, a := range n.arms {
				pr.line(ind, "| "+a.pat+" =>")
				pr.open(a.body, ind+4)
			}
			return
		}
	}
}

// open prints a block in term position: with `do` in a partial function when it has steps.
func (pr *ixPrinter) open(n *ixNode, ind int) {
	if pr.partial && n.kind != "leaf" {
		pr.line(ind, "do")
		pr.block(n, ind+2)
		return
	}
	pr.block(n, ind)
}

// ---------------------------------------------------------------------------------------------
// translation state

type ixVar struct {
	lean  string
	ty    ixTy
	konst bool // an unrolled loop variable: lean is the literal, cval its value
	cval  int64
	elems []string // ixArr: one Lean variable per element
	view  []*ixVar // a destructured struct / node: one variable per field (declaration order)
	sname string   // view: the struct name
	alias ast.Expr // `x := &path` / `x := path.(*T)`: x stands for the path
	lens  *ixLens  // x := &path / x := path.(*T) / x := y: x stands for the (frozen) path
	isPtr bool     // x := new(T): a pointer; storing it somewhere makes x an alias of that place
}

type ixEnv map[string]*ixVar

func (e ixEnv) clone() ixEnv {
	n := ixEnv{}
	for k, v := range e {
		n[k] = v
	}
	return n
}

type ixBind struct {
	pat, rhs string
	monadic  bool
}

// a pattern with this prefix is refutable:  match rhs with | pat => … | _ => none
const ixDestruct = "!"

type ixOp struct{ name, sig, doc string }

type ixFn struct {
	decl    *ast.FuncDecl
	name    string // Lean name
	key     string // "recv.name"
	recv    string // receiver variable name ("" = none or unused)
	recvTy  ixTy
	partial bool
	fuel    bool
	mutates bool
	hasIter bool
	selfRec bool
	outs    []int // parameters *T the body stores through: returned after the receiver
	params  []ixField
	results []ixField
	err     string
	text    string
}

type ixTr struct {
	p         *ixPkg
	ops       map[string]ixOp
	fns       map[string]*ixFn
	order     []string
	fn        *ixFn
	tmp       int
	sawMon    bool
	ifaceT    map[string]bool // dynamic types asserted on interface{} values
	dyn       []ixDynT
	outVars   map[int]*ixVar
	refutable map[string]bool // destructuring patterns that can fail (a nil constructor exists)
}

func (tr *ixTr) fresh(base string) string {
	tr.tmp++
	return fmt.Sprintf("%s%d", base, tr.tmp)
}

func (tr *ixTr) op(name, sig, doc string) string {
	tr.ops[name] = ixOp{name, sig, doc}
	return "ops." + name
}

// wrap puts the binds in front of inner.
func (tr *ixTr) wrap(bs []ixBind, inner *ixNode) *ixNode {
	for i := len(bs) - 1; i >= 0; i-- {
		k := "let"
		if bs[i].monadic {
			k = "bind"
			tr.sawMon = true
		}
		if strings.HasPrefix(bs[i].pat, ixDestruct+".mk ") && !tr.refutable[bs[i].pat] {
			inner = &ixNode{kind: "let", pat: "⟨" + strings.Join(strings.Fields(bs[i].pat[len(ixDestruct)+4:]), ", ") + "⟩", rhs: bs[i].rhs, a: inner}
			continue
		}
		if strings.HasPrefix(bs[i].pat, ixDestruct) {
			tr.sawMon = true
			inner = &ixNode{kind: "match", cond: bs[i].rhs, arms: []ixArm{{bs[i].pat[1:], inner}, {"_", ixLeaf("none")}}}
			continue
		}
		inner = &ixNode{kind: k, pat: bs[i].pat, rhs: bs[i].rhs, a: inner}
	}
	return inner
}

// ctx: where control goes
type ixCtx struct {
	retWrap func(val string) *ixNode // return of the (complete) value val
	cont    func(env ixEnv) *ixNode  // continue (nil outside loops)
	brk     func(env ixEnv) *ixNode  // break
}

func ixParen(s string) string {
	if strings.ContainsAny(s, " ") && !(strings.HasPrefix(s, "(") && ixBalanced(s)) {
		return "(" + s + ")"
	}
	return s
}

// ixBalanced: s starts with "(" whose matching ")" is the last character
func ixBalanced(s string) bool {
	d := 0
	for i, c := range s {
		if c == '(' {
			d++
		} else if c == ')' {
			d--
			if d == 0 {
				return i == len(s)-1
			}
		}
	}
	return false
}

func (tr *ixTr) isLit(e ast.Expr) bool {
	switch e := e.(type) {
	case *ast.BasicLit:
		return e.Kind == token.INT || e.Kind == token.FLOAT
	case *ast.ParenExpr:
		return tr.isLit(e.X)
	case *ast.UnaryExpr:
		return e.Op == token.SUB && tr.isLit(e.X)
	}
	return false
}

// lit renders a numeric literal at type want.
func (tr *ixTr) lit(e ast.Expr, want ixTy) (string, ixTy) {
	neg := false
	for {
		if p, ok := e.(*ast.ParenExpr); ok {
			e = p.X
		} else if u, ok := e.(*ast.UnaryExpr); ok && u.Op == token.SUB {
			neg = !neg
			e = u.X
		} else {
			break
		}
	}
	bl := e.(*ast.BasicLit)
	var v int64
	if bl.Kind == token.INT {
		x, err := strconv.ParseInt(bl.Value, 0, 64)
		if err != nil {
			ixFail("integer literal %s", bl.Value)
		}
		v = x
	} else {
		f, err := strconv.ParseFloat(bl.Value, 64)
		if err != nil || f != float64(int64(f)) || f < 0 {
			ixFail("float literal %s is not a small natural number", bl.Value)
		}
		v = int64(f)
		if want.k != ixFloat && want.k != ixBad {
			ixFail("float literal %s at a non-float type", bl.Value)
		}
		want = ixTy{k: ixFloat}
	}
	switch want.k {
	case ixFloat:
		s := fmt.Sprintf("(KNum.ofNat %d : F)", v)
		if neg {
			s = "(KNum.neg " + s + ")"
		}
		return s, ixTy{k: ixFloat}
	case ixUns:
		if neg {
			ixFail("negative literal at an unsigned type")
		}
		return fmt.Sprintf("%d", v), want
	default:
		if neg {
			return fmt.Sprintf("(-%d)", v), ixTy{k: ixInt}
		}
		return fmt.Sprintf("%d", v), ixTy{k: ixInt}
	}
}

// whole renders the current value of a variable (a view is reassembled).
func (tr *ixTr) whole(v *ixVar) string {
	if v.view == nil {
		return v.lean
	}
	parts := []string{ixUp(v.sname) + ".mk"}
	for _, f := range v.view {
		if f.ty.k == ixArr {
			parts = append(parts, f.elems...)
		} else {
			parts = append(parts, ixParen(tr.whole(f)))
		}
	}
	return "(" + strings.Join(parts, " ") + ")"
}

func (tr *ixTr) viewField(v *ixVar, name string) *ixVar {
	sd := tr.p.structs[v.sname]
	for i, f := range sd.fields {
		if f.name == name {
			return v.view[i]
		}
	}
	return nil
}

// constIndex: the value of an index expression known at translation time.
func (tr *ixTr) constIndex(e ast.Expr, env ixEnv) (int64, bool) {
	if id, ok := e.(*ast.Ident); ok {
		if v, ok := env[id.Name]; ok {
			return v.cval, v.konst
		}
	}
	return tr.p.constInt(e)
}

// zero value of a type
func (tr *ixTr) zero(t ixTy) string {
	switch t.k {
	case ixInt, ixUns:
		return "0"
	case ixBool:
		return "false"
	case ixFloat:
		return "(KNum.ofNat 0 : F)"
	case ixPtr:
		return ixUp(t.name) + ".nil"
	case ixList:
		if t.n > 0 {
			return fmt.Sprintf("(List.replicate %d %s)", t.n, tr.zero(*t.elem))
		}
		return "[]"
	case ixIface:
		return "Dyn.nil"
	case ixBytes:
		if t.n > 0 {
			return "(" + tr.op("bytesZero", "Nat → D", "Go: the zero value of a `[N]byte` array (N zero bytes)") + fmt.Sprintf(" %d)", t.n)
		}
		return "(" + tr.op("bytesNil", "D", "Go: a nil []byte") + ")"
	case ixStruct:
		sd := tr.p.structs[t.name]
		parts := []string{"(" + ixUp(t.name) + ".mk"}
		for _, f := range sd.fields {
			if f.ty.k == ixArr {
				for i := 0; i < f.ty.n; i++ {
					parts = append(parts, tr.zero(*f.ty.elem))
				}
			} else {
				parts = append(parts, tr.zero(f.ty))
			}
		}
		return strings.Join(parts, " ") + " : " + ixUp(t.name) + " F)"
	}
	ixFail("no zero value for this type")
	return ""
}

// newNode: new(T) for a pointer-linked struct
func (tr *ixTr) newNode(name string) string {
	sd := tr.p.structs[name]
	parts := []string{"(" + ixUp(name) + ".mk"}
	for _, f := range sd.fields {
		if f.ty.k == ixArr {
			for i := 0; i < f.ty.n; i++ {
				parts = append(parts, tr.zero(*f.ty.elem))
			}
		} else {
			parts = append(parts, tr.zero(f.ty))
		}
	}
	return strings.Join(parts, " ") + ")"
}

func (tr *ixTr) expr(e ast.Expr, env ixEnv, bs *[]ixBind, want ixTy) (string, ixTy) {
	switch e := e.(type) {
	case *ast.ParenExpr:
		return tr.expr(e.X, env, bs, want)
	case *ast.BasicLit:
		return tr.lit(e, want)
	case *ast.Ident:
		if e.Name == "true" || e.Name == "false" {
			return e.Name, ixTy{k: ixBool}
		}
		if e.Name == "nil" && env["nil"] == nil {
			switch want.k {
			case ixIface:
				return "Dyn.nil", want
			case ixPtr:
				return ixUp(want.name) + ".nil", want
			}
			ixFail("nil at this type")
		}
		if v, ok := env[e.Name]; ok {
			if v.alias != nil {
				return tr.expr(v.alias, env, bs, want)
			}
			if v.lens != nil {
				return tr.lensGet(v.lens, bs), v.lens.ty()
			}
			if v.ty.k == ixArr {
				ixFail("array %s used as a whole", e.Name)
			}
			return tr.whole(v), v.ty
		}
		if _, ok := tr.p.consts[e.Name]; ok {
			if want.k == ixFloat || want.k == ixUns {
				ixFail("constant %s at a non-int type", e.Name)
			}
			return e.Name, ixTy{k: ixInt}
		}
		ixFail("unknown identifier %s", e.Name)
	case *ast.UnaryExpr:
		if tr.isLit(e) {
			return tr.lit(e, want)
		}
		switch e.Op {
		case token.NOT:
			s, t := tr.expr(e.X, env, bs, ixTy{k: ixBool})
			if t.k != ixBool {
				ixFail("! on a non-bool")
			}
			return "!" + ixParen(s), t
		case token.SUB:
			s, t := tr.expr(e.X, env, bs, want)
			if t.k == ixInt {
				return "(-" + ixParen(s) + ")", t
			}
			if t.k == ixFloat {
				return "(KNum.neg " + ixParen(s) + ")", t
			}
		case token.AND:
			// &x on a value: pointers to values are passed as the value
			return tr.expr(e.X, env, bs, want)
		}
		ixFail("unary operator %s", e.Op)
	case *ast.StarExpr:
		return tr.expr(e.X, env, bs, want)
	case *ast.BinaryExpr:
		return tr.binary(e, env, bs, want)
	case *ast.SelectorExpr:
		return tr.selector(e, env, bs)
	case *ast.IndexExpr:
		return tr.index(e, env, bs)
	case *ast.SliceExpr:
		if e.Slice3 || e.High != nil {
			ixFail("slice expression with an upper bound")
		}
		if e.Low == nil {
			if els, et, ok := tr.arrayElems(e.X, env, bs); ok {
				return "[" + strings.Join(els, ", ") + "]", ixTy{k: ixList, elem: &et}
			}
		}
		x, t := tr.expr(e.X, env, bs, ixTy{})
		if t.k == ixBytes && t.n > 0 && e.Low == nil {
			return x, ixTy{k: ixBytes} // the whole array as a slice
		}
		if t.k != ixBytes {
			ixFail("slice expression on a non-[]byte")
		}
		lo := "0"
		if e.Low != nil {
			lo, _ = tr.expr(e.Low, env, bs, ixTy{k: ixInt})
		}
		v := tr.fresh("sl")
		*bs = append(*bs, ixBind{v, tr.op("bytesFrom", "D → Int → Option D", "Go: `b[lo:]` on a []byte; none = bound out of range (a Go panic)") + " " + ixParen(x) + " " + ixParen(lo), true})
		return v, t
	case *ast.CompositeLit:
		t := tr.p.typeOf(e.Type)
		if t.k != ixStruct {
			ixFail("composite literal of this type")
		}
		sd := tr.p.structs[t.name]
		vals := map[string]string{}
		for _, el := range e.Elts {
			kv, ok := el.(*ast.KeyValueExpr)
			if !ok {
				ixFail("positional composite literal")
			}
			k := kv.Key.(*ast.Ident).Name
			var ft ixTy
			for _, f := range sd.fields {
				if f.name == k {
					ft = f.ty
				}
			}
			vals[k], _ = tr.expr(kv.Value, env, bs, ft)
		}
		parts := []string{}
		for _, f := range sd.fields {
			if f.ty.k == ixArr || f.ty.k == ixIface {
				ixFail("composite literal of a struct with array fields")
			}
			v, ok := vals[f.name]
			if !ok {
				v = tr.zero(f.ty)
			}
			parts = append(parts, ixLow(f.name)+" := "+v)
		}
		return "({ " + strings.Join(parts, ", ") + " } : " + t.lean() + ")", t
	case *ast.CallExpr:
		return tr.call(e, env, bs, want)
	case *ast.TypeAssertExpr:
		return tr.assert(e, env, bs)
	}
	ixFail("expression %s", ixSrc(tr.p.fset, e))
	return "", ixTy{}
}

// place: the variable an ident / receiver-field path denotes (nil when e is not such a path).
func (tr *ixTr) place(e ast.Expr, env ixEnv) *ixVar {
	switch e := e.(type) {
	case *ast.ParenExpr:
		return tr.place(e.X, env)
	case *ast.Ident:
		if v, ok := env[e.Name]; ok {
			if v.alias != nil {
				return tr.place(v.alias, env)
			}
			if v.lens != nil {
				if len(v.lens.steps) == 0 {
					return v.lens.root
				}
				return nil
			}
			return v
		}
	case *ast.StarExpr:
		return tr.place(e.X, env)
	case *ast.SelectorExpr:
		if v := tr.place(e.X, env); v != nil && v.view != nil {
			return tr.viewField(v, e.Sel.Name)
		}
	}
	return nil
}

func (tr *ixTr) selector(e *ast.SelectorExpr, env ixEnv, bs *[]ixBind) (string, ixTy) {
	if v := tr.place(e, env); v != nil {
		if v.ty.k == ixArr {
			ixFail("array field %s used as a whole", e.Sel.Name)
		}
		return tr.whole(v), v.ty
	}
	x, t := tr.expr(e.X, env, bs, ixTy{})
	if t.k != ixStruct {
		ixFail("field selection %s on a non-struct", ixSrc(tr.p.fset, e))
	}
	sd := tr.p.structs[t.name]
	for _, f := range sd.fields {
		if f.name == e.Sel.Name {
			if f.ty.k == ixArr {
				ixFail("array field %s used as a whole", f.name)
			}
			return ixParen(x) + "." + ixLow(f.name), f.ty
		}
	}
	ixFail("unknown field %s", e.Sel.Name)
	return "", ixTy{}
}

func (tr *ixTr) sel(n int) string { return fmt.Sprintf("arrSel%d", n) }

func (tr *ixTr) index(e *ast.IndexExpr, env ixEnv, bs *[]ixBind) (string, ixTy) {
	if v := tr.place(e.X, env); v != nil && v.ty.k == ixArr {
		if k, ok := tr.constIndex(e.Index, env); ok {
			if k < 0 || int(k) >= v.ty.n {
				ixFail("constant index out of range")
			}
			return v.elems[k], *v.ty.elem
		}
		i, _ := tr.expr(e.Index, env, bs, ixTy{k: ixInt})
		t := tr.fresh("el")
		*bs = append(*bs, ixBind{t, tr.sel(v.ty.n) + " " + strings.Join(v.elems, " ") + " " + ixParen(i), true})
		return t, *v.ty.elem
	}
	// an exploded array field of a struct VALUE: x.min[i] with constant i
	if se, ok := e.X.(*ast.SelectorExpr); ok {
		var sink []ixBind
		if _, t := tr.exprTry(se.X, env, &sink); t.k == ixStruct {
			for _, f := range tr.p.structs[t.name].fields {
				if f.name == se.Sel.Name && f.ty.k == ixArr {
					k, ok := tr.constIndex(e.Index, env)
					if ok && (k < 0 || int(k) >= f.ty.n) {
						ixFail("index of array field %s is out of range", f.name)
					}
					x, _ := tr.expr(se.X, env, bs, ixTy{})
					if !ok {
						i, _ := tr.expr(e.Index, env, bs, ixTy{k: ixInt})
						var els []string
						for j := 0; j < f.ty.n; j++ {
							els = append(els, fmt.Sprintf("%s.%s%d", ixParen(x), ixLow(f.name), j))
						}
						t := tr.fresh("el")
						*bs = append(*bs, ixBind{t, tr.sel(f.ty.n) + " " + strings.Join(els, " ") + " " + ixParen(i), true})
						return t, *f.ty.elem
					}
					return fmt.Sprintf("%s.%s%d", ixParen(x), ixLow(f.name), k), *f.ty.elem
				}
			}
		}
	}
	x, t := tr.expr(e.X, env, bs, ixTy{})
	i, _ := tr.expr(e.Index, env, bs, ixTy{k: ixInt})
	switch t.k {
	case ixList:
		v := tr.fresh("el")
		*bs = append(*bs, ixBind{v, "listAt " + ixParen(x) + " " + ixParen(i), true})
		return v, *t.elem
	case ixBytes:
		v := tr.fresh("by")
		*bs = append(*bs, ixBind{v, tr.op("bytesAt", "D → Int → Option Nat", "Go: `b[i]` on a []byte; none = index out of range (a Go panic)") + " " + ixParen(x) + " " + ixParen(i), true})
		return v, ixTy{k: ixUns, bits: 8}
	}
	ixFail("index expression %s", ixSrc(tr.p.fset, e))
	return "", ixTy{}
}

// exprTry translates without keeping the binds and without failing.
func (tr *ixTr) exprTry(e ast.Expr, env ixEnv, bs *[]ixBind) (s string, t ixTy) {
	saveTmp, saveOps := tr.tmp, map[string]ixOp{}
	for k, v := range tr.ops {
		saveOps[k] = v
	}
	defer func() {
		tr.tmp, tr.ops = saveTmp, saveOps
		if r := recover(); r != nil {
			if _, ok := r.(ixRefuse); !ok {
				panic(r)
			}
			s, t = "", ixTy{}
		}
	}()
	return tr.expr(e, env, bs, ixTy{})
}

func (tr *ixTr) binary(e *ast.BinaryExpr, env ixEnv, bs *[]ixBind, want ixTy) (string, ixTy) {
	var a, b string
	var ta, tb ixTy
	cmp := false
	switch e.Op {
	case token.EQL, token.NEQ, token.LSS, token.LEQ, token.GTR, token.GEQ:
		cmp = true
	case token.LAND, token.LOR:
		a, ta = tr.expr(e.X, env, bs, ixTy{k: ixBool})
		var rb []ixBind
		b, tb = tr.expr(e.Y, env, &rb, ixTy{k: ixBool})
		for _, x := range rb {
			if x.monadic {
				ixFail("right operand of %s can panic (short-circuit evaluation is not modelled)", e.Op)
			}
		}
		*bs = append(*bs, rb...)
		if ta.k != ixBool || tb.k != ixBool {
			ixFail("%s on non-bools", e.Op)
		}
		return "(" + ixParen(a) + " " + e.Op.String() + " " + ixParen(b) + ")", ta
	}
	// nil tests
	if id, ok := e.Y.(*ast.Ident); ok && id.Name == "nil" && cmp {
		a, ta = tr.expr(e.X, env, bs, ixTy{})
		var s string
		switch ta.k {
		case ixPtr:
			s = ixUp(ta.name) + ".isNil " + ixParen(a)
		case ixIface:
			s = "Dyn.isNil " + ixParen(a)
		case ixList:
			if ta.elem.k != ixFloat {
				ixFail("nil test on this slice type")
			}
			s = tr.op("floatsIsNil", "List F → Bool", "Go: `s == nil` on a []float64 (a nil slice and an empty slice have the same elements: the caller decides)") + " " + ixParen(a)
		default:
			ixFail("nil test on this type")
		}
		if e.Op == token.NEQ {
			return "!(" + s + ")", ixTy{k: ixBool}
		} else if e.Op == token.EQL {
			return "(" + s + ")", ixTy{k: ixBool}
		}
		ixFail("nil comparison %s", e.Op)
	}
	w := want
	if cmp {
		w = ixTy{}
	}
	switch {
	case tr.isLit(e.X) && !tr.isLit(e.Y):
		b, tb = tr.expr(e.Y, env, bs, w)
		a, ta = tr.expr(e.X, env, bs, tb)
	case tr.isLit(e.Y) && !tr.isLit(e.X):
		a, ta = tr.expr(e.X, env, bs, w)
		b, tb = tr.expr(e.Y, env, bs, ta)
	default:
		a, ta = tr.expr(e.X, env, bs, w)
		b, tb = tr.expr(e.Y, env, bs, ta)
	}
	if !ta.same(tb) {
		ixFail("operands of %s have different types in %s", e.Op, ixSrc(tr.p.fset, e))
	}
	a, b = ixParen(a), ixParen(b)
	switch ta.k {
	case ixInt, ixUns:
		switch e.Op {
		case token.ADD, token.MUL:
			return "(" + a + " " + e.Op.String() + " " + b + ")", ta
		case token.SUB:
			if ta.k == ixInt {
				return "(" + a + " - " + b + ")", ta
			}
		case token.EQL:
			return "(" + a + " == " + b + ")", ixTy{k: ixBool}
		case token.NEQ:
			return "(" + a + " != " + b + ")", ixTy{k: ixBool}
		case token.LSS:
			return "decide (" + a + " < " + b + ")", ixTy{k: ixBool}
		case token.LEQ:
			return "decide (" + a + " ≤ " + b + ")", ixTy{k: ixBool}
		case token.GTR:
			return "decide (" + a + " > " + b + ")", ixTy{k: ixBool}
		case token.GEQ:
			return "decide (" + a + " ≥ " + b + ")", ixTy{k: ixBool}
		}
	case ixFloat:
		m := map[token.Token]string{token.ADD: "+ₖ", token.SUB: "-ₖ", token.MUL: "*ₖ", token.QUO: "/ₖ"}
		c := map[token.Token]string{token.LSS: "<ₖ", token.LEQ: "≤ₖ", token.GTR: ">ₖ", token.GEQ: "≥ₖ", token.EQL: "==ₖ", token.NEQ: "!=ₖ"}
		if o, ok := m[e.Op]; ok {
			return "(" + a + " " + o + " " + b + ")", ta
		}
		if o, ok := c[e.Op]; ok {
			return "(" + a + " " + o + " " + b + ")", ixTy{k: ixBool}
		}
	case ixBool:
		if e.Op == token.EQL {
			return "(" + a + " == " + b + ")", ta
		} else if e.Op == token.NEQ {
			return "(" + a + " != " + b + ")", ta
		}
	}
	ixFail("operator %s at this type in %s", e.Op, ixSrc(tr.p.fset, e))
	return "", ixTy{}
}

const ixSt = "st'"

var ixConv = map[string]ixTy{
	"int": {k: ixInt}, "uint32": {k: ixUns, bits: 32}, "uint16": {k: ixUns, bits: 16},
	"uint64": {k: ixUns, bits: 64}, "byte": {k: ixUns, bits: 8}, "uint8": {k: ixUns, bits: 8},
}

func (tr *ixTr) convert(x string, from, to ixTy) string {
	switch {
	case from.k == ixInt && to.k == ixInt:
		return x
	case from.k == ixInt && to.k == ixUns:
		return fmt.Sprintf("intToU %d %s", to.bits, ixParen(x))
	case from.k == ixUns && to.k == ixInt:
		return "Int.ofNat " + ixParen(x)
	case from.k == ixUns && to.k == ixUns:
		if to.bits >= from.bits {
			return x
		}
		return fmt.Sprintf("%s %% %s", ixParen(x), ixPow2(to.bits))
	}
	ixFail("conversion between these types")
	return ""
}

func ixPow2(bits int) string {
	switch bits {
	case 8:
		return "256"
	case 16:
		return "65536"
	case 32:
		return "4294967296"
	}
	return "18446744073709551616"
}

func (tr *ixTr) fnResultTy(f *ixFn) ixTy {
	var ts []ixTy
	for _, r := range f.results {
		ts = append(ts, r.ty)
	}
	switch len(ts) {
	case 0:
		return ixTy{k: ixUnit}
	case 1:
		return ts[0]
	}
	return ixTy{k: ixTuple, elems: ts}
}

// callText: the application of a translated function (without the handling of its result).
func (tr *ixTr) callText(f *ixFn, recv string, args []ast.Expr, env ixEnv, bs *[]ixBind, pre map[int]string) string {
	if f.err != "" {
		ixFail("calls %s, which is not recognised", f.key)
	}
	parts := []string{f.name, "ops"}
	if f.fuel {
		if !tr.fn.fuel {
			ixFail("internal: fuel not propagated to %s", tr.fn.key)
		}
		parts = append(parts, "fuel")
	}
	if f.recv != "" {
		parts = append(parts, ixParen(recv))
	}
	if len(args) != len(f.params) {
		ixFail("argument count in call of %s", f.key)
	}
	for i, a := range args {
		if f.params[i].ty.k == ixIter {
			id, ok := a.(*ast.Ident)
			if !ok || env[id.Name] == nil || env[id.Name].ty.k != ixIter {
				ixFail("callback argument is not the callback parameter")
			}
			parts = append(parts, "iter", ixSt)
			continue
		}
		if pre != nil && pre[i] != "" {
			parts = append(parts, ixParen(pre[i]))
			continue
		}
		s, t := tr.expr(a, env, bs, f.params[i].ty)
		s, t = tr.coerce(s, t, f.params[i].ty)
		if !t.same(f.params[i].ty) {
			ixFail("argument %d of %s has another type", i, f.key)
		}
		parts = append(parts, ixParen(s))
	}
	return strings.Join(parts, " ")
}

func (tr *ixTr) extOp(tyName, short string, recvTy ixTy, m string, recv string, args []ast.Expr, env ixEnv, bs *[]ixBind) (string, ixTy) {
	fd := tr.p.funcs[tyName+"."+m]
	if fd == nil {
		ixFail("unknown method %s.%s", tyName, m)
	}
	sig := []string{recvTy.lean()}
	parts := []string{"", ixParen(recv)}
	i := 0
	for _, f := range fd.Type.Params.List {
		for range f.Names {
			pt := tr.p.typeOf(f.Type)
			if pt.k == ixBad || i >= len(args) {
				ixFail("signature of %s.%s", tyName, m)
			}
			s, t := tr.expr(args[i], env, bs, pt)
			if !t.same(pt) {
				ixFail("argument of %s.%s has another type", tyName, m)
			}
			sig = append(sig, ixAtom(pt.lean()))
			parts = append(parts, ixParen(s))
			i++
		}
	}
	if fd.Type.Results == nil || len(fd.Type.Results.List) != 1 {
		ixFail("result of %s.%s", tyName, m)
	}
	rt := tr.p.typeOf(fd.Type.Results.List[0].Type)
	if rt.k == ixBad {
		ixFail("result type of %s.%s", tyName, m)
	}
	sig = append(sig, ixAtom(rt.lean()))
	fdc := *fd
	fdc.Body, fdc.Doc = nil, nil
	parts[0] = tr.op(short+m, strings.Join(sig, " → "), fmt.Sprintf("Go: `%s` — %s", ixSrc(tr.p.fset, &fdc), tr.p.where(fd.Pos())))
	return strings.Join(parts, " "), rt
}

func (tr *ixTr) call(e *ast.CallExpr, env ixEnv, bs *[]ixBind, want ixTy) (string, ixTy) {
	switch fun := e.Fun.(type) {
	case *ast.Ident:
		if to, ok := ixConv[fun.Name]; ok && len(e.Args) == 1 && env[fun.Name] == nil {
			if tr.isLit(e.Args[0]) {
				return tr.lit(e.Args[0], to)
			}
			x, from := tr.expr(e.Args[0], env, bs, ixTy{})
			return tr.convert(x, from, to), to
		}
		if v, ok := env[fun.Name]; ok && v.ty.k == ixIter {
			if len(e.Args) != len(v.ty.elems) {
				ixFail("arguments of the callback")
			}
			call := "iter " + ixSt
			for i, a := range e.Args {
				x, t := tr.expr(a, env, bs, v.ty.elems[i])
				if !t.same(v.ty.elems[i]) {
					ixFail("arguments of the callback")
				}
				call += " " + ixParen(x)
			}
			r := tr.fresh("c")
			*bs = append(*bs, ixBind{"(" + ixSt + ", " + r + ")", call, false})
			return r, ixTy{k: ixBool}
		}
		switch fun.Name {
		case "len":
			if els, _, ok := tr.arrayElems(e.Args[0], env, &[]ixBind{}); ok {
				return fmt.Sprintf("%d", len(els)), ixTy{k: ixInt}
			}
			x, t := tr.expr(e.Args[0], env, bs, ixTy{})
			switch t.k {
			case ixList:
				return "Int.ofNat " + ixParen(x) + ".length", ixTy{k: ixInt}
			case ixBytes:
				return tr.op("bytesLen", "D → Int", "Go: `len(b)` of a []byte") + " " + ixParen(x), ixTy{k: ixInt}
			}
			ixFail("len of this type")
		case "append":
			x, t := tr.expr(e.Args[0], env, bs, ixTy{})
			if e.Ellipsis.IsValid() {
				y, ty := tr.expr(e.Args[1], env, bs, ixTy{})
				if t.k != ixBytes || ty.k != ixBytes || len(e.Args) != 2 {
					ixFail("append with ... at this type")
				}
				return tr.op("bytesAppendSlice", "D → D → D", "Go: `append(b, c...)` on []byte") + " " + ixParen(x) + " " + ixParen(y), ixTy{k: ixBytes}
			}
			var el ixTy
			switch t.k {
			case ixList:
				el = *t.elem
			case ixBytes:
				el = ixTy{k: ixUns, bits: 8}
			default:
				ixFail("append to this type")
			}
			var xs []string
			for _, a := range e.Args[1:] {
				s, ta := tr.expr(a, env, bs, el)
				if !ta.same(el) {
					ixFail("appended element has another type")
				}
				xs = append(xs, s)
			}
			lst := "[" + strings.Join(xs, ", ") + "]"
			if t.k == ixList {
				return "(" + ixParen(x) + " ++ " + lst + ")", t
			}
			return tr.op("bytesAppend", "D → List Nat → D", "Go: `append(b, x…)` on a []byte") + " " + ixParen(x) + " " + lst, t
		case "new":
			t := tr.p.typeOf(e.Args[0])
			if t.k == ixStruct && tr.p.structs[t.name].linked {
				return tr.newNode(t.name), ixTy{k: ixPtr, name: t.name}
			}
			if t.k == ixStruct {
				return tr.zero(t), t
			}
			ixFail("new of this type")
		case "make":
			t := tr.p.typeOf(e.Args[0])
			if t.k == ixList && len(e.Args) == 2 {
				n, _ := tr.expr(e.Args[1], env, bs, ixTy{k: ixInt})
				return "(List.replicate " + ixParen(n) + ".toNat " + tr.zero(*t.elem) + ")", t
			}
			ixFail("make of this type")
		}
		if f, ok := tr.fns[fun.Name]; ok {
			return tr.callResult(f, tr.callText(f, "", e.Args, env, bs, nil), bs)
		}
		ixFail("call of unknown function %s", fun.Name)
	case *ast.SelectorExpr:
		return tr.selCall(e, fun, env, bs)
	}
	ixFail("call %s", ixSrc(tr.p.fset, e))
	return "", ixTy{}
}

// callResult binds the result of a non-mutating translated call and returns the value.
func (tr *ixTr) callResult(f *ixFn, text string, bs *[]ixBind) (string, ixTy) {
	if f.mutates {
		ixFail("call of the mutator %s in an expression", f.key)
	}
	rt := tr.fnResultTy(f)
	if !f.partial && !f.hasIter {
		return text, rt
	}
	r := tr.fresh("r")
	pat := r
	if f.hasIter {
		pat = "(" + ixSt + ", " + r + ")"
		if len(f.results) == 0 {
			pat, r = ixSt, "()"
		}
	}
	*bs = append(*bs, ixBind{pat, text, f.partial})
	return r, rt
}

func ixPkgSel(e ast.Expr) string {
	switch e := e.(type) {
	case *ast.Ident:
		return e.Name
	case *ast.SelectorExpr:
		return ixPkgSel(e.X) + "." + e.Sel.Name
	}
	return "?"
}

func (tr *ixTr) selCall(e *ast.CallExpr, fun *ast.SelectorExpr, env ixEnv, bs *[]ixBind) (string, ixTy) {
	full := ixPkgSel(fun)
	root := strings.SplitN(full, ".", 2)[0]
	if (root == "binary" || root == "math") && env[root] == nil {
		switch full {
		case "binary.LittleEndian.Uint16", "binary.LittleEndian.Uint32", "binary.LittleEndian.Uint64":
			bits, _ := strconv.Atoi(strings.TrimPrefix(fun.Sel.Name, "Uint"))
			x, t := tr.expr(e.Args[0], env, bs, ixTy{})
			if t.k != ixBytes {
				ixFail("%s of a non-[]byte", full)
			}
			v := tr.fresh("u")
			*bs = append(*bs, ixBind{v, tr.op("le"+fun.Sel.Name, "D → Option Nat", fmt.Sprintf("Go: `%s(b)`; none = fewer than %d bytes (a Go panic)", full, bits/8)) + " " + ixParen(x), true})
			return v, ixTy{k: ixUns, bits: bits}
		case "math.Float64frombits":
			x, t := tr.expr(e.Args[0], env, bs, ixTy{})
			if t.k != ixUns || t.bits != 64 {
				ixFail("argument of %s", full)
			}
			return tr.op("float64frombits", "Nat → F", "Go: `math.Float64frombits(u)`") + " " + ixParen(x), ixTy{k: ixFloat}
		case "math.Float64bits":
			x, t := tr.expr(e.Args[0], env, bs, ixTy{})
			if t.k != ixFloat {
				ixFail("argument of %s", full)
			}
			return tr.op("float64bits", "F → Nat", "Go: `math.Float64bits(f)`") + " " + ixParen(x), ixTy{k: ixUns, bits: 64}
		}
		ixFail("call of %s", full)
	}
	// a method call x.m(args)
	var rt ixTy
	var recv string
	if v := tr.place(fun.X, env); v != nil && v.ty.k != ixArr {
		recv, rt = tr.whole(v), v.ty
	} else {
		recv, rt = tr.expr(fun.X, env, bs, ixTy{})
	}
	m := fun.Sel.Name
	switch rt.k {
	case ixPtr, ixStruct:
		if f, ok := tr.fns[rt.name+"."+m]; ok {
			return tr.callResult(f, tr.callText(f, recv, e.Args, env, bs, nil), bs)
		}
		if rt.k == ixStruct {
			return tr.extOp(rt.name, ixLow(rt.name), rt, m, recv, e.Args, env, bs)
		}
	case ixSeries:
		return tr.extOp("baseSeries", "series", rt, m, recv, e.Args, env, bs)
	case ixSeg:
		return tr.extOp("Segment", "seg", rt, m, recv, e.Args, env, bs)
	}
	ixFail("method call %s", ixSrc(tr.p.fset, e))
	return "", ixTy{}
}

func (tr *ixTr) assert(e *ast.TypeAssertExpr, env ixEnv, bs *[]ixBind) (string, ixTy) {
	if e.Type == nil {
		ixFail("type switch")
	}
	x, t := tr.expr(e.X, env, bs, ixTy{})
	if t.k != ixIface {
		ixFail("type assertion %s on a non-interface", ixSrc(tr.p.fset, e))
	}
	to := tr.p.typeOf(e.Type)
	v := tr.fresh("dn")
	*bs = append(*bs, ixBind{v, "Dyn.as" + ixUp(tr.dynCtor(to)) + " " + ixParen(x), true})
	return v, to
}

// ---------------------------------------------------------------------------------------------
// variables

var ixReserved = map[string]bool{"at": true, "from": true, "end": true, "fun": true, "let": true, "do": true,
	"then": true, "else": true, "if": true, "match": true, "with": true, "in": true, "have": true, "show": true,
	"by": true, "mut": true, "open": true, "ops": true, "fuel": true, "iter": true, "where": true, "for": true,
	"return": true, "break": true, "continue": true, "instance": true, "structure": true, "class": true,
	"some": true, "none": true, "true": true, "false": true, "Type": true, "F": true, "S": true, "D": true, "SR": true}

func (tr *ixTr) declare(env ixEnv, goName string, ty ixTy) *ixVar {
	lean := goName
	if ixReserved[lean] {
		lean += "_"
	}
	for clash := true; clash; {
		clash = false
		if _, isFn := tr.fns[lean]; isFn {
			clash = true
		}
		if _, isC := tr.p.consts[lean]; isC {
			clash = true
		}
		for _, v := range env {
			if v.lean == lean {
				clash = true
			}
			for _, el := range v.elems {
				if el == lean {
					clash = true
				}
			}
		}
		if clash {
			lean += "_1"
		}
	}
	v := &ixVar{lean: lean, ty: ty}
	if ty.k == ixArr {
		for i := 0; i < ty.n; i++ {
			v.elems = append(v.elems, fmt.Sprintf("%s%d", lean, i))
		}
	}
	if goName != "_" {
		env[goName] = v
	}
	return v
}

// openView destructures a value of struct sname into field variables prefix_field.
func (tr *ixTr) openView(prefix, sname string) *ixVar {
	sd := tr.p.structs[sname]
	v := &ixVar{lean: prefix, sname: sname}
	if sd.linked {
		v.ty = ixTy{k: ixPtr, name: sname}
	} else {
		v.ty = ixTy{k: ixStruct, name: sname}
	}
	for _, f := range sd.fields {
		fv := &ixVar{lean: prefix + "_" + f.name, ty: f.ty}
		if f.ty.k == ixArr {
			for i := 0; i < f.ty.n; i++ {
				fv.elems = append(fv.elems, fmt.Sprintf("%s_%s%d", prefix, f.name, i))
			}
		}
		v.view = append(v.view, fv)
	}
	return v
}

// viewPat: the constructor pattern binding all field variables of a view.
func (tr *ixTr) viewPat(v *ixVar) string {
	parts := []string{"." + "mk"}
	for _, f := range v.view {
		if f.ty.k == ixArr {
			parts = append(parts, f.elems...)
		} else if f.view != nil {
			parts = append(parts, "("+tr.viewPat(f)+")")
		} else {
			parts = append(parts, f.lean)
		}
	}
	return strings.Join(parts, " ")
}

func ixTup(xs []string) string {
	switch len(xs) {
	case 0:
		return "()"
	case 1:
		return xs[0]
	}
	return "(" + strings.Join(xs, ", ") + ")"
}

// assignTo: binds storing val into the place lhs denotes.
func (tr *ixTr) assignTo(lhs ast.Expr, val string, vt ixTy, env ixEnv, bs *[]ixBind) {
	if id, ok := lhs.(*ast.Ident); ok && id.Name == "_" {
		return
	}
	if id, ok := lhs.(*ast.Ident); ok && env[id.Name] != nil && env[id.Name].alias != nil {
		tr.assignTo(env[id.Name].alias, val, vt, env, bs)
		return
	}
	if id, ok := lhs.(*ast.Ident); ok && env[id.Name] != nil && env[id.Name].lens != nil && len(env[id.Name].lens.steps) > 0 {
		tr.lensSet(env[id.Name].lens, val, env, bs)
		return
	}
	if st, ok := lhs.(*ast.StarExpr); ok {
		tr.assignTo(st.X, val, vt, env, bs)
		return
	}
	if v := tr.place(lhs, env); v != nil {
		if v.ty.k == ixArr {
			ixFail("assignment to a whole array")
		}
		if !v.ty.same(vt) {
			ixFail("assignment to %s of a value of another type", ixSrc(tr.p.fset, lhs))
		}
		if v.konst {
			ixFail("assignment to an unrolled loop variable")
		}
		if v.view != nil {
			pat := ixDestruct + tr.viewPat(v)
			tr.refutable[pat] = tr.p.structs[v.sname].linked
			*bs = append(*bs, ixBind{pat: pat, rhs: val})
			return
		}
		*bs = append(*bs, ixBind{pat: v.lean, rhs: val})
		return
	}
	switch l := lhs.(type) {
	case *ast.IndexExpr:
		if v := tr.place(l.X, env); v != nil {
			switch v.ty.k {
			case ixArr:
				if !v.ty.elem.same(vt) {
					ixFail("array element of another type")
				}
				if k, ok := tr.constIndex(l.Index, env); ok {
					if k < 0 || int(k) >= v.ty.n {
						ixFail("constant index out of range")
					}
					*bs = append(*bs, ixBind{pat: v.elems[k], rhs: val})
					return
				}
				i, _ := tr.expr(l.Index, env, bs, ixTy{k: ixInt})
				*bs = append(*bs, ixBind{pat: ixTup(v.elems), rhs: fmt.Sprintf("arrSet%d %s %s %s", v.ty.n, strings.Join(v.elems, " "), ixParen(i), ixParen(val)), monadic: true})
				return
			case ixList:
				if !v.ty.elem.same(vt) {
					ixFail("list element of another type")
				}
				i, _ := tr.expr(l.Index, env, bs, ixTy{k: ixInt})
				*bs = append(*bs, ixBind{pat: v.lean, rhs: "listSet " + v.lean + " " + ixParen(i) + " " + ixParen(val), monadic: true})
				return
			}
		}
	}
	// a field path of a plain struct variable: root.f.g = val (structure update syntax)
	if tr.plainPath(lhs, env) {
		var path []string
		cur := lhs
		for tr.place(cur, env) == nil {
			switch c := cur.(type) {
			case *ast.SelectorExpr:
				path = append([]string{ixLow(c.Sel.Name)}, path...)
				cur = c.X
			case *ast.IndexExpr:
				se := c.X.(*ast.SelectorExpr)
				k, _ := tr.constIndex(c.Index, env)
				path = append([]string{fmt.Sprintf("%s%d", ixLow(se.Sel.Name), k)}, path...)
				cur = se.X
			}
		}
		root := tr.place(cur, env)
		var upd func(base string, path []string) string
		upd = func(base string, path []string) string {
			if len(path) == 1 {
				return "{ " + base + " with " + path[0] + " := " + val + " }"
			}
			return "{ " + base + " with " + path[0] + " := " + upd(base+"."+path[0], path[1:]) + " }"
		}
		tr.assignTo(cur, upd(tr.whole(root), path), root.ty, env, bs)
		return
	}
	l := tr.lensOf(lhs, env, bs)
	if !l.ty().same(vt) {
		ixFail("assignment to %s of a value of another type", ixSrc(tr.p.fset, lhs))
	}
	tr.lensSet(l, val, env, bs)
}

// plainPath: lhs is root.f.g / root.f[k] over structures outside the mutual block
func (tr *ixTr) plainPath(lhs ast.Expr, env ixEnv) bool {
	cur := lhs
	for n := 0; ; n++ {
		if v := tr.place(cur, env); v != nil {
			return n > 0 && v.ty.k == ixStruct && !ixMutual[v.ty.name]
		}
		switch c := cur.(type) {
		case *ast.SelectorExpr:
			cur = c.X
		case *ast.IndexExpr:
			se, ok := c.X.(*ast.SelectorExpr)
			if !ok {
				return false
			}
			if _, ok := tr.constIndex(c.Index, env); !ok {
				return false
			}
			cur = se.X
		default:
			return false
		}
	}
}

// ---------------------------------------------------------------------------------------------
// which outer variables does a statement list assign?

type ixSlot struct {
	lean string
	ty   ixTy
}

type ixScan struct {
	tr     *ixTr
	env    ixEnv
	out    []ixSlot
	seen   map[string]bool
	shadow map[string]int
	alias  map[string]ast.Expr
	escape bool // contains return / break / continue that leaves the list
	ret    bool // contains a return
	branch bool // contains a break / continue that leaves the list
}

func (sc *ixScan) add(lean string, ty ixTy) {
	if !sc.seen[lean] {
		sc.seen[lean] = true
		sc.out = append(sc.out, ixSlot{lean, ty})
	}
}

func (sc *ixScan) addDeep(v *ixVar) {
	switch {
	case v.view != nil:
		for _, f := range v.view {
			sc.addDeep(f)
		}
	case v.ty.k == ixArr:
		for _, el := range v.elems {
			sc.add(el, *v.ty.elem)
		}
	default:
		if !v.konst {
			sc.add(v.lean, v.ty)
		}
	}
}

func ixRootIdent(e ast.Expr) *ast.Ident {
	for {
		switch x := e.(type) {
		case *ast.Ident:
			return x
		case *ast.SelectorExpr:
			e = x.X
		case *ast.IndexExpr:
			e = x.X
		case *ast.StarExpr:
			e = x.X
		case *ast.ParenExpr:
			e = x.X
		case *ast.SliceExpr:
			e = x.X
		case *ast.TypeAssertExpr:
			e = x.X
		case *ast.UnaryExpr:
			e = x.X
		default:
			return nil
		}
	}
}

func (sc *ixScan) target(e ast.Expr) {
	for depth := 0; depth < 20; depth++ {
		id := ixRootIdent(e)
		if id == nil {
			return
		}
		if a, ok := sc.alias[id.Name]; ok {
			e = a // every store through a local alias is a store to its path
			continue
		}
		if sc.shadow[id.Name] > 0 {
			return
		}
		v := sc.env[id.Name]
		if v == nil {
			return
		}
		if v.alias != nil {
			e = v.alias
			continue
		}
		if v.lens != nil {
			sc.addDeep(v.lens.root)
			return
		}
		for {
			if p := sc.tr.place(e, sc.env); p != nil {
				sc.addDeep(p)
				return
			}
			switch x := e.(type) {
			case *ast.SelectorExpr:
				e = x.X
			case *ast.IndexExpr:
				e = x.X
			case *ast.StarExpr:
				e = x.X
			case *ast.ParenExpr:
				e = x.X
			case *ast.SliceExpr:
				e = x.X
			case *ast.TypeAssertExpr:
				e = x.X
			case *ast.UnaryExpr:
				e = x.X
			default:
				return
			}
		}
	}
}

func (sc *ixScan) mutatorName(m string) bool {
	for _, f := range sc.tr.fns {
		if f.mutates && strings.HasSuffix(f.key, "."+m) {
			return true
		}
	}
	return false
}

func (sc *ixScan) exprs(n ast.Node) {
	if n == nil {
		return
	}
	ast.Inspect(n, func(x ast.Node) bool {
		c, ok := x.(*ast.CallExpr)
		if !ok {
			return true
		}
		for _, a := range c.Args {
			if u, ok := a.(*ast.UnaryExpr); ok && u.Op == token.AND {
				sc.target(u.X)
			}
		}
		switch f := c.Fun.(type) {
		case *ast.Ident:
			if v := sc.env[f.Name]; v != nil && v.ty.k == ixIter && sc.shadow[f.Name] == 0 {
				sc.add(ixSt, ixTy{})
			}
			if g := sc.tr.fns[f.Name]; g != nil && g.hasIter {
				sc.add(ixSt, ixTy{})
			}
		case *ast.SelectorExpr:
			if strings.HasPrefix(ixPkgSel(f), "binary.LittleEndian.Put") && len(c.Args) > 0 {
				sc.target(c.Args[0])
			} else if sc.mutatorName(f.Sel.Name) {
				sc.target(f.X)
			}
			for _, g := range sc.tr.fns {
				if g.hasIter && strings.HasSuffix(g.key, "."+f.Sel.Name) {
					sc.add(ixSt, ixTy{})
				}
			}
		}
		return true
	})
}

func (sc *ixScan) stmts(list []ast.Stmt, loopDepth int) {
	var declared []string
	decl := func(name string) {
		sc.shadow[name]++
		declared = append(declared, name)
	}
	for _, s := range list {
		switch s := s.(type) {
		case *ast.AssignStmt:
			for _, r := range s.Rhs {
				sc.exprs(r)
			}
			if s.Tok == token.DEFINE {
				for i, l := range s.Lhs {
					id := l.(*ast.Ident)
					if len(s.Lhs) == len(s.Rhs) {
						r := s.Rhs[i]
						if u, ok := r.(*ast.UnaryExpr); ok && u.Op == token.AND {
							sc.alias[id.Name] = u.X
							continue
						}
						if ta, ok := r.(*ast.TypeAssertExpr); ok {
							if _, isPtr := ta.Type.(*ast.StarExpr); isPtr {
								sc.alias[id.Name] = r
								continue
							}
						}
						if rid, ok := r.(*ast.Ident); ok && sc.tr.isRefType(rid, sc) {
							sc.alias[id.Name] = r
							continue
						}
					}
					decl(id.Name)
				}
			} else {
				for _, l := range s.Lhs {
					sc.exprs(l)
					sc.target(l)
				}
			}
		case *ast.IncDecStmt:
			sc.target(s.X)
		case *ast.ExprStmt:
			sc.exprs(s.X)
		case *ast.DeclStmt:
			if gd, ok := s.Decl.(*ast.GenDecl); ok {
				for _, sp := range gd.Specs {
					if vs, ok := sp.(*ast.ValueSpec); ok {
						for _, v := range vs.Values {
							sc.exprs(v)
						}
						for _, n := range vs.Names {
							decl(n.Name)
						}
					}
				}
			}
		case *ast.ReturnStmt:
			for _, r := range s.Results {
				sc.exprs(r)
			}
			sc.escape, sc.ret = true, true
		case *ast.BranchStmt:
			if loopDepth == 0 {
				sc.escape, sc.branch = true, true
			}
		case *ast.BlockStmt:
			sc.stmts(s.List, loopDepth)
		case *ast.IfStmt:
			inner := []ast.Stmt{}
			if s.Init != nil {
				inner = append(inner, s.Init)
			}
			sc.exprs(s.Cond)
			inner = append(inner, s.Body)
			if s.Else != nil {
				inner = append(inner, s.Else)
			}
			sc.stmts(inner, loopDepth)
		case *ast.SwitchStmt:
			sc.exprs(s.Tag)
			for _, c := range s.Body.List {
				cc := c.(*ast.CaseClause)
				for _, e := range cc.List {
					sc.exprs(e)
				}
				sc.stmts([]ast.Stmt{&ast.BlockStmt{List: cc.Body}}, loopDepth)
			}
		case *ast.ForStmt:
			inner := []ast.Stmt{}
			if s.Init != nil {
				inner = append(inner, s.Init)
			}
			sc.exprs(s.Cond)
			inner = append(inner, s.Body)
			if s.Post != nil {
				inner = append(inner, s.Post)
			}
			sc.stmts(inner, loopDepth+1)
		case *ast.RangeStmt:
			sc.exprs(s.X)
			inner := []ast.Stmt{}
			if s.Tok == token.DEFINE {
				var lhs []ast.Expr
				if s.Key != nil {
					lhs = append(lhs, s.Key)
				}
				if s.Value != nil {
					lhs = append(lhs, s.Value)
				}
				rhs := []ast.Expr{}
				for range lhs {
					rhs = append(rhs, &ast.BasicLit{Kind: token.INT, Value: "0"})
				}
				inner = append(inner, &ast.AssignStmt{Lhs: lhs, Tok: token.DEFINE, Rhs: rhs})
			}
			inner = append(inner, s.Body)
			sc.stmts(inner, loopDepth+1)
		}
	}
	for _, n := range declared {
		sc.shadow[n]--
	}
}

// isRefType: an identifier denoting a pointer the translation treats as an alias (`left := r`).
func (tr *ixTr) isRefType(id *ast.Ident, sc *ixScan) bool {
	if v := sc.env[id.Name]; v != nil && sc.shadow[id.Name] == 0 {
		return v.view != nil || v.alias != nil || v.lens != nil
	}
	_, ok := sc.alias[id.Name]
	return ok
}

func (tr *ixTr) scan(list []ast.Stmt, env ixEnv) *ixScan {
	sc := &ixScan{tr: tr, env: env, seen: map[string]bool{}, shadow: map[string]int{}, alias: map[string]ast.Expr{}}
	sc.stmts(list, 0)
	return sc
}

// ---------------------------------------------------------------------------------------------
// statements (continuation style)

type ixK func(env ixEnv) *ixNode

func (tr *ixTr) stmts(list []ast.Stmt, env ixEnv, cx *ixCtx, k ixK, tail bool) *ixNode {
	if len(list) == 0 {
		return k(env)
	}
	rest := list[1:]
	next := func(env ixEnv) *ixNode { return tr.stmts(rest, env, cx, k, tail) }
	return tr.stmt(list[0], env, cx, next, tail && len(rest) == 0)
}

func (tr *ixTr) block(b *ast.BlockStmt, env ixEnv, cx *ixCtx, k ixK, tail bool) *ixNode {
	return tr.stmts(b.List, env.clone(), cx, k, tail)
}

func ixFalls(list []ast.Stmt) bool {
	if len(list) == 0 {
		return true
	}
	switch s := list[len(list)-1].(type) {
	case *ast.ReturnStmt, *ast.BranchStmt:
		return false
	case *ast.BlockStmt:
		return ixFalls(s.List)
	case *ast.IfStmt:
		if s.Else == nil {
			return true
		}
		return ixFalls(s.Body.List) || ixFalls([]ast.Stmt{s.Else})
	case *ast.ExprStmt:
		if c, ok := s.X.(*ast.CallExpr); ok {
			if id, ok := c.Fun.(*ast.Ident); ok && id.Name == "panic" {
				return false
			}
		}
	}
	return true
}

func (tr *ixTr) stmt(s ast.Stmt, env ixEnv, cx *ixCtx, next ixK, tail bool) *ixNode {
	switch s := s.(type) {
	case *ast.BlockStmt:
		return tr.block(s, env, cx, func(ixEnv) *ixNode { return next(env) }, tail)
	case *ast.EmptyStmt:
		return next(env)
	case *ast.ReturnStmt:
		var bs []ixBind
		var vals []string
		if len(s.Results) == 0 {
			for _, r := range tr.fn.results {
				if r.name == "" {
					ixFail("bare return without named results")
				}
				v, _ := tr.expr(ast.NewIdent(r.name), env, &bs, r.ty)
				vals = append(vals, v)
			}
		} else {
			if len(s.Results) != len(tr.fn.results) {
				ixFail("return of a multi-valued call")
			}
			for i, r := range s.Results {
				v, t := tr.expr(r, env, &bs, tr.fn.results[i].ty)
				if !t.same(tr.fn.results[i].ty) {
					ixFail("returned value has another type")
				}
				vals = append(vals, v)
			}
		}
		return tr.wrap(bs, cx.retWrap(tr.retVal(env, vals)))
	case *ast.BranchStmt:
		if s.Label != nil {
			ixFail("labelled %s", s.Tok)
		}
		if s.Tok == token.CONTINUE && cx.cont != nil {
			return cx.cont(env)
		}
		if s.Tok == token.BREAK && cx.brk != nil {
			return cx.brk(env)
		}
		ixFail("%s outside a loop", s.Tok)
	case *ast.IncDecStmt:
		op := token.ADD
		if s.Tok == token.DEC {
			op = token.SUB
		}
		return tr.assign(&ast.AssignStmt{Lhs: []ast.Expr{s.X}, Tok: token.ASSIGN, Rhs: []ast.Expr{
			&ast.BinaryExpr{X: s.X, Op: op, Y: &ast.BasicLit{Kind: token.INT, Value: "1"}}}}, env, next)
	case *ast.AssignStmt:
		return tr.assign(s, env, next)
	case *ast.DeclStmt:
		gd, ok := s.Decl.(*ast.GenDecl)
		if !ok || gd.Tok != token.VAR {
			ixFail("declaration statement")
		}
		var bs []ixBind
		for _, sp := range gd.Specs {
			vs := sp.(*ast.ValueSpec)
			for i, n := range vs.Names {
				var ty ixTy
				if vs.Type != nil {
					ty = tr.p.typeOf(vs.Type)
					if ty.k == ixBad {
						ixFail("type of variable %s", n.Name)
					}
				}
				if len(vs.Values) > 0 {
					val, vt := tr.expr(vs.Values[i], env, &bs, ty)
					v := tr.declare(env, n.Name, vt)
					bs = append(bs, ixBind{pat: v.lean + " : " + vt.lean(), rhs: val})
					continue
				}
				v := tr.declare(env, n.Name, ty)
				if ty.k == ixArr {
					for _, el := range v.elems {
						bs = append(bs, ixBind{pat: el + " : " + ty.elem.lean(), rhs: tr.zero(*ty.elem)})
					}
				} else {
					bs = append(bs, ixBind{pat: v.lean + " : " + ty.lean(), rhs: tr.zero(ty)})
				}
			}
		}
		return tr.wrap(bs, next(env))
	case *ast.ExprStmt:
		return tr.exprStmt(s, env, next)
	case *ast.IfStmt:
		return tr.ifStmt(s, env, cx, next, tail)
	case *ast.SwitchStmt:
		return tr.switchStmt(s, env, cx, next, tail)
	case *ast.ForStmt:
		return tr.forStmt(s, env, cx, next)
	case *ast.RangeStmt:
		return tr.rangeStmt(s, env, cx, next)
	}
	ixFail("statement %s", ixSrc(tr.p.fset, s))
	return nil
}

// retVal: the value a `return vals` produces (receiver and callback state included).
func (tr *ixTr) retVal(env ixEnv, vals []string) string {
	var parts []string
	if tr.fn.mutates {
		parts = append(parts, tr.whole(env[tr.fn.recv]))
	}
	for _, k := range tr.fn.outs {
		parts = append(parts, tr.whole(tr.outVars[k]))
	}
	if tr.fn.hasIter {
		parts = append(parts, ixSt)
	}
	parts = append(parts, vals...)
	return ixTup(parts)
}

func (tr *ixTr) some(v string) string {
	if tr.fn.partial {
		return "some " + ixParen(v)
	}
	return v
}

func (tr *ixTr) exprStmt(s *ast.ExprStmt, env ixEnv, next ixK) *ixNode {
	c, ok := s.X.(*ast.CallExpr)
	if !ok {
		ixFail("expression statement %s", ixSrc(tr.p.fset, s))
	}
	if id, ok := c.Fun.(*ast.Ident); ok && id.Name == "panic" {
		tr.sawMon = true
		return ixLeaf("none")
	}
	var bs []ixBind
	if se, ok := c.Fun.(*ast.SelectorExpr); ok {
		full := ixPkgSel(se)
		if strings.HasPrefix(full, "binary.LittleEndian.Put") && env["binary"] == nil {
			// PutUintNN(b[lo:], v) writes through the slice into b
			sl, ok := c.Args[0].(*ast.SliceExpr)
			if !ok || sl.High != nil || sl.Slice3 {
				ixFail("first argument of %s is not b[lo:]", full)
			}
			dv := tr.place(sl.X, env)
			if dv == nil || dv.ty.k != ixBytes {
				ixFail("first argument of %s is not a slice of a []byte variable", full)
			}
			lo := "0"
			if sl.Low != nil {
				lo, _ = tr.expr(sl.Low, env, &bs, ixTy{k: ixInt})
			}
			bits, _ := strconv.Atoi(strings.TrimPrefix(se.Sel.Name, "PutUint"))
			v, vt := tr.expr(c.Args[1], env, &bs, ixTy{k: ixUns, bits: bits})
			if vt.k != ixUns || vt.bits != bits {
				ixFail("second argument of %s", full)
			}
			o := tr.op("put"+strings.TrimPrefix(se.Sel.Name, "Put"), "D → Int → Nat → Option D", fmt.Sprintf("Go: `%s(b[lo:], v)`: the op returns the new b; none = fewer than %d bytes follow lo (a Go panic)", full, bits/8))
			bs = append(bs, ixBind{dv.lean, o + " " + dv.lean + " " + ixParen(lo) + " " + ixParen(v), true})
			return tr.wrap(bs, next(env))
		}
	}
	if tr.mutCall(c, nil, false, env, &bs) {
		return tr.wrap(bs, next(env))
	}
	tr.expr(c, env, &bs, ixTy{})
	return tr.wrap(bs, next(env))
}

// calleeOf: the translated function a call denotes, with its receiver expression.
func (tr *ixTr) calleeOf(c *ast.CallExpr, env ixEnv) (*ixFn, ast.Expr) {
	switch f := c.Fun.(type) {
	case *ast.Ident:
		if env[f.Name] == nil {
			return tr.fns[f.Name], nil
		}
	case *ast.SelectorExpr:
		root := ixRootIdent(f.X)
		if root == nil || env[root.Name] == nil {
			return nil, nil
		}
		var sink []ixBind
		var t ixTy
		if v := tr.place(f.X, env); v != nil && v.ty.k != ixArr {
			t = v.ty
		} else {
			_, t = tr.exprTry(f.X, env, &sink)
		}
		if t.k == ixPtr || t.k == ixStruct {
			return tr.fns[t.name+"."+f.Sel.Name], f.X
		}
	}
	return nil, nil
}

// mutCall: a call of a translated mutator  path.m(args)  or of a function with out-parameters
// f(…, &path);  lhs receive the results.  Reports false when c is no such call.
func (tr *ixTr) mutCall(c *ast.CallExpr, lhs []ast.Expr, define bool, env ixEnv, bs *[]ixBind) bool {
	f, recvE := tr.calleeOf(c, env)
	if f == nil || (!f.mutates && len(f.outs) == 0) {
		return false
	}
	if f.hasIter {
		ixFail("a mutator with a callback")
	}
	var recv string
	if recvE != nil {
		if v := tr.place(recvE, env); v != nil && v.ty.k != ixArr {
			recv = tr.whole(v)
		} else {
			recv, _ = tr.expr(recvE, env, bs, ixTy{})
		}
	}
	// out-parameters: the paths are fixed before the call
	pre := map[int]string{}
	outLens := map[int]*ixLens{}
	for _, k := range f.outs {
		if k >= len(c.Args) {
			ixFail("argument count in call of %s", f.key)
		}
		l := tr.lensOf(c.Args[k], env, bs)
		if !l.ty().same(f.params[k].ty) {
			ixFail("out-argument %d of %s has another type", k, f.key)
		}
		outLens[k] = l
		pre[k] = tr.lensGet(l, bs)
	}
	text := tr.callText(f, recv, c.Args, env, bs, pre)
	var pats []string
	nr := ""
	if f.mutates {
		nr = tr.fresh("nw")
		pats = append(pats, nr)
	}
	outTmp := map[int]string{}
	for _, k := range f.outs {
		outTmp[k] = tr.fresh("out")
		pats = append(pats, outTmp[k])
	}
	var rs []string
	for range f.results {
		r := tr.fresh("r")
		rs = append(rs, r)
		pats = append(pats, r)
	}
	*bs = append(*bs, ixBind{ixTup(pats), text, f.partial})
	if f.mutates {
		tr.assignTo(recvE, nr, f.recvTy, env, bs)
	}
	for _, k := range f.outs {
		tr.lensSet(outLens[k], outTmp[k], env, bs)
	}
	if len(lhs) > 0 {
		if len(lhs) != len(rs) {
			ixFail("result count of %s", f.key)
		}
		for i, l := range lhs {
			tr.store(l, rs[i], f.results[i].ty, define, env, bs)
		}
	}
	return true
}

// store: `l = val` or `l := val`
func (tr *ixTr) store(l ast.Expr, val string, vt ixTy, define bool, env ixEnv, bs *[]ixBind) {
	if id, ok := l.(*ast.Ident); ok && id.Name == "_" {
		return
	}
	if define {
		id := l.(*ast.Ident)
		if old, ok := env[id.Name]; ok && old.ty.same(vt) && tr.sameScope(id.Name, env) {
			*bs = append(*bs, ixBind{pat: old.lean, rhs: val})
			return
		}
		v := tr.declare(env, id.Name, vt)
		*bs = append(*bs, ixBind{pat: v.lean, rhs: val})
		return
	}
	tr.assignTo(l, val, vt, env, bs)
}

func (tr *ixTr) sameScope(name string, env ixEnv) bool { return false }

func (tr *ixTr) assign(s *ast.AssignStmt, env ixEnv, next ixK) *ixNode {
	var bs []ixBind
	define := s.Tok == token.DEFINE
	if s.Tok != token.ASSIGN && !define {
		// x op= e
		ops := map[token.Token]token.Token{token.ADD_ASSIGN: token.ADD, token.SUB_ASSIGN: token.SUB, token.MUL_ASSIGN: token.MUL, token.QUO_ASSIGN: token.QUO}
		op, ok := ops[s.Tok]
		if !ok || len(s.Lhs) != 1 {
			ixFail("assignment operator %s", s.Tok)
		}
		return tr.assign(&ast.AssignStmt{Lhs: s.Lhs, Tok: token.ASSIGN, Rhs: []ast.Expr{&ast.BinaryExpr{X: s.Lhs[0], Op: op, Y: s.Rhs[0]}}}, env, next)
	}
	if len(s.Rhs) == 1 {
		if c, ok := s.Rhs[0].(*ast.CallExpr); ok {
			if tr.mutCall(c, s.Lhs, define, env, &bs) {
				return tr.wrap(bs, next(env))
			}
			if f, _ := tr.calleeOf(c, env); f != nil && len(f.results) > 1 {
				// a, b := f(…)
				val, _ := tr.expr(c, env, &bs, ixTy{})
				var pats []string
				var after []ixBind
				for i, l := range s.Lhs {
					t := tr.fresh("r")
					pats = append(pats, t)
					tr.store(l, t, f.results[i].ty, define, env, &after)
				}
				bs = append(bs, ixBind{pat: ixTup(pats), rhs: val})
				bs = append(bs, after...)
				return tr.wrap(bs, next(env))
			}
		}
	}
	if len(s.Lhs) != len(s.Rhs) {
		ixFail("assignment %s", ixSrc(tr.p.fset, s))
	}
	if define && len(s.Lhs) == 1 {
		if a := tr.aliasOf(s.Rhs[0], env); a != nil {
			id := s.Lhs[0].(*ast.Ident)
			return tr.bindAlias(id.Name, a, env, next)
		}
	}
	if !define && len(s.Lhs) == 1 {
		// a whole fixed array: r.min = x.min
		if lv := tr.place(s.Lhs[0], env); lv != nil && lv.ty.k == ixArr {
			els, et, ok := tr.arrayElems(s.Rhs[0], env, &bs)
			if !ok || !et.same(*lv.ty.elem) || len(els) != lv.ty.n {
				ixFail("assignment to a whole array %s", ixSrc(tr.p.fset, s))
			}
			var tmps []string
			for _, e := range els {
				t := tr.fresh("v")
				bs = append(bs, ixBind{pat: t, rhs: e})
				tmps = append(tmps, t)
			}
			for k, t := range tmps {
				bs = append(bs, ixBind{pat: lv.elems[k], rhs: t})
			}
			return tr.wrap(bs, next(env))
		}
	}
	// evaluate all right-hand sides first (parallel assignment)
	type rv struct {
		s string
		t ixTy
	}
	var vals []rv
	for i, r := range s.Rhs {
		want := ixTy{}
		if !define {
			want = tr.lhsType(s.Lhs[i], env)
		}
		v, t := tr.expr(r, env, &bs, want)
		if t.k == ixUntyped {
			t = ixTy{k: ixInt}
		}
		if !define {
			v, t = tr.coerce(v, t, want)
		}
		if len(s.Rhs) > 1 {
			tmp := tr.fresh("v")
			bs = append(bs, ixBind{pat: tmp + " : " + t.lean(), rhs: v})
			v = tmp
		}
		vals = append(vals, rv{v, t})
	}
	for i, l := range s.Lhs {
		tr.store(l, vals[i].s, vals[i].t, define, env, &bs)
		if define {
			if c, ok := s.Rhs[i].(*ast.CallExpr); ok {
				if id, ok := c.Fun.(*ast.Ident); ok && id.Name == "new" {
					env[l.(*ast.Ident).Name].isPtr = true
				}
			}
		} else if id, ok := s.Rhs[i].(*ast.Ident); ok && env[id.Name] != nil && env[id.Name].isPtr {
			// a local pointer stored into a structure: from here on the variable denotes that place
			path := s.Lhs[i]
			if tr.lhsType(path, env).k == ixIface {
				path = &ast.TypeAssertExpr{X: path, Type: &ast.StarExpr{X: ast.NewIdent(env[id.Name].ty.name)}}
			}
			nv := &ixVar{lean: env[id.Name].lean, ty: env[id.Name].ty}
			nv.lens = tr.lensOf(path, env, &bs)
			env[id.Name] = nv
		}
	}
	return tr.wrap(bs, next(env))
}

// lhsType: the type of an assignment target (zero type when unknown).
func (tr *ixTr) lhsType(l ast.Expr, env ixEnv) ixTy {
	if v := tr.place(l, env); v != nil {
		return v.ty
	}
	var sink []ixBind
	_, t := tr.exprTry(l, env, &sink)
	return t
}

// aliasOf: is the right-hand side of `x := rhs` a reference into an existing object?
func (tr *ixTr) aliasOf(r ast.Expr, env ixEnv) ast.Expr {
	switch x := r.(type) {
	case *ast.UnaryExpr:
		if x.Op == token.AND {
			if _, isLit := x.X.(*ast.CompositeLit); !isLit {
				return x.X
			}
		}
	case *ast.TypeAssertExpr:
		if x.Type != nil {
			if t := tr.p.typeOf(x.Type); t.k == ixStruct || t.k == ixPtr {
				return r
			}
		}
	case *ast.Ident:
		if v := env[x.Name]; v != nil && (v.view != nil || v.lens != nil) {
			return r
		}
	}
	return nil
}

func (tr *ixTr) bindAlias(name string, path ast.Expr, env ixEnv, next ixK) *ixNode {
	var bs []ixBind
	l := tr.lensOf(path, env, &bs)
	if len(l.steps) > 0 && l.steps[len(l.steps)-1].kind == "assert" {
		tr.lensGet(l, &bs) // the assertion itself can panic
	}
	v := tr.declare(env, name, l.ty())
	v.lens = l
	return tr.wrap(bs, next(env))
}

// join leaves are patched once it is known whether the arms contain a monadic step
type ixJoin struct{ leaves []*ixNode }

func (j *ixJoin) k(vars []ixSlot) ixK {
	return func(ixEnv) *ixNode {
		names := []string{}
		for _, v := range vars {
			names = append(names, v.lean)
		}
		l := ixLeaf(ixTup(names))
		j.leaves = append(j.leaves, l)
		return l
	}
}

func (j *ixJoin) finish(monadic bool) {
	if monadic {
		for _, l := range j.leaves {
			l.text = "some " + ixParen(l.text)
		}
	}
}

func (n *ixNode) monadic() bool {
	if n == nil {
		return false
	}
	if n.kind == "bind" || (n.kind == "leaf" && n.text == "none") {
		return true
	}
	if n.rhsN.monadic() || n.a.monadic() || n.b.monadic() {
		return true
	}
	for _, a := range n.arms {
		if a.body.monadic() {
			return true
		}
	}
	return false
}

func (tr *ixTr) ifStmt(s *ast.IfStmt, env ixEnv, cx *ixCtx, next ixK, tail bool) *ixNode {
	env = env.clone()
	if s.Init != nil {
		return tr.stmt(s.Init, env, cx, func(e ixEnv) *ixNode {
			return tr.ifStmt(&ast.IfStmt{Cond: s.Cond, Body: s.Body, Else: s.Else}, e, cx, next, tail)
		}, false)
	}
	var bs []ixBind
	cond, ct := tr.expr(s.Cond, env, &bs, ixTy{k: ixBool})
	if ct.k != ixBool {
		ixFail("condition is not a bool")
	}
	var elseList []ast.Stmt
	if s.Else != nil {
		elseList = []ast.Stmt{s.Else}
	}
	falls := 0
	if ixFalls(s.Body.List) {
		falls++
	}
	if ixFalls(elseList) {
		falls++
	}
	sc := tr.scan(append([]ast.Stmt{s.Body}, elseList...), env)
	outer := env
	knext := func(ixEnv) *ixNode { return next(outer) }
	if tail || falls <= 1 || sc.branch {
		n := &ixNode{kind: "if", cond: cond}
		n.a = tr.block(s.Body, env, cx, knext, tail)
		n.b = tr.stmts(elseList, env.clone(), cx, knext, tail)
		return tr.wrap(bs, n)
	}
	if sc.escape && !sc.branch {
		// some arm returns: the arms produce Exit.done (assigned variables) / Exit.ret (the returned value)
		tup := ixTup(ixNames(sc.out))
		tr.sawMon = true
		cx2 := *cx
		cx2.retWrap = func(v string) *ixNode { return ixLeaf("some (Exit.ret " + ixParen(v) + ")") }
		fall := func(ixEnv) *ixNode { return ixLeaf("some (Exit.done " + tup + ")") }
		n := &ixNode{kind: "if", cond: cond}
		n.a = tr.block(s.Body, env, &cx2, fall, true)
		n.b = tr.stmts(elseList, env.clone(), &cx2, fall, true)
		ex, r := tr.fresh("ex"), tr.fresh("r")
		m := &ixNode{kind: "match", cond: ex, arms: []ixArm{{"Exit.ret " + r, cx.retWrap(r)}, {"Exit.done " + tup, next(outer)}}}
		return tr.wrap(bs, &ixNode{kind: "bind", pat: ex, rhsN: n, a: m})
	}
	j := &ixJoin{}
	n := &ixNode{kind: "if", cond: cond}
	n.a = tr.block(s.Body, env, cx, j.k(sc.out), false)
	n.b = tr.stmts(elseList, env.clone(), cx, j.k(sc.out), false)
	mon := n.monadic()
	j.finish(mon)
	names := []string{}
	for _, v := range sc.out {
		names = append(names, v.lean)
	}
	kind := "let"
	if mon {
		kind = "bind"
		tr.sawMon = true
	}
	return tr.wrap(bs, &ixNode{kind: kind, pat: ixTup(names), rhsN: n, a: next(outer)})
}

func (tr *ixTr) switchStmt(s *ast.SwitchStmt, env ixEnv, cx *ixCtx, next ixK, tail bool) *ixNode {
	if s.Init != nil || s.Tag == nil {
		ixFail("switch without a tag / with an init statement")
	}
	// switch tag { case a: A; case b: B; default: C }  ==  if tag == a {A} else if tag == b {B} else {C}
	var chain ast.Stmt
	var deflt *ast.CaseClause
	var cases []*ast.CaseClause
	for _, c := range s.Body.List {
		cc := c.(*ast.CaseClause)
		for _, st := range cc.Body {
			if b, ok := st.(*ast.BranchStmt); ok && (b.Tok == token.FALLTHROUGH || b.Tok == token.BREAK) {
				ixFail("fallthrough / break in a switch")
			}
		}
		if cc.List == nil {
			deflt = cc
		} else {
			cases = append(cases, cc)
		}
	}
	if deflt != nil {
		chain = &ast.BlockStmt{List: deflt.Body}
	}
	for i := len(cases) - 1; i >= 0; i-- {
		var cond ast.Expr
		for _, v := range cases[i].List {
			c := &ast.BinaryExpr{X: s.Tag, Op: token.EQL, Y: v}
			if cond == nil {
				cond = c
			} else {
				cond = &ast.BinaryExpr{X: cond, Op: token.LOR, Y: c}
			}
		}
		chain = &ast.IfStmt{Cond: cond, Body: &ast.BlockStmt{List: cases[i].Body}, Else: chain}
	}
	if chain == nil {
		return next(env)
	}
	return tr.stmt(chain, env, cx, next, tail)
}

func ixNames(vs []ixSlot) []string {
	names := []string{}
	for _, v := range vs {
		names = append(names, v.lean)
	}
	return names
}

func ixWithout(vs []ixSlot, lean string) []ixSlot {
	var out []ixSlot
	for _, v := range vs {
		if v.lean != lean {
			out = append(out, v)
		}
	}
	return out
}

func ixMentions(text string, names []string) bool {
	toks := strings.FieldsFunc(text, func(r rune) bool {
		return !(r == '_' || r == '\'' || (r >= '0' && r <= '9') || (r >= 'a' && r <= 'z') || (r >= 'A' && r <= 'Z'))
	})
	for _, t := range toks {
		for _, n := range names {
			if t == n {
				return true
			}
		}
	}
	return false
}

// indexesArrayBy: does the body index a fixed-size (≤ 4) array with the variable name?
func (tr *ixTr) indexesArrayBy(body ast.Node, name string, env ixEnv) bool {
	found := false
	ast.Inspect(body, func(n ast.Node) bool {
		ie, ok := n.(*ast.IndexExpr)
		if !ok {
			return true
		}
		if id, ok := ie.Index.(*ast.Ident); !ok || id.Name != name {
			return true
		}
		if v := tr.place(ie.X, env); v != nil && v.ty.k == ixArr {
			found = true
		} else if se, ok := ie.X.(*ast.SelectorExpr); ok {
			for _, sd := range tr.p.structs {
				for _, f := range sd.fields {
					if f.name == se.Sel.Name && f.ty.k == ixArr {
						found = true
					}
				}
			}
		} else if id, ok := ie.X.(*ast.Ident); ok && env[id.Name] == nil {
			found = true // a local array declared inside the enclosing block: decided when met
		}
		return true
	})
	return found
}

// fold emits a loop over the Lean list xs with element variable elem.
func (tr *ixTr) fold(xs string, elem string, elemTy ixTy, pre func(env ixEnv, bs *[]ixBind), body []ast.Stmt, env ixEnv, cx *ixCtx, next ixK) *ixNode {
	benv := env.clone()
	ev := tr.declare(benv, elem, elemTy)
	sc := tr.scan(body, benv)
	state := ixWithout(sc.out, ev.lean)
	if len(state) != len(sc.out) {
		ixFail("the loop variable %s is assigned in the loop body", elem)
	}
	names := ixNames(state)
	tup := ixTup(names)
	tr.sawMon = true
	flow := sc.ret || tr.hasBreak(body)
	leaf := func(tag string) ixK {
		return func(ixEnv) *ixNode {
			if flow {
				return ixLeaf("some (Flow." + tag + " " + tup + ")")
			}
			return ixLeaf("some " + ixParen(tup))
		}
	}
	cx2 := &ixCtx{cont: leaf("next"), brk: leaf("brk"), retWrap: func(v string) *ixNode { return ixLeaf("some (Flow.ret " + ixParen(v) + ")") }}
	var pbs []ixBind
	if pre != nil {
		pre(benv, &pbs)
	}
	inner := tr.wrap(pbs, tr.stmts(body, benv, cx2, leaf("next"), true))
	outer := env
	if !flow {
		return &ixNode{kind: "bind", pat: tup, rhs: "loopM " + xs + " " + tup + " (fun " + ev.lean + " " + tup + " => ", rhsN: inner, post: ")", a: next(outer)}
	}
	ex := tr.fresh("ex")
	r := tr.fresh("r")
	m := &ixNode{kind: "match", cond: ex, arms: []ixArm{{"Exit.ret " + r, cx.retWrap(r)}, {"Exit.done " + tup, next(outer)}}}
	return &ixNode{kind: "bind", pat: ex, rhs: "loopF " + xs + " " + tup + " (fun " + ev.lean + " " + tup + " => ", rhsN: inner, post: ")", a: m}
}

func (tr *ixTr) hasBreak(body []ast.Stmt) bool {
	found := false
	var walk func(list []ast.Stmt)
	walk = func(list []ast.Stmt) {
		for _, s := range list {
			switch s := s.(type) {
			case *ast.BranchStmt:
				if s.Tok == token.BREAK {
					found = true
				}
			case *ast.BlockStmt:
				walk(s.List)
			case *ast.IfStmt:
				walk(s.Body.List)
				if s.Else != nil {
					walk([]ast.Stmt{s.Else})
				}
			}
		}
	}
	walk(body)
	return found
}

func (tr *ixTr) forStmt(s *ast.ForStmt, env ixEnv, cx *ixCtx, next ixK) *ixNode {
	init, ok1 := s.Init.(*ast.AssignStmt)
	cond, ok2 := s.Cond.(*ast.BinaryExpr)
	post, ok3 := s.Post.(*ast.IncDecStmt)
	if !ok1 || !ok2 || !ok3 || init.Tok != token.DEFINE || len(init.Lhs) != 1 || cond.Op != token.LSS || post.Tok != token.INC {
		ixFail("for statement is not  for i := lo; i < hi; i++")
	}
	iv, ok := init.Lhs[0].(*ast.Ident)
	cv, ok4 := cond.X.(*ast.Ident)
	pv, ok5 := post.X.(*ast.Ident)
	if !ok || !ok4 || !ok5 || cv.Name != iv.Name || pv.Name != iv.Name {
		ixFail("for statement is not  for i := lo; i < hi; i++")
	}
	outer := env
	lo, lok := tr.p.constInt(init.Rhs[0])
	hi, hok := tr.p.constInt(cond.Y)
	if lok && hok && hi-lo <= 4 && tr.indexesArrayBy(s.Body, iv.Name, env) {
		// unrolled: the body once per value of the loop variable
		benvProbe := env.clone()
		tr.declare(benvProbe, iv.Name, ixTy{k: ixInt})
		if sc := tr.scan(s.Body.List, benvProbe); len(ixWithout(sc.out, benvProbe[iv.Name].lean)) != len(sc.out) {
			ixFail("the loop variable %s is assigned in the loop body", iv.Name)
		}
		kont := func(ixEnv) *ixNode { return next(outer) }
		for k := hi - 1; k >= lo; k-- {
			after, kval := kont, k
			kont = func(ixEnv) *ixNode {
				benv := outer.clone()
				benv[iv.Name] = &ixVar{lean: fmt.Sprintf("%d", kval), ty: ixTy{k: ixInt}, konst: true, cval: kval}
				cx2 := *cx
				cx2.cont = func(ixEnv) *ixNode { return after(outer) }
				cx2.brk = func(ixEnv) *ixNode { return next(outer) }
				return tr.stmts(s.Body.List, benv, &cx2, func(ixEnv) *ixNode { return after(outer) }, false)
			}
		}
		return kont(outer)
	}
	var bs []ixBind
	los, _ := tr.expr(init.Rhs[0], env, &bs, ixTy{k: ixInt})
	his, ht := tr.expr(cond.Y, env, &bs, ixTy{k: ixInt})
	if ht.k != ixInt {
		ixFail("loop bound is not an int")
	}
	probe := env.clone()
	pv2 := tr.declare(probe, iv.Name, ixTy{k: ixInt})
	if sc := tr.scan(s.Body.List, probe); ixMentions(his, ixNames(sc.out)) || len(ixWithout(sc.out, pv2.lean)) != len(sc.out) {
		return tr.whileLoop(s, iv.Name, init.Rhs[0], env, cx, next)
	}
	return tr.wrap(bs, tr.fold("(intRange "+ixParen(los)+" "+ixParen(his)+")", iv.Name, ixTy{k: ixInt}, nil, s.Body.List, env, cx, next))
}

func (tr *ixTr) rangeStmt(s *ast.RangeStmt, env ixEnv, cx *ixCtx, next ixK) *ixNode {
	if s.Tok != token.DEFINE {
		ixFail("range statement without :=")
	}
	var bs []ixBind
	xs, t := tr.expr(s.X, env, &bs, ixTy{})
	if t.k != ixList {
		ixFail("range over this type")
	}
	key, _ := s.Key.(*ast.Ident)
	if s.Value == nil {
		if key == nil {
			ixFail("range statement")
		}
		return tr.wrap(bs, tr.fold("(intRange 0 (Int.ofNat "+ixParen(xs)+".length))", key.Name, ixTy{k: ixInt}, nil, s.Body.List, env, cx, next))
	}
	val, _ := s.Value.(*ast.Ident)
	if key == nil || key.Name != "_" || val == nil {
		ixFail("range statement with both index and value")
	}
	if sc := tr.scan(s.Body.List, env); ixMentions(xs, ixNames(sc.out)) {
		ixFail("the ranged slice is assigned in the loop body")
	}
	return tr.wrap(bs, tr.fold(ixParen(xs), val.Name, *t.elem, nil, s.Body.List, env, cx, next))
}

// ---------------------------------------------------------------------------------------------
// functions

func (tr *ixTr) collect(files []string) {
	for _, fn := range files {
		f := tr.p.files[fn]
		if f == nil {
			continue
		}
		for _, d := range f.Decls {
			fd, ok := d.(*ast.FuncDecl)
			if !ok || fd.Body == nil {
				continue
			}
			x := &ixFn{decl: fd, name: fd.Name.Name, key: fd.Name.Name}
			if r := ixRecvName(fd); r != "" {
				x.key = r + "." + fd.Name.Name
				x.name = r + "_" + fd.Name.Name
				rt := tr.p.typeOf(fd.Recv.List[0].Type)
				if rt.k == ixStruct && tr.p.structs[rt.name] != nil && tr.p.structs[rt.name].linked {
					rt = ixTy{k: ixPtr, name: rt.name}
				}
				x.recvTy = rt
				if len(fd.Recv.List[0].Names) == 1 {
					rn := fd.Recv.List[0].Names[0].Name
					used := false
					ast.Inspect(fd.Body, func(n ast.Node) bool {
						if id, ok := n.(*ast.Ident); ok && id.Name == rn {
							used = true
						}
						return true
					})
					if used {
						x.recv = rn
					}
				}
				if x.recv != "" && rt.k != ixPtr && rt.k != ixStruct {
					x.err = "receiver type"
				}
			}
			for _, f := range fd.Type.Params.List {
				ty := tr.p.typeOf(f.Type)
				if ty.k == ixBad && x.err == "" {
					x.err = "type of parameter " + ixSrc(tr.p.fset, f.Type) + " is outside the subset"
				}
				if ty.k == ixIter {
					x.hasIter = true
				}
				for _, n := range f.Names {
					x.params = append(x.params, ixField{n.Name, ty, n.Pos()})
				}
			}
			if fd.Type.Results != nil {
				for _, f := range fd.Type.Results.List {
					ty := tr.p.typeOf(f.Type)
					if ty.k == ixBad && x.err == "" {
						x.err = "result type " + ixSrc(tr.p.fset, f.Type) + " is outside the subset"
					}
					if len(f.Names) == 0 {
						x.results = append(x.results, ixField{"", ty, f.Pos()})
					}
					for _, n := range f.Names {
						x.results = append(x.results, ixField{n.Name, ty, n.Pos()})
					}
				}
			}
			tr.fns[x.key] = x
			tr.order = append(tr.order, x.key)
		}
	}
}

// callsIn: the translated functions called in the body of f (by name; methods by method name and arity).
func (tr *ixTr) callsIn(f *ixFn) map[string]bool {
	out := map[string]bool{}
	ast.Inspect(f.decl.Body, func(n ast.Node) bool {
		c, ok := n.(*ast.CallExpr)
		if !ok {
			return true
		}
		switch fun := c.Fun.(type) {
		case *ast.Ident:
			if g := tr.fns[fun.Name]; g != nil {
				out[g.key] = true
			}
		case *ast.SelectorExpr:
			// a method call is resolved by name and arity, within the file of the caller when possible
			var cands []*ixFn
			for _, g := range tr.fns {
				if strings.HasSuffix(g.key, "."+fun.Sel.Name) && len(g.params) == len(c.Args) {
					cands = append(cands, g)
				}
			}
			same := false
			for _, g := range cands {
				if tr.p.fset.Position(g.decl.Pos()).Filename == tr.p.fset.Position(f.decl.Pos()).Filename {
					same = true
				}
			}
			for _, g := range cands {
				if !same || tr.p.fset.Position(g.decl.Pos()).Filename == tr.p.fset.Position(f.decl.Pos()).Filename {
					out[g.key] = true
				}
			}
		}
		return true
	})
	return out
}

// receiver aliases of f: names that denote (parts of) the receiver object
func (tr *ixTr) recvAliases(f *ixFn) map[string]bool {
	al := map[string]bool{}
	if f.recv == "" {
		return al
	}
	al[f.recv] = true
	for changed := true; changed; {
		changed = false
		ast.Inspect(f.decl.Body, func(n ast.Node) bool {
			a, ok := n.(*ast.AssignStmt)
			if !ok || a.Tok != token.DEFINE || len(a.Lhs) != len(a.Rhs) {
				return true
			}
			for i, r := range a.Rhs {
				id := a.Lhs[i].(*ast.Ident)
				root := ixRootIdent(r)
				_, isAddr := r.(*ast.UnaryExpr)
				_, isAssert := r.(*ast.TypeAssertExpr)
				_, isId := r.(*ast.Ident)
				if root != nil && al[root.Name] && (isAddr || isAssert || isId) && !al[id.Name] {
					al[id.Name] = true
					changed = true
				}
			}
			return true
		})
	}
	return al
}

func (tr *ixTr) analyse() {
	// mutators: store through the receiver, directly or by calling a mutator on (part of) it
	for changed := true; changed; {
		changed = false
		for _, key := range tr.order {
			f := tr.fns[key]
			if f.mutates || f.recv == "" {
				continue
			}
			al := tr.recvAliases(f)
			mut := false
			ast.Inspect(f.decl.Body, func(n ast.Node) bool {
				switch s := n.(type) {
				case *ast.AssignStmt:
					if s.Tok != token.DEFINE {
						for _, l := range s.Lhs {
							if _, plain := l.(*ast.Ident); plain {
								continue
							}
							if r := ixRootIdent(l); r != nil && al[r.Name] {
								mut = true
							}
						}
					}
				case *ast.IncDecStmt:
					if _, plain := s.X.(*ast.Ident); !plain {
						if r := ixRootIdent(s.X); r != nil && al[r.Name] {
							mut = true
						}
					}
				case *ast.CallExpr:
					if se, ok := s.Fun.(*ast.SelectorExpr); ok {
						if r := ixRootIdent(se.X); r != nil && al[r.Name] {
							for _, g := range tr.fns {
								if g.mutates && strings.HasSuffix(g.key, "."+se.Sel.Name) {
									mut = true
								}
							}
						}
					}
				}
				return true
			})
			if mut {
				f.mutates = true
				changed = true
			}
		}
	}
	// out-parameters: pointer parameters the body stores through
	for changed := true; changed; {
		changed = false
		for _, key := range tr.order {
			f := tr.fns[key]
			for k, p := range f.params {
				if p.ty.k != ixStruct || !ixIsStar(tr.p, f, p.name) {
					continue
				}
				has := false
				for _, o := range f.outs {
					if o == k {
						has = true
					}
				}
				if !has && tr.storesThrough(f, p.name) {
					f.outs = append(f.outs, k)
					changed = true
				}
			}
		}
	}
	// recursion: structural when every recursive call is on a constant-indexed child of the receiver
	for _, key := range tr.order {
		f := tr.fns[key]
		calls := tr.callsIn(f)
		if !calls[f.key] {
			continue
		}
		f.selfRec = true
		structural := f.recvTy.k == ixPtr && f.recv != "" && !f.mutates
		if structural {
			var loopVars []string
			var walk func(n ast.Node)
			walk = func(n ast.Node) {
				ast.Inspect(n, func(x ast.Node) bool {
					switch s := x.(type) {
					case *ast.ForStmt:
						pushed := false
						if a, ok := s.Init.(*ast.AssignStmt); ok && len(a.Lhs) == 1 {
							if c, ok := s.Cond.(*ast.BinaryExpr); ok {
								_, ok1 := tr.p.constInt(a.Rhs[0])
								_, ok2 := tr.p.constInt(c.Y)
								if ok1 && ok2 {
									loopVars = append(loopVars, a.Lhs[0].(*ast.Ident).Name)
									pushed = true
								}
							}
						}
						walk(s.Body)
						if pushed {
							loopVars = loopVars[:len(loopVars)-1]
						}
						return false
					case *ast.CallExpr:
						se, ok := s.Fun.(*ast.SelectorExpr)
						if !ok || se.Sel.Name != f.decl.Name.Name {
							return true
						}
						good := false
						if ie, ok := se.X.(*ast.IndexExpr); ok {
							if fs, ok := ie.X.(*ast.SelectorExpr); ok {
								if r, ok := fs.X.(*ast.Ident); ok && r.Name == f.recv {
									if _, isC := tr.p.constInt(ie.Index); isC {
										good = true
									}
									if id, ok := ie.Index.(*ast.Ident); ok {
										for _, lv := range loopVars {
											if lv == id.Name {
												good = true
											}
										}
									}
								}
							}
						}
						if !good {
							structural = false
						}
					}
					return true
				})
			}
			walk(f.decl.Body)
		}
		if !structural {
			f.fuel = true
		}
	}
	tr.propagateFuel()
}

func (tr *ixTr) propagateFuel() {
	for changed := true; changed; {
		changed = false
		for _, key := range tr.order {
			f := tr.fns[key]
			if f.fuel {
				continue
			}
			for g := range tr.callsIn(f) {
				if tr.fns[g].fuel {
					f.fuel = true
					changed = true
				}
			}
		}
	}
	for _, key := range tr.order {
		f := tr.fns[key]
		if f.fuel || (f.recv != "" && f.recvTy.k == ixPtr) {
			f.partial = true
		}
	}
}

func (tr *ixTr) goSig(f *ixFn) string {
	fd := *f.decl
	fd.Body, fd.Doc = nil, nil
	return ixSrc(tr.p.fset, &fd)
}

// translateFn produces the Lean definition of f (or panics with ixRefuse).
func (tr *ixTr) translateFn(f *ixFn) string {
	tr.fn = f
	tr.tmp = 0
	tr.sawMon = false
	tr.outVars = map[int]*ixVar{}
	env := ixEnv{}
	var sig []string
	if f.hasIter {
		sig = append(sig, "{σ : Type}")
	}
	sig = append(sig, "(ops : Ops F S SR D)")
	if f.fuel {
		sig = append(sig, "(fuel : Nat)")
	}
	var recvView *ixVar
	for _, t := range append([]ixTy{f.recvTy}, ixFieldTys(f.params)...) {
		if (t.k == ixStruct || t.k == ixPtr) && !tr.structEmittable(tr.p.structs[t.name], map[string]bool{}) {
			ixFail("the struct %s has no Lean type", t.name)
		}
	}
	if f.recv != "" {
		name := f.recv
		if ixReserved[name] {
			name += "_"
		}
		recvView = tr.openView(name, f.recvTy.name)
		env[f.recv] = recvView
		sig = append(sig, "("+name+" : "+f.recvTy.lean()+")")
	}
	for _, p := range f.params {
		if p.ty.k == ixIter {
			env[p.name] = &ixVar{lean: "iter", ty: p.ty}
			it := "σ"
			for _, t := range p.ty.elems {
				it += " → " + ixAtom(t.lean())
			}
			sig = append(sig, "(iter : "+it+" → σ × Bool)", "("+ixSt+" : σ)")
			continue
		}
		if p.ty.k == ixArr {
			ixFail("parameter %s of an array type", p.name)
		}
		v := tr.declare(env, p.name, p.ty)
		for _, k := range f.outs {
			if f.params[k].name == p.name {
				tr.outVars[k] = v
			}
		}
		sig = append(sig, "("+v.lean+" : "+p.ty.lean()+")")
	}
	var pre []ixBind
	for _, r := range f.results {
		if r.name != "" && r.name != "_" {
			v := tr.declare(env, r.name, r.ty)
			pre = append(pre, ixBind{pat: v.lean + " : " + r.ty.lean(), rhs: tr.zero(r.ty)})
		}
	}
	var parts []string
	if f.mutates {
		parts = append(parts, ixAtom(f.recvTy.lean()))
	}
	for _, k := range f.outs {
		parts = append(parts, ixAtom(f.params[k].ty.lean()))
	}
	if f.hasIter {
		parts = append(parts, "σ")
	}
	for _, r := range f.results {
		parts = append(parts, ixAtom(r.ty.lean()))
	}
	resTy := "Unit"
	if len(parts) > 0 {
		resTy = strings.Join(parts, " × ")
	}
	cx := &ixCtx{retWrap: func(v string) *ixNode { return ixLeaf(tr.some(v)) }}
	end := func(e ixEnv) *ixNode {
		if len(f.results) > 0 {
			ixFail("control reaches the end of a function with results")
		}
		return cx.retWrap(tr.retVal(e, nil))
	}
	body := tr.wrap(pre, tr.stmts(f.decl.Body.List, env, cx, end, true))
	if recvView != nil {
		sd := tr.p.structs[f.recvTy.name]
		arms := []ixArm{{tr.viewPat(recvView), body}}
		if sd.linked {
			arms = append(arms, ixArm{".nil", ixLeaf("none")})
			tr.sawMon = true
		}
		body = &ixNode{kind: "match", cond: recvView.lean, arms: arms}
	}
	if f.fuel && f.selfRec {
		body = &ixNode{kind: "match", cond: "fuel", arms: []ixArm{{"0", ixLeaf("none")}, {"fuel+1", body}}}
		tr.sawMon = true
	}
	if tr.sawMon && !f.partial {
		f.partial = true
		panic(ixRetry{})
	}
	if f.partial {
		resTy = "Option " + ixAtom(resTy)
	}
	pr := &ixPrinter{partial: f.partial}
	pr.open(body, 2)
	notes := ""
	if f.mutates {
		notes += "; stores through its pointer receiver: returns the updated receiver"
	}
	for _, k := range f.outs {
		notes += "; stores through the pointer parameter " + f.params[k].name + ": returns its new value"
	}
	if f.hasIter {
		notes += "; the callback threads a state σ"
	}
	if f.fuel && f.selfRec {
		notes += "; the recursion is not structural: explicit fuel, none when exhausted"
	} else if f.fuel {
		notes += "; passes the fuel on"
	}
	if f.recv == "" && f.decl.Recv != nil {
		notes += "; the receiver is not used by the body and is dropped"
	}
	if f.partial {
		notes += "; none = a Go panic"
	}
	return fmt.Sprintf("/-- Go: `%s` — %s%s -/\ndef %s {F S SR D : Type} [KNum F] %s : %s :=\n%s",
		tr.goSig(f), tr.p.where(f.decl.Pos()), notes, f.name, strings.Join(sig, " "), resTy, pr.b.String())
}

type ixRetry struct{}

func ixIsStar(p *ixPkg, f *ixFn, name string) bool {
	for _, fl := range f.decl.Type.Params.List {
		for _, n := range fl.Names {
			if n.Name == name {
				_, ok := fl.Type.(*ast.StarExpr)
				return ok
			}
		}
	}
	return false
}

// storesThrough: does the body assign to (a part of) *name?
func (tr *ixTr) storesThrough(f *ixFn, name string) bool {
	found := false
	ast.Inspect(f.decl.Body, func(n ast.Node) bool {
		switch s := n.(type) {
		case *ast.AssignStmt:
			if s.Tok != token.DEFINE {
				for _, l := range s.Lhs {
					if _, plain := l.(*ast.Ident); plain {
						continue
					}
					if r := ixRootIdent(l); r != nil && r.Name == name {
						found = true
					}
				}
			}
		case *ast.CallExpr:
			if se, ok := s.Fun.(*ast.SelectorExpr); ok {
				if r := ixRootIdent(se.X); r != nil && r.Name == name {
					for _, g := range tr.fns {
						if g.mutates && strings.HasSuffix(g.key, "."+se.Sel.Name) {
							found = true
						}
					}
				}
			}
			if g, _ := tr.calleeStatic(s); g != nil {
				for _, k := range g.outs {
					if k < len(s.Args) {
						if r := ixRootIdent(s.Args[k]); r != nil && r.Name == name {
							found = true
						}
					}
				}
			}
		}
		return true
	})
	return found
}

// calleeStatic: the translated function a call denotes, by name (methods: any receiver type)
func (tr *ixTr) calleeStatic(c *ast.CallExpr) (*ixFn, bool) {
	switch f := c.Fun.(type) {
	case *ast.Ident:
		return tr.fns[f.Name], false
	case *ast.SelectorExpr:
		for _, k := range tr.order {
			g := tr.fns[k]
			if strings.HasSuffix(g.key, "."+f.Sel.Name) && len(g.params) == len(c.Args) {
				return g, true
			}
		}
	}
	return nil, false
}

func (tr *ixTr) runFn(f *ixFn) (text string, refusal string, retry bool) {
	defer func() {
		if r := recover(); r != nil {
			switch r := r.(type) {
			case ixRefuse:
				refusal = r.msg
			case ixRetry:
				retry = true
			default:
				panic(r)
			}
		}
	}()
	if f.err != "" {
		return "", f.err, false
	}
	return tr.translateFn(f), "", false
}

const ixPrelude = `/-- how one pass through a loop body ends -/
inductive Flow (σ ρ : Type) where
  | next (s : σ) : Flow σ ρ
  | brk (s : σ) : Flow σ ρ
  | ret (r : ρ) : Flow σ ρ

/-- how a loop (or an if with a returning arm) ends: normally with the final state, or by return r -/
inductive Exit (σ ρ : Type) where
  | done (s : σ) : Exit σ ρ
  | ret (r : ρ) : Exit σ ρ

/-- a loop without return / break: structural recursion over the list of iterations; none = a Go panic -/
def loopM {ε σ : Type} : List ε → σ → (ε → σ → Option σ) → Option σ
  | [], s, _ => some s
  | x :: xs, s, body =>
    match body x s with
    | none => none
    | some s' => loopM xs s' body

/-- a loop with return / break -/
def loopF {ε σ ρ : Type} : List ε → σ → (ε → σ → Option (Flow σ ρ)) → Option (Exit σ ρ)
  | [], s, _ => some (Exit.done s)
  | x :: xs, s, body =>
    match body x s with
    | none => none
    | some (Flow.next s') => loopF xs s' body
    | some (Flow.brk s') => some (Exit.done s')
    | some (Flow.ret r) => some (Exit.ret r)

/-- a general loop (its body assigns the loop variable or what the bound depends on): cond, body,
    post each pass; fuel bounds the number of passes, none when exhausted -/
def loopW {σ ρ : Type} : Nat → σ → (σ → Option Bool) → (σ → Option (Flow σ ρ)) → Option (Exit σ ρ)
  | 0, _, _, _ => none
  | fuel+1, s, cond, body =>
    match cond s with
    | none => none
    | some false => some (Exit.done s)
    | some true =>
      match body s with
      | none => none
      | some (Flow.next s') => loopW fuel s' cond body
      | some (Flow.brk s') => some (Exit.done s')
      | some (Flow.ret r) => some (Exit.ret r)

/-- the values lo, lo+1, …, hi-1 of a counted loop -/
def intRange (lo hi : Int) : List Int := (List.range (hi - lo).toNat).map (fun k => lo + Int.ofNat k)

/-- xs[i] on a slice / long array; none = index out of range (a Go panic) -/
def listAt {α : Type} (xs : List α) (i : Int) : Option α :=
  if i < 0 then none else xs[i.toNat]?

/-- xs[i] = v; none = index out of range (a Go panic) -/
def listSet {α : Type} (xs : List α) (i : Int) (v : α) : Option (List α) :=
  if i < 0 then none else if i.toNat < xs.length then some (xs.set i.toNat v) else none

/-- a[i] on an array of 2 kept as 2 variables; none = index out of range (a Go panic) -/
def arrSel2 {α : Type} (a0 a1 : α) (i : Int) : Option α :=
  if i == 0 then some a0 else if i == 1 then some a1 else none

/-- a[i] = v on an array of 2 kept as 2 variables -/
def arrSet2 {α : Type} (a0 a1 : α) (i : Int) (v : α) : Option (α × α) :=
  if i == 0 then some (v, a1) else if i == 1 then some (a0, v) else none

/-- a[i] on an array of 4 kept as 4 variables; none = index out of range (a Go panic) -/
def arrSel4 {α : Type} (a0 a1 a2 a3 : α) (i : Int) : Option α :=
  if i == 0 then some a0 else if i == 1 then some a1 else if i == 2 then some a2 else if i == 3 then some a3 else none

/-- a[i] = v on an array of 4 kept as 4 variables -/
def arrSet4 {α : Type} (a0 a1 a2 a3 : α) (i : Int) (v : α) : Option (α × α × α × α) :=
  if i == 0 then some (v, a1, a2, a3) else if i == 1 then some (a0, v, a2, a3)
  else if i == 2 then some (a0, a1, v, a3) else if i == 3 then some (a0, a1, a2, v) else none

/-- the conversion of an int to an unsigned type of the given width (two's complement truncation) -/
def intToU (bits : Nat) (x : Int) : Nat := (x % ((2 : Int) ^ bits)).toNat
`

func (tr *ixTr) emitStruct(b *strings.Builder, sd *ixStructDecl) {
	if sd.linked {
		fmt.Fprintf(b, "/-- Go: `type %s struct` — %s; the Lean type stands for `*%s`: nil or a node -/\n", sd.name, tr.p.where(sd.pos), sd.name)
		fmt.Fprintf(b, "inductive %s where\n  | nil : %s\n  | mk", ixUp(sd.name), ixUp(sd.name))
		for _, f := range sd.fields {
			if f.ty.k == ixArr {
				names := []string{}
				for i := 0; i < f.ty.n; i++ {
					names = append(names, fmt.Sprintf("%s%d", f.name, i))
				}
				fmt.Fprintf(b, " (%s : %s)", strings.Join(names, " "), f.ty.elem.lean())
			} else {
				fmt.Fprintf(b, " (%s : %s)", f.name, f.ty.lean())
			}
		}
		fmt.Fprintf(b, " : %s\n\n", ixUp(sd.name))
		fmt.Fprintf(b, "/-- Go: `p == nil` on a `*%s` -/\ndef %s.isNil : %s → Bool\n  | .nil => true\n  | _ => false\n\n", sd.name, ixUp(sd.name), ixUp(sd.name))
		return
	}
	fmt.Fprintf(b, "/-- Go: `type %s struct` — %s -/\nstructure %s (F : Type) where\n", sd.name, tr.p.where(sd.pos), ixUp(sd.name))
	for _, f := range sd.fields {
		fmt.Fprintf(b, "  /-- Go: field `%s` — %s -/\n", f.name, tr.p.where(f.pos))
		if f.ty.k == ixArr {
			for i := 0; i < f.ty.n; i++ {
				fmt.Fprintf(b, "  %s%d : %s\n", ixLow(f.name), i, f.ty.elem.lean())
			}
		} else {
			fmt.Fprintf(b, "  %s : %s\n", ixLow(f.name), f.ty.lean())
		}
	}
	b.WriteString("\n")
}

func (tr *ixTr) structEmittable(sd *ixStructDecl, seen map[string]bool) bool {
	if seen[sd.name] {
		return true
	}
	seen[sd.name] = true
	for _, f := range sd.fields {
		t := f.ty
		if t.k == ixArr {
			t = *t.elem
		}
		switch t.k {
		case ixFloat, ixInt, ixUns, ixBool:
		case ixStruct:
			if !tr.structEmittable(tr.p.structs[t.name], seen) {
				return false
			}
		case ixPtr:
			if t.name != sd.name {
				return false
			}
		case ixList:
			if t.elem.k == ixStruct {
				if !tr.structEmittable(tr.p.structs[t.elem.name], seen) {
					return false
				}
			} else if t.elem.k != ixUns && t.elem.k != ixInt && t.elem.k != ixFloat {
				return false
			}
		case ixIface:
			if len(tr.dyn) == 0 {
				return false
			}
		default:
			return false
		}
	}
	return true
}

var ixFiles = []string{"qtree.go", "rtree.go"}

func translateIndex(repo string) (string, error) {
	p, err := ixLoad(repo)
	if err != nil {
		return "", err
	}
	tr := &ixTr{p: p, ops: map[string]ixOp{}, fns: map[string]*ixFn{}, ifaceT: map[string]bool{}, refutable: map[string]bool{}}
	tr.findDynTypes()
	tr.collect(ixFiles)
	if len(tr.order) == 0 {
		return "", fmt.Errorf("no functions found in geometry/qtree.go, geometry/rtree.go")
	}
	tr.analyse()
	// definition order: callees first, ties in source order
	var order []string
	done := map[string]bool{}
	var visit func(k string)
	visit = func(k string) {
		if done[k] {
			return
		}
		done[k] = true
		cs := tr.callsIn(tr.fns[k])
		for _, c := range tr.order {
			if cs[c] && c != k {
				visit(c)
			}
		}
		order = append(order, k)
	}
	for _, k := range tr.order {
		visit(k)
	}
	texts := map[string]string{}
	allOps := map[string]ixOp{}
	for round := 0; round < 12; round++ {
		again := false
		tr.propagateFuel()
		allOps = map[string]ixOp{}
		for _, k := range order {
			f := tr.fns[k]
			tr.ops = map[string]ixOp{}
			text, refusal, retry := tr.runFn(f)
			if retry {
				again = true
				continue
			}
			if refusal != "" {
				if f.err == "" {
					again = true // callers must be refused as well
				}
				f.err = refusal
				texts[k] = fmt.Sprintf("/- Go: `%s` — %s\n   NOT RECOGNISED: %s -/\nopaque %s_unrecognised : Unit\n", tr.goSig(f), p.where(f.decl.Pos()), refusal, f.name)
				continue
			}
			texts[k] = text
			for n, o := range tr.ops {
				allOps[n] = o
			}
		}
		if !again {
			break
		}
	}
	var b strings.Builder
	b.WriteString(ixHeader)
	b.WriteString("import GeoModel.KNum\n\nset_option linter.unusedVariables false\n\nnamespace Geo.IGen\nopen scoped Geo.KNum\n\n")
	b.WriteString(ixPrelude)
	b.WriteString("\n")
	// constants of the translated files
	var cnames []string
	for n, pos := range p.cpos {
		fn := filepath.Base(p.fset.Position(pos).Filename)
		if fn == "qtree.go" || fn == "rtree.go" {
			cnames = append(cnames, n)
		}
	}
	sort.Slice(cnames, func(i, j int) bool { return p.cpos[cnames[i]] < p.cpos[cnames[j]] })
	for _, n := range cnames {
		fmt.Fprintf(&b, "/-- Go: `const %s` — %s -/\ndef %s : Int := %d\n\n", n, p.where(p.cpos[n]), n, p.consts[n])
	}
	// structures: Point, Rect and the structs of the translated files, dependencies first
	var snames []string
	for n := range p.structs {
		snames = append(snames, n)
	}
	sort.Slice(snames, func(i, j int) bool { return p.structs[snames[i]].pos < p.structs[snames[j]].pos })
	emitted := map[string]bool{}
	mutualDone := false
	var emit func(sd *ixStructDecl)
	emit = func(sd *ixStructDecl) {
		if emitted[sd.name] {
			return
		}
		emitted[sd.name] = true
		for _, f := range sd.fields {
			t := f.ty
			if t.k == ixArr || t.k == ixList {
				t = *t.elem
			}
			if t.k == ixStruct {
				emit(p.structs[t.name])
			}
		}
		if ixMutual[sd.name] {
			if !mutualDone {
				mutualDone = true
				tr.emitMutual(&b)
			}
			return
		}
		tr.emitStruct(&b, sd)
	}
	for _, want := range []string{"Point", "Rect"} {
		if sd := p.structs[want]; sd != nil && tr.structEmittable(sd, map[string]bool{}) {
			emit(sd)
		}
	}
	for _, n := range snames {
		sd := p.structs[n]
		fn := filepath.Base(p.fset.Position(sd.pos).Filename)
		if fn != "qtree.go" && fn != "rtree.go" {
			continue
		}
		if tr.structEmittable(sd, map[string]bool{}) {
			emit(sd)
		} else {
			fmt.Fprintf(&b, "/- Go: `type %s struct` — %s: not given a Lean type (a field type is outside the subset) -/\n\n", sd.name, p.where(sd.pos))
		}
	}
	// the callees
	var onames []string
	for n := range allOps {
		onames = append(onames, n)
	}
	sort.Strings(onames)
	b.WriteString("/-- the callees of the translated functions, one field per distinct external callee / byte-slice\n    operation found in the source; S = Segment, SR = *baseSeries, D = []byte (bytes are Nat) -/\nstructure Ops (F S SR D : Type) where\n")
	for _, n := range onames {
		fmt.Fprintf(&b, "  /-- %s -/\n  %s : %s\n", allOps[n].doc, n, allOps[n].sig)
	}
	if len(onames) == 0 {
		b.WriteString("  unit : Unit := ()\n")
	}
	b.WriteString("\n")
	for _, k := range order {
		b.WriteString(texts[k])
		b.WriteString("\n")
	}
	b.WriteString("end Geo.IGen\n")
	return b.String(), nil
}

const ixHeader = `/-
  GENERATED FILE — do not edit.  Regenerate with
      cd /verif/translate && go build -o bin/translate . && \
        ./bin/translate index /repo > /verif/lean/GeoModel/Generated/IndexGen.lean

  Syntactic translation (translate/index.go) of the segment index of package geometry:
  geometry/qtree.go (quadtree) and geometry/rtree.go (R-tree) — every function of the two files.

  Conventions:
    * float64 ↦ an abstract F with [Geo.KNum F] (GeoModel/KNum.lean): + - * / ↦ +ₖ -ₖ *ₖ /ₖ, comparisons
      ↦ <ₖ ≤ₖ >ₖ ≥ₖ ==ₖ !=ₖ (a > b is b < a, as Go derives it), a literal n ↦ KNum.ofNat n;
      int ↦ Int (unbounded); uint32 / uint16 / uint64 / byte ↦ Nat; conversions: int → unsigned ↦
      intToU bits (two's-complement truncation), unsigned → narrower unsigned ↦ % 2^bits,
      unsigned → int ↦ Int.ofNat, widening ↦ identity; constants of the two files ↦ Int definitions;
    * Point, Rect and the structs of the two files ↦ generated structures (field list and order from the
      struct declarations); a fixed array [N]T with N ≤ 4 ↦ N fields / N variables (x[i] with a constant
      or unrolled i ↦ the i-th; with a computed i ↦ arrSelN / arrSetN, none = index out of range), a
      longer array or a slice ↦ List (x[i] ↦ listAt, x[i] = v ↦ listSet, none = out of range);
    * a struct that refers to itself through pointers (qNode: quads [4]*qNode) ↦ an inductive type that
      stands for the POINTER: constructor nil, constructor mk with the fields; new(T) ↦ mk of the zero
      values; p == nil ↦ T.isNil p; a method with a pointer receiver whose body uses the receiver starts
      with  match n with | .mk fields… => body | .nil => none  (a nil receiver is a Go panic at its first
      field access) and works on the field variables n_field; the receiver as a whole ↦ T.mk n_field…;
    * a method that stores through its receiver returns the new receiver (first component of the result);
      a call  path.m(args)  of such a method reads the path, calls, and stores the result back to the
      path (the nodes of the trees are uniquely owned: no two paths alias);
    * []byte ↦ an abstract D; every operation on it is a field of  ops : Ops F S SR D  (bytes are Nat):
      reads b[i], b[lo:], binary.LittleEndian.UintNN(b) are partial (Option, none = Go panic), append ↦
      bytesAppend, PutUintNN(b[lo:], v) ↦ putUintNN b lo v returning the new b (none = Go panic);
      every other callee not translated here (methods of *baseSeries ↦ SR, Segment ↦ S, Rect, the math
      functions) is a field of ops as well, with its Go signature; callees are taken to be pure;
    * a function returns Option exactly when its body contains a step that can panic (none = Go panic),
      calls such a function, contains a loop, or needs fuel; steps are bound in evaluation order with
      do-notation (plain Option.bind: no mutable variables, no for, no early return are used);
    * a statement list becomes one expression; assignments shadow; an if / switch (↦ if-else chain in
      source order) that is last in its block, or at most one arm of which falls through, is translated
      in continuation style (the following statements are copied into the arms); any other if is
      joined:  let (assigned variables) := if … then … else …  (← when an arm can panic); when an arm
      returns, the arms yield Exit.done (assigned variables) / Exit.ret (returned value);
    * for i := lo; i < hi; i++ (hi not depending on what the body assigns) ↦ loopM / loopF (intRange lo hi)
      state body, for _, x := range xs ↦ the same over xs; state = the outer variables the body assigns;
      loopF when the body contains return / break: end of body / continue ↦ Flow.next, break ↦ Flow.brk,
      return e ↦ Flow.ret e;  a loop with constant bounds (at most 4 iterations) whose body indexes a
      fixed array with the loop variable is UNROLLED (the variable becomes the literal);
    * recursion: structural when every recursive call is on a constant-indexed child of the receiver
      (compress, search: after unrolling, the call is on a pattern variable of the match); otherwise an
      explicit  fuel : Nat  (insert: at most 2 per level, depth ≤ qMaxDepth; the compressed searches,
      which read child addresses from the bytes: depth ≤ len(data)), none when exhausted; a function
      that calls a fuelled function passes its fuel on;
    * the callback  iter func(seg Segment, item int) bool  ↦  iter : σ → S → Int → σ × Bool  and a state
      st' : σ threaded through the body; a function with a callback returns (final state, result).
    * interface{} ↦ Dyn F: nil or one constructor per dynamic type the source asserts (x.(*rNode),
      x.(int)); x.(T) ↦ Dyn.asT x (Option, none = Go panic); a value stored where an interface{} is
      expected is wrapped in its constructor; the structs that hold interface{} values (rRect, rNode)
      are inductive types generated in one mutual block with Dyn, with projection functions; a pointer
      to such a plain struct (*rRect, *rNode) is passed as the value;
    * PATHS: x := &path, x := path.(*T) and x := y (y the receiver or such an x) make x a NAME FOR THE
      PATH (root variable, fields, list indices evaluated once at the declaration, type assertions):
      every read through x re-reads the path, every store through x (x.f = v, x.m() for a mutator m)
      rebuilds the root variable; a local p := new(T) that is stored into a structure (s.data = p)
      denotes that place from then on.  Struct values are copied; Go's copies of an rRect share the node
      their data points to, which is sound here because at most one copy is used afterwards (the source
      overwrites or abandons the other) — this ownership discipline is NOT checked by the translator;
    * a pointer parameter the body stores through (fit's target, splitLargestAxisEdgeSnap's right) is an
      in-out parameter: passed as the value, its final value returned after the receiver; the caller's
      &path argument is read before and stored back after the call;
    * a for loop whose body assigns the loop variable, or whose bound depends on what the body
      assigns, ↦ loopW fuel state cond body (cond, body and post each pass; the function gets a fuel
      parameter, none when exhausted);
    * s == nil on a []float64 ↦ ops.floatsIsNil s (the elements do not determine it); a [N]byte array ↦ D
      (ops.bytesZero N), b[:] of it ↦ itself; x.a[:] of a fixed array ↦ the list of its elements;
      panic(…) ↦ none; make([]T, n) ↦ List.replicate n.toNat zero (a negative n, a Go panic, gives []);
      the second callback type func(min, max []float64, value interface{}) bool ↦
      iter : σ → List F → List F → Dyn F → σ × Bool.
  Anything outside the recognised subset appears below as  opaque <name>_unrecognised : Unit  with the
  reason; a function that calls an unrecognised function is unrecognised itself.
-/
`

func ixFieldTys(fs []ixField) []ixTy {
	var out []ixTy
	for _, f := range fs {
		out = append(out, f.ty)
	}
	return out
}

// ---------------------------------------------------------------------------------------------
// interface{} values and the structs that hold them

type ixDynT struct {
	ctor string // constructor / accessor suffix: rNode, int
	ty   ixTy
	pos  token.Pos
}

// dynTypes: the dynamic types asserted on interface{} values in the translated files, in source order.
func (tr *ixTr) findDynTypes() {
	seen := map[string]bool{}
	for _, fn := range ixFiles {
		f := tr.p.files[fn]
		if f == nil {
			continue
		}
		ast.Inspect(f, func(n ast.Node) bool {
			ta, ok := n.(*ast.TypeAssertExpr)
			if !ok || ta.Type == nil {
				return true
			}
			t := tr.p.typeOf(ta.Type)
			var c string
			switch t.k {
			case ixStruct, ixPtr:
				c = t.name
			case ixInt:
				c = "int"
			default:
				return true
			}
			if !seen[c] {
				seen[c] = true
				tr.dyn = append(tr.dyn, ixDynT{c, t, ta.Pos()})
			}
			return true
		})
	}
	// the mutual block: structs reachable from a dynamic type that reach interface{}
	var reaches func(name string, seen map[string]bool) bool
	reaches = func(name string, seen map[string]bool) bool {
		if seen[name] {
			return false
		}
		seen[name] = true
		for _, f := range tr.p.structs[name].fields {
			t := f.ty
			for t.elem != nil {
				t = *t.elem
			}
			if t.k == ixIface {
				return true
			}
			if (t.k == ixStruct || t.k == ixPtr) && reaches(t.name, seen) {
				return true
			}
		}
		return false
	}
	var mark func(name string)
	mark = func(name string) {
		if ixMutual[name] || !reaches(name, map[string]bool{}) {
			return
		}
		ixMutual[name] = true
		for _, f := range tr.p.structs[name].fields {
			t := f.ty
			for t.elem != nil {
				t = *t.elem
			}
			if t.k == ixStruct || t.k == ixPtr {
				mark(t.name)
			}
		}
	}
	for _, d := range tr.dyn {
		if d.ty.k == ixStruct || d.ty.k == ixPtr {
			mark(d.ty.name)
		}
	}
}

func (tr *ixTr) dynCtor(t ixTy) string {
	for _, d := range tr.dyn {
		if d.ty.same(t) {
			return d.ctor
		}
	}
	ixFail("no interface{} value of this dynamic type is ever asserted in the source")
	return ""
}

// fieldDecls: the (name, type) list of the constructor of a struct, arrays exploded
func (tr *ixTr) ctorFields(sd *ixStructDecl) []ixField {
	var out []ixField
	for _, f := range sd.fields {
		if f.ty.k == ixArr {
			for i := 0; i < f.ty.n; i++ {
				out = append(out, ixField{fmt.Sprintf("%s%d", ixLow(f.name), i), *f.ty.elem, f.pos})
			}
		} else {
			out = append(out, ixField{ixLow(f.name), f.ty, f.pos})
		}
	}
	return out
}

func (tr *ixTr) emitMutual(b *strings.Builder) {
	if len(tr.dyn) == 0 {
		return
	}
	var names []string
	for n := range ixMutual {
		names = append(names, n)
	}
	sort.Slice(names, func(i, j int) bool { return tr.p.structs[names[i]].pos < tr.p.structs[names[j]].pos })
	b.WriteString("mutual\n/-- Go: an `interface{}` value: nil, or one of the dynamic types the source asserts (`x.(T)`) -/\ninductive Dyn (F : Type) where\n  | nil : Dyn F\n")
	for _, d := range tr.dyn {
		fmt.Fprintf(b, "  | %s (v : %s) : Dyn F\n", d.ctor, d.ty.lean())
	}
	for _, n := range names {
		sd := tr.p.structs[n]
		fmt.Fprintf(b, "/-- Go: `type %s struct` — %s (an inductive type: it holds interface{} values) -/\ninductive %s (F : Type) where\n  | mk", sd.name, tr.p.where(sd.pos), ixUp(sd.name))
		for _, f := range tr.ctorFields(sd) {
			fmt.Fprintf(b, " (%s : %s)", f.name, f.ty.lean())
		}
		fmt.Fprintf(b, " : %s F\n", ixUp(sd.name))
	}
	b.WriteString("end\n\n")
	b.WriteString("/-- Go: `x == nil` on an interface{} value -/\ndef Dyn.isNil {F : Type} : Dyn F → Bool\n  | .nil => true\n  | _ => false\n\n")
	for _, d := range tr.dyn {
		fmt.Fprintf(b, "/-- Go: the type assertion `x.(%s)`; none = another dynamic type or nil (a Go panic) -/\ndef Dyn.as%s {F : Type} : Dyn F → Option %s\n  | .%s v => some v\n  | _ => none\n\n",
			ixSrcTy(d), ixUp(d.ctor), ixAtom(d.ty.lean()), d.ctor)
	}
	for _, n := range names {
		sd := tr.p.structs[n]
		fs := tr.ctorFields(sd)
		for i, f := range fs {
			pats := make([]string, len(fs))
			for j := range pats {
				pats[j] = "_"
			}
			pats[i] = "x"
			fmt.Fprintf(b, "/-- Go: field `%s` of `%s` — %s -/\ndef %s.%s {F : Type} : %s F → %s\n  | .mk %s => x\n\n", f.name, sd.name, tr.p.where(f.pos), ixUp(sd.name), f.name, ixUp(sd.name), f.ty.lean(), strings.Join(pats, " "))
		}
	}
}

func ixSrcTy(d ixDynT) string {
	if d.ty.k == ixInt {
		return "int"
	}
	return "*" + d.ty.name
}

// update: the struct value base with field (constructor field name) replaced by val
func (tr *ixTr) update(base string, sname string, field string, val string) string {
	if !ixMutual[sname] {
		return "{ " + base + " with " + field + " := " + val + " }"
	}
	parts := []string{ixUp(sname) + ".mk"}
	for _, f := range tr.ctorFields(tr.p.structs[sname]) {
		if f.name == field {
			parts = append(parts, ixParen(val))
		} else {
			parts = append(parts, ixParen(base)+"."+f.name)
		}
	}
	return "(" + strings.Join(parts, " ") + ")"
}

// ---------------------------------------------------------------------------------------------
// paths (lenses): root variable, then fields / list elements / type assertions

type ixStep struct {
	kind  string // "field" "list" "assert"
	name  string // field: constructor field name (min0 …); assert: Dyn constructor
	sname string // field: the struct the field belongs to
	idx   string // list: the (frozen) index, a Lean atom
	ty    ixTy   // the type after the step
}

type ixLens struct {
	root  *ixVar
	steps []ixStep
}

func (l *ixLens) ty() ixTy {
	if len(l.steps) == 0 {
		return l.root.ty
	}
	return l.steps[len(l.steps)-1].ty
}

// lensOf resolves e to a path; index expressions are evaluated once (frozen) into bs.
func (tr *ixTr) lensOf(e ast.Expr, env ixEnv, bs *[]ixBind) *ixLens {
	switch x := e.(type) {
	case *ast.ParenExpr:
		return tr.lensOf(x.X, env, bs)
	case *ast.StarExpr:
		return tr.lensOf(x.X, env, bs)
	case *ast.UnaryExpr:
		if x.Op == token.AND {
			return tr.lensOf(x.X, env, bs)
		}
	case *ast.Ident:
		v := env[x.Name]
		if v == nil {
			ixFail("unknown identifier %s", x.Name)
		}
		if v.lens != nil {
			return &ixLens{v.lens.root, append([]ixStep{}, v.lens.steps...)}
		}
		if v.ty.k == ixArr {
			ixFail("array %s used as a path", x.Name)
		}
		return &ixLens{root: v}
	case *ast.SelectorExpr:
		if v := tr.place(x, env); v != nil && v.ty.k != ixArr {
			return &ixLens{root: v}
		}
		l := tr.lensOf(x.X, env, bs)
		t := l.ty()
		if t.k != ixStruct {
			ixFail("field selection %s on a non-struct", ixSrc(tr.p.fset, x))
		}
		for _, f := range tr.p.structs[t.name].fields {
			if f.name == x.Sel.Name {
				if f.ty.k == ixArr {
					ixFail("array field %s used as a whole", f.name)
				}
				l.steps = append(l.steps, ixStep{kind: "field", name: ixLow(f.name), sname: t.name, ty: f.ty})
				return l
			}
		}
		ixFail("unknown field %s", x.Sel.Name)
	case *ast.IndexExpr:
		if v := tr.place(x.X, env); v != nil && v.ty.k == ixArr {
			if k, ok := tr.constIndex(x.Index, env); ok && k >= 0 && int(k) < v.ty.n {
				return &ixLens{root: &ixVar{lean: v.elems[k], ty: *v.ty.elem}}
			}
			ixFail("computed index of an array kept as variables, as a path")
		}
		if se, ok := x.X.(*ast.SelectorExpr); ok {
			// x.f[k] with f an exploded array field and k constant
			var sink []ixBind
			save := tr.tmp
			base := tr.lensTry(se.X, env, &sink)
			tr.tmp = save
			if base != nil && base.ty().k == ixStruct {
				for _, f := range tr.p.structs[base.ty().name].fields {
					if f.name == se.Sel.Name && f.ty.k == ixArr {
						k, ok := tr.constIndex(x.Index, env)
						if !ok || k < 0 || int(k) >= f.ty.n {
							ixFail("index of array field %s is not a constant in range", f.name)
						}
						l := tr.lensOf(se.X, env, bs)
						l.steps = append(l.steps, ixStep{kind: "field", name: fmt.Sprintf("%s%d", ixLow(f.name), k), sname: base.ty().name, ty: *f.ty.elem})
						return l
					}
				}
			}
		}
		l := tr.lensOf(x.X, env, bs)
		if l.ty().k != ixList {
			ixFail("index expression %s as a path", ixSrc(tr.p.fset, x))
		}
		i, _ := tr.expr(x.Index, env, bs, ixTy{k: ixInt})
		if strings.ContainsAny(i, " (") {
			t := tr.fresh("ix")
			*bs = append(*bs, ixBind{pat: t, rhs: i})
			i = t
		}
		l.steps = append(l.steps, ixStep{kind: "list", idx: i, ty: *l.ty().elem})
		return l
	case *ast.TypeAssertExpr:
		l := tr.lensOf(x.X, env, bs)
		if l.ty().k != ixIface || x.Type == nil {
			ixFail("type assertion %s", ixSrc(tr.p.fset, x))
		}
		t := tr.p.typeOf(x.Type)
		l.steps = append(l.steps, ixStep{kind: "assert", name: tr.dynCtor(t), ty: t})
		return l
	}
	ixFail("%s is not a path", ixSrc(tr.p.fset, e))
	return nil
}

func (tr *ixTr) lensTry(e ast.Expr, env ixEnv, bs *[]ixBind) (l *ixLens) {
	defer func() {
		if r := recover(); r != nil {
			if _, ok := r.(ixRefuse); !ok {
				panic(r)
			}
			l = nil
		}
	}()
	return tr.lensOf(e, env, bs)
}

// lensVals: the values along the path: vals[0] = the root, vals[i] = after step i-1.
func (tr *ixTr) lensVals(l *ixLens, bs *[]ixBind) []string {
	cur := tr.whole(l.root)
	vals := []string{cur}
	for _, st := range l.steps {
		switch st.kind {
		case "field":
			cur = ixParen(cur) + "." + st.name
		case "list":
			t := tr.fresh("el")
			*bs = append(*bs, ixBind{t, "listAt " + ixParen(cur) + " " + st.idx, true})
			cur = t
		case "assert":
			t := tr.fresh("dn")
			*bs = append(*bs, ixBind{t, "Dyn.as" + ixUp(st.name) + " " + ixParen(cur), true})
			cur = t
		}
		vals = append(vals, cur)
	}
	return vals
}

func (tr *ixTr) lensGet(l *ixLens, bs *[]ixBind) string {
	vals := tr.lensVals(l, bs)
	return vals[len(vals)-1]
}

// lensSet stores val at the path.
func (tr *ixTr) lensSet(l *ixLens, val string, env ixEnv, bs *[]ixBind) {
	var vals []string
	if len(l.steps) > 0 {
		pre := &ixLens{l.root, l.steps[:len(l.steps)-1]}
		vals = tr.lensVals(pre, bs)
	}
	for i := len(l.steps) - 1; i >= 0; i-- {
		st := l.steps[i]
		base := vals[i]
		switch st.kind {
		case "field":
			val = tr.update(base, st.sname, st.name, val)
		case "list":
			t := tr.fresh("ls")
			*bs = append(*bs, ixBind{t, "listSet " + ixParen(base) + " " + st.idx + " " + ixParen(val), true})
			val = t
		case "assert":
			val = "(Dyn." + st.name + " " + ixParen(val) + ")"
		}
	}
	root := l.root
	if root.konst {
		ixFail("assignment to an unrolled loop variable")
	}
	if root.view != nil {
		pat := ixDestruct + tr.viewPat(root)
		tr.refutable[pat] = tr.p.structs[root.sname].linked
		*bs = append(*bs, ixBind{pat: pat, rhs: val})
		return
	}
	*bs = append(*bs, ixBind{pat: root.lean, rhs: val})
}

// arrayElems: the element expressions of a fixed array kept as variables / fields
func (tr *ixTr) arrayElems(e ast.Expr, env ixEnv, bs *[]ixBind) ([]string, ixTy, bool) {
	if v := tr.place(e, env); v != nil && v.ty.k == ixArr {
		return v.elems, *v.ty.elem, true
	}
	if se, ok := e.(*ast.SelectorExpr); ok {
		var sink []ixBind
		if _, t := tr.exprTry(se.X, env, &sink); t.k == ixStruct {
			for _, f := range tr.p.structs[t.name].fields {
				if f.name == se.Sel.Name && f.ty.k == ixArr {
					x, _ := tr.expr(se.X, env, bs, ixTy{})
					var els []string
					for j := 0; j < f.ty.n; j++ {
						els = append(els, fmt.Sprintf("%s.%s%d", ixParen(x), ixLow(f.name), j))
					}
					return els, *f.ty.elem, true
				}
			}
		}
	}
	return nil, ixTy{}, false
}

// coerce: a value stored where an interface{} is expected
func (tr *ixTr) coerce(val string, from, to ixTy) (string, ixTy) {
	if to.k == ixIface && from.k != ixIface && from.k != ixBad {
		return "(Dyn." + tr.dynCtor(from) + " " + ixParen(val) + ")", to
	}
	return val, from
}

// whileLoop: for i := lo; cond; i++ whose body assigns i or what cond depends on.
func (tr *ixTr) whileLoop(s *ast.ForStmt, ivName string, lo ast.Expr, env ixEnv, cx *ixCtx, next ixK) *ixNode {
	if !tr.fn.fuel {
		tr.fn.fuel = true
		panic(ixRetry{})
	}
	var bs []ixBind
	los, _ := tr.expr(lo, env, &bs, ixTy{k: ixInt})
	benv := env.clone()
	iv := tr.declare(benv, ivName, ixTy{k: ixInt})
	bs = append(bs, ixBind{pat: iv.lean + " : Int", rhs: los})
	sc := tr.scan([]ast.Stmt{s.Body, s.Post}, benv)
	tup := ixTup(ixNames(sc.out))
	tr.sawMon = true
	var cbs []ixBind
	cenv := benv.clone()
	c, ct := tr.expr(s.Cond, cenv, &cbs, ixTy{k: ixBool})
	if ct.k != ixBool {
		ixFail("loop condition is not a bool")
	}
	condN := tr.wrap(cbs, ixLeaf("some "+ixParen(c)))
	leaf := func(tag string) ixK {
		return func(ixEnv) *ixNode { return ixLeaf("some (Flow." + tag + " " + tup + ")") }
	}
	cx2 := &ixCtx{brk: leaf("brk"), retWrap: func(v string) *ixNode { return ixLeaf("some (Flow.ret " + ixParen(v) + ")") }}
	post := func(e ixEnv) *ixNode { return tr.stmt(s.Post, benv.clone(), cx2, leaf("next"), true) }
	cx2.cont = post
	bodyN := tr.stmts(s.Body.List, benv.clone(), cx2, post, false)
	outer := env
	ex, r := tr.fresh("ex"), tr.fresh("r")
	cn := tr.fresh("cond")
	m := &ixNode{kind: "match", cond: ex, arms: []ixArm{{"Exit.ret " + r, cx.retWrap(r)}, {"Exit.done " + tup, next(outer)}}}
	loop := &ixNode{kind: "bind", pat: ex, rhs: "loopW fuel " + tup + " " + cn + " (fun " + tup + " => ", rhsN: bodyN, post: ")", a: m}
	return tr.wrap(bs, &ixNode{kind: "let", pat: cn, rhs: "fun " + tup + " => ", rhsN: condN, rhsMon: true, a: loop})
}
