/-
  GeoProofs.Glue.ParseGlueMPoly — generated parseJSONMultiPolygon = the "MultiPolygon" arm of the model's
  parse (finite ring positions).
-/
import GeoProofs.Glue.ParseGlueMLine

set_option linter.unusedSimpArgs false

namespace Geo.PGlue
open Geo Geo.PGen

abbrev GMPoly := PGen.MultiPolygon MF GRect Obj (List Obj) MStr

/-- the positions the polygon reader delivers for v are finite -/
def PolyFinV (v : JVal) : Prop :=
  ∀ rings ex, parsePolyCoords v = .ok (rings, ex) → ∀ r ∈ rings, ∀ p ∈ r, p.fin = true

def mPolyElem (o : POpts) (v : JVal) : Except PErr Obj :=
  match parsePolyCoords v with
  | .error e => .error e
  | .ok (rings, ex) =>
    if rings.isEmpty || !(rings.all ringOK) then .error .coordsInvalid else .ok (Obj.polygon (mkPoly o rings) rings ex)

theorem ringsCheckM (rec : RecT) (g : GMPoly) (coords : List (List FP)) (ex : Option GExtra) :
    ∀ (rings : List (List FP)), (∀ r ∈ rings, ∀ p ∈ r, finFP p = true) →
    forRange (PGen.parseJSONMultiPolygon_body1 (mops rec) g coords ex) rings none =
      if (rings.map (·.map toPos)).all ringOK then Exit.done none
      else Exit.ret ((g, some .errCoordinatesInvalid, coords, ex), false) := by
  intro rings
  induction rings with
  | nil => intro _; simp [forRange]
  | cons r rs ih =>
    intro hfin
    have hb : PGen.parseJSONMultiPolygon_body1 (mops rec) g coords ex r none =
        if ringBadG rec r then Flow.ret ((g, some .errCoordinatesInvalid, coords, ex), false) else Flow.next none := rfl
    rw [forRange, hb, ringBad_eq rec r (hfin r (by simp))]
    cases hr : ringOK (r.map toPos)
    · simp [hr]
    · simp only [Bool.not_true, Bool.false_eq_true, if_false]
      rw [ih (fun r' h' => hfin r' (by simp [h']))]
      simp [hr]

theorem newPoly_eq (o : POpts) (e : List FP) (hs : List (List FP)) :
    newPoly e hs (some (o.indexKind, (o.indexGeometry : Int))) =
      (mkPoly o (List.map (fun x => List.map toPos x) (e :: hs)), List.map (fun x => List.map toPos x) (e :: hs)) := by
  simp [newPoly, mkPoly]

theorem mpoly_fold (rec : RecT) (keys : Option GKeys) (o : POpts) :
    ∀ (vs : List JVal) (xs : List RPair), xs.map (·.2) = vs.map some → (∀ v ∈ vs, PolyFinV v) →
    ∀ (g : GMPoly) (c0 : List (List FP)) (e0 : Option GExtra),
    match vs.mapM (mPolyElem o) with
    | .ok cs => ∃ c' e',
        searchFold (PGen.parseJSONMultiPolygon_lit2 (mops rec) keys (some (optsG o))) xs (g, none, c0, e0) =
          ({ g with collection := { g.collection with children := g.collection.children ++ cs } }, none, c', e')
    | .error e => e = .coordsInvalid ∧
        (searchFold (PGen.parseJSONMultiPolygon_lit2 (mops rec) keys (some (optsG o))) xs (g, none, c0, e0)).2.1 = some .errCoordinatesInvalid := by
  intro vs
  induction vs with
  | nil => intro xs h _ g c0 e0; simp at h; subst h; simp [searchFold, pure, Except.pure]
  | cons v vs ih =>
    intro xs h hfinAll g c0 e0
    cases xs with
    | nil => simp at h
    | cons x xs =>
      simp only [List.map_cons, List.cons.injEq] at h
      obtain ⟨hx, hxs⟩ := h
      obtain ⟨k, x2⟩ := x
      simp only at hx; subst hx
      rw [mapM_cons_except]
      have hp := polyCoords_some rec keys (some (optsG o)) v
      generalize hGeq : PGen.parseJSONPolygonCoords (mops rec) keys (some v) (some (optsG o)) = G at hp
      have hstep : PGen.parseJSONMultiPolygon_lit2 (mops rec) keys (some (optsG o)) (k, some v) (g, none, c0, e0) =
          PGen.parseJSONMultiPolygon_lit2 (mops rec) keys (some (optsG o)) (k, some v) (g, none, c0, e0) := rfl
      conv at hstep =>
        rhs
        unfold PGen.parseJSONMultiPolygon_lit2
        simp only [m_geometryNewPoly, m_objectOfPolygon, m_zeroGeometryPoly, deref_some, toGeometryOpts_eq, hGeq]
      cases hpc : parsePolyCoords v with
      | error e =>
        rw [hpc] at hp
        obtain ⟨he, hg⟩ := hp
        have hme : mPolyElem o v = .error e := by unfold mPolyElem; rw [hpc]
        rw [hme]
        simp only
        refine ⟨he, ?_⟩
        rw [searchFold, hstep]
        simp [hg]
      | ok pe =>
        obtain ⟨rings, ex⟩ := pe
        have hfv := hfinAll v (by simp) rings ex hpc
        rw [hpc] at hp
        obtain ⟨h1, h2, h3⟩ := hp
        obtain ⟨gc, gex, gerr⟩ := G
        simp only at h1 h2 h3 hstep
        subst h3 h1 h2
        have hfg : ∀ r ∈ gc, ∀ p ∈ r, finFP p = true := by
          intro r hr p hp'
          have := hfv (r.map toPos) (List.mem_map_of_mem hr) (toPos p) (List.mem_map_of_mem hp')
          rwa [toPos_fin] at this
        rw [ringsCheckM rec g gc gex gc hfg] at hstep
        cases gc with
        | nil =>
          have hme : mPolyElem o v = .error .coordsInvalid := by unfold mPolyElem; rw [hpc]; rfl
          rw [hme]
          simp only
          refine ⟨trivial, ?_⟩
          rw [searchFold, hstep]
          simp
        | cons e hs =>
          have hne : ((Int.ofNat (e :: hs).length == 0)) = false := by
            rw [Int.ofNat_eq_natCast]; simp; omega
          have hholes : (if decide (Int.ofNat (e :: hs).length > 1) = true then sliceFrom (e :: hs) 1 else []) = hs := by
            cases hs <;> simp [sliceFrom]
            omega
          have he0 : arrAt ([] : List FP) (e :: hs) 0 = e := by simp [arrAt]
          rw [hne, hholes, he0, newPoly_eq] at hstep
          simp only [Option.isNone_none, Bool.not_true, Bool.false_eq_true, if_false] at hstep
          cases hall : (List.map (fun x => List.map toPos x) (e :: hs)).all ringOK
          · have hme : mPolyElem o v = .error .coordsInvalid := by
              unfold mPolyElem; rw [hpc]; simp only []; rw [hall]; rfl
            rw [hme]
            rw [hall] at hstep
            simp only [Bool.false_eq_true, if_false] at hstep
            simp only
            refine ⟨trivial, ?_⟩
            rw [searchFold, hstep]
          · have hme : mPolyElem o v = .ok (Obj.polygon (mkPoly o (List.map (fun x => List.map toPos x) (e :: hs)))
                (List.map (fun x => List.map toPos x) (e :: hs)) (gex.map exM)) := by
              unfold mPolyElem; rw [hpc]; simp only []; rw [hall]; rfl
            rw [hme]
            rw [hall] at hstep
            simp only [if_true] at hstep
            simp only
            rw [searchFold_cons_true _ _ _ _ _ hstep]
            have := ih xs hxs (fun v' h' => hfinAll v' (by simp [h'])) { g with collection := { g.collection with children := g.collection.children ++
                    [Obj.polygon (mkPoly o (List.map (fun x => List.map toPos x) (e :: hs)))
                      (List.map (fun x => List.map toPos x) (e :: hs)) (gex.map exM)] } } (e :: hs) gex
            cases hm : vs.mapM (mPolyElem o) with
            | error e' => rw [hm] at this; simpa using this
            | ok cs =>
              rw [hm] at this
              obtain ⟨c', e', hf⟩ := this
              exact ⟨c', e', by rw [hf]; simp⟩

theorem mPolyElem_fun (o : POpts) :
    (fun v => do
      let (rings, ex) ← parsePolyCoords v
      if rings.isEmpty || !(rings.all ringOK) then throw PErr.coordsInvalid
      pure (Obj.polygon (mkPoly o rings) rings ex)) = mPolyElem o := by
  funext v
  unfold mPolyElem
  cases parsePolyCoords v with
  | error e => rfl
  | ok pe =>
    obtain ⟨rings, ex⟩ := pe
    cases h : (rings.isEmpty || !(rings.all ringOK)) <;> simp [bind, Except.bind, h, throw, throwThe, MonadExceptOf.throw, pure, Except.pure]

/-- the "MultiPolygon" arm of the model's parse -/
def mMultiPolygon (o : POpts) (k : Keys) : Except PErr Obj :=
  match reqArray k.coordinates .coordsMissing .coordsInvalid with
  | .error e => .error e
  | .ok rc =>
    match rc.elems.mapM (mPolyElem o) with
    | .error e => .error e
    | .ok children =>
      let ob := mkColl o .multiPolygon children (withMembers none k)
      if o.requireValid && !ob.valid then .error .coordsInvalid else .ok ob

theorem coll_valid_mpoly (cs : List Obj) (ex : Option Geo.Extra) (b : Bool) :
    (Obj.coll .multiPolygon cs ex b).valid = Obj.allValid cs := by simp [Obj.valid]

theorem multiPolygon_eq (rec : RecT) (gk : GKeys) (o : POpts) (k : Keys) (hk : KeysRel gk k)
    (hfin : ∀ rc, k.coordinates = some rc → ∀ v ∈ rc.elems, PolyFinV v) :
    Agree (PGen.parseJSONMultiPolygon (mops rec) (some gk) (some (optsG o))) (mMultiPolygon o k) := by
  unfold PGen.parseJSONMultiPolygon mMultiPolygon reqArray
  simp only [m_gjsonResultExists, m_gjsonResultIsArray, m_gjsonResultForEach, m_nilObject, m_objectOfMultiPolygon,
    m_multiPolygonValid, m_zeroParseOptions, deref_some, hk.coords]
  cases hc : k.coordinates with
  | none => simp [Agree, errG]
  | some rc =>
    cases hb : rc.isArray with
    | false => simp [Agree, errG, hb]
    | true =>
      simp only [hb, Option.isSome_some, Bool.not_true, Bool.false_eq_true, if_false, ↓reduceIte]
      have hf := mpoly_fold rec (some gk) o rc.elems (forEach (some rc)) (forEach_vals rc) (hfin rc hc)
        (PGen.zeroMultiPolygon (mops rec)) [] none
      cases hm : rc.elems.mapM (mPolyElem o) with
      | error e =>
        rw [hm] at hf
        obtain ⟨he, h1⟩ := hf
        simp [Agree, errG, he, h1, hm]
      | ok cs =>
        rw [hm] at hf
        obtain ⟨c', e', hs⟩ := hf
        simp only [hm]
        rw [hs]
        simp only [Option.isNone_none, Bool.not_true, Bool.false_eq_true, if_false]
        have hb' := bbox_eq rec none gk (some (optsG o)) k hk
        have hz : (PGen.zeroMultiPolygon (mops rec)).collection.extra = none := rfl
        have hzc : (PGen.zeroMultiPolygon (mops rec)).collection.children = [] := rfl
        simp only [hz, hzc, List.nil_append]
        generalize PGen.parseBBoxAndExtras (mops rec) none (some gk) (some (optsG o)) = B at hb' ⊢
        obtain ⟨hb1, hb2⟩ := hb'
        simp only [hb1, Option.isNone_none, Bool.not_true, Bool.false_eq_true, if_false]
        have ho : (optsG o).requireValid = o.requireValid := rfl
        rw [ho, initRect_obj rec .multiPolygon _ o rfl]
        simp only [hb2, Option.map_none, collObj, mkColl, coll_valid_mpoly]
        cases o.requireValid <;> cases hv : Obj.allValid cs <;> simp [Agree, errG, hv]

#print axioms multiPolygon_eq

end Geo.PGlue
