/-
  GeoProofs.ContainsConvex.Verts — vertices against edges of a series; points of a simple ring
  lie in every closed half-plane that has its vertices.
-/
import GeoProofs.ContainsConvex.SegInside

namespace Geo
namespace CC
open GL Jordan Contains

/-- every vertex of a non-empty series is an end point of one of its edges -/
theorem vertex_on_edge (pts : Array Pt) (closed : Bool)
    (hne : ((closed && pts.size < 3) || pts.size < 2) = false) (p : Pt) (hp : p ∈ pts.toList) :
    ∃ e ∈ Spec.edges pts.toList closed, e.1 = p ∨ e.2 = p := by
  obtain ⟨hns, h2⟩ := numSegmentsOf_ge pts closed hne
  obtain ⟨i, hi, rfl⟩ := List.getElem_of_mem hp
  have hi' : i < pts.size := by simpa using hi
  by_cases hlt : i < numSegmentsOf pts closed
  · refine ⟨_, segmentAt_mem_edges pts closed i hlt, Or.inl ?_⟩
    show pts[i]! = _
    rw [getElem!_pos pts i hi']
    simp
  · have hi1 : i - 1 < numSegmentsOf pts closed := by omega
    refine ⟨_, segmentAt_mem_edges pts closed (i - 1) hi1, Or.inr ?_⟩
    show (segmentAtOf pts (i - 1)).b = _
    rw [segmentAtOf_b pts (i - 1) (by omega), show i - 1 + 1 = i from by omega,
      getElem!_pos pts i hi']
    simp

/-- a predicate holds at both ends of every edge iff it holds at every vertex -/
theorem edges_all_iff (pts : Array Pt) (closed : Bool)
    (hne : ((closed && pts.size < 3) || pts.size < 2) = false) (f : Pt → Prop) :
    (∀ e ∈ Spec.edges pts.toList closed, f e.1 ∧ f e.2) ↔ ∀ p ∈ pts.toList, f p := by
  constructor
  · intro h p hp
    obtain ⟨e, he, h1 | h1⟩ := vertex_on_edge pts closed hne p hp
    · rw [← h1]; exact (h e he).1
    · rw [← h1]; exact (h e he).2
  · intro h e he
    obtain ⟨h1, h2⟩ := Sym.edges_ends pts.toList closed e he
    exact ⟨h _ h1, h _ h2⟩

/-- every point of the closed region of ANY closed chain `C` lies in a closed half-plane that
    has the vertices of `C` -/
theorem region_in_halfplane (C : List Pt) (a b : Pt) (hab : a ≠ b) (σ : Rat)
    (sig : σ = 1 ∨ σ = -1) (hall : ∀ v ∈ C, 0 ≤ σ * Spec.cross a b v) (x : Pt)
    (hx : Spec.inRing (Spec.edges C true) x = true) : 0 ≤ σ * Spec.cross a b x := by
  by_cases hb : Spec.onBoundary (Spec.edges C true) x = true
  · unfold Spec.onBoundary at hb
    rw [List.any_eq_true] at hb
    obtain ⟨f, hf, hon⟩ := hb
    obtain ⟨h1, h2⟩ := Sym.edges_ends C true f hf
    exact scross_nonneg_onSeg σ ((spec_onSeg_iff _ _ _).1 hon) (hall _ h1) (hall _ h2)
  · have hb' : Spec.onBoundary (Spec.edges C true) x = false := by simpa using hb
    have hs : Spec.strictIn (Spec.edges C true) x = true := by
      unfold Spec.inRing at hx
      unfold Spec.strictIn
      rw [hb'] at hx ⊢
      simpa using hx
    exact (scross_pos_of_strictIn C a b hab σ sig hall x hs).le

/-- **region ⊆ region**: if every vertex of a closed chain `C` is in the closed region of a
    simple convex ring, so is every point of the closed region of `C` -/
theorem CvxRing.region_sub {L : List Pt} {P : Nat → Pt} {n : Nat} {σ : Rat} (R : CvxRing L P n σ)
    (C : List Pt) (hC : ∀ v ∈ C, Spec.inRing (Spec.edges L true) v = true) (x : Pt)
    (hx : Spec.inRing (Spec.edges C true) x = true) :
    Spec.inRing (Spec.edges L true) x = true := by
  apply R.inAll_inRing
  intro e he
  obtain ⟨i, -, rfl⟩ := R.mem_edge e he
  exact region_in_halfplane C _ _ (R.simple.ne i) σ R.sig
    (fun v hv => R.inRing_inAll v (hC v hv) (P i, P (i+1)) (R.edge_mem i)) x hx

end CC
end Geo
