/-
  Geo.Interleave — the generic half of "objects are immutable: concurrent queries are
  race-free and deterministic".

  A tiny shared-memory machine with arbitrarily interleaved threads.  If every step of every
  thread writes only locations it owns, and its outcome depends only on immutable-shared
  locations and its own locations, then for EVERY schedule

  * each thread's final local state and owned memory equal those of running it alone
    (`schedule_independent`, `permuted_schedules_agree`),
  * the shared region is never modified (`shared_unchanged`),
  * no two steps of different threads conflict (`race_free`, `race_free_pairwise`).

  Self-contained: core Lean only, no project imports.
-/

namespace Geo.Interleave

/-! ## The machine -/

abbrev Tid := Nat

abbrev Heap (Loc Val : Type) := Loc → Val

/-- What one atomic step of a thread does: new local state, the writes it performs
(in order), and the list of locations it read. -/
structure StepOut (Loc Val L : Type) where
  loc' : L
  writes : List (Loc × Val)
  reads : List Loc

/-- A program: the step function of each thread sees the heap and its own local state. -/
structure Prog (Loc Val L : Type) where
  step : Tid → Heap Loc Val → L → StepOut Loc Val L

structure Config (Loc Val L : Type) where
  heap : Heap Loc Val
  locals : Tid → L

section Machine

variable {Loc Val L : Type} [DecidableEq Loc]

/-- Apply a list of writes left to right; later writes win. -/
def applyWrites : Heap Loc Val → List (Loc × Val) → Heap Loc Val
  | h, [] => h
  | h, w :: ws => applyWrites (fun y => if y = w.1 then w.2 else h y) ws

/-- One atomic step of thread `t`. -/
def stepThread (P : Prog Loc Val L) (c : Config Loc Val L) (t : Tid) : Config Loc Val L :=
  let o := P.step t c.heap (c.locals t)
  { heap := applyWrites c.heap o.writes
    locals := fun u => if u = t then o.loc' else c.locals u }

/-- Run a whole schedule (a list of thread ids, one per atomic step). -/
def run (P : Prog Loc Val L) (c : Config Loc Val L) (sched : List Tid) : Config Loc Val L :=
  sched.foldl (stepThread P) c

/-- Thread `t` alone, for `n` steps. -/
def runSolo (P : Prog Loc Val L) (c : Config Loc Val L) (t : Tid) (n : Nat) : Config Loc Val L :=
  run P c (List.replicate n t)

/-- The trace of an execution: for each scheduled step, which thread ran and what it did. -/
def trace (P : Prog Loc Val L) : Config Loc Val L → List Tid → List (Tid × StepOut Loc Val L)
  | _, [] => []
  | c, t :: s => (t, P.step t c.heap (c.locals t)) :: trace P (stepThread P c t) s

/-- The ownership discipline.  `owner x = none` means `x` is shared and immutable after
construction; `owner x = some t` means `x` is private to thread `t` (its activation-local
memory and its caller-provided output buffer). -/
structure Disciplined (P : Prog Loc Val L) (owner : Loc → Option Tid) : Prop where
  /-- every step of thread `t`, from ANY heap and local state, writes only locations owned by `t` -/
  writes_owned : ∀ t h l, ∀ w ∈ (P.step t h l).writes, owner w.1 = some t
  /-- and its outcome depends only on the locations it may read: shared ones and its own -/
  reads_local : ∀ t h h' l,
    (∀ x, (owner x = none ∨ owner x = some t) → h x = h' x) → P.step t h l = P.step t h' l

/-- A conflict is two steps by different threads touching the same location, at least one of
them writing it. -/
def Conflict (a b : Tid × StepOut Loc Val L) : Prop :=
  a.1 ≠ b.1 ∧ ∃ x,
    (x ∈ a.2.writes.map Prod.fst ∧ (x ∈ b.2.writes.map Prod.fst ∨ x ∈ b.2.reads)) ∨
    (x ∈ b.2.writes.map Prod.fst ∧ x ∈ a.2.reads)

/-! ## Basic facts -/

@[simp] theorem run_nil (P : Prog Loc Val L) (c : Config Loc Val L) : run P c [] = c := rfl

@[simp] theorem run_cons (P : Prog Loc Val L) (c : Config Loc Val L) (t : Tid) (s : List Tid) :
    run P c (t :: s) = run P (stepThread P c t) s := rfl

theorem run_append (P : Prog Loc Val L) (c : Config Loc Val L) (s₁ s₂ : List Tid) :
    run P c (s₁ ++ s₂) = run P (run P c s₁) s₂ := by
  simp [run, List.foldl_append]

@[simp] theorem runSolo_zero (P : Prog Loc Val L) (c : Config Loc Val L) (t : Tid) :
    runSolo P c t 0 = c := rfl

theorem runSolo_succ (P : Prog Loc Val L) (c : Config Loc Val L) (t : Tid) (n : Nat) :
    runSolo P c t (n + 1) = runSolo P (stepThread P c t) t n := rfl

theorem runSolo_eq_run_replicate (P : Prog Loc Val L) (c : Config Loc Val L) (t : Tid) (n : Nat) :
    runSolo P c t n = run P c (List.replicate n t) := rfl

/-- The value `applyWrites` leaves at `x` depends only on the old value at `x`. -/
theorem applyWrites_congr_at (ws : List (Loc × Val)) (h h' : Heap Loc Val) (x : Loc)
    (hx : h x = h' x) : applyWrites h ws x = applyWrites h' ws x := by
  induction ws generalizing h h' with
  | nil => exact hx
  | cons w ws ih =>
    simp only [applyWrites]
    apply ih
    simp only [hx]

/-- Locations not written keep their value. -/
theorem applyWrites_of_not_written (ws : List (Loc × Val)) (h : Heap Loc Val) (x : Loc)
    (hx : ∀ w ∈ ws, w.1 ≠ x) : applyWrites h ws x = h x := by
  induction ws generalizing h with
  | nil => rfl
  | cons w ws ih =>
    simp only [applyWrites]
    rw [ih _ (fun w' hw' => hx w' (List.mem_cons_of_mem _ hw'))]
    have : x ≠ w.1 := fun e => hx w List.mem_cons_self e.symm
    simp [this]

theorem applyWrites_nil (h : Heap Loc Val) : applyWrites h [] = h := rfl

/-! ## Trace bookkeeping -/

theorem trace_length (P : Prog Loc Val L) (c : Config Loc Val L) (s : List Tid) :
    (trace P c s).length = s.length := by
  induction s generalizing c with
  | nil => rfl
  | cons t s ih => simp [trace, ih]

theorem trace_map_fst (P : Prog Loc Val L) (c : Config Loc Val L) (s : List Tid) :
    (trace P c s).map Prod.fst = s := by
  induction s generalizing c with
  | nil => rfl
  | cons t s ih => simp [trace, ih]

/-- Every trace entry is a genuine step of its thread from some heap and local state; in
fact from the configuration reached by the prefix of the schedule preceding it. -/
theorem trace_entry (P : Prog Loc Val L) (c : Config Loc Val L) (s : List Tid)
    (a : Tid × StepOut Loc Val L) (ha : a ∈ trace P c s) :
    ∃ pre post, s = pre ++ a.1 :: post ∧
      a.2 = P.step a.1 (run P c pre).heap ((run P c pre).locals a.1) := by
  induction s generalizing c with
  | nil => simp [trace] at ha
  | cons t s ih =>
    simp only [trace, List.mem_cons] at ha
    rcases ha with rfl | ha
    · exact ⟨[], s, rfl, rfl⟩
    · obtain ⟨pre, post, hs, he⟩ := ih _ ha
      exact ⟨t :: pre, post, by simp [hs], by simpa using he⟩

/-- The `i`-th trace entry is the step taken by the `i`-th scheduled thread from the
configuration reached after the first `i` steps. -/
theorem trace_getElem (P : Prog Loc Val L) (c : Config Loc Val L) (s : List Tid)
    (i : Nat) (hi : i < s.length) :
    (trace P c s)[i]'(by rw [trace_length]; exact hi) =
      (s[i], P.step s[i] (run P c (s.take i)).heap ((run P c (s.take i)).locals s[i])) := by
  induction s generalizing c i with
  | nil => simp at hi
  | cons t s ih =>
    cases i with
    | zero => simp [trace]
    | succ i =>
      simp only [trace, List.getElem_cons_succ, List.take_succ_cons, run_cons]
      exact ih _ i (by simpa using hi)

/-! ## The view of a thread -/

/-- Two configurations look the same to thread `t`: same local state of `t`, and the same
contents at every location `t` may read (shared or owned by `t`). -/
def View (owner : Loc → Option Tid) (t : Tid) (c c' : Config Loc Val L) : Prop :=
  c.locals t = c'.locals t ∧
  ∀ x, (owner x = none ∨ owner x = some t) → c.heap x = c'.heap x

omit [DecidableEq Loc] in
theorem View.refl (owner : Loc → Option Tid) (t : Tid) (c : Config Loc Val L) :
    View owner t c c := ⟨rfl, fun _ _ => rfl⟩

omit [DecidableEq Loc] in
theorem View.symm {owner : Loc → Option Tid} {t : Tid} {c c' : Config Loc Val L}
    (h : View owner t c c') : View owner t c' c :=
  ⟨h.1.symm, fun x hx => (h.2 x hx).symm⟩

omit [DecidableEq Loc] in
theorem View.trans {owner : Loc → Option Tid} {t : Tid} {c c' c'' : Config Loc Val L}
    (h : View owner t c c') (h' : View owner t c' c'') : View owner t c c'' :=
  ⟨h.1.trans h'.1, fun x hx => (h.2 x hx).trans (h'.2 x hx)⟩

variable {P : Prog Loc Val L} {owner : Loc → Option Tid}

/-- A step of thread `u` leaves every location not owned by `u` untouched. -/
theorem stepThread_heap_of_not_owned (hd : Disciplined P owner) (c : Config Loc Val L)
    (u : Tid) (x : Loc) (hx : owner x ≠ some u) :
    (stepThread P c u).heap x = c.heap x := by
  simp only [stepThread]
  apply applyWrites_of_not_written
  intro w hw e
  exact hx (e ▸ hd.writes_owned u c.heap (c.locals u) w hw)

theorem stepThread_locals_of_ne (c : Config Loc Val L) (u t : Tid) (hne : t ≠ u) :
    (stepThread P c u).locals t = c.locals t := by
  simp [stepThread, hne]

/-- A step by another thread is invisible to `t`. -/
theorem view_step_other (hd : Disciplined P owner) (c : Config Loc Val L) (u t : Tid)
    (hne : u ≠ t) : View owner t (stepThread P c u) c := by
  refine ⟨stepThread_locals_of_ne c u t (Ne.symm hne), ?_⟩
  intro x hx
  apply stepThread_heap_of_not_owned hd
  rcases hx with hx | hx
  · simp [hx]
  · rw [hx]; intro e; exact hne (Option.some.inj e).symm

/-- Thread `t` stepping from two configurations that look the same to it yields two
configurations that look the same to it. -/
theorem view_step_self (hd : Disciplined P owner) {c c' : Config Loc Val L} {t : Tid}
    (hv : View owner t c c') : View owner t (stepThread P c t) (stepThread P c' t) := by
  have hstep : P.step t c.heap (c.locals t) = P.step t c'.heap (c'.locals t) := by
    rw [hv.1]; exact hd.reads_local t c.heap c'.heap _ hv.2
  refine ⟨?_, ?_⟩
  · simp [stepThread, hstep]
  · intro x hx
    simp only [stepThread, hstep]
    exact applyWrites_congr_at _ _ _ _ (hv.2 x hx)

theorem view_runSolo (hd : Disciplined P owner) {c c' : Config Loc Val L} {t : Tid}
    (hv : View owner t c c') (n : Nat) :
    View owner t (runSolo P c t n) (runSolo P c' t n) := by
  induction n generalizing c c' with
  | zero => exact hv
  | succ n ih =>
    rw [runSolo_succ, runSolo_succ]
    exact ih (view_step_self hd hv)

/-- The core simulation: after any schedule, what thread `t` can see is exactly what it would
see had it run alone for as many steps as it was scheduled. -/
theorem view_run_solo (hd : Disciplined P owner) (c : Config Loc Val L) (sched : List Tid)
    (t : Tid) : View owner t (run P c sched) (runSolo P c t (sched.count t)) := by
  induction sched generalizing c with
  | nil => exact View.refl _ _ _
  | cons u s ih =>
    rw [run_cons]
    by_cases hu : u = t
    · subst hu
      rw [List.count_cons_self, runSolo_succ]
      exact ih _
    · rw [List.count_cons_of_ne hu]
      exact (ih _).trans (view_runSolo hd (view_step_other hd c u t hu) _)

/-! ## Main theorems -/

/-- The shared (immutable) region is never modified, whatever the schedule. -/
theorem shared_unchanged (hd : Disciplined P owner) (c : Config Loc Val L) (sched : List Tid) :
    ∀ x, owner x = none → (run P c sched).heap x = c.heap x := by
  intro x hx
  induction sched generalizing c with
  | nil => rfl
  | cons u s ih =>
    rw [run_cons, ih]
    exact stepThread_heap_of_not_owned hd c u x (by simp [hx])

/-- Determinism under arbitrary interleaving: thread `t`'s final local state and owned memory
are those of running `t` alone for the number of steps it was scheduled. -/
theorem schedule_independent (hd : Disciplined P owner) (c : Config Loc Val L)
    (sched : List Tid) (t : Tid) :
    (run P c sched).locals t = (runSolo P c t (sched.count t)).locals t ∧
    ∀ x, owner x = some t →
      (run P c sched).heap x = (runSolo P c t (sched.count t)).heap x := by
  have hv := view_run_solo hd c sched t
  exact ⟨hv.1, fun x hx => hv.2 x (Or.inr hx)⟩

/-- Memory owned by thread `t` is touched by nobody else: in particular if `t` is never
scheduled, its memory and local state are unchanged. -/
theorem unscheduled_untouched (hd : Disciplined P owner) (c : Config Loc Val L)
    (sched : List Tid) (t : Tid) (ht : t ∉ sched) :
    (run P c sched).locals t = c.locals t ∧
    ∀ x, owner x = some t → (run P c sched).heap x = c.heap x := by
  have h := schedule_independent hd c sched t
  rw [List.count_eq_zero_of_not_mem ht] at h
  exact h

/-- Two schedules with the same per-thread step counts give every thread the same result. -/
theorem permuted_schedules_agree (hd : Disciplined P owner) (c : Config Loc Val L)
    (s₁ s₂ : List Tid) (h : ∀ t, s₁.count t = s₂.count t) (t : Tid) :
    (run P c s₁).locals t = (run P c s₂).locals t := by
  rw [(schedule_independent hd c s₁ t).1, (schedule_independent hd c s₂ t).1, h t]

/-- Stronger form: the two schedules give the *same heap* on every location that has an owner
or is shared, i.e. everywhere, and the same local states. -/
theorem permuted_schedules_agree_config (hd : Disciplined P owner) (c : Config Loc Val L)
    (s₁ s₂ : List Tid) (h : ∀ t, s₁.count t = s₂.count t) :
    run P c s₁ = run P c s₂ := by
  have hl : (run P c s₁).locals = (run P c s₂).locals :=
    funext (permuted_schedules_agree hd c s₁ s₂ h)
  have hh : (run P c s₁).heap = (run P c s₂).heap := by
    funext x
    cases hx : owner x with
    | none => rw [shared_unchanged hd c s₁ x hx, shared_unchanged hd c s₂ x hx]
    | some t =>
      rw [(schedule_independent hd c s₁ t).2 x hx, (schedule_independent hd c s₂ t).2 x hx, h t]
  cases h₁ : run P c s₁; cases h₂ : run P c s₂
  rw [h₁] at hl hh; rw [h₂] at hl hh
  simp only at hl hh
  rw [hl, hh]

/-- Race freedom.  Under the discipline, and provided the declared read set of every step is
within what the thread may read, for ANY initial configuration and ANY schedule, no two
entries of the execution trace conflict. -/
theorem race_free (hd : Disciplined P owner)
    (hreads : ∀ t h l, ∀ x ∈ (P.step t h l).reads, owner x = none ∨ owner x = some t)
    (c : Config Loc Val L) (sched : List Tid) :
    ∀ a ∈ trace P c sched, ∀ b ∈ trace P c sched, ¬ Conflict a b := by
  intro a ha b hb
  obtain ⟨pa, _, _, hea⟩ := trace_entry P c sched a ha
  obtain ⟨pb, _, _, heb⟩ := trace_entry P c sched b hb
  -- writes of an entry are owned by its thread; reads are shared or owned by its thread
  have hw : ∀ (e : Tid × StepOut Loc Val L) (h : Heap Loc Val) (l : L),
      e.2 = P.step e.1 h l → ∀ x, x ∈ e.2.writes.map Prod.fst → owner x = some e.1 := by
    intro e h l he x hx
    obtain ⟨w, hw, rfl⟩ := List.mem_map.1 hx
    rw [he] at hw
    exact hd.writes_owned _ _ _ w hw
  have hr : ∀ (e : Tid × StepOut Loc Val L) (h : Heap Loc Val) (l : L),
      e.2 = P.step e.1 h l → ∀ x, x ∈ e.2.reads → owner x = none ∨ owner x = some e.1 := by
    intro e h l he x hx
    rw [he] at hx
    exact hreads _ _ _ x hx
  have hwa := hw a _ _ hea
  have hwb := hw b _ _ heb
  have hra := hr a _ _ hea
  have hrb := hr b _ _ heb
  rintro ⟨hne, x, ⟨hxa, hxb | hxb⟩ | ⟨hxb, hxa⟩⟩
  · have h1 := hwa x hxa
    have h2 := hwb x hxb
    rw [h1] at h2
    exact hne (Option.some.inj h2)
  · have h1 := hwa x hxa
    rcases hrb x hxb with h2 | h2
    · rw [h1] at h2; cases h2
    · rw [h1] at h2; exact hne (Option.some.inj h2)
  · have h1 := hwb x hxb
    rcases hra x hxa with h2 | h2
    · rw [h1] at h2; cases h2
    · rw [h1] at h2; exact hne (Option.some.inj h2).symm

/-- Race freedom, positional form: the `i`-th and `j`-th steps of any execution — each being the
step its scheduled thread takes from the configuration reached by the preceding prefix of the
schedule — do not conflict. -/
theorem race_free_pairwise (hd : Disciplined P owner)
    (hreads : ∀ t h l, ∀ x ∈ (P.step t h l).reads, owner x = none ∨ owner x = some t)
    (c : Config Loc Val L) (sched : List Tid) (i j : Nat)
    (hi : i < sched.length) (hj : j < sched.length) :
    ¬ Conflict
      (sched[i], P.step sched[i] (run P c (sched.take i)).heap
        ((run P c (sched.take i)).locals sched[i]))
      (sched[j], P.step sched[j] (run P c (sched.take j)).heap
        ((run P c (sched.take j)).locals sched[j])) := by
  rw [← trace_getElem P c sched i hi, ← trace_getElem P c sched j hj]
  exact race_free hd hreads c sched _ (List.getElem_mem _) _ (List.getElem_mem _)

omit [DecidableEq Loc] in
/-- A program that never writes is disciplined with respect to the "everything is shared"
ownership map. -/
theorem disciplined_of_readonly (P : Prog Loc Val L)
    (hro : ∀ t h l, (P.step t h l).writes = []) :
    Disciplined P (fun _ => none) where
  writes_owned := by
    intro t h l w hw
    rw [hro] at hw
    cases hw
  reads_local := by
    intro t h h' l hh
    have : h = h' := funext fun x => hh x (Or.inl rfl)
    rw [this]

/-- The special case used for pure query methods: no writes at all.  The heap is never
modified and every thread's final local state is that of running it alone. -/
theorem readonly_interleaving (P : Prog Loc Val L)
    (hro : ∀ t h l, (P.step t h l).writes = [])
    (c : Config Loc Val L) (sched : List Tid) (t : Tid) :
    (run P c sched).heap = c.heap ∧
    (run P c sched).locals t = (runSolo P c t (sched.count t)).locals t := by
  have hd := disciplined_of_readonly P hro
  exact ⟨funext fun x => shared_unchanged hd c sched x rfl,
    (schedule_independent hd c sched t).1⟩

/-- A read-only program is trivially race free (no entry of any trace writes anything),
independently of the declared read sets. -/
theorem readonly_race_free (P : Prog Loc Val L)
    (hro : ∀ t h l, (P.step t h l).writes = [])
    (c : Config Loc Val L) (sched : List Tid) :
    ∀ a ∈ trace P c sched, ∀ b ∈ trace P c sched, ¬ Conflict a b := by
  intro a ha b hb
  obtain ⟨_, _, _, hea⟩ := trace_entry P c sched a ha
  obtain ⟨_, _, _, heb⟩ := trace_entry P c sched b hb
  rintro ⟨_, x, ⟨hxa, _⟩ | ⟨hxb, _⟩⟩
  · rw [hea, hro] at hxa; cases hxa
  · rw [heb, hro] at hxb; cases hxb

end Machine

/-! ## Non-vacuity: a concrete two-thread instance

`Loc = Nat`; cells `0..9` are shared and immutable, cell `x ≥ 10` belongs to thread `x % 2`.
Thread `t ∈ {0,1}` repeatedly reads shared cell `0` and its own accumulator cell `10 + t`,
adds the former into the latter, and counts its steps in its local state.  Other thread ids
do nothing. -/

namespace Demo

def owner (x : Nat) : Option Tid := if x < 10 then none else some (x % 2)

def prog : Prog Nat Nat Nat where
  step t h l :=
    if t < 2 then
      { loc' := l + 1, writes := [(10 + t, h (10 + t) + h 0)], reads := [0, 10 + t] }
    else
      { loc' := l, writes := [], reads := [] }

theorem owner_own (t : Nat) (ht : t < 2) : owner (10 + t) = some t := by
  unfold owner
  have h : (10 + t) % 2 = t := by omega
  rw [if_neg (by omega), h]

theorem owner_zero : owner 0 = none := by decide

theorem disciplined : Disciplined prog owner where
  writes_owned := by
    intro t h l w hw
    unfold prog at hw
    by_cases ht : t < 2
    · simp only [if_pos ht, List.mem_singleton] at hw
      subst hw
      exact owner_own t ht
    · simp only [if_neg ht] at hw
      cases hw
  reads_local := by
    intro t h h' l hh
    unfold prog
    by_cases ht : t < 2
    · simp only [if_pos ht]
      rw [hh 0 (Or.inl owner_zero), hh (10 + t) (Or.inr (owner_own t ht))]
    · simp only [if_neg ht]

theorem reads_ok : ∀ t h l, ∀ x ∈ (prog.step t h l).reads, owner x = none ∨ owner x = some t := by
  intro t h l x hx
  unfold prog at hx
  by_cases ht : t < 2
  · simp only [if_pos ht, List.mem_cons, List.not_mem_nil, or_false] at hx
    rcases hx with rfl | rfl
    · exact Or.inl owner_zero
    · exact Or.inr (owner_own t ht)
  · simp only [if_neg ht] at hx
    cases hx

/-- Initial configuration: shared cell 0 holds 7, everything else 0; all locals 0. -/
def c₀ : Config Nat Nat Nat := { heap := fun x => if x = 0 then 7 else 0, locals := fun _ => 0 }

/-- The hypotheses of all the main theorems are jointly satisfiable, and the machine really
computes: under the interleaving `[0,1,0,0,1]` thread 0 accumulates `3*7` and thread 1 `2*7`,
exactly as when run alone, and the shared cell is intact. -/
example :
    Disciplined prog owner ∧
    (∀ t h l, ∀ x ∈ (prog.step t h l).reads, owner x = none ∨ owner x = some t) ∧
    (run prog c₀ [0, 1, 0, 0, 1]).heap 10 = 21 ∧
    (run prog c₀ [0, 1, 0, 0, 1]).heap 11 = 14 ∧
    (run prog c₀ [0, 1, 0, 0, 1]).heap 0 = 7 ∧
    (run prog c₀ [0, 1, 0, 0, 1]).locals 0 = 3 ∧
    (runSolo prog c₀ 0 3).heap 10 = 21 ∧
    (runSolo prog c₀ 0 3).locals 0 = 3 ∧
    (run prog c₀ [1, 1, 0, 0, 0]).heap 10 = 21 :=
  ⟨disciplined, reads_ok, by decide, by decide, by decide, by decide, by decide, by decide,
    by decide⟩

/-- The general theorems instantiate on the demo. -/
example (sched : List Tid) (t : Tid) :
    (run prog c₀ sched).locals t = (runSolo prog c₀ t (sched.count t)).locals t :=
  (schedule_independent disciplined c₀ sched t).1

example (sched : List Tid) : (run prog c₀ sched).heap 0 = 7 :=
  shared_unchanged disciplined c₀ sched 0 owner_zero

example (sched : List Tid) :
    ∀ a ∈ trace prog c₀ sched, ∀ b ∈ trace prog c₀ sched, ¬ Conflict a b :=
  race_free disciplined reads_ok c₀ sched

/-- The conflict relation is not vacuous either: an undisciplined pair of steps does conflict. -/
example : Conflict (Loc := Nat) (Val := Nat) (L := Nat)
    (0, { loc' := 0, writes := [(5, 1)], reads := [] })
    (1, { loc' := 0, writes := [], reads := [5] }) :=
  ⟨by decide, 5, Or.inl ⟨by simp, Or.inr (by simp)⟩⟩

end Demo

#print axioms shared_unchanged
#print axioms schedule_independent
#print axioms unscheduled_untouched
#print axioms permuted_schedules_agree
#print axioms permuted_schedules_agree_config
#print axioms race_free
#print axioms race_free_pairwise
#print axioms disciplined_of_readonly
#print axioms readonly_interleaving
#print axioms readonly_race_free
#print axioms view_run_solo
#print axioms Demo.disciplined
#print axioms Demo.reads_ok

end Geo.Interleave
