package main

import (
	"encoding/hex"
	"fmt"
	"math"
	"strconv"
	"strings"
)

// object-level suites: c08 (options), c09 (algebra), c10 (collections), c11 (attributes), c17 (writers)

type oref struct {
	id   string
	kind string
}

func ptsFlat(pts []ipt) string {
	var sb strings.Builder
	for i, p := range pts {
		if i > 0 {
			sb.WriteByte(' ')
		}
		sb.WriteString(strconv.Itoa(p.x))
		sb.WriteByte(' ')
		sb.WriteString(strconv.Itoa(p.y))
	}
	return sb.String()
}

// leaf objects near the square [0,10u]^2 so that pairs interact
func newLeaf(o *out, r *rng, u int, kind int) oref {
	id := o.newID("O")
	cfg := idxConfigs[r.intn(len(idxConfigs))]
	rp := func() ipt { return ipt{r.rangeI(-2, 12) * u, r.rangeI(-2, 12) * u} }
	switch kind {
	case 0:
		p := rp()
		o.op("onew %s point %d %d", id, p.x, p.y)
		return oref{id, "Point"}
	case 1:
		p := rp()
		o.op("onew %s spoint %d %d", id, p.x, p.y)
		return oref{id, "SimplePoint"}
	case 2:
		p := rp()
		o.op("onew %s pointz %d %d %d", id, p.x, p.y, r.rangeI(-50, 50))
		return oref{id, "Point"}
	case 3:
		n := r.rangeI(2, 5)
		if r.coin(0.1) {
			n = r.rangeI(0, 1) // empty line
		}
		var pts []ipt
		for len(pts) < n {
			p := rp()
			if n < 2 && r.coin(0.5) { // half of the parts that occupy no space stay in range (known finding D21 otherwise)
				p = ipt{r.rangeI(-2, 12), r.rangeI(-2, 12)}
			}
			pts = append(pts, p)
		}
		o.op("onew %s line %d %d %s", id, cfg[0], cfg[1], ptsStr(pts))
		return oref{id, "LineString"}
	case 4:
		s := genPoly(r, u)
		parts := []string{strconv.Itoa(len(s.rings))}
		for _, ring := range s.rings {
			parts = append(parts, ptsStr(ring))
		}
		o.op("onew %s polygon %d %d %s", id, cfg[0], cfg[1], strings.Join(parts, " "))
		return oref{id, "Polygon"}
	case 5:
		a, b := rp(), rp()
		if a.x > b.x {
			a.x, b.x = b.x, a.x
		}
		if a.y > b.y {
			a.y, b.y = b.y, a.y
		}
		o.op("onew %s rect %d %d %d %d", id, a.x, a.y, b.x, b.y)
		return oref{id, "Rect"}
	default:
		o.op("onew %s polygon 0 0 0", id) // NewPolygon(nil): the empty polygon
		return oref{id, "Polygon"}
	}
}

func newColl(o *out, r *rng, u int, depth int) oref {
	id := o.newID("O")
	switch r.intn(5) {
	case 0:
		n := r.pick([]int{0, 1, 2, 3, 5, 70})
		var pts []ipt
		for i := 0; i < n; i++ {
			pts = append(pts, ipt{r.rangeI(-2, 12) * u, r.rangeI(-2, 12) * u})
		}
		o.op("onew %s mp %d %s", id, n, ptsFlat(pts))
		return oref{id, "MultiPoint"}
	case 1:
		n := r.pick([]int{0, 1, 2, 3, 66})
		parts := []string{strconv.Itoa(n)}
		for i := 0; i < n; i++ {
			m := r.rangeI(2, 4)
			if r.coin(0.15) {
				m = 1
			}
			var pts []ipt
			for k := 0; k < m; k++ {
				if m < 2 && r.coin(0.5) {
					pts = append(pts, ipt{r.rangeI(-2, 12), r.rangeI(-2, 12)})
				} else {
					pts = append(pts, ipt{r.rangeI(-2, 12) * u, r.rangeI(-2, 12) * u})
				}
			}
			parts = append(parts, fmt.Sprintf("0 0 %s", ptsStr(pts)))
		}
		o.op("onew %s mls %s", id, strings.Join(parts, " "))
		return oref{id, "MultiLineString"}
	case 2:
		n := r.pick([]int{0, 1, 2, 3})
		parts := []string{strconv.Itoa(n)}
		for i := 0; i < n; i++ {
			s := genPoly(r, u)
			dx, dy := r.rangeI(-3, 6)*u, r.rangeI(-3, 6)*u
			s = s.mapPts(func(p ipt) ipt { return ipt{p.x + dx, p.y + dy} })
			pp := []string{"0 0", strconv.Itoa(len(s.rings))}
			for _, ring := range s.rings {
				pp = append(pp, ptsStr(ring))
			}
			parts = append(parts, strings.Join(pp, " "))
		}
		o.op("onew %s mpg %s", id, strings.Join(parts, " "))
		return oref{id, "MultiPolygon"}
	default:
		n := r.pick([]int{0, 1, 2, 3, 4})
		var ids []string
		for i := 0; i < n; i++ {
			var c oref
			if depth < 2 && r.coin(0.25) {
				c = newColl(o, r, u, depth+1)
			} else {
				c = newLeaf(o, r, u, r.intn(7))
			}
			if r.coin(0.3) {
				f := o.newID("O")
				o.op("onew %s feature %s - invalid", f, c.id)
				c = oref{f, "Feature"}
			}
			ids = append(ids, c.id)
		}
		if r.coin(0.5) {
			o.op("onew %s gc %d %s", id, n, strings.Join(ids, " "))
			return oref{id, "GeometryCollection"}
		}
		o.op("onew %s fc %d %s", id, n, strings.Join(ids, " "))
		return oref{id, "FeatureCollection"}
	}
}

func newAny(o *out, r *rng, u int) oref {
	if r.coin(0.35) {
		return newColl(o, r, u, 0)
	}
	c := newLeaf(o, r, u, r.intn(7))
	if r.coin(0.2) {
		f := o.newID("O")
		o.op("onew %s feature %s - invalid", f, c.id)
		return oref{f, "Feature"}
	}
	return c
}

// a geometry-level shape (gen.go) as a leaf object
func newShapeObj(o *out, r *rng, s shape) oref {
	id := o.newID("O")
	cfg := idxConfigs[r.intn(len(idxConfigs))]
	switch s.kind {
	case "pt":
		o.op("onew %s point %d %d", id, s.rings[0][0].x, s.rings[0][0].y)
		return oref{id, "Point"}
	case "rect":
		a, b := s.rings[0][0], s.rings[0][1]
		o.op("onew %s rect %d %d %d %d", id, a.x, a.y, b.x, b.y)
		return oref{id, "Rect"}
	case "line":
		o.op("onew %s line %d %d %s", id, cfg[0], cfg[1], ptsStr(s.rings[0]))
		return oref{id, "LineString"}
	default:
		parts := []string{strconv.Itoa(len(s.rings))}
		for _, ring := range s.rings {
			parts = append(parts, ptsStr(ring))
		}
		o.op("onew %s polygon %d %d %s", id, cfg[0], cfg[1], strings.Join(parts, " "))
		return oref{id, "Polygon"}
	}
}

func genC09(o *out, r *rng, thorough bool) {
	n := 1200
	if thorough {
		n = 30000
	}
	// contact configurations: a shape and a probe built from its vertices, edge midpoints and
	// quarter points (the geometry-level generators of C02/C03), as objects, sometimes wrapped
	for i := 0; i < n/2; i++ {
		u := 16
		sa := genPoly(r, u)
		if r.coin(0.35) {
			sa = genProbe(r, sa, u)
		}
		sb := genProbe(r, sa, u)
		a, b := newShapeObj(o, r, sa), newShapeObj(o, r, sb)
		if r.coin(0.15) {
			f := o.newID("O")
			o.op("onew %s feature %s - invalid", f, b.id)
			b = oref{f, "Feature"}
		}
		o.op("opred %s %s", a.id, b.id)
		o.op("xalgebra %s %s", a.id, b.id)
		o.op("xalgebra %s %s", b.id, a.id)
		if i%60 == 59 {
			o.op("oreset")
		}
	}
	o.op("oreset")
	for i := 0; i < n; i++ {
		u := 16
		a, b := newAny(o, r, u), newAny(o, r, u)
		o.op("opred %s %s", a.id, b.id)
		o.op("xalgebra %s %s", a.id, b.id)
		o.op("xalgebra %s %s", a.id, a.id)
		// transparency: a Feature answers as its geometry
		fa := o.newID("O")
		o.op("onew %s feature %s %s %s", fa, a.id, hx(`{"id":1}`), astOf(`{"id":1}`))
		g := o.newGroup()
		o.op("same %d opred %s %s", g, a.id, b.id)
		o.op("same %d opred %s %s", g, fa, b.id)
		if i%60 == 59 {
			o.op("oreset")
		}
	}
	// Rect as the equivalent five-point polygon, SimplePoint as Point
	for i := 0; i < n/2; i++ {
		u := 16
		b := newAny(o, r, u)
		x0, y0 := r.rangeI(-2, 8)*u, r.rangeI(-2, 8)*u
		x1, y1 := x0+r.rangeI(0, 6)*u, y0+r.rangeI(0, 6)*u
		if r.coin(0.3) {
			// a rectangle covering everything the generators produce: Contains can hold for collections
			// (with empty members, nested, wrapped) as a whole
			x0, y0, x1, y1 = -3*u, -3*u, 13*u, 13*u
		}
		rid, pid := o.newID("O"), o.newID("O")
		o.op("onew %s rect %d %d %d %d", rid, x0, y0, x1, y1)
		o.op("onew %s polygon 0 0 1 5 %d %d %d %d %d %d %d %d %d %d", pid, x0, y0, x1, y0, x1, y1, x0, y1, x0, y0)
		g := o.newGroup()
		o.op("same %d opred %s %s", g, rid, b.id)
		o.op("same %d opred %s %s", g, pid, b.id)
		p := ipt{r.rangeI(-2, 12) * u, r.rangeI(-2, 12) * u}
		s1, s2 := o.newID("O"), o.newID("O")
		o.op("onew %s point %d %d", s1, p.x, p.y)
		o.op("onew %s spoint %d %d", s2, p.x, p.y)
		g = o.newGroup()
		o.op("same %d opred %s %s", g, s1, b.id)
		o.op("same %d opred %s %s", g, s2, b.id)
		if i%60 == 59 {
			o.op("oreset")
		}
	}
	// circles (implementation-only laws)
	for i := 0; i < n/4; i++ {
		o.op("xcircle %d", r.next()%(1<<62))
	}
}

func genC10(o *out, r *rng, thorough bool) {
	n := 900
	if thorough {
		n = 20000
	}
	for i := 0; i < n; i++ {
		u := 16
		c := newColl(o, r, u, 0)
		o.op("ochildren %s", c.id)
		o.op("oindexed %s", c.id)
		o.op("oattrs %s", c.id)
		for k := 0; k < 4; k++ {
			x := newAny(o, r, u)
			o.op("opred %s %s", c.id, x.id)
		}
		for k := 0; k < 3; k++ {
			a, b := ipt{r.rangeI(-3, 12) * u, r.rangeI(-3, 12) * u}, ipt{r.rangeI(-3, 12) * u, r.rangeI(-3, 12) * u}
			if a.x > b.x {
				a.x, b.x = b.x, a.x
			}
			if a.y > b.y {
				a.y, b.y = b.y, a.y
			}
			for _, st := range []int{0, 1, 2} {
				o.op("osearch %s %d %d %d %d %d", c.id, a.x, a.y, b.x, b.y, st)
			}
		}
		o.op("osearch %s ninf ninf pinf pinf 0", c.id)
		if i%40 == 39 {
			o.op("oreset")
		}
	}
	genC10Empties(o, r, n/6)
	// Circle features among the children, under child-index thresholds (implementation-only oracle)
	for i := 0; i < n/20+10; i++ {
		o.op("xcircleindex %d", r.next()%1000000)
	}
	// the same collection text under different child-index thresholds
	for i := 0; i < n/3; i++ {
		text, fl := genWFColl(r)
		if fl.mixDims {
			continue
		}
		cnt := strings.Count(text, `"type"`)
		var ids []string
		for _, ic := range []int{0, 1, cnt - 1, cnt, 64} {
			if ic < 0 {
				ic = 0
			}
			id := o.newID("C")
			emitParse(o, "oparsewf", id, optsStr(ic, 64, 2, false, false, false, false), text)
			ids = append(ids, id)
		}
		x := newAny(o, r, 16)
		g := o.newGroup()
		for _, id := range ids {
			o.op("same %d opred %s %s", g, id, x.id)
		}
		g = o.newGroup()
		for _, id := range ids {
			o.op("same %d oattrs %s", g, id)
		}
		g = o.newGroup()
		for _, id := range ids {
			o.op("same %d osearch %s 0 0 96 96 0", g, id)
		}
		g = o.newGroup()
		for _, id := range ids {
			o.op("same %d ojson %s", g, id)
		}
		if i%30 == 29 {
			o.op("oreset")
		}
	}
}

// collections with empty children in front of / between the non-empty ones, under child-index
// thresholds that are really reached (2, 3, 4): the index must hold exactly the non-empty children
func genC10Empties(o *out, r *rng, n int) {
	for i := 0; i < n; i++ {
		k := r.rangeI(3, 8)
		var cs []string
		var pts []ipt
		for j := 0; j < k; j++ {
			if r.coin(0.35) {
				cs = append(cs, []string{`{"type":"GeometryCollection","geometries":[]}`, `{"type":"MultiPoint","coordinates":[]}`, `{"type":"MultiLineString","coordinates":[]}`, `{"type":"MultiPolygon","coordinates":[]}`}[r.intn(4)])
				continue
			}
			p := ipt{r.rangeI(0, 6), r.rangeI(0, 6)}
			pts = append(pts, p)
			if r.coin(0.7) {
				cs = append(cs, fmt.Sprintf(`{"type":"Point","coordinates":[%d,%d]}`, p.x, p.y))
			} else {
				cs = append(cs, fmt.Sprintf(`{"type":"LineString","coordinates":[[%d,%d],[%d,%d]]}`, p.x, p.y, p.x+1, p.y))
			}
		}
		var text string
		if r.coin(0.5) {
			text = `{"type":"GeometryCollection","geometries":[` + strings.Join(cs, ",") + `]}`
		} else {
			var fs []string
			for _, c := range cs {
				fs = append(fs, `{"type":"Feature","geometry":`+c+`,"properties":{}}`)
			}
			text = `{"type":"FeatureCollection","features":[` + strings.Join(fs, ",") + `]}`
		}
		var ids []string
		for _, ic := range []int{0, 1, 2, 3, 4, 64} {
			id := o.newID("C")
			emitParse(o, "oparsewf", id, optsStr(ic, 64, 2, false, false, false, false), text)
			ids = append(ids, id)
			o.op("ochildren %s", id)
			o.op("oindexed %s", id)
		}
		for _, p := range pts {
			x := o.newID("O")
			o.op("onew %s point %d %d", x, p.x*16, p.y*16)
			g := o.newGroup()
			for _, id := range ids {
				o.op("same %d opred %s %s", g, id, x)
			}
		}
		g := o.newGroup()
		for _, id := range ids {
			o.op("same %d osearch %s ninf ninf pinf pinf 0", g, id)
		}
		g = o.newGroup()
		for _, id := range ids {
			o.op("same %d osearch %s 0 0 48 48 0", g, id)
		}
		g = o.newGroup()
		for _, id := range ids {
			o.op("same %d oattrs %s", g, id)
		}
		if i%20 == 19 {
			o.op("oreset")
		}
	}
	o.op("oreset")
}

// a collection document in regime E
func genWFColl(r *rng) (string, docFlags) {
	for {
		g := newDocGen(r, true)
		var text string
		switch r.intn(3) {
		case 0:
			var cs []string
			for i := r.rangeI(0, 5); i > 0; i-- {
				cs = append(cs, g.geometry(2))
			}
			text = g.object("GeometryCollection", "geometries", g.arr(cs), false)
		case 1:
			var cs []string
			for i := r.rangeI(0, 5); i > 0; i-- {
				cs = append(cs, g.object("Feature", "geometry", g.geometry(2), true))
			}
			text = g.object("FeatureCollection", "features", g.arr(cs), false)
		default:
			var ps []string
			for i := r.rangeI(0, 6); i > 0; i-- {
				ps = append(ps, g.pos(2))
			}
			text = g.object("MultiPoint", "coordinates", g.arr(ps), false)
		}
		if !g.flags.circle {
			g.flags.planar = true
			return text, g.flags
		}
	}
}

func genC11(o *out, r *rng, thorough bool) {
	n := 3000
	if thorough {
		n = 60000
	}
	for i := 0; i < n/6; i++ {
		// exactly one out-of-range position, at the first / last / a middle place; rings closed or not
		k := r.rangeI(3, 7)
		var pts []ipt
		for j := 0; j < k; j++ {
			pts = append(pts, ipt{r.rangeI(-170, 170) * 16, r.rangeI(-80, 80) * 16})
		}
		bad := ipt{r.pick([]int{-181, 181, 0, 200}) * 16, r.pick([]int{91, -91, 95, 0}) * 16}
		if bad.x == 0 && bad.y == 0 {
			bad.y = 91 * 16
		}
		pos := r.pick([]int{0, k - 1, r.intn(k)})
		if r.coin(0.6) {
			pts[pos] = bad
		} else if r.coin(0.7) {
			// positions exactly ON the limits are valid
			pts[pos] = ipt{r.pick([]int{-180, 180, 0, 17}) * 16, r.pick([]int{90, -90, 90, 3}) * 16}
		}
		if i%7 == 3 {
			// rectangles and point collections touching the limits exactly; closed rings of three positions [A,B,A]
			id := o.newID("O")
			x0, y0 := r.rangeI(-180, 170), r.rangeI(-90, 80)
			switch r.intn(4) {
			case 0:
				o.op("onew %s rect %d %d %d %d", id, x0*16, y0*16, r.pick([]int{180, x0 + 5}) *16, r.pick([]int{90, 90, y0 + 5})*16)
			case 1:
				o.op("onew %s mp 2 %d %d %d %d", id, x0*16, y0*16, r.pick([]int{180, -180, 10})*16, r.pick([]int{90, -90})*16)
			case 2:
				o.op("onew %s polygon 0 0 1 3 %d %d %d %d %d %d", id, x0*16, y0*16, (x0+7)*16, (y0+4)*16, x0*16, y0*16)
			default:
				o.op("onew %s polygon 0 0 2 %s 3 %d %d %d %d %d %d", id, ptsStr(rectRing(-160, -160, 160, 160)), 16, 32, 48, 80, 16, 32)
			}
			o.op("oattrs %s", id)
			gid := o.newID("O")
			o.op("onew %s gc 1 %s", gid, id)
			o.op("oattrs %s", gid)
		}
		closed := r.coin(0.5)
		if closed {
			pts = append(pts, pts[0])
		}
		id := o.newID("O")
		if i%5 == 4 {
			// series that occupy no space (a line of < 2 positions, a ring of < 3) still report
			// their out-of-range positions; also as a hole of a proper polygon
			m := r.rangeI(0, 2)
			dpts := []ipt{}
			for j := 0; j < m; j++ {
				dpts = append(dpts, ipt{r.rangeI(-170, 170) * 16, r.rangeI(-80, 80) * 16})
			}
			if m > 0 && r.coin(0.7) {
				dpts[r.intn(m)] = bad
			}
			switch r.intn(3) {
			case 0:
				if m == 2 {
					dpts = dpts[:1]
				}
				o.op("onew %s line 0 0 %s", id, ptsStr(dpts))
			case 1:
				o.op("onew %s polygon 0 0 1 %s", id, ptsStr(dpts))
			default:
				o.op("onew %s polygon 0 0 2 %s %s", id, ptsStr(rectRing(0, 0, 160, 160)), ptsStr(dpts))
			}
			o.op("oattrs %s", id)
			continue
		}
		if r.coin(0.6) {
			o.op("onew %s polygon 0 0 1 %s", id, ptsStr(pts))
		} else {
			o.op("onew %s line 0 0 %s", id, ptsStr(pts))
		}
		o.op("oattrs %s", id)
		if r.coin(0.3) {
			gid := o.newID("O")
			o.op("onew %s gc 1 %s", gid, id)
			o.op("oattrs %s", gid)
		}
		if i%100 == 99 {
			o.op("oreset")
		}
	}
	o.op("oreset")
	for i := 0; i < n; i++ {
		u := r.pick([]int{1, 16, 16, 256})
		x := newAny(o, r, u)
		o.op("oattrs %s", x.id)
		if i%100 == 99 {
			o.op("oreset")
		}
	}
	// parsed documents (regime E)
	for i := 0; i < n/2; i++ {
		text, fl := genWF(r, true)
		if !fl.planar || fl.mixDims {
			continue
		}
		id := o.newID("D")
		emitParse(o, "oparsewf", id, randOptsNoRV(r), text)
		o.op("oattrs %s", id)
		if i%100 == 99 {
			o.op("oreset")
		}
	}
}

func randOptsNoRV(r *rng) string {
	return optsStr(r.pick([]int{0, 1, 2, 64}), r.pick([]int{0, 1, 4, 64}), r.pick([]int{0, 1, 2}), false, r.coin(0.3), r.coin(0.15), r.coin(0.3))
}

// C08: the same text under a matrix of options
func genC08(o *out, r *rng, thorough bool) {
	n := 500
	if thorough {
		n = 12000
	}
	for i := 0; i < n; i++ {
		text, fl := genWF(r, true)
		if fl.mixDims || fl.badUnits {
			continue
		}
		if i%5 == 2 {
			// rectangles and almost-rectangles: only exact ones may be replaced under AllowRects
			g := newDocGen(r, true)
			text = `{"type":"Polygon","coordinates":` + g.rectPolyCoords() + `}`
			fl = docFlags{planar: true}
		}
		if i%97 == 13 {
			// a perfect rectangle with a negative-zero ordinate (known finding D18 under AllowRects)
			w, h := r.rangeI(1, 40), r.rangeI(1, 40)
			text = fmt.Sprintf(`{"type":"Polygon","coordinates":[[[0,%d],[%d,%d],[%d,%d],[-0,%d],[0,%d]]]}`, -h, w, -h, w, h, h, -h)
			fl = docFlags{planar: true}
		}
		d20 := false
		var d20dx, d20dy, d20k int
		if i%97 == 57 {
			// a polygon whose ring touches itself, with enough segments for the R-tree to split
			// (known finding D20: inclusive contains depends on the index kind)
			d20 = true
			d20dx, d20dy, d20k = r.rangeI(-50, 50), r.rangeI(-20, 20), r.rangeI(1, 3)
			base := [][2]int{{0, 0}, {8, 0}, {16, 0}, {24, 0}, {64, 0}, {64, 64}, {62, 58}, {60, 52}, {58, 46}, {54, 34}, {48, 16}, {32, 0}, {28, 8}, {24, 16}, {20, 24}, {12, 40}, {0, 64}, {0, 0}}
			var ps []string
			for _, p := range base {
				ps = append(ps, fmt.Sprintf("[%d,%d]", p[0]*d20k+d20dx, p[1]*d20k+d20dy))
			}
			text = `{"type":"Polygon","coordinates":[[` + strings.Join(ps, ",") + `]]}`
			fl = docFlags{planar: true}
		}
		zig := false
		if i%97 == 31 || i%97 == 77 {
			// a zigzag line whose every segment straddles the centre line of its rectangle, so that all
			// of them stay in the quadtree's ROOT node: 255..258 items in one node (width boundaries of
			// the compressed format's item count; seeds W13-1 / W16-1)
			zig = true
			nseg := r.pick([]int{255, 256, 256, 257, 258})
			var ps []string
			for k := 0; k <= nseg; k++ {
				y := 3
				if k%2 == 1 {
					y = -3
				}
				ps = append(ps, fmt.Sprintf("[%g,%d]", float64(k)*0.5, y))
			}
			text = `{"type":"LineString","coordinates":[` + strings.Join(ps, ",") + `]}`
			fl = docFlags{planar: true}
		}
		np := strings.Count(text, "[")
		type variant struct{ opts string }
		var vs []string
		vs = append(vs, defaultOptsS)
		if d20 || zig {
			vs = append(vs, optsStr(64, 1, 1, false, false, false, false), optsStr(64, 0, 0, false, false, false, false))
		}
		for _, ig := range []int{0, 1, np, np + 1} {
			for _, k := range []int{1, 2} {
				if r.coin(0.5) {
					vs = append(vs, optsStr(r.pick([]int{0, 1, 2, 64}), ig, k, false, false, false, false))
				}
			}
		}
		vs = append(vs, optsStr(64, 64, 2, false, true, false, false), optsStr(64, 64, 2, false, false, false, true), optsStr(1, 1, 1, false, true, false, true))
		var ids []string
		for _, v := range vs {
			id := o.newID("V")
			emitParse(o, "oparsewf", id, v, text)
			ids = append(ids, id)
		}
		g := o.newGroup()
		for _, id := range ids {
			o.op("same %d ojson %s", g, id)
		}
		if fl.planar {
			g = o.newGroup()
			for _, id := range ids {
				o.op("same %d oattrs %s", g, id)
			}
			for k := 0; k < 3; k++ {
				x := newAny(o, r, 16)
				if d20 && k == 0 {
					xid := o.newID("O")
					o.op("onew %s line 0 0 2 %d %d %d %d", xid, 16*(32*d20k+d20dx), 16*d20dy, 16*(64*d20k+d20dx), 16*(48*d20k+d20dy))
					x = oref{xid, "LineString"}
				}
				if zig && k == 0 {
					xid := o.newID("O")
					o.op("onew %s point 0 48", xid) // the line's first vertex
					x = oref{xid, "Point"}
				}
				g = o.newGroup()
				for _, id := range ids {
					o.op("same %d opred %s %s", g, id, x.id)
				}
			}
		}
		if i%25 == 7 {
			o.op("xcircleindex %d", r.next()%1000000)
		}
		// require-valid = filter
		rvid := o.newID("V")
		emitParse(o, "oparserv", rvid, optsStr(64, 64, 2, true, false, false, false), text)
		// out-of-range variant of the same text: scale a coordinate up
		if r.coin(0.5) {
			bad := strings.Replace(text, "[", "[2000,95,", 1)
			emitParse(o, "oparserv", o.newID("V"), optsStr(64, 64, 2, true, r.coin(0.5), false, r.coin(0.5)), bad)
		}
		// perfect rectangles (replaced by a Rect under AllowRects), sometimes out of range, under
		// RequireValid combined with every representation option, bare and nested
		if i%4 == 3 {
			x0, y0 := r.rangeI(-170, 160), r.rangeI(-80, 70)
			x1, y1 := x0+r.rangeI(1, 20), y0+r.rangeI(1, 15)
			switch r.intn(4) {
			case 0:
				y1 = 95
			case 1:
				x1 = 185
			}
			rp := fmt.Sprintf(`{"type":"Polygon","coordinates":[[[%d,%d],[%d,%d],[%d,%d],[%d,%d],[%d,%d]]]}`, x0, y0, x1, y0, x1, y1, x0, y1, x0, y0)
			switch r.intn(4) {
			case 1:
				rp = `{"type":"Feature","geometry":` + rp + `,"properties":{}}`
			case 2:
				rp = `{"type":"GeometryCollection","geometries":[` + rp + `]}`
			case 3:
				rp = `{"type":"FeatureCollection","features":[{"type":"Feature","geometry":` + rp + `,"properties":null}]}`
			}
			emitParse(o, "oparserv", o.newID("V"), optsStr(r.pick([]int{0, 1, 64}), 64, 2, true, r.coin(0.5), false, r.coin(0.8)), rp)
		}
		// points with a null (= NaN) or out-of-range ordinate at any place of a MultiPoint, bare or nested
		if i%4 == 1 {
			k := r.rangeI(1, 5)
			badAt := r.intn(k + 1) // == k: none
			var ps []string
			for j := 0; j < k; j++ {
				x, y := strconv.Itoa(r.rangeI(-170, 170)), strconv.Itoa(r.rangeI(-80, 80))
				if j == badAt {
					switch r.intn(4) {
					case 0:
						x = "null"
					case 1:
						y = "null"
					case 2:
						x = "181"
					default:
						y = "-90.5"
					}
				}
				ps = append(ps, "["+x+","+y+"]")
			}
			mp := `{"type":"MultiPoint","coordinates":[` + strings.Join(ps, ",") + `]}`
			switch r.intn(4) {
			case 1:
				mp = `{"type":"Feature","geometry":` + mp + `,"properties":null}`
			case 2:
				mp = `{"type":"GeometryCollection","geometries":[{"type":"Point","coordinates":[1,1]},` + mp + `]}`
			case 3:
				mp = `{"type":"FeatureCollection","features":[{"type":"Feature","geometry":` + mp + `,"properties":{}}]}`
			}
			emitParse(o, "oparserv", o.newID("V"), optsStr(r.pick([]int{0, 1, 64}), 64, 2, true, r.coin(0.3), false, false), mp)
		}
		if i%30 == 29 {
			o.op("oreset")
		}
	}
}

func fltTok(f float64) string {
	u := math.Float64bits(f)
	b := make([]byte, 8)
	for i := 7; i >= 0; i-- {
		b[i] = byte(u)
		u >>= 8
	}
	return hex.EncodeToString(b) + ":" + hx(canonFloat(f))
}

var specialFloats = []float64{math.NaN(), math.Inf(1), math.Inf(-1), math.Copysign(0, -1), 0, 1, -1.5, math.MaxFloat64, -math.MaxFloat64,
	math.SmallestNonzeroFloat64, 1e21, 1e20, 1e-7, 123456789012345680000, 0.1, -122.4412, 37.7335, 1e-320, 4.9e-324, 180, -90}

func genC17(o *out, r *rng, thorough bool) {
	n := 1500
	if thorough {
		n = 40000
	}
	members := []string{"", "{}", "{ }", " {\n} ", `{"id":1}`, `{"properties":{"a":1}}`, `{"properties":null,"id":"x"}`, `{"feature":1}`,
		`{"feature":1,"id":2}`, `{"a":1,"feature":{"x":[1,2]},"b":2}`, `[1,2]`, `"str"`, `5`, `{bad`, `{"a":1} x`, `{"id": 1 , "tags" : [ 1 , 2 ] }`,
		`{"id":"éé","n":1.50}`, `{"feature":1,"feature":2}`, `  {"bbox":[1,2,3,4]}  `, `null`, `{"properties" : { } }`,
		"{ \"a\" : \"q\\\"uote\" , \"b\" : [ 1 , 2 ] }", " {\"k\\\"ey\" :\t\"v\\\\\" ,\n\"n\" : { \"x\" : \"\\\\\\\"\" } } "}
	ff := func() string {
		if r.coin(0.4) {
			return fltTok(specialFloats[r.intn(len(specialFloats))])
		}
		return fltTok(float64(r.rangeI(-1800000, 1800000)) / 10000)
	}
	fps := func(n int) string {
		var s []string
		for i := 0; i < 2*n; i++ {
			s = append(s, ff())
		}
		return strings.Join(s, " ")
	}
	var pool []string
	for i := 0; i < n; i++ {
		id := o.newID("W")
		switch r.intn(9) {
		case 0:
			o.op("onewf %s point %s", id, fps(1))
		case 1:
			o.op("onewf %s spoint %s", id, fps(1))
		case 2:
			o.op("onewf %s pointz %s %s", id, fps(1), ff())
		case 3:
			o.op("onewf %s rect %s", id, fps(2))
		case 4:
			o.op("onewf %s circle %s %s %d", id, fps(1), ff(), r.pick([]int{0, 2, 3, 12, 64}))
		case 5:
			o.op("onewf %s line %s", id, fps(r.rangeI(0, 5)))
		case 6:
			nr := r.rangeI(0, 3)
			parts := []string{strconv.Itoa(nr)}
			for k := 0; k < nr; k++ {
				m := r.rangeI(0, 6)
				parts = append(parts, strconv.Itoa(m)+" "+fps(m))
			}
			o.op("onewf %s polygon %s", id, strings.TrimSpace(strings.Join(parts, " ")))
		case 7:
			o.op("onewf %s mp %s", id, fps(r.rangeI(0, 4)))
		default:
			if len(pool) == 0 {
				o.op("onewf %s point %s", id, fps(1))
			} else if r.coin(0.5) {
				m := members[r.intn(len(members))]
				o.op("onew %s feature %s %s %s", id, pool[r.intn(len(pool))], hx(m), astOf(strings.TrimSpace(m)))
			} else {
				k := r.rangeI(0, 3)
				var ids []string
				for j := 0; j < k; j++ {
					ids = append(ids, pool[r.intn(len(pool))])
				}
				o.op("onew %s %s %d %s", id, []string{"gc", "fc"}[r.intn(2)], k, strings.Join(ids, " "))
			}
		}
		o.op("ojson %s", id)
		pool = append(pool, id)
		if len(pool) > 30 {
			pool = pool[1:]
		}
		if i%300 == 299 {
			o.op("oreset")
			pool = nil
		}
	}
}

func genObj2(suite string, o *out, r *rng, thorough bool) bool {
	switch suite {
	case "c08":
		genC08(o, r, thorough)
	case "c09":
		genC09(o, r, thorough)
	case "c10":
		genC10(o, r, thorough)
	case "c11":
		genC11(o, r, thorough)
	case "c17":
		genC17(o, r, thorough)
	case "c05obj":
		genC05obj(o, r, thorough)
	default:
		return genGeo(suite, o, r, thorough)
	}
	return true
}

// C05: every method on every pair of kinds, outcomes only (no panic, no hang)
func genC05obj(o *out, r *rng, thorough bool) {
	n := 1500
	if thorough {
		n = 40000
	}
	genLineWalks(o, r, n/3)
	// documents with ordinates beyond the binary64 range (+-Inf after Parse) and every predicate among them
	for i := 0; i < n/100+5; i++ {
		o.op("xinf %d", r.next()%1000000)
	}
	// layouts that stress the index builders: every segment straddles the centre lines of the
	// bounding box (zigzags, spokes), all points equal, all segments collinear; built by the
	// constructors with each index kind, at and around the default threshold
	for i := 0; i < n/60+4; i++ {
		m := r.pick([]int{33, 34, 64, 65, 100, 200})
		var pts []ipt
		switch i % 4 {
		case 0: // horizontal zigzag
			for k := 0; k < m; k++ {
				pts = append(pts, ipt{(k % 2) * 160, k * 16})
			}
		case 1: // spokes through the centre
			for k := 0; k < m; k++ {
				if k%2 == 0 {
					pts = append(pts, ipt{-160 - k, -160 + k})
				} else {
					pts = append(pts, ipt{160 + k, 160 - k})
				}
			}
		case 2: // all points equal
			for k := 0; k < m; k++ {
				pts = append(pts, ipt{16, 16})
			}
		default: // diagonal zigzag
			for k := 0; k < m; k++ {
				pts = append(pts, ipt{(k%2)*320 - 160, (1-k%2)*320 - 160 + k})
			}
		}
		for _, cfg := range [][2]int{{2, 64}, {1, 64}, {2, 1}, {1, 1}} {
			id := o.newID("O")
			if i%2 == 0 {
				o.op("onew %s line %d %d %s", id, cfg[0], cfg[1], ptsStr(pts))
			} else {
				o.op("onew %s polygon %d %d 1 %s", id, cfg[0], cfg[1], ptsStr(closeRing(pts)))
			}
			b := newAny(o, r, 16)
			o.op("opred %s %s", id, b.id)
			o.op("xmethods %s %s", id, b.id)
		}
		o.op("oreset")
	}
	for i := 0; i < n; i++ {
		a, b := newAny(o, r, 16), newAny(o, r, 16)
		o.op("opred %s %s", a.id, b.id)
		o.op("xmethods %s %s", a.id, b.id)
		if i%60 == 59 {
			o.op("oreset")
		}
	}
}
