/-
  GeoProofs.OptPred.Examples — concrete documents for the non-vacuity examples of C08Pred:
  a strictly convex 20-vertex polygon (two parabola arcs) and a two-point line string inside it.
-/
import GeoProofs.OptPred.Parse
import GeoProofs.OptPred.Binary

namespace Geo

/-- integer coordinates below 2^53 are binary64 values -/
theorem dyadic_of_int_pts (pts : Array Pt)
    (hb : (pts.toList.all (fun p => decide (p.x.den = 1 ∧ p.x.num.natAbs < 2 ^ 53 ∧
        p.y.den = 1 ∧ p.y.num.natAbs < 2 ^ 53))) = true) :
    ∀ p ∈ pts.toList, Dyadic53 p.x ∧ Dyadic53 p.y := by
  intro p hp
  have := List.all_eq_true.1 hb p hp
  simp only [decide_eq_true_eq] at this
  obtain ⟨h1, h2, h3, h4⟩ := this
  rw [← (Rat.den_eq_one_iff _).1 h1, ← (Rat.den_eq_one_iff _).1 h3]
  exact ⟨Dyadic53.of_int _ h2, Dyadic53.of_int _ h4⟩

/-- `{"type":"Polygon","coordinates":[[[0,0],[1,-9],…,[10,0],[9,9],…,[1,9],[0,0]]]}`: 20 vertices -/
def docPoly20 : JVal :=
  .obj [jmem "type" (jstr "Polygon"),
    jmem "coordinates" (.arr [.arr [
      .arr [jnum (0) "0", jnum (0) "0"], .arr [jnum (1) "1", jnum (-9) "-9"],
      .arr [jnum (2) "2", jnum (-16) "-16"], .arr [jnum (3) "3", jnum (-21) "-21"],
      .arr [jnum (4) "4", jnum (-24) "-24"], .arr [jnum (5) "5", jnum (-25) "-25"],
      .arr [jnum (6) "6", jnum (-24) "-24"], .arr [jnum (7) "7", jnum (-21) "-21"],
      .arr [jnum (8) "8", jnum (-16) "-16"], .arr [jnum (9) "9", jnum (-9) "-9"],
      .arr [jnum (10) "10", jnum (0) "0"], .arr [jnum (9) "9", jnum (9) "9"],
      .arr [jnum (8) "8", jnum (16) "16"], .arr [jnum (7) "7", jnum (21) "21"],
      .arr [jnum (6) "6", jnum (24) "24"], .arr [jnum (5) "5", jnum (25) "25"],
      .arr [jnum (4) "4", jnum (24) "24"], .arr [jnum (3) "3", jnum (21) "21"],
      .arr [jnum (2) "2", jnum (16) "16"], .arr [jnum (1) "1", jnum (9) "9"],
      .arr [jnum (0) "0", jnum (0) "0"]]])]

def ring20 : List Pos := [
    pz (0) (0) "0" "0", pz (1) (-9) "1" "-9", pz (2) (-16) "2" "-16",
    pz (3) (-21) "3" "-21", pz (4) (-24) "4" "-24", pz (5) (-25) "5" "-25",
    pz (6) (-24) "6" "-24", pz (7) (-21) "7" "-21", pz (8) (-16) "8" "-16",
    pz (9) (-9) "9" "-9", pz (10) (0) "10" "0", pz (9) (9) "9" "9",
    pz (8) (16) "8" "16", pz (7) (21) "7" "21", pz (6) (24) "6" "24",
    pz (5) (25) "5" "25", pz (4) (24) "4" "24", pz (3) (21) "3" "21",
    pz (2) (16) "2" "16", pz (1) (9) "1" "9", pz (0) (0) "0" "0"]

/-- `{"type":"LineString","coordinates":[[2,0],[8,3]]}` -/
def docLine2 : JVal :=
  .obj [jmem "type" (jstr "LineString"),
    jmem "coordinates" (.arr [.arr [jnum (2) "2", jnum (0) "0"], .arr [jnum (8) "8", jnum (3) "3"]])]

def line2 : List Pos := [pz (2) (0) "2" "0", pz (8) (3) "8" "3"]

theorem parse_docPoly20 (o : POpts) (ho : o.requireValid = false) (hr : o.allowRects = false) :
    parseTop o docPoly20 = .ok (.polygon (mkPoly o [ring20]) [ring20] none) := by
  obtain ⟨ic, ig, ik, rv, sp, dc, ar⟩ := o
  simp only at ho hr
  subst ho hr
  show parse _ (4+1) (.obj _) = _
  rw [parse_succ_obj]
  rfl

theorem parse_docLine2 (o : POpts) (ho : o.requireValid = false) :
    parseTop o docLine2 = .ok (.lineString (mkLine o line2) line2 none) := by
  obtain ⟨ic, ig, ik, rv, sp, dc, ar⟩ := o
  simp only at ho
  subst ho
  show parse _ (3+1) (.obj _) = _
  rw [parse_succ_obj]
  rfl

end Geo

namespace Geo

/-! ### the hypotheses of the Parse-level theorems on the two documents -/

theorem ring20_sized {k : IndexKind} {m : Nat} : (mkSeries (ptsOf ring20) true k m).DyadicSized :=
  ⟨(by decide +kernel : (ptsOf ring20).size < 2 ^ 32),
    (by decide +kernel : (qBytesOf (ptsOf ring20) true).size < 2 ^ 32),
    (by decide +kernel : (rBytesOf (ptsOf ring20) true).size < 2 ^ 32),
    dyadic_of_int_pts (ptsOf ring20) (by decide +kernel)⟩

theorem line2_sized {k : IndexKind} {m : Nat} : (mkSeries (ptsOf line2) false k m).DyadicSized :=
  ⟨(by decide +kernel : (ptsOf line2).size < 2 ^ 32),
    (by decide +kernel : (qBytesOf (ptsOf line2) false).size < 2 ^ 32),
    (by decide +kernel : (rBytesOf (ptsOf line2) false).size < 2 ^ 32),
    dyadic_of_int_pts (ptsOf line2) (by decide +kernel)⟩

theorem poly20_dyadicSized (o : POpts) : (Obj.polygon (mkPoly o [ring20]) [ring20] none).DyadicSized := by
  constructor
  · intro e he; cases he; exact ring20_sized
  · intro r hr; cases hr

theorem line2_dyadicSized (o : POpts) : (Obj.lineString (mkLine o line2) line2 none).DyadicSized :=
  line2_sized

/-- the exterior is convex: `ExtSafe`; there are no holes: `HolesSafe` -/
theorem poly20_ringsSafe (o : POpts) : (Obj.polygon (mkPoly o [ring20]) [ring20] none).RingsSafe := by
  constructor
  · intro e he; cases he
    exact Or.inl (by decide +kernel : (processPoints (ptsOf ring20) true).convex = true)
  · intro r hr; cases hr

theorem line2_ringsSafe (o : POpts) : (Obj.lineString (mkLine o line2) line2 none).RingsSafe :=
  ⟨trivial, trivial⟩

/-- the index is really built under the small thresholds used below -/
theorem poly20_indexed :
    (mkSeries (ptsOf ring20) true .rtree 4).index.isSome = true ∧
    (mkSeries (ptsOf ring20) true .quadtree 4).index.isSome = true ∧
    (mkSeries (ptsOf ring20) true .none 4).index.isSome = false := by
  refine ⟨by decide +kernel, by decide +kernel, by decide +kernel⟩

end Geo
