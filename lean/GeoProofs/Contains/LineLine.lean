/-
  GeoProofs.Contains.LineLine — sanity corollary: two line strings without contact do not
  contain one another, and the code says so.
-/
import GeoProofs.Contains.PolyLine

namespace Geo
open GL Jordan Contains

namespace Contains

theorem covers_line_line_eq (l1 l2 : List Pt) :
    Spec.covers (.line l1) (.line l2) =
      (decide (l1.length ≥ 2) && decide (l2.length ≥ 2) &&
        ((Spec.edges l2 false).all (fun e => Spec.segInside (Spec.Shape.line l1).member
          (Spec.Shape.line l1).edges e.1 e.2) && true)) := rfl

end Contains

/-- **LineString ⊇ LineString, general position**: never, for all vertex lists (no validity
    needed), and the code agrees -/
theorem line_contains_of_no_contact (l1 l2 : List Pt)
    (hgp : NoContact (Spec.Shape.line l1).edges (Spec.Shape.line l2).edges) :
    (build (.line l1)).contains (build (.line l2)) = false ∧
    Spec.covers (.line l1) (.line l2) = false := by
  have hgp' : ∀ e ∈ Spec.edges l1 false, ∀ f ∈ Spec.edges l2 false,
      Spec.segsMeet e.1 e.2 f.1 f.2 = false := hgp
  by_cases h2 : l2.length < 2
  · constructor
    · show Line.containsLine (mkSeries l1.toArray false .none 0) (mkSeries l2.toArray false .none 0) = false
      unfold Line.containsLine Line.containsLineO
      have : (mkSeries l2.toArray false .none 0).empty = true := by
        show ((false && decide (l2.toArray.size < 3)) || decide (l2.toArray.size < 2)) = true
        simpa using h2
      rw [this]
      simp
    · rw [covers_line_line_eq]
      have : decide (l2.length ≥ 2) = false := by simp; omega
      rw [this]
      simp
  · have hne : ((false && decide (l2.toArray.size < 3)) || decide (l2.toArray.size < 2)) = false := by
      simpa using h2
    obtain ⟨hns, hsz⟩ := numSegmentsOf_ge l2.toArray false hne
    have hpos : 0 < numSegmentsOf l2.toArray false :=
      Nat.lt_of_lt_of_le (by omega : 0 < l2.toArray.size - 1) hns
    have hm0 := segmentAt_mem_edges l2.toArray false 0 hpos
    rw [show l2.toArray.toList = l2 from rfl] at hm0
    have hseg0 : (mkSeries l2.toArray false .none 0).segmentAt 0 = segmentAtOf l2.toArray 0 := rfl
    generalize hs0 : segmentAtOf l2.toArray 0 = s0 at hm0 hseg0
    constructor
    · show Line.containsLine (mkSeries l1.toArray false .none 0) (mkSeries l2.toArray false .none 0) = false
      unfold Line.containsLine Line.containsLineO
      split_ifs with he
      · rfl
      · simp only
        have hnone : (List.range (mkSeries l1.toArray false .none 0).numSegments).find?
            (fun j => ((mkSeries l1.toArray false .none 0).segmentAt j).containsSeg
              ((mkSeries l2.toArray false .none 0).segmentAt 0)) = none := by
          rw [List.find?_eq_none]
          intro j hj hcs
          have hj' : j < numSegmentsOf l1.toArray false := List.mem_range.1 hj
          have hm := segmentAt_mem_edges l1.toArray false j hj'
          rw [show l1.toArray.toList = l1 from rfl] at hm
          have hno := hgp' ((segmentAtOf l1.toArray j).a, (segmentAtOf l1.toArray j).b) hm (s0.a, s0.b) hm0
          rw [segsMeet_eq_false_iff] at hno
          rw [hseg0] at hcs
          have hcs' : (segmentAtOf l1.toArray j).containsSeg s0 = true := by simpa using hcs
          rw [segContainsSeg_iff] at hcs'
          exact hno (K.segsMeet_of_onSeg_left hcs'.1)
        rw [hnone]
        rfl
    · rw [covers_line_line_eq]
      have hfalse : (Spec.edges l2 false).all (fun e => Spec.segInside (Spec.Shape.line l1).member
          (Spec.Shape.line l1).edges e.1 e.2) = false := by
        rw [List.all_eq_false]
        refine ⟨(s0.a, s0.b), hm0, ?_⟩
        have hav : ∀ f ∈ Spec.edges l1 false, Spec.segsMeet f.1 f.2 s0.a s0.b = false :=
          fun f hf => hgp' f hf (s0.a, s0.b) hm0
        have hoff : ∀ x, OnSeg s0.a s0.b x → (Spec.Shape.line l1).member x = false := by
          intro x hx
          exact (onBoundary_false_of_avoids (avoids_sub hav (K.onSeg_left _ _) hx)).2
        have hsi := segInside_of_avoids (Spec.Shape.line l1).member (Spec.Shape.line l1).edges s0.a s0.b
          (fun f hf => segsMeet_comm_false (hav f hf))
          (fun x hx => by rw [hoff x hx, hoff _ (K.onSeg_left _ _)])
        rw [hoff _ (K.onSeg_left _ _)] at hsi
        simp only [hsi]
        exact Bool.false_ne_true
      rw [hfalse]
      simp

end Geo
