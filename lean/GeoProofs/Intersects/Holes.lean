/-
  GeoProofs.Intersects.Holes — specification level facts for polygons WITH holes.

  * `ray_nearest`: on the rightward ray from `x`, the nearest crossing with any of finitely many
    edge lists is a boundary point `pt` of one of them that sees, for every list, the same
    crossing parity as `x` (or lies on that list too).
  * `curve_const`, `exists_boundary_hit`: along a line string or a closed chain that avoids a
    closed chain `B`, membership in `B` is constant; hence a curve with a point strictly inside
    `B` and a point not strictly inside `B` has a point on the boundary of `B`.
  * `PolyFacts`: consequences of `Shape.valid` for a polygon (hole boundaries strictly inside
    the exterior ring, outside each other, exterior boundary outside every hole).
  * `region_inside_of_boundary_inside`: a closed chain whose boundary is strictly inside another
    closed chain has its whole region strictly inside.
  * `meets_iff_holes`: `Spec.meets A B = true ↔ ∃ x, A.member x ∧ B.member x` for valid shapes.
-/
import GeoProofs.Intersects.Shapes
import GeoProofs.Intersects.Strict

namespace Geo
namespace IX
open GL Jordan

/-! ### the nearest crossing on a ray -/

theorem ray_nearest (Es : List (List (Pt × Pt))) (x : Pt)
    (hex : ∃ E ∈ Es, ∃ e ∈ E, Spec.crosses e.1 e.2 x = true) :
    ∃ pt : Pt, (∃ E ∈ Es, Spec.onBoundary E pt = true) ∧
      ∀ E' ∈ Es, Spec.onBoundary E' pt = true ∨ Spec.parity E' pt = Spec.parity E' x := by
  obtain ⟨E0, hE0, e0, he0, hc0⟩ := hex
  have hne : Es.flatten.filter (fun e => Spec.crosses e.1 e.2 x) ≠ [] := by
    intro hnil
    have : e0 ∈ Es.flatten.filter (fun e => Spec.crosses e.1 e.2 x) :=
      List.mem_filter.2 ⟨List.mem_flatten.2 ⟨E0, hE0, he0⟩, hc0⟩
    rw [hnil] at this
    cases this
  obtain ⟨m, hm, hmin⟩ := exists_min_list (fun e : Pt × Pt => Xat e.1 e.2 x.y) _ hne
  rw [List.mem_filter, List.mem_flatten] at hm
  obtain ⟨⟨E, hE, hmE⟩, hcm⟩ := hm
  obtain ⟨hsm, hxm⟩ := (crosses_iff_X _ _ _).1 hcm
  refine ⟨⟨Xat m.1 m.2 x.y, x.y⟩, ⟨E, hE, onBoundary_of_onSeg hmE (onSeg_X hsm)⟩, ?_⟩
  intro E' hE'
  by_cases hb : Spec.onBoundary E' ⟨Xat m.1 m.2 x.y, x.y⟩ = true
  · exact Or.inl hb
  right
  unfold Spec.parity
  congr 2
  apply List.filter_congr
  intro f hf
  rw [Bool.eq_iff_iff, crosses_iff_X, crosses_iff_X]
  constructor
  · rintro ⟨h1, h2⟩
    exact ⟨h1, lt_trans hxm h2⟩
  · rintro ⟨h1, h2⟩
    refine ⟨h1, ?_⟩
    have hle := hmin f (List.mem_filter.2 ⟨List.mem_flatten.2 ⟨E', hE', hf⟩,
      (crosses_iff_X _ _ _).2 ⟨h1, h2⟩⟩)
    refine lt_of_le_of_ne hle ?_
    intro heq
    have hon2 : OnSeg f.1 f.2 ⟨Xat f.1 f.2 x.y, x.y⟩ := onSeg_X h1
    simp only at heq
    rw [← heq] at hon2
    exact hb (onBoundary_of_onSeg hf hon2)

/-! ### constancy along a curve -/

/-- open path: the edges `pts.zip pts.tail` -/
theorem path_const (B : List Pt) : ∀ (pts : List Pt),
    (∀ e ∈ pts.zip pts.tail, ∀ f ∈ Spec.edges B true, ¬ SegsMeet e.1 e.2 f.1 f.2) →
    ∀ u v, Spec.onBoundary (pts.zip pts.tail) u = true → Spec.onBoundary (pts.zip pts.tail) v = true →
      Spec.inRing (Spec.edges B true) u = Spec.inRing (Spec.edges B true) v := by
  intro pts
  induction pts with
  | nil => intro _ u v hu; simp [Spec.onBoundary] at hu
  | cons p rest ih =>
    cases rest with
    | nil => intro _ u v hu; simp [Spec.onBoundary] at hu
    | cons q rest =>
      intro hno
      have hno' : ∀ e ∈ (q :: rest).zip (q :: rest).tail, ∀ f ∈ Spec.edges B true,
          ¬ SegsMeet e.1 e.2 f.1 f.2 := by
        intro e he
        exact hno e (by simp only [List.tail_cons, List.zip_cons_cons, List.mem_cons]; right; exact he)
      have ih' := ih hno'
      have hav : ∀ f ∈ Spec.edges B true, Spec.segsMeet f.1 f.2 p q = false := by
        intro f hf
        rw [segsMeet_eq_false_iff]
        intro hm
        exact hno (p, q) (by simp) f hf ((K.segsMeet_symm _ _ _ _).1 hm)
      have hedge : ∀ w, OnSeg p q w →
          Spec.inRing (Spec.edges B true) w = Spec.inRing (Spec.edges B true) q := by
        intro w hw
        exact (inRing_const_of_avoids B w q (avoids_sub hav hw (K.onSeg_right _ _))).1
      -- every boundary point has the membership of `q`
      have hall : ∀ w, Spec.onBoundary ((p :: q :: rest).zip (p :: q :: rest).tail) w = true →
          Spec.inRing (Spec.edges B true) w = Spec.inRing (Spec.edges B true) q := by
        intro w hw
        simp only [List.tail_cons, List.zip_cons_cons] at hw
        unfold Spec.onBoundary at hw
        rw [List.any_cons, Bool.or_eq_true] at hw
        rcases hw with hw | hw
        · exact hedge w ((spec_onSeg_iff _ _ _).1 hw)
        · cases rest with
          | nil => simp at hw
          | cons r rest' =>
            have hq : Spec.onBoundary ((q :: r :: rest').zip (q :: r :: rest').tail) q = true := by
              simp only [List.tail_cons, List.zip_cons_cons]
              unfold Spec.onBoundary
              rw [List.any_cons, Bool.or_eq_true]
              left
              exact (spec_onSeg_iff _ _ _).2 (K.onSeg_left _ _)
            exact ih' w q hw hq
      intro u v hu hv
      rw [hall u hu, hall v hv]

/-- a line string (`closed = false`) or a closed chain that avoids the closed chain `B` -/
theorem curve_const (B pts : List Pt) (closed : Bool)
    (hno : ∀ e ∈ Spec.edges pts closed, ∀ f ∈ Spec.edges B true, ¬ SegsMeet e.1 e.2 f.1 f.2)
    (u v : Pt) (hu : Spec.onBoundary (Spec.edges pts closed) u = true)
    (hv : Spec.onBoundary (Spec.edges pts closed) v = true) :
    Spec.inRing (Spec.edges B true) u = Spec.inRing (Spec.edges B true) v := by
  cases closed with
  | true => exact inRing_const_on_boundary pts B hno u v hu hv
  | false => exact path_const B pts hno u v hu hv

/-- a curve with a point strictly inside `B` and a point not strictly inside `B` has a point
    on the boundary of `B` -/
theorem exists_boundary_hit (B pts : List Pt) (closed : Bool) (u v : Pt)
    (hu : Spec.onBoundary (Spec.edges pts closed) u = true)
    (hv : Spec.onBoundary (Spec.edges pts closed) v = true)
    (su : Spec.strictIn (Spec.edges B true) u = true)
    (sv : Spec.strictIn (Spec.edges B true) v = false) :
    ∃ z, Spec.onBoundary (Spec.edges pts closed) z = true ∧
      Spec.onBoundary (Spec.edges B true) z = true := by
  by_contra hcon
  have hno : ∀ e ∈ Spec.edges pts closed, ∀ f ∈ Spec.edges B true, ¬ SegsMeet e.1 e.2 f.1 f.2 := by
    rintro e he f hf ⟨z, hz1, hz2⟩
    exact hcon ⟨z, onBoundary_of_onSeg he hz1, onBoundary_of_onSeg hf hz2⟩
  have hc := curve_const B pts closed hno u v hu hv
  rw [strictIn_inRing su] at hc
  have hvb : Spec.onBoundary (Spec.edges B true) v = false := by
    cases hb : Spec.onBoundary (Spec.edges B true) v with
    | false => rfl
    | true => exact absurd ⟨v, hv, hb⟩ hcon
  unfold Spec.inRing at hc
  unfold Spec.strictIn at sv
  rw [hvb] at hc sv
  simp only [Bool.false_or, Bool.not_false, Bool.true_and] at hc sv
  rw [sv] at hc
  cases hc

/-! ### a region whose boundary is strictly inside another chain -/

theorem region_inside_of_boundary_inside {rB rh : Ring} {B Hh : List Pt}
    (hB : RingSpec rB B) (hh : RingSpec rh Hh) (hBne : rB.empty = false) (hhne : rh.empty = false)
    (hall : ∀ u, Spec.onBoundary (Spec.edges B true) u = true →
      Spec.strictIn (Spec.edges Hh true) u = true) :
    ∀ x, Spec.inRing (Spec.edges B true) x = true → Spec.strictIn (Spec.edges Hh true) x = true := by
  have hnomeet : ∀ e ∈ Spec.edges Hh true, ∀ f ∈ Spec.edges B true, ¬ SegsMeet e.1 e.2 f.1 f.2 := by
    rintro e he f hf ⟨z, hz1, hz2⟩
    have := strictIn_off (hall z (onBoundary_of_onSeg hf hz2))
    rw [onBoundary_of_onSeg he hz1] at this
    cases this
  have hconst := inRing_const_on_boundary Hh B hnomeet
  obtain ⟨⟨v0, hv0, -⟩, -⟩ := hh.tight hhne
  have hBsmall : rB.rect.area < rh.rect.area :=
    strict_nesting_rect hB hh hBne (fun u hu => ⟨strictIn_inRing (hall u hu), strictIn_off (hall u hu)⟩)
  -- the boundary of the outer chain is outside the region of `B`
  have hout : ∀ u, Spec.onBoundary (Spec.edges Hh true) u = true →
      Spec.inRing (Spec.edges B true) u = false := by
    intro u hu
    cases hc : Spec.inRing (Spec.edges B true) u with
    | false => rfl
    | true =>
      exfalso
      have hin : ∀ w, Spec.onBoundary (Spec.edges Hh true) w = true →
          Spec.inRing (Spec.edges B true) w = true ∧ Spec.onBoundary (Spec.edges B true) w = false := by
        intro w hw
        refine ⟨by rw [hconst w u hw hu, hc], ?_⟩
        cases hb : Spec.onBoundary (Spec.edges B true) w with
        | false => rfl
        | true =>
          have := strictIn_off (hall w hb)
          rw [hw] at this
          cases this
      have := strict_nesting_rect hh hB hhne hin
      exact absurd hBsmall (not_lt.2 this.le)
  intro x hx
  by_contra hns
  have hns' : Spec.strictIn (Spec.edges Hh true) x = false := by simpa using hns
  have hxB : Spec.onBoundary (Spec.edges B true) x = false := by
    cases hb : Spec.onBoundary (Spec.edges B true) x with
    | false => rfl
    | true => rw [hall x hb] at hns'; cases hns'
  have hxh : Spec.onBoundary (Spec.edges Hh true) x = false := by
    cases hb : Spec.onBoundary (Spec.edges Hh true) x with
    | false => rfl
    | true => rw [hout x hb] at hx; cases hx
  have hpB : Spec.parity (Spec.edges B true) x = 1 := by
    unfold Spec.inRing at hx; rw [hxB] at hx; simpa using hx
  have hph : Spec.parity (Spec.edges Hh true) x ≠ 1 := by
    unfold Spec.strictIn at hns'; rw [hxh] at hns'; simpa using hns'
  have hex : ∃ E ∈ [Spec.edges B true, Spec.edges Hh true], ∃ e ∈ E, Spec.crosses e.1 e.2 x = true := by
    unfold Spec.parity at hpB
    have hne : (Spec.edges B true).filter (fun e => Spec.crosses e.1 e.2 x) ≠ [] := by
      intro hnil; rw [hnil] at hpB; simp at hpB
    obtain ⟨e, he⟩ := List.exists_mem_of_ne_nil _ hne
    rw [List.mem_filter] at he
    exact ⟨_, by simp, e, he.1, he.2⟩
  obtain ⟨pt, ⟨E, hE, hpt⟩, hpar⟩ := ray_nearest _ x hex
  have hB' := hpar (Spec.edges B true) (by simp)
  have hh' := hpar (Spec.edges Hh true) (by simp)
  have both : ¬ (Spec.onBoundary (Spec.edges B true) pt = true ∧
      Spec.onBoundary (Spec.edges Hh true) pt = true) := by
    rintro ⟨h1, h2⟩
    have := hout pt h2
    rw [inRing_of_onBoundary h1] at this
    cases this
  simp only [List.mem_cons, List.not_mem_nil, or_false] at hE
  rcases hE with rfl | rfl
  · -- nearest crossing on the boundary of `B`: strictly inside `Hh`, same parity as `x`
    rcases hh' with h2 | h2
    · exact both ⟨hpt, h2⟩
    · have := ((strictIn_iff _ _).1 (hall pt hpt)).2
      rw [h2] at this
      exact hph this
  · -- nearest crossing on the boundary of `Hh`: it would lie in the region of `B`
    rcases hB' with h1 | h1
    · exact both ⟨h1, hpt⟩
    · have := hout pt hpt
      rw [(inRing_false_iff _ _).1 this |>.2] at h1
      omega

/-! ### consequences of validity for a polygon -/

theorem getD_nil_eq (l : List (List Pt)) (i : Nat) (hi : i < l.length) : l.getD i [] = l[i] := by
  simp [hi]

theorem all_congr_mem {α : Type} (l : List α) (p q : α → Bool) (h : ∀ a ∈ l, p a = q a) :
    l.all p = l.all q := by
  induction l with
  | nil => rfl
  | cons x xs ih =>
    rw [List.all_cons, List.all_cons, h x (by simp), ih (fun a ha => h a (by simp [ha]))]

structure PolyFacts (C : List Pt) (H : List (List Pt)) : Prop where
  cne : 3 ≤ C.length
  hne : ∀ h ∈ H, 3 ≤ h.length
  hin : ∀ h ∈ H, ∀ x, Spec.onBoundary (Spec.edges h true) x = true →
    Spec.strictIn (Spec.edges C true) x = true
  hdis : ∀ h ∈ H, ∀ h' ∈ H, h ≠ h' → ∀ x, Spec.onBoundary (Spec.edges h true) x = true →
    Spec.inRing (Spec.edges h' true) x = false
  hext : ∀ h ∈ H, ∀ x, Spec.onBoundary (Spec.edges C true) x = true →
    Spec.inRing (Spec.edges h true) x = false

/-- the membership formula of a polygon -/
def pmem (C : List Pt) (H : List (List Pt)) (x : Pt) : Bool :=
  Spec.inRing (Spec.edges C true) x && H.all (fun h => !Spec.strictIn (Spec.edges h true) x)

theorem pmem_iff (C : List Pt) (H : List (List Pt)) (x : Pt) :
    pmem C H x = true ↔ Spec.inRing (Spec.edges C true) x = true ∧
      ∀ h ∈ H, Spec.strictIn (Spec.edges h true) x = false := by
  unfold pmem
  rw [Bool.and_eq_true, List.all_eq_true]
  simp

theorem PolyFacts.mem_ext {C : List Pt} {H : List (List Pt)} (hf : PolyFacts C H) (x : Pt)
    (hx : Spec.onBoundary (Spec.edges C true) x = true) : pmem C H x = true := by
  rw [pmem_iff]
  refine ⟨inRing_of_onBoundary hx, ?_⟩
  intro h hh
  cases hs : Spec.strictIn (Spec.edges h true) x with
  | false => rfl
  | true =>
    have := hf.hext h hh x hx
    rw [strictIn_inRing hs] at this
    cases this

theorem PolyFacts.mem_hole {C : List Pt} {H : List (List Pt)} (hf : PolyFacts C H) (h : List Pt)
    (hh : h ∈ H) (x : Pt) (hx : Spec.onBoundary (Spec.edges h true) x = true) :
    pmem C H x = true := by
  rw [pmem_iff]
  refine ⟨strictIn_inRing (hf.hin h hh x hx), ?_⟩
  intro h' hh'
  cases hs : Spec.strictIn (Spec.edges h' true) x with
  | false => rfl
  | true =>
    exfalso
    by_cases he : h = h'
    · subst he
      have := strictIn_off hs
      rw [hx] at this
      cases this
    · have := hf.hdis h hh h' hh' he x hx
      rw [strictIn_inRing hs] at this
      cases this

/-- one-directional content of `holesDisjoint` / `holeInside`: along every edge of `a` that
    avoids the chain `b`, membership in `b` is that of the edge's first vertex -/
theorem along_edges (a b : List Pt)
    (hno : (Spec.edges a true).all (fun e => (Spec.edges b true).all
      (fun f => !(Spec.segsMeet e.1 e.2 f.1 f.2))) = true)
    (x : Pt) (hx : Spec.onBoundary (Spec.edges a true) x = true) :
    ∃ v ∈ a, Spec.inRing (Spec.edges b true) x = Spec.inRing (Spec.edges b true) v ∧
      Spec.strictIn (Spec.edges b true) x = Spec.strictIn (Spec.edges b true) v := by
  obtain ⟨e, he, hon⟩ := (Geo.onBoundary_iff _ _).1 hx
  rw [List.all_eq_true] at hno
  have h1 := hno e he
  rw [List.all_eq_true] at h1
  have hav : ∀ f ∈ Spec.edges b true, Spec.segsMeet f.1 f.2 e.1 e.2 = false := by
    intro f hf
    have := h1 f hf
    rw [segsMeet_comm]
    simpa using this
  have := inRing_const_of_avoids b x e.1 (avoids_sub hav hon (K.onSeg_left _ _))
  exact ⟨e.1, (edges_ends a true e he).1, this.1, this.2⟩

theorem all_flip (a b : List Pt)
    (hno : (Spec.edges a true).all (fun e => (Spec.edges b true).all
      (fun f => !(Spec.segsMeet e.1 e.2 f.1 f.2))) = true) :
    (Spec.edges b true).all (fun e => (Spec.edges a true).all
      (fun f => !(Spec.segsMeet e.1 e.2 f.1 f.2))) = true := by
  rw [List.all_eq_true] at hno ⊢
  intro f hf
  rw [List.all_eq_true]
  intro e he
  have := hno e he
  rw [List.all_eq_true] at this
  rw [segsMeet_comm]
  exact this f hf

theorem ser_nonempty (pts : List Pt) (h : 3 ≤ pts.length) :
    (Ring.ser (mkSeries pts.toArray true .none 0)).empty = false := by
  show (mkSeries pts.toArray true .none 0).empty = false
  unfold Series.empty
  simp
  omega

theorem polyFacts_of_valid (ext : List Pt) (holes : List (List Pt))
    (hv : (Spec.Shape.poly ext holes).valid = true) : PolyFacts ext holes := by
  simp only [Spec.Shape.valid, Bool.and_eq_true] at hv
  obtain ⟨⟨⟨hs, hhs⟩, hins⟩, hdisj⟩ := hv
  rw [List.all_eq_true] at hhs hins
  have cne := simpleRing_length hs
  have hne : ∀ h ∈ holes, 3 ≤ h.length := fun h hh => simpleRing_length (hhs h hh)
  have hin : ∀ h ∈ holes, ∀ x, Spec.onBoundary (Spec.edges h true) x = true →
      Spec.strictIn (Spec.edges ext true) x = true := by
    intro h hh x hx
    have hi := hins h hh
    unfold Spec.holeInside at hi
    rw [Bool.and_eq_true, List.all_eq_true] at hi
    obtain ⟨v, hv, -, e2⟩ := along_edges h ext hi.2 x hx
    rw [e2]
    exact hi.1 v hv
  -- pairwise disjointness, both orders
  have hpair : ∀ i j, i < j → j < holes.length →
      Spec.holesDisjoint (holes.getD i []) (holes.getD j []) = true := by
    intro i j hij hj
    rw [List.all_eq_true] at hdisj
    have h1 := hdisj i (List.mem_range.2 (by omega))
    rw [List.all_eq_true] at h1
    have h2 := h1 j (List.mem_range.2 hj)
    rw [if_neg (by omega)] at h2
    exact h2
  have hdis1 : ∀ a b : List Pt, Spec.holesDisjoint a b = true →
      (∀ x, Spec.onBoundary (Spec.edges a true) x = true → Spec.inRing (Spec.edges b true) x = false) ∧
      (∀ x, Spec.onBoundary (Spec.edges b true) x = true → Spec.inRing (Spec.edges a true) x = false) := by
    intro a b hd
    unfold Spec.holesDisjoint at hd
    rw [Bool.and_eq_true, Bool.and_eq_true] at hd
    obtain ⟨⟨hno, ha⟩, hb⟩ := hd
    rw [List.all_eq_true] at ha hb
    constructor
    · intro x hx
      obtain ⟨v, hv, e1, -⟩ := along_edges a b hno x hx
      rw [e1]
      simpa using ha v hv
    · intro x hx
      obtain ⟨v, hv, e1, -⟩ := along_edges b a (all_flip a b hno) x hx
      rw [e1]
      simpa using hb v hv
  have hdis : ∀ h ∈ holes, ∀ h' ∈ holes, h ≠ h' → ∀ x,
      Spec.onBoundary (Spec.edges h true) x = true → Spec.inRing (Spec.edges h' true) x = false := by
    intro h hh h' hh' hne' x hx
    obtain ⟨i, hi, rfl⟩ := List.getElem_of_mem hh
    obtain ⟨j, hj, rfl⟩ := List.getElem_of_mem hh'
    have hij : i ≠ j := by
      intro he; subst he; exact hne' rfl
    rcases Nat.lt_or_gt_of_ne hij with hlt | hgt
    · have := hpair i j hlt hj
      rw [getD_nil_eq _ _ hi, getD_nil_eq _ _ hj] at this
      exact (hdis1 _ _ this).1 x hx
    · have := hpair j i hgt hi
      rw [getD_nil_eq _ _ hi, getD_nil_eq _ _ hj] at this
      exact (hdis1 _ _ this).2 x hx
  refine ⟨cne, hne, hin, hdis, ?_⟩
  -- the exterior boundary is outside every hole: otherwise it would be nested inside the hole
  intro h hh x hx
  have hi := hins h hh
  unfold Spec.holeInside at hi
  rw [Bool.and_eq_true] at hi
  have hnomeet : ∀ e ∈ Spec.edges ext true, ∀ f ∈ Spec.edges h true, ¬ SegsMeet e.1 e.2 f.1 f.2 := by
    intro e he f hf hm
    have h2 := hi.2
    rw [List.all_eq_true] at h2
    have h3 := h2 f hf
    rw [List.all_eq_true] at h3
    have h4 := h3 e he
    rw [segsMeet_comm, (spec_segsMeet_iff _ _ _ _).2 hm] at h4
    cases h4
  have hconst := inRing_const_on_boundary ext h hnomeet
  cases hc : Spec.inRing (Spec.edges h true) x with
  | false => rfl
  | true =>
    exfalso
    have hsE := ringSpec_ext ext
    have hsH := ringSpec_ext h
    have hEne := ser_nonempty ext cne
    have hHne := ser_nonempty h (hne h hh)
    have hin1 : ∀ w, Spec.onBoundary (Spec.edges ext true) w = true →
        Spec.inRing (Spec.edges h true) w = true ∧ Spec.onBoundary (Spec.edges h true) w = false := by
      intro w hw
      refine ⟨by rw [hconst w x hw hx, hc], ?_⟩
      cases hb : Spec.onBoundary (Spec.edges h true) w with
      | false => rfl
      | true =>
        have := strictIn_off (hin h hh w hb)
        rw [hw] at this
        cases this
    have a1 := strict_nesting_rect hsE hsH hEne hin1
    have a2 := strict_nesting_rect hsH hsE hHne
      (fun u hu => ⟨strictIn_inRing (hin h hh u hu), strictIn_off (hin h hh u hu)⟩)
    exact absurd a1 (not_lt.2 a2.le)

/-! ### `Spec.meets` with holes -/

structure ShapeFactsH (S : Spec.Shape) : Prop where
  ne : S.nonEmpty = true
  vmem : ∀ v ∈ S.vertices, S.member v = true
  ends : ∀ e ∈ S.edges, e.1 ∈ S.vertices ∧ e.2 ∈ S.vertices
  emem : ∀ e ∈ S.edges, ∀ x, OnSeg e.1 e.2 x → S.member x = true
  kind : (∀ x, S.member x = Spec.onBoundary S.edges x) ∨
    (∃ C H, S.edges = Spec.edges C true ++ (H.map (fun h => Spec.edges h true)).flatten ∧
      ∀ x, S.member x = pmem C H x)

theorem ShapeFacts.toH {S : Spec.Shape} (h : ShapeFacts S) : ShapeFactsH S where
  ne := h.ne
  vmem := h.vmem
  ends := h.ends
  emem := h.emem
  kind := by
    rcases h.kind with hk | ⟨C, hE, hm⟩
    · exact Or.inl hk
    · exact Or.inr ⟨C, [], by simp [hE], fun x => by rw [hm]; simp [pmem]⟩

theorem facts_polyH (ext : List Pt) (holes : List (List Pt))
    (hv : (Spec.Shape.poly ext holes).valid = true) : ShapeFactsH (.poly ext holes) := by
  have hf := polyFacts_of_valid ext holes hv
  have hmem : ∀ x, (Spec.Shape.poly ext holes).member x = pmem ext holes x := fun _ => rfl
  have hE : (Spec.Shape.poly ext holes).edges =
      Spec.edges ext true ++ (holes.map (fun h => Spec.edges h true)).flatten := rfl
  have hedge : ∀ e ∈ (Spec.Shape.poly ext holes).edges, ∀ x, OnSeg e.1 e.2 x →
      pmem ext holes x = true := by
    intro e he x hx
    rw [hE, List.mem_append, List.mem_flatten] at he
    rcases he with he | ⟨E, hE', he⟩
    · exact hf.mem_ext x (onBoundary_of_onSeg he hx)
    · obtain ⟨h, hh, rfl⟩ := List.mem_map.1 hE'
      exact hf.mem_hole h hh x (onBoundary_of_onSeg he hx)
  exact {
    ne := by simp [Spec.Shape.nonEmpty]; exact hf.cne
    vmem := by
      intro v hv'
      rw [hmem]
      simp only [Spec.Shape.vertices, List.mem_append, List.mem_flatten] at hv'
      rcases hv' with hv' | ⟨h, hh, hv'⟩
      · exact hf.mem_ext v (vertex_onBoundary ext true (by have := hf.cne; simp; omega) v hv')
      · exact hf.mem_hole h hh v
          (vertex_onBoundary h true (by have := hf.hne h hh; simp; omega) v hv')
    ends := by
      intro e he
      rw [hE, List.mem_append, List.mem_flatten] at he
      simp only [Spec.Shape.vertices, List.mem_append, List.mem_flatten]
      rcases he with he | ⟨E, hE', he⟩
      · exact ⟨Or.inl (edges_ends ext true e he).1, Or.inl (edges_ends ext true e he).2⟩
      · obtain ⟨h, hh, rfl⟩ := List.mem_map.1 hE'
        exact ⟨Or.inr ⟨h, hh, (edges_ends h true e he).1⟩, Or.inr ⟨h, hh, (edges_ends h true e he).2⟩⟩
    emem := fun e he x hx => by rw [hmem]; exact hedge e he x hx
    kind := Or.inr ⟨ext, holes, hE, hmem⟩ }

theorem factsH_of_valid (S : Spec.Shape) (hv : S.valid = true) : ShapeFactsH S := by
  cases S with
  | point a => exact (facts_point a).toH
  | rect lo hi => exact (facts_rect lo hi hv).toH
  | line pts => exact (facts_line pts hv).toH
  | poly ext hs => exact facts_polyH ext hs hv

/-- the rings of a region-like shape -/
def ringsOf (C : List Pt) (H : List (List Pt)) : List (List (Pt × Pt)) :=
  Spec.edges C true :: H.map (fun h => Spec.edges h true)

theorem onBoundary_append (E F : List (Pt × Pt)) (x : Pt) :
    Spec.onBoundary (E ++ F) x = (Spec.onBoundary E x || Spec.onBoundary F x) := by
  unfold Spec.onBoundary
  rw [List.any_append]

theorem onBoundary_flatten (Es : List (List (Pt × Pt))) (x : Pt) :
    Spec.onBoundary Es.flatten x = true ↔ ∃ E ∈ Es, Spec.onBoundary E x = true := by
  unfold Spec.onBoundary
  rw [List.any_flatten, List.any_eq_true]

theorem onBoundary_rings (C : List Pt) (H : List (List Pt)) (x : Pt) :
    Spec.onBoundary (Spec.edges C true ++ (H.map (fun h => Spec.edges h true)).flatten) x = true ↔
      ∃ E ∈ ringsOf C H, Spec.onBoundary E x = true := by
  rw [onBoundary_append, Bool.or_eq_true, onBoundary_flatten]
  unfold ringsOf
  simp only [List.mem_cons, exists_eq_or_imp]

/-- membership of a polygon only depends on the boundary status and crossing parities -/
theorem pmem_congr (C : List Pt) (H : List (List Pt)) (x pt : Pt)
    (hx : ∀ E ∈ ringsOf C H, Spec.onBoundary E x = false)
    (hpt : ∀ E ∈ ringsOf C H, Spec.onBoundary E pt = false)
    (hpar : ∀ E ∈ ringsOf C H, Spec.parity E pt = Spec.parity E x) :
    pmem C H pt = pmem C H x := by
  unfold pmem Spec.inRing Spec.strictIn
  rw [hx _ (by simp [ringsOf]), hpt _ (by simp [ringsOf]), hpar _ (by simp [ringsOf])]
  rw [all_congr_mem H _ (fun h => !(!Spec.onBoundary (Spec.edges h true) x &&
    Spec.parity (Spec.edges h true) x == 1))]
  intro h hh
  have hm : Spec.edges h true ∈ ringsOf C H := by
    unfold ringsOf
    exact List.mem_cons_of_mem _ (List.mem_map.2 ⟨h, hh, rfl⟩)
  rw [hx _ hm, hpt _ hm, hpar _ hm]

/-- membership in a polygon is constant along a segment that avoids all its rings -/
theorem pmem_const (C : List Pt) (H : List (List Pt)) (p q : Pt)
    (hav : ∀ f ∈ Spec.edges C true ++ (H.map (fun h => Spec.edges h true)).flatten,
      Spec.segsMeet f.1 f.2 p q = false) : pmem C H p = pmem C H q := by
  unfold pmem
  rw [(inRing_const_of_avoids C p q (fun f hf => hav f (List.mem_append.2 (Or.inl hf)))).1]
  rw [all_congr_mem H _ (fun h => !Spec.strictIn (Spec.edges h true) q)]
  intro h hh
  rw [(inRing_const_of_avoids h p q (fun f hf => hav f (List.mem_append.2 (Or.inr
    (List.mem_flatten.2 ⟨_, List.mem_map.2 ⟨h, hh, rfl⟩, hf⟩))))).2]

theorem meets_iff_holes {A B : Spec.Shape} (hA : ShapeFactsH A) (hB : ShapeFactsH B) :
    Spec.meets A B = true ↔ ∃ x, A.member x = true ∧ B.member x = true := by
  unfold Spec.meets
  rw [hA.ne, hB.ne, Bool.true_and, Bool.true_and]
  constructor
  · intro h
    rw [Bool.or_eq_true, Bool.or_eq_true, List.any_eq_true, List.any_eq_true, List.any_eq_true] at h
    rcases h with (⟨v, hv, hm⟩ | ⟨v, hv, hm⟩) | ⟨e, he, hm⟩
    · exact ⟨v, hA.vmem v hv, hm⟩
    · exact ⟨v, hm, hB.vmem v hv⟩
    · rw [List.any_eq_true] at hm
      obtain ⟨f, hf, hm⟩ := hm
      obtain ⟨x, h1, h2⟩ := (spec_segsMeet_iff _ _ _ _).1 hm
      exact ⟨x, hA.emem e he x h1, hB.emem f hf x h2⟩
  · rintro ⟨x, hxA, hxB⟩
    by_contra hcon
    have hcon' : (A.vertices.any (fun p => B.member p) || B.vertices.any (fun p => A.member p) ||
        A.edges.any (fun e => B.edges.any (fun f => Spec.segsMeet e.1 e.2 f.1 f.2))) = false := by
      simpa using hcon
    rw [Bool.or_eq_false_iff, Bool.or_eq_false_iff, List.any_eq_false, List.any_eq_false,
      List.any_eq_false] at hcon'
    obtain ⟨⟨hvA, hvB⟩, hee⟩ := hcon'
    have hnomeet : ∀ e ∈ A.edges, ∀ f ∈ B.edges, Spec.segsMeet e.1 e.2 f.1 f.2 = false := by
      intro e he f hf
      have := hee e he
      rw [List.any_eq_true] at this
      cases hc : Spec.segsMeet e.1 e.2 f.1 f.2 with
      | false => rfl
      | true => exact absurd ⟨f, hf, hc⟩ this
    -- a curve / boundary point of one shape is not a member of the other
    have key : ∀ (S T : Spec.Shape), ShapeFactsH S → ShapeFactsH T →
        (∀ v ∈ S.vertices, ¬ T.member v = true) →
        (∀ e ∈ S.edges, ∀ f ∈ T.edges, Spec.segsMeet e.1 e.2 f.1 f.2 = false) →
        ∀ y, Spec.onBoundary S.edges y = true → T.member y = false := by
      intro S T hS hT hv hn y hy
      obtain ⟨e, he, hon⟩ := (Geo.onBoundary_iff _ _).1 hy
      rcases hT.kind with hk | ⟨C, H, hE, hm⟩
      · rw [hk]
        cases hc : Spec.onBoundary T.edges y with
        | false => rfl
        | true =>
          obtain ⟨f, hf, hon'⟩ := (Geo.onBoundary_iff _ _).1 hc
          have := hn e he f hf
          rw [(spec_segsMeet_iff _ _ _ _).2 ⟨y, hon, hon'⟩] at this
          cases this
      · rw [hm]
        have hav : ∀ f ∈ Spec.edges C true ++ (H.map (fun h => Spec.edges h true)).flatten,
            Spec.segsMeet f.1 f.2 y e.1 = false := by
          intro f hf
          rw [← hE] at hf
          have h0 : Spec.segsMeet f.1 f.2 e.1 e.2 = false := by
            rw [segsMeet_comm]; exact hn e he f hf
          exact avoids_sub (es := [f]) (by intro g hg; simp at hg; subst hg; exact h0) hon
            (K.onSeg_left _ _) f (by simp)
        rw [pmem_const C H y e.1 hav, ← hm]
        simpa using hv e.1 (hS.ends e he).1
    have kA := key A B hA hB hvA hnomeet
    have kB := key B A hB hA hvB (fun e he f hf => by rw [segsMeet_comm]; exact hnomeet f hf e he)
    rcases hA.kind with hkA | ⟨CA, HA, hEA, hmA⟩
    · rw [hkA] at hxA
      rw [kA x hxA] at hxB; cases hxB
    rcases hB.kind with hkB | ⟨CB, HB, hEB, hmB⟩
    · rw [hkB] at hxB
      rw [kB x hxB] at hxA; cases hxA
    -- two regions: the nearest crossing on the rightward ray from the common point
    have hxoffA : ∀ E ∈ ringsOf CA HA, Spec.onBoundary E x = false := by
      intro E hE
      cases hc : Spec.onBoundary E x with
      | false => rfl
      | true =>
        have := kA x (by rw [hEA]; exact (onBoundary_rings CA HA x).2 ⟨E, hE, hc⟩)
        rw [this] at hxB; cases hxB
    have hxoffB : ∀ E ∈ ringsOf CB HB, Spec.onBoundary E x = false := by
      intro E hE
      cases hc : Spec.onBoundary E x with
      | false => rfl
      | true =>
        have := kB x (by rw [hEB]; exact (onBoundary_rings CB HB x).2 ⟨E, hE, hc⟩)
        rw [this] at hxA; cases hxA
    have hpA : Spec.parity (Spec.edges CA true) x = 1 := by
      rw [hmA, pmem_iff] at hxA
      have h1 := hxA.1
      unfold Spec.inRing at h1
      rw [hxoffA _ (by simp [ringsOf])] at h1
      simpa using h1
    have hex : ∃ E ∈ ringsOf CA HA ++ ringsOf CB HB, ∃ e ∈ E, Spec.crosses e.1 e.2 x = true := by
      unfold Spec.parity at hpA
      have hne : (Spec.edges CA true).filter (fun e => Spec.crosses e.1 e.2 x) ≠ [] := by
        intro hnil; rw [hnil] at hpA; simp at hpA
      obtain ⟨e, he⟩ := List.exists_mem_of_ne_nil _ hne
      rw [List.mem_filter] at he
      exact ⟨_, by simp [ringsOf], e, he.1, he.2⟩
    obtain ⟨pt, ⟨E, hE, hpt⟩, hpar⟩ := ray_nearest _ x hex
    -- `pt` cannot lie on a ring of `A` and on a ring of `B`
    have hnotboth : ∀ E1 ∈ ringsOf CA HA, ∀ E2 ∈ ringsOf CB HB,
        Spec.onBoundary E1 pt = true → Spec.onBoundary E2 pt = true → False := by
      intro E1 h1 E2 h2 b1 b2
      have m1 := kA pt (by rw [hEA]; exact (onBoundary_rings CA HA pt).2 ⟨E1, h1, b1⟩)
      obtain ⟨f, hf, hon⟩ := (Geo.onBoundary_iff _ _).1
        (show Spec.onBoundary B.edges pt = true by
          rw [hEB]; exact (onBoundary_rings CB HB pt).2 ⟨E2, h2, b2⟩)
      rw [hB.emem f hf pt hon] at m1
      cases m1
    rcases List.mem_append.1 hE with hEA' | hEB'
    · -- `pt` on a ring of `A`: it is a member of `B` like `x`
      have hoff : ∀ E' ∈ ringsOf CB HB, Spec.onBoundary E' pt = false := by
        intro E' hE'
        cases hc : Spec.onBoundary E' pt with
        | false => rfl
        | true => exact absurd hc (fun hc => hnotboth E hEA' E' hE' hpt hc)
      have hparB : ∀ E' ∈ ringsOf CB HB, Spec.parity E' pt = Spec.parity E' x := by
        intro E' hE'
        rcases hpar E' (List.mem_append.2 (Or.inr hE')) with h | h
        · rw [hoff E' hE'] at h; cases h
        · exact h
      have := kA pt (by rw [hEA]; exact (onBoundary_rings CA HA pt).2 ⟨E, hEA', hpt⟩)
      rw [hmB, pmem_congr CB HB x pt hxoffB hoff hparB, ← hmB, hxB] at this
      cases this
    · have hoff : ∀ E' ∈ ringsOf CA HA, Spec.onBoundary E' pt = false := by
        intro E' hE'
        cases hc : Spec.onBoundary E' pt with
        | false => rfl
        | true => exact absurd hpt (fun hp => hnotboth E' hE' E hEB' hc hp)
      have hparA : ∀ E' ∈ ringsOf CA HA, Spec.parity E' pt = Spec.parity E' x := by
        intro E' hE'
        rcases hpar E' (List.mem_append.2 (Or.inl hE')) with h | h
        · rw [hoff E' hE'] at h; cases h
        · exact h
      have := kB pt (by rw [hEB]; exact (onBoundary_rings CB HB pt).2 ⟨E, hEB', hpt⟩)
      rw [hmA, pmem_congr CA HA x pt hxoffA hoff hparA, ← hmA, hxA] at this
      cases this

end IX
end Geo
