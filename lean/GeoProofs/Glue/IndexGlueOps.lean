/-
  GeoProofs.Glue.IndexGlueOps — the concrete interpretation of the byte-slice operations of
  `Geo.IGen.Ops` on `Array Nat` (the model's byte arrays), and of the external callees.
    * `[]byte` ↦ `Array Nat`; `b[lo:]` ↦ `extract lo size` (the bytes from lo on);
      `binary.LittleEndian.UintNN` ↦ the model's `readLE … 0 k`; `PutUint32(b[lo:], v)` ↦ the model's
      `putU32 b lo v`, guarded by Go's bounds check;
    * `series.SegmentAt`, `seg.Rect`, `math.Float64frombits` are parameters;
      `Rect.IntersectsRect` ↦ the model's `GBox.meets` through `toGBox`.
-/
import GeoProofs.Glue.IndexGlue

namespace Geo.IGlue
open Geo Geo.IGen

variable {F S SR : Type} [Carrier F]

/-- overwrite 2 bytes at `pos` (binary.LittleEndian.PutUint16(dst[pos:], v)) -/
def putU16 (dst : Array Nat) (pos v : Nat) : Array Nat :=
  (dst.setIfInBounds pos (v % 256)).setIfInBounds (pos+1) (v / 256 % 256)

/-- overwrite 8 bytes at `pos` (binary.LittleEndian.PutUint64(dst[pos:], v)) -/
def putU64 (dst : Array Nat) (pos v : Nat) : Array Nat :=
  let bs := leBytes v 8
  (((((((dst.setIfInBounds pos (bs.getD 0 0)).setIfInBounds (pos+1) (bs.getD 1 0)).setIfInBounds (pos+2) (bs.getD 2 0)).setIfInBounds (pos+3) (bs.getD 3 0)).setIfInBounds (pos+4) (bs.getD 4 0)).setIfInBounds (pos+5) (bs.getD 5 0)).setIfInBounds (pos+6) (bs.getD 6 0)).setIfInBounds (pos+7) (bs.getD 7 0)

/-- the operations on `Array Nat`, with `math.Float64bits` and the nil test of a []float64 as
    further parameters (used by the R-tree only) -/
def aOpsR (segAt : SR → Int → S) (segRect : S → Rect F) (f64 : Nat → F) (bits : F → Nat)
    (isNil : List F → Bool) : Ops F S SR (Array Nat) where
  bytesAppend d l := d ++ l.toArray
  bytesAppendSlice d c := d ++ c
  bytesAt d i := if i < 0 then none else d[i.toNat]?
  bytesFrom d lo := if lo < 0 ∨ (d.size : Int) < lo then none else some (d.extract lo.toNat d.size)
  bytesLen d := Int.ofNat d.size
  bytesZero n := Array.replicate n 0
  float64bits := bits
  float64frombits := f64
  floatsIsNil := isNil
  leUint16 d := readLE d 0 2
  leUint32 d := readLE d 0 4
  leUint64 d := readLE d 0 8
  putUint16 d lo v := if 0 ≤ lo ∧ lo.toNat + 2 ≤ d.size then some (putU16 d lo.toNat v) else none
  putUint32 d lo v := if 0 ≤ lo ∧ lo.toNat + 4 ≤ d.size then some (putU32 d lo.toNat v) else none
  putUint64 d lo v := if 0 ≤ lo ∧ lo.toNat + 8 ≤ d.size then some (putU64 d lo.toNat v) else none
  rectIntersectsRect a b := (toGBox a).meets (toGBox b)
  segRect := segRect
  seriesSegmentAt := segAt

/-- the operations on `Array Nat` (quadtree: `Float64bits` / the nil test are not used) -/
def aOps (segAt : SR → Int → S) (segRect : S → Rect F) (f64 : Nat → F) : Ops F S SR (Array Nat) where
  bytesAppendSlice d c := d ++ c
  bytesZero n := Array.replicate n 0
  float64bits := fun _ => 0
  floatsIsNil := fun _ => false
  putUint64 d lo v := if 0 ≤ lo ∧ lo.toNat + 8 ≤ d.size then some (putU64 d lo.toNat v) else none
  bytesAppend d l := d ++ l.toArray
  bytesAt d i := if i < 0 then none else d[i.toNat]?
  bytesFrom d lo := if lo < 0 ∨ (d.size : Int) < lo then none else some (d.extract lo.toNat d.size)
  bytesLen d := Int.ofNat d.size
  float64frombits := f64
  leUint16 d := readLE d 0 2
  leUint32 d := readLE d 0 4
  leUint64 d := readLE d 0 8
  putUint16 d lo v := if 0 ≤ lo ∧ lo.toNat + 2 ≤ d.size then some (putU16 d lo.toNat v) else none
  putUint32 d lo v := if 0 ≤ lo ∧ lo.toNat + 4 ≤ d.size then some (putU32 d lo.toNat v) else none
  rectIntersectsRect a b := (toGBox a).meets (toGBox b)
  segRect := segRect
  seriesSegmentAt := segAt

end Geo.IGlue
