/-
  GeoProofs.OptPred.Dyadic — discharging `Obj.SearchOK`: objects whose series were all built by
  `mkSeries` (any index kind, any threshold) from binary64 coordinates within the 32-bit size
  bounds of the index byte formats.
-/
import GeoProofs.OptPred.Sim

namespace Geo

/-- the series was built by `mkSeries` from its own vertex list, with SOME index kind / threshold -/
def Series.Built (s : Series) : Prop := ∃ k m, s = mkSeries s.pts s.closed k m

/-- binary64 coordinates and the size bounds of `series_search_exact_dyadic`, for every index
    kind at once (a property of the vertex list only) -/
def Series.DyadicSized (s : Series) : Prop :=
  s.pts.size < 2 ^ 32 ∧ (qBytesOf s.pts s.closed).size < 2 ^ 32 ∧
  (rBytesOf s.pts s.closed).size < 2 ^ 32 ∧ ∀ p ∈ s.pts.toList, Dyadic53 p.x ∧ Dyadic53 p.y

/-- every series inside the object was built by `mkSeries` -/
def Obj.Built (x : Obj) : Prop := x.AllSer Series.Built
/-- every series inside the object has binary64 coordinates within the size bounds -/
def Obj.DyadicSized (x : Obj) : Prop := x.AllSer Series.DyadicSized
/-- built by `mkSeries` from binary64 coordinates within the size bounds -/
def Obj.Dyadic (x : Obj) : Prop := x.Built ∧ x.DyadicSized

theorem Series.Built.searchExact {s : Series} (hb : s.Built) (hd : s.DyadicSized) : s.SearchExact := by
  obtain ⟨k, m, e⟩ := hb
  rw [e]
  exact series_search_exact_dyadic s.pts s.closed k m hd.1 (fun _ => hd.2.1) (fun _ => ⟨hd.2.2.1, hd.2.2.2⟩)

/-! ### the quantifier is monotone, conjunctive, and transported by `ObsEq` -/

theorem Ring.AllSer.and {P Q : Series → Prop} {r : Ring} (h1 : r.AllSer P) (h2 : r.AllSer Q) :
    r.AllSer (fun s => P s ∧ Q s) := by
  cases r with
  | ser s => exact ⟨h1, h2⟩
  | bx b => trivial

theorem Ring.AllSer.mono {P Q : Series → Prop} (h : ∀ s, P s → Q s) {r : Ring} (h1 : r.AllSer P) :
    r.AllSer Q := by
  cases r with
  | ser s => exact h s h1
  | bx b => trivial

theorem Poly.AllSer.and {P Q : Series → Prop} {p : Poly} (h1 : p.AllSer P) (h2 : p.AllSer Q) :
    p.AllSer (fun s => P s ∧ Q s) :=
  ⟨fun e he => (h1.1 e he).and (h2.1 e he), fun r hr => (h1.2 r hr).and (h2.2 r hr)⟩

theorem Poly.AllSer.mono {P Q : Series → Prop} (h : ∀ s, P s → Q s) {p : Poly} (h1 : p.AllSer P) :
    p.AllSer Q :=
  ⟨fun e he => (h1.1 e he).mono h, fun r hr => (h1.2 r hr).mono h⟩

mutual
theorem Obj.AllLeaf.and {PL QL : Line → Prop} {PP QP : Poly → Prop} :
    ∀ x : Obj, x.AllLeaf PL PP → x.AllLeaf QL QP → x.AllLeaf (fun l => PL l ∧ QL l) (fun p => PP p ∧ QP p)
  | .point _ _, _, _ => trivial
  | .spoint _, _, _ => trivial
  | .lineString _ _ _, h1, h2 => ⟨h1, h2⟩
  | .polygon _ _ _, h1, h2 => ⟨h1, h2⟩
  | .rectO _ _ _, _, _ => trivial
  | .circle _ _, _, _ => trivial
  | .feature b _, h1, h2 => Obj.AllLeaf.and b h1 h2
  | .coll _ cs _ _, h1, h2 => Obj.AllLeafL.and cs h1 h2
theorem Obj.AllLeafL.and {PL QL : Line → Prop} {PP QP : Poly → Prop} :
    ∀ cs : List Obj, Obj.AllLeafL PL PP cs → Obj.AllLeafL QL QP cs →
      Obj.AllLeafL (fun l => PL l ∧ QL l) (fun p => PP p ∧ QP p) cs
  | [], _, _ => trivial
  | c :: cs, h1, h2 => ⟨Obj.AllLeaf.and c h1.1 h2.1, Obj.AllLeafL.and cs h1.2 h2.2⟩
end

mutual
theorem Obj.AllLeaf.mono {PL QL : Line → Prop} {PP QP : Poly → Prop}
    (hl : ∀ l, PL l → QL l) (hp : ∀ p, PP p → QP p) : ∀ x : Obj, x.AllLeaf PL PP → x.AllLeaf QL QP
  | .point _ _, _ => trivial
  | .spoint _, _ => trivial
  | .lineString l _ _, h => hl l h
  | .polygon p _ _, h => hp p h
  | .rectO _ _ _, _ => trivial
  | .circle _ _, _ => trivial
  | .feature b _, h => Obj.AllLeaf.mono hl hp b h
  | .coll _ cs _ _, h => Obj.AllLeafL.mono hl hp cs h
theorem Obj.AllLeafL.mono {PL QL : Line → Prop} {PP QP : Poly → Prop}
    (hl : ∀ l, PL l → QL l) (hp : ∀ p, PP p → QP p) :
    ∀ cs : List Obj, Obj.AllLeafL PL PP cs → Obj.AllLeafL QL QP cs
  | [], _ => trivial
  | c :: cs, h => ⟨Obj.AllLeaf.mono hl hp c h.1, Obj.AllLeafL.mono hl hp cs h.2⟩
end

theorem Obj.AllSer.mono {P Q : Series → Prop} (h : ∀ s, P s → Q s) {x : Obj} (hx : x.AllSer P) :
    x.AllSer Q :=
  Obj.AllLeaf.mono h (fun _ hp => hp.mono h) x hx

theorem Obj.AllSer.and {P Q : Series → Prop} {x : Obj} (h1 : x.AllSer P) (h2 : x.AllSer Q) :
    x.AllSer (fun s => P s ∧ Q s) :=
  Obj.AllLeaf.mono (fun _ h => h) (fun _ h => h.1.and h.2) x (Obj.AllLeaf.and x h1 h2)

/-- **target 3**: for every index kind and threshold -/
theorem Obj.Dyadic.searchOK {x : Obj} (h : x.Dyadic) : x.SearchOK :=
  Obj.AllSer.mono (fun _ hs => hs.1.searchExact hs.2) (h.1.and h.2)

end Geo

namespace Geo

/-! ### properties of the vertex lists pass along `ObsEq` -/

theorem Ring.ObsEq.allSer {P : Series → Prop} (hP : ∀ s t : Series, s.EqUpToIndex t → P s → P t)
    {a b : Ring} (h : a.ObsEq b) (ha : a.AllSer P) : b.AllSer P := by
  cases a <;> cases b <;> simp only [Ring.ObsEq] at h
  · exact hP _ _ h ha
  · trivial

theorem forall2_ring_allSer {P : Series → Prop} (hP : ∀ s t : Series, s.EqUpToIndex t → P s → P t)
    {l l' : List Ring} (h : Forall2 Ring.ObsEq l l') (hl : ∀ r ∈ l, r.AllSer P) :
    ∀ r ∈ l', r.AllSer P := by
  induction h with
  | nil => intro r hr; cases hr
  | cons hab _ ih =>
    intro r hr
    rcases List.mem_cons.1 hr with rfl | hr
    · exact hab.allSer hP (hl _ (by simp))
    · exact ih (fun r hr => hl r (by simp [hr])) r hr

theorem Poly.ObsEq.allSer {P : Series → Prop} (hP : ∀ s t : Series, s.EqUpToIndex t → P s → P t)
    {p q : Poly} (h : p.ObsEq q) (hp : p.AllSer P) : q.AllSer P := by
  obtain ⟨he, hh⟩ := h
  refine ⟨?_, forall2_ring_allSer hP hh hp.2⟩
  intro e' he'
  cases h1 : p.ext <;> rw [h1, he'] at he <;> simp only at he
  exact he.allSer hP (hp.1 _ h1)

mutual
theorem ObsEq.allSer {P : Series → Prop} (hP : ∀ s t : Series, s.EqUpToIndex t → P s → P t) :
    ∀ {x x' : Obj}, ObsEq x x' → x.AllSer P → x'.AllSer P
  | _, _, .point _ _, _ => trivial
  | _, _, .spoint _, _ => trivial
  | _, _, .lineString _ _ _ _ h, h1 => hP _ _ h h1
  | _, _, .polygon _ _ _ _ h, h1 => h.allSer hP h1
  | _, _, .rectO _ _ _, _ => trivial
  | _, _, .coll _ _ _ _ _ _ h, h1 => ObsEqL.allSerL hP h h1
  | _, _, .feature b b' _ h, h1 => ObsEq.allSer hP (x := b) (x' := b') h h1
  | _, _, .circle _ _, _ => trivial
theorem ObsEqL.allSerL {P : Series → Prop} (hP : ∀ s t : Series, s.EqUpToIndex t → P s → P t) :
    ∀ {cs cs' : List Obj}, ObsEqL cs cs' → Obj.AllLeafL P (Poly.AllSer P) cs →
      Obj.AllLeafL P (Poly.AllSer P) cs'
  | _, _, .nil, _ => trivial
  | _, _, .cons _ _ _ _ h hs, h1 => ⟨ObsEq.allSer hP h h1.1, ObsEqL.allSerL hP hs h1.2⟩
end

theorem Series.DyadicSized.of_eqUpToIndex (s t : Series) (h : s.EqUpToIndex t) (hs : s.DyadicSized) :
    t.DyadicSized := by
  unfold Series.DyadicSized at *
  rw [← h.1, ← h.2.1]
  exact hs

theorem ObsEq.dyadicSized {x x' : Obj} (h : ObsEq x x') (hx : x.DyadicSized) : x'.DyadicSized :=
  h.allSer Series.DyadicSized.of_eqUpToIndex hx

end Geo
