import GeoProofs.Props.C01
import GeoProofs.Props.C02
import GeoProofs.Props.C03
import GeoProofs.Props.C04
import GeoProofs.Props.C12
import GeoProofs.Props.C18
import GeoProofs.Props.C19
