/-
  Property C03 (contains) — the parts that are exact, the termination of the repaired
  `Line.ContainsLine` walk, and machine-checked witnesses of the known defects.

  PROVED (all for every rational input unless a hypothesis says otherwise):
  * `line_walk_terminates` : `Line.containsLineO` never returns `none`, i.e. the fuel
    `(n+2)*(m+2)` of the walk is never exhausted, for ALL series values (indexed or not,
    valid or not).  Measure: `(m - i) * (n + 1) + walkRank` decreases at every step.
    Corollary `line_containsLine_eq`.
  * Rect receiver: `rect_contains_rect_iff`, `rect_contains_point_iff`,
    `rect_contains_line_iff` (+ `rect_contains_line_iff_onSeg`: every point of every segment),
    `rect_contains_poly_iff` (vertices of the exterior ring; holes are not looked at by the code,
    which is right only for valid polygons, whose holes lie inside the exterior).
  * Point receiver: `point_contains_point_iff`, `point_contains_rect_iff`,
    `point_contains_line_iff`, `point_contains_poly_iff`.
  * Line receiver, the one exact case: `line_contains_point_iff` (un-indexed),
    `line_contains_point_spec` (= `Spec.covers`, for every vertex sequence).
  * Defect witnesses `D4_wrong_true`, `D4_wrong_false`, `D5_wrong_true`, `D5_wrong_false`,
    `D13_wrong_true`: concrete VALID inputs (validity is part of each statement) on which the
    model — which equals the Go code by differential testing — contradicts the exact
    specification `Spec.covers`.  Evaluated by the kernel (`decide +kernel`, no extra axiom).

  NOT PROVED (out of scope / false):
  * `Geom.contains a b = Spec.covers a b` for Line and Poly receivers.  It is FALSE as the code
    stands (the five witnesses: known findings D4, D5, D13), and the part that is true
    (completeness of the `false` answers of ring × segment and everything built on it) is a
    discrete Jordan-curve statement.
-/
import GeoProofs.GeomLemmas

namespace Geo
open GL

/-! ## termination of the `Line.ContainsLine` walk (after the D3 fix) -/

theorem line_walk_terminates (line other : Line) : (line.containsLineO other).isSome = true := by
  unfold Line.containsLineO
  split_ifs with h
  · rfl
  · simp only
    cases hf : (List.range line.numSegments).find? (fun j => (line.segmentAt j).containsSeg (other.segmentAt 0)) with
    | none => rfl
    | some segIdx =>
      simp only
      have hmem := List.mem_of_find?_eq_some hf
      rw [List.mem_range] at hmem
      apply walk_isSome line other _ _ _ other.numSegments ⟨segIdx, 1, 0⟩ hmem (by simp only; omega)
      have hr : walkRank line.numSegments ⟨segIdx, 1, 0⟩ = line.numSegments := by
        unfold walkRank; simp
      rw [hr]
      generalize line.numSegments = n
      generalize other.numSegments = m
      have : (n + 2) * (m + 2) = m * (n + 1) + (m + 2 * n + 4) := by
        simp only [Nat.mul_add, Nat.mul_comm]; omega
      omega

/-- hence `Line.containsLine` is the value computed by the walk, never the `getD` default -/
theorem line_containsLine_eq (line other : Line) :
    line.containsLineO other = some (line.containsLine other) := by
  unfold Line.containsLine
  cases h : line.containsLineO other with
  | none => have := line_walk_terminates line other; rw [h] at this; cases this
  | some b => rfl

/-! ## Rect receiver -/

theorem rect_contains_rect_iff (r o : Box) (ho : o.min.x ≤ o.max.x ∧ o.min.y ≤ o.max.y) :
    r.containsBox o = true ↔ ∀ p, o.containsPt p = true → r.containsPt p = true := by
  rw [containsBox_iff]
  constructor
  · rintro ⟨h1, h2, h3, h4⟩ p hp
    rw [containsPt_iff] at hp ⊢
    obtain ⟨a1, a2, a3, a4⟩ := hp
    exact ⟨le_trans h1 a1, le_trans a2 h2, le_trans h3 a3, le_trans a4 h4⟩
  · intro h
    have hmin := h o.min ((containsPt_iff _ _).2 ⟨le_refl _, ho.1, le_refl _, ho.2⟩)
    have hmax := h o.max ((containsPt_iff _ _).2 ⟨ho.1, le_refl _, ho.2, le_refl _⟩)
    rw [containsPt_iff] at hmin hmax
    exact ⟨hmin.1, hmax.2.1, hmin.2.2.1, hmax.2.2.2⟩

/-- the hypothesis cannot be dropped: an ill-formed `o` has no point but is not contained -/
theorem rect_contains_rect_illformed :
    (∀ p, (Box.mk ⟨1, 1⟩ ⟨0, 0⟩).containsPt p = true → (Box.mk ⟨5, 5⟩ ⟨6, 6⟩).containsPt p = true) ∧
    (Box.mk ⟨5, 5⟩ ⟨6, 6⟩).containsBox (Box.mk ⟨1, 1⟩ ⟨0, 0⟩) = false := by
  refine ⟨?_, by decide +kernel⟩
  intro p hp
  rw [containsPt_iff] at hp
  obtain ⟨a1, a2, -, -⟩ := hp
  simp only at a1 a2
  linarith

theorem rect_contains_point_iff (r : Box) (p : Pt) :
    (Geom.rect r).contains (.point p) = true ↔
      r.min.x ≤ p.x ∧ p.x ≤ r.max.x ∧ r.min.y ≤ p.y ∧ p.y ≤ r.max.y :=
  containsPt_iff r p

/-- the model's Rect ∋ Point is the specification's membership -/
theorem rect_contains_point_spec (r : Box) (p : Pt) :
    (Geom.rect r).contains (.point p) = (Spec.Shape.rect r.min r.max).member p := by
  simp only [Geom.contains, Box.containsPt, Spec.Shape.member, ge_iff_le]

theorem point_contains_point_iff (a b : Pt) :
    (Geom.point a).contains (.point b) = true ↔ a = b := by
  simp only [Geom.contains, decide_eq_true_eq]

theorem point_contains_rect_iff (p : Pt) (r : Box) :
    (Geom.point p).contains (.rect r) = true ↔ r.min = p ∧ r.max = p := by
  show decide (p.box = r) = true ↔ _
  rw [decide_eq_true_eq]
  unfold Pt.box
  constructor
  · intro h; rw [← h]; exact ⟨rfl, rfl⟩
  · rintro ⟨h1, h2⟩; cases r; simp only at h1 h2; rw [h1, h2]

/-- the rectangle of a non-empty series contains a box iff the box contains every vertex -/
theorem box_contains_seriesRect_iff (r : Box) (pts : Array Pt) (closed : Bool)
    (h : ¬ ((closed && pts.size < 3) || pts.size < 2)) :
    r.containsBox (processPoints pts closed).rect = true ↔ ∀ q ∈ pts.toList, r.containsPt q = true := by
  obtain ⟨hall, ⟨p1, m1, e1⟩, ⟨p2, m2, e2⟩, ⟨p3, m3, e3⟩, ⟨p4, m4, e4⟩⟩ :=
    bboxSpec_tight pts.toList _ (rect_tight pts closed h).symm
  rw [containsBox_iff]
  constructor
  · rintro ⟨h1, h2, h3, h4⟩ q hq
    obtain ⟨a1, a2, a3, a4⟩ := hall q hq
    rw [containsPt_iff]
    exact ⟨le_trans h1 a1, le_trans a2 h2, le_trans h3 a3, le_trans a4 h4⟩
  · intro hq
    have q1 := (containsPt_iff _ _).1 (hq p1 m1)
    have q2 := (containsPt_iff _ _).1 (hq p2 m2)
    have q3 := (containsPt_iff _ _).1 (hq p3 m3)
    have q4 := (containsPt_iff _ _).1 (hq p4 m4)
    rw [← e1, ← e2, ← e3, ← e4]
    exact ⟨q1.1, q2.2.1, q3.2.2.1, q4.2.2.2⟩

theorem mkSeries_rect (pts : Array Pt) (closed : Bool) (k : IndexKind) (m : Nat) :
    (mkSeries pts closed k m).rect = (processPoints pts closed).rect := rfl
theorem mkSeries_empty (pts : Array Pt) (closed : Bool) (k : IndexKind) (m : Nat) :
    (mkSeries pts closed k m).empty = ((closed && pts.size < 3) || pts.size < 2) := rfl

/-- Rect ⊇ LineString ⇔ the rectangle contains every vertex (any index kind) -/
theorem rect_contains_line_iff (r : Box) (pts : Array Pt) (k : IndexKind) (m : Nat)
    (h : 2 ≤ pts.size) :
    r.containsLine (mkSeries pts false k m) = true ↔ ∀ q ∈ pts.toList, r.containsPt q = true := by
  have hne : ¬ (((false : Bool) && pts.size < 3) || pts.size < 2) := by simp; omega
  unfold Box.containsLine
  rw [mkSeries_rect, mkSeries_empty, Bool.and_eq_true, box_contains_seriesRect_iff r pts false hne]
  simp only [Bool.false_and, Bool.false_or, Bool.not_eq_true', decide_eq_false_iff_not, not_lt]
  exact ⟨fun h => h.2, fun h' => ⟨h, h'⟩⟩

/-- an empty line string is contained in nothing -/
theorem rect_contains_line_empty (r : Box) (pts : Array Pt) (k : IndexKind) (m : Nat)
    (h : pts.size < 2) : r.containsLine (mkSeries pts false k m) = false := by
  unfold Box.containsLine
  rw [mkSeries_empty]
  simp [h]

/-- … ⇔ the rectangle contains every point of every segment (a box is convex) -/
theorem rect_contains_line_iff_onSeg (r : Box) (pts : Array Pt) (k : IndexKind) (m : Nat)
    (h : 2 ≤ pts.size) :
    r.containsLine (mkSeries pts false k m) = true ↔
      ∀ i, i < (mkSeries pts false k m).numSegments → ∀ p,
        OnSeg ((mkSeries pts false k m).segmentAt i).a ((mkSeries pts false k m).segmentAt i).b p →
        r.containsPt p = true := by
  rw [rect_contains_line_iff r pts k m h]
  have hns : (mkSeries pts false k m).numSegments = pts.size - 1 := by
    show numSegmentsOf pts false = _
    unfold numSegmentsOf
    simp only [Bool.false_eq_true, if_false]
    rw [if_neg (by omega)]
  constructor
  · intro hv i hi p hp
    obtain ⟨ha, hb⟩ := segmentAt_mem pts false i hi
    exact onSeg_in_box r _ _ p (hv _ ha) (hv _ hb) hp
  · intro hs q hq
    obtain ⟨j, hj, rfl⟩ := List.getElem_of_mem hq
    simp only [Array.length_toList] at hj
    by_cases hlast : j = pts.size - 1
    · -- the last vertex is the end of the last segment
      have := hs (pts.size - 2) (by rw [hns]; omega) pts[j] (by
        have e : ((mkSeries pts false k m).segmentAt (pts.size - 2)).b = pts[j] := by
          show (segmentAtOf pts (pts.size - 2)).b = _
          unfold segmentAtOf
          simp only
          rw [if_neg (by simp; omega)]
          have : pts.size - 2 + 1 = j := by omega
          rw [this, getElem!_pos pts j hj]
        rw [← e]
        exact K.onSeg_right _ _)
      simpa using this
    · have := hs j (by rw [hns]; omega) pts[j] (by
        have e : ((mkSeries pts false k m).segmentAt j).a = pts[j] := by
          show (segmentAtOf pts j).a = _
          unfold segmentAtOf
          simp only
          rw [getElem!_pos pts j hj]
        rw [← e]
        exact K.onSeg_left _ _)
      simpa using this

/-- Rect ⊇ Polygon ⇔ the rectangle contains every vertex of the exterior ring -/
theorem rect_contains_poly_iff (r : Box) (pts : Array Pt) (k : IndexKind) (m : Nat)
    (holes : List Ring) (h : 3 ≤ pts.size) :
    r.containsPoly ⟨some (.ser (mkSeries pts true k m)), holes⟩ = true ↔
      ∀ q ∈ pts.toList, r.containsPt q = true := by
  have hne : ¬ (((true : Bool) && pts.size < 3) || pts.size < 2) := by simp; omega
  unfold Box.containsPoly Poly.empty Poly.rect
  simp only [Ring.empty, Ring.rect]
  rw [mkSeries_rect, mkSeries_empty, Bool.and_eq_true, box_contains_seriesRect_iff r pts true hne]
  simp only [Bool.true_and, Bool.not_eq_true',
    decide_eq_false_iff_not, not_lt, Bool.or_eq_false_iff]
  exact ⟨fun h => h.2, fun h' => ⟨⟨by omega, by omega⟩, h'⟩⟩

/-- Rect ⊇ Polygon whose exterior is a `Rect` used as a ring -/
theorem rect_contains_rectpoly (r b : Box) (holes : List Ring) :
    r.containsPoly ⟨some (.bx b), holes⟩ = r.containsBox b := by
  simp [Box.containsPoly, Poly.empty, Poly.rect, Ring.empty, Ring.rect]

/-! ## Point receiver -/

/-- the rectangle of a non-empty series is the degenerate box at `p` iff every vertex is `p` -/
theorem seriesRect_eq_ptbox_iff (p : Pt) (pts : Array Pt) (closed : Bool)
    (h : ¬ ((closed && pts.size < 3) || pts.size < 2)) :
    (processPoints pts closed).rect = p.box ↔ ∀ q ∈ pts.toList, q = p := by
  obtain ⟨hall, ⟨p1, m1, e1⟩, ⟨p2, m2, e2⟩, ⟨p3, m3, e3⟩, ⟨p4, m4, e4⟩⟩ :=
    bboxSpec_tight pts.toList _ (rect_tight pts closed h).symm
  constructor
  · intro hb q hq
    obtain ⟨a1, a2, a3, a4⟩ := hall q hq
    rw [hb] at a1 a2 a3 a4
    simp only [Pt.box] at a1 a2 a3 a4
    rw [K.pt_eq_iff]
    exact ⟨le_antisymm a2 a1, le_antisymm a4 a3⟩
  · intro hq
    rw [hq p1 m1] at e1
    rw [hq p2 m2] at e2
    rw [hq p3 m3] at e3
    rw [hq p4 m4] at e4
    rcases hr : (processPoints pts closed).rect with ⟨⟨a, b⟩, ⟨c, d⟩⟩
    rw [hr] at e1 e2 e3 e4
    simp only at e1 e2 e3 e4
    simp only [Pt.box, ← e1, ← e2, ← e3, ← e4]

theorem point_contains_line_iff (p : Pt) (pts : Array Pt) (k : IndexKind) (m : Nat) :
    p.containsLine (mkSeries pts false k m) = true ↔ (2 ≤ pts.size ∧ ∀ q ∈ pts.toList, q = p) := by
  unfold Pt.containsLine
  rw [Bool.and_eq_true, decide_eq_true_eq, mkSeries_rect, mkSeries_empty]
  simp only [Bool.false_and, Bool.false_or, Bool.not_eq_true', decide_eq_false_iff_not, not_lt]
  constructor
  · rintro ⟨h, hb⟩
    exact ⟨h, (seriesRect_eq_ptbox_iff p pts false (by simp; omega)).1 hb⟩
  · rintro ⟨h, hq⟩
    exact ⟨h, (seriesRect_eq_ptbox_iff p pts false (by simp; omega)).2 hq⟩

theorem point_contains_poly_iff (p : Pt) (pts : Array Pt) (k : IndexKind) (m : Nat)
    (holes : List Ring) :
    p.containsPoly ⟨some (.ser (mkSeries pts true k m)), holes⟩ = true ↔
      (3 ≤ pts.size ∧ ∀ q ∈ pts.toList, q = p) := by
  show (!(mkSeries pts true k m).empty && decide ((mkSeries pts true k m).rect = p.box)) = true ↔ _
  rw [Bool.and_eq_true, decide_eq_true_eq, mkSeries_rect, mkSeries_empty]
  simp only [Bool.true_and, Bool.not_eq_true',
    decide_eq_false_iff_not, not_lt, Bool.or_eq_false_iff]
  constructor
  · rintro ⟨⟨h, -⟩, hb⟩
    exact ⟨h, (seriesRect_eq_ptbox_iff p pts true (by simp; omega)).1 hb⟩
  · rintro ⟨h, hq⟩
    exact ⟨⟨h, by omega⟩, (seriesRect_eq_ptbox_iff p pts true (by simp; omega)).2 hq⟩

/-! ## Line receiver: the one exact case -/

theorem line_contains_point_iff (l : Line) (hidx : l.index = none) (p : Pt) :
    (Geom.line l).contains (.point p) = true ↔
      ∃ i, i < l.numSegments ∧ OnSeg (l.segmentAt i).a (l.segmentAt i).b p :=
  line_containsPoint_iff l hidx p

/-- Line ∋ Point equals the exact specification, for every vertex sequence -/
theorem line_contains_point_spec (pts : Array Pt) (p : Pt) :
    (Geom.line (mkSeries pts false .none 0)).contains (.point p)
      = Spec.covers (.line pts.toList) (.point p) := by
  have hs : Spec.covers (.line pts.toList) (.point p) =
      (decide (pts.toList.length ≥ 2) && true && Spec.onBoundary (Spec.edges pts.toList false) p) := rfl
  rw [hs, Bool.eq_iff_iff]
  show Line.containsPoint (mkSeries pts false .none 0) p = true ↔ _
  rw [line_containsPoint_iff _ (mkSeries_plain pts false 0).1]
  simp only [Bool.and_true, Bool.and_eq_true, decide_eq_true_eq, Spec.onBoundary, List.any_eq_true]
  constructor
  · rintro ⟨i, hi, hon⟩
    have hi' : i < numSegmentsOf pts false := hi
    refine ⟨?_, _, segmentAt_mem_edges pts false i hi', (spec_onSeg_iff _ _ _).2 hon⟩
    by_contra hlt
    have : numSegmentsOf pts false = 0 := (numSegmentsOf_eq_zero_iff pts false).2 (by
      simp only [Array.length_toList, ge_iff_le, not_le] at hlt
      simp [hlt])
    omega
  · rintro ⟨-, e, he, hon⟩
    obtain ⟨i, hi, rfl⟩ := edges_mem_segmentAt pts false e he
    exact ⟨i, hi, (spec_onSeg_iff _ _ _).1 hon⟩
/-! ## defect witnesses: model (= code) against the exact specification `Spec.covers` -/

theorem D4_wrong_true :
    (Geom.line (mkSeries #[⟨0,0⟩,⟨10,0⟩] false .none 0)).contains
        (.line (mkSeries #[⟨1,0⟩,⟨2,0⟩,⟨2,5⟩] false .none 0)) = true ∧
    Spec.covers (.line [⟨0,0⟩,⟨10,0⟩]) (.line [⟨1,0⟩,⟨2,0⟩,⟨2,5⟩]) = false ∧
    (Spec.Shape.line [⟨0,0⟩,⟨10,0⟩]).valid = true ∧ (Spec.Shape.line [⟨1,0⟩,⟨2,0⟩,⟨2,5⟩]).valid = true := by
  decide +kernel

theorem D4_wrong_false :
    (Geom.line (mkSeries #[⟨4,0⟩,⟨4,2⟩,⟨4,4⟩] false .none 0)).contains
        (.line (mkSeries #[⟨4,0⟩,⟨4,4⟩,⟨4,2⟩] false .none 0)) = false ∧
    Spec.covers (.line [⟨4,0⟩,⟨4,2⟩,⟨4,4⟩]) (.line [⟨4,0⟩,⟨4,4⟩,⟨4,2⟩]) = true ∧
    (Spec.Shape.line [⟨4,0⟩,⟨4,2⟩,⟨4,4⟩]).valid = true ∧ (Spec.Shape.line [⟨4,0⟩,⟨4,4⟩,⟨4,2⟩]).valid = true := by
  decide +kernel

def ringU : List Pt := [⟨0,0⟩,⟨12,0⟩,⟨12,10⟩,⟨8,10⟩,⟨8,2⟩,⟨4,2⟩,⟨4,10⟩,⟨0,10⟩,⟨0,0⟩]
theorem D5_wrong_true :
    (Geom.poly ⟨some (.ser (mkSeries ringU.toArray true .none 0)), []⟩).contains
        (.line (mkSeries #[⟨0,5⟩,⟨12,10⟩] false .none 0)) = true ∧
    ringContainsSegment (.ser (mkSeries ringU.toArray true .none 0)) ⟨⟨0,5⟩,⟨12,10⟩⟩ true = true ∧
    Spec.covers (.poly ringU []) (.line [⟨0,5⟩,⟨12,10⟩]) = false ∧
    (Spec.Shape.poly ringU []).valid = true ∧ (Spec.Shape.line [⟨0,5⟩,⟨12,10⟩]).valid = true := by
  decide +kernel
def ringN : List Pt := [⟨0,0⟩,⟨10,0⟩,⟨10,6⟩,⟨6,6⟩,⟨6,2⟩,⟨4,2⟩,⟨4,6⟩,⟨0,6⟩,⟨0,0⟩]
theorem D5_wrong_false :
    (Geom.poly ⟨some (.ser (mkSeries ringN.toArray true .none 0)), []⟩).contains
        (.line (mkSeries #[⟨4,1⟩,⟨4,6⟩] false .none 0)) = false ∧
    ringContainsSegment (.ser (mkSeries ringN.toArray true .none 0)) ⟨⟨4,1⟩,⟨4,6⟩⟩ true = false ∧
    Spec.covers (.poly ringN []) (.line [⟨4,1⟩,⟨4,6⟩]) = true ∧
    (Spec.Shape.poly ringN []).valid = true ∧ (Spec.Shape.line [⟨4,1⟩,⟨4,6⟩]).valid = true := by
  decide +kernel
def sq10 : List Pt := [⟨0,0⟩,⟨10,0⟩,⟨10,10⟩,⟨0,10⟩,⟨0,0⟩]
def hole35 : List Pt := [⟨3,3⟩,⟨5,3⟩,⟨5,5⟩,⟨3,5⟩,⟨3,3⟩]
theorem D13_wrong_true :
    (Geom.poly ⟨some (.ser (mkSeries sq10.toArray true .none 0)),
        [.ser (mkSeries hole35.toArray true .none 0)]⟩).contains (.rect ⟨⟨3,3⟩,⟨5,5⟩⟩) = true ∧
    Spec.covers (.poly sq10 [hole35]) (.rect ⟨3,3⟩ ⟨5,5⟩) = false ∧
    (Spec.Shape.poly sq10 [hole35]).valid = true ∧ (Spec.Shape.rect ⟨3,3⟩ ⟨5,5⟩).valid = true := by
  decide +kernel

/-- the U-shaped ring of `D5_wrong_true` -/
add_decl_doc ringU
/-- the notched ring of `D5_wrong_false` -/
add_decl_doc ringN

end Geo

#print axioms Geo.line_walk_terminates
#print axioms Geo.line_containsLine_eq
#print axioms Geo.rect_contains_rect_iff
#print axioms Geo.rect_contains_rect_illformed
#print axioms Geo.rect_contains_point_iff
#print axioms Geo.rect_contains_point_spec
#print axioms Geo.point_contains_point_iff
#print axioms Geo.point_contains_rect_iff
#print axioms Geo.box_contains_seriesRect_iff
#print axioms Geo.rect_contains_line_iff
#print axioms Geo.rect_contains_line_empty
#print axioms Geo.rect_contains_line_iff_onSeg
#print axioms Geo.rect_contains_poly_iff
#print axioms Geo.rect_contains_rectpoly
#print axioms Geo.seriesRect_eq_ptbox_iff
#print axioms Geo.point_contains_line_iff
#print axioms Geo.point_contains_poly_iff
#print axioms Geo.line_contains_point_iff
#print axioms Geo.line_contains_point_spec
#print axioms Geo.D4_wrong_true
#print axioms Geo.D4_wrong_false
#print axioms Geo.D5_wrong_true
#print axioms Geo.D5_wrong_false
#print axioms Geo.D13_wrong_true
