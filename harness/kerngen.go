package main

// generator for the kray / ksegint / kcoll ops: arbitrary binary64 inputs for the kernels
// regenerated from the Go source (KernelGen.lean at Float). Beyond regime E on purpose.

import (
	"fmt"
	"math"
	"strings"

	"github.com/tidwall/geojson/geometry"
)

func hexF(f float64) string { return fmt.Sprintf("%016x", math.Float64bits(f)) }

// one ordinate from a mixture of regimes
func kOrd(r *rng, mode int) float64 {
	switch mode {
	case 0: // sixteenths (regime E)
		return float64(r.rangeI(-64, 64)) / 16
	case 1: // small integers
		return float64(r.rangeI(-4, 4))
	case 2: // top of E
		return float64(r.rangeI(-3, 3)) + float64(r.pick([]int{-1, 1}))*float64(int(1)<<20)
	case 3: // arbitrary bit patterns (includes NaN, Inf, denormals)
		return math.Float64frombits(r.next())
	case 4: // decimal-looking values with rounding error
		return float64(r.rangeI(-1800, 1800)) / 10
	case 5: // huge / tiny magnitudes
		return float64(r.rangeI(-5, 5)) * math.Pow(2, float64(r.pick([]int{-1074, -1060, -1022, -600, -30, 30, 600, 1000, 1023})))
	case 6: // specials
		return []float64{0, math.Copysign(0, -1), math.Inf(1), math.Inf(-1), math.NaN(), math.MaxFloat64, -math.MaxFloat64, math.SmallestNonzeroFloat64, 1, -1}[r.intn(10)]
	default: // lon/lat-like doubles
		return (float64(r.next()%3600000000)/10000000 - 180)
	}
}

func kPoint(r *rng, mode int) geometry.Point {
	return geometry.Point{X: kOrd(r, mode), Y: kOrd(r, mode)}
}

func kNudge(r *rng, f float64) float64 {
	switch r.intn(4) {
	case 0:
		return math.Nextafter(f, math.Inf(1))
	case 1:
		return math.Nextafter(f, math.Inf(-1))
	}
	return f
}

func genKern(o *out, r *rng, n int) {
	emit := func(op string, pts []geometry.Point) {
		var sb []string
		for _, p := range pts {
			sb = append(sb, hexF(p.X), hexF(p.Y))
		}
		o.op("%s %s", op, strings.Join(sb, " "))
	}
	for i := 0; i < n; i++ {
		mode := r.intn(8)
		if r.coin(0.15) {
			mode = 6
		}
		a, b := kPoint(r, mode), kPoint(r, mode)
		if r.coin(0.1) {
			b = a
		}
		if r.coin(0.15) {
			b.Y = a.Y
		}
		if r.coin(0.15) {
			b.X = a.X
		}
		// query points: free, on the line (exact or rounded parameter), at the level of an end point,
		// an end point itself, a neighbour double of any of these
		var p geometry.Point
		switch r.intn(6) {
		case 0:
			p = kPoint(r, mode)
		case 1:
			p = a
		case 2:
			p = b
		case 3:
			t := float64(r.rangeI(-2, 6)) / 4
			p = geometry.Point{X: a.X + t*(b.X-a.X), Y: a.Y + t*(b.Y-a.Y)}
		case 4:
			p = geometry.Point{X: kOrd(r, mode), Y: a.Y}
		default:
			p = geometry.Point{X: kOrd(r, mode), Y: b.Y}
		}
		if r.coin(0.3) {
			p = geometry.Point{X: kNudge(r, p.X), Y: kNudge(r, p.Y)}
		}
		if r.coin(0.02) {
			// the configurations of the repaired defect D22: a point at the level +Inf / MaxFloat64 of an end point at +Inf
			a.Y = math.Inf(1)
			if r.coin(0.5) {
				b.Y = math.MaxFloat64
			}
			p.Y = []float64{math.Inf(1), math.MaxFloat64}[r.intn(2)]
		}
		emit("kray", []geometry.Point{a, b, p})
		emit("kcoll", []geometry.Point{a, b, p})
		// a second segment: free, through p, collinear overlap, sharing an end point
		var c, d geometry.Point
		switch r.intn(5) {
		case 0:
			c, d = kPoint(r, mode), kPoint(r, mode)
		case 1:
			c, d = p, kPoint(r, mode)
		case 2:
			t, s := float64(r.rangeI(-2, 6))/4, float64(r.rangeI(-2, 6))/4
			c = geometry.Point{X: a.X + t*(b.X-a.X), Y: a.Y + t*(b.Y-a.Y)}
			d = geometry.Point{X: a.X + s*(b.X-a.X), Y: a.Y + s*(b.Y-a.Y)}
		case 3:
			c, d = a, kPoint(r, mode)
		default:
			c, d = kPoint(r, mode), b
		}
		if r.coin(0.2) {
			d = geometry.Point{X: kNudge(r, d.X), Y: kNudge(r, d.Y)}
		}
		emit("ksegint", []geometry.Point{a, b, c, d})
	}
}

// kproc ops: processPoints on arbitrary doubles
func genKproc(o *out, r *rng, n int) {
	for i := 0; i < n; i++ {
		mode := r.intn(8)
		m := r.pick([]int{0, 1, 2, 3, 3, 4, 5, 6, 8, 12, 20, 40})
		var pts []geometry.Point
		for k := 0; k < m; k++ {
			p := kPoint(r, mode)
			if k > 0 && r.coin(0.12) {
				p = pts[r.intn(len(pts))] // duplicates
			}
			if k > 1 && r.coin(0.12) { // collinear continuation
				a, b := pts[k-2], pts[k-1]
				p = geometry.Point{X: b.X + (b.X - a.X), Y: b.Y + (b.Y - a.Y)}
			}
			pts = append(pts, p)
		}
		closed := r.coin(0.6)
		if closed && m > 0 && r.coin(0.5) {
			pts = append(pts, pts[0])
			if r.coin(0.1) {
				pts[len(pts)-1] = geometry.Point{X: -pts[0].X * 0, Y: pts[0].Y} // -0 / +0 variants of the closing vertex
				if pts[0].X != 0 {
					pts[len(pts)-1] = pts[0]
				}
			}
		}
		var sb []string
		for _, p := range pts {
			sb = append(sb, hexF(p.X), hexF(p.Y))
		}
		c := 0
		if closed {
			c = 1
		}
		o.op("kproc %d %d %s", c, len(pts), strings.Join(sb, " "))
	}
}

// xkern ops: small lattices around a base point, scaled by 2^k (micro-degree grids, huge grids)
func genXkern(o *out, r *rng, n int) {
	for i := 0; i < n; i++ {
		k := r.pick([]int{-40, -30, -20, -20, -10, -4, 0, 7, 20, 60, -100, 300})
		bx, by := 0, 0
		if r.coin(0.6) {
			bx, by = r.rangeI(-(1<<23), 1<<23), r.rangeI(-(1<<23), 1<<23) // e.g. 100 + i*2^-20 as integers times 2^-20
		}
		span := r.pick([]int{2, 3, 4, 20, 1000})
		pt := func() (int, int) { return bx + r.rangeI(-span, span), by + r.rangeI(-span, span) }
		ax, ay := pt()
		cx, cy := pt()
		var px, py, dx, dy int
		bxx, byy := pt()
		switch r.intn(4) {
		case 0:
			px, py = pt()
		case 1: // on the line through a, b
			t := r.rangeI(-2, 3)
			px, py = ax+t*(bxx-ax), ay+t*(byy-ay)
		case 2:
			px, py = ax, ay
		default:
			px, py = bxx, byy
		}
		switch r.intn(4) {
		case 0:
			dx, dy = pt()
		case 1: // collinear with a, b
			t, s := r.rangeI(-2, 3), r.rangeI(-2, 3)
			cx, cy = ax+t*(bxx-ax), ay+t*(byy-ay)
			dx, dy = ax+s*(bxx-ax), ay+s*(byy-ay)
		case 2: // sharing an end point
			cx, cy = bxx, byy
			dx, dy = pt()
		default: // touching in the interior
			dx, dy = px, py
		}
		lim := 1 << 24
		ok := true
		for _, v := range []int{ax, ay, bxx, byy, px, py, cx, cy, dx, dy} {
			if v > lim || v < -lim {
				ok = false
			}
		}
		if ok {
			o.op("xkern %d %d %d %d %d %d %d %d %d %d %d", k, ax, ay, bxx, byy, px, py, cx, cy, dx, dy)
		}
	}
}
