/-
  GeoProofs.Contains.RingRing — `ringIntersectsRing` of two un-indexed rings without contact, in
  closed form: the ring with the smaller bounding-box area is tested against the other, and the
  answer is the strict membership of its first vertex (equivalently of all its points).
-/
import GeoProofs.Contains.PolyRect

namespace Geo
open GL Jordan

namespace Contains

/-- the segment loop of `ringIntersectsRing`: segments of `Q` against ring `P` -/
theorem segLoop (P Q : Array Pt) (allow : Bool) (hQ : 3 ≤ Q.size)
    (hav : NoContact (Spec.edges P.toList true) (Spec.edges Q.toList true)) :
    (List.range (ringOf Q).numSegments).any
        (fun i => ringIntersectsSegment (ringOf P) ((ringOf Q).segmentAt i) allow) =
      Spec.strictIn (Spec.edges P.toList true) Q[0]! := by
  have hne : ((true && decide (Q.size < 3)) || decide (Q.size < 2)) = false := by
    simp; omega
  obtain ⟨hns, -⟩ := numSegmentsOf_ge Q true hne
  have hle := numSegmentsOf_le Q true
  have hpos : 0 < numSegmentsOf Q true := Nat.lt_of_lt_of_le (by omega : 0 < Q.size - 1) hns
  have hcs := chain_strict P.toList Q hQ hav
  apply any_range_const _ _ _ hpos
  intro i hi
  have hi' : i < numSegmentsOf Q true := hi
  show ringIntersectsSegment (ringOf P) (segmentAtOf Q i) allow = _
  rw [ringIntersectsSegment_of_avoids P _ allow
    (fun e he => hav e he ((segmentAtOf Q i).a, (segmentAtOf Q i).b) (segmentAt_mem_edges Q true i hi'))]
  exact (hcs i (Nat.lt_of_lt_of_le hi' hle)).2

theorem first_in_rect (Q : Array Pt) (hQ : 3 ≤ Q.size) : (ringOf Q).rect.containsPt Q[0]! = true := by
  apply GL.mem_rect Q true (by simp; omega)
  rw [getElem!_pos Q 0 (by omega)]
  exact Array.getElem_mem_toList (by omega)

end Contains

open Contains

/-- **`ringIntersectsRing` without boundary contact** (the hole test of `Poly.containsPoly`):
    true iff the ring with the smaller box area lies strictly inside the other one. -/
theorem ringIntersectsRing_strict_of_avoids (P Q : Array Pt) (allowOnEdge : Bool)
    (hP : 3 ≤ P.size) (hQ : 3 ≤ Q.size)
    (hav : NoContact (Spec.edges P.toList true) (Spec.edges Q.toList true)) :
    ringIntersectsRing (.ser (mkSeries P true .none 0)) (.ser (mkSeries Q true .none 0)) allowOnEdge =
      (if (ringOf Q).rect.area > (ringOf P).rect.area
       then Spec.strictIn (Spec.edges Q.toList true) P[0]!
       else Spec.strictIn (Spec.edges P.toList true) Q[0]!) := by
  show ringIntersectsRing (ringOf P) (ringOf Q) allowOnEdge = _
  unfold ringIntersectsRing
  have heP : (ringOf P).empty = false := by rw [ringOf_empty]; simp; omega
  have heQ : (ringOf Q).empty = false := by rw [ringOf_empty]; simp; omega
  rw [heP, heQ]
  simp only [Bool.or_false, Bool.false_eq_true, if_false]
  by_cases hx : (ringOf P).rect.intersects (ringOf Q).rect = true
  · rw [hx]
    simp only [Bool.not_true, Bool.false_eq_true, if_false]
    by_cases ha : (ringOf Q).rect.area > (ringOf P).rect.area
    · rw [if_pos ha, if_pos ha]
      exact segLoop Q P allowOnEdge hP hav.symm
    · rw [if_neg ha, if_neg ha]
      exact segLoop P Q allowOnEdge hQ hav
  · have hx' : (ringOf P).rect.intersects (ringOf Q).rect = false := by simpa using hx
    rw [hx']
    simp only [Bool.not_false, if_true]
    have h1 : Spec.strictIn (Spec.edges Q.toList true) P[0]! = false := by
      apply strictIn_false_of_outside
      cases hc : (ringOf Q).rect.containsPt P[0]! with
      | false => rfl
      | true =>
        rw [intersects_of_common _ _ _ (first_in_rect P hP) hc] at hx'
        cases hx'
    have h2 : Spec.strictIn (Spec.edges P.toList true) Q[0]! = false := by
      apply strictIn_false_of_outside
      cases hc : (ringOf P).rect.containsPt Q[0]! with
      | false => rfl
      | true =>
        rw [intersects_of_common _ _ _ hc (first_in_rect Q hQ)] at hx'
        cases hx'
    rw [h1, h2]
    simp

/-- **the code's `Poly.containsPoly` in general position, in closed form** (parity statements
    only; both polygons arbitrary values, `B`'s exterior and `A`'s holes with ≥ 3 points; `RectClear` for the rings that
    go through the ≥ 16-point shortcut). -/
theorem poly_containsPoly_closed_form (ext : List Pt) (holes : List (List Pt))
    (oext : List Pt) (oholes : List (List Pt))
    (ho3 : 3 ≤ oext.length) (hh3 : ∀ h ∈ holes, 3 ≤ h.length)
    (hgp : NoContact (Spec.Shape.poly ext holes).edges (Spec.Shape.poly oext oholes).edges)
    (hs1 : RectClear ext oext true)
    (hs2 : ∀ g ∈ oholes, ∀ h ∈ holes, RectClear g h true) :
    (build (.poly ext holes)).contains (build (.poly oext oholes)) =
      (Spec.inRing (Spec.edges ext true) oext.toArray[0]! &&
        holes.all (fun h =>
          if (if (rectOf oext true).area > (rectOf h true).area
              then Spec.strictIn (Spec.edges oext true) h.toArray[0]!
              else Spec.strictIn (Spec.edges h true) oext.toArray[0]!)
          then oholes.any (fun g => Spec.inRing (Spec.edges g true) h.toArray[0]!)
          else true)) := by
  show Poly.containsPoly ⟨some (ringOf ext.toArray), holes.map (fun h => ringOf h.toArray)⟩
    ⟨some (ringOf oext.toArray), oholes.map (fun g => ringOf g.toArray)⟩ = _
  unfold Poly.containsPoly
  simp only
  have hE : NoContact (Spec.edges ext true) (Spec.edges oext true) :=
    fun e he f hf => hgp e ((poly_edges_mem ext holes e).2 (Or.inl he)) f
      ((poly_edges_mem oext oholes f).2 (Or.inl hf))
  have hne : (mkSeries oext.toArray true .none 0).empty = false := by
    have := ringOf_empty oext.toArray
    simp only [Ring.empty] at this
    rw [this]; simp; omega
  have hc : ringContainsRing (ringOf ext.toArray) (ringOf oext.toArray) true =
      Spec.inRing (Spec.edges ext true) oext.toArray[0]! := by
    have := ringContainsRing_of_avoids_rect ext.toArray (mkSeries oext.toArray true .none 0) true rfl hE
      (fun h16 => hs1 (by simpa [Series.numPoints, mkSeries] using h16))
    rw [hne] at this
    simpa using this
  rw [hc, List.all_map]
  have hh : holes.all ((fun polyHole =>
        if ringIntersectsRing polyHole (ringOf oext.toArray) false = true then
          (oholes.map (fun g => ringOf g.toArray)).any (fun otherHole => ringContainsRing otherHole polyHole true)
        else true) ∘ (fun h => ringOf h.toArray)) =
      holes.all (fun h =>
          if (if (rectOf oext true).area > (rectOf h true).area
              then Spec.strictIn (Spec.edges oext true) h.toArray[0]!
              else Spec.strictIn (Spec.edges h true) oext.toArray[0]!)
          then oholes.any (fun g => Spec.inRing (Spec.edges g true) h.toArray[0]!)
          else true) := by
    apply all_congr_mem
    intro h hh
    have hH : NoContact (Spec.edges h true) (Spec.edges oext true) :=
      fun e he f hf => hgp e ((poly_edges_mem ext holes e).2 (Or.inr ⟨h, hh, he⟩)) f
        ((poly_edges_mem oext oholes f).2 (Or.inl hf))
    have hri := ringIntersectsRing_strict_of_avoids h.toArray oext.toArray false
      (by simpa using hh3 h hh) (by simpa using ho3) hH
    simp only [Function.comp]
    rw [show (Ring.ser (mkSeries h.toArray true .none 0)) = ringOf h.toArray from rfl] at hri
    rw [hri, List.any_map]
    have hneh : (mkSeries h.toArray true .none 0).empty = false := by
      have := ringOf_empty h.toArray
      simp only [Ring.empty] at this
      rw [this]; simp; exact hh3 h hh
    have hany : oholes.any ((fun otherHole => ringContainsRing otherHole (ringOf h.toArray) true) ∘
          (fun g => ringOf g.toArray)) =
        oholes.any (fun g => Spec.inRing (Spec.edges g true) h.toArray[0]!) := by
      apply any_congr_mem
      intro g hg
      have hG : NoContact (Spec.edges g true) (Spec.edges h true) :=
        fun f hf e he => segsMeet_comm_false
          (hgp e ((poly_edges_mem ext holes e).2 (Or.inr ⟨h, hh, he⟩)) f
            ((poly_edges_mem oext oholes f).2 (Or.inr ⟨g, hg, hf⟩)))
      have := ringContainsRing_of_avoids_rect g.toArray (mkSeries h.toArray true .none 0) true rfl hG
        (fun h16 => hs2 g hg h hh (by simpa [Series.numPoints, mkSeries] using h16))
      rw [hneh] at this
      simpa using this
    rw [hany]
    rfl
  rw [hh]
  cases Spec.inRing (Spec.edges ext true) oext.toArray[0]! <;> simp

end Geo
