/-
  GeoProofs.ContainsConvex.Poly2 — line-string and polygon arguments (with holes) of a convex
  polygon receiver.
-/
import GeoProofs.ContainsConvex.Poly

namespace Geo
namespace CC
open GL Jordan Contains

theorem ite_not_true (b : Bool) : ((if (!b) = true then false else true) = true) ↔ b = true := by
  cases b <;> simp

/-- the facts of `Shape.valid` used for a polygon argument: its exterior has ≥ 3 points and the
    vertices of its holes are strictly inside the exterior -/
theorem valid_poly_facts (oext : List Pt) (oholes : List (List Pt))
    (hB : (Spec.Shape.poly oext oholes).valid = true) :
    3 ≤ oext.length ∧ ∀ h ∈ oholes, ∀ v ∈ h, Spec.strictIn (Spec.edges oext true) v = true := by
  simp only [Spec.Shape.valid, Bool.and_eq_true, List.all_eq_true] at hB
  refine ⟨(Cvx.ring_data oext hB.1.1.1).1, fun h hh v hv => ?_⟩
  have := hB.1.2 h hh
  unfold Spec.holeInside at this
  simp only [Bool.and_eq_true, List.all_eq_true] at this
  exact this.1 v hv

section
variable (ext : List Pt) (hs : Spec.simpleRing ext = true)
  (hcv : (processPoints ext.toArray true).convex = true)
include hs hcv

theorem convex_contains_line (l : List Pt) :
    (build (.poly ext [])).contains (build (.line l)) = Spec.covers (.poly ext []) (.line l) := by
  have hc : Spec.covers (.poly ext []) (.line l) =
      (decide (ext.length ≥ 3) && decide (l.length ≥ 2) && (Spec.edges l false).all (fun e =>
        Spec.segInside (Spec.Shape.poly ext []).member (Spec.Shape.poly ext []).edges e.1 e.2)) := by
    simp only [Spec.covers, Spec.isRegion, Spec.Shape.holes, Spec.Shape.nonEmpty, Spec.Shape.edges,
      Bool.not_true, Bool.and_false, Bool.false_eq_true, if_false, List.all_nil, Bool.and_true]
  rw [hc]
  show Poly.containsLine ⟨some (.ser (mkSeries ext.toArray true .none 0)), []⟩
    (mkSeries l.toArray false .none 0) = _
  unfold Poly.containsLine ringContainsLine
  simp only [List.any_nil, Bool.not_false]
  have hR := ringContainsRing_convex ext.toArray .none 0 (series_search_exact_kind_none _ true 0) hcv
    hs (mkSeries l.toArray false .none 0) rfl
  have h3 : decide (ext.length ≥ 3) = true := by simpa using ext_len ext hs
  rw [Bool.eq_iff_iff, ite_not_true, hR, h3, Bool.true_and, Bool.and_eq_true, polyA_all ext hs hcv,
    decide_eq_true_eq]
  have hemp : (mkSeries l.toArray false .none 0).empty = decide (l.length < 2) := by
    show ((false && decide (l.toArray.size < 3)) || decide (l.toArray.size < 2)) = _
    simp
  rw [hemp]
  by_cases h2 : l.length ≥ 2
  · have hne : ((false && decide (l.toArray.size < 3)) || decide (l.toArray.size < 2)) = false := by
      simp; omega
    have := edges_all_iff l.toArray false hne
      (fun p => Spec.inRing (Spec.edges ext true) p = true)
    rw [this]
    simp only [mkSeries_pts, List.toList_toArray, decide_eq_false_iff_not, not_lt]
  · constructor
    · rintro ⟨h, -⟩
      simp only [decide_eq_false_iff_not, not_lt] at h
      exact absurd h h2
    · rintro ⟨h, -⟩
      exact absurd h h2

theorem convex_contains_poly (oext : List Pt) (oholes : List (List Pt))
    (hB : (Spec.Shape.poly oext oholes).valid = true) :
    (build (.poly ext [])).contains (build (.poly oext oholes)) =
      Spec.covers (.poly ext []) (.poly oext oholes) := by
  obtain ⟨σ, R⟩ := cvxRing_of_simple ext hs hcv
  obtain ⟨ho3, hholes⟩ := valid_poly_facts oext oholes hB
  have hc : Spec.covers (.poly ext []) (.poly oext oholes) =
      (decide (ext.length ≥ 3) && decide (oext.length ≥ 3) &&
        (Spec.Shape.poly oext oholes).edges.all (fun e =>
          Spec.segInside (Spec.Shape.poly ext []).member (Spec.Shape.poly ext []).edges e.1 e.2)) := by
    simp only [Spec.covers, Spec.isRegion, Spec.Shape.holes, Spec.Shape.nonEmpty,
      Bool.not_true, Bool.and_false, Bool.false_eq_true, if_false, List.all_nil, ite_self,
      Bool.and_true]
  rw [hc]
  show Poly.containsPoly ⟨some (.ser (mkSeries ext.toArray true .none 0)), []⟩
    ⟨some (.ser (mkSeries oext.toArray true .none 0)), _⟩ = _
  unfold Poly.containsPoly
  simp only [List.all_nil]
  have hR := ringContainsRing_convex ext.toArray .none 0 (series_search_exact_kind_none _ true 0) hcv
    hs (mkSeries oext.toArray true .none 0) rfl
  have h3 : decide (ext.length ≥ 3) = true := by simpa using ext_len ext hs
  have h3' : decide (oext.length ≥ 3) = true := by simpa using ho3
  have hne : ((true && decide (oext.toArray.size < 3)) || decide (oext.toArray.size < 2)) = false := by
    simp; omega
  have hemp : (mkSeries oext.toArray true .none 0).empty = false := hne
  rw [Bool.eq_iff_iff, ite_not_true, hR, h3, h3', Bool.true_and, Bool.true_and,
    polyA_all ext hs hcv, hemp]
  simp only [mkSeries_pts, List.toList_toArray, true_and]
  constructor
  · intro h e he
    rcases (poly_edges_mem oext oholes e).1 he with he | ⟨hl, hhl, he⟩
    · obtain ⟨h1, h2⟩ := Sym.edges_ends oext true e he
      exact ⟨h _ h1, h _ h2⟩
    · obtain ⟨h1, h2⟩ := Sym.edges_ends hl true e he
      exact ⟨R.region_sub oext h _ (IX.strictIn_inRing (hholes hl hhl _ h1)),
        R.region_sub oext h _ (IX.strictIn_inRing (hholes hl hhl _ h2))⟩
  · intro h
    have := (edges_all_iff oext.toArray true hne
      (fun p => Spec.inRing (Spec.edges ext true) p = true)).1
      (fun e he => h e ((poly_edges_mem oext oholes e).2 (Or.inl he)))
    exact this

end

end CC
end Geo
