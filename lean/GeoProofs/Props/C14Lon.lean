/-
  C14 (longitude half) — RectFromCenter (geo/geo.go) over ℝ covers the spherical disc.

  `Gen.rectFromCenter lat lon m = (minLat, minLon, maxLat, maxLon)` (degrees), generated from the Go
  source, at the exact instance `GeoNum ℝ`.  Props/C14 proves ranges, widening and LATITUDE
  coverage; this file proves LONGITUDE coverage and the combined statement `rect_cover`.

  Result: outside the tiny-radius branch (`cos (m/R) ≤ rectThr`, radii from ≈ 0.28 m), for EVERY
  radius m (no upper bound is needed: large discs contain a pole and get the full range), every
  point within great-circle distance m of the centre has its longitude in [minLon, maxLon] —
  except in two boundary situations, which are real counterexamples to the closed statement:
    * the disc touches a pole exactly (lat·rad ± m/R = ±π/2) and the point IS that pole: the
      pole has every longitude, the rectangle (not widened, the test is a strict `>`) has not
      (`rect_lon_cover_pole_counterexample`);
    * the tangent meridian is exactly the antimeridian (lon·rad ± Δλ = ±π) and the point lies on
      it but is written with the other sign (+180 vs −180) (`rect_lon_cover_antimeridian_counterexample`).
  `rect_lon_cover` excludes exactly these: each side condition is a disjunction "the point is
  strictly inside the coordinate range ∨ the disc does not touch".
-/
import GeoProofs.RectCover.Rad
import GeoProofs.Props.C13
import GeoProofs.Props.C14

namespace Geo.C14
open Geo GeoReal Real Geo.C15

local notation "R" => (6371000 : ℝ)
local notation "rad" => (π / 180)
local notation "deg" => (180 / π)

/-- distance ≤ m, in law-of-cosines form: `cos (m/R) ≤ cos d` -/
theorem cos_le_of_distance_le (lat lon m plat plon : ℝ) (hlat : -90 ≤ lat ∧ lat ≤ 90)
    (hplat : -90 ≤ plat ∧ plat ≤ 90) (hm : 0 ≤ m ∧ m ≤ π * R)
    (hd : Gen.distanceTo lat lon plat plon ≤ m) :
    cos (m / R) ≤ sin (lat * rad) * sin (plat * rad)
      + cos (lat * rad) * cos (plat * rad) * cos (plon * rad - lon * rad) := by
  have h := (Geo.C13.haversine_le_iff_distance_le plon plat lon lat m hm hplat hlat).2 hd
  rw [haversine_eq, distanceToHaversine_eq, hav_eq_half_sub,
    show m / (2 * R) = m / R / 2 by ring, sin_half_sq] at h
  linarith

/-- (1) the full-range cases: a pole inside the disc, or the tangent meridians leave [−π, π] -/
theorem rect_lon_cover_full (lat lon m plon : ℝ) (hplon : -180 ≤ plon ∧ plon ≤ 180)
    (hbig : cos (m / R) ≤ rectThr)
    (h : (π / 2 < lat * rad + m / R ∨ lat * rad - m / R < -π / 2)
      ∨ (lon * rad - rectLonDelta (lat * rad) (m / R) < -π
          ∨ π < lon * rad + rectLonDelta (lat * rad) (m / R))) :
    (Gen.rectFromCenter lat lon m).2.1 ≤ plon ∧ plon ≤ (Gen.rectFromCenter lat lon m).2.2.2 := by
  rcases h with h | h
  · obtain ⟨h1, h2⟩ := rect_pole_widens lat lon m hbig h
    rw [h1, h2]; exact hplon
  · obtain ⟨h1, h2⟩ := rect_wrap_widens lat lon m hbig h
    rw [h1, h2]; exact hplon

private theorem lt_mul_rad {x c : ℝ} (h : c < x) : c * rad < x * rad :=
  mul_lt_mul_of_pos_right h (by positivity)

/-- (2)+(1) LONGITUDE COVERAGE.  Outside the tiny-radius branch, for every radius, a point within
    distance `m` of the centre has its longitude in [minLon, maxLon], provided
    `hP`: the point is not a pole, or the disc does not touch a pole exactly;
    `hA`: the point is not on the antimeridian, or the tangent meridians are not exactly ±π. -/
theorem rect_lon_cover (lat lon m plat plon : ℝ) (hlat : -90 ≤ lat ∧ lat ≤ 90)
    (hplat : -90 ≤ plat ∧ plat ≤ 90) (hplon : -180 ≤ plon ∧ plon ≤ 180)
    (hbig : cos (m / R) ≤ rectThr)
    (hd : Gen.distanceTo lat lon plat plon ≤ m)
    (hP : (-90 < plat ∧ plat < 90) ∨ (lat * rad + m / R ≠ π / 2 ∧ lat * rad - m / R ≠ -π / 2))
    (hA : (-180 < plon ∧ plon < 180)
      ∨ (lon * rad - rectLonDelta (lat * rad) (m / R) ≠ -π
          ∧ lon * rad + rectLonDelta (lat * rad) (m / R) ≠ π)) :
    (Gen.rectFromCenter lat lon m).2.1 ≤ plon ∧ plon ≤ (Gen.rectFromCenter lat lon m).2.2.2 := by
  have hp := pi_pos
  by_cases hfull : (π / 2 < lat * rad + m / R ∨ lat * rad - m / R < -π / 2)
      ∨ (lon * rad - rectLonDelta (lat * rad) (m / R) < -π
          ∨ π < lon * rad + rectLonDelta (lat * rad) (m / R))
  · exact rect_lon_cover_full lat lon m plon hplon hbig hfull
  simp only [not_or, not_lt] at hfull
  obtain ⟨⟨hN, hS⟩, hlo, hhi⟩ := hfull
  have hS' : -π / 2 ≤ lat * rad - m / R := by linarith
  have hm0 : 0 ≤ m := le_trans (distanceTo_nonneg _ _ _ _) hd
  have hr0' : 0 ≤ m / R := div_nonneg hm0 (by norm_num)
  have hr0 : 0 < m / R := by
    rcases hr0'.eq_or_lt with h | h
    · rw [← h, cos_zero] at hbig; unfold rectThr at hbig; norm_num at hbig
    · exact h
  have hmR : m ≤ π * R := by
    have : m / R ≤ π := by linarith
    rwa [div_le_iff₀ (by norm_num : (0 : ℝ) < R)] at this
  have hcos := cos_le_of_distance_le lat lon m plat plon hlat hplat ⟨hm0, hmR⟩ hd
  have hφ' : -π / 2 ≤ plat * rad ∧ plat * rad ≤ π / 2 := by
    have h3 := mul_rad_le hplat.1
    have h4 := mul_rad_le hplat.2
    constructor <;> linarith
  have hlp : -π ≤ plon * rad ∧ plon * rad ≤ π := by
    have h3 := mul_rad_le hplon.1
    have h4 := mul_rad_le hplon.2
    constructor <;> linarith
  have hP' : (-π / 2 < plat * rad ∧ plat * rad < π / 2)
      ∨ (lat * rad + m / R ≠ π / 2 ∧ lat * rad - m / R ≠ -π / 2) := by
    rcases hP with h | h
    · left
      have h3 := lt_mul_rad h.1
      have h4 := lt_mul_rad h.2
      constructor <;> linarith
    · exact Or.inr h
  have hA' : (-π < plon * rad ∧ plon * rad < π)
      ∨ (lon * rad - rectLonDelta (lat * rad) (m / R) ≠ -π
          ∧ lon * rad + rectLonDelta (lat * rad) (m / R) ≠ π) := by
    rcases hA with h | h
    · left
      have h3 := lt_mul_rad h.1
      have h4 := lt_mul_rad h.2
      constructor <;> linarith
    · exact Or.inr h
  obtain ⟨c1, c2⟩ := lon_cover_rad hr0 hN hS' hφ' hlp hlo hhi hcos hP' hA'
  rw [rectFromCenter_eq]
  simp only [rectRad]
  have hs : rectS1 (lat * rad) (lon * rad) (m / R) =
      (lat * rad - m / R, lon * rad - rectLonDelta (lat * rad) (m / R), lat * rad + m / R,
        lon * rad + rectLonDelta (lat * rad) (m / R)) := by
    rw [rectS1, if_neg (not_lt.2 hbig)]
  rw [hs, rectAdj_id _ (by simpa using hN) (by simpa using hS') (by simpa using hlo)
    (by simpa using hhi)]
  exact ⟨mul_deg_le c1, le_mul_deg c2⟩

/-- longitude coverage for points strictly inside the coordinate ranges: no side condition -/
theorem rect_lon_cover_interior (lat lon m plat plon : ℝ) (hlat : -90 ≤ lat ∧ lat ≤ 90)
    (hplat : -90 < plat ∧ plat < 90) (hplon : -180 < plon ∧ plon < 180)
    (hbig : cos (m / R) ≤ rectThr) (hd : Gen.distanceTo lat lon plat plon ≤ m) :
    (Gen.rectFromCenter lat lon m).2.1 ≤ plon ∧ plon ≤ (Gen.rectFromCenter lat lon m).2.2.2 :=
  rect_lon_cover lat lon m plat plon hlat ⟨hplat.1.le, hplat.2.le⟩ ⟨hplon.1.le, hplon.2.le⟩ hbig hd
    (Or.inl hplat) (Or.inl hplon)

/-- longitude coverage for ALL points (poles and antimeridian included) when the disc touches
    neither a pole nor the antimeridian exactly -/
theorem rect_lon_cover_nontouch (lat lon m plat plon : ℝ) (hlat : -90 ≤ lat ∧ lat ≤ 90)
    (hplat : -90 ≤ plat ∧ plat ≤ 90) (hplon : -180 ≤ plon ∧ plon ≤ 180)
    (hbig : cos (m / R) ≤ rectThr) (hd : Gen.distanceTo lat lon plat plon ≤ m)
    (hP : lat * rad + m / R ≠ π / 2 ∧ lat * rad - m / R ≠ -π / 2)
    (hA : lon * rad - rectLonDelta (lat * rad) (m / R) ≠ -π
          ∧ lon * rad + rectLonDelta (lat * rad) (m / R) ≠ π) :
    (Gen.rectFromCenter lat lon m).2.1 ≤ plon ∧ plon ≤ (Gen.rectFromCenter lat lon m).2.2.2 :=
  rect_lon_cover lat lon m plat plon hlat hplat hplon hbig hd (Or.inr hP) (Or.inr hA)

/-- (3) C14 COVERAGE: outside the tiny-radius branch the rectangle contains every point within
    distance `m` of the centre (side conditions `hP`, `hA` as in `rect_lon_cover`). -/
theorem rect_cover (lat lon m plat plon : ℝ) (hlat : -90 ≤ lat ∧ lat ≤ 90)
    (hplat : -90 ≤ plat ∧ plat ≤ 90) (hplon : -180 ≤ plon ∧ plon ≤ 180)
    (hbig : cos (m / R) ≤ rectThr)
    (hd : Gen.distanceTo lat lon plat plon ≤ m)
    (hP : (-90 < plat ∧ plat < 90) ∨ (lat * rad + m / R ≠ π / 2 ∧ lat * rad - m / R ≠ -π / 2))
    (hA : (-180 < plon ∧ plon < 180)
      ∨ (lon * rad - rectLonDelta (lat * rad) (m / R) ≠ -π
          ∧ lon * rad + rectLonDelta (lat * rad) (m / R) ≠ π)) :
    ((Gen.rectFromCenter lat lon m).1 ≤ plat ∧ plat ≤ (Gen.rectFromCenter lat lon m).2.2.1)
    ∧ ((Gen.rectFromCenter lat lon m).2.1 ≤ plon ∧ plon ≤ (Gen.rectFromCenter lat lon m).2.2.2) :=
  ⟨rect_lat_cover_partial lat lon m plat plon hlat hplat hbig hd,
   rect_lon_cover lat lon m plat plon hlat hplat hplon hbig hd hP hA⟩

/-- coverage for points strictly inside the coordinate ranges -/
theorem rect_cover_interior (lat lon m plat plon : ℝ) (hlat : -90 ≤ lat ∧ lat ≤ 90)
    (hplat : -90 < plat ∧ plat < 90) (hplon : -180 < plon ∧ plon < 180)
    (hbig : cos (m / R) ≤ rectThr) (hd : Gen.distanceTo lat lon plat plon ≤ m) :
    ((Gen.rectFromCenter lat lon m).1 ≤ plat ∧ plat ≤ (Gen.rectFromCenter lat lon m).2.2.1)
    ∧ ((Gen.rectFromCenter lat lon m).2.1 ≤ plon ∧ plon ≤ (Gen.rectFromCenter lat lon m).2.2.2) :=
  rect_cover lat lon m plat plon hlat ⟨hplat.1.le, hplat.2.le⟩ ⟨hplon.1.le, hplon.2.le⟩ hbig hd
    (Or.inl hplat) (Or.inl hplon)

/-! ### the two boundary counterexamples -/

/-- when nothing is widened the longitudes are `lon ± rectLonDelta` (in degrees) -/
theorem rect_lon_of_nowiden (lat lon m : ℝ) (hbig : cos (m / R) ≤ rectThr)
    (hN : lat * rad + m / R ≤ π / 2) (hS : -π / 2 ≤ lat * rad - m / R)
    (hlo : -π ≤ lon * rad - rectLonDelta (lat * rad) (m / R))
    (hhi : lon * rad + rectLonDelta (lat * rad) (m / R) ≤ π) :
    (Gen.rectFromCenter lat lon m).2.1 = (lon * rad - rectLonDelta (lat * rad) (m / R)) * deg
    ∧ (Gen.rectFromCenter lat lon m).2.2.2
        = (lon * rad + rectLonDelta (lat * rad) (m / R)) * deg := by
  rw [rectFromCenter_eq]
  simp only [rectRad]
  have hs : rectS1 (lat * rad) (lon * rad) (m / R) =
      (lat * rad - m / R, lon * rad - rectLonDelta (lat * rad) (m / R), lat * rad + m / R,
        lon * rad + rectLonDelta (lat * rad) (m / R)) := by
    rw [rectS1, if_neg (not_lt.2 hbig)]
  rw [hs, rectAdj_id _ (by simpa using hN) (by simpa using hS) (by simpa using hlo)
    (by simpa using hhi)]
  exact ⟨rfl, rfl⟩

private theorem cos_quarter_le_thr : cos (π / 4 * R / R) ≤ rectThr := by
  rw [show π / 4 * R / R = π / 4 by field_simp, cos_pi_div_four]
  unfold rectThr
  have h1 := Real.sq_sqrt (show (0 : ℝ) ≤ 2 by norm_num)
  have h2 := Real.sqrt_nonneg 2
  by_contra h
  rw [not_le] at h
  nlinarith

private theorem quarter_mem : (0 : ℝ) ≤ π / 4 * R ∧ π / 4 * R ≤ π * R / 2 := by
  have := pi_pos
  constructor <;> nlinarith

/-- distance ≤ m from the haversine comparison, for the witnesses below -/
private theorem dist_le_of_hav (lat lon plat plon : ℝ) (hlat : -90 ≤ lat ∧ lat ≤ 90)
    (hplat : -90 ≤ plat ∧ plat ≤ 90)
    (h : sin ((plat * rad - lat * rad) / 2) ^ 2
        + cos (lat * rad) * cos (plat * rad) * sin ((plon * rad - lon * rad) / 2) ^ 2
        ≤ sin (π / 8) ^ 2) :
    Gen.distanceTo lat lon plat plon ≤ π / 4 * R := by
  have hp := pi_pos
  apply (Geo.C13.haversine_le_iff_distance_le plon plat lon lat (π / 4 * R)
    ⟨quarter_mem.1, by nlinarith⟩ hplat hlat).1
  rw [haversine_eq, distanceToHaversine_eq, show π / 4 * R / (2 * R) = π / 8 by field_simp; ring]
  exact h

/-- COUNTEREXAMPLE (disc touching a pole).  Centre (45°, 0°), radius a quarter of the half
    circumference (`m/R = π/4`): the disc reaches the north pole exactly, the test
    `maxLat > π/2` is strict, so the longitudes stay [−90°, 90°]; the pole written as (90°, 180°)
    is at distance exactly `m` and is not covered. -/
theorem rect_lon_cover_pole_counterexample :
    ¬ ∀ lat lon m plat plon : ℝ, (-90 ≤ lat ∧ lat ≤ 90) → (-180 ≤ lon ∧ lon ≤ 180) →
        (-90 ≤ plat ∧ plat ≤ 90) → (-180 < plon ∧ plon ≤ 180) → cos (m / R) ≤ rectThr →
        (0 ≤ m ∧ m ≤ π * R / 2) → Gen.distanceTo lat lon plat plon ≤ m →
        (Gen.rectFromCenter lat lon m).2.1 ≤ plon ∧ plon ≤ (Gen.rectFromCenter lat lon m).2.2.2 := by
  intro h
  have hp := pi_pos
  have e : π / 4 * R / R = π / 4 := by field_simp
  have e45 : (45 : ℝ) * rad = π / 4 := by ring
  have hD : rectLonDelta (45 * rad) (π / 4 * R / R) = π / 2 := by
    rw [e, e45, rectLonDelta_eq (by rw [cos_pi_div_four]; positivity)
      (by rw [cos_pi_div_four]; positivity) (by rw [cos_pi_div_four, sin_pi_div_four]),
      cos_pi_div_four, sin_pi_div_four]
    simp
  have hd : Gen.distanceTo 45 0 90 180 ≤ π / 4 * R := by
    apply dist_le_of_hav _ _ _ _ ⟨by norm_num, by norm_num⟩ ⟨by norm_num, by norm_num⟩
    rw [show (90 : ℝ) * rad = π / 2 by ring, cos_pi_div_two, e45,
      show (π / 2 - π / 4) / 2 = π / 8 by ring]
    simp
  have hr := (rect_lon_of_nowiden 45 0 (π / 4 * R) cos_quarter_le_thr
    (by rw [e, e45]; linarith) (by rw [e, e45]; linarith) (by rw [hD]; linarith)
    (by rw [hD]; linarith)).2
  have := (h 45 0 (π / 4 * R) 90 180 ⟨by norm_num, by norm_num⟩ ⟨by norm_num, by norm_num⟩
    ⟨by norm_num, by norm_num⟩ ⟨by norm_num, by norm_num⟩ cos_quarter_le_thr quarter_mem hd).2
  rw [hr, hD] at this
  have e2 : (0 * rad + π / 2) * deg = 90 := by field_simp; ring
  rw [e2] at this
  norm_num at this

/-- COUNTEREXAMPLE (tangent meridian = antimeridian).  Centre (0°, −135°), `m/R = π/4`: the
    rectangle is [−180°, −90°] in longitude (`minLon < −π` is strict, no widening); the point
    (0°, +180°) — the same meridian as −180° — is at distance exactly `m` and is not covered. -/
theorem rect_lon_cover_antimeridian_counterexample :
    ¬ ∀ lat lon m plat plon : ℝ, (-90 ≤ lat ∧ lat ≤ 90) → (-180 ≤ lon ∧ lon ≤ 180) →
        (-90 < plat ∧ plat < 90) → (-180 ≤ plon ∧ plon ≤ 180) → cos (m / R) ≤ rectThr →
        (0 ≤ m ∧ m ≤ π * R / 2) → Gen.distanceTo lat lon plat plon ≤ m →
        (Gen.rectFromCenter lat lon m).2.1 ≤ plon ∧ plon ≤ (Gen.rectFromCenter lat lon m).2.2.2 := by
  intro h
  have hp := pi_pos
  have e : π / 4 * R / R = π / 4 := by field_simp
  have hc4 : 0 ≤ cos (π / 4) := by rw [cos_pi_div_four]; positivity
  have hD : rectLonDelta (0 * rad) (π / 4 * R / R) = π / 4 := by
    rw [e, zero_mul, rectLonDelta_eq (by rw [cos_zero]; norm_num) hc4
      (by rw [sin_zero, zero_pow two_ne_zero]; exact sq_nonneg _), cos_zero, sin_zero, div_one,
      show cos (π / 4) ^ 2 - 0 ^ 2 = cos (π / 4) ^ 2 by ring, sqrt_sq hc4,
      arccos_cos (by linarith) (by linarith)]
  have hd : Gen.distanceTo 0 (-135) 0 180 ≤ π / 4 * R := by
    apply dist_le_of_hav _ _ _ _ ⟨by norm_num, by norm_num⟩ ⟨by norm_num, by norm_num⟩
    rw [show (180 * rad - -135 * rad) / 2 = π - π / 8 by ring, sin_pi_sub]
    simp
  have hr := (rect_lon_of_nowiden 0 (-135) (π / 4 * R) cos_quarter_le_thr
    (by rw [e]; linarith) (by rw [e]; linarith) (by rw [hD]; linarith)
    (by rw [hD]; linarith)).2
  have := (h 0 (-135) (π / 4 * R) 0 180 ⟨by norm_num, by norm_num⟩ ⟨by norm_num, by norm_num⟩
    ⟨by norm_num, by norm_num⟩ ⟨by norm_num, by norm_num⟩ cos_quarter_le_thr quarter_mem hd).2
  rw [hr, hD] at this
  have e2 : (-135 * rad + π / 4) * deg = -90 := by field_simp; ring
  rw [e2] at this
  norm_num at this

end Geo.C14

#print axioms Geo.C14.rectLonDelta_eq
#print axioms Geo.C14.rectLonDelta_eq_arcsin
#print axioms Geo.C14.rectLonDelta_attained
#print axioms Geo.C14.lon_cover_rad
#print axioms Geo.C14.cos_le_of_distance_le
#print axioms Geo.C14.rect_lon_cover_full
#print axioms Geo.C14.rect_lon_cover
#print axioms Geo.C14.rect_lon_cover_interior
#print axioms Geo.C14.rect_lon_cover_nontouch
#print axioms Geo.C14.rect_cover
#print axioms Geo.C14.rect_cover_interior
#print axioms Geo.C14.rect_lon_of_nowiden
#print axioms Geo.C14.rect_lon_cover_pole_counterexample
#print axioms Geo.C14.rect_lon_cover_antimeridian_counterexample
