/-
  GeoProofs.RectCover.Trig — pure real trigonometry behind the longitude half of C14
  (RectFromCenter covers the spherical disc):
    * haversine ↔ spherical law of cosines;
    * the code's half-width `rectLonDelta φ r` in closed form, arccos (√(cos² r − sin² φ) / cos φ)
      (= arcsin (sin r / cos φ));
    * the longitude deviation of every point of the disc is bounded by it.
-/
import GeoProofs.GeoLemmas

namespace Geo.C14
open Geo GeoReal Real

/-- haversine form = (1 − law-of-cosines form) / 2 -/
theorem hav_eq_half_sub (φ φ' δ : ℝ) :
    sin ((φ' - φ) / 2) ^ 2 + cos φ * cos φ' * sin (δ / 2) ^ 2
      = (1 - (sin φ * sin φ' + cos φ * cos φ' * cos δ)) / 2 := by
  rw [sin_sq_eq_half_sub, sin_sq_eq_half_sub,
    show 2 * ((φ' - φ) / 2) = φ' - φ by ring, show 2 * (δ / 2) = δ by ring, cos_sub]
  ring

theorem sin_half_sq (r : ℝ) : sin (r / 2) ^ 2 = (1 - cos r) / 2 := by
  rw [sin_sq_eq_half_sub, show 2 * (r / 2) = r by ring]; ring

/-- Cauchy–Schwarz step: on the disc `cos d ≥ cos r` the longitude deviation `δ` satisfies
    `cos δ ≥ √(cos² r − sin² φ) / cos φ`. -/
theorem cos_dev_ge {φ r φ' δ : ℝ} (hc : 0 < cos φ) (hc' : 0 < cos φ') (hr : 0 ≤ cos r)
    (hq : sin φ ^ 2 ≤ cos r ^ 2)
    (hd : cos r ≤ sin φ * sin φ' + cos φ * cos φ' * cos δ) :
    √(cos r ^ 2 - sin φ ^ 2) / cos φ ≤ cos δ := by
  set Q := √(cos r ^ 2 - sin φ ^ 2) with hQ
  have hQ0 : 0 ≤ Q := sqrt_nonneg _
  have hQ2 : Q ^ 2 = cos r ^ 2 - sin φ ^ 2 := sq_sqrt (by linarith)
  have h1 := sin_sq_add_cos_sq φ'
  -- sin φ · s' + Q · c' ≤ cos r
  have hcs : sin φ * sin φ' + Q * cos φ' ≤ cos r := by
    have hsq : (sin φ * sin φ' + Q * cos φ') ^ 2 ≤ cos r ^ 2 := by
      nlinarith [sq_nonneg (sin φ * cos φ' - Q * sin φ')]
    exact (abs_le_of_sq_le_sq' hsq hr).2
  have h2 : Q * cos φ' ≤ cos δ * cos φ * cos φ' := by nlinarith
  have h3 : Q ≤ cos δ * cos φ := le_of_mul_le_mul_right h2 hc'
  rwa [div_le_iff₀ hc]

/-- The half-width computed by the code, in closed form.  Holds whenever the disc contains no pole
    in its interior (`sin² φ ≤ cos² r`, `cos r ≥ 0`), including the touching case where the code
    divides by zero (over ℝ: x / 0 = 0, and the closed form is 0 too). -/
theorem rectLonDelta_eq {φ r : ℝ} (hc : 0 < cos φ) (hr : 0 ≤ cos r)
    (hq : sin φ ^ 2 ≤ cos r ^ 2) :
    rectLonDelta φ r = arccos (√(cos r ^ 2 - sin φ ^ 2) / cos φ) := by
  unfold rectLonDelta
  simp only
  set Q := √(cos r ^ 2 - sin φ ^ 2) with hQ
  have hQ0 : 0 ≤ Q := sqrt_nonneg _
  have hQ2 : Q ^ 2 = cos r ^ 2 - sin φ ^ 2 := sq_sqrt (by linarith)
  congr 1
  rcases hr.eq_or_lt with h0 | hpos
  · -- cos r = 0, hence sin φ = 0
    have hs : sin φ = 0 := by
      have : sin φ ^ 2 ≤ 0 := by rw [← h0] at hq; simpa using hq
      exact pow_eq_zero_iff (two_ne_zero) |>.1 (le_antisymm this (sq_nonneg _))
    have hQz : Q = 0 := by
      have : Q ^ 2 = 0 := by rw [hQ2, ← h0, hs]; ring
      exact pow_eq_zero_iff (two_ne_zero) |>.1 this
    rw [← h0, hs, hQz]; simp
  · have habs : |sin φ| ≤ cos r := abs_le_of_sq_le_sq hq hpos.le
    have ht : -1 ≤ sin φ / cos r ∧ sin φ / cos r ≤ 1 := by
      rw [abs_le] at habs
      constructor
      · rw [le_div_iff₀ hpos]; linarith
      · rw [div_le_iff₀ hpos]; linarith
    rw [sin_arcsin ht.1 ht.2, cos_arcsin]
    have e1 : 1 - (sin φ / cos r) ^ 2 = (Q / cos r) ^ 2 := by
      rw [div_pow, div_pow, hQ2]; field_simp
    rw [e1, sqrt_sq (div_nonneg hQ0 hpos.le)]
    rcases hQ0.eq_or_lt with hz | hQpos
    · rw [← hz]; simp
    · have e2 : cos r - sin φ / cos r * sin φ = Q ^ 2 / cos r := by
        rw [hQ2]; field_simp
      rw [e2]; field_simp

/-- the classical form of the half-width: `Δλ = arcsin (sin r / cos φ)` -/
theorem rectLonDelta_eq_arcsin {φ r : ℝ} (hc : 0 < cos φ) (hr : 0 ≤ cos r) (hs : 0 ≤ sin r)
    (hq : sin φ ^ 2 ≤ cos r ^ 2) :
    rectLonDelta φ r = arcsin (sin r / cos φ) := by
  rw [rectLonDelta_eq hc hr hq, arcsin_eq_arccos (div_nonneg hs hc.le)]
  congr 1
  have h1 := sin_sq_add_cos_sq φ
  have h2 := sin_sq_add_cos_sq r
  have e : 1 - (sin r / cos φ) ^ 2 = (cos r ^ 2 - sin φ ^ 2) / cos φ ^ 2 := by
    rw [div_pow, eq_div_iff (pow_ne_zero 2 hc.ne')]
    field_simp
    linear_combination h1 - h2
  rw [e, sqrt_div' _ (sq_nonneg _), sqrt_sq hc.le]

/-- `cos δ ≥ A` with `|δ| ≤ π` bounds `|δ|` by `arccos A` -/
theorem abs_le_arccos_of_le_cos {δ A : ℝ} (hδ : |δ| ≤ π) (h : A ≤ cos δ) : |δ| ≤ arccos A := by
  have : arccos (cos |δ|) = |δ| := arccos_cos (abs_nonneg _) hδ
  rw [← this, cos_abs]
  exact arccos_le_arccos h

/-- The interval step.  `lp` is a longitude in [−π, π], the (unwrapped) interval
    `[l − D, l + D]` lies inside [−π, π], and `cos (lp − l) ≥ A` with `D = arccos A`.  Then `lp`
    is in the interval — unless it sits on the antimeridian while the interval ends exactly
    there (`lp = ±π`, identified meridians). -/
theorem lon_mem_of_cos_ge {l lp A : ℝ} (hlp : -π ≤ lp ∧ lp ≤ π)
    (hlo : -π ≤ l - arccos A) (hhi : l + arccos A ≤ π) (h : A ≤ cos (lp - l))
    (hgen : (-π < lp ∧ lp < π) ∨ (l - arccos A ≠ -π ∧ l + arccos A ≠ π)) :
    l - arccos A ≤ lp ∧ lp ≤ l + arccos A := by
  have hp := pi_pos
  have hD0 := arccos_nonneg A
  rcases le_or_gt |lp - l| π with hin | hout
  · have := abs_le.1 (abs_le_arccos_of_le_cos hin h)
    constructor <;> linarith [this.1, this.2]
  · exfalso
    rcases lt_abs.1 hout with h1 | h1
    · -- lp - l > π : use δ' = lp - l - 2π
      have hc : cos (lp - l - 2 * π) = cos (lp - l) := cos_sub_two_pi _
      have hb : |lp - l - 2 * π| ≤ π := by rw [abs_le]; constructor <;> linarith
      have := abs_le.1 (abs_le_arccos_of_le_cos hb (hc ▸ h))
      rcases hgen with hg | hg
      · linarith [this.1, hg.2]
      · exact hg.1 (by linarith [this.1])
    · have hc : cos (lp - l + 2 * π) = cos (lp - l) := cos_add_two_pi _
      have hb : |lp - l + 2 * π| ≤ π := by rw [abs_le]; constructor <;> linarith
      have := abs_le.1 (abs_le_arccos_of_le_cos hb (hc ▸ h))
      rcases hgen with hg | hg
      · linarith [this.2, hg.1]
      · exact hg.2 (by linarith [this.2])

end Geo.C14
