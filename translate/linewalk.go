package main

// linewalk: translates the loops of <repo>/geometry/line.go that `glue` leaves out —
// (*Line).ContainsPoint, (*Line).ContainsLine, (*Line).IntersectsLine, (*Line).ContainsPoly —
// into a Lean file (namespace Geo.LGen, core Lean only).  The definitions are PARAMETRISED by
// what they call: every callee (method, struct field read, struct literal, field store, float
// comparison, Point equality) becomes a field of the generated structure
// `LineOps L S B P F Y` (L: non-nil *Line / Line value, S: Segment, B: Rect, P: Point,
// F: float64, Y: non-nil *Poly); the fields are discovered from the source.
//
// Purely syntactic (go/parser + go/ast; a small local type inference with flow-sensitive nil
// refinement), deterministic.  Recognised subset:
//   * `x := e`, `x = e`, `var x T`, `x++`, `x--`, parallel assignment `a, b = b, a`,
//     `v.f.g = e` on a Line VALUE (↦ ops.lineSet_f_g v e), `&v` of a Line value (↦ some v);
//   * if / else-if / else; nil tests in a condition are split off along ||, &&, ! and become a
//     `match` on the Option; an `if` that contains return/break/continue is translated in
//     continuation style (the following statements are copied into the arms that fall through),
//     any other `if` as `let (assigned vars) := if c then … else …`;
//   * counted loop `for v := lo; v < hi; v++ { body }` (body does not assign v, hi not assigned
//     in body) ↦ forRange (fun v state => body) (intRange lo hi) state;
//   * any other `for init; cond; post { body }` ↦ iterate fuel cond step state — a FUELLED
//     iteration over the tuple of assigned variables (Go has no fuel: `fuel` is an explicit
//     argument of the generated definition, which then returns Option, none = fuel exhausted);
//     `continue` and the end of the body execute the post statement;
//   * `recv.Search(rect, func(seg Segment, idx int) bool { body })` ↦ forRange of the translated
//     closure over the abstract visit list `ops.lineSearch recv rect : List (S × Int)`;
//     `return true` ↦ Flow.next, `return false` ↦ Flow.brk (early stop);
//   * continue/end ↦ Flow.next, break ↦ Flow.brk, return e ↦ Flow.ret e in loop bodies.
// Whatever is not recognised is emitted as `opaque <name>_unrecognised : Unit` preceded by the
// reason; a function that calls an unrecognised function becomes unrecognised itself.

import (
	"fmt"
	"go/ast"
	"go/parser"
	"go/token"
	"os"
	"path/filepath"
	"sort"
	"strings"
)

func init() { translators["linewalk"] = translateLineWalk }

var lwTargets = []string{"Line.ContainsPoint", "Line.ContainsLine", "Line.IntersectsLine", "Line.ContainsPoly"}

type lwKind int

const (
	lwBad lwKind = iota
	lwBool
	lwInt
	lwFloat
	lwPoint
	lwRect
	lwSeg
	lwLine  // *Line  -> Option L (L when known non-nil)
	lwLineV // Line (value) -> L
	lwPoly  // *Poly  -> Option Y
	lwPoints
	lwNil
)

type lwTy struct {
	k  lwKind
	nn bool
}

func (t lwTy) nilable() bool { return t.k == lwLine || t.k == lwPoly }

func (t lwTy) lean() string {
	switch t.k {
	case lwBool:
		return "Bool"
	case lwInt:
		return "Int"
	case lwFloat:
		return "F"
	case lwPoint:
		return "P"
	case lwRect:
		return "B"
	case lwSeg:
		return "S"
	case lwLineV:
		return "L"
	case lwPoints:
		return "List P"
	case lwLine:
		if t.nn {
			return "L"
		}
		return "Option L"
	case lwPoly:
		if t.nn {
			return "Y"
		}
		return "Option Y"
	}
	return "?"
}

// short name of the Go type, used as prefix of the op fields
func (t lwTy) prefix() string {
	switch t.k {
	case lwPoint:
		return "point"
	case lwRect:
		return "rect"
	case lwSeg:
		return "seg"
	case lwLine, lwLineV:
		return "line"
	case lwPoly:
		return "poly"
	}
	return ""
}

func (t lwTy) goType() string {
	switch t.k {
	case lwPoint:
		return "Point"
	case lwRect:
		return "Rect"
	case lwSeg:
		return "Segment"
	case lwLine, lwLineV:
		return "Line"
	case lwPoly:
		return "Poly"
	}
	return ""
}

func lwAtom(s string) string {
	if strings.ContainsAny(s, " ") && !(strings.HasPrefix(s, "(") && strings.HasSuffix(s, ")") && lwBalanced(s[1:len(s)-1])) &&
		!(strings.HasPrefix(s, "[") && strings.HasSuffix(s, "]")) {
		return "(" + s + ")"
	}
	if strings.HasPrefix(s, "-") || strings.HasPrefix(s, "!") {
		return "(" + s + ")"
	}
	return s
}

// lwBalanced: the parentheses inside s never close more than they opened
func lwBalanced(s string) bool {
	d := 0
	for _, c := range s {
		if c == '(' {
			d++
		} else if c == ')' {
			d--
			if d < 0 {
				return false
			}
		}
	}
	return d == 0
}

type lwFunc struct {
	key      string
	leanName string
	decl     *ast.FuncDecl
	file     string
	state    int // 0 untouched, 1 in progress, 2 done
	partial  bool
	lines    []string
	reason   string
}

type lwOp struct {
	name    string
	params  []string
	result  string
	comment string
}

type lwPkg struct {
	fset  *token.FileSet
	funcs map[string]*lwFunc
	types map[string]*ast.TypeSpec
	srcs  map[string][]byte
	ops   map[string]*lwOp
	order []*lwFunc
}

func lwRecv(e ast.Expr) string {
	if s, ok := e.(*ast.StarExpr); ok {
		e = s.X
	}
	if id, ok := e.(*ast.Ident); ok {
		return id.Name
	}
	return "?"
}

func lwLoad(repo string) (*lwPkg, error) {
	dir := filepath.Join(repo, "geometry")
	ents, err := os.ReadDir(dir)
	if err != nil {
		return nil, err
	}
	var names []string
	for _, e := range ents {
		n := e.Name()
		if !e.IsDir() && strings.HasSuffix(n, ".go") && !strings.HasSuffix(n, "_test.go") {
			names = append(names, n)
		}
	}
	sort.Strings(names)
	p := &lwPkg{fset: token.NewFileSet(), funcs: map[string]*lwFunc{}, types: map[string]*ast.TypeSpec{},
		srcs: map[string][]byte{}, ops: map[string]*lwOp{}}
	for _, n := range names {
		src, err := os.ReadFile(filepath.Join(dir, n))
		if err != nil {
			return nil, err
		}
		f, err := parser.ParseFile(p.fset, n, src, parser.SkipObjectResolution)
		if err != nil {
			return nil, err
		}
		p.srcs[n] = src
		for _, d := range f.Decls {
			switch d := d.(type) {
			case *ast.FuncDecl:
				key := d.Name.Name
				if d.Recv != nil && len(d.Recv.List) == 1 {
					key = lwRecv(d.Recv.List[0].Type) + "." + key
				}
				if _, dup := p.funcs[key]; !dup {
					ln := strings.ToLower(key[:1]) + strings.Replace(key[1:], ".", "", 1)
					p.funcs[key] = &lwFunc{key: key, leanName: ln, decl: d, file: n}
				}
			case *ast.GenDecl:
				if d.Tok == token.TYPE {
					for _, sp := range d.Specs {
						ts := sp.(*ast.TypeSpec)
						if _, dup := p.types[ts.Name.Name]; !dup {
							p.types[ts.Name.Name] = ts
						}
					}
				}
			}
		}
	}
	return p, nil
}

// ---------------------------------------------------------------------------------------------
// lookups in the package

func (p *lwPkg) parseType(e ast.Expr) (lwTy, bool) {
	switch e := e.(type) {
	case *ast.Ident:
		switch e.Name {
		case "bool":
			return lwTy{k: lwBool}, true
		case "int":
			return lwTy{k: lwInt}, true
		case "float64":
			return lwTy{k: lwFloat}, true
		case "Point", "Rect", "Segment", "Line":
			ts := p.types[e.Name]
			if ts == nil || ts.Assign.IsValid() {
				return lwTy{}, false
			}
			if _, ok := ts.Type.(*ast.StructType); !ok {
				return lwTy{}, false
			}
			return lwTy{k: map[string]lwKind{"Point": lwPoint, "Rect": lwRect, "Segment": lwSeg, "Line": lwLineV}[e.Name]}, true
		}
	case *ast.StarExpr:
		if id, ok := e.X.(*ast.Ident); ok && p.types[id.Name] != nil {
			switch id.Name {
			case "Line":
				return lwTy{k: lwLine}, true
			case "Poly":
				return lwTy{k: lwPoly}, true
			}
		}
	case *ast.ArrayType:
		if t, ok := p.parseType(e.Elt); ok && t.k == lwPoint {
			return lwTy{k: lwPoints}, true
		}
	}
	return lwTy{}, false
}

// method finds T.m, following embedded struct fields (promotion).
func (p *lwPkg) method(tn, m string, depth int) *lwFunc {
	if f := p.funcs[tn+"."+m]; f != nil {
		return f
	}
	ts := p.types[tn]
	if ts == nil || depth > 3 {
		return nil
	}
	if st, ok := ts.Type.(*ast.StructType); ok {
		for _, fld := range st.Fields.List {
			if len(fld.Names) == 0 {
				if f := p.method(lwRecv(fld.Type), m, depth+1); f != nil {
					return f
				}
			}
		}
	}
	return nil
}

// field finds the declared field (or embedded struct) name of struct tn.
func (p *lwPkg) field(tn, name string) (ast.Expr, ast.Node) {
	ts := p.types[tn]
	if ts == nil {
		return nil, nil
	}
	st, ok := ts.Type.(*ast.StructType)
	if !ok {
		return nil, nil
	}
	for _, fld := range st.Fields.List {
		if len(fld.Names) == 0 && lwRecv(fld.Type) == name {
			return fld.Type, fld
		}
		for _, n := range fld.Names {
			if n.Name == name {
				return fld.Type, fld
			}
		}
	}
	return nil, nil
}

// fieldNames lists the named fields of struct tn in declaration order (nil if not a plain struct).
func (p *lwPkg) fieldNames(tn string) ([]string, []ast.Expr) {
	ts := p.types[tn]
	if ts == nil {
		return nil, nil
	}
	st, ok := ts.Type.(*ast.StructType)
	if !ok {
		return nil, nil
	}
	var ns []string
	var tys []ast.Expr
	for _, fld := range st.Fields.List {
		if len(fld.Names) == 0 {
			return nil, nil
		}
		for _, n := range fld.Names {
			ns = append(ns, n.Name)
			tys = append(tys, fld.Type)
		}
	}
	return ns, tys
}

func (p *lwPkg) where(n ast.Node) string {
	a := p.fset.Position(n.Pos())
	return fmt.Sprintf("geometry/%s:%d", a.Filename, a.Line)
}

func (p *lwPkg) declText(n ast.Node) string {
	a, b := p.fset.Position(n.Pos()), p.fset.Position(n.End())
	if d, ok := n.(*ast.FuncDecl); ok && d.Body != nil {
		b = p.fset.Position(d.Body.Lbrace)
	}
	src := p.srcs[a.Filename]
	if a.Offset < 0 || b.Offset > len(src) || a.Offset >= b.Offset {
		return "?"
	}
	return strings.Join(strings.Fields(string(src[a.Offset:b.Offset])), " ")
}

func (p *lwPkg) useOp(name string, params []string, result, comment string) error {
	if o := p.ops[name]; o != nil {
		if o.result != result || strings.Join(o.params, ",") != strings.Join(params, ",") {
			return fmt.Errorf("callee %s used at two different types", name)
		}
		return nil
	}
	p.ops[name] = &lwOp{name: name, params: params, result: result, comment: comment}
	return nil
}

// ---------------------------------------------------------------------------------------------
// environment

type lwEnv struct {
	names []string // declaration order
	ty    map[string]lwTy
}

func (e *lwEnv) copy() *lwEnv {
	c := &lwEnv{names: append([]string(nil), e.names...), ty: map[string]lwTy{}}
	for k, v := range e.ty {
		c.ty[k] = v
	}
	return c
}

func (e *lwEnv) declare(name string, t lwTy) {
	if _, ok := e.ty[name]; !ok {
		e.names = append(e.names, name)
	}
	e.ty[name] = t
}

// restrict keeps only the variables that outer knows (end of a nested block), with e's types
func (e *lwEnv) restrict(outer *lwEnv) *lwEnv {
	c := &lwEnv{ty: map[string]lwTy{}}
	for _, n := range outer.names {
		c.names = append(c.names, n)
		c.ty[n] = e.ty[n]
	}
	return c
}

var lwLeanKeywords = map[string]bool{"at": true, "from": true, "end": true, "then": true, "fun": true, "do": true,
	"in": true, "with": true, "show": true, "have": true, "open": true, "ops": true, "fuel": true, "def": true,
	"match": true, "let": true, "some": true, "none": true, "where": true, "instance": true, "variable": true}

func lwIdent(n string) string {
	if lwLeanKeywords[n] || strings.HasSuffix(n, "'") {
		return n + "_"
	}
	return n
}

type lwTr struct {
	p   *lwPkg
	fn  *lwFunc
	res lwTy
}

func (t *lwTr) errf(n ast.Node, format string, args ...interface{}) error {
	return fmt.Errorf("%s: %s", t.p.where(n), fmt.Sprintf(format, args...))
}

type lwExpr struct {
	s  string
	ty lwTy
}

// ---------------------------------------------------------------------------------------------
// expressions

func (t *lwTr) expr(e ast.Expr, env *lwEnv) (lwExpr, error) {
	switch e := e.(type) {
	case *ast.ParenExpr:
		return t.expr(e.X, env)
	case *ast.Ident:
		switch e.Name {
		case "true", "false":
			return lwExpr{e.Name, lwTy{k: lwBool}}, nil
		case "nil":
			return lwExpr{"none", lwTy{k: lwNil}}, nil
		}
		if ty, ok := env.ty[e.Name]; ok {
			return lwExpr{lwIdent(e.Name), ty}, nil
		}
		return lwExpr{}, t.errf(e, "unknown identifier %s", e.Name)
	case *ast.BasicLit:
		if e.Kind == token.INT {
			return lwExpr{e.Value, lwTy{k: lwInt}}, nil
		}
		return lwExpr{}, t.errf(e, "literal %s outside the subset", e.Value)
	case *ast.UnaryExpr:
		x, err := t.expr(e.X, env)
		if err != nil {
			return lwExpr{}, err
		}
		switch {
		case e.Op == token.NOT && x.ty.k == lwBool:
			return lwExpr{"!" + lwAtom(x.s), x.ty}, nil
		case e.Op == token.SUB && x.ty.k == lwInt:
			return lwExpr{"-" + lwAtom(x.s), x.ty}, nil
		case e.Op == token.AND && x.ty.k == lwLineV:
			if _, ok := e.X.(*ast.Ident); ok {
				return lwExpr{x.s, lwTy{k: lwLine, nn: true}}, nil
			}
		}
		return lwExpr{}, t.errf(e, "unary %s outside the subset", e.Op)
	case *ast.BinaryExpr:
		return t.binary(e, env)
	case *ast.SelectorExpr:
		if c, ok := e.X.(*ast.CallExpr); ok {
			return t.call(c, e.Sel.Name, env)
		}
		return t.fieldRead(e, env)
	case *ast.CallExpr:
		return t.call(e, "", env)
	case *ast.CompositeLit:
		return t.composite(e, env)
	case *ast.SliceExpr:
		x, err := t.expr(e.X, env)
		if err != nil {
			return lwExpr{}, err
		}
		if x.ty.k == lwPoints && e.Low == nil && e.High == nil && e.Max == nil {
			return x, nil // a[:] — all the elements
		}
		return lwExpr{}, t.errf(e, "slice expression outside the subset")
	}
	return lwExpr{}, t.errf(e, "expression %T outside the subset", e)
}

func (t *lwTr) boolExpr(e ast.Expr, env *lwEnv) (lwExpr, error) {
	x, err := t.expr(e, env)
	if err != nil {
		return x, err
	}
	if x.ty.k != lwBool {
		return x, t.errf(e, "condition is not a bool")
	}
	return x, nil
}

var lwCmpName = map[token.Token]string{token.EQL: "Eq", token.NEQ: "Ne", token.LSS: "Lt", token.GTR: "Gt",
	token.LEQ: "Le", token.GEQ: "Ge"}
var lwCmpLean = map[token.Token]string{token.LSS: "<", token.GTR: ">", token.LEQ: "≤", token.GEQ: "≥"}

func (t *lwTr) binary(e *ast.BinaryExpr, env *lwEnv) (lwExpr, error) {
	a, err := t.expr(e.X, env)
	if err != nil {
		return lwExpr{}, err
	}
	b, err := t.expr(e.Y, env)
	if err != nil {
		return lwExpr{}, err
	}
	bt := lwTy{k: lwBool}
	if a.ty.k != b.ty.k {
		return lwExpr{}, t.errf(e, "operands of %s have different types (nil tests are only recognised in conditions)", e.Op)
	}
	switch a.ty.k {
	case lwBool:
		switch e.Op {
		case token.LAND:
			return lwExpr{lwAtom(a.s) + " && " + lwAtom(b.s), bt}, nil
		case token.LOR:
			return lwExpr{lwAtom(a.s) + " || " + lwAtom(b.s), bt}, nil
		case token.EQL:
			return lwExpr{lwAtom(a.s) + " == " + lwAtom(b.s), bt}, nil
		case token.NEQ:
			return lwExpr{lwAtom(a.s) + " != " + lwAtom(b.s), bt}, nil
		}
	case lwInt:
		switch e.Op {
		case token.ADD, token.SUB, token.MUL:
			return lwExpr{lwAtom(a.s) + " " + e.Op.String() + " " + lwAtom(b.s), a.ty}, nil
		case token.EQL, token.NEQ:
			return lwExpr{lwAtom(a.s) + " " + e.Op.String() + " " + lwAtom(b.s), bt}, nil
		case token.LSS, token.GTR, token.LEQ, token.GEQ:
			return lwExpr{"decide (" + a.s + " " + lwCmpLean[e.Op] + " " + b.s + ")", bt}, nil
		}
	case lwFloat:
		if n, ok := lwCmpName[e.Op]; ok {
			name := "f64" + n
			if err := t.p.useOp(name, []string{"F", "F"}, "Bool", "Go: float64 comparison `"+e.Op.String()+"`"); err != nil {
				return lwExpr{}, err
			}
			return lwExpr{"ops." + name + " " + lwAtom(a.s) + " " + lwAtom(b.s), bt}, nil
		}
	case lwPoint:
		if e.Op == token.EQL || e.Op == token.NEQ {
			ts := t.p.types["Point"]
			if err := t.p.useOp("pointEq", []string{"P", "P"}, "Bool",
				"Go: `==` on struct `Point` (field-wise float64 `==`) — "+t.p.where(ts)); err != nil {
				return lwExpr{}, err
			}
			s := "ops.pointEq " + lwAtom(a.s) + " " + lwAtom(b.s)
			if e.Op == token.NEQ {
				s = "!(" + s + ")"
			}
			return lwExpr{s, bt}, nil
		}
	}
	return lwExpr{}, t.errf(e, "operator %s on these operands outside the subset", e.Op)
}

// x.f — a struct field read becomes the op <type>F
func (t *lwTr) fieldRead(e *ast.SelectorExpr, env *lwEnv) (lwExpr, error) {
	x, err := t.expr(e.X, env)
	if err != nil {
		return lwExpr{}, err
	}
	if x.ty.k != lwPoint && x.ty.k != lwRect && x.ty.k != lwSeg {
		return lwExpr{}, t.errf(e, "field read .%s outside the subset", e.Sel.Name)
	}
	fty, node := t.p.field(x.ty.goType(), e.Sel.Name)
	if fty == nil {
		return lwExpr{}, t.errf(e, "%s has no field %s", x.ty.goType(), e.Sel.Name)
	}
	rt, ok := t.p.parseType(fty)
	if !ok {
		return lwExpr{}, t.errf(e, "type of field %s outside the subset", e.Sel.Name)
	}
	name := x.ty.prefix() + e.Sel.Name
	if err := t.p.useOp(name, []string{x.ty.lean()}, rt.lean(),
		fmt.Sprintf("Go: field `%s` of struct `%s` — %s", e.Sel.Name, x.ty.goType(), t.p.where(node))); err != nil {
		return lwExpr{}, err
	}
	return lwExpr{"ops." + name + " " + lwAtom(x.s), rt}, nil
}

// Rect{a, b} / Rect{Min: a, Max: b} ↦ ops.rectMk a b (declared field order); [n]Point{…} ↦ list
func (t *lwTr) composite(c *ast.CompositeLit, env *lwEnv) (lwExpr, error) {
	ty, ok := t.p.parseType(c.Type)
	if !ok {
		return lwExpr{}, t.errf(c, "composite literal of a type outside the subset")
	}
	if ty.k == lwPoints {
		var parts []string
		for _, el := range c.Elts {
			x, err := t.expr(el, env)
			if err != nil {
				return lwExpr{}, err
			}
			if x.ty.k != lwPoint {
				return lwExpr{}, t.errf(el, "element is not a Point")
			}
			parts = append(parts, x.s)
		}
		return lwExpr{"[" + strings.Join(parts, ", ") + "]", ty}, nil
	}
	if ty.k != lwRect && ty.k != lwSeg && ty.k != lwPoint {
		return lwExpr{}, t.errf(c, "composite literal of %s outside the subset", ty.goType())
	}
	names, tys := t.p.fieldNames(ty.goType())
	if names == nil || len(c.Elts) != len(names) {
		return lwExpr{}, t.errf(c, "composite literal does not give every field of %s", ty.goType())
	}
	args := make([]string, len(names))
	var params []string
	for i, el := range c.Elts {
		idx := i
		if kv, ok := el.(*ast.KeyValueExpr); ok {
			idx = -1
			for j, n := range names {
				if k, ok := kv.Key.(*ast.Ident); ok && k.Name == n {
					idx = j
				}
			}
			el = kv.Value
		}
		if idx < 0 || args[idx] != "" {
			return lwExpr{}, t.errf(el, "composite literal key not recognised")
		}
		x, err := t.expr(el, env)
		if err != nil {
			return lwExpr{}, err
		}
		ft, ok := t.p.parseType(tys[idx])
		if !ok || ft.k != x.ty.k {
			return lwExpr{}, t.errf(el, "field %s has another type", names[idx])
		}
		args[idx] = lwAtom(x.s)
	}
	for _, fty := range tys {
		ft, _ := t.p.parseType(fty)
		params = append(params, ft.lean())
	}
	name := ty.prefix() + "Mk"
	if err := t.p.useOp(name, params, ty.lean(), fmt.Sprintf("Go: struct literal `%s{%s}` — %s",
		ty.goType(), strings.Join(names, ", "), t.p.where(t.p.types[ty.goType()]))); err != nil {
		return lwExpr{}, err
	}
	return lwExpr{"ops." + name + " " + strings.Join(args, " "), ty}, nil
}

// recvCall analyses x.M(args): receiver, method declaration, translated arguments.
type lwCall struct {
	recv lwExpr
	fn   *lwFunc
	args []lwExpr
	name string
}

func (t *lwTr) analyse(c *ast.CallExpr, env *lwEnv) (*lwCall, error) {
	sel, ok := c.Fun.(*ast.SelectorExpr)
	if !ok {
		return nil, t.errf(c, "call of something that is not a method")
	}
	recv, err := t.expr(sel.X, env)
	if err != nil {
		return nil, err
	}
	if recv.ty.prefix() == "" {
		return nil, t.errf(c, "method call on a receiver outside the subset")
	}
	if recv.ty.nilable() && !recv.ty.nn {
		return nil, t.errf(c, "method %s called on a possibly nil receiver", sel.Sel.Name)
	}
	fn := t.p.method(recv.ty.goType(), sel.Sel.Name, 0)
	if fn == nil {
		return nil, t.errf(c, "no declaration of method %s.%s", recv.ty.goType(), sel.Sel.Name)
	}
	r := &lwCall{recv: recv, fn: fn, name: sel.Sel.Name}
	for _, a := range c.Args {
		if _, isFn := a.(*ast.FuncLit); isFn {
			return nil, t.errf(a, "closure argument outside a Search statement")
		}
		x, err := t.expr(a, env)
		if err != nil {
			return nil, err
		}
		r.args = append(r.args, x)
	}
	return r, nil
}

// paramTypes of a declaration, one per parameter name
func (t *lwTr) paramTypes(fn *lwFunc) ([]lwTy, error) {
	var out []lwTy
	for _, f := range fn.decl.Type.Params.List {
		ty, ok := t.p.parseType(f.Type)
		if !ok {
			return nil, fmt.Errorf("parameter type of %s outside the subset", fn.key)
		}
		n := len(f.Names)
		if n == 0 {
			n = 1
		}
		for i := 0; i < n; i++ {
			out = append(out, ty)
		}
	}
	return out, nil
}

func lwIsTarget(key string) bool {
	for _, k := range lwTargets {
		if k == key {
			return true
		}
	}
	return false
}

// call: x.M(args), optionally followed by `.sel`; never a fuelled (partial) target — those are
// only recognised as `return x.M(args)`, see retCall.
func (t *lwTr) call(c *ast.CallExpr, sel string, env *lwEnv) (lwExpr, error) {
	r, err := t.analyse(c, env)
	if err != nil {
		return lwExpr{}, err
	}
	if lwIsTarget(r.fn.key) && sel == "" {
		s, callee, err := t.targetCall(c, r)
		if err != nil {
			return lwExpr{}, err
		}
		if callee.partial {
			return lwExpr{}, t.errf(c, "call of the fuelled %s outside `return …`", callee.key)
		}
		res, _ := t.p.parseType(callee.decl.Type.Results.List[0].Type)
		return lwExpr{s, res}, nil
	}
	pts, err := t.paramTypes(r.fn)
	if err != nil {
		return lwExpr{}, t.errf(c, "%v", err)
	}
	if len(pts) != len(r.args) {
		return lwExpr{}, t.errf(c, "wrong number of arguments")
	}
	recvTy := r.recv.ty
	recvTy.nn = true
	params := []string{recvTy.lean()}
	parts := []string{lwAtom(r.recv.s)}
	for i, a := range r.args {
		want := pts[i]
		if a.ty.k != want.k || (want.nilable() && !a.ty.nn) {
			return lwExpr{}, t.errf(c, "argument %d of %s: type mismatch or possibly nil", i+1, r.name)
		}
		want.nn = true
		params = append(params, want.lean())
		parts = append(parts, lwAtom(a.s))
	}
	rl := r.fn.decl.Type.Results
	if rl == nil || len(rl.List) != 1 || len(rl.List[0].Names) > 1 {
		return lwExpr{}, t.errf(c, "%s does not have exactly one result", r.fn.key)
	}
	name := r.recv.ty.prefix() + r.name
	comment := "Go: `" + t.p.declText(r.fn.decl) + "`"
	var res lwTy
	if sel == "" {
		var ok bool
		if res, ok = t.p.parseType(rl.List[0].Type); !ok || res.nilable() {
			return lwExpr{}, t.errf(c, "result type of %s outside the subset", r.fn.key)
		}
	} else {
		id, ok := rl.List[0].Type.(*ast.Ident)
		if !ok {
			return lwExpr{}, t.errf(c, "result of %s is not a named struct", r.fn.key)
		}
		fty, _ := t.p.field(id.Name, sel)
		if fty == nil {
			return lwExpr{}, t.errf(c, "%s has no field %s", id.Name, sel)
		}
		if res, ok = t.p.parseType(fty); !ok || res.nilable() {
			return lwExpr{}, t.errf(c, "type of field %s outside the subset", sel)
		}
		name += "_" + sel
		comment += " (field ." + sel + " of the result)"
	}
	comment += " — " + t.p.where(r.fn.decl)
	if err := t.p.useOp(name, params, res.lean(), comment); err != nil {
		return lwExpr{}, t.errf(c, "%v", err)
	}
	return lwExpr{"ops." + name + " " + strings.Join(parts, " "), res}, nil
}

// targetCall: a call of another translated method; the callee is translated first.
func (t *lwTr) targetCall(c *ast.CallExpr, r *lwCall) (string, *lwFunc, error) {
	callee := t.p.request(r.fn.key)
	if callee.state == 1 {
		return "", nil, t.errf(c, "recursive call of %s", callee.key)
	}
	if callee.reason != "" {
		return "", nil, t.errf(c, "calls %s, which is not recognised", callee.key)
	}
	pts, err := t.paramTypes(callee)
	if err != nil || len(pts) != len(r.args) {
		return "", nil, t.errf(c, "arguments of %s not recognised", callee.key)
	}
	parts := []string{callee.leanName, "ops"}
	if callee.partial {
		parts = append(parts, "fuel")
	}
	wrap := func(x lwExpr, want lwTy) (string, bool) {
		if x.ty.k == lwNil && want.nilable() {
			return "none", true
		}
		if x.ty.k != want.k {
			return "", false
		}
		if want.nilable() && x.ty.nn {
			return "(some " + lwAtom(x.s) + ")", true
		}
		return lwAtom(x.s), true
	}
	s, ok := wrap(r.recv, lwTy{k: lwLine})
	if !ok {
		return "", nil, t.errf(c, "receiver of %s is not a *Line", callee.key)
	}
	parts = append(parts, s)
	for i, a := range r.args {
		s, ok := wrap(a, pts[i])
		if !ok {
			return "", nil, t.errf(c, "argument %d of %s has another type", i+1, callee.key)
		}
		parts = append(parts, s)
	}
	return strings.Join(parts, " "), callee, nil
}

// ---------------------------------------------------------------------------------------------
// statements

type lwMode struct {
	top  bool // directly in the function body (not in a loop body / closure / joined branch)
	clos bool // in a closure (no loops: `return` there leaves the closure, not the function)
	ret  func(v lwExpr, n ast.Node) ([]string, error)
	brk  func(env *lwEnv) ([]string, error)
	cont func(env *lwEnv) ([]string, error)
}

type lwK func(env *lwEnv) ([]string, error)

func lwInd(lines []string) []string {
	out := make([]string, len(lines))
	for i, l := range lines {
		out[i] = "  " + l
	}
	return out
}

// lwAssigned: names assigned (=, op=, ++, --, field stores) anywhere below n, closures included
func lwAssigned(n ast.Node) map[string]bool {
	out := map[string]bool{}
	root := func(e ast.Expr) {
		for {
			switch x := e.(type) {
			case *ast.SelectorExpr:
				e = x.X
				continue
			case *ast.Ident:
				out[x.Name] = true
			}
			return
		}
	}
	ast.Inspect(n, func(n ast.Node) bool {
		switch s := n.(type) {
		case *ast.AssignStmt:
			if s.Tok != token.DEFINE {
				for _, l := range s.Lhs {
					root(l)
				}
			}
		case *ast.IncDecStmt:
			root(s.X)
		}
		return true
	})
	return out
}

// lwEscapes: a return / break / continue below n (closures excluded)
func lwEscapes(n ast.Node) bool {
	found := false
	ast.Inspect(n, func(n ast.Node) bool {
		switch n.(type) {
		case *ast.FuncLit:
			return false
		case *ast.ReturnStmt, *ast.BranchStmt:
			found = true
		}
		return !found
	})
	return found
}

func lwMentions(e ast.Node, names map[string]bool) bool {
	found := false
	ast.Inspect(e, func(n ast.Node) bool {
		if id, ok := n.(*ast.Ident); ok && names[id.Name] {
			found = true
		}
		return !found
	})
	return found
}

// state: the variables of env (declaration order) that are assigned below the nodes
func lwState(env *lwEnv, nodes ...ast.Node) []string {
	as := map[string]bool{}
	for _, n := range nodes {
		if n != nil {
			for k := range lwAssigned(n) {
				as[k] = true
			}
		}
	}
	var out []string
	for _, n := range env.names {
		if as[n] {
			out = append(out, n)
		}
	}
	return out
}

func lwTuple(names []string) string {
	if len(names) == 1 {
		return lwIdent(names[0])
	}
	parts := make([]string, len(names))
	for i, n := range names {
		parts[i] = lwIdent(n)
	}
	return "(" + strings.Join(parts, ", ") + ")"
}

func lwTupleTy(names []string, env *lwEnv) string {
	if len(names) == 0 {
		return "Unit"
	}
	parts := make([]string, len(names))
	for i, n := range names {
		parts[i] = env.ty[n].lean()
	}
	return strings.Join(parts, " × ")
}

// coerceTo: value x stored into a variable of type want
func (t *lwTr) coerceTo(n ast.Node, x lwExpr, want lwTy) (string, error) {
	if x.ty.k == lwNil && want.nilable() && !want.nn {
		return "none", nil
	}
	if x.ty.k != want.k {
		return "", t.errf(n, "assignment between different types")
	}
	if want.nilable() {
		switch {
		case want.nn && !x.ty.nn:
			return "", t.errf(n, "possibly nil value stored into a variable known to be non-nil")
		case !want.nn && x.ty.nn:
			return "some " + lwAtom(x.s), nil
		}
	}
	return x.s, nil
}

// simple: statements without control flow; one `let` each
func (t *lwTr) simple(s ast.Stmt, env *lwEnv) ([]string, error) {
	switch s := s.(type) {
	case *ast.IncDecStmt:
		id, ok := s.X.(*ast.Ident)
		if !ok || env.ty[id.Name].k != lwInt {
			return nil, t.errf(s, "++/-- on something that is not an int variable")
		}
		op := "+"
		if s.Tok == token.DEC {
			op = "-"
		}
		v := lwIdent(id.Name)
		return []string{fmt.Sprintf("let %s : Int := %s %s 1", v, v, op)}, nil
	case *ast.DeclStmt:
		gd, ok := s.Decl.(*ast.GenDecl)
		if !ok || gd.Tok != token.VAR || len(gd.Specs) != 1 {
			return nil, t.errf(s, "declaration outside the subset")
		}
		vs := gd.Specs[0].(*ast.ValueSpec)
		if len(vs.Names) != 1 || len(vs.Values) != 0 || vs.Type == nil {
			return nil, t.errf(s, "var declaration outside the subset")
		}
		ty, ok := t.p.parseType(vs.Type)
		if !ok {
			return nil, t.errf(s, "var of a type outside the subset")
		}
		name := vs.Names[0].Name
		if _, dup := env.ty[name]; dup {
			return nil, t.errf(s, "%s shadows a variable", name)
		}
		zero := ""
		switch ty.k {
		case lwBool:
			zero = "false"
		case lwInt:
			zero = "0"
		case lwLineV:
			zero = "ops.lineZero"
			if err := t.p.useOp("lineZero", nil, "L", "Go: the zero value of struct `Line` (`var x Line`) — "+
				t.p.where(t.p.types["Line"])); err != nil {
				return nil, err
			}
		case lwLine, lwPoly:
			zero = "none"
		default:
			return nil, t.errf(s, "zero value of this type outside the subset")
		}
		env.declare(name, ty)
		return []string{fmt.Sprintf("let %s : %s := %s", lwIdent(name), ty.lean(), zero)}, nil
	case *ast.AssignStmt:
		return t.assign(s, env)
	}
	return nil, t.errf(s, "statement %T outside the subset", s)
}

func (t *lwTr) assign(s *ast.AssignStmt, env *lwEnv) ([]string, error) {
	if len(s.Lhs) != len(s.Rhs) {
		return nil, t.errf(s, "assignment with a multi-valued right-hand side")
	}
	// right-hand sides first (parallel assignment reads the old values)
	var rhs []lwExpr
	for _, r := range s.Rhs {
		x, err := t.expr(r, env)
		if err != nil {
			return nil, err
		}
		rhs = append(rhs, x)
	}
	if s.Tok == token.DEFINE {
		var lets []string
		for i, l := range s.Lhs {
			id, ok := l.(*ast.Ident)
			if !ok || id.Name == "_" {
				return nil, t.errf(s, "left-hand side of := is not a plain name")
			}
			if _, dup := env.ty[id.Name]; dup {
				return nil, t.errf(s, "%s := … redeclares or shadows a variable", id.Name)
			}
			if rhs[i].ty.k == lwNil || rhs[i].ty.k == lwBad {
				return nil, t.errf(s, "type of %s not determined", id.Name)
			}
			lets = append(lets, fmt.Sprintf("let %s : %s := %s", lwIdent(id.Name), rhs[i].ty.lean(), rhs[i].s))
		}
		for i, l := range s.Lhs {
			env.declare(l.(*ast.Ident).Name, rhs[i].ty)
		}
		return lets, nil
	}
	if s.Tok == token.ADD_ASSIGN || s.Tok == token.SUB_ASSIGN {
		id, ok := s.Lhs[0].(*ast.Ident)
		if !ok || len(s.Lhs) != 1 || env.ty[id.Name].k != lwInt || rhs[0].ty.k != lwInt {
			return nil, t.errf(s, "%s outside the subset", s.Tok)
		}
		v := lwIdent(id.Name)
		return []string{fmt.Sprintf("let %s : Int := %s %s %s", v, v, string(s.Tok.String()[0]), lwAtom(rhs[0].s))}, nil
	}
	if s.Tok != token.ASSIGN {
		return nil, t.errf(s, "assignment operator %s outside the subset", s.Tok)
	}
	if len(s.Lhs) == 1 {
		if sel, ok := s.Lhs[0].(*ast.SelectorExpr); ok {
			return t.fieldStore(s, sel, rhs[0], env)
		}
	}
	var names, vals []string
	seen := map[string]bool{}
	for i, l := range s.Lhs {
		id, ok := l.(*ast.Ident)
		if !ok {
			return nil, t.errf(s, "left-hand side outside the subset")
		}
		vt, ok := env.ty[id.Name]
		if !ok || seen[id.Name] {
			return nil, t.errf(s, "assignment to unknown or repeated variable %s", id.Name)
		}
		seen[id.Name] = true
		v, err := t.coerceTo(s, rhs[i], vt)
		if err != nil {
			return nil, err
		}
		names = append(names, id.Name)
		vals = append(vals, v)
	}
	if len(names) == 1 {
		return []string{fmt.Sprintf("let %s : %s := %s", lwIdent(names[0]), env.ty[names[0]].lean(), vals[0])}, nil
	}
	// parallel assignment: one simultaneous pattern let
	return []string{fmt.Sprintf("let %s : %s := (%s)", lwTuple(names), lwTupleTy(names, env), strings.Join(vals, ", "))}, nil
}

// v.f.g = e on a Line value v ↦ let v := ops.lineSet_f_g v e
func (t *lwTr) fieldStore(s ast.Stmt, sel *ast.SelectorExpr, rhs lwExpr, env *lwEnv) ([]string, error) {
	var path []string
	var e ast.Expr = sel
	for {
		if x, ok := e.(*ast.SelectorExpr); ok {
			path = append([]string{x.Sel.Name}, path...)
			e = x.X
			continue
		}
		break
	}
	id, ok := e.(*ast.Ident)
	if !ok || env.ty[id.Name].k != lwLineV {
		return nil, t.errf(s, "field store into something that is not a Line value")
	}
	tn := "Line"
	var fty ast.Expr
	var node ast.Node
	for _, f := range path {
		fty, node = t.p.field(tn, f)
		if fty == nil {
			return nil, t.errf(s, "%s has no field %s", tn, f)
		}
		tn = lwRecv(fty)
	}
	ft, ok := t.p.parseType(fty)
	if !ok || ft.nilable() || ft.k != rhs.ty.k {
		return nil, t.errf(s, "stored value and field %s have different types, or outside the subset", strings.Join(path, "."))
	}
	name := "lineSet_" + strings.Join(path, "_")
	if err := t.p.useOp(name, []string{"L", ft.lean()}, "L", fmt.Sprintf("Go: store into field `%s` of a `Line` value — %s",
		strings.Join(path, "."), t.p.where(node))); err != nil {
		return nil, err
	}
	v := lwIdent(id.Name)
	return []string{fmt.Sprintf("let %s : L := ops.%s %s %s", v, name, v, lwAtom(rhs.s))}, nil
}

// block: the statements `list`, then `end` where control falls off the end
func (t *lwTr) block(list []ast.Stmt, env *lwEnv, m lwMode, end lwK) ([]string, error) {
	if len(list) == 0 {
		return end(env)
	}
	s, rest := list[0], list[1:]
	k := func(env *lwEnv) ([]string, error) { return t.block(rest, env, m, end) }
	switch s := s.(type) {
	case *ast.EmptyStmt:
		return k(env)
	case *ast.ReturnStmt:
		if len(s.Results) != 1 {
			return nil, t.errf(s, "return without exactly one value")
		}
		if m.ret == nil {
			return nil, t.errf(s, "return not allowed here")
		}
		if c, ok := s.Results[0].(*ast.CallExpr); ok && m.top {
			if lines, ok, err := t.retCall(c, env); ok || err != nil {
				return lines, err
			}
		}
		v, err := t.expr(s.Results[0], env)
		if err != nil {
			return nil, err
		}
		return m.ret(v, s)
	case *ast.BranchStmt:
		if s.Label != nil {
			return nil, t.errf(s, "labelled %s", s.Tok)
		}
		switch {
		case s.Tok == token.BREAK && m.brk != nil:
			return m.brk(env)
		case s.Tok == token.CONTINUE && m.cont != nil:
			return m.cont(env)
		}
		return nil, t.errf(s, "%s not allowed here", s.Tok)
	case *ast.IfStmt:
		return t.ifStmt(s, env, m, k)
	case *ast.ForStmt:
		return t.forStmt(s, env, m, k)
	case *ast.ExprStmt:
		return t.searchStmt(s, env, k)
	}
	lines, err := t.simple(s, env)
	if err != nil {
		return nil, err
	}
	tail, err := k(env)
	if err != nil {
		return nil, err
	}
	return append(lines, tail...), nil
}

// retCall: `return x.M(args)` where M is a fuelled translated method (tail call, shares fuel)
func (t *lwTr) retCall(c *ast.CallExpr, env *lwEnv) ([]string, bool, error) {
	if _, ok := c.Fun.(*ast.SelectorExpr); !ok {
		return nil, false, nil
	}
	r, err := t.analyse(c, env)
	if err != nil {
		return nil, false, err
	}
	if !lwIsTarget(r.fn.key) {
		return nil, false, nil
	}
	s, callee, err := t.targetCall(c, r)
	if err != nil {
		return nil, false, err
	}
	if !callee.partial {
		return nil, false, nil
	}
	t.fn.partial = true // shares the callee's fuel; request() re-translates if this is news
	return []string{s}, true, nil
}

func lwIsNilTest(e ast.Expr, env *lwEnv) (name string, isEq bool, ok bool) {
	b, isB := e.(*ast.BinaryExpr)
	if !isB || (b.Op != token.EQL && b.Op != token.NEQ) {
		return "", false, false
	}
	x, y := b.X, b.Y
	if id, isId := x.(*ast.Ident); isId && id.Name == "nil" {
		x, y = y, x
	}
	if id, isId := y.(*ast.Ident); !isId || id.Name != "nil" {
		return "", false, false
	}
	id, isId := x.(*ast.Ident)
	if !isId || !env.ty[id.Name].nilable() {
		return "", false, false
	}
	return id.Name, b.Op == token.EQL, true
}

func lwHasNilTest(e ast.Expr, env *lwEnv) bool {
	switch e := e.(type) {
	case *ast.ParenExpr:
		return lwHasNilTest(e.X, env)
	case *ast.UnaryExpr:
		return e.Op == token.NOT && lwHasNilTest(e.X, env)
	case *ast.BinaryExpr:
		if e.Op == token.LAND || e.Op == token.LOR {
			return lwHasNilTest(e.X, env) || lwHasNilTest(e.Y, env)
		}
		_, _, ok := lwIsNilTest(e, env)
		return ok
	}
	return false
}

// cond: `if c` with continuations; nil tests are split off along ||, &&, ! (short-circuit order)
func (t *lwTr) cond(c ast.Expr, env *lwEnv, thenK, elseK lwK) ([]string, error) {
	if p, ok := c.(*ast.ParenExpr); ok {
		return t.cond(p.X, env, thenK, elseK)
	}
	if lwHasNilTest(c, env) {
		switch e := c.(type) {
		case *ast.UnaryExpr:
			return t.cond(e.X, env, elseK, thenK)
		case *ast.BinaryExpr:
			switch e.Op {
			case token.LOR:
				return t.cond(e.X, env, thenK, func(env *lwEnv) ([]string, error) { return t.cond(e.Y, env, thenK, elseK) })
			case token.LAND:
				return t.cond(e.X, env, func(env *lwEnv) ([]string, error) { return t.cond(e.Y, env, thenK, elseK) }, elseK)
			}
			name, isEq, _ := lwIsNilTest(e, env)
			if env.ty[name].nn {
				return nil, t.errf(c, "nil test of %s, which is already known to be non-nil", name)
			}
			noneK, someK := thenK, elseK
			if !isEq {
				noneK, someK = elseK, thenK
			}
			a, err := noneK(env.copy())
			if err != nil {
				return nil, err
			}
			env2 := env.copy()
			ty := env2.ty[name]
			ty.nn = true
			env2.ty[name] = ty
			b, err := someK(env2)
			if err != nil {
				return nil, err
			}
			v := lwIdent(name)
			out := []string{"(match " + v + " with", "| none =>"}
			out = append(out, lwInd(a)...)
			out = append(out, "| some "+v+" =>")
			out = append(out, lwInd(b)...)
			out[len(out)-1] += ")"
			return out, nil
		}
	}
	x, err := t.boolExpr(c, env)
	if err != nil {
		return nil, err
	}
	a, err := thenK(env.copy())
	if err != nil {
		return nil, err
	}
	b, err := elseK(env.copy())
	if err != nil {
		return nil, err
	}
	out := []string{"if " + x.s + " then"}
	out = append(out, lwInd(a)...)
	out = append(out, "else")
	return append(out, lwInd(b)...), nil
}

func (t *lwTr) ifChainHasNil(s *ast.IfStmt, env *lwEnv) bool {
	if lwHasNilTest(s.Cond, env) {
		return true
	}
	if e, ok := s.Else.(*ast.IfStmt); ok {
		return t.ifChainHasNil(e, env)
	}
	return false
}

func (t *lwTr) ifStmt(s *ast.IfStmt, env *lwEnv, m lwMode, k lwK) ([]string, error) {
	if s.Init != nil {
		return nil, t.errf(s, "if with an init statement")
	}
	state := lwState(env, s)
	if !lwEscapes(s) && !t.ifChainHasNil(s, env) && len(state) > 0 {
		// joined form: let (assigned vars) := if c then … else …
		e, err := t.joinIf(s, env, state)
		if err != nil {
			return nil, err
		}
		out := []string{fmt.Sprintf("let %s : %s :=", lwTuple(state), lwTupleTy(state, env))}
		out = append(out, lwInd(e)...)
		tail, err := k(env)
		if err != nil {
			return nil, err
		}
		return append(out, tail...), nil
	}
	after := func(b *lwEnv) ([]string, error) { return k(b.restrict(env)) }
	thenK := func(env *lwEnv) ([]string, error) { return t.block(s.Body.List, env, m, after) }
	elseK := after
	switch e := s.Else.(type) {
	case nil:
	case *ast.BlockStmt:
		elseK = func(env *lwEnv) ([]string, error) { return t.block(e.List, env, m, after) }
	case *ast.IfStmt:
		elseK = func(env *lwEnv) ([]string, error) { return t.ifStmt(e, env, m, after) }
	default:
		return nil, t.errf(s, "else branch outside the subset")
	}
	return t.cond(s.Cond, env, thenK, elseK)
}

func (t *lwTr) joinIf(s *ast.IfStmt, env *lwEnv, state []string) ([]string, error) {
	tuple := func(*lwEnv) ([]string, error) { return []string{lwTuple(state)}, nil }
	jm := lwMode{}
	x, err := t.boolExpr(s.Cond, env)
	if err != nil {
		return nil, err
	}
	a, err := t.block(s.Body.List, env.copy(), jm, tuple)
	if err != nil {
		return nil, err
	}
	var b []string
	switch e := s.Else.(type) {
	case nil:
		b, _ = tuple(env)
	case *ast.BlockStmt:
		b, err = t.block(e.List, env.copy(), jm, tuple)
	case *ast.IfStmt:
		if e.Init != nil {
			return nil, t.errf(e, "if with an init statement")
		}
		b, err = t.joinIf(e, env, state)
	default:
		return nil, t.errf(s, "else branch outside the subset")
	}
	if err != nil {
		return nil, err
	}
	out := []string{"if " + x.s + " then"}
	out = append(out, lwInd(a)...)
	out = append(out, "else")
	return append(out, lwInd(b)...), nil
}

// counted: for v := lo; v < hi; v++ { body } where body leaves v and hi alone
func (t *lwTr) counted(s *ast.ForStmt) (v string, lo, hi ast.Expr, ok bool) {
	in, isA := s.Init.(*ast.AssignStmt)
	if !isA || in.Tok != token.DEFINE || len(in.Lhs) != 1 || len(in.Rhs) != 1 {
		return
	}
	id, isId := in.Lhs[0].(*ast.Ident)
	c, isB := s.Cond.(*ast.BinaryExpr)
	post, isP := s.Post.(*ast.IncDecStmt)
	if !isId || !isB || !isP || c.Op != token.LSS || post.Tok != token.INC {
		return
	}
	cx, ok1 := c.X.(*ast.Ident)
	px, ok2 := post.X.(*ast.Ident)
	if !ok1 || !ok2 || cx.Name != id.Name || px.Name != id.Name {
		return
	}
	as := lwAssigned(s.Body)
	if as[id.Name] || lwMentions(c.Y, as) || lwMentions(c.Y, map[string]bool{id.Name: true}) {
		return
	}
	return id.Name, in.Rhs[0], c.Y, true
}

func (t *lwTr) resultName() string { return t.res.lean() }

func (t *lwTr) forStmt(s *ast.ForStmt, env *lwEnv, m lwMode, k lwK) ([]string, error) {
	if s.Init == nil || s.Cond == nil || s.Post == nil {
		return nil, t.errf(s, "for loop without init, condition or post statement")
	}
	if m.clos {
		return nil, t.errf(s, "loop inside a closure")
	}
	retArm := func() ([]string, error) {
		if m.ret == nil {
			return []string{"nomatch r'"}, nil
		}
		return m.ret(lwExpr{"r'", t.res}, s)
	}
	rho := t.resultName()
	if m.ret == nil {
		rho = "Empty"
	}
	bodyMode := func(state []string, atContinue lwK) lwMode {
		bm := lwMode{brk: func(*lwEnv) ([]string, error) { return []string{"Flow.brk " + lwTuple(state)}, nil }, cont: atContinue}
		if m.ret != nil {
			bm.ret = func(v lwExpr, n ast.Node) ([]string, error) {
				if v.ty.k != t.res.k {
					return nil, t.errf(n, "returned value has another type than the result")
				}
				return []string{"Flow.ret " + lwAtom(v.s)}, nil
			}
		}
		return bm
	}
	if v, loE, hiE, ok := t.counted(s); ok {
		lo, err := t.expr(loE, env)
		if err != nil {
			return nil, err
		}
		hi, err := t.expr(hiE, env)
		if err != nil {
			return nil, err
		}
		if lo.ty.k != lwInt || hi.ty.k != lwInt {
			return nil, t.errf(s, "loop bounds are not ints")
		}
		if _, dup := env.ty[v]; dup {
			return nil, t.errf(s, "loop variable %s shadows a variable", v)
		}
		state := lwState(env, s.Body)
		next := func(*lwEnv) ([]string, error) { return []string{"Flow.next " + lwTuple(state)}, nil }
		benv := env.copy()
		benv.declare(v, lwTy{k: lwInt})
		body, err := t.block(s.Body.List, benv, bodyMode(state, next), next)
		if err != nil {
			return nil, err
		}
		out := []string{fmt.Sprintf("(match forRange (ρ := %s) (fun %s %s =>", rho, lwIdent(v), lwTuple(state))}
		out = append(out, lwInd(lwInd(body))...)
		out[len(out)-1] += fmt.Sprintf(") (intRange %s %s) %s with", lwAtom(lo.s), lwAtom(hi.s), lwTuple(state))
		return t.exitArms(out, "", state, env, retArm, k)
	}
	// general loop: fuelled iteration over the assigned variables (the loop variable included)
	if !m.top {
		return nil, t.errf(s, "loop that needs fuel inside another loop, closure or joined branch")
	}
	init, ok := s.Init.(*ast.AssignStmt)
	if !ok || init.Tok != token.DEFINE {
		return nil, t.errf(s, "loop init is not `v := e`")
	}
	outer := env
	env = env.copy() // the loop variable is scoped to the loop
	lines, err := t.simple(init, env)
	if err != nil {
		return nil, err
	}
	state := lwState(env, s.Body, s.Post)
	c, err := t.boolExpr(s.Cond, env)
	if err != nil {
		return nil, err
	}
	// end of body and `continue`: the post statement, then the next round
	next := func(e *lwEnv) ([]string, error) {
		ls, err := t.simple(s.Post, e.copy())
		if err != nil {
			return nil, err
		}
		return append(ls, "Flow.next "+lwTuple(state)), nil
	}
	body, err := t.block(s.Body.List, env.copy(), bodyMode(state, next), next)
	if err != nil {
		return nil, err
	}
	out := append(lines, fmt.Sprintf("(match iterate (ρ := %s) fuel (fun %s => %s) (fun %s =>", rho, lwTuple(state), c.s, lwTuple(state)))
	out = append(out, lwInd(lwInd(body))...)
	out[len(out)-1] += fmt.Sprintf(") %s with", lwTuple(state))
	out = append(out, "| none =>", "  none -- fuel exhausted (cannot happen in Go, which has no fuel)")
	return t.exitArms(out, "some ", state, outer, retArm, k)
}

// exitArms: the arms `Exit.ret r'` / `Exit.done state` closing a `(match … with`
func (t *lwTr) exitArms(out []string, some string, state []string, env *lwEnv, retArm func() ([]string, error), k lwK) ([]string, error) {
	open, cl := "", ""
	if some != "" {
		open, cl = "some (", ")"
	}
	r, err := retArm()
	if err != nil {
		return nil, err
	}
	out = append(out, "| "+open+"Exit.ret r'"+cl+" =>")
	out = append(out, lwInd(r)...)
	tail, err := k(env)
	if err != nil {
		return nil, err
	}
	out = append(out, "| "+open+"Exit.done "+lwTuple(state)+cl+" =>")
	out = append(out, lwInd(tail)...)
	out[len(out)-1] += ")"
	return out, nil
}

// searchStmt: recv.Search(rect, func(seg Segment, idx int) bool { body }) as a statement
func (t *lwTr) searchStmt(s *ast.ExprStmt, env *lwEnv, k lwK) ([]string, error) {
	c, ok := s.X.(*ast.CallExpr)
	if !ok {
		return nil, t.errf(s, "expression statement outside the subset")
	}
	sel, ok := c.Fun.(*ast.SelectorExpr)
	if !ok || sel.Sel.Name != "Search" || len(c.Args) != 2 {
		return nil, t.errf(s, "call statement that is not x.Search(rect, closure)")
	}
	fl, ok := c.Args[1].(*ast.FuncLit)
	if !ok {
		return nil, t.errf(s, "second argument of Search is not a closure")
	}
	recv, err := t.expr(sel.X, env)
	if err != nil {
		return nil, err
	}
	if !((recv.ty.k == lwLine && recv.ty.nn) || recv.ty.k == lwLineV) {
		return nil, t.errf(s, "Search on a receiver that is not a non-nil line")
	}
	fn := t.p.method("Line", "Search", 0)
	if fn == nil {
		return nil, t.errf(s, "no declaration of Line.Search")
	}
	sig := t.p.declText(fn.decl)
	if !t.searchSigOK(fn.decl.Type) {
		return nil, t.errf(s, "signature of Search is not (Rect, func(Segment, int) bool): %s", sig)
	}
	q, err := t.expr(c.Args[0], env)
	if err != nil {
		return nil, err
	}
	if q.ty.k != lwRect {
		return nil, t.errf(s, "first argument of Search is not a Rect")
	}
	// closure parameters
	var pn []string
	var pt []lwTy
	for _, f := range fl.Type.Params.List {
		ty, ok := t.p.parseType(f.Type)
		if !ok {
			return nil, t.errf(fl, "closure parameter type outside the subset")
		}
		for _, n := range f.Names {
			pn = append(pn, n.Name)
			pt = append(pt, ty)
		}
	}
	rs := fl.Type.Results
	if len(pn) != 2 || pt[0].k != lwSeg || pt[1].k != lwInt || rs == nil || len(rs.List) != 1 {
		return nil, t.errf(fl, "closure is not func(Segment, int) bool")
	}
	if rt, ok := t.p.parseType(rs.List[0].Type); !ok || rt.k != lwBool {
		return nil, t.errf(fl, "closure is not func(Segment, int) bool")
	}
	if err := t.p.useOp("lineSearch", []string{"L", "B"}, "List (S × Int)",
		"Go: `"+sig+"` — "+t.p.where(fn.decl)+"; abstractly: the (segment, index) pairs handed to the callback, in order,\n      if the callback never stops the search"); err != nil {
		return nil, err
	}
	state := lwState(env, fl.Body)
	benv := env.copy()
	pat := make([]string, 2)
	for i, n := range pn {
		pat[i] = "_"
		if n != "_" {
			if _, dup := env.ty[n]; dup {
				return nil, t.errf(fl, "closure parameter %s shadows a variable", n)
			}
			benv.declare(n, pt[i])
			pat[i] = lwIdent(n)
		}
	}
	cm := lwMode{clos: true, ret: func(v lwExpr, n ast.Node) ([]string, error) {
		if v.ty.k != lwBool {
			return nil, t.errf(n, "closure returns a non-bool")
		}
		switch v.s {
		case "true":
			return []string{"Flow.next " + lwTuple(state)}, nil // keep searching
		case "false":
			return []string{"Flow.brk " + lwTuple(state)}, nil // stop the search
		}
		return []string{"if " + v.s + " then Flow.next " + lwTuple(state) + " else Flow.brk " + lwTuple(state)}, nil
	}}
	body, err := t.block(fl.Body.List, benv, cm, func(*lwEnv) ([]string, error) {
		return nil, t.errf(fl, "closure body can end without return")
	})
	if err != nil {
		return nil, err
	}
	out := []string{fmt.Sprintf("(match forRange (ρ := Empty) (fun (%s, %s) %s =>", pat[0], pat[1], lwTuple(state))}
	out = append(out, lwInd(lwInd(body))...)
	out[len(out)-1] += fmt.Sprintf(") (ops.lineSearch %s %s) %s with", lwAtom(recv.s), lwAtom(q.s), lwTuple(state))
	return t.exitArms(out, "", state, env, func() ([]string, error) { return []string{"nomatch r'"}, nil }, k)
}

// searchSigOK: func(rect Rect, iter func(seg Segment, idx int) bool), no results
func (t *lwTr) searchSigOK(ft *ast.FuncType) bool {
	var tys []ast.Expr
	for _, f := range ft.Params.List {
		n := len(f.Names)
		if n == 0 {
			n = 1
		}
		for i := 0; i < n; i++ {
			tys = append(tys, f.Type)
		}
	}
	if len(tys) != 2 || (ft.Results != nil && len(ft.Results.List) != 0) {
		return false
	}
	if r, ok := t.p.parseType(tys[0]); !ok || r.k != lwRect {
		return false
	}
	it, ok := tys[1].(*ast.FuncType)
	if !ok || it.Results == nil || len(it.Results.List) != 1 {
		return false
	}
	var its []lwKind
	for _, f := range it.Params.List {
		ty, ok := t.p.parseType(f.Type)
		if !ok {
			return false
		}
		n := len(f.Names)
		if n == 0 {
			n = 1
		}
		for i := 0; i < n; i++ {
			its = append(its, ty.k)
		}
	}
	rt, ok := t.p.parseType(it.Results.List[0].Type)
	return ok && rt.k == lwBool && len(its) == 2 && its[0] == lwSeg && its[1] == lwInt
}

// ---------------------------------------------------------------------------------------------
// functions and output

func (p *lwPkg) request(key string) *lwFunc {
	f := p.funcs[key]
	if f == nil {
		f = &lwFunc{key: key, leanName: key, state: 2, reason: "no declaration found"}
		p.funcs[key] = f
		p.order = append(p.order, f)
		return f
	}
	if f.state != 0 {
		return f
	}
	f.state = 1
	for pass := 0; pass < 2; pass++ {
		was := f.partial
		tr := &lwTr{p: p, fn: f}
		lines, err := tr.function()
		if err != nil {
			f.reason, f.lines = err.Error(), nil
			break
		}
		f.lines = lines
		if f.partial == was {
			break
		}
	}
	f.state = 2
	p.order = append(p.order, f)
	return f
}

func (t *lwTr) function() ([]string, error) {
	d := t.fn.decl
	if d.Body == nil || d.Recv == nil || len(d.Recv.List) != 1 || len(d.Recv.List[0].Names) != 1 {
		return nil, t.errf(d, "not a method with a named receiver and a body")
	}
	if d.Type.Results == nil || len(d.Type.Results.List) != 1 || len(d.Type.Results.List[0].Names) != 0 {
		return nil, t.errf(d, "not exactly one unnamed result")
	}
	res, ok := t.p.parseType(d.Type.Results.List[0].Type)
	if !ok || res.nilable() {
		return nil, t.errf(d, "result type outside the subset")
	}
	t.res = res
	env := &lwEnv{ty: map[string]lwTy{}}
	var params []string
	add := func(f *ast.Field) error {
		ty, ok := t.p.parseType(f.Type)
		if !ok {
			return t.errf(f, "parameter type outside the subset")
		}
		for _, n := range f.Names {
			if n.Name == "_" {
				return t.errf(f, "unnamed parameter")
			}
			env.declare(n.Name, ty)
			params = append(params, fmt.Sprintf("(%s : %s)", lwIdent(n.Name), ty.lean()))
		}
		return nil
	}
	if err := add(d.Recv.List[0]); err != nil {
		return nil, err
	}
	for _, f := range d.Type.Params.List {
		if err := add(f); err != nil {
			return nil, err
		}
	}
	if lwHasGeneralLoop(t, d.Body) {
		t.fn.partial = true
	}
	top := lwMode{top: true}
	top.ret = func(v lwExpr, n ast.Node) ([]string, error) {
		if v.ty.k != res.k {
			return nil, t.errf(n, "returned value has another type than the result")
		}
		if t.fn.partial {
			return []string{"some " + lwAtom(v.s)}, nil
		}
		return []string{v.s}, nil
	}
	body, err := t.block(d.Body.List, env, top, func(*lwEnv) ([]string, error) {
		return nil, t.errf(d, "function body can end without return")
	})
	if err != nil {
		return nil, err
	}
	doc := "/-- Go: `" + t.p.declText(d) + "` — " + t.p.where(d)
	sig := "def " + t.fn.leanName + " {L S B P F Y : Type} (ops : LineOps L S B P F Y)"
	rt := res.lean()
	if t.fn.partial {
		doc += "\n    `fuel` bounds the rounds of the loop(s) whose body modifies the loop variable (directly or in a\n" +
			"    callee).  Go has NO fuel: the Go loop simply runs; `none` = fuel exhausted."
		sig += " (fuel : Nat)"
		rt = "Option " + rt
	}
	out := []string{doc + " -/", sig + " " + strings.Join(params, " ") + " : " + rt + " :="}
	return append(out, lwInd(body)...), nil
}

// a for loop that is not a counted loop (decided syntactically, as in forStmt)
func lwHasGeneralLoop(t *lwTr, n ast.Node) bool {
	found := false
	ast.Inspect(n, func(n ast.Node) bool {
		if f, ok := n.(*ast.ForStmt); ok {
			if _, _, _, ok := t.counted(f); !ok {
				found = true
			}
		}
		return !found
	})
	return found
}

const lwPrelude = `/-- how one pass through a loop body ends -/
inductive Flow (σ ρ : Type) where
  | next (s : σ) : Flow σ ρ
  | brk (s : σ) : Flow σ ρ
  | ret (r : ρ) : Flow σ ρ

/-- how a loop ends: normally (or by break) with the final state, or by ` + "`return r`" + ` -/
inductive Exit (σ ρ : Type) where
  | done (s : σ) : Exit σ ρ
  | ret (r : ρ) : Exit σ ρ

/-- a loop over the elements of a list (counted loop, Search callback): structural recursion. -/
def forRange {ε σ ρ : Type} (body : ε → σ → Flow σ ρ) : List ε → σ → Exit σ ρ
  | [], s => Exit.done s
  | x :: xs, s =>
    match body x s with
    | Flow.next s' => forRange body xs s'
    | Flow.brk s' => Exit.done s'
    | Flow.ret r => Exit.ret r

/-- the values lo, lo+1, …, hi-1 of a counted loop ` + "`for v := lo; v < hi; v++`" + ` -/
def intRange (lo hi : Int) : List Int := (List.range (hi - lo).toNat).map (fun k => lo + Int.ofNat k)

/-- ` + "`for …; cond; post { body }`" + ` whose body modifies the loop variable: at most ` + "`fuel`" + ` rounds
    (one unit per evaluation of the condition); ` + "`none`" + ` = fuel exhausted.  ` + "`step`" + ` = body followed
    by the post statement. -/
def iterate {σ ρ : Type} (fuel : Nat) (cond : σ → Bool) (step : σ → Flow σ ρ) (s : σ) : Option (Exit σ ρ) :=
  match fuel with
  | 0 => none
  | fuel + 1 =>
    if cond s then
      match step s with
      | Flow.next s' => iterate fuel cond step s'
      | Flow.brk s' => some (Exit.done s')
      | Flow.ret r => some (Exit.ret r)
    else some (Exit.done s)
`

func translateLineWalk(repo string) (string, error) {
	p, err := lwLoad(repo)
	if err != nil {
		return "", err
	}
	for _, k := range lwTargets {
		p.request(k)
	}
	var b strings.Builder
	b.WriteString(lwHeader)
	b.WriteString("\nset_option linter.unusedVariables false\n\nnamespace Geo.LGen\n\n")
	b.WriteString(lwPrelude)
	b.WriteString("\n/-- the callees of the translated methods, one field per distinct callee found in the source -/\n")
	b.WriteString("structure LineOps (L S B P F Y : Type) where\n")
	var names []string
	for n := range p.ops {
		names = append(names, n)
	}
	sort.Strings(names)
	for _, n := range names {
		o := p.ops[n]
		ty := strings.Join(append(append([]string{}, o.params...), o.result), " → ")
		fmt.Fprintf(&b, "  /-- %s -/\n  %s : %s\n", o.comment, o.name, ty)
	}
	if len(names) == 0 {
		b.WriteString("  mk ::\n")
	}
	for _, f := range p.order {
		b.WriteString("\n")
		if f.reason != "" {
			sig := "?"
			if f.decl != nil {
				sig = "`" + p.declText(f.decl) + "` — " + p.where(f.decl)
			}
			fmt.Fprintf(&b, "/- Go: %s\n   NOT RECOGNISED: %s -/\nopaque %s_unrecognised : Unit\n", sig,
				strings.ReplaceAll(f.reason, "-/", "- /"), f.leanName)
			continue
		}
		b.WriteString(strings.Join(f.lines, "\n"))
		b.WriteString("\n")
	}
	b.WriteString("\nend Geo.LGen\n")
	return b.String(), nil
}

const lwHeader = `/-
  GENERATED FILE — do not edit.  Regenerate with
      cd /verif/translate && go build -o bin/translate . && \\
        ./bin/translate linewalk /repo > /verif/lean/GeoModel/Generated/LineGen.lean

  Syntactic translation (translate/linewalk.go) of the loops of geometry/line.go:
  (*Line).ContainsPoint, ContainsLine, IntersectsLine, ContainsPoly.

  Conventions:
    * the definitions are parametrised by ` + "`ops : LineOps L S B P F Y`" + `: one field per distinct callee found
      in the source — method T.M as tM, ` + "`x.M(…).fld`" + ` as tM_fld, a field read x.f as tF, a struct literal
      T{…} as tMk, a field store v.f.g = e as lineSet_f_g, float64 comparisons as f64Eq/Ne/Lt/…,
      ` + "`==`" + ` on Points as pointEq; L = non-nil *Line (or a Line value), S = Segment, B = Rect, P = Point,
      F = float64, Y = non-nil *Poly; int ↦ Int; the callees are taken to be pure;
    * *Line ↦ Option L, *Poly ↦ Option Y (none = nil); ` + "`x == nil`" + ` in a condition ↦ match on the Option,
      the some arm rebinds the non-nil value under the same name; a callee is only ever applied to a
      value proved non-nil that way; ` + "`&v`" + ` of a Line value ↦ some v;
    * method T.M ↦ def tM (receiver first); x := e, x = e, x++ ↦ let; a, b = b, a ↦ one pattern let;
    * a statement list becomes one expression; an ` + "`if`" + ` containing return/break/continue is translated in
      continuation style (the following statements are copied into the arms that fall through),
      any other ` + "`if`" + ` as  let (assigned variables) := if c then … else …;
    * ` + "`for v := lo; v < hi; v++ { body }`" + ` (body leaves v, hi alone) ↦ forRange (fun v state => body)
      (intRange lo hi) state; state = the outer variables assigned in body;
    * any other for loop ↦ iterate fuel cond step state (state includes the loop variable; step = body
      followed by the post statement, also on ` + "`continue`" + `); such a definition takes ` + "`fuel : Nat`" + ` and
      returns Option (none = fuel exhausted); Go has no fuel;
    * ` + "`x.Search(rect, func(seg, idx) bool {…})`" + ` ↦ forRange of the closure over the abstract visit list
      ops.lineSearch x rect; in the closure ` + "`return true`" + ` ↦ Flow.next, ` + "`return false`" + ` ↦ Flow.brk;
    * in loop bodies: end / continue ↦ Flow.next, break ↦ Flow.brk, return e ↦ Flow.ret e; the statements
      after the loop are the Exit.done arm of the match on the result.
  Anything outside the recognised subset appears below as  opaque <name>_unrecognised : Unit.
-/
`
