package main

// seriesmeth: translates the methods of `*baseSeries` and `makeSeries` of
// <repo>/geometry/series.go (everything except processPoints, which `series` covers) into a Lean
// file (namespace Geo.SMGen, core Lean only).  The Go structs `baseSeries` and `IndexOptions`
// become generated Lean structures (field lists from the source), the `IndexKind` constants
// generated Int definitions (iota), `DefaultIndexOptions` a generated definition; every other
// callee becomes a field of the generated structure `Ops P B S F X D T Q`, discovered from the
// source.  Purely syntactic (go/parser + go/ast and a small local type inference), deterministic.
//
// Recognised subset (see also the header of the generated file):
//   * `x := e`, `x = e`, `var x T`, `x++`, stores through an lvalue path `v.f = e`, `v[i].f = e`
//     (↦ nested functional update), `a.f, b.g = call()` (tuple result), `copy(dst, src)`,
//     `binary.LittleEndian.PutUint32(x[k:], v)`;
//   * if / else / switch on a value / `switch v := e.(type)` with `case []byte` and `default`:
//     in continuation style when an arm contains return/break/continue, otherwise as
//     `let (assigned variables) := if … then … else …`; `x == nil` on a variable ↦ match;
//   * `for v := lo; v < hi; v++` and `for _, v := range xs` ↦ forRange with Flow / Exit;
//   * pointer-receiver methods that store into the receiver return the new receiver value;
//     a method with a callback parameter `iter func(…) bool` threads a state `st' : σ`
//     (`iter : σ → … → σ × Bool`) and returns the final state;
//   * reads of a []byte (index, reslice, Uint32) are PARTIAL ops (Option, none = Go panic) and are
//     bound with Option.bind; a function that contains one returns Option.
// Whatever is not recognised is emitted as `opaque <name>_unrecognised : Unit` preceded by the
// reason; a function that calls an unrecognised function becomes unrecognised itself.

import (
	"fmt"
	"go/ast"
	"go/parser"
	"go/token"
	"os"
	"path/filepath"
	"sort"
	"strconv"
	"strings"
)

func init() { translators["seriesmeth"] = translateSeriesMeth }

// the translated functions, in the order of the task (methods of baseSeries, then makeSeries)
var smTargets = []string{"baseSeries.Empty", "baseSeries.Valid", "baseSeries.Rect", "baseSeries.Convex",
	"baseSeries.Closed", "baseSeries.Clockwise", "baseSeries.NumPoints", "baseSeries.PointAt",
	"baseSeries.NumSegments", "baseSeries.SegmentAt", "baseSeries.Index", "baseSeries.clearIndex",
	"baseSeries.setCompressed", "baseSeries.buildIndex", "baseSeries.Search", "makeSeries", "baseSeries.Move"}

type smKind int

const (
	smBad smKind = iota
	smBool
	smInt
	smFloat
	smPoint
	smRect
	smSeg
	smBytes
	smPoints
	smFloats
	smIface  // interface{}           -> Option X
	smSeries // baseSeries, *baseSeries, Series -> Ser (Option Ser when nil-tested)
	smOpts   // *IndexOptions        -> Option IndexOptions
	smRTree  // *rTree               -> T
	smQNode  // *qNode               -> Q
	smIter   // func(Segment, int) bool
	smNil
	smTuple
	smState // the state σ of the callback
)

type smTy struct {
	k     smKind
	opt   bool // a nilable value not known to be non-nil: Lean type Option …
	elems []smTy
}

const smSer = "BaseSeries P B X"

func (t smTy) base() string {
	switch t.k {
	case smBool:
		return "Bool"
	case smInt:
		return "Int"
	case smFloat:
		return "F"
	case smPoint:
		return "P"
	case smRect:
		return "B"
	case smSeg:
		return "S"
	case smBytes:
		return "D"
	case smPoints:
		return "List P"
	case smFloats:
		return "List F"
	case smIface:
		return "X"
	case smSeries:
		return smSer
	case smOpts:
		return "IndexOptions"
	case smRTree:
		return "T"
	case smQNode:
		return "Q"
	case smState:
		return "σ"
	case smIter:
		return "σ → S → Int → σ × Bool"
	case smTuple:
		var p []string
		for _, e := range t.elems {
			p = append(p, e.leanAtom())
		}
		return strings.Join(p, " × ")
	}
	return "?"
}

func (t smTy) lean() string {
	if t.opt {
		return "Option " + smAtom(t.base())
	}
	return t.base()
}

func (t smTy) leanAtom() string { return smAtom(t.lean()) }

// prefix of op names / Go type name for receivers of that static type
func (t smTy) goName() string {
	switch t.k {
	case smPoint:
		return "Point"
	case smRect:
		return "Rect"
	case smSeg:
		return "Segment"
	case smSeries:
		return "baseSeries"
	case smOpts:
		return "IndexOptions"
	case smRTree:
		return "rTree"
	case smQNode:
		return "qNode"
	}
	return ""
}

func smPrefix(goName string) string {
	switch goName {
	case "Segment":
		return "seg"
	case "baseSeries":
		return "series"
	}
	return strings.ToLower(goName[:1]) + goName[1:]
}

func smAtom(s string) string {
	if !strings.ContainsAny(s, " ") {
		return s
	}
	if (s[0] == '(' && s[len(s)-1] == ')' && smBalanced(s[1:len(s)-1])) ||
		(s[0] == '[' && s[len(s)-1] == ']') || (s[0] == '{' && s[len(s)-1] == '}') {
		return s
	}
	return "(" + s + ")"
}

func smBalanced(s string) bool {
	d := 0
	for _, c := range s {
		if c == '(' {
			d++
		} else if c == ')' {
			if d--; d < 0 {
				return false
			}
		}
	}
	return d == 0
}

func smIndent(lines []string, n int) []string {
	pad := strings.Repeat(" ", n)
	out := make([]string, len(lines))
	for i, l := range lines {
		out[i] = pad + l
	}
	return out
}

type smFunc struct {
	key      string
	leanName string
	decl     *ast.FuncDecl
	file     string
	state    int // 0 untouched, 1 in progress, 2 done
	reason   string
	lines    []string
	// derived from the declaration
	recvName string
	recvOpt  bool // the body tests the receiver against nil
	mutator  bool // no results, no callback: returns the receiver
	search   bool // no results, a callback: returns the callback state
	partial  bool // contains a partial op: returns Option
	iterName string
	params   []smParam
	result   smTy
}

type smParam struct {
	name string
	ty   smTy
}

type smOp struct {
	name, ty, comment string
}

type smPkg struct {
	fset   *token.FileSet
	funcs  map[string]*smFunc
	types  map[string]*ast.TypeSpec
	consts map[string]int // IndexKind constants
	corder []string
	vars   map[string]*ast.ValueSpec
	vfile  map[string]string
	srcs   map[string][]byte
	ops    map[string]*smOp
	order  []*smFunc
	tfile  map[string]string
}

func smRecv(e ast.Expr) string {
	if s, ok := e.(*ast.StarExpr); ok {
		e = s.X
	}
	if id, ok := e.(*ast.Ident); ok {
		return id.Name
	}
	return "?"
}

func smLoad(repo string) (*smPkg, error) {
	dir := filepath.Join(repo, "geometry")
	ents, err := os.ReadDir(dir)
	if err != nil {
		return nil, err
	}
	var names []string
	for _, e := range ents {
		n := e.Name()
		if !e.IsDir() && strings.HasSuffix(n, ".go") && !strings.HasSuffix(n, "_test.go") {
			names = append(names, n)
		}
	}
	sort.Strings(names)
	p := &smPkg{fset: token.NewFileSet(), funcs: map[string]*smFunc{}, types: map[string]*ast.TypeSpec{},
		consts: map[string]int{}, vars: map[string]*ast.ValueSpec{}, vfile: map[string]string{},
		srcs: map[string][]byte{}, ops: map[string]*smOp{}, tfile: map[string]string{}}
	for _, n := range names {
		src, err := os.ReadFile(filepath.Join(dir, n))
		if err != nil {
			return nil, err
		}
		f, err := parser.ParseFile(p.fset, n, src, parser.SkipObjectResolution)
		if err != nil {
			return nil, err
		}
		p.srcs[n] = src
		for _, d := range f.Decls {
			switch d := d.(type) {
			case *ast.FuncDecl:
				key := d.Name.Name
				if d.Recv != nil && len(d.Recv.List) == 1 {
					key = smRecv(d.Recv.List[0].Type) + "." + key
				}
				if _, dup := p.funcs[key]; !dup {
					ln := key
					if i := strings.Index(key, "."); i >= 0 {
						m := key[i+1:]
						ln = smPrefix(key[:i]) + strings.ToUpper(m[:1]) + m[1:]
					}
					p.funcs[key] = &smFunc{key: key, leanName: ln, decl: d, file: n}
				}
			case *ast.GenDecl:
				p.genDecl(d, n)
			}
		}
	}
	return p, nil
}

func (p *smPkg) genDecl(d *ast.GenDecl, file string) {
	switch d.Tok {
	case token.TYPE:
		for _, sp := range d.Specs {
			ts := sp.(*ast.TypeSpec)
			if _, dup := p.types[ts.Name.Name]; !dup {
				p.types[ts.Name.Name] = ts
				p.tfile[ts.Name.Name] = file
			}
		}
	case token.VAR:
		for _, sp := range d.Specs {
			vs := sp.(*ast.ValueSpec)
			for _, n := range vs.Names {
				p.vars[n.Name] = vs
				p.vfile[n.Name] = file
			}
		}
	case token.CONST:
		// a block `X IndexKind = iota; Y; Z`: the values 0, 1, 2, …
		typed := false
		for i, sp := range d.Specs {
			vs := sp.(*ast.ValueSpec)
			if i == 0 {
				id, ok := vs.Type.(*ast.Ident)
				iot, ok2 := (ast.Expr)(nil), false
				if len(vs.Values) == 1 {
					iot = vs.Values[0]
					if v, isId := iot.(*ast.Ident); isId && v.Name == "iota" {
						ok2 = true
					}
				}
				typed = ok && id.Name == "IndexKind" && ok2
			} else if vs.Type != nil || len(vs.Values) != 0 {
				typed = false
			}
			if !typed {
				return
			}
		}
		for i, sp := range d.Specs {
			for _, n := range sp.(*ast.ValueSpec).Names {
				p.consts[n.Name] = i
				p.corder = append(p.corder, n.Name)
			}
		}
	}
}

func (p *smPkg) isStruct(name string) bool {
	ts := p.types[name]
	if ts == nil || ts.Assign.IsValid() {
		return false
	}
	_, ok := ts.Type.(*ast.StructType)
	return ok
}

func (p *smPkg) parseType(e ast.Expr) (smTy, bool) {
	switch e := e.(type) {
	case *ast.Ident:
		switch e.Name {
		case "bool":
			return smTy{k: smBool}, true
		case "int", "byte", "uint32", "uint8":
			return smTy{k: smInt}, true
		case "float64":
			return smTy{k: smFloat}, true
		case "IndexKind":
			if ts := p.types[e.Name]; ts != nil {
				if id, ok := ts.Type.(*ast.Ident); ok && id.Name == "byte" {
					return smTy{k: smInt}, true
				}
			}
		case "Point", "Rect", "Segment", "baseSeries":
			if p.isStruct(e.Name) {
				return smTy{k: map[string]smKind{"Point": smPoint, "Rect": smRect, "Segment": smSeg,
					"baseSeries": smSeries}[e.Name]}, true
			}
		case "Series":
			if ts := p.types[e.Name]; ts != nil {
				if _, ok := ts.Type.(*ast.InterfaceType); ok {
					return smTy{k: smSeries}, true
				}
			}
		}
	case *ast.StarExpr:
		if id, ok := e.X.(*ast.Ident); ok && p.isStruct(id.Name) {
			switch id.Name {
			case "baseSeries":
				return smTy{k: smSeries}, true
			case "IndexOptions":
				return smTy{k: smOpts, opt: true}, true
			case "rTree":
				return smTy{k: smRTree}, true
			case "qNode":
				return smTy{k: smQNode}, true
			}
		}
	case *ast.ArrayType:
		if e.Len != nil {
			return smTy{}, false
		}
		if t, ok := p.parseType(e.Elt); ok {
			if id, isId := e.Elt.(*ast.Ident); isId && id.Name == "byte" {
				return smTy{k: smBytes}, true
			}
			switch t.k {
			case smPoint:
				return smTy{k: smPoints}, true
			case smFloat:
				return smTy{k: smFloats}, true
			}
		}
	case *ast.InterfaceType:
		if e.Methods == nil || len(e.Methods.List) == 0 {
			return smTy{k: smIface, opt: true}, true
		}
	case *ast.FuncType:
		// func(seg Segment, idx int) bool
		if e.Results != nil && len(e.Results.List) == 1 && e.Params != nil {
			r, ok := p.parseType(e.Results.List[0].Type)
			var ps []smTy
			for _, f := range e.Params.List {
				t, ok2 := p.parseType(f.Type)
				if !ok2 {
					return smTy{}, false
				}
				n := len(f.Names)
				if n == 0 {
					n = 1
				}
				for i := 0; i < n; i++ {
					ps = append(ps, t)
				}
			}
			if ok && r.k == smBool && len(ps) == 2 && ps[0].k == smSeg && ps[1].k == smInt {
				return smTy{k: smIter}, true
			}
		}
	}
	return smTy{}, false
}

// structFields: the (name, type expression) pairs of a struct, in declaration order
func (p *smPkg) structFields(tn string) ([]string, []ast.Expr, []*ast.Field) {
	ts := p.types[tn]
	if ts == nil {
		return nil, nil, nil
	}
	st, ok := ts.Type.(*ast.StructType)
	if !ok {
		return nil, nil, nil
	}
	var ns []string
	var es []ast.Expr
	var fs []*ast.Field
	for _, fld := range st.Fields.List {
		for _, n := range fld.Names {
			ns = append(ns, n.Name)
			es = append(es, fld.Type)
			fs = append(fs, fld)
		}
	}
	return ns, es, fs
}

func (p *smPkg) fieldType(tn, name string) (smTy, ast.Node, bool) {
	ns, es, fs := p.structFields(tn)
	for i, n := range ns {
		if n == name {
			t, ok := p.parseType(es[i])
			return t, fs[i], ok
		}
	}
	return smTy{}, nil, false
}

func (p *smPkg) at(file string, n ast.Node) string {
	return fmt.Sprintf("geometry/%s:%d", file, p.fset.Position(n.Pos()).Line)
}

func (p *smPkg) sig(f *smFunc) string {
	src := p.srcs[f.file]
	a := p.fset.Position(f.decl.Pos()).Offset
	b := p.fset.Position(f.decl.Type.End()).Offset
	return strings.Join(strings.Fields(string(src[a:b])), " ")
}

func (p *smPkg) op(name, ty, comment string) string {
	if old, ok := p.ops[name]; ok {
		if old.ty != ty {
			old.ty = "?conflict: " + old.ty + " vs " + ty
		}
	} else {
		p.ops[name] = &smOp{name, ty, comment}
	}
	return "ops." + name
}

func smLower(s string) string { return strings.ToLower(s[:1]) + s[1:] }
func smUpper(s string) string { return strings.ToUpper(s[:1]) + s[1:] }

// ---------------------------------------------------------------------------------------------
// per-function translation state

type smEnv map[string]smTy

func (e smEnv) with(name string, t smTy) smEnv {
	n := make(smEnv, len(e)+1)
	for k, v := range e {
		n[k] = v
	}
	n[name] = t
	return n
}

type smLoop struct {
	state []string // the loop state variables (sorted)
	entry smEnv    // their types at the loop entry
}

type smTr struct {
	p          *smPkg
	f          *smFunc
	binds      []string
	ntmp       int
	loops      []smLoop
	partial    bool // translate in partial mode (results wrapped in some)
	sawPartial bool
	nbind      int
	voidCall   bool // the last call was of a method without result (returns the receiver)
}

const smSt = "st'"

func (t *smTr) errf(n ast.Node, format string, a ...interface{}) error {
	pos := t.p.fset.Position(n.Pos())
	return fmt.Errorf("geometry/%s:%d: %s", pos.Filename, pos.Line, fmt.Sprintf(format, a...))
}

func (t *smTr) tmp() string {
	t.ntmp++
	return fmt.Sprintf("t%d'", t.ntmp)
}

// bindPartial registers `(code).bind fun v =>` and returns v
func (t *smTr) bindPartial(code string) string {
	v := t.tmp()
	t.binds = append(t.binds, smAtom(code)+".bind fun "+v+" =>")
	t.sawPartial = true
	t.nbind++
	return v
}

func (t *smTr) coerce(n ast.Node, code string, from, to smTy) (string, error) {
	if from.k == smNil {
		if to.opt {
			return "none", nil
		}
		return "", t.errf(n, "nil where %s is expected", to.lean())
	}
	if from.k == smBytes && to.k == smIface {
		op := t.p.op("dynOfBytes", "D → X", "Go: a []byte stored into an interface{} value")
		code, from = op+" "+smAtom(code), smTy{k: smIface}
	}
	if from.k != to.k {
		return "", t.errf(n, "%s where %s is expected", from.lean(), to.lean())
	}
	if to.opt && !from.opt {
		return "(some " + smAtom(code) + ")", nil
	}
	if !to.opt && from.opt {
		return "", t.errf(n, "a possibly nil value where a non-nil %s is needed", to.base())
	}
	return code, nil
}

func smIsIdent(e ast.Expr, name string) bool {
	id, ok := e.(*ast.Ident)
	return ok && id.Name == name
}

func smIsNil(e ast.Expr) bool { return smIsIdent(e, "nil") }

// binary.LittleEndian.<name>
func smIsLE(e ast.Expr, name string) bool {
	s, ok := e.(*ast.SelectorExpr)
	if !ok || s.Sel.Name != name {
		return false
	}
	s2, ok := s.X.(*ast.SelectorExpr)
	return ok && s2.Sel.Name == "LittleEndian" && smIsIdent(s2.X, "binary")
}

var smF64Arith = map[token.Token]string{token.ADD: "f64Add", token.SUB: "f64Sub", token.MUL: "f64Mul", token.QUO: "f64Div"}
var smF64Cmp = map[token.Token]string{token.LSS: "f64Lt", token.LEQ: "f64Le", token.GTR: "f64Gt",
	token.GEQ: "f64Ge", token.EQL: "f64Eq", token.NEQ: "f64Ne"}
var smIntCmp = map[token.Token]string{token.LSS: "<", token.LEQ: "≤", token.GTR: ">",
	token.GEQ: "≥", token.EQL: "=", token.NEQ: "≠"}

func (t *smTr) expr(e ast.Expr, env smEnv) (string, smTy, error) {
	switch e := e.(type) {
	case *ast.ParenExpr:
		return t.expr(e.X, env)
	case *ast.Ident:
		if ty, ok := env[e.Name]; ok {
			return e.Name, ty, nil
		}
		switch e.Name {
		case "true", "false":
			return e.Name, smTy{k: smBool}, nil
		case "nil":
			return "none", smTy{k: smNil}, nil
		}
		if _, ok := t.p.consts[e.Name]; ok {
			return "kind" + e.Name, smTy{k: smInt}, nil
		}
		if vs, ok := t.p.vars[e.Name]; ok && len(vs.Names) == 1 && len(vs.Values) == 1 {
			if u, ok := vs.Values[0].(*ast.UnaryExpr); ok && u.Op == token.AND {
				if cl, ok := u.X.(*ast.CompositeLit); ok && smIsIdent(cl.Type, "IndexOptions") {
					return smLower(e.Name), smTy{k: smOpts}, nil
				}
			}
		}
		return "", smTy{}, t.errf(e, "identifier %s", e.Name)
	case *ast.BasicLit:
		if e.Kind == token.INT {
			v, err := strconv.ParseInt(e.Value, 0, 64)
			if err != nil {
				return "", smTy{}, t.errf(e, "literal %s", e.Value)
			}
			return strconv.FormatInt(v, 10), smTy{k: smInt}, nil
		}
		return "", smTy{}, t.errf(e, "literal %s", e.Value)
	case *ast.UnaryExpr:
		x, xt, err := t.expr(e.X, env)
		if err != nil {
			return "", smTy{}, err
		}
		switch {
		case e.Op == token.NOT && xt.k == smBool:
			return "!" + smAtom(x), xt, nil
		case e.Op == token.SUB && xt.k == smInt:
			return "-" + smAtom(x), xt, nil
		case e.Op == token.AND && xt.k == smSeries && !xt.opt:
			return x, xt, nil
		}
		return "", smTy{}, t.errf(e, "unary %s on %s", e.Op, xt.lean())
	case *ast.BinaryExpr:
		return t.binary(e, env)
	case *ast.SelectorExpr:
		x, xt, err := t.expr(e.X, env)
		if err != nil {
			return "", smTy{}, err
		}
		if xt.opt {
			return "", smTy{}, t.errf(e, "field of a possibly nil value")
		}
		gn := xt.goName()
		ft, node, ok := t.p.fieldType(gn, e.Sel.Name)
		if !ok {
			return "", smTy{}, t.errf(e, "field %s of %s", e.Sel.Name, xt.lean())
		}
		if xt.k == smSeries || xt.k == smOpts {
			return smAtom(x) + "." + smLower(e.Sel.Name), ft, nil
		}
		op := t.p.op(smPrefix(gn)+smUpper(e.Sel.Name), xt.lean()+" → "+ft.lean(),
			fmt.Sprintf("Go: field `%s` of struct `%s` — %s", e.Sel.Name, gn, t.p.at(t.p.tfile[gn], node)))
		return op + " " + smAtom(x), ft, nil
	case *ast.IndexExpr:
		x, xt, err := t.expr(e.X, env)
		if err != nil {
			return "", smTy{}, err
		}
		i, it, err := t.expr(e.Index, env)
		if err != nil {
			return "", smTy{}, err
		}
		if it.k != smInt {
			return "", smTy{}, t.errf(e, "index of type %s", it.lean())
		}
		switch xt.k {
		case smPoints:
			return "arrAt " + t.zero(smTy{k: smPoint}) + " " + smAtom(x) + " " + smAtom(i), smTy{k: smPoint}, nil
		case smBytes:
			op := t.p.op("bytesAt", "D → Int → Option Int", "Go: `b[i]` on a []byte; none = index out of range (a Go panic)")
			return t.bindPartial(op + " " + smAtom(x) + " " + smAtom(i)), smTy{k: smInt}, nil
		}
		return "", smTy{}, t.errf(e, "index into %s", xt.lean())
	case *ast.SliceExpr:
		return t.slice(e, env)
	case *ast.CallExpr:
		return t.call(e, env, false)
	case *ast.CompositeLit:
		return t.composite(e, env)
	}
	return "", smTy{}, t.errf(e, "expression %T", e)
}

// zero value of a type
func (t *smTr) zero(ty smTy) string {
	switch ty.k {
	case smBool:
		return "false"
	case smInt:
		return "0"
	case smPoints, smFloats:
		return "[]"
	case smSeries:
		return "(baseSeriesZero ops)"
	case smPoint, smRect, smSeg:
		gn := ty.goName()
		return t.p.op(smPrefix(gn)+"Zero", ty.lean(),
			fmt.Sprintf("Go: the zero value of struct `%s` — %s", gn, t.p.at(t.p.tfile[gn], t.p.types[gn])))
	}
	if ty.opt {
		return "none"
	}
	return "?zero"
}

func (t *smTr) binary(e *ast.BinaryExpr, env smEnv) (string, smTy, error) {
	// nil tests on an arbitrary expression
	if (e.Op == token.EQL || e.Op == token.NEQ) && (smIsNil(e.X) || smIsNil(e.Y)) {
		o := e.X
		if smIsNil(o) {
			o = e.Y
		}
		x, xt, err := t.expr(o, env)
		if err != nil {
			return "", smTy{}, err
		}
		if !xt.opt {
			return "", smTy{}, t.errf(e, "nil test on %s", xt.lean())
		}
		if e.Op == token.EQL {
			return smAtom(x) + ".isNone", smTy{k: smBool}, nil
		}
		return smAtom(x) + ".isSome", smTy{k: smBool}, nil
	}
	l, lt, err := t.expr(e.X, env)
	if err != nil {
		return "", smTy{}, err
	}
	r, rt, err := t.expr(e.Y, env)
	if err != nil {
		return "", smTy{}, err
	}
	if lt.k != rt.k || lt.opt || rt.opt {
		return "", smTy{}, t.errf(e, "%s %s %s", lt.lean(), e.Op, rt.lean())
	}
	switch lt.k {
	case smBool:
		switch e.Op {
		case token.LAND:
			return "(" + smAtom(l) + " && " + smAtom(r) + ")", lt, nil
		case token.LOR:
			return "(" + smAtom(l) + " || " + smAtom(r) + ")", lt, nil
		}
	case smInt:
		switch e.Op {
		case token.ADD, token.SUB:
			return "(" + smAtom(l) + " " + e.Op.String() + " " + smAtom(r) + ")", lt, nil
		}
		if c, ok := smIntCmp[e.Op]; ok {
			return "decide (" + l + " " + c + " " + r + ")", smTy{k: smBool}, nil
		}
	case smFloat:
		if n, ok := smF64Arith[e.Op]; ok {
			op := t.p.op(n, "F → F → F", "Go: float64 `"+e.Op.String()+"`")
			return op + " " + smAtom(l) + " " + smAtom(r), lt, nil
		}
		if n, ok := smF64Cmp[e.Op]; ok {
			op := t.p.op(n, "F → F → Bool", "Go: float64 comparison `"+e.Op.String()+"`")
			return op + " " + smAtom(l) + " " + smAtom(r), smTy{k: smBool}, nil
		}
	case smPoint:
		if e.Op == token.EQL || e.Op == token.NEQ {
			op := t.p.op("pointEq", "P → P → Bool", "Go: `==` on struct `Point` (field-wise float64 `==`) — "+
				t.p.at(t.p.tfile["Point"], t.p.types["Point"]))
			c := op + " " + smAtom(l) + " " + smAtom(r)
			if e.Op == token.NEQ {
				c = "!(" + c + ")"
			}
			return c, smTy{k: smBool}, nil
		}
	}
	return "", smTy{}, t.errf(e, "operator %s on %s", e.Op, lt.lean())
}

func (t *smTr) slice(e *ast.SliceExpr, env smEnv) (string, smTy, error) {
	x, xt, err := t.expr(e.X, env)
	if err != nil {
		return "", smTy{}, err
	}
	part := func(b ast.Expr, dflt string) (string, error) {
		if b == nil {
			return dflt, nil
		}
		c, ct, err := t.expr(b, env)
		if err != nil {
			return "", err
		}
		if ct.k != smInt {
			return "", t.errf(b, "slice bound of type %s", ct.lean())
		}
		return smAtom(c), nil
	}
	lo, err := part(e.Low, "0")
	if err != nil {
		return "", smTy{}, err
	}
	hi, err := part(e.High, "")
	if err != nil {
		return "", smTy{}, err
	}
	mx, err := part(e.Max, "")
	if err != nil {
		return "", smTy{}, err
	}
	switch xt.k {
	case smBytes:
		var code string
		switch {
		case e.Slice3:
			code = t.p.op("bytesSlice3", "D → Int → Int → Int → Option D",
				"Go: `b[lo:hi:max]` on a []byte; none = bounds out of range (a Go panic)") + " " + smAtom(x) + " " + lo + " " + hi + " " + mx
		case e.High == nil:
			code = t.p.op("bytesSliceFrom", "D → Int → Option D",
				"Go: `b[lo:]` on a []byte; none = bound out of range (a Go panic)") + " " + smAtom(x) + " " + lo
		default:
			code = t.p.op("bytesSlice", "D → Int → Int → Option D",
				"Go: `b[lo:hi]` on a []byte; none = bounds out of range (a Go panic)") + " " + smAtom(x) + " " + lo + " " + hi
		}
		return t.bindPartial(code), xt, nil
	case smPoints:
		if e.Slice3 {
			break
		}
		code := smAtom(x)
		if e.High != nil {
			code = "(List.take (Int.toNat " + hi + ") " + code + ")"
		}
		if e.Low != nil {
			code = "(List.drop (Int.toNat " + lo + ") " + code + ")"
		}
		return code, xt, nil
	}
	return "", smTy{}, t.errf(e, "slice of %s", xt.lean())
}

func (t *smTr) composite(e *ast.CompositeLit, env smEnv) (string, smTy, error) {
	ty, ok := t.p.parseType(e.Type)
	if !ok || (ty.k != smBytes && ty.k != smFloats) {
		return "", smTy{}, t.errf(e, "composite literal")
	}
	var parts []string
	for _, el := range e.Elts {
		if _, kv := el.(*ast.KeyValueExpr); kv {
			return "", smTy{}, t.errf(e, "keyed slice literal")
		}
		c, ct, err := t.expr(el, env)
		if err != nil {
			return "", smTy{}, err
		}
		want := smFloat
		if ty.k == smBytes {
			want = smInt
		}
		if ct.k != want {
			return "", smTy{}, t.errf(el, "element of type %s", ct.lean())
		}
		parts = append(parts, c)
	}
	lit := "[" + strings.Join(parts, ", ") + "]"
	if ty.k == smBytes {
		return t.p.op("bytesLit", "List Int → D", "Go: a literal `[]byte{…}`") + " " + lit, ty, nil
	}
	return lit, ty, nil
}

func (t *smTr) args(list []ast.Expr, env smEnv) ([]string, []smTy, error) {
	var cs []string
	var ts []smTy
	for _, a := range list {
		c, ct, err := t.expr(a, env)
		if err != nil {
			return nil, nil, err
		}
		cs = append(cs, c)
		ts = append(ts, ct)
	}
	return cs, ts, nil
}

// declared parameter types of a Go function (false where not in the subset)
func (t *smTr) declParams(d *ast.FuncDecl) ([]smTy, []bool) {
	var ts []smTy
	var oks []bool
	for _, f := range d.Type.Params.List {
		ty, ok := t.p.parseType(f.Type)
		n := len(f.Names)
		if n == 0 {
			n = 1
		}
		for i := 0; i < n; i++ {
			ts = append(ts, ty)
			oks = append(oks, ok)
		}
	}
	return ts, oks
}

func (t *smTr) declResult(d *ast.FuncDecl) (smTy, bool, bool) { // type, has result, ok
	if d.Type.Results == nil || len(d.Type.Results.List) == 0 {
		return smTy{}, false, true
	}
	var ts []smTy
	for _, f := range d.Type.Results.List {
		ty, ok := t.p.parseType(f.Type)
		if !ok {
			return smTy{}, true, false
		}
		n := len(f.Names)
		if n == 0 {
			n = 1
		}
		for i := 0; i < n; i++ {
			ts = append(ts, ty)
		}
	}
	if len(ts) == 1 {
		return ts[0], true, true
	}
	return smTy{k: smTuple, elems: ts}, true, true
}

// opCall: a call of a function / method that is not translated here ↦ a field of Ops
func (t *smTr) opCall(e *ast.CallExpr, f *smFunc, name string, recv string, recvTy smTy, hasRecv bool, env smEnv) (string, smTy, error) {
	cs, ts, err := t.args(e.Args, env)
	if err != nil {
		return "", smTy{}, err
	}
	dps, oks := t.declParams(f.decl)
	if len(dps) != len(cs) || f.decl.Type.Params.List != nil && e.Ellipsis.IsValid() {
		return "", smTy{}, t.errf(e, "call of %s with %d arguments", f.key, len(cs))
	}
	var tyParts, codeParts []string
	if hasRecv {
		tyParts = append(tyParts, recvTy.leanAtom())
		codeParts = append(codeParts, smAtom(recv))
	}
	iter := false
	for i := range cs {
		want := ts[i]
		if oks[i] && !(dps[i].k == smIface && ts[i].k != smIface && ts[i].k != smNil) {
			want = dps[i]
			if want.k == smSeries {
				want.opt = false
			}
		}
		if want.k == smNil {
			return "", smTy{}, t.errf(e.Args[i], "nil argument of an unknown type")
		}
		c, err := t.coerce(e.Args[i], cs[i], ts[i], want)
		if err != nil {
			return "", smTy{}, err
		}
		if want.k == smIter {
			iter = true
		}
		tyParts = append(tyParts, want.leanAtom())
		codeParts = append(codeParts, smAtom(c))
	}
	res, has, ok := t.declResult(f.decl)
	if !ok {
		return "", smTy{}, t.errf(e, "result type of %s", f.key)
	}
	comment := fmt.Sprintf("Go: `%s` — %s", t.p.sig(f), t.p.at(f.file, f.decl))
	if !has {
		t.voidCall = true
		if !hasRecv || iter {
			return "", smTy{}, t.errf(e, "call of %s (no result)", f.key)
		}
		res = recvTy
		comment += "; stores through its pointer receiver: the op returns the updated receiver"
	}
	if iter {
		// the callback state goes in and comes out; none = a Go panic inside the callee
		comment += "; the callback threads a state σ; none = a Go panic (out-of-range read of the index bytes)"
		ty := "{σ : Type} → " + strings.Join(tyParts, " → ") + " → σ → Option (σ × " + res.leanAtom() + ")"
		v := t.bindPartial(t.p.op(name, ty, comment) + " " + strings.Join(codeParts, " ") + " " + smSt)
		t.binds = append(t.binds, "let "+smSt+" := "+v+".1")
		return v + ".2", res, nil
	}
	ty := strings.Join(append(tyParts, res.lean()), " → ")
	return strings.TrimSpace(t.p.op(name, ty, comment) + " " + strings.Join(codeParts, " ")), res, nil
}

func (t *smTr) call(e *ast.CallExpr, env smEnv, stmt bool) (string, smTy, error) {
	if id, ok := e.Fun.(*ast.Ident); ok {
		if _, shadow := env[id.Name]; shadow {
			return "", smTy{}, t.errf(e, "call of the variable %s outside an if condition", id.Name)
		}
		switch id.Name {
		case "len":
			if len(e.Args) != 1 {
				break
			}
			x, xt, err := t.expr(e.Args[0], env)
			if err != nil {
				return "", smTy{}, err
			}
			switch xt.k {
			case smPoints, smFloats:
				return "Int.ofNat " + smAtom(x) + ".length", smTy{k: smInt}, nil
			case smBytes:
				return t.p.op("bytesLen", "D → Int", "Go: `len(b)` of a []byte") + " " + smAtom(x), smTy{k: smInt}, nil
			}
			return "", smTy{}, t.errf(e, "len of %s", xt.lean())
		case "make":
			if len(e.Args) != 2 {
				break
			}
			ty, ok := t.p.parseType(e.Args[0])
			n, nt, err := t.expr(e.Args[1], env)
			if err != nil {
				return "", smTy{}, err
			}
			if !ok || nt.k != smInt {
				break
			}
			switch ty.k {
			case smPoints:
				return "List.replicate (Int.toNat " + smAtom(n) + ") " + t.zero(smTy{k: smPoint}), ty, nil
			case smBytes:
				return t.p.op("bytesMake", "Int → D", "Go: `make([]byte, n)`") + " " + smAtom(n), ty, nil
			}
		case "new":
			if len(e.Args) == 1 {
				if tn, ok := e.Args[0].(*ast.Ident); ok {
					ty, ok := t.p.parseType(&ast.StarExpr{X: tn})
					if ok && (ty.k == smRTree || ty.k == smQNode) {
						return t.p.op(smPrefix(tn.Name)+"New", ty.lean(), fmt.Sprintf("Go: `new(%s)` — %s", tn.Name,
							t.p.at(t.p.tfile[tn.Name], t.p.types[tn.Name]))), ty, nil
					}
				}
			}
		case "int", "uint32", "byte":
			if len(e.Args) != 1 {
				break
			}
			x, xt, err := t.expr(e.Args[0], env)
			if err != nil {
				return "", smTy{}, err
			}
			if xt.k != smInt {
				break
			}
			return t.p.op("to"+smUpper(id.Name), "Int → Int", "Go: the conversion `"+id.Name+"(x)` of an integer") + " " + smAtom(x), xt, nil
		}
		f := t.p.funcs[id.Name]
		if f == nil {
			return "", smTy{}, t.errf(e, "call of %s", id.Name)
		}
		if smIsTarget(f.key) {
			return t.targetCall(e, f, "", smTy{}, env, stmt)
		}
		return t.opCall(e, f, f.leanName, "", smTy{}, false, env)
	}
	sel, ok := e.Fun.(*ast.SelectorExpr)
	if !ok {
		return "", smTy{}, t.errf(e, "call")
	}
	if smIsLE(e.Fun, "Uint32") && len(e.Args) == 1 {
		x, xt, err := t.expr(e.Args[0], env)
		if err != nil {
			return "", smTy{}, err
		}
		if xt.k == smBytes {
			op := t.p.op("leUint32", "D → Option Int", "Go: `binary.LittleEndian.Uint32(b)`; none = fewer than 4 bytes (a Go panic)")
			return t.bindPartial(op + " " + smAtom(x)), smTy{k: smInt}, nil
		}
	}
	x, xt, err := t.expr(sel.X, env)
	if err != nil {
		return "", smTy{}, err
	}
	gn := xt.goName()
	f := t.p.funcs[gn+"."+sel.Sel.Name]
	if gn == "" || f == nil {
		return "", smTy{}, t.errf(e, "method %s of %s", sel.Sel.Name, xt.lean())
	}
	if smIsTarget(f.key) {
		return t.targetCall(e, f, x, xt, env, stmt)
	}
	if xt.opt {
		return "", smTy{}, t.errf(e, "method of a possibly nil value")
	}
	return t.opCall(e, f, f.leanName, x, xt, true, env)
}

func smIsTarget(key string) bool {
	for _, k := range smTargets {
		if k == key {
			return true
		}
	}
	return false
}

// prepare derives the Lean signature of a target from its declaration
func (p *smPkg) prepare(f *smFunc) error {
	t := &smTr{p: p, f: f}
	d := f.decl
	if d.Body == nil {
		return t.errf(d, "no body")
	}
	if d.Recv != nil {
		if len(d.Recv.List) != 1 || len(d.Recv.List[0].Names) != 1 {
			return t.errf(d, "receiver")
		}
		f.recvName = d.Recv.List[0].Names[0].Name
		ast.Inspect(d.Body, func(n ast.Node) bool {
			if b, ok := n.(*ast.BinaryExpr); ok && (b.Op == token.EQL || b.Op == token.NEQ) {
				if (smIsIdent(b.X, f.recvName) && smIsNil(b.Y)) || (smIsIdent(b.Y, f.recvName) && smIsNil(b.X)) {
					f.recvOpt = true
				}
			}
			return true
		})
	}
	for _, fld := range d.Type.Params.List {
		ty, ok := p.parseType(fld.Type)
		if !ok || len(fld.Names) == 0 {
			return t.errf(fld, "parameter type")
		}
		for _, n := range fld.Names {
			if ty.k == smIter {
				if f.iterName != "" {
					return t.errf(fld, "two callbacks")
				}
				f.iterName = n.Name
			}
			f.params = append(f.params, smParam{n.Name, ty})
		}
	}
	res, has, ok := t.declResult(d)
	if !ok || res.k == smTuple {
		return t.errf(d, "result type")
	}
	if has && d.Type.Results.List[0].Names != nil {
		return t.errf(d, "named result")
	}
	switch {
	case has && f.iterName == "":
		f.result = res
	case !has && f.iterName != "":
		f.search = true
		f.result = smTy{k: smState}
	case !has && f.recvName != "":
		f.mutator = true
		f.result = smTy{k: smSeries}
	default:
		return t.errf(d, "a callback together with a result")
	}
	return nil
}

func (t *smTr) targetCall(e *ast.CallExpr, f *smFunc, recv string, recvTy smTy, env smEnv, stmt bool) (string, smTy, error) {
	t.p.translate(f)
	if f.state == 1 {
		return "", smTy{}, t.errf(e, "recursive call of %s", f.key)
	}
	if f.reason != "" {
		return "", smTy{}, t.errf(e, "calls %s, which is not recognised", f.key)
	}
	if f.search {
		return "", smTy{}, t.errf(e, "call of %s (a method with a callback)", f.key)
	}
	if f.mutator && !stmt {
		return "", smTy{}, t.errf(e, "call of %s in an expression", f.key)
	}
	parts := []string{f.leanName, "ops"}
	if f.recvName != "" {
		c, err := t.coerce(e, recv, recvTy, smTy{k: smSeries, opt: f.recvOpt})
		if err != nil {
			return "", smTy{}, err
		}
		parts = append(parts, smAtom(c))
	}
	cs, ts, err := t.args(e.Args, env)
	if err != nil {
		return "", smTy{}, err
	}
	if len(cs) != len(f.params) {
		return "", smTy{}, t.errf(e, "call of %s with %d arguments", f.key, len(cs))
	}
	for i := range cs {
		c, err := t.coerce(e.Args[i], cs[i], ts[i], f.params[i].ty)
		if err != nil {
			return "", smTy{}, err
		}
		parts = append(parts, smAtom(c))
	}
	code := strings.Join(parts, " ")
	if f.mutator {
		t.voidCall = true
	}
	if f.partial {
		return t.bindPartial(code), f.result, nil
	}
	return code, f.result, nil
}

// ---------------------------------------------------------------------------------------------
// syntactic analyses

// smRoot: the variable at the root of an lvalue path x, x.f, x[i], x[i:], …
func smRoot(e ast.Expr) string {
	for {
		switch x := e.(type) {
		case *ast.Ident:
			return x.Name
		case *ast.SelectorExpr:
			e = x.X
		case *ast.IndexExpr:
			e = x.X
		case *ast.SliceExpr:
			e = x.X
		case *ast.ParenExpr:
			e = x.X
		case *ast.StarExpr:
			e = x.X
		default:
			return ""
		}
	}
}

// voidMethod: is there a method of that name without results?
func (p *smPkg) voidMethod(name string) bool {
	keys := make([]string, 0)
	for k := range p.funcs {
		keys = append(keys, k)
	}
	sort.Strings(keys)
	for _, k := range keys {
		f := p.funcs[k]
		if strings.HasSuffix(k, "."+name) && (f.decl.Type.Results == nil || len(f.decl.Type.Results.List) == 0) {
			return true
		}
	}
	return false
}

// assigned: the variables of env that the statements may assign (st' for the callback state)
func (t *smTr) assigned(list []ast.Stmt, env smEnv) []string {
	set := map[string]bool{}
	mark := func(n string) {
		if _, ok := env[n]; ok && n != "" {
			set[n] = true
		}
	}
	for _, s := range list {
		ast.Inspect(s, func(n ast.Node) bool {
			switch n := n.(type) {
			case *ast.AssignStmt:
				if n.Tok != token.DEFINE {
					for _, l := range n.Lhs {
						mark(smRoot(l))
					}
				}
			case *ast.IncDecStmt:
				mark(smRoot(n.X))
			case *ast.CallExpr:
				if id, ok := n.Fun.(*ast.Ident); ok {
					if id.Name == "copy" && len(n.Args) == 2 {
						mark(smRoot(n.Args[0]))
					}
					if t.f.iterName != "" && id.Name == t.f.iterName {
						mark(smSt)
					}
				}
				if smIsLE(n.Fun, "PutUint32") && len(n.Args) == 2 {
					mark(smRoot(n.Args[0]))
				}
				for _, a := range n.Args {
					if t.f.iterName != "" && smIsIdent(a, t.f.iterName) {
						mark(smSt)
					}
				}
			case *ast.ExprStmt:
				if c, ok := n.X.(*ast.CallExpr); ok {
					if sel, ok := c.Fun.(*ast.SelectorExpr); ok && t.p.voidMethod(sel.Sel.Name) {
						mark(smRoot(sel.X))
					}
				}
			}
			return true
		})
	}
	var out []string
	for n := range set {
		out = append(out, n)
	}
	sort.Strings(out)
	return out
}

// jumps: do the statements contain a return, or a break/continue of the enclosing loop?
func smJumps(list []ast.Stmt) bool {
	found := false
	var walk func(n ast.Node, inner bool)
	walk = func(n ast.Node, inner bool) {
		ast.Inspect(n, func(m ast.Node) bool {
			switch m := m.(type) {
			case *ast.ReturnStmt:
				found = true
			case *ast.BranchStmt:
				if !inner {
					found = true
				}
			case *ast.ForStmt:
				walk(m.Body, true)
				return false
			case *ast.RangeStmt:
				walk(m.Body, true)
				return false
			case *ast.FuncLit:
				return false
			}
			return true
		})
	}
	for _, s := range list {
		walk(s, false)
	}
	return found
}

func smIdents(e ast.Expr) map[string]bool {
	out := map[string]bool{}
	ast.Inspect(e, func(n ast.Node) bool {
		switch n := n.(type) {
		case *ast.Ident:
			out[n.Name] = true
		case *ast.SelectorExpr: // the field name is not a variable
			for k := range smIdents(n.X) {
				out[k] = true
			}
			return false
		}
		return true
	})
	return out
}

// restrict: the variables of outer with their (possibly refined) types in inner
func smRestrict(inner, outer smEnv) smEnv {
	n := make(smEnv, len(outer))
	for k := range outer {
		n[k] = inner[k]
	}
	return n
}

// ---------------------------------------------------------------------------------------------
// statements

type smCont func(env smEnv) ([]string, error)

func (t *smTr) flush(n ast.Node) ([]string, error) {
	b := t.binds
	t.binds = nil
	if len(b) > 0 && len(t.loops) > 0 {
		return nil, t.errf(n, "a partial operation (or a callee with the callback) inside a loop body")
	}
	return b, nil
}

func (t *smTr) retType() string {
	if t.partial {
		return "Option " + t.f.result.leanAtom()
	}
	return t.f.result.lean()
}

func (t *smTr) wrapRet(code string) string {
	if t.partial {
		code = "some " + smAtom(code)
	}
	if len(t.loops) > 0 {
		return "Flow.ret " + smAtom(code)
	}
	return code
}

// tuple of the variables vs (their current values coerced to the types in want)
func (t *smTr) tuple(n ast.Node, vs []string, env, want smEnv) (string, error) {
	if len(vs) == 0 {
		return "()", nil
	}
	var parts []string
	for _, v := range vs {
		c, err := t.coerce(n, v, env[v], want[v])
		if err != nil {
			return "", err
		}
		parts = append(parts, c)
	}
	if len(parts) == 1 {
		return parts[0], nil
	}
	return "(" + strings.Join(parts, ", ") + ")", nil
}

func smTupleTy(vs []string, env smEnv) string {
	if len(vs) == 0 {
		return "Unit"
	}
	if len(vs) == 1 {
		return env[vs[0]].lean()
	}
	var parts []string
	for _, v := range vs {
		parts = append(parts, env[v].leanAtom())
	}
	return strings.Join(parts, " × ")
}

func smPattern(vs []string) string {
	switch len(vs) {
	case 0:
		return "_"
	case 1:
		return vs[0]
	}
	return "(" + strings.Join(vs, ", ") + ")"
}

// update: store newval at the lvalue path lv; returns the root variable and its new value
func (t *smTr) update(lv ast.Expr, newval string, newTy smTy, env smEnv) (string, string, smTy, error) {
	switch x := lv.(type) {
	case *ast.ParenExpr:
		return t.update(x.X, newval, newTy, env)
	case *ast.Ident:
		old, ok := env[x.Name]
		if !ok {
			return "", "", smTy{}, t.errf(lv, "assignment to %s", x.Name)
		}
		want := old
		if newTy.k == old.k && !newTy.opt {
			want.opt = false // flow-sensitive: now known to be non-nil
		}
		c, err := t.coerce(lv, newval, newTy, want)
		return x.Name, c, want, err
	case *ast.SelectorExpr:
		cur, ct, err := t.expr(x.X, env)
		if err != nil {
			return "", "", smTy{}, err
		}
		if ct.opt {
			return "", "", smTy{}, t.errf(lv, "store through a possibly nil value")
		}
		gn := ct.goName()
		ft, node, ok := t.p.fieldType(gn, x.Sel.Name)
		if !ok {
			return "", "", smTy{}, t.errf(lv, "field %s of %s", x.Sel.Name, ct.lean())
		}
		c, err := t.coerce(lv, newval, newTy, ft)
		if err != nil {
			return "", "", smTy{}, err
		}
		var inner string
		if ct.k == smSeries || ct.k == smOpts {
			inner = "{ " + cur + " with " + smLower(x.Sel.Name) + " := " + c + " }"
		} else {
			op := t.p.op(smPrefix(gn)+"Set"+smUpper(x.Sel.Name), ct.lean()+" → "+ft.lean()+" → "+ct.lean(),
				fmt.Sprintf("Go: store into field `%s` of a `%s` value — %s", x.Sel.Name, gn, t.p.at(t.p.tfile[gn], node)))
			inner = op + " " + smAtom(cur) + " " + smAtom(c)
		}
		return t.update(x.X, inner, ct, env)
	case *ast.IndexExpr:
		cur, ct, err := t.expr(x.X, env)
		if err != nil {
			return "", "", smTy{}, err
		}
		i, it, err := t.expr(x.Index, env)
		if err != nil {
			return "", "", smTy{}, err
		}
		if ct.k != smPoints || it.k != smInt || newTy.k != smPoint {
			return "", "", smTy{}, t.errf(lv, "store into an element of %s", ct.lean())
		}
		return t.update(x.X, "arrSet "+smAtom(cur)+" "+smAtom(i)+" "+smAtom(newval), ct, env)
	}
	return "", "", smTy{}, t.errf(lv, "assignment target")
}

// store: `lv = val` as a let of the root variable
func (t *smTr) store(n ast.Node, lv ast.Expr, val string, vt smTy, env smEnv) ([]string, smEnv, error) {
	root, code, rt, err := t.update(lv, val, vt, env)
	if err != nil {
		return nil, nil, err
	}
	b, err := t.flush(n)
	if err != nil {
		return nil, nil, err
	}
	return append(b, "let "+root+" : "+rt.lean()+" := "+code), env.with(root, rt), nil
}

func (t *smTr) stmts(list []ast.Stmt, env smEnv, k smCont) ([]string, error) {
	if len(list) == 0 {
		return k(env)
	}
	s, rest := list[0], list[1:]
	next := func(lines []string, env smEnv) ([]string, error) {
		r, err := t.stmts(rest, env, k)
		if err != nil {
			return nil, err
		}
		return append(lines, r...), nil
	}
	switch s := s.(type) {
	case *ast.BlockStmt:
		return t.stmts(s.List, env, func(e2 smEnv) ([]string, error) { return t.stmts(rest, smRestrict(e2, env), k) })
	case *ast.EmptyStmt:
		return t.stmts(rest, env, k)
	case *ast.DeclStmt:
		gd, ok := s.Decl.(*ast.GenDecl)
		if !ok || gd.Tok != token.VAR || len(gd.Specs) != 1 {
			return nil, t.errf(s, "declaration")
		}
		vs := gd.Specs[0].(*ast.ValueSpec)
		ty, ok := t.p.parseType(vs.Type)
		if !ok || len(vs.Names) != 1 || len(vs.Values) != 0 {
			return nil, t.errf(s, "declaration (only `var x T`)")
		}
		name := vs.Names[0].Name
		if _, dup := env[name]; dup {
			return nil, t.errf(s, "%s shadows a variable", name)
		}
		z := t.zero(ty)
		if strings.HasPrefix(z, "?") {
			return nil, t.errf(s, "zero value of %s", ty.lean())
		}
		return next([]string{"let " + name + " : " + ty.lean() + " := " + z}, env.with(name, ty))
	case *ast.IncDecStmt:
		x, xt, err := t.expr(s.X, env)
		if err != nil {
			return nil, err
		}
		if xt.k != smInt {
			return nil, t.errf(s, "%s on %s", s.Tok, xt.lean())
		}
		op := " + 1"
		if s.Tok == token.DEC {
			op = " - 1"
		}
		lines, env2, err := t.store(s, s.X, "("+x+op+")", xt, env)
		if err != nil {
			return nil, err
		}
		return next(lines, env2)
	case *ast.AssignStmt:
		lines, env2, err := t.assign(s, env)
		if err != nil {
			return nil, err
		}
		return next(lines, env2)
	case *ast.ExprStmt:
		lines, env2, err := t.exprStmt(s, env)
		if err != nil {
			return nil, err
		}
		return next(lines, env2)
	case *ast.ReturnStmt:
		return t.ret(s, env)
	case *ast.BranchStmt:
		if len(t.loops) == 0 || s.Label != nil {
			return nil, t.errf(s, "%s", s.Tok)
		}
		lp := t.loops[len(t.loops)-1]
		st, err := t.tuple(s, lp.state, env, lp.entry)
		if err != nil {
			return nil, err
		}
		switch s.Tok {
		case token.CONTINUE:
			return []string{"Flow.next " + st}, nil
		case token.BREAK:
			return []string{"Flow.brk " + st}, nil
		}
		return nil, t.errf(s, "%s", s.Tok)
	case *ast.IfStmt:
		return t.ifStmt(s, rest, env, k)
	case *ast.SwitchStmt:
		return t.switchStmt(s, rest, env, k)
	case *ast.TypeSwitchStmt:
		return t.typeSwitch(s, rest, env, k)
	case *ast.ForStmt:
		return t.forStmt(s, rest, env, k)
	case *ast.RangeStmt:
		return t.rangeStmt(s, rest, env, k)
	}
	return nil, t.errf(s, "statement %T", s)
}

func (t *smTr) ret(s *ast.ReturnStmt, env smEnv) ([]string, error) {
	var code string
	switch {
	case t.f.mutator || t.f.search:
		if len(s.Results) != 0 {
			return nil, t.errf(s, "return with a value")
		}
		name := smSt
		if t.f.mutator {
			name = t.f.recvName
		}
		c, err := t.coerce(s, name, env[name], t.f.result)
		if err != nil {
			return nil, err
		}
		code = c
	default:
		if len(s.Results) != 1 {
			return nil, t.errf(s, "return of %d values", len(s.Results))
		}
		c, ct, err := t.expr(s.Results[0], env)
		if err != nil {
			return nil, err
		}
		if c, err = t.coerce(s, c, ct, t.f.result); err != nil {
			return nil, err
		}
		code = c
	}
	b, err := t.flush(s)
	if err != nil {
		return nil, err
	}
	return append(b, t.wrapRet(code)), nil
}

func (t *smTr) assign(s *ast.AssignStmt, env smEnv) ([]string, smEnv, error) {
	if s.Tok != token.ASSIGN && s.Tok != token.DEFINE {
		return nil, nil, t.errf(s, "assignment %s", s.Tok)
	}
	if len(s.Rhs) != 1 {
		return nil, nil, t.errf(s, "parallel assignment")
	}
	val, vt, err := t.expr(s.Rhs[0], env)
	if err != nil {
		return nil, nil, err
	}
	if len(s.Lhs) > 1 {
		// a.f, b.g, c = call(): bind the tuple, then store component-wise
		if vt.k != smTuple || len(vt.elems) != len(s.Lhs) || s.Tok == token.DEFINE {
			return nil, nil, t.errf(s, "assignment of %s to %d targets", vt.lean(), len(s.Lhs))
		}
		b, err := t.flush(s)
		if err != nil {
			return nil, nil, err
		}
		r := t.tmp()
		lines := append(b, "let "+r+" : "+vt.lean()+" := "+val)
		for i, l := range s.Lhs {
			proj := r + strings.Repeat(".2", i)
			if i < len(s.Lhs)-1 {
				proj += ".1"
			}
			ls, env2, err := t.store(s, l, proj, vt.elems[i], env)
			if err != nil {
				return nil, nil, err
			}
			lines, env = append(lines, ls...), env2
		}
		return lines, env, nil
	}
	if id, ok := s.Lhs[0].(*ast.Ident); ok && s.Tok == token.DEFINE {
		if _, dup := env[id.Name]; dup {
			return nil, nil, t.errf(s, "%s shadows a variable", id.Name)
		}
		if vt.k == smNil || vt.k == smTuple {
			return nil, nil, t.errf(s, "definition from %s", vt.lean())
		}
		b, err := t.flush(s)
		if err != nil {
			return nil, nil, err
		}
		if id.Name == "_" {
			return b, env, nil
		}
		return append(b, "let "+id.Name+" : "+vt.lean()+" := "+val), env.with(id.Name, vt), nil
	}
	if s.Tok == token.DEFINE {
		return nil, nil, t.errf(s, "definition target")
	}
	return t.store(s, s.Lhs[0], val, vt, env)
}

func (t *smTr) exprStmt(s *ast.ExprStmt, env smEnv) ([]string, smEnv, error) {
	c, ok := s.X.(*ast.CallExpr)
	if !ok {
		return nil, nil, t.errf(s, "expression statement")
	}
	if smIsIdent(c.Fun, "copy") && len(c.Args) == 2 {
		if _, shadow := env["copy"]; !shadow {
			d, dt, err := t.expr(c.Args[0], env)
			if err != nil {
				return nil, nil, err
			}
			x, xt, err := t.expr(c.Args[1], env)
			if err != nil {
				return nil, nil, err
			}
			switch {
			case dt.k == smPoints && xt.k == smPoints:
				return t.store(s, c.Args[0], "sliceCopy "+smAtom(d)+" "+smAtom(x), dt, env)
			case dt.k == smBytes && xt.k == smBytes:
				op := t.p.op("bytesCopy", "D → D → D", "Go: `copy(dst, src)` on []byte: the op returns the new dst")
				return t.store(s, c.Args[0], op+" "+smAtom(d)+" "+smAtom(x), dt, env)
			}
			return nil, nil, t.errf(s, "copy(%s, %s)", dt.lean(), xt.lean())
		}
	}
	if smIsLE(c.Fun, "PutUint32") && len(c.Args) == 2 {
		sl, ok := c.Args[0].(*ast.SliceExpr)
		if ok && sl.Low != nil && sl.High == nil && !sl.Slice3 {
			x, xt, err := t.expr(sl.X, env)
			if err != nil {
				return nil, nil, err
			}
			lo, lt, err := t.expr(sl.Low, env)
			if err != nil {
				return nil, nil, err
			}
			v, vt, err := t.expr(c.Args[1], env)
			if err != nil {
				return nil, nil, err
			}
			if xt.k == smBytes && lt.k == smInt && vt.k == smInt {
				op := t.p.op("bytesPutUint32", "D → Int → Int → D",
					"Go: `binary.LittleEndian.PutUint32(b[lo:], v)`: the op returns the new b (Go panics when fewer than 4 bytes follow lo)")
				return t.store(s, sl.X, op+" "+smAtom(x)+" "+smAtom(lo)+" "+smAtom(v), xt, env)
			}
		}
		return nil, nil, t.errf(s, "PutUint32 (only on b[lo:])")
	}
	t.voidCall = false
	code, ct, err := t.call(c, env, true)
	if err != nil {
		return nil, nil, err
	}
	if t.voidCall {
		t.voidCall = false
		sel, ok := c.Fun.(*ast.SelectorExpr)
		if !ok {
			return nil, nil, t.errf(s, "call without result")
		}
		return t.store(s, sel.X, code, ct, env)
	}
	if len(t.binds) == 0 {
		return nil, nil, t.errf(s, "a call whose result is dropped")
	}
	b, err := t.flush(s)
	return b, env, err
}

type smArm struct {
	body []ast.Stmt
	env  smEnv
}

// branch: the arms of an if / switch followed by rest.  Continuation style when an arm jumps,
// otherwise  let (assigned) := <render arms>  and then rest.
func (t *smTr) branch(n ast.Node, arms []smArm, render func([][]string) []string, rest []ast.Stmt,
	env smEnv, k smCont) ([]string, error) {
	jump := false
	for _, a := range arms {
		jump = jump || smJumps(a.body)
	}
	if !jump {
		// an arm with a partial operation cannot be the value of a let: continuation style
		save, saveBinds, nb := t.ntmp, t.binds, t.nbind
		for _, a := range arms {
			if _, err := t.stmts(a.body, a.env, func(smEnv) ([]string, error) { return nil, nil }); err != nil {
				return nil, err
			}
		}
		jump = t.nbind != nb
		t.ntmp, t.binds = save, saveBinds
	}
	if jump {
		var codes [][]string
		for _, a := range arms {
			c, err := t.stmts(a.body, a.env, func(e2 smEnv) ([]string, error) {
				return t.stmts(rest, smRestrict(e2, env), k)
			})
			if err != nil {
				return nil, err
			}
			codes = append(codes, c)
		}
		return render(codes), nil
	}
	set := map[string]bool{}
	for _, a := range arms {
		for _, v := range t.assigned(a.body, env) {
			set[v] = true
		}
	}
	var vs []string
	for v := range set {
		vs = append(vs, v)
	}
	sort.Strings(vs)
	if len(vs) == 0 {
		return nil, t.errf(n, "a branch without effect")
	}
	// dry run: the types of the assigned variables at the end of each arm
	merged := smEnv{}
	for _, v := range vs {
		merged[v] = env[v]
		m := merged[v]
		m.opt = false
		merged[v] = m
	}
	save, saveBinds := t.ntmp, t.binds
	for _, a := range arms {
		_, err := t.stmts(a.body, a.env, func(e2 smEnv) ([]string, error) {
			for _, v := range vs {
				if e2[v].opt {
					m := merged[v]
					m.opt = true
					merged[v] = m
				}
			}
			return nil, nil
		})
		if err != nil {
			return nil, err
		}
	}
	t.ntmp, t.binds = save, saveBinds
	var codes [][]string
	for _, a := range arms {
		c, err := t.stmts(a.body, a.env, func(e2 smEnv) ([]string, error) {
			tp, err := t.tuple(n, vs, e2, merged)
			return []string{tp}, err
		})
		if err != nil {
			return nil, err
		}
		codes = append(codes, c)
	}
	env2 := env
	for _, v := range vs {
		env2 = env2.with(v, merged[v])
	}
	lines := []string{"let " + smPattern(vs) + " : " + smTupleTy(vs, merged) + " :="}
	lines = append(lines, smIndent(render(codes), 2)...)
	r, err := t.stmts(rest, env2, k)
	if err != nil {
		return nil, err
	}
	return append(lines, r...), nil
}

func smElse(s *ast.IfStmt) []ast.Stmt {
	switch e := s.Else.(type) {
	case *ast.BlockStmt:
		return e.List
	case *ast.IfStmt:
		return []ast.Stmt{e}
	}
	return nil
}

func (t *smTr) ifStmt(s *ast.IfStmt, rest []ast.Stmt, env smEnv, k smCont) ([]string, error) {
	if s.Init != nil {
		return nil, t.errf(s, "if with an init statement")
	}
	cond := s.Cond
	for {
		p, ok := cond.(*ast.ParenExpr)
		if !ok {
			break
		}
		cond = p.X
	}
	// x == nil / x != nil on a variable: match, the some arm rebinds the non-nil value
	if b, ok := cond.(*ast.BinaryExpr); ok && (b.Op == token.EQL || b.Op == token.NEQ) && (smIsNil(b.X) || smIsNil(b.Y)) {
		o := b.X
		if smIsNil(o) {
			o = b.Y
		}
		if id, ok := o.(*ast.Ident); ok {
			ty, known := env[id.Name]
			if !known || !ty.opt {
				return nil, t.errf(s, "nil test on %s", id.Name)
			}
			nn := ty
			nn.opt = false
			noneArm, someArm := smArm{s.Body.List, env}, smArm{smElse(s), env.with(id.Name, nn)}
			if b.Op == token.NEQ {
				noneArm, someArm = smArm{smElse(s), env}, smArm{s.Body.List, env.with(id.Name, nn)}
			}
			return t.branch(s, []smArm{noneArm, someArm}, func(c [][]string) []string {
				l := []string{"match " + id.Name + " with", "| none =>"}
				l = append(l, smIndent(c[0], 2)...)
				l = append(l, "| some "+id.Name+" =>")
				return append(l, smIndent(c[1], 2)...)
			}, rest, env, k)
		}
	}
	// a call of the callback as the condition: thread the state
	var pre []string
	var c string
	neg := false
	inner := cond
	if u, ok := inner.(*ast.UnaryExpr); ok && u.Op == token.NOT {
		neg, inner = true, u.X
	}
	if call, ok := inner.(*ast.CallExpr); ok && t.f.iterName != "" && smIsIdent(call.Fun, t.f.iterName) {
		cs, ts, err := t.args(call.Args, env)
		if err != nil {
			return nil, err
		}
		if len(cs) != 2 || ts[0].k != smSeg || ts[1].k != smInt {
			return nil, t.errf(call, "arguments of the callback")
		}
		pre = []string{"match " + t.f.iterName + " " + smSt + " " + smAtom(cs[0]) + " " + smAtom(cs[1]) + " with", "| (" + smSt + ", c') =>"}
		c = "c'"
		if neg {
			c = "!c'"
		}
	} else {
		code, ct, err := t.expr(cond, env)
		if err != nil {
			return nil, err
		}
		if ct.k != smBool {
			return nil, t.errf(s, "condition of type %s", ct.lean())
		}
		c = code
	}
	b, err := t.flush(s)
	if err != nil {
		return nil, err
	}
	lines, err := t.branch(s, []smArm{{s.Body.List, env}, {smElse(s), env}}, func(cd [][]string) []string {
		l := []string{"if " + c + " then"}
		l = append(l, smIndent(cd[0], 2)...)
		l = append(l, "else")
		return append(l, smIndent(cd[1], 2)...)
	}, rest, env, k)
	if err != nil {
		return nil, err
	}
	if pre != nil {
		lines = append(pre, smIndent(lines, 2)...)
	}
	return append(b, lines...), nil
}

func (t *smTr) switchStmt(s *ast.SwitchStmt, rest []ast.Stmt, env smEnv, k smCont) ([]string, error) {
	if s.Init != nil || s.Tag == nil {
		return nil, t.errf(s, "switch with an init statement / without a tag")
	}
	tag, tt, err := t.expr(s.Tag, env)
	if err != nil {
		return nil, err
	}
	if tt.k != smInt {
		return nil, t.errf(s, "switch on %s", tt.lean())
	}
	var conds []string
	var arms []smArm
	var dflt *smArm
	for _, cl := range s.Body.List {
		cc := cl.(*ast.CaseClause)
		for _, st := range cc.Body {
			bad := false
			ast.Inspect(st, func(n ast.Node) bool {
				if b, ok := n.(*ast.BranchStmt); ok && (b.Tok == token.BREAK || b.Tok == token.FALLTHROUGH) {
					bad = true
				}
				return true
			})
			if bad {
				return nil, t.errf(st, "break / fallthrough in a switch")
			}
		}
		if cc.List == nil {
			dflt = &smArm{cc.Body, env}
			continue
		}
		var alts []string
		for _, v := range cc.List {
			c, ct, err := t.expr(v, env)
			if err != nil {
				return nil, err
			}
			if ct.k != smInt {
				return nil, t.errf(v, "case of type %s", ct.lean())
			}
			alts = append(alts, "decide ("+tag+" = "+c+")")
		}
		c := alts[0]
		if len(alts) > 1 {
			c = "(" + strings.Join(alts, " || ") + ")"
		}
		conds = append(conds, c)
		arms = append(arms, smArm{cc.Body, env})
	}
	if dflt == nil {
		dflt = &smArm{nil, env}
	}
	arms = append(arms, *dflt)
	b, err := t.flush(s)
	if err != nil {
		return nil, err
	}
	lines, err := t.branch(s, arms, func(cd [][]string) []string {
		var l []string
		for i, c := range conds {
			kw := "if "
			if i > 0 {
				kw = "else if "
			}
			l = append(l, kw+c+" then")
			l = append(l, smIndent(cd[i], 2)...)
		}
		if len(conds) == 0 {
			return cd[0]
		}
		l = append(l, "else")
		return append(l, smIndent(cd[len(conds)], 2)...)
	}, rest, env, k)
	return append(b, lines...), err
}

// switch v := x.(type) { case []byte: … default: … } on an interface{} value
func (t *smTr) typeSwitch(s *ast.TypeSwitchStmt, rest []ast.Stmt, env smEnv, k smCont) ([]string, error) {
	as, ok := s.Assign.(*ast.AssignStmt)
	if s.Init != nil || !ok || len(as.Lhs) != 1 || len(as.Rhs) != 1 {
		return nil, t.errf(s, "type switch (only `switch v := x.(type)`)")
	}
	v, ok1 := as.Lhs[0].(*ast.Ident)
	ta, ok2 := as.Rhs[0].(*ast.TypeAssertExpr)
	if !ok1 || !ok2 || ta.Type != nil {
		return nil, t.errf(s, "type switch")
	}
	if _, dup := env[v.Name]; dup {
		return nil, t.errf(s, "%s shadows a variable", v.Name)
	}
	x, xt, err := t.expr(ta.X, env)
	if err != nil {
		return nil, err
	}
	if xt.k != smIface || !xt.opt {
		return nil, t.errf(s, "type switch on %s", xt.lean())
	}
	var bytesArm, dflt *smArm
	for _, cl := range s.Body.List {
		cc := cl.(*ast.CaseClause)
		switch {
		case cc.List == nil && dflt == nil:
			dflt = &smArm{cc.Body, env}
		case len(cc.List) == 1 && bytesArm == nil:
			ty, ok := t.p.parseType(cc.List[0])
			if !ok || ty.k != smBytes {
				return nil, t.errf(cc, "type switch case (only []byte)")
			}
			bytesArm = &smArm{cc.Body, env.with(v.Name, ty)}
		default:
			return nil, t.errf(cc, "type switch case")
		}
	}
	if bytesArm == nil {
		return nil, t.errf(s, "type switch without a []byte case")
	}
	if dflt == nil {
		dflt = &smArm{nil, env}
	}
	op := t.p.op("dynAsBytes", "X → Option D", "Go: the type test `v.(type) == []byte` on a non-nil interface{} value; none = another dynamic type")
	b, err := t.flush(s)
	if err != nil {
		return nil, err
	}
	lines, err := t.branch(s, []smArm{*bytesArm, *dflt}, func(cd [][]string) []string {
		l := []string{"match " + smAtom(x) + ".bind " + op + " with", "| some " + v.Name + " =>"}
		l = append(l, smIndent(cd[0], 2)...)
		l = append(l, "| none =>")
		return append(l, smIndent(cd[1], 2)...)
	}, rest, env, k)
	return append(b, lines...), err
}

// loop: forRange of the body over `list` (elements named v of type vt)
func (t *smTr) loop(n ast.Node, v string, vt smTy, list string, body []ast.Stmt, bound ast.Expr,
	rest []ast.Stmt, env smEnv, k smCont) ([]string, error) {
	if _, dup := env[v]; dup && v != "_" {
		return nil, t.errf(n, "%s shadows a variable", v)
	}
	pre, err := t.flush(n)
	if err != nil {
		return nil, err
	}
	benv := env
	if v != "_" {
		benv = env.with(v, vt)
	}
	state := t.assigned(body, env)
	for _, sv := range state {
		if bound != nil && smIdents(bound)[sv] {
			return nil, t.errf(n, "the loop body assigns %s, which the loop bound reads", sv)
		}
	}
	raw := map[string]bool{}
	for _, s := range body {
		ast.Inspect(s, func(m ast.Node) bool {
			switch m := m.(type) {
			case *ast.AssignStmt:
				for _, l := range m.Lhs {
					raw[smRoot(l)] = m.Tok != token.DEFINE || raw[smRoot(l)]
				}
			case *ast.IncDecStmt:
				raw[smRoot(m.X)] = true
			}
			return true
		})
	}
	if raw[v] {
		return nil, t.errf(n, "the loop body assigns the loop variable %s", v)
	}
	t.loops = append(t.loops, smLoop{state: state, entry: env})
	bl, err := t.stmts(body, benv, func(e2 smEnv) ([]string, error) {
		st, err := t.tuple(n, state, e2, env)
		return []string{"Flow.next " + st}, err
	})
	t.loops = t.loops[:len(t.loops)-1]
	if err != nil {
		return nil, err
	}
	init, err := t.tuple(n, state, env, env)
	if err != nil {
		return nil, err
	}
	sty := smTupleTy(state, env)
	pat := smPattern(state)
	rho, last := t.retType(), "| Exit.ret r' => r'"
	if !smHasReturn(body) {
		rho, last = "Empty", "| Exit.ret r' => nomatch r'"
	}
	lines := append(pre, "match forRange (σ := "+sty+") (ρ := "+rho+") (fun ("+v+" : "+vt.lean()+") ("+pat+" : "+sty+") =>")
	lines = append(lines, smIndent(bl, 4)...)
	lines[len(lines)-1] += ") " + smAtom(list) + " " + init + " with"
	lines = append(lines, "| Exit.done "+pat+" =>")
	r, err := t.stmts(rest, env, k)
	if err != nil {
		return nil, err
	}
	lines = append(lines, smIndent(r, 2)...)
	return append(lines, last), nil
}

func smHasReturn(list []ast.Stmt) bool {
	found := false
	for _, s := range list {
		ast.Inspect(s, func(n ast.Node) bool {
			if _, ok := n.(*ast.ReturnStmt); ok {
				found = true
			}
			_, lit := n.(*ast.FuncLit)
			return !lit
		})
	}
	return found
}

func (t *smTr) forStmt(s *ast.ForStmt, rest []ast.Stmt, env smEnv, k smCont) ([]string, error) {
	init, ok1 := s.Init.(*ast.AssignStmt)
	cond, ok2 := s.Cond.(*ast.BinaryExpr)
	post, ok3 := s.Post.(*ast.IncDecStmt)
	if !ok1 || !ok2 || !ok3 || init.Tok != token.DEFINE || len(init.Lhs) != 1 || len(init.Rhs) != 1 ||
		cond.Op != token.LSS || post.Tok != token.INC {
		return nil, t.errf(s, "loop (only `for v := lo; v < hi; v++` and `for _, v := range xs`)")
	}
	v, ok := init.Lhs[0].(*ast.Ident)
	if !ok || !smIsIdent(cond.X, v.Name) || !smIsIdent(post.X, v.Name) || smIdents(cond.Y)[v.Name] {
		return nil, t.errf(s, "loop variable")
	}
	lo, lt, err := t.expr(init.Rhs[0], env)
	if err != nil {
		return nil, err
	}
	hi, ht, err := t.expr(cond.Y, env)
	if err != nil {
		return nil, err
	}
	if lt.k != smInt || ht.k != smInt {
		return nil, t.errf(s, "loop bounds of type %s, %s", lt.lean(), ht.lean())
	}
	return t.loop(s, v.Name, smTy{k: smInt}, "intRange "+smAtom(lo)+" "+smAtom(hi), s.Body.List, cond.Y, rest, env, k)
}

func (t *smTr) rangeStmt(s *ast.RangeStmt, rest []ast.Stmt, env smEnv, k smCont) ([]string, error) {
	if s.Tok != token.DEFINE || s.Key == nil {
		return nil, t.errf(s, "range loop (only `for _, v := range xs` / `for i := range xs`)")
	}
	x, xt, err := t.expr(s.X, env)
	if err != nil {
		return nil, err
	}
	if xt.k != smPoints {
		return nil, t.errf(s, "range over %s", xt.lean())
	}
	key, ok := s.Key.(*ast.Ident)
	if !ok {
		return nil, t.errf(s, "range key")
	}
	if s.Value == nil {
		return t.loop(s, key.Name, smTy{k: smInt}, "intRange 0 (Int.ofNat "+smAtom(x)+".length)", s.Body.List, s.X, rest, env, k)
	}
	val, ok := s.Value.(*ast.Ident)
	if !ok || key.Name != "_" {
		return nil, t.errf(s, "range with key and value")
	}
	return t.loop(s, val.Name, smTy{k: smPoint}, x, s.Body.List, s.X, rest, env, k)
}

// ---------------------------------------------------------------------------------------------
// functions

func (p *smPkg) translate(f *smFunc) {
	if f.state != 0 {
		return
	}
	f.state = 1
	err := p.prepare(f)
	var lines []string
	if err == nil {
		lines, err = p.body(f, false)
		if err == nil && lines == nil { // a partial op was met: again, in partial mode
			f.partial = true
			lines, err = p.body(f, true)
		}
	}
	f.state = 2
	if err != nil {
		f.reason = err.Error()
		f.lines = []string{"/- NOT RECOGNISED — Go: `" + p.sig(f) + "` — " + p.at(f.file, f.decl),
			"   reason: " + strings.ReplaceAll(f.reason, "-/", "- /") + " -/",
			"opaque " + f.leanName + "_unrecognised : Unit"}
	} else {
		f.lines = lines
	}
	p.order = append(p.order, f)
}

func (p *smPkg) body(f *smFunc, partial bool) ([]string, error) {
	t := &smTr{p: p, f: f, partial: partial}
	env := smEnv{}
	var binders []string
	if f.iterName != "" {
		binders = append(binders, "{σ : Type}")
	}
	binders = append(binders, "(ops : Ops P B S F X D T Q)")
	if f.recvName != "" {
		ty := smTy{k: smSeries, opt: f.recvOpt}
		env[f.recvName] = ty
		binders = append(binders, "("+f.recvName+" : "+ty.lean()+")")
	}
	for _, pr := range f.params {
		if _, dup := env[pr.name]; dup {
			return nil, t.errf(f.decl, "parameter %s twice", pr.name)
		}
		env[pr.name] = pr.ty
		binders = append(binders, "("+pr.name+" : "+pr.ty.lean()+")")
	}
	if f.iterName != "" {
		env[smSt] = smTy{k: smState}
		binders = append(binders, "("+smSt+" : σ)")
	}
	lines, err := t.stmts(f.decl.Body.List, env, func(e2 smEnv) ([]string, error) {
		if !f.mutator && !f.search {
			return nil, t.errf(f.decl, "the end of the body is reachable without a return")
		}
		return t.ret(&ast.ReturnStmt{Return: f.decl.Body.Rbrace}, e2)
	})
	if err != nil {
		return nil, err
	}
	if t.sawPartial && !partial {
		return nil, nil
	}
	what := ""
	switch {
	case f.mutator:
		what = "; stores through its receiver: returns the updated receiver"
	case f.search:
		what = "; returns the final state of the callback"
	}
	if partial {
		what += "; none = a Go panic in a read of the index bytes"
	}
	head := []string{"/-- Go: `" + p.sig(f) + "` — " + p.at(f.file, f.decl) + what + " -/",
		"def " + f.leanName + " {P B S F X D T Q : Type} " + strings.Join(binders, " ") + " : " + t.retType() + " :="}
	return append(head, smIndent(lines, 2)...), nil
}

// the generated structures, constants and package variables
func (p *smPkg) preamble() ([]string, []string, error) {
	var out, post []string
	t := &smTr{p: p, f: &smFunc{}}
	// IndexKind constants
	if len(p.corder) == 0 {
		return nil, nil, fmt.Errorf("the IndexKind constants (a const block with iota) were not found")
	}
	for _, c := range p.corder {
		out = append(out, fmt.Sprintf("/-- Go: constant `%s` of type IndexKind (iota) — geometry/series.go -/", c),
			fmt.Sprintf("def kind%s : Int := %d", c, p.consts[c]), "")
	}
	// structures
	for _, sn := range []string{"IndexOptions", "baseSeries"} {
		ns, es, fs := p.structFields(sn)
		if ns == nil {
			return nil, nil, fmt.Errorf("struct %s not found", sn)
		}
		lean := "IndexOptions"
		if sn == "baseSeries" {
			lean = "BaseSeries (P B X : Type)"
		}
		out = append(out, fmt.Sprintf("/-- Go: `type %s struct` — %s -/", sn, p.at(p.tfile[sn], p.types[sn])),
			"structure "+lean+" where")
		var zero []string
		for i, n := range ns {
			ty, ok := p.parseType(es[i])
			if !ok {
				return nil, nil, fmt.Errorf("field %s of %s: type outside the subset", n, sn)
			}
			out = append(out, fmt.Sprintf("  /-- Go: field `%s` — %s -/", n, p.at(p.tfile[sn], fs[i])),
				"  "+smLower(n)+" : "+ty.lean())
			zero = append(zero, smLower(n)+" := "+t.zero(ty))
		}
		out = append(out, "")
		if sn == "baseSeries" {
			post = append(post, "/-- Go: the zero value of struct `baseSeries` (`var x baseSeries`) -/",
				"def baseSeriesZero {P B S F X D T Q : Type} (ops : Ops P B S F X D T Q) : "+smSer+" :=",
				"  { "+strings.Join(zero, ", ")+" }", "")
		}
	}
	// package variables of the form  &IndexOptions{…}
	var vnames []string
	for n := range p.vars {
		vnames = append(vnames, n)
	}
	sort.Strings(vnames)
	for _, n := range vnames {
		vs := p.vars[n]
		if len(vs.Names) != 1 || len(vs.Values) != 1 {
			continue
		}
		u, ok := vs.Values[0].(*ast.UnaryExpr)
		if !ok || u.Op != token.AND {
			continue
		}
		cl, ok := u.X.(*ast.CompositeLit)
		if !ok || !smIsIdent(cl.Type, "IndexOptions") {
			continue
		}
		var parts []string
		for _, el := range cl.Elts {
			kv, ok := el.(*ast.KeyValueExpr)
			if !ok {
				return nil, nil, fmt.Errorf("%s: positional struct literal", n)
			}
			key, ok := kv.Key.(*ast.Ident)
			if !ok {
				return nil, nil, fmt.Errorf("%s: struct literal key", n)
			}
			ft, _, ok := p.fieldType("IndexOptions", key.Name)
			c, ct, err := t.expr(kv.Value, smEnv{})
			if err != nil || !ok || ct.k != ft.k {
				return nil, nil, fmt.Errorf("%s: field %s of the struct literal", n, key.Name)
			}
			parts = append(parts, smLower(key.Name)+" := "+c)
		}
		fns, _, _ := p.structFields("IndexOptions")
		if len(parts) != len(fns) {
			return nil, nil, fmt.Errorf("%s: struct literal with omitted fields", n)
		}
		out = append(out, fmt.Sprintf("/-- Go: `var %s = &IndexOptions{…}` — %s -/", n, p.at(p.vfile[n], vs)),
			"def "+smLower(n)+" : IndexOptions := { "+strings.Join(parts, ", ")+" }", "")
	}
	return out, post, nil
}

const smHeader = `/-
  GENERATED FILE — do not edit.  Regenerate with
      cd /verif/translate && go build -o bin/translate . && \\
        ./bin/translate seriesmeth /repo > /verif/lean/GeoModel/Generated/SeriesMethGen.lean

  Syntactic translation (translate/seriesmeth.go) of geometry/series.go: the methods of *baseSeries
  (Empty, Valid, Rect, Convex, Closed, Clockwise, NumPoints, PointAt, NumSegments, SegmentAt, Index,
  clearIndex, setCompressed, buildIndex, Search, Move) and makeSeries.  (processPoints: SeriesGen.)

  Conventions:
    * the Go structs baseSeries and IndexOptions are generated structures (field lists and order from the
      source), the IndexKind constants generated Int definitions (iota), DefaultIndexOptions a definition;
    * every other callee is a field of  ops : Ops P B S F X D T Q  — method T.M as tM, function f as f, a
      field read x.f as tF, a field store v.f = e as tSetF, the zero value as tZero, new(T) as tNew,
      float64 operations as f64Add/…, == on Points as pointEq; P = Point, B = Rect, S = Segment,
      F = float64, X = a non-nil interface{} value, D = []byte, T = *rTree, Q = *qNode; int, byte,
      uint32, IndexKind ↦ Int (conversions are ops toInt/toUint32/toByte); callees are taken to be pure;
      a void method of *rTree / *qNode called as a statement returns the updated receiver;
    * *baseSeries / baseSeries / the interface Series ↦ BaseSeries P B X (the non-nil value; Option when
      the body tests the receiver against nil); interface{} ↦ Option X, *IndexOptions ↦ Option
      IndexOptions (none = nil);  x == nil  on a variable ↦ match, the some arm rebinds the value;
    * []Point ↦ List P: len ↦ length, s[i] ↦ arrAt zero s i and s[i] = e ↦ arrSet (out of range is a Go
      panic: here the zero Point / no change), make ↦ List.replicate, copy ↦ sliceCopy, slices share
      nothing (aliasing between a slice and its copy is not modelled: nothing here writes through one);
    * []byte ↦ D, abstract: READS (b[i], b[lo:], b[lo:hi:max], LittleEndian.Uint32) are partial ops
      (Option, none = Go panic) bound with Option.bind in evaluation order; a function containing one
      returns Option; writes (PutUint32, copy) return the new value;
    * a method that stores through its pointer receiver and returns nothing returns the new receiver;
      v.f = e ↦ { v with f := e }, s[i].f = e ↦ arrSet s i (ops.tSetF (arrAt … s i) e);
    * Search's callback  iter func(seg Segment, idx int) bool  ↦  iter : σ → S → Int → σ × Bool  and a state
      st' : σ threaded through the body (a call of iter is  match iter st' seg i with | (st', c') => …);
      the method returns the final state;  return  inside the loop ↦ Flow.ret;
    * a statement list becomes one expression; an if / switch containing return/break/continue is
      translated in continuation style (the following statements are copied into the arms), any other as
      let (assigned variables) := if … then … else …;  switch on a value ↦ if/else-if chain in source
      order;  switch v := x.(type) with case []byte ↦ match x.bind ops.dynAsBytes;
    * for v := lo; v < hi; v++ ↦ forRange body (intRange lo hi) state;  for _, v := range xs ↦ forRange
      body xs state;  state = the outer variables the body assigns; end / continue ↦ Flow.next,
      break ↦ Flow.brk, return e ↦ Flow.ret e.
  Anything outside the recognised subset appears below as  opaque <name>_unrecognised : Unit.
-/

set_option linter.unusedVariables false

namespace Geo.SMGen

/-- how one pass through a loop body ends -/
inductive Flow (σ ρ : Type) where
  | next (s : σ) : Flow σ ρ
  | brk (s : σ) : Flow σ ρ
  | ret (r : ρ) : Flow σ ρ

/-- how a loop ends: normally (or by break) with the final state, or by return r -/
inductive Exit (σ ρ : Type) where
  | done (s : σ) : Exit σ ρ
  | ret (r : ρ) : Exit σ ρ

/-- a loop over the elements of a list: structural recursion. -/
def forRange {ε σ ρ : Type} (body : ε → σ → Flow σ ρ) : List ε → σ → Exit σ ρ
  | [], s => Exit.done s
  | x :: xs, s =>
    match body x s with
    | Flow.next s' => forRange body xs s'
    | Flow.brk s' => Exit.done s'
    | Flow.ret r => Exit.ret r

/-- the values lo, lo+1, …, hi-1 of a counted loop -/
def intRange (lo hi : Int) : List Int := (List.range (hi - lo).toNat).map (fun k => lo + Int.ofNat k)

/-- s[i] on a slice; zero when out of range (a Go panic) -/
def arrAt {α : Type} (zero : α) (xs : List α) (i : Int) : α :=
  if i < 0 then zero else xs.getD i.toNat zero

/-- s[i] = v on a slice; no change when out of range (a Go panic) -/
def arrSet {α : Type} (xs : List α) (i : Int) (v : α) : List α :=
  if i < 0 then xs else xs.set i.toNat v

/-- copy(dst, src): the first min(len dst, len src) elements of dst are overwritten -/
def sliceCopy {α : Type} (dst src : List α) : List α :=
  (src.take dst.length) ++ dst.drop src.length
`

func translateSeriesMeth(repo string) (string, error) {
	p, err := smLoad(repo)
	if err != nil {
		return "", err
	}
	for _, k := range smTargets {
		if f := p.funcs[k]; f != nil {
			p.translate(f)
		}
	}
	pre, post, err := p.preamble()
	if err != nil {
		return "", err
	}
	var b strings.Builder
	b.WriteString(smHeader)
	b.WriteString("\n")
	for _, l := range pre {
		b.WriteString(l + "\n")
	}
	var names []string
	for n, o := range p.ops {
		if strings.HasPrefix(o.ty, "?conflict") {
			return "", fmt.Errorf("op %s is used at two types: %s", n, o.ty)
		}
		names = append(names, n)
	}
	sort.Strings(names)
	b.WriteString("/-- the callees of the translated functions, one field per distinct callee found in the source -/\n")
	b.WriteString("structure Ops (P B S F X D T Q : Type) where\n")
	if len(names) == 0 {
		b.WriteString("  mk ::\n")
	}
	for _, n := range names {
		o := p.ops[n]
		fmt.Fprintf(&b, "  /-- %s -/\n  %s : %s\n", o.comment, o.name, o.ty)
	}
	b.WriteString("\n")
	for _, l := range post {
		b.WriteString(l + "\n")
	}
	for _, f := range p.order {
		for _, l := range f.lines {
			b.WriteString(strings.TrimRight(l, " ") + "\n")
		}
		b.WriteString("\n")
	}
	for _, k := range smTargets {
		if p.funcs[k] == nil {
			fmt.Fprintf(&b, "/- NOT FOUND in the source: %s -/\nopaque %s_unrecognised : Unit\n\n", k,
				strings.Replace(smLower(k), ".", "_", 1))
		}
	}
	b.WriteString("end Geo.SMGen\n")
	return b.String(), nil
}
