/-
  Property C12, RE-ENCODINGS, `contains`: for a CONVEX receiver (a valid hole-free polygon whose
  exterior ring has the convex flag, or a rectangle) the answer of `Geom.contains` does not
  depend on the encoding of the receiver or of the argument (`RE.Reenc`: other start vertex,
  other direction of traversal, closing vertex repeated / omitted, holes of the argument
  re-encoded or listed in another order, line string reversed).

  * `convex_flag_reenc`          the convex flag of a simple ring is encoding-independent
                                 (rotation / closing vertex: C18; reversal: Reencode/Flags)
  * `convexReceiver_reenc`       `ConvexReceiver` is preserved by re-encoding a valid shape
  * `spec_covers_reenc`          the judge `Spec.covers` is encoding-independent on valid shapes
  * `geom_contains_reenc_convex` the property
  * `geom_contains_reenc_counterexample`  FALSE without convexity (finding
                                 D4D5D13-encoding-dependence): the line string
                                 [(2,12),(4,7),(10,11)] does not "contain"
                                 [(3,8),(9,13),(7,9),(4,7)] but "contains" the same line string
                                 written backwards (neither is covered: the second answer is wrong)

  `build` is the one of GeoProofs.Contains.PolyLine (as in Props/C03Convex.lean).
-/
import GeoProofs.Props.C03Convex
import GeoProofs.Props.C03Spec
import GeoProofs.Reencode.Shape
import GeoProofs.Reencode.Flags
import GeoProofs.Reencode.HoleOrder

namespace Geo
open RE

theorem convex_flag_reenc {r r' : List Pt} (h : RingEq r r') (hs : Spec.simpleRing r = true) :
    (processPoints r'.toArray true).convex = (processPoints r.toArray true).convex :=
  h.cvx_eq hs

theorem convexReceiver_reenc {A A' : Spec.Shape} (h : Reenc A A') (hA : A.valid = true)
    (hc : ConvexReceiver A) : ConvexReceiver A' := by
  have hr := h.rel
  cases A with
  | point p => exact absurd hc id
  | line l => exact absurd hc id
  | rect lo hi => cases A' <;> first | exact absurd hr id | trivial
  | poly e hs =>
    obtain ⟨rfl, hcv⟩ := hc
    cases A' with
    | poly e' hs' =>
      obtain ⟨hre, hlen⟩ := hr
      have hs : Spec.simpleRing e = true := by
        simp only [Spec.Shape.valid, Bool.and_eq_true] at hA
        exact hA.1.1.1
      refine ⟨List.length_eq_zero_iff.1 hlen.symm, ?_⟩
      rw [convex_flag_reenc hre hs]; exact hcv
    | point p => exact absurd hr id
    | rect lo hi => exact absurd hr id
    | line l => exact absurd hr id

theorem spec_covers_reenc (A A' B B' : Spec.Shape) (hA : A.valid = true) (hB : B.valid = true)
    (ha : Reenc A A') (hb : Reenc B B') : Spec.covers A B = Spec.covers A' B' := by
  have hA' : A'.valid = true := by rw [ha.valid_eq]; exact hA
  have hB' : B'.valid = true := by rw [hb.valid_eq]; exact hB
  rw [Bool.eq_iff_iff, spec_covers_iff A B hA hB, spec_covers_iff A' B' hA' hB']
  simp only [Covers, ha.member_eq, hb.member_eq]

/-- **`contains` with a convex receiver does not depend on the encoding of either operand** -/
theorem geom_contains_reenc_convex (A A' B B' : Spec.Shape) (hA : A.valid = true)
    (hB : B.valid = true) (hc : ConvexReceiver A) (ha : Reenc A A') (hb : Reenc B B') :
    (build A).contains (build B) = (build A').contains (build B') := by
  have hA' : A'.valid = true := by rw [ha.valid_eq]; exact hA
  have hB' : B'.valid = true := by rw [hb.valid_eq]; exact hB
  rw [contains_exact_convex_receivers A B hA hB hc,
    contains_exact_convex_receivers A' B' hA' hB' (convexReceiver_reenc ha hA hc)]
  exact spec_covers_reenc A A' B B' hA hB ha hb

/-! ### false without convexity -/

def reencL1 : List Pt := [⟨2,12⟩, ⟨4,7⟩, ⟨10,11⟩]
def reencL2 : List Pt := [⟨3,8⟩, ⟨9,13⟩, ⟨7,9⟩, ⟨4,7⟩]

theorem geom_contains_reenc_counterexample :
    (Spec.Shape.line reencL1).valid = true ∧ (Spec.Shape.line reencL2).valid = true ∧
    Reenc (.line reencL2) (.line reencL2.reverse) ∧
    (build (.line reencL1)).contains (build (.line reencL2)) = false ∧
    (build (.line reencL1)).contains (build (.line reencL2.reverse)) = true ∧
    Spec.covers (.line reencL1) (.line reencL2) = false := by
  refine ⟨by decide +kernel, by decide +kernel, Reenc.line _, by decide +kernel, by decide +kernel,
    by decide +kernel⟩

/-- a simple concave ring (finding D19): the square `[0,20]²` minus a four-pointed star with a
    channel to the outside -/
def reencStar : List Pt :=
  [⟨0,0⟩,⟨20,0⟩,⟨20,8⟩,⟨12,8⟩,⟨10,2⟩,⟨8,8⟩,⟨2,10⟩,⟨8,12⟩,⟨10,18⟩,⟨12,12⟩,⟨20,12⟩,⟨20,20⟩,⟨0,20⟩,⟨0,0⟩]

/-- a diamond inscribed in `[8,12]²` (inside the star, i.e. OUTSIDE the ring), 15 vertices,
    closing vertex omitted -/
def reencD15 : List Pt :=
  [⟨10,8⟩,⟨21/2,17/2⟩,⟨11,9⟩,⟨23/2,19/2⟩,⟨12,10⟩,⟨23/2,21/2⟩,⟨11,11⟩,⟨21/2,23/2⟩,⟨10,12⟩,
   ⟨19/2,23/2⟩,⟨9,11⟩,⟨17/2,21/2⟩,⟨8,10⟩,⟨17/2,19/2⟩,⟨9,9⟩]

/-- polygon receiver (concave, no holes), polygon argument: repeating the omitted closing vertex
    of the ARGUMENT takes it from 15 to 16 points, which switches on the bounding-rectangle
    shortcut of `ringContainsRing` (finding D19) and flips the answer from `false` (right) to
    `true` (wrong) -/
theorem geom_contains_reenc_counterexample_poly :
    (Spec.Shape.poly reencStar []).valid = true ∧ (Spec.Shape.poly reencD15 []).valid = true ∧
    Reenc (.poly reencD15 []) (.poly (reencD15 ++ [reencD15.head!]) []) ∧
    (build (.poly reencStar [])).contains (build (.poly reencD15 [])) = false ∧
    (build (.poly reencStar [])).contains (build (.poly (reencD15 ++ [reencD15.head!]) [])) = true ∧
    Spec.covers (.poly reencStar []) (.poly reencD15 []) = false := by
  refine ⟨by decide +kernel, by decide +kernel,
    Reenc.ext [] (RingEq.close reencD15 (by decide) (by decide +kernel)), by decide +kernel,
    by decide +kernel, by decide +kernel⟩

/-! ### the order of the holes never matters (any receiver, concave ones and holes included) -/

theorem geom_contains_hole_order (e : List Pt) (hs hs' : List (List Pt)) (hp : hs.Perm hs')
    (B : Spec.Shape) :
    (build (.poly e hs)).contains (build B) = (build (.poly e hs')).contains (build B) ∧
    (build B).contains (build (.poly e hs)) = (build B).contains (build (.poly e hs')) :=
  ⟨geom_contains_holes_perm_left (hp.map _) _, geom_contains_holes_perm_right (hp.map _) _⟩

end Geo

#print axioms Geo.convex_flag_reenc
#print axioms Geo.convexReceiver_reenc
#print axioms Geo.spec_covers_reenc
#print axioms Geo.geom_contains_reenc_convex
#print axioms Geo.geom_contains_reenc_counterexample
#print axioms Geo.geom_contains_reenc_counterexample_poly
#print axioms Geo.geom_contains_hole_order
