/-
  Property C02 (intersects) — the parts that are exact.

  PROVED
  * Rect × Rect: `rect_intersects_rect_iff` (⇔ a common point, for well-formed rectangles; the
    direction "common point ⇒ intersects" needs no hypothesis), `rect_intersects_symm`.
  * Line × Line (un-indexed series whose rectangle is the one of `processPoints`, i.e. built by
    `mkSeries … .none _` / `mkSeries … _ 0`: predicate `GL.Plain`): `lineIntersectsLine_iff`
    (⇔ some segment of one meets some segment of the other, `SegsMeet` = share a point),
    `lineIntersectsLine_symm`.
  * Point receiver / argument: `point_intersects_iff` (the four equations),
    `point_intersects_line_iff` (exact: the point is on some segment),
    `geom_intersects_symm_pointrect`.
  * `geom_intersects_dispatch_symm`: Line×Poly, Rect×Line, Rect×Poly — the two argument orders
    run THE SAME computation; `geom_intersects_symm_partial`: symmetry of `Geom.intersects` on
    every pair of kinds except Poly × Poly (lines `Plain`).
  * ring × segment, soundness of `true`: `ringIntersectsSegment_sound` — a `true` answer
    always exhibits a point of the segment lying in the closed region of the ring (membership of
    the accepted endpoint is taken from the C01 characterisation as hypothesis `hmem`).
    Lifted to ring × line string and ring × ring: `ringIntersectsLine_sound`,
    `ringIntersectsRing_sound`.

  NOT PROVED (out of scope): completeness of the `false` answers of ring × segment
  (`ringIntersectsSegment = false → no common point`), and therefore the exactness of
  Ring×Ring, Ring×Line, Poly×anything beyond the dispatch facts: a segment with both endpoints
  outside that has no common point with the boundary misses the region — a discrete Jordan-curve
  statement.  Symmetry of Poly × Poly (depends on it as well).
-/
import GeoProofs.GeomLemmas

namespace Geo
open GL

/-! ## Rect × Rect -/

theorem rect_intersects_rect_iff (r o : Box)
    (hr : r.min.x ≤ r.max.x ∧ r.min.y ≤ r.max.y) (ho : o.min.x ≤ o.max.x ∧ o.min.y ≤ o.max.y) :
    r.intersects o = true ↔ ∃ p : Pt, r.containsPt p = true ∧ o.containsPt p = true := by
  constructor
  · intro h
    rw [intersects_iff] at h
    obtain ⟨h1, h2, h3, h4⟩ := h
    refine ⟨⟨max r.min.x o.min.x, max r.min.y o.min.y⟩, ?_, ?_⟩
    · rw [containsPt_iff]
      exact ⟨le_max_left _ _, max_le hr.1 h4, le_max_left _ _, max_le hr.2 h2⟩
    · rw [containsPt_iff]
      exact ⟨le_max_right _ _, max_le h3 ho.1, le_max_right _ _, max_le h1 ho.2⟩
  · rintro ⟨p, h1, h2⟩
    exact intersects_of_common r o p h1 h2

/-- the well-formedness hypothesis cannot be dropped -/
theorem rect_intersects_rect_illformed :
    (Box.mk ⟨2, 2⟩ ⟨1, 1⟩).intersects (Box.mk ⟨0, 0⟩ ⟨3, 3⟩) = true ∧
    ¬ ∃ p : Pt, (Box.mk ⟨2, 2⟩ ⟨1, 1⟩).containsPt p = true ∧ (Box.mk ⟨0, 0⟩ ⟨3, 3⟩).containsPt p = true := by
  refine ⟨by decide +kernel, ?_⟩
  rintro ⟨p, h, -⟩
  rw [containsPt_iff] at h
  obtain ⟨a1, a2, -, -⟩ := h
  simp only at a1 a2
  linarith

theorem rect_intersects_symm (r o : Box) : r.intersects o = o.intersects r := by
  rw [Bool.eq_iff_iff, intersects_iff, intersects_iff]
  constructor <;> rintro ⟨a, b, c, d⟩ <;> exact ⟨b, a, d, c⟩

/-! ## Line × Line -/

theorem lineIntersectsLine_iff (l m : Line) (hl : Plain l) (hm : Plain m) :
    l.intersectsLine m = true ↔
      ∃ i, i < l.numSegments ∧ ∃ j, j < m.numSegments ∧
        SegsMeet (l.segmentAt i).a (l.segmentAt i).b (m.segmentAt j).a (m.segmentAt j).b :=
  line_meet_iff l m hl hm

theorem lineIntersectsLine_symm (l m : Line) (hl : Plain l) (hm : Plain m) :
    l.intersectsLine m = m.intersectsLine l := by
  rw [Bool.eq_iff_iff, lineIntersectsLine_iff l m hl hm, lineIntersectsLine_iff m l hm hl]
  constructor
  · rintro ⟨i, hi, j, hj, h⟩
    exact ⟨j, hj, i, hi, (K.segsMeet_symm _ _ _ _).1 h⟩
  · rintro ⟨j, hj, i, hi, h⟩
    exact ⟨i, hi, j, hj, (K.segsMeet_symm _ _ _ _).1 h⟩

/-- instance for series built by `mkSeries` without index -/
theorem lineIntersectsLine_iff_mk (p q : Array Pt) :
    Line.intersectsLine (mkSeries p false .none 0) (mkSeries q false .none 0) = true ↔
      ∃ i, i < (mkSeries p false .none 0).numSegments ∧ ∃ j, j < (mkSeries q false .none 0).numSegments ∧
        SegsMeet ((mkSeries p false .none 0).segmentAt i).a ((mkSeries p false .none 0).segmentAt i).b
          ((mkSeries q false .none 0).segmentAt j).a ((mkSeries q false .none 0).segmentAt j).b :=
  lineIntersectsLine_iff _ _ (mkSeries_plain _ _ _) (mkSeries_plain _ _ _)

/-! ## Point -/

theorem point_intersects_iff (p : Pt) :
    (∀ q : Pt, (Geom.point p).intersects (.point q) = decide (p = q)) ∧
    (∀ r : Box, (Geom.point p).intersects (.rect r) = r.containsPt p) ∧
    (∀ l : Line, (Geom.point p).intersects (.line l) = l.containsPoint p) ∧
    (∀ poly : Poly, (Geom.point p).intersects (.poly poly) = poly.containsPoint p) :=
  ⟨fun _ => rfl, fun _ => rfl, fun _ => rfl, fun _ => rfl⟩

/-- Point × Line (either order) is exact: the point lies on some segment -/
theorem point_intersects_line_iff (p : Pt) (l : Line) (hidx : l.index = none) :
    ((Geom.point p).intersects (.line l) = true ↔
      ∃ i, i < l.numSegments ∧ OnSeg (l.segmentAt i).a (l.segmentAt i).b p) ∧
    (Geom.line l).intersects (.point p) = (Geom.point p).intersects (.line l) :=
  ⟨line_containsPoint_iff l hidx p, rfl⟩

/-- Point × Rect is the specification's membership -/
theorem point_intersects_rect_spec (p : Pt) (r : Box) :
    (Geom.point p).intersects (.rect r) = (Spec.Shape.rect r.min r.max).member p := by
  simp only [Geom.intersects, Pt.intersectsRect, Box.containsPt, Spec.Shape.member, ge_iff_le]

def Geom.isPoint : Geom → Bool | .point _ => true | _ => false
def Geom.isRect : Geom → Bool | .rect _ => true | _ => false
def Geom.isPoly : Geom → Bool | .poly _ => true | _ => false

theorem geom_intersects_symm_pointrect (a b : Geom)
    (h : a.isPoint = true ∨ b.isPoint = true ∨ (a.isRect = true ∧ b.isRect = true)) :
    a.intersects b = b.intersects a := by
  cases a <;> cases b <;> simp only [Geom.isPoint, Geom.isRect, Bool.false_eq_true, or_self,
    and_self, and_false, false_and, or_false, false_or] at h <;>
    first
      | rfl
      | (simp only [Geom.intersects]; rw [Bool.eq_iff_iff, decide_eq_true_eq, decide_eq_true_eq]; exact eq_comm)
      | exact rect_intersects_symm _ _

theorem geom_intersects_dispatch_symm (r : Box) (l : Line) (p : Poly) :
    (Geom.line l).intersects (.poly p) = (Geom.poly p).intersects (.line l) ∧
    (Geom.rect r).intersects (.line l) = (Geom.line l).intersects (.rect r) ∧
    (Geom.rect r).intersects (.poly p) = (Geom.poly p).intersects (.rect r) :=
  ⟨rfl, rfl, rfl⟩

/-- every line component is un-indexed with the `processPoints` rectangle -/
def Geom.PlainLine : Geom → Prop
  | .line l => Plain l
  | _ => True

/-- `Geom.intersects` is symmetric on every pair of kinds except Poly × Poly -/
theorem geom_intersects_symm_partial (a b : Geom) (ha : a.PlainLine) (hb : b.PlainLine)
    (h : ¬ (a.isPoly = true ∧ b.isPoly = true)) : a.intersects b = b.intersects a := by
  cases a <;> cases b <;> simp only [Geom.isPoly, and_self, not_true_eq_false] at h <;>
    first
      | rfl
      | (simp only [Geom.intersects]; rw [Bool.eq_iff_iff, decide_eq_true_eq, decide_eq_true_eq]; exact eq_comm)
      | exact rect_intersects_symm _ _
      | exact lineIntersectsLine_symm _ _ ha hb

/-! ## ring × segment: a `true` answer exhibits a common point -/

/-- `s` any un-indexed series used as a ring; `hmem` is the soundness half of the C01
    characterisation of `ringContainsPoint` (proved in Props/C01.lean). -/
theorem ringIntersectsSegment_sound (s : Series) (hidx : s.index = none) (seg : Seg)
    (allowOnEdge : Bool)
    (hmem : ∀ p, (ringContainsPoint (.ser s) p allowOnEdge).hit = true →
      Spec.inRing (Spec.edges s.pts.toList s.closed) p = true) :
    ringIntersectsSegment (.ser s) seg allowOnEdge = true →
      ∃ p, OnSeg seg.a seg.b p ∧ Spec.inRing (Spec.edges s.pts.toList s.closed) p = true := by
  unfold ringIntersectsSegment ringIntersectsSegmentS
  by_cases h1 : (!seg.box.intersects (Ring.ser s).rect) = true
  · rw [if_pos h1]; intro h; cases h
  rw [if_neg h1]
  by_cases h2 : (ringContainsPoint (.ser s) seg.a allowOnEdge).hit = true
  · rw [if_pos h2]; intro _; exact ⟨seg.a, K.onSeg_left _ _, hmem _ h2⟩
  rw [if_neg h2]
  by_cases h3 : (ringContainsPoint (.ser s) seg.b allowOnEdge).hit = true
  · rw [if_pos h3]; intro _; exact ⟨seg.b, K.onSeg_right _ _, hmem _ h3⟩
  rw [if_neg h3]
  · simp only [decide_eq_true_eq]
    rw [ring_search_eq (.ser s) hidx]
    intro hc
    by_contra hne
    have hno : ∀ i ∈ visit (Ring.ser s).numSegments (Ring.ser s).segmentAt seg.box,
        seg.intersects ((Ring.ser s).segmentAt i) = false := by
      intro i hi
      cases hx : seg.intersects ((Ring.ser s).segmentAt i) with
      | false => rfl
      | true =>
        exfalso
        apply hne
        obtain ⟨p, hp1, hp2⟩ := (segIntersects_iff _ _).1 hx
        exact ⟨p, hp1, inRing_of_onEdge s i (mem_visit.1 hi).1 p hp2⟩
    rw [foldUntil_const _ _ (fun i hi st => by simp only [hno i hi, Bool.false_eq_true, if_false])] at hc
    simp only at hc
    omega

/-- the statement for a closed ring built by `mkSeries` without index -/
theorem ringIntersectsSegment_sound_mk (pts : Array Pt) (seg : Seg)
    (hmem : ∀ p, (ringContainsPoint (.ser (mkSeries pts true .none 0)) p true).hit = true ↔
      Spec.inRing (Spec.edges pts.toList true) p = true) :
    ringIntersectsSegment (.ser (mkSeries pts true .none 0)) seg true = true →
      ∃ p, OnSeg seg.a seg.b p ∧ Spec.inRing (Spec.edges pts.toList true) p = true :=
  ringIntersectsSegment_sound (mkSeries pts true .none 0) (mkSeries_plain pts true 0).1 seg true
    (fun p h => (hmem p).1 h)

/-! ## ring × line, ring × ring: a `true` answer exhibits a common point -/

/-- every vertex of a non-empty series is an endpoint of one of its segments -/
theorem vertex_on_segment (s : Series) (he : s.empty = false) (j : Nat) (hj : j < s.pts.size) :
    ∃ i, i < s.numSegments ∧ OnSeg (s.segmentAt i).a (s.segmentAt i).b s.pts[j]! := by
  have hn : s.numSegments = numSegmentsOf s.pts s.closed := rfl
  unfold Series.empty at he
  by_cases hlt : j < s.numSegments
  · refine ⟨j, hlt, ?_⟩
    have : (s.segmentAt j).a = s.pts[j]! := rfl
    rw [← this]; exact K.onSeg_left _ _
  · -- j is the last vertex
    unfold numSegmentsOf at hn
    cases hc : s.closed with
    | false =>
      rw [hc] at hn he
      simp only [Bool.false_eq_true, if_false, Bool.false_and, Bool.false_or, decide_eq_false_iff_not,
        not_lt] at hn he
      rw [if_neg (by omega)] at hn
      refine ⟨s.pts.size - 2, by omega, ?_⟩
      have : (s.segmentAt (s.pts.size - 2)).b = s.pts[j]! := by
        show (segmentAtOf s.pts (s.pts.size - 2)).b = _
        unfold segmentAtOf
        simp only
        rw [if_neg (by simp; omega)]
        congr 1; omega
      rw [← this]; exact K.onSeg_right _ _
    | true =>
      rw [hc] at hn he
      simp only [if_true, Bool.true_and, Bool.or_eq_false_iff, decide_eq_false_iff_not, not_lt] at hn he
      rw [if_neg (by omega)] at hn
      split_ifs at hn with h1
      · -- closing vertex repeated: the last vertex is the first one
        have hj' : j = s.pts.size - 1 := by omega
        refine ⟨0, by omega, ?_⟩
        have : (s.segmentAt 0).a = s.pts[j]! := by
          show s.pts[0]! = _
          rw [hj']; exact (beq_iff_eq.1 h1).symm
        rw [← this]; exact K.onSeg_left _ _
      · omega

/-- ring × line string: a `true` answer exhibits a point of the line in the closed region -/
theorem ringIntersectsLine_sound (s : Series) (hidx : s.index = none) (l : Line) (b : Bool)
    (hmem : ∀ p, (ringContainsPoint (.ser s) p b).hit = true →
      Spec.inRing (Spec.edges s.pts.toList s.closed) p = true) :
    ringIntersectsLine (.ser s) l b = true →
      ∃ p, (∃ i, i < l.numSegments ∧ OnSeg (l.segmentAt i).a (l.segmentAt i).b p) ∧
        Spec.inRing (Spec.edges s.pts.toList s.closed) p = true := by
  unfold ringIntersectsLine
  by_cases h1 : ((Ring.ser s).empty || l.empty) = true
  · rw [if_pos h1]; intro h; cases h
  rw [if_neg h1]
  by_cases h2 : (!(Ring.ser s).rect.intersects l.rect) = true
  · rw [if_pos h2]; intro h; cases h
  rw [if_neg h2]
  have hle : l.empty = false := by
    cases h : l.empty with
    | false => rfl
    | true => simp [h] at h1
  by_cases h3 : (List.range l.numPoints).any (fun i => (ringContainsPoint (.ser s) l.pts[i]! b).hit) = true
  · rw [if_pos h3]
    intro _
    rw [List.any_eq_true] at h3
    obtain ⟨j, hj, hhit⟩ := h3
    exact ⟨l.pts[j]!, vertex_on_segment l hle j (List.mem_range.1 hj), hmem _ hhit⟩
  · rw [if_neg h3, List.any_eq_true]
    rintro ⟨i, hi, hx⟩
    obtain ⟨p, hp, hin⟩ := ringIntersectsSegment_sound s hidx (l.segmentAt i) b hmem hx
    exact ⟨p, ⟨i, List.mem_range.1 hi, hp⟩, hin⟩

/-- ring × ring: a `true` answer exhibits a boundary point of one ring in the closed region of the
    other (which one depends on the rectangle areas) -/
theorem ringIntersectsRing_sound (s t : Series) (hs : s.index = none) (ht : t.index = none) (b : Bool)
    (hmemS : ∀ p, (ringContainsPoint (.ser s) p b).hit = true →
      Spec.inRing (Spec.edges s.pts.toList s.closed) p = true)
    (hmemT : ∀ p, (ringContainsPoint (.ser t) p b).hit = true →
      Spec.inRing (Spec.edges t.pts.toList t.closed) p = true) :
    ringIntersectsRing (.ser s) (.ser t) b = true →
      (∃ p, (∃ i, i < t.numSegments ∧ OnSeg (t.segmentAt i).a (t.segmentAt i).b p) ∧
        Spec.inRing (Spec.edges s.pts.toList s.closed) p = true) ∨
      (∃ p, (∃ i, i < s.numSegments ∧ OnSeg (s.segmentAt i).a (s.segmentAt i).b p) ∧
        Spec.inRing (Spec.edges t.pts.toList t.closed) p = true) := by
  unfold ringIntersectsRing
  by_cases h1 : ((Ring.ser s).empty || (Ring.ser t).empty) = true
  · rw [if_pos h1]; intro h; cases h
  rw [if_neg h1]
  by_cases h2 : (!(Ring.ser s).rect.intersects (Ring.ser t).rect) = true
  · rw [if_pos h2]; intro h; cases h
  rw [if_neg h2]
  by_cases hg : (Ring.ser t).rect.area > (Ring.ser s).rect.area
  · simp only [hg, if_true]
    rw [List.any_eq_true]
    rintro ⟨i, hi, hx⟩
    obtain ⟨p, hp, hin⟩ := ringIntersectsSegment_sound t ht ((Ring.ser s).segmentAt i) b hmemT hx
    exact Or.inr ⟨p, ⟨i, List.mem_range.1 hi, hp⟩, hin⟩
  · simp only [hg, if_false]
    rw [List.any_eq_true]
    rintro ⟨i, hi, hx⟩
    obtain ⟨p, hp, hin⟩ := ringIntersectsSegment_sound s hs ((Ring.ser t).segmentAt i) b hmemS hx
    exact Or.inl ⟨p, ⟨i, List.mem_range.1 hi, hp⟩, hin⟩

end Geo

#print axioms Geo.rect_intersects_rect_iff
#print axioms Geo.rect_intersects_rect_illformed
#print axioms Geo.rect_intersects_symm
#print axioms Geo.lineIntersectsLine_iff
#print axioms Geo.lineIntersectsLine_symm
#print axioms Geo.lineIntersectsLine_iff_mk
#print axioms Geo.point_intersects_iff
#print axioms Geo.point_intersects_line_iff
#print axioms Geo.point_intersects_rect_spec
#print axioms Geo.geom_intersects_symm_pointrect
#print axioms Geo.geom_intersects_dispatch_symm
#print axioms Geo.geom_intersects_symm_partial
#print axioms Geo.ringIntersectsSegment_sound
#print axioms Geo.ringIntersectsSegment_sound_mk
#print axioms Geo.vertex_on_segment
#print axioms Geo.ringIntersectsLine_sound
#print axioms Geo.ringIntersectsRing_sound
