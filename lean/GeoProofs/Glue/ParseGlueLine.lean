/-
  GeoProofs.Glue.ParseGlueLine — generated parseJSONLineStringCoords = the model's parseLineCoords.
-/
import GeoProofs.Glue.ParseGluePoint2

set_option linter.unusedSimpArgs false

namespace Geo.PGlue
open Geo Geo.PGen

theorem numFoldR (a : Bool) (xs : List RPair) :
    match takeMF a xs 0 with
    | some os => searchFold (numStep a) xs (none, 0, [mfInt 0, mfInt 0, mfInt 0, mfInt 0]) = (none, (os.length : Int), pad os) ∧ os.length ≤ 4
    | none => (searchFold (numStep a) xs (none, 0, [mfInt 0, mfInt 0, mfInt 0, mfInt 0])).1 = some PGen.Err.errCoordinatesInvalid :=
  numFold0 a (numStep a) xs _ rfl (fun _ _ => rfl)

/-- the loop `for i := 0; i < dims; i++ { ex.values = append(ex.values, nums[2+i]) }` -/
theorem valuesLoop (rec : RecT) (nums : List MF) : ∀ (ks : List Nat) (e : GExtra),
    forRange (PGen.parseJSONLineStringCoords_body2 (mops rec) nums) (ks.map (fun k => (0 : Int) + Int.ofNat k)) (some e) =
      Exit.done (some { e with values := e.values ++ ks.map (fun (i : Nat) => arrAt (mfInt 0) nums (2 + (0 + Int.ofNat i))) }) := by
  intro ks
  induction ks with
  | nil => intro e; simp [forRange]
  | cons k ks ih =>
    intro e
    simp only [List.map_cons, forRange]
    unfold PGen.parseJSONLineStringCoords_body2
    simp only [m_zeroExtra, deref_some, m_f64OfInt]
    have := ih { e with values := e.values ++ [arrAt (mfInt 0) nums (2 + (0 + Int.ofNat k))] }
    unfold PGen.parseJSONLineStringCoords_body2 at this
    simp only [m_zeroExtra, deref_some, m_f64OfInt] at this
    rw [this]
    simp

/-- the state of the generated loop against the model's -/
structure RelL (coords : List FP) (ex : Option GExtra) (dims : Int) (acc : List Pos) (st : DimSt) : Prop where
  acc_eq : acc = coords.map toPos
  ex_eq : st.ex = ex.map exM
  dims_eq : dims = (st.dims : Int)

/-- one pass of the model's parseLineCoordsLoop -/
def mLineStep (v : JVal) (acc : List Pos) (st : DimSt) : Except PErr (List Pos × DimSt) := do
  if !v.isArray then throw .coordsInvalid
  let nums ← takeNums false v.elems 0
  match nums with
  | x :: y :: _ =>
    let acc' := acc ++ [mkPos x y]
    let st' ← dimStep st nums (acc'.length == 1)
    pure (acc', st')
  | _ => throw .coordsInvalid

theorem lineLoop_cons (v : JVal) (vs : List JVal) (acc : List Pos) (st : DimSt) :
    parseLineCoordsLoop (v :: vs) acc st =
      match mLineStep v acc st with
      | .ok (a, s) => parseLineCoordsLoop vs a s
      | .error e => .error e := by
  rw [parseLineCoordsLoop]
  unfold mLineStep
  cases hv : v.isArray
  · simp [bind, Except.bind, throw, throwThe, MonadExceptOf.throw, pure, Except.pure]
  · simp only [Bool.not_true, Bool.false_eq_true, if_false, bind, Except.bind, pure, Except.pure]
    cases takeNums false v.elems 0 with
    | error e => simp
    | ok nums =>
      simp only
      rcases nums with _ | ⟨x, _ | ⟨y, r⟩⟩
      · simp [throw, throwThe, MonadExceptOf.throw]
      · simp [throw, throwThe, MonadExceptOf.throw]
      · simp only
        cases dimStep st (x :: y :: r) ((acc ++ [mkPos x y]).length == 1) <;> simp

theorem intRange_zero (n : Nat) : intRange 0 (n : Int) = (List.range n).map (fun k => (0 : Int) + Int.ofNat k) := by
  simp [intRange]

theorem canon_at (os : List MF) (hlen : os.length ≤ 4) (i : Nat) :
    (arrAt (mfInt 0) (pad os) (2 + (0 + Int.ofNat i))).canon =
      match (os.map MF.ord)[2 + i]? with
      | some o => o.canon
      | none => "0" := by
  have h0 : ¬ ((2 : Int) + (0 + Int.ofNat i) < 0) := by simp; omega
  have h1 : ((2 : Int) + (0 + Int.ofNat i)).toNat = 2 + i := by simp; omega
  unfold arrAt
  rw [if_neg h0, h1]
  have hz : (Int.repr 0) = "0" := by decide
  rcases i with _ | _ | i
  · rcases os with _ | ⟨a, _ | ⟨b, _ | ⟨c, _ | ⟨d, _ | ⟨e, t⟩⟩⟩⟩⟩ <;> simp [pad, zf, mfInt, MF.ord, hz] at hlen ⊢
  · rcases os with _ | ⟨a, _ | ⟨b, _ | ⟨c, _ | ⟨d, _ | ⟨e, t⟩⟩⟩⟩⟩ <;> simp [pad, zf, mfInt, MF.ord, hz] at hlen ⊢
  · have h4 : 2 + (i + 1 + 1) = i + 4 := by omega
    rw [h4]
    rcases os with _ | ⟨a, _ | ⟨b, _ | ⟨c, _ | ⟨d, _ | ⟨e, t⟩⟩⟩⟩⟩ <;> simp [pad, zf, mfInt, MF.ord, hz] at hlen ⊢

end Geo.PGlue
