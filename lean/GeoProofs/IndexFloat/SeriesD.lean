/-
  GeoProofs.IndexFloat.SeriesD — C04 at series level for series of FINITE-DOUBLE points, with the
  index built and searched in binary64 arithmetic (`Carrier Dbl`, codec `encD/decD`).

  The segment boxes and the series rectangle are computed by comparisons only (series.go
  processPoints, Segment.Rect), so on doubles they are the values of the rational model
  `GeoModel/Series.lean` (cf. `sgen_processPoints_rect`: all finite inputs); only the index
  construction (midpoints, areas, enlargements) rounds, and that is run here at `Dbl`.
-/
import GeoProofs.IndexFloat.GSeries
import GeoProofs.IndexFloat.Codec
import GeoProofs.SeriesSearchR

namespace Geo.DF
open Geo Geo.F

/-- the rational box of a box of doubles -/
def valBox (b : GBox Dbl) : GBox Rat := ⟨b.minx.val, b.miny.val, b.maxx.val, b.maxy.val⟩

/-- a rational box as a box of doubles (the identity when the coordinates are doubles) -/
def liftBox (b : GBox Rat) : GBox Dbl :=
  ⟨Dbl.round b.minx, Dbl.round b.miny, Dbl.round b.maxx, Dbl.round b.maxy⟩

/-- a query rectangle of doubles as a `Box` of the rational model -/
def toBox (q : GBox Dbl) : Box := ⟨⟨q.minx.val, q.miny.val⟩, ⟨q.maxx.val, q.maxy.val⟩⟩

theorem toBox_g (q : GBox Dbl) : (toBox q).g = valBox q := by rfl

theorem valBox_liftBox {b : GBox Rat} (h : b.Good F64) : valBox (liftBox b) = b := by
  obtain ⟨h1, h2, h3, h4⟩ := h
  cases b
  simp only [valBox, liftBox, Dbl.round_val]
  rw [rs_of_F64 h1, rs_of_F64 h2, rs_of_F64 h3, rs_of_F64 h4]

theorem meets_val (r o : GBox Dbl) : r.meets o = (valBox r).meets (valBox o) := by rfl

theorem subset_val (r o : GBox Dbl) : r ⊆ o ↔ valBox r ⊆ valBox o := Iff.rfl

/-- points with double coordinates, as points of the rational model -/
def toPts (dpts : Array (Dbl × Dbl)) : Array Pt := dpts.map (fun p => ⟨p.1.val, p.2.val⟩)

theorem toPts_F64 (dpts : Array (Dbl × Dbl)) : ∀ p ∈ (toPts dpts).toList, F64 p.x ∧ F64 p.y := by
  intro p hp
  unfold toPts at hp
  rw [Array.toList_map, List.mem_map] at hp
  obtain ⟨d, _, rfl⟩ := hp
  exact ⟨d.1.isF64, d.2.isF64⟩

/-- box of segment `i`, as doubles -/
def segBoxD (dpts : Array (Dbl × Dbl)) (i : Nat) : GBox Dbl :=
  liftBox (segmentAtOf (toPts dpts) i).box.g

/-- the series rectangle, as doubles -/
def rectD (dpts : Array (Dbl × Dbl)) (closed : Bool) : GBox Dbl :=
  liftBox (processPoints (toPts dpts) closed).rect.g

/-- `mkSeries` on double points with the index built in binary64 -/
def mkSeriesD (dpts : Array (Dbl × Dbl)) (closed : Bool) (kind : IndexKind) (minPoints : Nat) :
    GSeries Dbl :=
  mkG encD dpts.size (numSegmentsOf (toPts dpts) closed) (segBoxD dpts) (rectD dpts closed)
    kind minPoints

def qBytesD (dpts : Array (Dbl × Dbl)) (closed : Bool) : Array Nat :=
  qCompress (qBuild (segBoxD dpts) (rectD dpts closed) (numSegmentsOf (toPts dpts) closed))
    #[2, 0, 0, 0, 0]

def rBytesD (dpts : Array (Dbl × Dbl)) (closed : Bool) : Array Nat :=
  (rBuild (segBoxD dpts) (numSegmentsOf (toPts dpts) closed)).compress encD #[1, 0, 0, 0, 0]

theorem valBox_segBoxD (dpts : Array (Dbl × Dbl)) (closed : Bool) (i : Nat)
    (hi : i < numSegmentsOf (toPts dpts) closed) :
    valBox (segBoxD dpts i) = (segmentAtOf (toPts dpts) i).box.g :=
  valBox_liftBox (segBox_good F64 (toPts dpts) closed (toPts_F64 dpts) i hi)

theorem rect_good (dpts : Array (Dbl × Dbl)) (closed : Bool) :
    ((processPoints (toPts dpts) closed).rect.g).Good F64 := by
  by_cases h : ((closed && (toPts dpts).size < 3) || (toPts dpts).size < 2) = true
  · have : (processPoints (toPts dpts) closed).rect = ⟨⟨0, 0⟩, ⟨0, 0⟩⟩ := by
      unfold processPoints; rw [if_pos h]
    rw [this]
    exact ⟨F64_zero, F64_zero, F64_zero, F64_zero⟩
  · obtain ⟨_, ⟨p1, m1, e1⟩, ⟨p2, m2, e2⟩, ⟨p3, m3, e3⟩, ⟨p4, m4, e4⟩⟩ :=
      bboxSpec_tight (toPts dpts).toList _ (rect_tight (toPts dpts) closed h).symm
    have hF := toPts_F64 dpts
    refine ⟨?_, ?_, ?_, ?_⟩
    · show F64 (processPoints (toPts dpts) closed).rect.min.x
      rw [← e1]; exact (hF p1 m1).1
    · show F64 (processPoints (toPts dpts) closed).rect.min.y
      rw [← e3]; exact (hF p3 m3).2
    · show F64 (processPoints (toPts dpts) closed).rect.max.x
      rw [← e2]; exact (hF p2 m2).1
    · show F64 (processPoints (toPts dpts) closed).rect.max.y
      rw [← e4]; exact (hF p4 m4).2

theorem segBoxD_inside (dpts : Array (Dbl × Dbl)) (closed : Bool) (i : Nat)
    (hi : i < numSegmentsOf (toPts dpts) closed) : segBoxD dpts i ⊆ rectD dpts closed := by
  rw [subset_val, valBox_segBoxD dpts closed i hi]
  unfold rectD
  rw [valBox_liftBox (rect_good dpts closed)]
  exact segBox_inside_rect' (toPts dpts) closed i hi

/-- **C04, series level, binary64.**  For every series of finite-double points (any of the three
    index kinds, any threshold), with the index built by the Go arithmetic on doubles and stored
    as IEEE bit patterns: for every query rectangle of doubles there is a visit list, a
    permutation of the brute-force filter of the rational specification (segments whose box
    intersects the query), such that the search with ANY callback is the early-exit fold over
    it — each matching segment once, nothing after a `false`, no decoding panic.
    Hypotheses: only the 32-bit format sizes.  NO hypothesis on the coordinates. -/
theorem series_search_exact_dbl (dpts : Array (Dbl × Dbl)) (closed : Bool) (kind : IndexKind)
    (minPoints : Nat) (hn : dpts.size < 2 ^ 32)
    (hq : kind = .quadtree → (qBytesD dpts closed).size < 2 ^ 32)
    (hr : kind = .rtree → (rBytesD dpts closed).size < 2 ^ 32) (q : GBox Dbl) :
    ∃ visit : List Nat,
      List.Perm visit ((List.range (numSegmentsOf (toPts dpts) closed)).filter
        (fun i => (segmentAtOf (toPts dpts) i).box.intersects (toBox q))) ∧
      ∀ {σ : Type} (f : σ → Nat → σ × Bool) (st : σ),
        (mkSeriesD dpts closed kind minPoints).search decD q f st =
          .ok (foldUntil f st visit).1 := by
  have hns : numSegmentsOf (toPts dpts) closed < 2 ^ 32 := by
    have := numSegmentsOf_le (toPts dpts) closed
    have h2 : (toPts dpts).size = dpts.size := by unfold toPts; simp
    omega
  obtain ⟨visit, hp, hv⟩ := gseries_search_exact encD decD decD_encD encD_length dpts.size
    (numSegmentsOf (toPts dpts) closed) (segBoxD dpts) (rectD dpts closed) kind minPoints hns
    (fun _ i hi => segBoxD_inside dpts closed i hi) hq hr q
  refine ⟨visit, ?_, fun f st => hv f st⟩
  have hf : (List.range (numSegmentsOf (toPts dpts) closed)).filter
      (fun i => (segmentAtOf (toPts dpts) i).box.intersects (toBox q)) =
      (List.range (numSegmentsOf (toPts dpts) closed)).filter
        (fun i => (segBoxD dpts i).meets q) := by
    apply List.filter_congr
    intro i hi
    rw [meets_val, valBox_segBoxD dpts closed i (List.mem_range.mp hi), box_intersects_eq_meets,
      toBox_g]
  rw [hf]
  exact hp

end Geo.DF
