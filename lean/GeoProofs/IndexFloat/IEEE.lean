/-
  GeoProofs.IndexFloat.IEEE — the carrier `Dbl` against the full IEEE model `Geo.FQ`
  (NaN / ±Inf / finite, `instKNumFQ`, Float/KNumQ.lean) that the generated kernels run on.

  * `ieee_sub_neg`, `ieee_sub_pos` : in the model WITH infinities, the subtraction of two finite
    doubles has the sign of their order — for all finite doubles, overflow to ±Inf included.
    This is the IEEE fact behind `SignExactSub Dbl`; it shows that replacing ±Inf by ±maxF in
    `Dbl` does not change anything the index code observes of a coordinate difference.
  * `toFQ_sub`, `toFQ_mul`, `toFQ_mid` : when the exact result is at most 2^1023 in magnitude the
    `Dbl` operations are literally the `FQ` (binary64) operations.
-/
import GeoProofs.IndexFloat.Laws
import GeoProofs.Float.KNumQ

namespace Geo.DF
open Geo.F

/-- a finite double in the IEEE model -/
def toFQ (a : Dbl) : FQ := .fin a.val

theorem toFQ_lt (a b : Dbl) : KNum.lt (toFQ a) (toFQ b) = Carrier.lt a b := by rfl

theorem rn_neg_iff {x : ℚ} (h : x = 0 ∨ (2 : ℚ) ^ (-1074 : ℤ) ≤ |x|) : rn x < 0 ↔ x < 0 := by
  constructor
  · intro hr
    by_contra hx
    have := rn_nonneg (not_lt.mp hx)
    linarith
  · intro hx
    rcases h with h | h
    · rw [h] at hx; exact absurd hx (lt_irrefl _)
    · rw [abs_of_neg hx] at h
      exact rn_neg_of_neg (by linarith)

theorem rn_pos_iff {x : ℚ} (h : x = 0 ∨ (2 : ℚ) ^ (-1074 : ℤ) ≤ |x|) : 0 < rn x ↔ 0 < x := by
  have h' : -x = 0 ∨ (2 : ℚ) ^ (-1074 : ℤ) ≤ |-x| := by
    rw [abs_neg, neg_eq_zero]; exact h
  have := rn_neg_iff h'
  rw [rn_neg] at this
  constructor
  · intro hr; have := this.mp (by linarith); linarith
  · intro hx; have := this.mpr (by linarith); linarith

theorem Fmax_pos : 0 < Geo.F.maxF := lt_of_lt_of_le (two_zpow_pos _) maxF_ge

theorem qlt_ofRat_zero {x : ℚ} (h : x = 0 ∨ (2 : ℚ) ^ (-1074 : ℤ) ≤ |x|) :
    qlt (ofRat x) (.fin 0) = decide (x < 0) := by
  have hM := Fmax_pos
  unfold ofRat
  split
  · next h1 =>
    have : ¬ x < 0 := fun hx => by
      have := (rn_neg_iff h).mpr hx; linarith
    simp [qlt, this]
  · split
    · next h2 =>
      have : x < 0 := (rn_neg_iff h).mp (by linarith)
      simp [qlt, this]
    · show decide (rn x < 0) = _
      rw [decide_eq_decide]; exact rn_neg_iff h

theorem qlt_zero_ofRat {x : ℚ} (h : x = 0 ∨ (2 : ℚ) ^ (-1074 : ℤ) ≤ |x|) :
    qlt (.fin 0) (ofRat x) = decide (0 < x) := by
  have hM := Fmax_pos
  unfold ofRat
  split
  · next h1 =>
    have : 0 < x := (rn_pos_iff h).mp (by linarith)
    simp [qlt, this]
  · split
    · next h2 =>
      have : ¬ 0 < x := fun hx => by
        have := (rn_pos_iff h).mpr hx; linarith
      simp [qlt, this]
    · show decide (0 < rn x) = _
      rw [decide_eq_decide]; exact rn_pos_iff h

/-- **IEEE-754, with infinities:** `a - b < 0` iff `a < b`, for all finite doubles. -/
theorem ieee_sub_neg (a b : Dbl) :
    KNum.lt (KNum.sub (toFQ a) (toFQ b)) (FQ.fin 0) = Carrier.lt a b := by
  show qlt (ofRat (a.val - b.val)) (.fin 0) = decide (a.val < b.val)
  rw [qlt_ofRat_zero (F64.sub_gap a.isF64 b.isF64), decide_eq_decide]
  exact sub_neg

/-- **IEEE-754, with infinities:** `0 < a - b` iff `b < a`, for all finite doubles. -/
theorem ieee_sub_pos (a b : Dbl) :
    KNum.lt (FQ.fin 0) (KNum.sub (toFQ a) (toFQ b)) = Carrier.lt b a := by
  show qlt (.fin 0) (ofRat (a.val - b.val)) = decide (b.val < a.val)
  rw [qlt_zero_ofRat (F64.sub_gap a.isF64 b.isF64), decide_eq_decide]
  exact sub_pos

/-! ### no overflow: the `Dbl` operations are the binary64 operations -/

theorem inRange_of_le {x : ℚ} (h : |x| ≤ 2 ^ (1023 : ℤ)) : InRange x := by
  unfold InRange
  have h1 : (2 : ℚ) ^ (970 : ℤ) < 2 ^ (1023 : ℤ) := two_zpow_lt (by norm_num)
  have h2 : (2 : ℚ) ^ (1024 : ℤ) = 2 ^ (1023 : ℤ) + 2 ^ (1023 : ℤ) := by
    rw [show (1024 : ℤ) = 1023 + 1 by norm_num, zpow_add₀ (by norm_num), zpow_one, mul_two]
  rw [h2]
  generalize (2 : ℚ) ^ (1023 : ℤ) = A at *
  generalize (2 : ℚ) ^ (970 : ℤ) = B at *
  linarith

theorem toFQ_round {x : ℚ} (h : |x| ≤ 2 ^ (1023 : ℤ)) : toFQ (Dbl.round x) = ofRat x := by
  rw [ofRat_small h]
  show FQ.fin (rs x) = _
  rw [rs_of_inRange (inRange_of_le h)]

theorem toFQ_sub (a b : Dbl) (h : |a.val - b.val| ≤ 2 ^ (1023 : ℤ)) :
    toFQ (Carrier.sub a b) = KNum.sub (toFQ a) (toFQ b) := toFQ_round h

theorem toFQ_mul (a b : Dbl) (h : |a.val * b.val| ≤ 2 ^ (1023 : ℤ)) :
    toFQ (Carrier.mul a b) = KNum.mul (toFQ a) (toFQ b) := toFQ_round h

theorem abs_rn_le_big {x : ℚ} (h : |x| ≤ 2 ^ (1023 : ℤ)) : |rn x| ≤ 2 ^ (1023 : ℤ) := by
  obtain ⟨h1, h2⟩ := abs_le.mp h
  have h3 := rn_le_zpow (by norm_num) h2
  have h4 := rn_mono h1
  rw [rn_neg, rn_two_zpow (by norm_num)] at h4
  exact abs_le.mpr ⟨h4, h3⟩

theorem kofNat_two : (KNum.ofNat 2 : FQ) = .fin 2 := by
  show ofRat _ = _
  have h2 : ((2 : ℕ) : ℚ) = 2 := by norm_num
  rw [h2, ofRat_small (by
    have := two_zpow_le (a := 1) (b := 1023) (by norm_num)
    rw [zpow_one] at this
    rwa [abs_of_pos (by norm_num : (0 : ℚ) < 2)])]
  congr 1
  exact rn_of_grid 2 0 (by norm_num) (by norm_num) (by norm_num)

/-- `(a + b) / 2` as computed by qtree.go, two roundings -/
theorem toFQ_mid (a b : Dbl) (h : |a.val + b.val| ≤ 2 ^ (1023 : ℤ)) :
    toFQ (Carrier.mid a b) = KNum.div (KNum.add (toFQ a) (toFQ b)) (KNum.ofNat 2) := by
  rw [kofNat_two]
  show toFQ (Dbl.round (rs (a.val + b.val) / 2)) = qdiv (ofRat (a.val + b.val)) (.fin 2)
  rw [ofRat_small h, rs_of_inRange (inRange_of_le h)]
  have hr := abs_rn_le_big h
  have h2 : |rn (a.val + b.val) / 2| ≤ 2 ^ (1023 : ℤ) := by
    rw [abs_div, abs_of_pos (by norm_num : (0 : ℚ) < 2)]
    have := abs_nonneg (rn (a.val + b.val))
    generalize (2 : ℚ) ^ (1023 : ℤ) = A at hr ⊢
    linarith
  rw [toFQ_round h2]
  simp [qdiv]

end Geo.DF
