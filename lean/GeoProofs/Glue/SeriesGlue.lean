/-
  GeoProofs.Glue.SeriesGlue — the methods of *baseSeries and makeSeries as regenerated from
  geometry/series.go (GeoModel/Generated/SeriesMethGen.lean, namespace Geo.SMGen), instantiated
  with the hand model (GeoModel/Series.lean, Index.lean at Rat), equal the hand model.
  Final statements: GeoProofs/Props/SeriesBridge.lean.
-/
import GeoModel.Series
import GeoModel.Generated.SeriesMethGen

namespace Geo.SMGlue
open Geo Geo.SMGen

/-- the generated series value at the model's types: X = D = Array Nat (the index bytes) -/
abbrev GS := BaseSeries Pt Box (Array Nat)

/-- the box of segment i of a point list, as the index code sees it -/
def boxOfPts (pts : List Pt) (i : Nat) : GBox Rat := (segmentAtOf pts.toArray i).box.g

/-- the ops of the generated code, instantiated with the hand model -/
def mops : Ops Pt Box Seg Rat (Array Nat) (Array Nat) (RTree Rat) QNode where
  bytesAt d i := if i < 0 then none else (d[i.toNat]?).map Int.ofNat
  bytesCopy dst src := src.extract 0 dst.size ++ dst.extract src.size dst.size
  bytesLen d := Int.ofNat d.size
  bytesLit l := (l.map Int.toNat).toArray
  bytesMake n := Array.replicate n.toNat 0
  bytesPutUint32 d lo v := putU32 d lo.toNat v.toNat
  bytesSlice3 d lo hi mx :=
    if lo = 0 ∧ 0 ≤ hi ∧ hi = mx ∧ hi.toNat ≤ d.size then some (d.extract 0 hi.toNat) else none
  bytesSliceFrom d lo := if 0 ≤ lo ∧ lo.toNat ≤ d.size then some (d.extract lo.toNat d.size) else none
  dynAsBytes x := some x
  dynOfBytes d := d
  f64Add a b := a + b
  leUint32 d := (readLE d 0 4).map Int.ofNat
  pointEq a b := a == b
  pointSetX p v := { p with x := v }
  pointSetY p v := { p with y := v }
  pointValid p := p.valid
  pointX p := p.x
  pointY p := p.y
  pointZero := default
  processPoints pts closed :=
    let r := Geo.processPoints pts.toArray closed
    (r.convex, r.rect, r.clockwise)
  qCompressSearch data addr ser bounds rect iter st :=
    qSearchBytes (boxOfPts ser.points) rect.g
      (fun st i => iter st (segmentAtOf ser.points.toArray i) (Int.ofNat i)) data (qMaxDepth + 2) addr.toNat bounds.g st
  qNodeCompress q dst _bounds := qCompress q dst
  qNodeInsert root ser bounds rect item depth :=
    qInsert (boxOfPts ser.points) (qMaxDepth - depth.toNat) root bounds.g rect.g item.toNat
  qNodeNew := QNode.empty
  rCompressSearch data addr ser rect iter st :=
    rSearchBytes decF64 (boxOfPts ser.points) rect.g
      (fun st i => iter st (segmentAtOf ser.points.toArray i) (Int.ofNat i)) data addr.toNat st
  rTreeCompress tr dst := tr.compress encF64 dst
  rTreeInsert tr mn mx i := tr.insert (⟨mn.getD 0 0, mn.getD 1 0, mx.getD 0 0, mx.getD 1 0⟩, i.toNat)
  rTreeNew := RTree.empty
  rectIntersectsRect a b := a.g.meets b.g
  rectMax b := b.max
  rectMin b := b.min
  rectZero := ⟨⟨0, 0⟩, ⟨0, 0⟩⟩
  segRect s := s.box
  segSetA s p := { s with a := p }
  segSetB s p := { s with b := p }
  segZero := default
  toUint32 v := v

/-- the model series of a generated series value (the field indexKind has no counterpart) -/
def abs (s : GS) : Series :=
  ⟨s.points.toArray, s.closed, s.convex, s.clockwise, s.rect, s.index⟩

/-- IndexKind of the Go constant -/
def kindOf (k : Int) : IndexKind := if k = 1 then .rtree else if k = 2 then .quadtree else .none

/-- Go constant of an IndexKind -/
def kindCode : IndexKind → Int
  | .none => 0 | .rtree => 1 | .quadtree => 2

/-! ### slices -/

theorem arrAt_cast (l : List Pt) (i : Nat) : arrAt (default : Pt) l (i : Int) = l.toArray[i]! := by
  unfold arrAt
  have : ¬ ((i : Int) < 0) := by omega
  simp [this, List.getD_eq_getElem?_getD]

theorem arrAt_nat (l : List Pt) (i : Nat) : arrAt (default : Pt) l (Int.ofNat i) = l.toArray[i]! := arrAt_cast l i

theorem arrAt_zero (l : List Pt) : arrAt (default : Pt) l 0 = l.toArray[0]! := arrAt_cast l 0

theorem arrAt_neg (l : List Pt) (i : Int) (h : i < 0) : arrAt (default : Pt) l i = default := by
  simp [arrAt, h]

/-! ### NumSegments, SegmentAt, Empty, NumPoints, PointAt -/

theorem numSegments_eq (s : GS) : seriesNumSegments mops s = ((abs s).numSegments : Int) := by
  unfold seriesNumSegments Series.numSegments numSegmentsOf abs
  simp only [mops, Int.ofNat_eq_natCast, List.size_toArray]
  by_cases hc : s.closed = true
  · simp only [hc, if_true]
    by_cases h3 : s.points.length < 3
    · have : ((s.points.length : Int) < 3) := by omega
      simp [h3, this]
    · have h3' : ¬ ((s.points.length : Int) < 3) := by omega
      have e : (s.points.length : Int) - 1 = ((s.points.length - 1 : Nat) : Int) := by omega
      simp only [h3, h3', e, arrAt_cast, arrAt_zero, decide_false, if_false, Bool.false_eq_true]
      split <;> rfl
  · simp only [hc, if_false, Bool.false_eq_true]
    by_cases h2 : s.points.length < 2
    · have : ((s.points.length : Int) < 2) := by omega
      simp [h2, this]
    · have h2' : ¬ ((s.points.length : Int) < 2) := by omega
      simp only [h2, h2', decide_false, if_false, Bool.false_eq_true]
      omega

theorem segmentAt_eq (s : GS) (i : Nat) : seriesSegmentAt mops s (i : Int) = (abs s).segmentAt i := by
  unfold seriesSegmentAt Series.segmentAt segmentAtOf abs
  simp only [mops, Int.ofNat_eq_natCast, List.size_toArray, arrAt_cast, arrAt_zero]
  have e1 : (i : Int) + 1 = ((i + 1 : Nat) : Int) := by omega
  rw [e1, arrAt_cast]
  by_cases h0 : s.points.length = 0
  · have hnil : s.points = [] := List.eq_nil_of_length_eq_zero h0
    simp [hnil]
  · have e : ((i : Int) = (s.points.length : Int) - 1) ↔ (i = s.points.length - 1) := by omega
    by_cases h : i = s.points.length - 1
    · have h' : (i : Int) = (s.points.length : Int) - 1 := e.mpr h
      simp only [h', decide_true, if_true]
      simp [← h]
    · have h' : ¬ ((i : Int) = (s.points.length : Int) - 1) := fun x => h (e.mp x)
      simp [h, h']

theorem segmentAt_toNat (s : GS) (i : Int) (h : 0 ≤ i) :
    seriesSegmentAt mops s i = (abs s).segmentAt i.toNat := by
  obtain ⟨n, rfl⟩ := Int.eq_ofNat_of_zero_le h
  rw [segmentAt_eq]; simp

theorem empty_eq (s : GS) : seriesEmpty mops (some s) = (abs s).empty := by
  unfold seriesEmpty Series.empty abs
  simp only [Int.ofNat_eq_natCast, List.size_toArray]
  have a : decide ((s.points.length : Int) < 3) = decide (s.points.length < 3) := by
    apply decide_eq_decide.mpr; omega
  have b : decide ((s.points.length : Int) < 2) = decide (s.points.length < 2) := by
    apply decide_eq_decide.mpr; omega
  rw [a, b]

theorem empty_nil : seriesEmpty mops (none : Option GS) = true := rfl

theorem numPoints_eq (s : GS) : seriesNumPoints mops s = ((abs s).numPoints : Int) := by
  simp [seriesNumPoints, Series.numPoints, abs]

theorem pointAt_eq (s : GS) (i : Nat) : seriesPointAt mops s (i : Int) = (abs s).pts[i]! := by
  simp only [seriesPointAt, abs, mops, arrAt_cast]

theorem rect_eq (s : GS) : seriesRect mops s = (abs s).rect := rfl
theorem convex_eq (s : GS) : seriesConvex mops s = (abs s).convex := rfl
theorem clockwise_eq (s : GS) : seriesClockwise mops s = (abs s).clockwise := rfl
theorem closed_eq (s : GS) : seriesClosed mops s = (abs s).closed := rfl
theorem index_eq (s : GS) : seriesIndex mops s = (abs s).index := rfl
theorem clearIndex_eq (s : GS) : abs (seriesClearIndex mops s) = { abs s with index := none } := rfl

/-! ### Valid -/

theorem valid_loop (l : List Pt) :
    forRange (σ := Unit) (ρ := Bool) (fun (point : Pt) (_ : Unit) =>
        if !(mops.pointValid point) then Flow.ret false else Flow.next ()) l () =
      if l.all Pt.valid then Exit.done () else Exit.ret false := by
  induction l with
  | nil => rfl
  | cons p ps ih =>
    simp only [forRange, List.all_cons]
    by_cases hp : p.valid = true
    · simp only [mops, hp, Bool.not_true, Bool.false_eq_true, if_false, Bool.true_and]
      exact ih
    · simp [mops, hp]

theorem valid_eq (s : GS) : seriesValid mops s = (abs s).valid := by
  unfold seriesValid Series.valid abs
  rw [valid_loop]
  by_cases h : s.points.all Pt.valid = true
  · simp [h]
  · simp only [h]
    simpa using h

/-! ### loops -/

theorem forRange_map {ε ε' σ ρ : Type} (h : ε' → ε) (body : ε → σ → Flow σ ρ) (l : List ε') (s : σ) :
    forRange body (l.map h) s = forRange (fun x => body (h x)) l s := by
  induction l generalizing s with
  | nil => rfl
  | cons x xs ih =>
    simp only [List.map_cons, forRange]
    split <;> simp_all

theorem intRange_zero (n : Nat) : intRange 0 (n : Int) = (List.range n).map (fun (k : Nat) => (k : Int)) := by
  simp [intRange]

theorem forRange_next {ε σ ρ : Type} (g : σ → ε → σ) (body : ε → σ → Flow σ ρ)
    (hb : ∀ x s, body x s = Flow.next (g s x)) (l : List ε) (s : σ) :
    forRange body l s = Exit.done (l.foldl g s) := by
  induction l generalizing s with
  | nil => rfl
  | cons x xs ih => simp only [forRange, hb, List.foldl_cons]; exact ih _

/-- a loop that calls the iterator and returns when it says stop = foldUntil -/
theorem forRange_until {ε σ : Type} (g : σ → ε → σ × Bool) (body : ε → σ → Flow σ (Option σ))
    (hb : ∀ x s, body x s = if (g s x).2 then Flow.next (g s x).1 else Flow.ret (some (g s x).1))
    (l : List ε) (s : σ) :
    forRange body l s =
      if (foldUntil g s l).2 then Exit.done (foldUntil g s l).1 else Exit.ret (some (foldUntil g s l).1) := by
  induction l generalizing s with
  | nil => simp [forRange, foldUntil]
  | cons x xs ih =>
    simp only [forRange, hb, foldUntil]
    by_cases hc : (g s x).2 = true
    · simp only [hc, if_true]; exact ih _
    · simp [hc]

/-! ### Search -/

/-- Outcome as Option (none = panic) -/
def outOpt {σ : Type} : Outcome σ → Option σ
  | .ok s => some s
  | .panic => none

/-- the Nat-indexed callback of the model as the Int-indexed callback of the Go code -/
def iterOf {σ : Type} (f : σ → Seg → Nat → σ × Bool) : σ → Seg → Int → σ × Bool :=
  fun st sg i => f st sg i.toNat

theorem readLE_extract (d : Array Nat) (k : Nat) (n a : Nat) :
    readLE (d.extract k d.size) a n = readLE d (k + a) n := by
  induction n generalizing a with
  | zero => rfl
  | succ n ih =>
    simp only [readLE]
    rw [ih (a + 1)]
    have : (d.extract k d.size)[a]? = d[k + a]? := by
      rw [Array.getElem?_extract]
      by_cases h : a < min d.size d.size - k
      · rw [if_pos h]
      · rw [if_neg h]
        have : d.size ≤ k + a := by simp at h; omega
        simp [this]
    rw [this]; rfl

theorem readLE_none (d : Array Nat) (a n : Nat) (h : d.size ≤ a) : readLE d a (n + 1) = none := by
  simp [readLE, h]

theorem hdr_read {β : Type} (data : Array Nat) (k : Int → Option β) :
    ((mops.bytesSliceFrom data 1).bind fun t1 => (mops.leUint32 t1).bind k) =
      (readLE data 1 4).bind (fun n => k (n : Int)) := by
  by_cases h : 1 ≤ data.size
  · have e : mops.bytesSliceFrom data 1 = some (data.extract 1 data.size) := by
      simp only [mops]; rw [if_pos]; · rfl
      · constructor <;> omega
    rw [e]
    simp only [Option.bind_some, mops, readLE_extract]
    cases readLE data (1 + 0) 4 <;> rfl
  · have e : mops.bytesSliceFrom data 1 = none := by
      simp only [mops]; rw [if_neg]; intro hh; exact h (by omega)
    rw [e, readLE_none data 1 3 (by omega)]
    rfl

theorem slice3_eq (data : Array Nat) (n : Nat) :
    mops.bytesSlice3 data 0 (n : Int) (n : Int) = if n ≤ data.size then some (data.extract 0 n) else none := by
  simp only [mops]
  by_cases h : n ≤ data.size
  · rw [if_pos h, if_pos]; · simp
    · refine ⟨by trivial, by omega, by trivial, by simpa using h⟩
  · rw [if_neg h, if_neg]; intro hh; exact h (by simpa using hh.2.2.2)

theorem bytesAt_zero (d : Array Nat) : mops.bytesAt d 0 = (d[0]?).map Int.ofNat := by
  simp [mops]

theorem rsearch_eq {σ : Type} (s : GS) (q : Box) (f : σ → Seg → Nat → σ × Bool) (st : σ) (d : Array Nat) :
    mops.rCompressSearch d 5 s q (iterOf f) st =
      rSearchBytes decF64 (fun i => ((abs s).segmentAt i).box.g) q.g (fun st i => f st ((abs s).segmentAt i) i) d 5 st := by
  simp only [mops, iterOf, Int.toNat_natCast]
  rfl

theorem qsearch_eq {σ : Type} (s : GS) (q : Box) (f : σ → Seg → Nat → σ × Bool) (st : σ) (d : Array Nat) :
    mops.qCompressSearch d 5 s s.rect q (iterOf f) st =
      qSearchBytes (fun i => ((abs s).segmentAt i).box.g) q.g (fun st i => f st ((abs s).segmentAt i) i) d
        (qMaxDepth + 2) 5 (abs s).rect.g st := by
  simp only [mops, iterOf, Int.toNat_natCast]
  rfl

theorem search_eq {σ : Type} (s : GS) (q : Box) (f : σ → Seg → Nat → σ × Bool) (st : σ) :
    seriesSearch mops s q (iterOf f) st = outOpt ((abs s).search q f st) := by
  unfold seriesSearch Series.search
  have hb : s.index.bind mops.dynAsBytes = s.index := by cases s.index <;> rfl
  rw [hb]
  have ha : (abs s).index = s.index := rfl
  rw [ha]
  cases hidx : s.index with
  | none =>
    simp only []
    rw [numSegments_eq, intRange_zero, forRange_map]
    rw [forRange_until (fun st i => if (((abs s).segmentAt i).box.g.meets q.g) then f st ((abs s).segmentAt i) i else (st, true))]
    · unfold visitItems
      simp only [outOpt]
      generalize foldUntil _ st (List.range _) = r
      by_cases h : r.2 = true <;> simp [h]
    · intro i st
      simp only [segmentAt_eq]
      simp only [mops, iterOf, Int.toNat_natCast]
      by_cases hm : (((abs s).segmentAt i).box.g.meets q.g) = true
      · simp only [hm, if_true]
        by_cases hc : (f st ((abs s).segmentAt i) i).snd = true <;> simp [hc]
      · simp [hm]
  | some data =>
    simp only []
    rw [hdr_read]
    cases hn : readLE data 1 4 with
    | none => rfl
    | some n =>
      simp only [Option.bind_some, slice3_eq]
      by_cases hgt : n > data.size
      · have : ¬ n ≤ data.size := by omega
        simp [hgt, this, outOpt]
      · have hle : n ≤ data.size := by omega
        simp only [hgt, hle, if_true, if_false, Option.bind_some, bytesAt_zero]
        cases h0 : (data.extract 0 n)[0]? with
        | none => rfl
        | some b =>
          simp only [Option.map_some, Option.bind_some, rsearch_eq, qsearch_eq]
          rcases b with _ | _ | _ | b
          · simp [outOpt]
          · simp only [Int.ofNat_eq_natCast]
            cases rSearchBytes decF64 (fun i => ((abs s).segmentAt i).box.g) q.g
              (fun st i => f st ((abs s).segmentAt i) i) (data.extract 0 n) 5 st <;> simp [outOpt]
          · simp only [Int.ofNat_eq_natCast]
            cases qSearchBytes (fun i => ((abs s).segmentAt i).box.g) q.g
              (fun st i => f st ((abs s).segmentAt i) i) (data.extract 0 n) (qMaxDepth + 2) 5 (abs s).rect.g st <;>
              simp [outOpt]
          · have h1 : ¬ ((b : Int) + 1 + 1 + 1 = 1) := by omega
            have h2 : ¬ ((b : Int) + 1 + 1 + 1 = 2) := by omega
            simp [outOpt, h1, h2]

/-! ### setCompressed, buildIndex -/

theorem putU32_size (d : Array Nat) (p v : Nat) : (putU32 d p v).size = d.size := by
  simp [putU32]

theorem setCompressed_eq (s : GS) (data : Array Nat) :
    seriesSetCompressed mops s data = { s with index := some (putU32 data 1 data.size) } := by
  unfold seriesSetCompressed
  simp only [mops, Int.ofNat_eq_natCast, Int.toNat_natCast, putU32_size, Array.size_replicate]
  have e1 : (putU32 data 1 data.size).extract 0 data.size = putU32 data 1 data.size := by
    have := Array.extract_size (xs := putU32 data 1 data.size)
    rwa [putU32_size] at this
  have e2 : (Array.replicate data.size (0 : Nat)).extract data.size data.size = #[] :=
    Array.extract_empty_of_stop_le_start (Nat.le_refl _)
  have e3 : Int.toNat 1 = 1 := rfl
  simp [e1, e2, e3]

theorem kindOf_cases (k : Int) :
    (k = 1 ∧ kindOf k = .rtree) ∨ (k = 2 ∧ kindOf k = .quadtree) ∨ (k ≠ 1 ∧ k ≠ 2 ∧ kindOf k = .none) := by
  unfold kindOf
  by_cases h1 : k = 1
  · simp [h1]
  · by_cases h2 : k = 2
    · simp [h2]
    · simp [h1, h2]

theorem buildIndex_eq (s : GS) (h : s.index = none) :
    seriesBuildIndex mops s =
      { s with index := buildIndexBytes s.points.toArray s.closed s.rect (kindOf s.indexKind) } := by
  unfold seriesBuildIndex buildIndexBytes
  delta kindRTree kindQuadTree
  simp only [h, Option.isSome_none, Bool.false_eq_true, if_false]
  rw [numSegments_eq, intRange_zero, forRange_map, forRange_map]
  rw [forRange_next (fun tr i => tr.insert (boxOfPts s.points i, i))]
  · rw [forRange_next (fun root i => qInsert (boxOfPts s.points) qMaxDepth root s.rect.g (boxOfPts s.points i) i)]
    · rcases kindOf_cases s.indexKind with ⟨hk, hk'⟩ | ⟨hk, hk'⟩ | ⟨hk1, hk2, hk'⟩
      · simp only [hk, hk', decide_true, if_true, setCompressed_eq]
        simp only [mops, rBuild]
        rfl
      · simp only [hk, hk', setCompressed_eq]
        simp only [mops, qBuild]
        rfl
      · have d1 : decide (s.indexKind = 1) = false := decide_eq_false hk1
        have d2 : decide (s.indexKind = 2) = false := decide_eq_false hk2
        rw [d1, d2, hk']
        simp only [Bool.false_eq_true, if_false]
        cases s; simp_all
    · intro i root
      simp only [segmentAt_eq]
      simp [mops, boxOfPts, Series.segmentAt, abs]
  · intro i tr
    simp only [segmentAt_eq]
    simp [mops, boxOfPts, Series.segmentAt, abs, Box.g]

theorem buildIndex_some (s : GS) (d : Array Nat) (h : s.index = some d) : seriesBuildIndex mops s = s := by
  unfold seriesBuildIndex
  simp [h]

/-! ### makeSeries -/

theorem sliceCopy_fresh (pts : List Pt) (z : Pt) :
    sliceCopy (List.replicate (Int.toNat (Int.ofNat pts.length)) z) pts = pts := by
  simp [sliceCopy]

/-- the series makeSeries builds before indexing -/
def baseOf (pts : List Pt) (closed : Bool) : GS :=
  let pr := processPoints pts.toArray closed
  { closed := closed, clockwise := pr.clockwise, convex := pr.convex, indexKind := 0, index := none,
    rect := pr.rect, points := pts }

theorem makeSeries_some (pts : List Pt) (cp closed : Bool) (o : IndexOptions) :
    makeSeries mops pts cp closed (some o) =
      if o.minPoints ≠ 0 ∧ (pts.length : Int) ≥ o.minPoints then
        { baseOf pts closed with
          indexKind := o.kind
          index := buildIndexBytes pts.toArray closed (processPoints pts.toArray closed).rect (kindOf o.kind) }
      else baseOf pts closed := by
  unfold makeSeries
  have hcopy : (if cp = true then
        { ({ baseSeriesZero mops with closed := closed } : GS) with
          points := sliceCopy (List.replicate (Int.toNat (Int.ofNat pts.length)) mops.pointZero) pts }
      else { ({ baseSeriesZero mops with closed := closed } : GS) with points := pts }) =
      { ({ baseSeriesZero mops with closed := closed } : GS) with points := pts } := by
    cases cp
    · rfl
    · simp only [if_true]; rw [sliceCopy_fresh]
  simp only [] at hcopy ⊢
  rw [hcopy]
  by_cases hc : o.minPoints ≠ 0 ∧ (pts.length : Int) ≥ o.minPoints
  · rw [if_pos hc]
    have hc' : (decide (o.minPoints ≠ 0) && decide (Int.ofNat pts.length ≥ o.minPoints)) = true := by
      simpa using hc
    rw [if_pos hc', buildIndex_eq _ rfl]
    simp [baseOf, baseSeriesZero, mops]
  · rw [if_neg hc]
    have hc' : ¬ ((decide (o.minPoints ≠ 0) && decide (Int.ofNat pts.length ≥ o.minPoints)) = true) := by
      simpa using hc
    rw [if_neg hc']
    simp [baseOf, baseSeriesZero, mops]

theorem makeSeries_none (pts : List Pt) (cp closed : Bool) :
    makeSeries mops pts cp closed none = makeSeries mops pts cp closed (some defaultIndexOptions) := rfl

theorem kindOf_kindCode (k : IndexKind) : kindOf (kindCode k) = k := by cases k <;> rfl

theorem makeSeries_eq (pts : List Pt) (cp closed : Bool) (kind : IndexKind) (minPoints : Nat) :
    abs (makeSeries mops pts cp closed (some ⟨kindCode kind, (minPoints : Int)⟩)) =
      mkSeries pts.toArray closed kind minPoints := by
  rw [makeSeries_some]
  unfold mkSeries
  simp only [kindOf_kindCode, List.size_toArray]
  by_cases hc : minPoints ≠ 0 ∧ pts.length ≥ minPoints
  · have h1 : ((minPoints : Int) ≠ 0 ∧ (pts.length : Int) ≥ (minPoints : Int)) := by omega
    have h2 : ((minPoints != 0) && decide (pts.length ≥ minPoints)) = true := by simpa using hc
    rw [if_pos h1, if_pos h2]
    rfl
  · have h1 : ¬ ((minPoints : Int) ≠ 0 ∧ (pts.length : Int) ≥ (minPoints : Int)) := by omega
    have h2 : ¬ (((minPoints != 0) && decide (pts.length ≥ minPoints)) = true) := by simpa using hc
    rw [if_neg h1, if_neg h2]
    rfl

theorem makeSeries_default (pts : List Pt) (cp closed : Bool) :
    abs (makeSeries mops pts cp closed none) = mkSeries pts.toArray closed .quadtree 64 := by
  rw [makeSeries_none]
  exact makeSeries_eq pts cp closed .quadtree 64

/-! ### Move -/

theorem fold_set {α : Type} (h : Nat → α) (n : Nat) (init : List α) (hn : n ≤ init.length) :
    (List.range n).foldl (fun acc i => acc.set i (h i)) init = (List.range n).map h ++ init.drop n := by
  induction n with
  | zero => simp
  | succ n ih =>
    rw [List.range_succ, List.foldl_append, ih (by omega)]
    simp only [List.foldl_cons, List.foldl_nil, List.map_append, List.map_cons, List.map_nil]
    rw [List.set_append]
    simp only [List.length_map, List.length_range, Nat.lt_irrefl, if_false, Nat.sub_self]
    have e : (init.drop n).set 0 (h n) = h n :: init.drop (n + 1) := by
      rw [List.drop_eq_getElem_cons (show n < init.length by omega)]
      rfl
    rw [e, List.append_assoc]
    rfl

def mvPt (dx dy : Rat) (p : Pt) : Pt := ⟨p.x + dx, p.y + dy⟩

theorem move_step (src pts : List Pt) (i : Nat) (dx dy : Rat) :
    arrSet (arrSet pts (i : Int) (mops.pointSetX (arrAt mops.pointZero pts (i : Int))
        (mops.f64Add (mops.pointX (arrAt mops.pointZero src (i : Int))) dx))) (i : Int)
      (mops.pointSetY (arrAt mops.pointZero (arrSet pts (i : Int) (mops.pointSetX (arrAt mops.pointZero pts (i : Int))
        (mops.f64Add (mops.pointX (arrAt mops.pointZero src (i : Int))) dx))) (i : Int))
        (mops.f64Add (mops.pointY (arrAt mops.pointZero src (i : Int))) dy)) =
      pts.set i (mvPt dx dy (src.getD i default)) := by
  have hneg : ¬ ((i : Int) < 0) := by omega
  simp only [arrSet, arrAt, hneg, if_false, Int.toNat_natCast, mops, mvPt]
  by_cases hi : i < pts.length
  · simp [hi, List.getD_eq_getElem?_getD]
  · have : pts.length ≤ i := by omega
    simp [List.set_eq_of_length_le, this]

theorem move_loop (src : List Pt) (dx dy : Rat) :
    (List.range src.length).foldl (fun acc i => acc.set i (mvPt dx dy (src.getD i default)))
      (List.replicate src.length (default : Pt)) = src.map (mvPt dx dy) := by
  rw [fold_set _ _ _ (by simp)]
  apply List.ext_getElem
  · simp
  · intro i h1 h2
    simp at h1 h2
    simp [List.getElem_append, h2, List.getD_eq_getElem?_getD]

theorem move_points (s : GS) (dx dy : Rat) :
    seriesMove mops s dx dy =
      (let n := makeSeries mops (s.points.map (mvPt dx dy)) false s.closed none
       let n : GS := { n with indexKind := s.indexKind }
       if s.index.isSome then seriesBuildIndex mops n else n) := by
  unfold seriesMove
  simp only [Int.ofNat_eq_natCast, Int.toNat_natCast]
  rw [intRange_zero, forRange_map]
  rw [forRange_next (fun acc i => acc.set i (mvPt dx dy (s.points.getD i default)))]
  · have hz : mops.pointZero = (default : Pt) := rfl
    rw [hz, move_loop]
    rfl
  · intro i pts
    simp only [move_step]

/-- the field indexKind agrees with the header byte of the index, for series below the default
    threshold.  (buildIndex is the only writer of index, with header 1 for RTree and 2 for QuadTree;
    Move overwrites indexKind AFTER makeSeries may have built a default QuadTree index, so for
    ≥ 64 points indexKind and header can disagree — there Move never consults indexKind.) -/
def Inv (s : GS) : Prop :=
  ∀ d, s.index = some d → (s.points.length : Int) < defaultIndexOptions.minPoints →
    (s.indexKind = 1 ∧ d[0]? = some 1) ∨ (s.indexKind = 2 ∧ d[0]? = some 2)

theorem makeSeries_fields (pts : List Pt) (cp closed : Bool) (o : Option IndexOptions) :
    (makeSeries mops pts cp closed o).points = pts ∧ (makeSeries mops pts cp closed o).closed = closed := by
  cases o with
  | none => rw [makeSeries_none, makeSeries_some]; split <;> exact ⟨rfl, rfl⟩
  | some o => rw [makeSeries_some]; split <;> exact ⟨rfl, rfl⟩

theorem makeSeries_index_none (pts : List Pt) (cp closed : Bool)
    (h : (makeSeries mops pts cp closed none).index = none) :
    (pts.length : Int) < defaultIndexOptions.minPoints := by
  rw [makeSeries_none, makeSeries_some] at h
  split at h
  · exact absurd h (by simp [buildIndexBytes, kindOf, defaultIndexOptions, kindQuadTree])
  · rename_i hc
    simp only [defaultIndexOptions] at hc ⊢
    omega

theorem toArray_map_mv (l : List Pt) (dx dy : Rat) :
    (l.map (mvPt dx dy)).toArray = l.toArray.map (fun p => ⟨p.x + dx, p.y + dy⟩) := by
  simp [mvPt]

theorem move_eq (s : GS) (dx dy : Rat) (hinv : Inv s) :
    abs (seriesMove mops s dx dy) = (abs s).move dx dy := by
  rw [move_points]
  unfold Series.move
  have hN := makeSeries_default (s.points.map (mvPt dx dy)) false s.closed
  have hF := makeSeries_fields (s.points.map (mvPt dx dy)) false s.closed none
  have hL := makeSeries_index_none (s.points.map (mvPt dx dy)) false s.closed
  rw [List.length_map] at hL
  rw [toArray_map_mv] at hN
  generalize makeSeries mops (s.points.map (mvPt dx dy)) false s.closed none = N at hN hF hL ⊢
  have ha : (abs s).index = s.index := rfl
  have hp : (abs s).pts = s.points.toArray := rfl
  have hc : (abs s).closed = s.closed := rfl
  simp only [ha, hp, hc, ← hN]
  cases hidx : s.index with
  | none => rfl
  | some data =>
    simp only [Option.isSome_some, if_true]
    have hNi : (abs N).index = N.index := rfl
    rw [hNi]
    cases hNidx : N.index with
    | some d' =>
      rw [buildIndex_some _ d' (by simp)]
      simp [abs, hNidx]
    | none =>
      rw [buildIndex_eq _ (by simp)]
      simp only [abs, hF.1, hF.2]
      rw [← toArray_map_mv]
      rcases hinv data hidx (hL hNidx) with ⟨hk, hd⟩ | ⟨hk, hd⟩
      · simp only [hk, hd]; rfl
      · simp only [hk, hd]; rfl

end Geo.SMGlue
