/-
  GeoModel.GeoNum — the number interface the generated spherical-geometry formulas
  (`GeoModel/Generated/GeoFormulas.lean`, produced by `translate geoformulas`) are written against.

  Core Lean only (this module is linked into the `geodriver` executable).

  Two instances exist:
    * `GeoNum Float`  (here)                        — executable; used by `Geo.geoEval` for the
      numerical comparison against the Go code;
    * `GeoNum ℝ`      (`GeoProofs/GeoReal.lean`)    — exact; the property theorems C13/C14/C15 are
      about the generated definitions at this instance.

  Literals.  Integer literals of the Go source (`2`, `180`) are printed as Lean numerals and reach
  `natLit` through the `OfNat` instance below; floating literals (`6371e3`, `0.5`,
  `0.999999999999999`) are printed verbatim and reach `OfScientific.ofScientific`, so over ℝ
  they denote exactly the decimal number written in the source.

  `fmod` is Go's `math.Mod`: the result has the sign of the dividend, `x − y·trunc(x/y)`.
  `atan2 y x` has Go's argument order.  `lt`/`le` are the IEEE comparisons (false on NaN for
  `Float`).  `toInt32` is Go's `int32(f)` for a float `f` that is in range: truncation toward
  zero; overflow / NaN behaviour (implementation-specific in Go) is NOT modelled — the result is
  an unbounded `Int`.  `ofInt` is Go's `float64(i)`.
-/
namespace Geo

class GeoNum (α : Type) where
  add : α → α → α
  sub : α → α → α
  mul : α → α → α
  div : α → α → α
  neg : α → α
  /-- meaning of an integer literal of the source -/
  natLit : Nat → α
  /-- meaning of a floating literal of the source: `ofSci m s e = m · 10^(if s then -e else e)`
      (the convention of Lean's `OfScientific`) -/
  ofSci : Nat → Bool → Nat → α
  pi : α
  sin : α → α
  cos : α → α
  asin : α → α
  acos : α → α
  /-- `atan2 y x` (Go argument order) -/
  atan2 : α → α → α
  sqrt : α → α
  /-- Go's `math.Mod x y`: sign of the dividend, `x − y·trunc(x/y)` -/
  fmod : α → α → α
  lt : α → α → Bool
  le : α → α → Bool
  /-- Go's `int32(x)`: truncation toward zero; no overflow modelling -/
  toInt32 : α → Int
  /-- Go's `float64(i)` -/
  ofInt : Int → α

namespace GeoNum

/-
  Notation instances.  They have LOW priority so that at a concrete type that already has its own
  arithmetic (`Float`, `ℝ`) ordinary terms never elaborate through `GeoNum`; only terms elaborated
  at an abstract `α` with `[GeoNum α]` (i.e. the generated definitions) use them.
-/
instance (priority := low) instAdd {α : Type} [GeoNum α] : Add α := ⟨GeoNum.add⟩
instance (priority := low) instSub {α : Type} [GeoNum α] : Sub α := ⟨GeoNum.sub⟩
instance (priority := low) instMul {α : Type} [GeoNum α] : Mul α := ⟨GeoNum.mul⟩
instance (priority := low) instDiv {α : Type} [GeoNum α] : Div α := ⟨GeoNum.div⟩
instance (priority := low) instNeg {α : Type} [GeoNum α] : Neg α := ⟨GeoNum.neg⟩
instance (priority := low) instOfNat {α : Type} [GeoNum α] {n : Nat} : OfNat α n :=
  ⟨GeoNum.natLit n⟩
instance (priority := low) instOfScientific {α : Type} [GeoNum α] : OfScientific α :=
  ⟨GeoNum.ofSci⟩
instance (priority := low) instInhabited {α : Type} [GeoNum α] : Inhabited α := ⟨GeoNum.pi⟩

/-- Go's `a > b`. -/
@[inline] def gt {α : Type} [GeoNum α] (a b : α) : Bool := GeoNum.lt b a
/-- Go's `a >= b`. -/
@[inline] def ge {α : Type} [GeoNum α] (a b : α) : Bool := GeoNum.le b a

/-- `math.Pow(x, n)` for a natural-number literal exponent `n` (the only form the translator
    accepts): repeated multiplication, `x^0 = 1`. -/
def npow {α : Type} [GeoNum α] (x : α) : Nat → α
  | 0 => 1
  | n + 1 => npow x n * x

end GeoNum

/-! ### `Float` -/

/-- Exact IEEE remainder with the sign of the dividend: a port of Go's `math.Mod`
    (`src/math/mod.go`): repeatedly subtract `|y|·2^k` with `|y|·2^k ≤ r < |y|·2^(k+1)`
    (each subtraction is exact).  `fuel` bounds the number of iterations (at most ~2100 are ever
    needed for doubles: the exponent of `r` strictly decreases). -/
def floatModLoop (y yfr : Float) (yexp : Int) : Nat → Float → Float
  | 0, r => r
  | fuel + 1, r =>
    if r >= y then
      let (rfr, rexp) := r.frExp
      let rexp := if rfr < yfr then rexp - 1 else rexp
      floatModLoop y yfr yexp fuel (r - y.scaleB (rexp - yexp))
    else r

def floatMod (x y : Float) : Float :=
  if y == 0 || x.isInf || x.isNaN || y.isNaN then (0.0 : Float) / 0.0
  else
    let y := y.abs
    let (yfr, yexp) := y.frExp
    let r := if x < 0 then -x else x
    let r := if y.isInf then r else floatModLoop y yfr yexp 4200 r
    if x < 0 then -r else r

/-- Go's `int32(x)` on in-range values: truncation toward zero.  (`Float.toInt64` truncates and
    saturates; Go's result for out-of-range / NaN inputs is implementation-specific and is not
    modelled.) -/
def floatToInt32 (x : Float) : Int := x.toInt64.toInt

instance : GeoNum Float where
  add := Float.add
  sub := Float.sub
  mul := Float.mul
  div := Float.div
  neg := Float.neg
  natLit := Float.ofNat
  ofSci := Float.ofScientific
  pi := 3.141592653589793   -- = Go's math.Pi as a float64 (0x400921FB54442D18)
  sin := Float.sin
  cos := Float.cos
  asin := Float.asin
  acos := Float.acos
  atan2 := Float.atan2
  sqrt := Float.sqrt
  fmod := floatMod
  lt a b := decide (a < b)
  le a b := decide (a ≤ b)
  toInt32 := floatToInt32
  ofInt := Float.ofInt

end Geo
