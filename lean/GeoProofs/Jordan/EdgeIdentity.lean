/-
  GeoProofs.Jordan.EdgeIdentity — the per-edge identity behind the discrete Jordan lemma.

  For two points `p`, `q` consider the closed "U" made of the rightward horizontal ray from
  `p`, the segment `pq` and the rightward horizontal ray from `q`.  `sweep p q v` says that
  `v` lies in the region swept between the two rays (the leftward ray from `v` crosses the
  segment `pq`; a `v` level with `p` or `q` counts as below it, which is the convention
  that matches `Spec.crosses`, where a vertex level with the ray origin counts as below).

  PER-EDGE IDENTITY: for an edge `ab` that does not meet the closed segment `pq`
      [crosses a b p] + [crosses a b q] ≡ [sweep p q a] + [sweep p q b]   (mod 2)
  and for an edge that `pq` crosses properly the two sides differ by one.
-/
import GeoProofs.Props.C19

namespace Geo

/-- `v` lies in the region swept between the rightward rays from `p` and from `q`:
    `v`'s level separates `p` and `q` (a `v` level with one of them counts as below it) and
    `v` is strictly to the right of the line `pq`. -/
def Sweep (p q v : Pt) : Prop :=
  ((v.y ≤ p.y) ≠ (v.y ≤ q.y)) ∧ (if p.y < q.y then Spec.cross p q v < 0 else Spec.cross q p v < 0)

/-- executable form of `Sweep` -/
def sweep (p q v : Pt) : Bool :=
  (decide (v.y ≤ p.y) != decide (v.y ≤ q.y)) &&
  (if p.y < q.y then decide (Spec.cross p q v < 0) else decide (Spec.cross q p v < 0))

/-- `pq` crosses `ab` properly: strictly opposite orientations both ways -/
def Proper (a b p q : Pt) : Prop :=
  Spec.cross a b p * Spec.cross a b q < 0 ∧ Spec.cross p q a * Spec.cross p q b < 0

/-- executable form of `Proper` -/
def proper (a b p q : Pt) : Bool :=
  decide (Spec.cross a b p * Spec.cross a b q < 0) && decide (Spec.cross p q a * Spec.cross p q b < 0)

namespace Jordan

theorem sweep_iff (p q v : Pt) : sweep p q v = true ↔ Sweep p q v := by
  unfold sweep Sweep
  have e : ((v.y ≤ p.y) ≠ (v.y ≤ q.y)) ↔ ¬ ((v.y ≤ p.y) ↔ (v.y ≤ q.y)) := by rw [Ne, eq_iff_iff]
  rw [Bool.and_eq_true, bne_iff_ne, Ne, decide_eq_decide, e]
  split_ifs <;> simp only [decide_eq_true_eq]

theorem proper_iff (a b p q : Pt) : proper a b p q = true ↔ Proper a b p q := by
  unfold proper Proper
  rw [Bool.and_eq_true, decide_eq_true_eq, decide_eq_true_eq]

/-! ### normal forms for upward segments -/

theorem cross_up {a b p : Pt} (h : a.y ≤ b.y) :
    Cross a b p ↔ a.y ≤ p.y ∧ p.y < b.y ∧ 0 < Spec.cross a b p := by
  rcases lt_or_eq_of_le h with h | h
  · exact K.cross_iff_up h
  · refine iff_of_false (K.not_cross_horiz h) ?_
    rintro ⟨h1, h2, -⟩
    linarith

theorem sweep_up {p q v : Pt} (h : p.y ≤ q.y) :
    Sweep p q v ↔ p.y < v.y ∧ v.y ≤ q.y ∧ Spec.cross p q v < 0 := by
  unfold Sweep
  rcases lt_or_eq_of_le h with h | h
  · rw [K.prop_ne_iff, if_pos h]
    constructor
    · rintro ⟨(⟨h1, h2⟩ | ⟨h1, h2⟩), h3⟩
      · exact absurd (le_trans h1 h.le) h2
      · exact ⟨not_le.1 h1, h2, h3⟩
    · rintro ⟨h1, h2, h3⟩
      exact ⟨Or.inr ⟨not_le.2 h1, h2⟩, h3⟩
  · refine iff_of_false ?_ ?_
    · rw [h]
      rintro ⟨h1, -⟩
      exact h1 rfl
    · rintro ⟨h1, h2, -⟩
      linarith

theorem sweep_symm (p q v : Pt) : Sweep p q v ↔ Sweep q p v := by
  unfold Sweep
  rcases lt_trichotomy p.y q.y with h | h | h
  · rw [if_pos h, if_neg (not_lt.2 h.le), ne_comm]
  · rw [h]
    exact iff_of_false (fun hh => hh.1 rfl) (fun hh => hh.1 rfl)
  · rw [if_neg (not_lt.2 h.le), if_pos h, ne_comm]

/-! ### symmetries of "meet" and "proper" -/

theorem segsMeet_swap_left (a b p q : Pt) : SegsMeet a b p q ↔ SegsMeet b a p q := by
  constructor <;> rintro ⟨x, h1, h2⟩ <;> exact ⟨x, (K.onSeg_symm _ _ _).1 h1, h2⟩

theorem segsMeet_swap_right (a b p q : Pt) : SegsMeet a b p q ↔ SegsMeet a b q p := by
  constructor <;> rintro ⟨x, h1, h2⟩ <;> exact ⟨x, h1, (K.onSeg_symm _ _ _).1 h2⟩

theorem proper_swap_left (a b p q : Pt) : Proper a b p q ↔ Proper b a p q := by
  unfold Proper
  rw [K.cross_swap a b p, K.cross_swap a b q, neg_mul_neg, mul_comm (Spec.cross p q b)]

theorem proper_swap_right (a b p q : Pt) : Proper a b p q ↔ Proper a b q p := by
  unfold Proper
  rw [K.cross_swap p q a, K.cross_swap p q b, neg_mul_neg, mul_comm (Spec.cross a b q)]

/-! ### arithmetic -/

/-- the three-term identity: the point of the line `uv` at the level of `z`, seen from `wz` -/
theorem yid (u v w z : Pt) :
    (v.y - z.y) * Spec.cross w z u + (z.y - u.y) * Spec.cross w z v
      + (z.y - w.y) * Spec.cross u v z = 0 := by
  simp only [K.cross_def]; ring

theorem neg_of_nonneg_mul_neg {c x : Rat} (hc : 0 ≤ c) (h : c * x < 0) : x < 0 := by
  by_contra hx
  have := mul_nonneg hc (not_lt.1 hx)
  linarith

theorem pos_of_nonneg_mul_pos {c x : Rat} (hc : 0 ≤ c) (h : 0 < c * x) : 0 < x := by
  by_contra hx
  have := mul_nonneg hc (neg_nonneg.2 (not_lt.1 hx))
  linarith

theorem frac_of_weak_opp {x y : Rat} (h : x * y ≤ 0) (hne : x ≠ y) :
    0 ≤ x / (x - y) ∧ x / (x - y) ≤ 1 := by
  rcases lt_or_gt_of_ne hne with hlt | hgt
  · -- x < y
    have hx : x ≤ 0 := by
      by_contra hcon
      have := mul_pos (not_le.1 hcon) (lt_trans (not_le.1 hcon) hlt)
      linarith
    have hy : 0 ≤ y := by
      by_contra hcon
      have := mul_pos_of_neg_of_neg (lt_trans hlt (not_le.1 hcon)) (not_le.1 hcon)
      linarith
    exact ⟨div_nonneg_of_nonpos hx (by linarith), (div_le_one_of_neg (by linarith)).2 (by linarith)⟩
  · -- y < x
    have hx : 0 ≤ x := by
      by_contra hcon
      have := mul_pos_of_neg_of_neg (not_le.1 hcon) (lt_trans hgt (not_le.1 hcon))
      linarith
    have hy : y ≤ 0 := by
      by_contra hcon
      have := mul_pos (lt_trans (not_le.1 hcon) hgt) (not_le.1 hcon)
      linarith
    exact ⟨div_nonneg hx (by linarith), (div_le_one (by linarith)).2 (by linarith)⟩

/-- `p` and `q` weakly on opposite sides of the non-horizontal segment `ab`, and the levels
    of `pq` within the levels of `ab`: the segments meet. -/
theorem meet_of_straddle {a b p q : Pt} (hab : a.y ≠ b.y)
    (hlo : min a.y b.y ≤ min p.y q.y) (hhi : max p.y q.y ≤ max a.y b.y)
    (h : Spec.cross a b p * Spec.cross a b q ≤ 0) : SegsMeet a b p q := by
  by_cases he : Spec.cross a b p = Spec.cross a b q
  · have h0 : Spec.cross a b p = 0 := by
      rw [← he] at h
      nlinarith [mul_self_nonneg (Spec.cross a b p)]
    exact K.segsMeet_of_onSeg_left (K.onSeg_of_cross_yrange hab h0
      (le_trans hlo (min_le_left _ _)) (le_trans (le_max_left _ _) hhi))
  · obtain ⟨ht0, ht1⟩ := frac_of_weak_opp h he
    have hD : Spec.cross a b p - Spec.cross a b q ≠ 0 := sub_ne_zero.2 he
    generalize ht : Spec.cross a b p / (Spec.cross a b p - Spec.cross a b q) = t at ht0 ht1
    have hbt := K.between_of_param p.y q.y t ht0 ht1
    refine ⟨⟨p.x + t * (q.x - p.x), p.y + t * (q.y - p.y)⟩, ?_, K.onSeg_of_param ht0 ht1 rfl rfl⟩
    refine K.onSeg_of_cross_yrange hab ?_ (le_trans hlo hbt.1) (le_trans hbt.2 hhi)
    have hlin : Spec.cross a b ⟨p.x + t * (q.x - p.x), p.y + t * (q.y - p.y)⟩
        = Spec.cross a b p - t * (Spec.cross a b p - Spec.cross a b q) := by
      simp only [K.cross_def]; ring
    rw [hlin, ← ht, div_mul_cancel₀ _ hD, sub_self]

/-! ### the four non-trivial level orders (upward `ab`, upward `pq`) -/

theorem neg_of_neg_mul_pos {x y : Rat} (hx : x < 0) (h : 0 < x * y) : y < 0 := by
  by_contra hy
  nlinarith [mul_nonneg (neg_nonneg.2 hx.le) (not_lt.1 hy)]

/-- `a.y ≤ p.y ≤ q.y < b.y`: both rays can cross, neither endpoint is swept -/
theorem case_mid {a b p q : Pt} (h1 : a.y ≤ p.y) (h2 : p.y ≤ q.y) (h3 : q.y < b.y)
    (hn : ¬ SegsMeet a b p q) : 0 < Spec.cross a b p ↔ 0 < Spec.cross a b q := by
  have hab : a.y ≠ b.y := by intro h; linarith
  have hm : ¬ Spec.cross a b p * Spec.cross a b q ≤ 0 := fun h => hn (meet_of_straddle hab
    (by rw [min_eq_left (by linarith), min_eq_left h2]; exact h1)
    (by rw [max_eq_right h2, max_eq_right (by linarith)]; exact h3.le) h)
  have hpos := not_le.1 hm
  constructor
  · intro h; exact pos_of_nonneg_mul_pos h.le hpos
  · intro h; rw [mul_comm] at hpos; exact pos_of_nonneg_mul_pos h.le hpos

/-- `p.y < a.y ≤ b.y ≤ q.y`: both endpoints can be swept, neither ray can cross -/
theorem case_out {a b p q : Pt} (h1 : p.y < a.y) (h2 : a.y ≤ b.y) (h3 : b.y ≤ q.y)
    (hn : ¬ SegsMeet a b p q) : Spec.cross p q a < 0 ↔ Spec.cross p q b < 0 := by
  have hpq : p.y ≠ q.y := by intro h; linarith
  have hm : ¬ Spec.cross p q a * Spec.cross p q b ≤ 0 := fun h =>
    hn ((K.segsMeet_symm _ _ _ _).1 (meet_of_straddle hpq
      (by rw [min_eq_left (by linarith), min_eq_left h2]; exact h1.le)
      (by rw [max_eq_right h2, max_eq_right (by linarith)]; exact h3) h))
  have hpos := not_le.1 hm
  constructor
  · intro h; exact neg_of_neg_mul_pos h hpos
  · intro h; rw [mul_comm] at hpos; exact neg_of_neg_mul_pos h hpos

/-- `p.y < a.y ≤ q.y < b.y`: the ray from `q` can cross, `a` can be swept -/
theorem case_lo {a b p q : Pt} (h1 : p.y < a.y) (h2 : a.y ≤ q.y) (h3 : q.y < b.y)
    (hn : ¬ SegsMeet a b p q) : 0 < Spec.cross a b q ↔ Spec.cross p q a < 0 := by
  have hq : Spec.cross a b q ≠ 0 := fun h => hn (K.segsMeet_of_onSeg_right
    (K.onSeg_of_cross_yrange (by intro h; linarith) h
      (by rw [min_eq_left (by linarith)]; exact h2) (by rw [max_eq_right (by linarith)]; exact h3.le)))
  have ha : Spec.cross p q a ≠ 0 := fun h => hn ((K.segsMeet_symm _ _ _ _).1 (K.segsMeet_of_onSeg_left
    (K.onSeg_of_cross_yrange (by intro h; linarith) h
      (by rw [min_eq_left (by linarith)]; exact h1.le) (by rw [max_eq_right (by linarith)]; exact h2))))
  have hp : ¬ Proper a b p q := fun h => hn (K.proper_cross_meet h.1 h.2)
  have I1 := yid a b p q
  have I2 : (q.y - a.y) * Spec.cross a b p + (a.y - p.y) * Spec.cross a b q
      + (b.y - a.y) * Spec.cross p q a = 0 := by
    simp only [K.cross_def]; ring
  have d1 : 0 < b.y - q.y := by linarith
  have d2 : 0 ≤ q.y - a.y := by linarith
  have d3 : 0 < q.y - p.y := by linarith
  have d4 : 0 < a.y - p.y := by linarith
  have d5 : 0 < b.y - a.y := by linarith
  constructor
  · intro h2pos
    by_contra hcon
    have h3pos : 0 < Spec.cross p q a := lt_of_le_of_ne (not_lt.1 hcon) (Ne.symm ha)
    have m1 := mul_pos d1 h3pos
    have m2 := mul_pos d3 h2pos
    have m3 := mul_pos d4 h2pos
    have m4 := mul_pos d5 h3pos
    have h4 : Spec.cross p q b < 0 := neg_of_nonneg_mul_neg d2 (by linarith)
    have h1' : Spec.cross a b p < 0 := neg_of_nonneg_mul_neg d2 (by linarith)
    exact hp ⟨mul_neg_of_neg_of_pos h1' h2pos, mul_neg_of_pos_of_neg h3pos h4⟩
  · intro h3neg
    by_contra hcon
    have h2neg : Spec.cross a b q < 0 := lt_of_le_of_ne (not_lt.1 hcon) hq
    have m1 := mul_pos d1 (neg_pos.2 h3neg)
    have m2 := mul_pos d3 (neg_pos.2 h2neg)
    have m3 := mul_pos d4 (neg_pos.2 h2neg)
    have m4 := mul_pos d5 (neg_pos.2 h3neg)
    have h4 : 0 < Spec.cross p q b := pos_of_nonneg_mul_pos d2 (by linarith)
    have h1' : 0 < Spec.cross a b p := pos_of_nonneg_mul_pos d2 (by linarith)
    exact hp ⟨mul_neg_of_pos_of_neg h1' h2neg, mul_neg_of_neg_of_pos h3neg h4⟩

/-- `a.y ≤ p.y < b.y ≤ q.y`: the ray from `p` can cross, `b` can be swept -/
theorem case_hi {a b p q : Pt} (h1 : a.y ≤ p.y) (h2 : p.y < b.y) (h3 : b.y ≤ q.y)
    (hn : ¬ SegsMeet a b p q) : 0 < Spec.cross a b p ↔ Spec.cross p q b < 0 := by
  have hq : Spec.cross a b p ≠ 0 := fun h => hn (K.segsMeet_of_onSeg_left
    (K.onSeg_of_cross_yrange (by intro h; linarith) h
      (by rw [min_eq_left (by linarith)]; exact h1) (by rw [max_eq_right (by linarith)]; exact h2.le)))
  have hb : Spec.cross p q b ≠ 0 := fun h => hn ((K.segsMeet_symm _ _ _ _).1 (K.segsMeet_of_onSeg_right
    (K.onSeg_of_cross_yrange (by intro h; linarith) h
      (by rw [min_eq_left (by linarith)]; exact h2.le) (by rw [max_eq_right (by linarith)]; exact h3))))
  have hp : ¬ Proper a b p q := fun h => hn (K.proper_cross_meet h.1 h.2)
  have I1 : (b.y - p.y) * Spec.cross p q a + (p.y - a.y) * Spec.cross p q b
      + (q.y - p.y) * Spec.cross a b p = 0 := by
    simp only [K.cross_def]; ring
  have I2 : (q.y - b.y) * Spec.cross a b p + (b.y - p.y) * Spec.cross a b q
      + (b.y - a.y) * Spec.cross p q b = 0 := by
    simp only [K.cross_def]; ring
  have d1 : 0 < b.y - p.y := by linarith
  have d2 : 0 ≤ p.y - a.y := by linarith
  have d3 : 0 < q.y - p.y := by linarith
  have d4 : 0 ≤ q.y - b.y := by linarith
  have d5 : 0 < b.y - a.y := by linarith
  constructor
  · intro h1pos
    by_contra hcon
    have h4pos : 0 < Spec.cross p q b := lt_of_le_of_ne (not_lt.1 hcon) (Ne.symm hb)
    have m1 := mul_nonneg d2 h4pos.le
    have m2 := mul_pos d3 h1pos
    have m3 := mul_nonneg d4 h1pos.le
    have m4 := mul_pos d5 h4pos
    have h3 : Spec.cross p q a < 0 := neg_of_nonneg_mul_neg d1.le (by linarith)
    have h2' : Spec.cross a b q < 0 := neg_of_nonneg_mul_neg d1.le (by linarith)
    exact hp ⟨mul_neg_of_pos_of_neg h1pos h2', mul_neg_of_neg_of_pos h3 h4pos⟩
  · intro h4neg
    by_contra hcon
    have h1neg : Spec.cross a b p < 0 := lt_of_le_of_ne (not_lt.1 hcon) hq
    have m1 := mul_nonneg d2 (neg_nonneg.2 h4neg.le)
    have m2 := mul_pos d3 (neg_pos.2 h1neg)
    have m3 := mul_nonneg d4 (neg_nonneg.2 h1neg.le)
    have m4 := mul_pos d5 (neg_pos.2 h4neg)
    have h3 : 0 < Spec.cross p q a := pos_of_nonneg_mul_pos d1.le (by linarith)
    have h2' : 0 < Spec.cross a b q := pos_of_nonneg_mul_pos d1.le (by linarith)
    exact hp ⟨mul_neg_of_neg_of_pos h1neg h2', mul_neg_of_pos_of_neg h3 h4neg⟩

/-! ### the identity for upward segments -/

theorem and3_false {A B C : Prop} (h : ¬ (A ∧ B)) : (A ∧ B ∧ C) ↔ False :=
  iff_of_false (fun hh => h ⟨hh.1, hh.2.1⟩) id

theorem and3_true {A B C : Prop} (hA : A) (hB : B) : (A ∧ B ∧ C) ↔ C :=
  ⟨fun h => h.2.2, fun h => ⟨hA, hB, h⟩⟩

/-- the per-edge identity, upward `ab` and upward `pq` -/
theorem core_nomeet {a b p q : Pt} (hab : a.y ≤ b.y) (hpq : p.y ≤ q.y) (hn : ¬ SegsMeet a b p q) :
    (Cross a b p ↔ Cross a b q) ↔ (Sweep p q a ↔ Sweep p q b) := by
  rw [cross_up hab, cross_up hab, sweep_up hpq, sweep_up hpq]
  by_cases c1 : q.y < a.y
  · rw [and3_false (C := 0 < Spec.cross a b p) (by rintro ⟨h1, h2⟩; linarith),
      and3_false (C := 0 < Spec.cross a b q) (by rintro ⟨h1, h2⟩; linarith),
      and3_false (C := Spec.cross p q a < 0) (by rintro ⟨h1, h2⟩; linarith),
      and3_false (C := Spec.cross p q b < 0) (by rintro ⟨h1, h2⟩; linarith)]
  have c1' : a.y ≤ q.y := not_lt.1 c1
  by_cases c6 : b.y ≤ p.y
  · rw [and3_false (C := 0 < Spec.cross a b p) (by rintro ⟨h1, h2⟩; linarith),
      and3_false (C := 0 < Spec.cross a b q) (by rintro ⟨h1, h2⟩; linarith),
      and3_false (C := Spec.cross p q a < 0) (by rintro ⟨h1, h2⟩; linarith),
      and3_false (C := Spec.cross p q b < 0) (by rintro ⟨h1, h2⟩; linarith)]
  have c6' : p.y < b.y := not_le.1 c6
  by_cases ca : a.y ≤ p.y <;> by_cases cb : q.y < b.y
  · -- a.y ≤ p.y ≤ q.y < b.y
    rw [and3_true (C := 0 < Spec.cross a b p) ca c6', and3_true (C := 0 < Spec.cross a b q) c1' cb,
      and3_false (C := Spec.cross p q a < 0) (by rintro ⟨h1, h2⟩; linarith),
      and3_false (C := Spec.cross p q b < 0) (by rintro ⟨h1, h2⟩; linarith)]
    exact iff_of_true (case_mid ca hpq cb hn) Iff.rfl
  · -- a.y ≤ p.y < b.y ≤ q.y
    have cb' : b.y ≤ q.y := not_lt.1 cb
    rw [and3_true (C := 0 < Spec.cross a b p) ca c6',
      and3_false (C := 0 < Spec.cross a b q) (by rintro ⟨h1, h2⟩; linarith),
      and3_false (C := Spec.cross p q a < 0) (by rintro ⟨h1, h2⟩; linarith),
      and3_true (C := Spec.cross p q b < 0) c6' cb']
    have := case_hi ca c6' cb' hn
    tauto
  · -- p.y < a.y ≤ q.y < b.y
    have ca' : p.y < a.y := not_le.1 ca
    rw [and3_false (C := 0 < Spec.cross a b p) (by rintro ⟨h1, h2⟩; linarith),
      and3_true (C := 0 < Spec.cross a b q) c1' cb,
      and3_true (C := Spec.cross p q a < 0) ca' c1',
      and3_false (C := Spec.cross p q b < 0) (by rintro ⟨h1, h2⟩; linarith)]
    have := case_lo ca' c1' cb hn
    tauto
  · -- p.y < a.y ≤ b.y ≤ q.y
    have ca' : p.y < a.y := not_le.1 ca
    have cb' : b.y ≤ q.y := not_lt.1 cb
    rw [and3_false (C := 0 < Spec.cross a b p) (by rintro ⟨h1, h2⟩; linarith),
      and3_false (C := 0 < Spec.cross a b q) (by rintro ⟨h1, h2⟩; linarith),
      and3_true (C := Spec.cross p q a < 0) ca' c1',
      and3_true (C := Spec.cross p q b < 0) c6' cb']
    exact iff_of_true Iff.rfl (case_out ca' hab cb' hn)

/-! ### proper crossings -/

/-- signs at a proper crossing -/
theorem proper_signs {a b p q : Pt} (h : Proper a b p q) :
    (0 < Spec.cross a b p ∧ Spec.cross a b q < 0 ∧ Spec.cross p q a < 0 ∧ 0 < Spec.cross p q b) ∨
    (Spec.cross a b p < 0 ∧ 0 < Spec.cross a b q ∧ 0 < Spec.cross p q a ∧ Spec.cross p q b < 0) := by
  obtain ⟨h12, h34⟩ := h
  have hD : Spec.cross a b p - Spec.cross a b q = Spec.cross p q b - Spec.cross p q a := by
    simp only [K.cross_def]; ring
  rcases lt_trichotomy (Spec.cross a b p) 0 with h1 | h1 | h1
  · right
    have h2 : 0 < Spec.cross a b q := by
      by_contra hc
      nlinarith [mul_nonneg (neg_nonneg.2 h1.le) (neg_nonneg.2 (not_lt.1 hc))]
    have h3 : 0 < Spec.cross p q a := by
      by_contra hc
      have h3' := not_lt.1 hc
      have h4' : Spec.cross p q b < 0 := by linarith
      nlinarith [mul_nonneg (neg_nonneg.2 h3') (neg_nonneg.2 h4'.le)]
    have h4 : Spec.cross p q b < 0 := by
      by_contra hc
      nlinarith [mul_nonneg h3.le (not_lt.1 hc)]
    exact ⟨h1, h2, h3, h4⟩
  · rw [h1, zero_mul] at h12; exact absurd h12 (lt_irrefl _)
  · left
    have h2 : Spec.cross a b q < 0 := by
      by_contra hc
      nlinarith [mul_nonneg h1.le (not_lt.1 hc)]
    have h3 : Spec.cross p q a < 0 := by
      by_contra hc
      have h3' := not_lt.1 hc
      have h4' : 0 < Spec.cross p q b := by linarith
      nlinarith [mul_nonneg h3' h4'.le]
    have h4 : 0 < Spec.cross p q b := by
      by_contra hc
      nlinarith [mul_nonneg (neg_nonneg.2 h3.le) (neg_nonneg.2 (not_lt.1 hc))]
    exact ⟨h1, h2, h3, h4⟩

/-- the common level of a proper crossing -/
theorem proper_level (a b p q : Pt) :
    Spec.cross a b p * q.y - Spec.cross a b q * p.y
      = Spec.cross p q b * a.y - Spec.cross p q a * b.y := by
  simp only [K.cross_def]; ring

/-- at a proper crossing of upward segments the level ranges overlap, half-open -/
theorem proper_levels {a b p q : Pt} (hab : a.y ≤ b.y) (hpq : p.y ≤ q.y) (h : Proper a b p q) :
    a.y ≤ q.y ∧ p.y < b.y := by
  have S1 : Spec.cross a b p * (q.y - p.y) + Spec.cross p q b * (b.y - a.y)
      + (Spec.cross a b p - Spec.cross a b q) * (p.y - b.y) = 0 := by
    simp only [K.cross_def]; ring
  have S2 : (Spec.cross a b p - Spec.cross a b q) * (a.y - q.y) - Spec.cross p q a * (b.y - a.y)
      - Spec.cross a b q * (q.y - p.y) = 0 := by
    simp only [K.cross_def]; ring
  have d1 : 0 ≤ b.y - a.y := by linarith
  have d2 : 0 ≤ q.y - p.y := by linarith
  rcases proper_signs h with ⟨h1, h2, h3, h4⟩ | ⟨h1, h2, h3, h4⟩
  · constructor
    · by_contra hc
      have hc' : 0 < a.y - q.y := by linarith
      have m1 := mul_nonneg (neg_nonneg.2 h2.le) d2
      have m2 := mul_nonneg (neg_nonneg.2 h3.le) d1
      have m3 := mul_pos (sub_pos.2 (lt_trans h2 h1)) hc'
      linarith
    · by_contra hc
      have hc' : 0 ≤ p.y - b.y := by linarith
      have m1 := mul_nonneg h1.le d2
      have m2 := mul_nonneg h4.le d1
      have m3 := mul_nonneg (sub_pos.2 (lt_trans h2 h1)).le hc'
      have e1 : Spec.cross a b p * (q.y - p.y) = 0 := by linarith
      have e2 : Spec.cross p q b * (b.y - a.y) = 0 := by linarith
      have e3 : (Spec.cross a b p - Spec.cross a b q) * (p.y - b.y) = 0 := by linarith
      have f2 : b.y - a.y = 0 := (mul_eq_zero.1 e2).resolve_left h4.ne'
      have f3 : p.y - b.y = 0 := (mul_eq_zero.1 e3).resolve_left (sub_pos.2 (lt_trans h2 h1)).ne'
      have : Spec.cross a b p = 0 := by
        rw [K.cross_def]
        have g1 : p.y - a.y = 0 := by linarith
        rw [g1, f2]; ring
      linarith
  · constructor
    · by_contra hc
      have hc' : 0 < a.y - q.y := by linarith
      have m1 := mul_nonneg h2.le d2
      have m2 := mul_nonneg h3.le d1
      have m3 := mul_pos (sub_pos.2 (lt_trans h1 h2)) hc'
      linarith
    · by_contra hc
      have hc' : 0 ≤ p.y - b.y := by linarith
      have m1 := mul_nonneg (neg_nonneg.2 h1.le) d2
      have m2 := mul_nonneg (neg_nonneg.2 h4.le) d1
      have m3 := mul_nonneg (sub_pos.2 (lt_trans h1 h2)).le hc'
      have e1 : Spec.cross a b p * (q.y - p.y) = 0 := by linarith
      have e2 : Spec.cross p q b * (b.y - a.y) = 0 := by linarith
      have e3 : (Spec.cross a b q - Spec.cross a b p) * (p.y - b.y) = 0 := by linarith
      have f2 : b.y - a.y = 0 := (mul_eq_zero.1 e2).resolve_left h4.ne
      have f3 : p.y - b.y = 0 := (mul_eq_zero.1 e3).resolve_left (sub_pos.2 (lt_trans h1 h2)).ne'
      have : Spec.cross a b p = 0 := by
        rw [K.cross_def]
        have g1 : p.y - a.y = 0 := by linarith
        rw [g1, f2]; ring
      linarith

/-- the per-edge identity at a proper crossing, upward `ab` and upward `pq`: off by one -/
theorem core_proper {a b p q : Pt} (hab : a.y ≤ b.y) (hpq : p.y ≤ q.y) (h : Proper a b p q) :
    (Cross a b p ↔ Cross a b q) ↔ ¬ (Sweep p q a ↔ Sweep p q b) := by
  rw [cross_up hab, cross_up hab, sweep_up hpq, sweep_up hpq]
  obtain ⟨c1', c6'⟩ := proper_levels hab hpq h
  have hs := proper_signs h
  by_cases ca : a.y ≤ p.y <;> by_cases cb : q.y < b.y
  · rw [and3_true (C := 0 < Spec.cross a b p) ca c6', and3_true (C := 0 < Spec.cross a b q) c1' cb,
      and3_false (C := Spec.cross p q a < 0) (by rintro ⟨h1, h2⟩; linarith),
      and3_false (C := Spec.cross p q b < 0) (by rintro ⟨h1, h2⟩; linarith)]
    rcases hs with ⟨h1, h2, h3, h4⟩ | ⟨h1, h2, h3, h4⟩
    · have : ¬ 0 < Spec.cross a b q := not_lt.2 h2.le
      tauto
    · have : ¬ 0 < Spec.cross a b p := not_lt.2 h1.le
      tauto
  · have cb' : b.y ≤ q.y := not_lt.1 cb
    rw [and3_true (C := 0 < Spec.cross a b p) ca c6',
      and3_false (C := 0 < Spec.cross a b q) (by rintro ⟨h1, h2⟩; linarith),
      and3_false (C := Spec.cross p q a < 0) (by rintro ⟨h1, h2⟩; linarith),
      and3_true (C := Spec.cross p q b < 0) c6' cb']
    rcases hs with ⟨h1, h2, h3, h4⟩ | ⟨h1, h2, h3, h4⟩
    · have : ¬ Spec.cross p q b < 0 := not_lt.2 h4.le
      tauto
    · have : ¬ 0 < Spec.cross a b p := not_lt.2 h1.le
      tauto
  · have ca' : p.y < a.y := not_le.1 ca
    rw [and3_false (C := 0 < Spec.cross a b p) (by rintro ⟨h1, h2⟩; linarith),
      and3_true (C := 0 < Spec.cross a b q) c1' cb,
      and3_true (C := Spec.cross p q a < 0) ca' c1',
      and3_false (C := Spec.cross p q b < 0) (by rintro ⟨h1, h2⟩; linarith)]
    rcases hs with ⟨h1, h2, h3, h4⟩ | ⟨h1, h2, h3, h4⟩
    · have : ¬ 0 < Spec.cross a b q := not_lt.2 h2.le
      tauto
    · have : ¬ Spec.cross p q a < 0 := not_lt.2 h3.le
      tauto
  · have ca' : p.y < a.y := not_le.1 ca
    have cb' : b.y ≤ q.y := not_lt.1 cb
    rw [and3_false (C := 0 < Spec.cross a b p) (by rintro ⟨h1, h2⟩; linarith),
      and3_false (C := 0 < Spec.cross a b q) (by rintro ⟨h1, h2⟩; linarith),
      and3_true (C := Spec.cross p q a < 0) ca' c1',
      and3_true (C := Spec.cross p q b < 0) c6' cb']
    rcases hs with ⟨h1, h2, h3, h4⟩ | ⟨h1, h2, h3, h4⟩
    · have : ¬ Spec.cross p q b < 0 := not_lt.2 h4.le
      tauto
    · have : ¬ Spec.cross p q a < 0 := not_lt.2 h3.le
      tauto

/-! ### any orientation -/

theorem cross_swap' (a b p : Pt) : Cross a b p ↔ Cross b a p := K.cross_symm a b p

/-- the per-edge identity, Prop form, any orientation -/
theorem edge_iff_nomeet (a b p q : Pt) (hn : ¬ SegsMeet a b p q) :
    (Cross a b p ↔ Cross a b q) ↔ (Sweep p q a ↔ Sweep p q b) := by
  rcases le_total a.y b.y with hab | hab <;> rcases le_total p.y q.y with hpq | hpq
  · exact core_nomeet hab hpq hn
  · have := core_nomeet hab hpq (fun h => hn ((segsMeet_swap_right _ _ _ _).2 h))
    rw [sweep_symm q p a, sweep_symm q p b] at this
    rw [← this]; exact iff_comm
  · have := core_nomeet hab hpq (fun h => hn ((segsMeet_swap_left _ _ _ _).2 h))
    rw [← cross_swap' a b p, ← cross_swap' a b q] at this
    rw [this]; exact iff_comm
  · have := core_nomeet hab hpq (fun h => hn ((segsMeet_swap_left _ _ _ _).2
      ((segsMeet_swap_right _ _ _ _).2 h)))
    rw [← cross_swap' a b p, ← cross_swap' a b q, sweep_symm q p a, sweep_symm q p b,
      iff_comm (a := Cross a b q), iff_comm (a := Sweep p q b)] at this
    exact this

/-- the per-edge identity at a proper crossing, Prop form, any orientation -/
theorem edge_iff_proper (a b p q : Pt) (h : Proper a b p q) :
    (Cross a b p ↔ Cross a b q) ↔ ¬ (Sweep p q a ↔ Sweep p q b) := by
  rcases le_total a.y b.y with hab | hab <;> rcases le_total p.y q.y with hpq | hpq
  · exact core_proper hab hpq h
  · have := core_proper hab hpq ((proper_swap_right _ _ _ _).1 h)
    rw [sweep_symm q p a, sweep_symm q p b] at this
    rw [← this]; exact iff_comm
  · have := core_proper hab hpq ((proper_swap_left _ _ _ _).1 h)
    rw [← cross_swap' a b p, ← cross_swap' a b q] at this
    rw [this, iff_comm (a := Sweep p q b)]
  · have := core_proper hab hpq ((proper_swap_left _ _ _ _).1 ((proper_swap_right _ _ _ _).1 h))
    rw [← cross_swap' a b p, ← cross_swap' a b q, sweep_symm q p a, sweep_symm q p b,
      iff_comm (a := Cross a b q), iff_comm (a := Sweep p q b)] at this
    exact this

theorem bne_eq_bne_iff (x y z w : Bool) :
    ((x != y) = (z != w)) ↔ ((x = true ↔ y = true) ↔ (z = true ↔ w = true)) := by
  cases x <;> cases y <;> cases z <;> cases w <;> decide

theorem bne_eq_not_bne_iff (x y z w : Bool) :
    ((x != y) = !(z != w)) ↔ ((x = true ↔ y = true) ↔ ¬ (z = true ↔ w = true)) := by
  cases x <;> cases y <;> cases z <;> cases w <;> decide

end Jordan

open Jordan

/-- PER-EDGE IDENTITY: an edge `ab` that does not meet the closed segment `pq` is crossed by
    the rays from `p` and from `q` an even number of times iff its endpoints are on the same
    side of the "U" (ray from `p`, segment `pq`, ray from `q`). -/
theorem edge_identity (a b p q : Pt) (h : Spec.segsMeet a b p q = false) :
    (Spec.crosses a b p != Spec.crosses a b q) = (sweep p q a != sweep p q b) := by
  rw [bne_eq_bne_iff, spec_crosses_iff, spec_crosses_iff, sweep_iff, sweep_iff]
  refine edge_iff_nomeet a b p q (fun hm => ?_)
  rw [(spec_segsMeet_iff a b p q).2 hm] at h
  cases h

/-- at a proper crossing the identity is off by one -/
theorem edge_flip (a b p q : Pt) (h : proper a b p q = true) :
    (Spec.crosses a b p != Spec.crosses a b q) = !(sweep p q a != sweep p q b) := by
  rw [bne_eq_not_bne_iff, spec_crosses_iff, spec_crosses_iff, sweep_iff, sweep_iff]
  exact edge_iff_proper a b p q ((proper_iff a b p q).1 h)

#print axioms edge_identity
#print axioms edge_flip

end Geo
