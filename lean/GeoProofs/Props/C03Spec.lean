/-
  GeoProofs.Props.C03Spec — ADEQUACY OF THE JUDGE OF THE CONTAINS-PROPERTY.

  `Spec.covers a b` (cut every edge of `b` at its crossings with the edges of `a`, sample the
  cut points and the midpoints between them, then test one interior point of every hole of
  `a`) is EXACT for valid shapes: it holds iff `b` occupies some point and every point of `b`
  is a point of `a` (`spec_covers_iff`, all 16 kind pairs, polygons with holes on both sides).
  No clause of `Spec.covers` had to be corrected.  The statement was first brute-forced on
  about 180 000 pairs of small valid shapes (hand-made corner cases and random ones) against
  a quarter-lattice + crossing-point sampling: no disagreement.

  Ingredients (GeoProofs/CoversSpec/):
  * `Cuts.segInside_iff`      — cut-and-sample decides "the whole segment consists of members"
                                 for every membership predicate that is piecewise constant
                                 with respect to the edge list;
  * `Conn.conn_of_parity_eq`  — THE CONNECTION THEOREM, the missing half of the polygonal
                                 Jordan curve theorem: two points off a simple closed chain
                                 with the same crossing parity are joined by a polygonal path
                                 avoiding the chain (so: inside and outside are connected);
  * `Interior.interiorPoint_spec` — `Spec.interiorPoint` of a simple ring is strictly inside;
  * `Region.poly_covers_iff`  — boundary of `b` inside `a` ⇒ (`b ⊆ a` ⇔ no hole sample of `a`
                                 lies in `b`);
  * `Thin.not_covers_region_in_curve` — a region never fits in a curve.
-/
import GeoProofs.CoversSpec.Main

namespace Geo

/-- point-set meaning of "b is covered by a": b occupies some point and every point of b is a
    point of a -/
def Covers (a b : Spec.Shape) : Prop :=
  (∃ p, b.member p = true) ∧ ∀ p, b.member p = true → a.member p = true

/-- **adequacy of the judge**: on valid shapes `Spec.covers` decides `Covers` -/
theorem spec_covers_iff (a b : Spec.Shape) (ha : a.valid = true) (hb : b.valid = true) :
    Spec.covers a b = true ↔ Covers a b :=
  CS.spec_covers_iff a b ha hb

/-- the "only two components" half of the Jordan curve theorem for simple closed polygonal
    chains, with crossing parity as the notion of side -/
theorem jordan_two_components (L : List Pt) (hs : Spec.simpleRing L = true) {p q : Pt}
    (hp : Spec.onBoundary (Spec.edges L true) p = false)
    (hq : Spec.onBoundary (Spec.edges L true) q = false)
    (hpar : Spec.parity (Spec.edges L true) p = Spec.parity (Spec.edges L true) q) :
    CS.Conn (Spec.edges L true) p q :=
  CS.conn_of_parity_eq L hs hp hq hpar

/-- the hole clause of `Spec.covers` is sound because the sample point is strictly inside -/
theorem spec_interiorPoint_strict (h : List Pt) (hs : Spec.simpleRing h = true) :
    ∃ x, Spec.interiorPoint h = some x ∧ Spec.strictIn (Spec.edges h true) x = true :=
  CS.interiorPoint_spec h hs

/-! ### consequences for the judge -/

theorem spec_covers_refl (a : Spec.Shape) (ha : a.valid = true) : Spec.covers a a = true :=
  (spec_covers_iff a a ha ha).2 ⟨CS.exists_member_of_valid a ha, fun _ h => h⟩

theorem spec_covers_trans (a b c : Spec.Shape) (ha : a.valid = true) (hb : b.valid = true)
    (hc : c.valid = true) (h1 : Spec.covers a b = true) (h2 : Spec.covers b c = true) :
    Spec.covers a c = true := by
  obtain ⟨-, h1'⟩ := (spec_covers_iff a b ha hb).1 h1
  obtain ⟨hne, h2'⟩ := (spec_covers_iff b c hb hc).1 h2
  exact (spec_covers_iff a c ha hc).2 ⟨hne, fun p hp => h1' p (h2' p hp)⟩

/-- covering implies intersecting, at the level of the two judges -/
theorem spec_covers_imp_meets (a b : Spec.Shape) (ha : a.valid = true) (hb : b.valid = true)
    (h : Spec.covers a b = true) : Spec.meets a b = true := by
  obtain ⟨⟨p, hp⟩, hall⟩ := (spec_covers_iff a b ha hb).1 h
  exact (IX.meets_iff_holes (IX.factsH_of_valid a ha) (IX.factsH_of_valid b hb)).2
    ⟨p, hall p hp, hp⟩

/-- mutual covering is equality of point sets -/
theorem spec_covers_antisymm (a b : Spec.Shape) (ha : a.valid = true) (hb : b.valid = true)
    (h1 : Spec.covers a b = true) (h2 : Spec.covers b a = true) (p : Pt) :
    a.member p = b.member p := by
  obtain ⟨-, h1'⟩ := (spec_covers_iff a b ha hb).1 h1
  obtain ⟨-, h2'⟩ := (spec_covers_iff b a hb ha).1 h2
  rw [Bool.eq_iff_iff]
  exact ⟨h2' p, h1' p⟩

/-! ### kernel-evaluated instances of the delicate configurations -/

section examples
open Spec
private def sqr (a b : Int) : List Pt := [⟨a,a⟩,⟨b,a⟩,⟨b,b⟩,⟨a,b⟩,⟨a,a⟩]
private def exA : Shape := .poly (sqr 0 8) [sqr 3 5]
private def exL : Shape := .poly [⟨0,0⟩,⟨4,0⟩,⟨4,2⟩,⟨2,2⟩,⟨2,4⟩,⟨0,4⟩] []

/-- a hole of the argument lying over the hole of the receiver -/
example : exA.valid = true ∧ covers exA (.poly (sqr 1 7) [sqr 2 6]) = true := by decide +kernel
/-- the same argument without its hole swallows the receiver's hole -/
example : covers exA (.poly (sqr 1 7) []) = false := by decide +kernel
/-- the argument's hole is exactly the receiver's hole -/
example : covers exA (.poly (sqr 1 7) [sqr 3 5]) = true := by decide +kernel
/-- through a reflex vertex and back inside / through it and out -/
example : exL.valid = true ∧ covers exL (.line [⟨0,0⟩,⟨2,2⟩,⟨4,0⟩]) = true ∧
    covers exL (.line [⟨0,0⟩,⟨4,4⟩]) = false := by decide +kernel
/-- along the boundary; a region in its own boundary curve -/
example : covers exL (.line [⟨4,0⟩,⟨4,2⟩,⟨2,2⟩,⟨2,4⟩]) = true ∧
    covers (.line (sqr 0 4)) (.rect ⟨0,0⟩ ⟨4,4⟩) = false := by decide +kernel
end examples

end Geo

#print axioms Geo.spec_covers_iff
#print axioms Geo.jordan_two_components
#print axioms Geo.spec_interiorPoint_strict
#print axioms Geo.spec_covers_refl
#print axioms Geo.spec_covers_trans
#print axioms Geo.spec_covers_imp_meets
#print axioms Geo.spec_covers_antisymm
