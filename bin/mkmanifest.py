#!/usr/bin/env python3
"""writes MANIFEST.json from bin/props.py (levels come from what is discharged now)"""
import json, os, sys
VERIF = os.path.dirname(os.path.dirname(os.path.abspath(__file__)))
sys.path.insert(0, os.path.join(VERIF, "bin"))
import props
ALL = ["C%02d" % i for i in range(1, 20)]
checks = []
for pid in ALL:
    if pid not in props.PROPS:
        continue
    cfg = props.PROPS[pid]
    level = cfg["level"] if cfg.get("theorems") else "translation_validation"
    if cfg.get("level") == "other":
        level = "other"
    trs = [t["name"] for t in cfg.get("translators", [])]
    mods = ([cfg["proof_module"]] if cfg.get("proof_module") else []) + [e["module"] for e in cfg.get("extra_modules", [])]
    nthm = len(set(cfg.get("theorems", []))) + sum(len(e["theorems"]) for e in cfg.get("extra_modules", []))
    tie = ""
    if trs:
        tie = (" Regenerated from /repo on every run by the translators [" + ", ".join(trs) + "] (Generated/*.lean); bridge theorems prove the "
               "regenerated definitions equal to the hand-written model, so a change to that source text must re-check them.")
    text = cfg.get("claim", cfg["rule"]) + tie + f" {nthm} theorems in {len(mods)} proof modules are audited (#print axioms) on every run."
    technique = ("Lean 4: theorems about an executable model; model tied to the code by (a) translators that regenerate Lean definitions from the Go source "
                 "on every run with bridge theorems to the hand-written model"
                 + (" [" + ", ".join(trs) + "]" if trs else " [none for this property]")
                 + " and (b) a correspondence run of model and implementation on one op stream, judged by an executable Lean specification")
    checks.append({
        "property_id": pid,
        "quick_cmd": f"bin/check {pid} --tier quick",
        "thorough_cmd": f"bin/check {pid} --tier thorough",
        "evidence_file": f"/verif/evidence/{pid}.json",
        "replay_cmd_template": f"bin/check {pid} --replay {{path}}",
        "engine": "lean4-model+correspondence",
        "level_claimed": {"category": level, "text": text, "design_ref": cfg.get("design_ref", "DESIGN.md section 5, " + pid)},
        "level_note": cfg.get("note", "Lean kernel; axioms propext/Classical.choice/Quot.sound only; model tied to /repo by regenerated definitions + bridge theorems where listed, and by the correspondence run; float bridge proved (DESIGN.md section 3)"),
        "technique": cfg.get("technique", technique),
    })
na = [{"property_id": p, "reason": props.NOT_YET.get(p, "check not built yet")} for p in ALL if p not in props.PROPS]
m = {
    "version": 1,
    "setup_cmd": "bin/setup",
    "hooks": {
        "guard": "verif",
        "enable": "go build -tags verif (the harness in /verif/harness replaces github.com/tidwall/geojson with /repo)",
        "baseline_off_cmd": "cd /repo && GOFLAGS=-mod=mod GOPROXY=off GOSUMDB=off GOTOOLCHAIN=local go test -vet=off -count=1 ./...",
        "source_commits": props.HOOK_COMMITS,
        "add_only": True,
    },
    "engines": [{"name": "lean4-model+correspondence", "path": "/verif/bin/check", "serves_properties": [c["property_id"] for c in checks],
                 "kind_free_text": "Lean 4 model + theorems (lake build, #print axioms audit), Go harness driving the real code, line-protocol correspondence, executable Lean specification as judge"}],
    "checks": checks,
    "not_applicable": na,
    "notes": "Fix commits in /repo and known findings are listed in known_findings.json; see DESIGN.md.",
}
json.dump(m, open(os.path.join(VERIF, "MANIFEST.json"), "w"), indent=1)
print("checks:", len(checks), "not_applicable:", len(na))
